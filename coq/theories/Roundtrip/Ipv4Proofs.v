(* Roundtrip/Ipv4Proofs.v -- C08 for Ipv4Header *)
From EP Require Import Base.Bytes Roundtrip.Common Roundtrip.CommonProofs Roundtrip.Ipv4 Roundtrip.Spec Checksum.Model.
From Coq Require Import ZArith Lia ZifyN.
Local Open Scope N_scope.

(* ---- byte level facts (complete sweeps) ---- *)
Definition b0_of (ol : N) : N := bor (shl8 4 4) (as_u8 (ol / 4 + 5)).
Definition b1_of (dscp ecn : N) : N := bor (shl8 dscp 2) ecn.
Definition b6_of (df mf : bool) (hi : N) : N :=
  bor (let r := 0 in let r := if df then bor r 64 else r in let r := if mf then bor r 32 else r in r)
      (band hi 31).

Definition P0 (ol : N) : bool :=
  if ol mod 4 =? 0 then
    let b := b0_of ol in
    (shr b 4 =? 4) && (band b 15 * 4 =? 20 + ol) && negb (band b 15 <? 5) && (b <? 256)
    && (as_u8 ((band b 15 - 5) * 4) =? ol) && (b =? 4 * 16 + (5 + ol / 4))
  else true.
Lemma sweepP0 : all_below 41 P0 = true.
Proof. vm_compute. reflexivity. Qed.

Lemma b0_dec ol : ol <= 40 -> ol mod 4 = 0 ->
  let b := b0_of ol in
  shr b 4 = 4 /\ band b 15 * 4 = 20 + ol /\ (band b 15 <? 5) = false /\ b < 256
  /\ as_u8 ((band b 15 - 5) * 4) = ol /\ b = 4 * 16 + (5 + ol / 4).
Proof.
  intros H1 H2. pose proof (all_below_spec 41 P0 sweepP0 ol ltac:(lia)) as S.
  unfold P0 in S. rewrite H2 in S. change (0 =? 0) with true in S. cbv iota zeta in S.
  cbv zeta.
  assert (Fs : (shr (b0_of ol) 4 = 4 /\ band (b0_of ol) 15 * 4 = 20 + ol) /\
               (negb (band (b0_of ol) 15 <? 5) = true /\ b0_of ol < 256) /\
               (as_u8 ((band (b0_of ol) 15 - 5) * 4) = ol /\ b0_of ol = 4 * 16 + (5 + ol / 4))).
  { bsplit S. repeat split; assumption. }
  destruct Fs as ((A1 & A2) & (A3 & A4) & (A5 & A6)). apply negb_true_iff in A3.
  repeat split; assumption.
Qed.

Definition P1 (dscp : N) : bool :=
  all_below 4 (fun ecn => let b := b1_of dscp ecn in
    (shr b 2 =? dscp) && (band b 3 =? ecn) && (b <? 256) && (b =? dscp * 4 + ecn)).
Lemma sweepP1 : all_below 64 P1 = true.
Proof. vm_compute. reflexivity. Qed.

Lemma b1_dec dscp ecn : dscp < 64 -> ecn < 4 ->
  let b := b1_of dscp ecn in shr b 2 = dscp /\ band b 3 = ecn /\ b < 256 /\ b = dscp * 4 + ecn.
Proof.
  intros H1 H2. pose proof (all_below_spec 64 P1 sweepP1 dscp ltac:(lia)) as S. unfold P1 in S.
  pose proof (all_below_spec 4 _ S ecn ltac:(lia)) as S'. cbv beta zeta in S'. cbv zeta.
  bsplit S'. repeat split; assumption.
Qed.

Definition P6 (hi : N) : bool :=
  all_bool (fun df => all_bool (fun mf => let b := b6_of df mf hi in
    Bool.eqb (nz (band b 64)) df && Bool.eqb (nz (band b 32)) mf && (band b 31 =? hi) && (b <? 256)
    && (b =? (bit df * 2 + bit mf) * 32 + hi))).
Lemma sweepP6 : all_below 32 P6 = true.
Proof. vm_compute. reflexivity. Qed.

Lemma b6_dec df mf hi : hi < 32 ->
  let b := b6_of df mf hi in
  nz (band b 64) = df /\ nz (band b 32) = mf /\ band b 31 = hi /\ b < 256
  /\ b = (bit df * 2 + bit mf) * 32 + hi.
Proof.
  intros H. pose proof (all_below_spec 32 P6 sweepP6 hi ltac:(lia)) as S. unfold P6 in S.
  pose proof (all_bool_spec _ (all_bool_spec _ S df) mf) as S'. cbv beta zeta in S'. cbv zeta.
  bsplit S'. repeat split; assumption.
Qed.

Definition Q0 (b : N) : bool :=
  if (shr b 4 =? 4) && negb (band b 15 <? 5) then
    let hl := band b 15 * 4 in
    (b0_of (hl - 20) =? b) && (hl <=? 60) && ((hl - 20) mod 4 =? 0) && (20 <=? hl)
    && (as_u8 ((band b 15 - 5) * 4) =? hl - 20)
  else true.
Lemma sweepQ0 : all_below 256 Q0 = true.
Proof. vm_compute. reflexivity. Qed.

Lemma Q0_facts b : b < 256 -> shr b 4 = 4 -> (band b 15 <? 5) = false ->
  let hl := band b 15 * 4 in
  b0_of (hl - 20) = b /\ hl <= 60 /\ (hl - 20) mod 4 = 0 /\ 20 <= hl /\ as_u8 ((band b 15 - 5) * 4) = hl - 20.
Proof.
  intros Hb H1 H2. pose proof (all_byte Q0 sweepQ0 b Hb) as S. unfold Q0 in S.
  rewrite H1, H2 in S. change (4 =? 4) with true in S. cbv iota zeta beta in S. cbn [negb andb] in S.
  cbv zeta. bsplit S. repeat split; assumption.
Qed.

Definition Q1 (b : N) : bool :=
  (b1_of (shr b 2) (band b 3) =? b) && (shr b 2 <? 64) && (band b 3 <? 4).
Lemma sweepQ1 : all_below 256 Q1 = true.
Proof. vm_compute. reflexivity. Qed.
Lemma Q1_facts b : b < 256 -> b1_of (shr b 2) (band b 3) = b /\ shr b 2 < 64 /\ band b 3 < 4.
Proof.
  intros Hb. pose proof (all_byte Q1 sweepQ1 b Hb) as S. unfold Q1 in S. bsplit S. repeat split; assumption.
Qed.

Definition Q6 (b : N) : bool :=
  (b6_of (nz (band b 64)) (nz (band b 32)) (band b 31) =? N.land b 127) && (band b 31 <? 32).
Lemma sweepQ6 : all_below 256 Q6 = true.
Proof. vm_compute. reflexivity. Qed.
Lemma Q6_facts b : b < 256 ->
  b6_of (nz (band b 64)) (nz (band b 32)) (band b 31) = N.land b 127 /\ band b 31 < 32.
Proof.
  intros Hb. pose proof (all_byte Q6 sweepQ6 b Hb) as S. unfold Q6 in S. bsplit S. split; assumption.
Qed.

(* ---- structure ---- *)
Lemma wf_i4o_facts o : wf_i4o o = true ->
  i4o_len o <= 40 /\ i4o_len o mod 4 = 0 /\ len (i4o_buf o) = 40 /\ bytes_ok (i4o_buf o).
Proof. unfold wf_i4o. intros W. bsplit W. repeat split; try assumption. apply bytes_okb_spec; assumption. Qed.

Lemma len4_explicit (l : bytes) : len l = 4 -> bytes_ok l ->
  exists a b c d, l = [a; b; c; d] /\ a < 256 /\ b < 256 /\ c < 256 /\ d < 256.
Proof.
  intros L OK.
  destruct l as [|a [|b [|c [|d [|x l]]]]]; try (vm_compute in L; discriminate).
  - exists a, b, c, d. bytes_ok_split OK. repeat split; assumption.
  - rewrite !len_cons in L. lia.
Qed.

Lemma wf_ip4_facts h : wf_ip4 h = true ->
  (i4_dscp h < 64 /\ i4_ecn h < 4 /\ i4_total_len h < 65536 /\ i4_identification h < 65536) /\
  (i4_fragment_offset h < 8192 /\ i4_time_to_live h < 256 /\ i4_protocol h < 256 /\
   i4_header_checksum h < 65536) /\
  (len (i4_source h) = 4 /\ bytes_ok (i4_source h) /\ len (i4_destination h) = 4 /\
   bytes_ok (i4_destination h)) /\ wf_i4o (i4_options h) = true.
Proof.
  unfold wf_ip4. intros W. bsplit W.
  repeat split; try assumption; apply bytes_okb_spec; assumption.
Qed.

Lemma byte0_is h : ip4_byte0 h = b0_of (i4o_len (i4_options h)). Proof. reflexivity. Qed.
Lemma byte1_is h : ip4_byte1 h = b1_of (i4_dscp h) (i4_ecn h). Proof. reflexivity. Qed.
Lemma byte6_is h : ip4_byte6 h =
  b6_of (i4_dont_fragment h) (i4_more_fragments h) ((i4_fragment_offset h / 256) mod 256).
Proof. reflexivity. Qed.

Lemma frag_hi fo : fo < 8192 -> (fo / 256) mod 256 < 32.
Proof. intros H. dmlia. Qed.

(* the fixed part of a well-formed header *)
Lemma fixed_wf h ck : wf_ip4 h = true -> exists f, ip4_fixed h ck = Some f /\ len f = 20 /\
  exists s0 s1 s2 s3 d0 d1 d2 d3, i4_source h = [s0; s1; s2; s3] /\ i4_destination h = [d0; d1; d2; d3] /\
  f = [ip4_byte0 h; ip4_byte1 h; (i4_total_len h / 256) mod 256; i4_total_len h mod 256;
       (i4_identification h / 256) mod 256; i4_identification h mod 256;
       ip4_byte6 h; ip4_byte7 h; i4_time_to_live h; i4_protocol h; (ck / 256) mod 256; ck mod 256;
       s0; s1; s2; s3; d0; d1; d2; d3].
Proof.
  intros W. destruct (wf_ip4_facts h W) as (_ & _ & (LS & OS & LD & OD) & _).
  destruct (len4_explicit _ LS OS) as (s0 & s1 & s2 & s3 & ES & _).
  destruct (len4_explicit _ LD OD) as (d0 & d1 & d2 & d3 & ED & _).
  unfold ip4_fixed. rewrite ES, ED. eexists. split; [reflexivity|]. split; [reflexivity|].
  exists s0, s1, s2, s3, d0, d1, d2, d3. repeat split.
Qed.

Lemma ip4_to_bytes_wf h : wf_ip4 h = true -> exists f, ip4_fixed h (i4_header_checksum h) = Some f /\
  ip4_to_bytes h = Some (f ++ take (i4o_len (i4_options h)) (i4o_buf (i4_options h))).
Proof.
  intros W. destruct (fixed_wf h (i4_header_checksum h) W) as (f & EF & LF & _).
  destruct (wf_ip4_facts h W) as (_ & _ & _ & WO). destruct (wf_i4o_facts _ WO) as (OL & OM & BL & BO).
  exists f. split; [exact EF|]. unfold ip4_to_bytes. rewrite EF, BL. change (40 =? 40) with true.
  unfold ip4_header_len.
  replace (20 + i4o_len (i4_options h) <=? 60) with true by (symmetry; apply N.leb_le; lia).
  cbn [andb]. f_equal. apply take_app_more. rewrite LF. reflexivity.
Qed.

Lemma i4o_as_slice_wf o : wf_i4o o = true -> i4o_as_slice o = Some (take (i4o_len o) (i4o_buf o)).
Proof.
  intros W. destruct (wf_i4o_facts _ W) as (OL & OM & BL & BO). unfold i4o_as_slice. rewrite BL.
  replace (i4o_len o <=? 40) with true by (symmetry; apply N.leb_le; lia). reflexivity.
Qed.

Lemma len_take_i4o o : wf_i4o o = true -> len (take (i4o_len o) (i4o_buf o)) = i4o_len o.
Proof. intros W. destruct (wf_i4o_facts _ W) as (OL & OM & BL & BO). rewrite len_take, BL. lia. Qed.

Theorem ip4_ser_agree h out : wf_ip4 h = true ->
  exists e, ip4_to_bytes h = Some e /\ ip4_write_raw out h = Some (out ++ e) /\ len e = ip4_header_len h.
Proof.
  intros W. destruct (ip4_to_bytes_wf h W) as (f & EF & ET).
  destruct (wf_ip4_facts h W) as (_ & _ & _ & WO).
  destruct (fixed_wf h (i4_header_checksum h) W) as (f' & EF' & LF & _).
  rewrite EF in EF'. apply Some_inj in EF'. subst f'.
  eexists. split; [exact ET|]. split.
  - unfold ip4_write_raw, ip4_write_internal. rewrite EF, (i4o_as_slice_wf _ WO). reflexivity.
  - rewrite len_app, LF, (len_take_i4o _ WO). reflexivity.
Qed.

Lemma wf_set_checksum h c : wf_ip4 h = true -> c < 65536 -> wf_ip4 (ip4_set_checksum h c) = true.
Proof.
  unfold wf_ip4. cbn [ip4_set_checksum i4_dscp i4_ecn i4_total_len i4_identification i4_fragment_offset
      i4_time_to_live i4_protocol i4_header_checksum i4_source i4_destination i4_options].
  intros W Hc. apply N.ltb_lt in Hc. rewrite Hc. rewrite !andb_true_iff in W. rewrite !andb_true_iff.
  intuition.
Qed.

(* write() = to_bytes of the value whose checksum field holds calc_header_checksum *)
Theorem ip4_write_recomputes e h out : wf_ip4 h = true ->
  exists ck, ip4_calc_checksum e h = Some ck /\
    (ck < 65536 -> exists b, ip4_to_bytes (ip4_set_checksum h ck) = Some b /\ ip4_write e out h = Some (out ++ b)) /\
    (i4_header_checksum h = ck -> exists b, ip4_to_bytes h = Some b /\ ip4_write e out h = Some (out ++ b)).
Proof.
  intros W. destruct (wf_ip4_facts h W) as (_ & _ & (LS & OS & LD & OD) & WO).
  destruct (len4_explicit _ LS OS) as (s0 & s1 & s2 & s3 & ES & _).
  destruct (len4_explicit _ LD OD) as (d0 & d1 & d2 & d3 & ED & _).
  unfold ip4_calc_checksum. rewrite ES, ED, (i4o_as_slice_wf _ WO).
  eexists. split; [reflexivity|].
  set (ck := checksum64 _ _).
  assert (CK : ip4_calc_checksum e h = Some ck).
  { unfold ip4_calc_checksum. rewrite ES, ED, (i4o_as_slice_wf _ WO). reflexivity. }
  assert (G : forall h', wf_ip4 h' = true -> h' = ip4_set_checksum h ck ->
              exists b, ip4_to_bytes h' = Some b /\ ip4_write e out h = Some (out ++ b)).
  { intros h' W' E'. destruct (ip4_to_bytes_wf h' W') as (f & EF & ET).
    eexists. split; [exact ET|]. unfold ip4_write. rewrite CK. unfold ip4_write_internal.
    rewrite (i4o_as_slice_wf _ WO).
    assert (EF2 : ip4_fixed h ck = Some f).
    { rewrite <- EF. rewrite E'. reflexivity. }
    rewrite EF2. rewrite E'. reflexivity. }
  split.
  - intros Hck. apply (G (ip4_set_checksum h ck)); [|reflexivity].
    apply wf_set_checksum; assumption.
  - intros Hck. apply (G h W). rewrite <- Hck. destruct h. reflexivity.
Qed.

Lemma ip4_slice_from_slice_app F O rest b0 :
  len F = 20 -> rd F 0 = Some b0 -> shr b0 4 = 4 -> (band b0 15 <? 5) = false ->
  band b0 15 * 4 = 20 + len O ->
  ip4_slice_from_slice (F ++ O ++ rest) = Ok (F ++ O).
Proof.
  intros LF R V I H. unfold ip4_slice_from_slice.
  rewrite !len_app, LF.
  replace (20 + (len O + len rest) <? 20) with false by (symmetry; apply N.ltb_ge; lia).
  assert (R' : rd (F ++ O ++ rest) 0 = Some b0).
  { unfold rd in *. rewrite nth_error_app1; [assumption|]. apply nth_error_Some. congruence. }
  rewrite R', V, I, H. change (4 =? 4) with true. cbn [negb].
  replace (20 + (len O + len rest) <? 20 + len O) with false by (symmetry; apply N.ltb_ge; lia).
  f_equal. rewrite app_assoc. apply take_app_len. rewrite len_app, LF. reflexivity.
Qed.

Theorem ip4_dec_enc h rest : wf_ip4 h = true ->
  exists e, ip4_to_bytes h = Some e /\ ip4_from_slice (e ++ rest) = Ok (ip4_norm h, rest)
            /\ ip4_read (e ++ rest) = Ok (ip4_norm h, rest) /\ ip4_eqb (ip4_norm h) h = true.
Proof.
  intros W. destruct (wf_ip4_facts h W) as ((R1 & R2 & R3 & R4) & (R5 & R6 & R7 & R8) & (LS & OS & LD & OD) & WO).
  destruct (wf_i4o_facts _ WO) as (OL & OM & BL & BO).
  destruct (ip4_to_bytes_wf h W) as (f & EF & ET).
  destruct (fixed_wf h (i4_header_checksum h) W) as (f' & EF' & LF & s0 & s1 & s2 & s3 & d0 & d1 & d2 & d3 & ES & ED & FX).
  rewrite EF in EF'. apply Some_inj in EF'. subst f'.
  set (O := take (i4o_len (i4_options h)) (i4o_buf (i4_options h))) in *.
  assert (LO : len O = i4o_len (i4_options h)) by (apply len_take_i4o; assumption).
  exists (f ++ O). split; [exact ET|].
  destruct (b0_dec (i4o_len (i4_options h)) OL OM) as (A1 & A2 & A3 & A4 & A5 & _).
  destruct (b1_dec (i4_dscp h) (i4_ecn h) R1 R2) as (B1 & B2 & B3 & _).
  pose proof (frag_hi _ R5) as HI.
  destruct (b6_dec (i4_dont_fragment h) (i4_more_fragments h) _ HI) as (C1 & C2 & C3 & C4 & _).
  rewrite <- byte0_is in A1, A2, A3, A4, A5. rewrite <- byte1_is in B1, B2, B3.
  rewrite <- byte6_is in C1, C2, C3, C4. cbv zeta in *.
  assert (FO : be16 ((i4_fragment_offset h / 256) mod 256) (i4_fragment_offset h mod 256) = i4_fragment_offset h)
    by (apply u16_be_roundtrip; clear - R5; lia).
  assert (NRM : {| i4_dscp := i4_dscp h; i4_ecn := i4_ecn h; i4_total_len := i4_total_len h;
          i4_identification := i4_identification h;
          i4_dont_fragment := i4_dont_fragment h; i4_more_fragments := i4_more_fragments h;
          i4_fragment_offset := i4_fragment_offset h;
          i4_time_to_live := i4_time_to_live h; i4_protocol := i4_protocol h;
          i4_header_checksum := i4_header_checksum h;
          i4_source := [s0; s1; s2; s3]; i4_destination := [d0; d1; d2; d3];
          i4_options := {| i4o_len := i4o_len (i4_options h); i4o_buf := O ++ zeros (40 - i4o_len (i4_options h)) |} |}
          = ip4_norm h).
  { unfold ip4_norm, ip4_norm_opt. rewrite ES, ED. reflexivity. }
  assert (HDR : ip4_to_header (f ++ O) = Ok (ip4_norm h)).
  { rewrite FX. cbn [app]. unfold ip4_to_header.
    replace (40 <? len O) with false by (symmetry; apply N.ltb_ge; lia).
    f_equal. rewrite <- NRM. unfold ip4_byte7.
    rewrite !u16_be_roundtrip by assumption.
    rewrite B1, B2, C1, C2, C3, FO, LO. unfold as_u8.
    rewrite (N.mod_small (i4o_len (i4_options h))) by lia. reflexivity. }
  split; [|split].
  - unfold ip4_from_slice. rewrite <- app_assoc.
    rewrite (ip4_slice_from_slice_app f O rest (ip4_byte0 h)); try assumption;
      [|rewrite FX; reflexivity|rewrite A2, LO; reflexivity].
    rewrite HDR. unfold slice_from, ip4_header_len, ip4_norm, ip4_norm_opt.
    cbn [i4_options i4o_len]. rewrite !len_app, LF.
    replace (20 + i4o_len (i4_options h) <=? 20 + (len O + len rest)) with true by (symmetry; apply N.leb_le; lia).
    rewrite app_assoc, (drop_app_len (f ++ O) rest) by (rewrite len_app, LF, LO; reflexivity).
    reflexivity.
  - unfold ip4_read, read_exact. rewrite <- app_assoc, FX. cbn [app].
    match goal with |- context [len (?x :: ?tl) <? 1] =>
      replace (len (x :: tl) <? 1) with false by (symmetry; apply N.ltb_ge; rewrite len_cons; lia);
      change (take 1 (x :: tl)) with [x]; change (drop 1 (x :: tl)) with tl end.
    cbv iota beta. rewrite A1. change (4 =? 4) with true. cbn [negb].
    match goal with |- context [len (?x1 :: ?x2 :: ?x3 :: ?x4 :: ?x5 :: ?x6 :: ?x7 :: ?x8 :: ?x9 :: ?x10 :: ?x11
        :: ?x12 :: ?x13 :: ?x14 :: ?x15 :: ?x16 :: ?x17 :: ?x18 :: ?x19 :: O ++ rest) <? 19] =>
      set (T := [x1; x2; x3; x4; x5; x6; x7; x8; x9; x10; x11; x12; x13; x14; x15; x16; x17; x18; x19]);
      change (x1 :: x2 :: x3 :: x4 :: x5 :: x6 :: x7 :: x8 :: x9 :: x10 :: x11
        :: x12 :: x13 :: x14 :: x15 :: x16 :: x17 :: x18 :: x19 :: O ++ rest) with (T ++ O ++ rest) end.
    rewrite len_app. change (len T) with 19.
    replace (19 + len (O ++ rest) <? 19) with false by (symmetry; apply N.ltb_ge; lia).
    rewrite (take_app_len T) by reflexivity. rewrite (drop_app_len T) by reflexivity.
    unfold T. cbv iota beta. rewrite A3, A5.
    destruct (N.eqb_spec (i4o_len (i4_options h)) 0) as [Z|NZ].
    + assert (ON : O = []) by (apply len_0_nil; lia). rewrite ON. cbn [app].
      f_equal. rewrite <- NRM. unfold ip4_byte7.
      rewrite !u16_be_roundtrip by assumption.
      rewrite B1, B2, C1, C2, C3, FO, ON, Z. reflexivity.
    + replace (i4o_len (i4_options h) <=? 40) with true by (symmetry; apply N.leb_le; lia).
      rewrite len_app, LO.
      replace (i4o_len (i4_options h) + len rest <? i4o_len (i4_options h)) with false by (symmetry; apply N.ltb_ge; lia).
      rewrite (take_app_len O rest) by (symmetry; exact LO).
      rewrite (drop_app_len O rest) by (symmetry; exact LO).
      f_equal. rewrite <- NRM. unfold ip4_byte7.
      rewrite !u16_be_roundtrip by assumption.
      rewrite B1, B2, C1, C2, C3, FO. reflexivity.
  - unfold ip4_eqb, ip4_norm. cbn [i4_dscp i4_ecn i4_total_len i4_identification i4_dont_fragment
      i4_more_fragments i4_fragment_offset i4_time_to_live i4_protocol i4_header_checksum i4_source
      i4_destination i4_options].
    rewrite !N.eqb_refl, !Bool.eqb_reflx, !bytes_eqb_refl. cbn [andb].
    unfold i4o_eqb. rewrite (i4o_as_slice_wf _ WO). unfold i4o_as_slice, ip4_norm_opt. cbn [i4o_len i4o_buf].
    fold O. rewrite len_app, LO, len_zeros.
    replace (i4o_len (i4_options h) <=? i4o_len (i4_options h) + (40 - i4o_len (i4_options h))) with true
      by (symmetry; apply N.leb_le; lia).
    rewrite (take_app_len O) by (symmetry; exact LO). apply bytes_eqb_refl.
Qed.

Theorem ip4_enc_dec bs h rest : bytes_ok bs -> ip4_from_slice bs = Ok (h, rest) ->
  wf_ip4 h = true /\ ip4_norm h = h /\
  exists e, ip4_to_bytes h = Some e /\ bs = take (ip4_header_len h) bs ++ rest
            /\ agree (ip4_keep_mask (ip4_header_len h)) e (take (ip4_header_len h) bs)
            /\ ip4_from_slice e = Ok (h, []).
Proof.
  intros OK H. unfold ip4_from_slice, ip4_slice_from_slice in H.
  destruct (len bs <? 20) eqn:L; [discriminate|].
  destruct bs as [|b0 [|b1 [|b2 [|b3 [|b4 [|b5 [|b6 [|b7 [|b8 [|b9 [|b10 [|b11 [|b12 [|b13 [|b14
    [|b15 [|b16 [|b17 [|b18 [|b19 r]]]]]]]]]]]]]]]]]]]]; try (vm_compute in L; discriminate).
  clear L.
  match type of H with context [rd ?s 0] => change (rd s 0) with (Some b0) in H end.
  cbv iota beta zeta in H.
  destruct (shr b0 4 =? 4) eqn:V; [|discriminate]. cbn [negb] in H. apply N.eqb_eq in V.
  destruct (band b0 15 <? 5) eqn:L1; [discriminate|].
  set (hl := band b0 15 * 4) in *.
  set (bs := b0 :: b1 :: b2 :: b3 :: b4 :: b5 :: b6 :: b7 :: b8 :: b9 :: b10 :: b11 :: b12 :: b13
             :: b14 :: b15 :: b16 :: b17 :: b18 :: b19 :: r) in *.
  destruct (len bs <? hl) eqn:L2; [discriminate|].
  apply N.ltb_ge in L2.
  pose proof OK as OK'. unfold bs in OK'. bytes_ok_split OK'.
  destruct (Q0_facts b0 B V L1) as (Q1 & Q2 & Q3 & Q4 & Q5). fold hl in Q1, Q2, Q3, Q4, Q5.
  destruct (Q1_facts b1 B0) as (U1 & U2 & U3).
  destruct (Q6_facts b6 B5) as (V1 & V2).
  set (F := [b0; b1; b2; b3; b4; b5; b6; b7; b8; b9; b10; b11; b12; b13; b14; b15; b16; b17; b18; b19]).
  assert (EB : bs = F ++ r) by reflexivity.
  set (O := take (hl - 20) r).
  assert (LR : hl - 20 <= len r).
  { rewrite EB, len_app in L2. change (len F) with 20 in L2. clear - L2 Q4. lia. }
  assert (LO : len O = hl - 20) by (unfold O; rewrite len_take; clear - LR; lia).
  assert (TK : take hl bs = F ++ O).
  { rewrite EB. apply take_app_more. change (len F) with 20. clear - Q4. lia. }
  assert (BOo : bytes_ok O) by (unfold O; apply bytes_ok_take; exact OK').
  rewrite TK in H. unfold F in H. cbn [app] in H. unfold ip4_to_header in H.
  replace (40 <? len O) with false in H by (symmetry; apply N.ltb_ge; clear - LO Q2; lia).
  unfold slice_from, ip4_header_len in H. cbn [i4_options i4o_len] in H.
  assert (AL : as_u8 (len O) = hl - 20) by (unfold as_u8; rewrite LO; apply N.mod_small; clear - Q2; lia).
  rewrite AL in H.
  replace (20 + (hl - 20) <=? len bs) with true in H by (symmetry; apply N.leb_le; clear - L2 Q4; lia).
  apply Ok_inj in H. apply pair_equal_spec in H. destruct H as [Hh Hrest].
  assert (Hl : ip4_header_len h = hl).
  { rewrite <- Hh. unfold ip4_header_len. cbn [i4_options i4o_len]. clear - Q4. lia. }
  assert (FOB : be16 (band b6 31) b7 < 8192) by (unfold be16; clear - V2 B6; lia).
  assert (WF : wf_ip4 h = true).
  { rewrite <- Hh. unfold wf_ip4, wf_i4o.
    cbn [i4_dscp i4_ecn i4_total_len i4_identification i4_fragment_offset i4_time_to_live i4_protocol
      i4_header_checksum i4_source i4_destination i4_options i4o_len i4o_buf].
    pose proof (be16_bound b2 b3 B1 B2) as X1. pose proof (be16_bound b4 b5 B3 B4) as X2.
    pose proof (be16_bound b10 b11 B9 B10) as X3.
    apply N.ltb_lt in X1, X2, X3, U2, U3, FOB, B7, B8. rewrite X1, X2, X3, U2, U3, FOB, B7, B8. cbn [andb].
    change (len [b12; b13; b14; b15] =? 4) with true. change (len [b16; b17; b18; b19] =? 4) with true.
    replace (bytes_okb [b12; b13; b14; b15]) with true
      by (symmetry; apply bytes_okb_spec; repeat (apply bytes_ok_explicit_cons; [assumption|]); constructor).
    replace (bytes_okb [b16; b17; b18; b19]) with true
      by (symmetry; apply bytes_okb_spec; repeat (apply bytes_ok_explicit_cons; [assumption|]); constructor).
    cbn [andb].
    replace (hl - 20 <=? 40) with true by (symmetry; apply N.leb_le; clear - Q2; lia).
    rewrite Q3. change (0 =? 0) with true.
    rewrite len_app, LO, len_zeros.
    replace (hl - 20 + (40 - (hl - 20)) =? 40) with true by (symmetry; apply N.eqb_eq; clear - Q2; lia).
    cbn [andb]. apply bytes_okb_spec. apply bytes_ok_app. split; [exact BOo|apply bytes_ok_zeros]. }
  assert (NM : ip4_norm h = h).
  { rewrite <- Hh. unfold ip4_norm, ip4_norm_opt.
    cbn [i4_dscp i4_ecn i4_total_len i4_identification i4_dont_fragment
      i4_more_fragments i4_fragment_offset i4_time_to_live i4_protocol i4_header_checksum i4_source
      i4_destination i4_options i4o_len i4o_buf].
    rewrite (take_app_len O) by (symmetry; exact LO). rewrite LO. reflexivity. }
  split; [exact WF|]. split; [exact NM|].
  destruct (ip4_dec_enc h [] WF) as (e & E1 & E2 & _ & _).
  exists e. split; [exact E1|]. rewrite Hl.
  split; [rewrite <- Hrest; replace (20 + (hl - 20)) with hl by (clear - Q4; lia); symmetry; apply take_drop|].
  rewrite app_nil_r, NM in E2. split; [|exact E2].
  destruct (ip4_to_bytes_wf h WF) as (f & EF & ET). rewrite ET in E1. apply Some_inj in E1.
  rewrite <- E1, TK.
  apply agree_of_masked.
  - unfold ip4_keep_mask. rewrite !len_app, !len_ones, LO. change (len F) with 20. change (len [127]) with 1.
    clear - Q4. lia.
  - assert (FX : f = [b0; b1; b2; b3; b4; b5; N.land b6 127; b7; b8; b9; b10; b11; b12; b13;
                      b14; b15; b16; b17; b18; b19]).
    { destruct (fixed_wf h (i4_header_checksum h) WF) as (f' & EF' & _ & s0 & s1 & s2 & s3 & d0 & d1 & d2 & d3 & ES & ED & FX).
      rewrite EF in EF'. apply Some_inj in EF'. subst f'. rewrite FX.
      rewrite byte0_is, byte1_is, byte6_is. unfold ip4_byte7.
      revert ES ED. rewrite <- Hh.
      cbn [i4_dscp i4_ecn i4_total_len i4_identification i4_dont_fragment
        i4_more_fragments i4_fragment_offset i4_time_to_live i4_protocol i4_header_checksum i4_source
        i4_destination i4_options i4o_len i4o_buf].
      intros ES ED. injection ES as <- <- <- <-. injection ED as <- <- <- <-.
      rewrite Q1, U1.
      pose proof (u16_to_be_be16 b2 b3 B1 B2) as Y1. pose proof (u16_to_be_be16 b4 b5 B3 B4) as Y2.
      pose proof (u16_to_be_be16 b10 b11 B9 B10) as Y3.
      pose proof (u16_to_be_be16 (band b6 31) b7 ltac:(clear - V2; lia) B6) as Y4.
      unfold u16_to_be in Y1, Y2, Y3, Y4.
      injection Y1 as -> ->. injection Y2 as -> ->. injection Y3 as -> ->. injection Y4 as -> ->.
      rewrite V1. reflexivity. }
    rewrite FX, <- Hh. cbn [i4_options i4o_len i4o_buf].
    rewrite (take_app_len O) by (symmetry; exact LO).
    unfold ip4_keep_mask.
    change F with ([b0; b1; b2; b3; b4; b5] ++ [b6] ++ [b7; b8; b9; b10; b11; b12; b13; b14; b15; b16; b17; b18; b19]).
    rewrite <- !app_assoc.
    change 6 with (len [b0; b1; b2; b3; b4; b5]).
    rewrite masked_ones_app by (repeat (apply bytes_ok_explicit_cons; [assumption|]); constructor).
    rewrite (masked_app [127] _ [b6]) by reflexivity.
    replace (hl - 7) with (len ([b7; b8; b9; b10; b11; b12; b13; b14; b15; b16; b17; b18; b19] ++ O))
      by (rewrite len_app, LO; change (len [b7; b8; b9; b10; b11; b12; b13; b14; b15; b16; b17; b18; b19]) with 13; clear - Q4; lia).
    rewrite masked_ones by (repeat (apply bytes_ok_explicit_cons; [assumption|]); exact BOo).
    reflexivity.
Qed.

(* ---- the serialiser writes the RFC 791 layout ---- *)
Theorem ip4_spec h : wf_ip4 h = true ->
  ip4_to_bytes h = Some (ipv4_layout (i4_dscp h) (i4_ecn h) (i4_total_len h) (i4_identification h)
    (i4_dont_fragment h) (i4_more_fragments h) (i4_fragment_offset h) (i4_time_to_live h) (i4_protocol h)
    (i4_header_checksum h) (i4_source h) (i4_destination h)
    (take (i4o_len (i4_options h)) (i4o_buf (i4_options h)))).
Proof.
  intros W. destruct (wf_ip4_facts h W) as ((R1 & R2 & R3 & R4) & (R5 & R6 & R7 & R8) & _ & WO).
  destruct (wf_i4o_facts _ WO) as (OL & OM & BL & BO).
  destruct (ip4_to_bytes_wf h W) as (f & EF & ET). rewrite ET. f_equal.
  destruct (fixed_wf h (i4_header_checksum h) W) as (f' & EF' & _ & s0 & s1 & s2 & s3 & d0 & d1 & d2 & d3 & ES & ED & FX).
  rewrite EF in EF'. apply Some_inj in EF'. subst f'. rewrite FX.
  unfold ipv4_layout. rewrite ES, ED, (len_take_i4o _ WO).
  destruct (b0_dec (i4o_len (i4_options h)) OL OM) as (_ & _ & _ & _ & _ & A6).
  destruct (b1_dec (i4_dscp h) (i4_ecn h) R1 R2) as (_ & _ & _ & B4).
  pose proof (frag_hi _ R5) as HI.
  destruct (b6_dec (i4_dont_fragment h) (i4_more_fragments h) _ HI) as (_ & _ & _ & _ & C5).
  rewrite <- byte0_is in A6. rewrite <- byte1_is in B4. rewrite <- byte6_is in C5. cbv zeta in *.
  rewrite A6, B4, C5. unfold ip4_byte7.
  set (fo := i4_fragment_offset h) in *. set (k := bit (i4_dont_fragment h) * 2 + bit (i4_more_fragments h)).
  assert (K : k < 4) by (unfold k, bit; destruct (i4_dont_fragment h), (i4_more_fragments h); lia).
  assert (E6 : ((k * 8192 + fo) / 256) mod 256 = k * 32 + (fo / 256) mod 256) by (clear - K R5; dmlia).
  assert (E7 : (k * 8192 + fo) mod 256 = fo mod 256) by (clear - K R5; dmlia).
  unfold field. cbn [to_be app]. rewrite E6, E7. reflexivity.
Qed.
