(* Roundtrip/AuditFollowup.v -- audit follow-up (C08), small items:
   * Ipv4Header::write against to_bytes without the range hypothesis on the computed checksum
     (C08_Ipv4_write_recomputes states `ck < 65536 -> ...`; the bound is a theorem:
     Roundtrip/IpHeadersProofs.iph_calc_checksum_some);
   * Ipv6Extensions decode(encode) WITH the reader (C08_Exts6_dec_enc_partial was stated before C12 had a
     model of Ipv6Extensions::read: ExtChain/ReadModel.v, ReadProofs.read6_cursor);
   * UdpHeader::from_bytes. *)
From EP Require Import Base.Bytes Checksum.Model Roundtrip.Common Roundtrip.CommonProofs Roundtrip.Ipv4 Roundtrip.Ipv4Proofs
  Roundtrip.IpHeadersProofs Roundtrip.Udp Roundtrip.UdpProofs.
From EP Require IoFault.Spec IoFault.Model ExtChain.Spec ExtChain.Model ExtChain.ReadModel ExtChain.ReadProofs
  Roundtrip.Exts6Proofs.
From Coq Require Import ZArith Lia ZifyN.
Local Open Scope N_scope.

Theorem ip4_write_recomputes_full e h out : wf_ip4 h = true ->
  exists ck b, ip4_calc_checksum e h = Some ck /\ ck < 65536
    /\ ip4_to_bytes (ip4_set_checksum h ck) = Some b /\ ip4_write e out h = Some (out ++ b)
    /\ len b = ip4_header_len h
    /\ (i4_header_checksum h = ck -> ip4_to_bytes h = Some b).
Proof.
  intros W. destruct (ip4_write_recomputes e h out W) as (ck & C & A & B).
  destruct (iph_calc_checksum_some e h W) as (ck' & C' & L).
  rewrite C in C'. injection C' as <-.
  destruct (A L) as (b & T & Wr). exists ck, b.
  split; [exact C|]. split; [exact L|]. split; [exact T|]. split; [exact Wr|]. split.
  - destruct (ip4_ser_agree (ip4_set_checksum h ck) out (wf_set_checksum h ck W L)) as (b' & T' & _ & LB).
    rewrite T in T'. injection T' as <-. exact LB.
  - intros E. destruct (B E) as (b' & T' & Wr'). rewrite Wr in Wr'. injection Wr' as Wr'.
    apply app_inv_head in Wr'. subst b'. exact T'.
Qed.

(* Ipv6Extensions: every valid struct whose chain walks to a non-extension number; any bytes behind *)
Theorem exts6_dec_enc_read e first bs n rest : ExtChain.Model.exts6_valid e = true ->
  ExtChain.Model.write e first = (bs, ExtChain.Model.Ok tt) -> ExtChain.Model.next_header e first = ExtChain.Model.Ok n ->
  ExtChain.Spec.is_ext_number n = false -> bytes_ok rest ->
  len bs = ExtChain.Model.header_len e /\
  ExtChain.Model.from_slice first (bs ++ rest) = ExtChain.Model.Ok (e, n, rest) /\
  exists s', ExtChain.ReadModel.read6 false first (IoFault.Model.mk_rstate (ExtChain.ReadModel.cursor (bs ++ rest)) None)
             = (IoFault.Model.QOk (e, n), IoFault.Model.mk_rstate s' None)
             /\ IoFault.Spec.src_data s' = rest /\ IoFault.Spec.src_pulled s' = len bs.
Proof.
  intros V W H X BR. destruct (Exts6Proofs.exts6_dec_enc e first bs n rest V W H X) as [L FS].
  split; [exact L|]. split; [exact FS|].
  assert (BB : bytes_ok bs).
  { pose proof (write_bytes_ok e first V) as B. rewrite W in B. exact B. }
  destruct (ExtChain.ReadProofs.read6_cursor first (bs ++ rest) e n rest
              (proj2 (bytes_ok_app bs rest) (conj BB BR)) FS) as (s' & R & D & P).
  exists s'. split; [exact R|]. split; [exact D|]. rewrite len_app in P. lia.
Qed.

Theorem udp_from_bytes_dec_enc h : wf_udp h = true -> udp_from_bytes (udp_to_bytes h) = Ok h.
Proof.
  intros W. destruct (wf_udp_facts h W) as (R1 & R2 & R3 & R4).
  unfold udp_to_bytes, u16_to_be. cbn [app udp_from_bytes].
  rewrite !u16_be_roundtrip by assumption. destruct h; reflexivity.
Qed.
