(* Roundtrip/Ipv6.v -- model of etherparse Ipv6Header / Ipv6HeaderSlice
   (net/ipv6_header.rs, net/ipv6_header_slice.rs): to_bytes, write
   (= write_all(to_bytes)), header_len, from_slice, read (+ read_without_version).
   No write_to_slice.  Prefix i6_/ip6_.  The [u8;16] addresses are byte lists
   (length 16 is part of wf_ip6); get_unchecked_16_byte_array = slice_range / EOOB. *)
From EP Require Import Base.Bytes Roundtrip.Common.
Local Open Scope N_scope.

Record Ipv6Header := {
  i6_traffic_class : N;      (* u8 *)
  i6_flow_label : N;         (* Ipv6FlowLabel(u32), 20 bits *)
  i6_payload_length : N;     (* u16 *)
  i6_next_header : N;        (* IpNumber(u8) *)
  i6_hop_limit : N;          (* u8 *)
  i6_source : bytes;         (* [u8;16] *)
  i6_destination : bytes }.  (* [u8;16] *)

Definition ip6_header_len (h : Ipv6Header) : N := 40.

(* (6 << 4) | (traffic_class >> 4)   and   (traffic_class << 4) | flow_label_be[1] *)
Definition ip6_byte0 (tc : N) : N := bor (shl8 6 4) (shr tc 4).
Definition ip6_byte1 (tc f1 : N) : N := bor (shl8 tc 4) f1.

Definition ip6_to_bytes (h : Ipv6Header) : bytes :=
  match u32_to_be (i6_flow_label h) with
  | [_; f1; f2; f3] =>
    [ip6_byte0 (i6_traffic_class h); ip6_byte1 (i6_traffic_class h) f1; f2; f3]
    ++ u16_to_be (i6_payload_length h) ++ [i6_next_header h; i6_hop_limit h]
    ++ i6_source h ++ i6_destination h
  | _ => []
  end.

Definition ip6_write (out : bytes) (h : Ipv6Header) : bytes := out ++ ip6_to_bytes h.

(* Ipv6HeaderSlice::from_slice; EContent v = UnexpectedVersion{version_number: v} *)
Definition ip6_slice_from_slice (s : bytes) : res bytes :=
  if len s <? 40 then Err ELen
  else match rd s 0 with
       | None => Err EOOB
       | Some b0 =>
         let version_number := shr b0 4 in
         if negb (version_number =? 6) then Err (EContent version_number)
         else Ok (take 40 s)
       end.

(* Ipv6HeaderSlice::to_header (unchecked reads at fixed offsets) *)
Definition ip6_to_header (s : bytes) : res Ipv6Header :=
  match s with
  | b0 :: b1 :: b2 :: b3 :: b4 :: b5 :: b6 :: b7 :: _ =>
    match slice_range s 8 24, slice_range s 24 40 with
    | Some src, Some dst =>
      Ok {| i6_traffic_class := bor (shl8 b0 4) (shr b1 4);
            i6_flow_label := be32 0 (band b1 15) b2 b3;
            i6_payload_length := be16 b4 b5;
            i6_next_header := b6; i6_hop_limit := b7;
            i6_source := src; i6_destination := dst |}
    | _, _ => Err EOOB
    end
  | _ => Err EOOB
  end.

(* Ipv6Header::from_slice: (Ipv6HeaderSlice::from_slice(slice)?.to_header(), &slice[40..]) *)
Definition ip6_from_slice (s : bytes) : res (Ipv6Header * bytes) :=
  match ip6_slice_from_slice s with
  | Err e => Err e
  | Ok hs =>
    match ip6_to_header hs with
    | Err e => Err e
    | Ok h => match slice_from s 40 with
              | None => Err EPanic
              | Some rest => Ok (h, rest)
              end
    end
  end.

(* read_without_version: 39 more bytes *)
Definition ip6_read_without_version (r : bytes) (version_rest : N) : res (Ipv6Header * bytes) :=
  match read_exact r 39 with
  | Err e => Err e
  | Ok (buffer, r1) =>
    match buffer with
    | c0 :: c1 :: c2 :: c3 :: c4 :: c5 :: c6 :: _ =>
      match slice_range buffer 7 23, slice_range buffer 23 39 with
      | Some src, Some dst =>
        Ok ({| i6_traffic_class := bor (shl8 version_rest 4) (shr c0 4);
               i6_flow_label := be32 0 (band c0 15) c1 c2;
               i6_payload_length := be16 c3 c4;
               i6_next_header := c5; i6_hop_limit := c6;
               i6_source := src; i6_destination := dst |}, r1)
      | _, _ => Err EPanic
      end
    | _ => Err EPanic
    end
  end.

(* read: one byte, version check, read_without_version(reader, value[0] & 0xf) *)
Definition ip6_read (r : bytes) : res (Ipv6Header * bytes) :=
  match read_exact r 1 with
  | Err e => Err e
  | Ok (value, r1) =>
    match value with
    | [v0] =>
      let version_number := shr v0 4 in
      if negb (version_number =? 6) then Err (EContent version_number)
      else ip6_read_without_version r1 (band v0 15)
    | _ => Err EOOB
    end
  end.

Definition wf_ip6 (h : Ipv6Header) : bool :=
  (i6_traffic_class h <? 256) && (i6_flow_label h <? 1048576) && (i6_payload_length h <? 65536)
  && (i6_next_header h <? 256) && (i6_hop_limit h <? 256)
  && (len (i6_source h) =? 16) && bytes_okb (i6_source h)
  && (len (i6_destination h) =? 16) && bytes_okb (i6_destination h).
