(* Roundtrip/GrecProofs.v -- C08 for igmp::ReportGroupRecordV3Header *)
From EP Require Import Base.Bytes.
From EP Require Import CtlMsg.Spec CtlMsg.Model CtlMsg.Proofs.
From EP Require Import Roundtrip.Common Roundtrip.CommonProofs Roundtrip.Grec.
From Coq Require Import ZArith Lia ZifyN.
Local Open Scope N_scope.

Lemma wf_grec_facts g : wf_grec g = true ->
  record_type g < 256 /\ aux_data_len g < 256 /\ gr_num_of_sources g < 65536 /\
  m0 g < 256 /\ m1 g < 256 /\ m2 g < 256 /\ m3 g < 256.
Proof. unfold wf_grec. intros W. bsplit W. repeat split; assumption. Qed.

Theorem grec_ser_agree g : len (grec_to_bytes g) = grec_len.
Proof. reflexivity. Qed.

Lemma len8 {A} (a b c d e f g h : A) r : len (a :: b :: c :: d :: e :: f :: g :: h :: r) = 8 + len r.
Proof. rewrite !len_cons. lia. Qed.

Lemma grec_fs_8 t a n0 n1 x0 x1 x2 x3 rest :
  grec_from_slice (t :: a :: n0 :: n1 :: x0 :: x1 :: x2 :: x3 :: rest) =
  Ok (mkGroupRecord t a (be16 n0 n1) x0 x1 x2 x3, rest).
Proof.
  unfold grec_from_slice. rewrite group_record_eq. unfold group_record. rewrite len8.
  replace (8 + len rest <? 8) with false by (symmetry; apply N.ltb_ge; lia). reflexivity.
Qed.

Theorem grec_dec_enc g rest : wf_grec g = true ->
  grec_from_slice (grec_to_bytes g ++ rest) = Ok (g, rest).
Proof.
  intros W. destruct (wf_grec_facts g W) as (R1 & R2 & R3 & R4 & R5 & R6 & R7).
  unfold grec_to_bytes, u16_to_be. cbn [app]. rewrite grec_fs_8, u16_be_roundtrip by assumption.
  destruct g. reflexivity.
Qed.

Theorem grec_enc_dec bs g rest : bytes_ok bs -> grec_from_slice bs = Ok (g, rest) ->
  wf_grec g = true /\ bs = take 8 bs ++ rest /\ grec_to_bytes g = take 8 bs
  /\ agree grec_keep_mask (grec_to_bytes g) (take 8 bs)
  /\ grec_from_slice (grec_to_bytes g) = Ok (g, []).
Proof.
  intros OK H.
  destruct (len bs <? 8) eqn:E8.
  { unfold grec_from_slice, Igmp.group_record_from_slice in H. rewrite E8 in H. discriminate. }
  destruct (len_ge_cons8 bs E8) as (t & a & n0 & n1 & x0 & x1 & x2 & x3 & r & ->).
  pose proof OK as OK'. bytes_ok_split OK'.
  rewrite grec_fs_8 in H. apply Ok_inj in H. apply pair_equal_spec in H. destruct H as [<- <-].
  change (take 8 (t :: a :: n0 :: n1 :: x0 :: x1 :: x2 :: x3 :: r)) with [t; a; n0; n1; x0; x1; x2; x3].
  assert (WF : wf_grec (mkGroupRecord t a (be16 n0 n1) x0 x1 x2 x3) = true).
  { unfold wf_grec. cbn [record_type aux_data_len gr_num_of_sources m0 m1 m2 m3].
    pose proof (be16_bound n0 n1 B1 B2) as X. apply N.ltb_lt in X, B, B0, B3, B4, B5, B6.
    rewrite X, B, B0, B3, B4, B5, B6. reflexivity. }
  assert (E : grec_to_bytes (mkGroupRecord t a (be16 n0 n1) x0 x1 x2 x3) = [t; a; n0; n1; x0; x1; x2; x3]).
  { unfold grec_to_bytes. cbn [record_type aux_data_len gr_num_of_sources m0 m1 m2 m3].
    rewrite u16_to_be_be16 by assumption. reflexivity. }
  split; [exact WF|]. split; [reflexivity|]. split; [exact E|]. split.
  - rewrite E. apply agree_of_masked; [reflexivity|].
    unfold grec_keep_mask. change (ones 8) with [255; 255; 255; 255; 255; 255; 255; 255].
    cbn [masked]. rewrite !land_255 by assumption. reflexivity.
  - pose proof (grec_dec_enc _ [] WF) as F. rewrite app_nil_r in F. exact F.
Qed.

(* RFC 3376 section 4.2 group record layout (CtlMsg/Spec.v group_record) reads the value back *)
Theorem grec_spec g : wf_grec g = true -> group_record (grec_to_bytes g) = CtlMsg.Spec.Ok (g, []).
Proof.
  intros W. pose proof (grec_dec_enc g [] W) as F. rewrite app_nil_r in F.
  unfold grec_from_slice in F. rewrite group_record_eq in F.
  destruct (group_record (grec_to_bytes g)) as [[g' r]| |]; try discriminate.
  apply Ok_inj in F. apply pair_equal_spec in F. destruct F as [-> ->]. reflexivity.
Qed.
