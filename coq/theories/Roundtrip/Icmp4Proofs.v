(* Roundtrip/Icmp4Proofs.v -- C08 for Icmpv4Header / Icmpv4Type.
   The type/code dispatch of the decoder is taken from the C17 lemma
   CtlMsg.Proofs.icmp4_cases (model = RFC table for ALL numbers). *)
From EP Require Import Base.Bytes.
From EP Require Import CtlMsg.Spec CtlMsg.Model CtlMsg.Proofs.
From EP Require Import Roundtrip.Common Roundtrip.CommonProofs Roundtrip.Icmp4.
From Coq Require Import ZArith Lia ZifyN.
Local Open Scope N_scope.

(* ---------------- the decoder on an explicit 8-byte prefix ---------------- *)
Definition icmp4_of_bytes (t c b4 b5 b6 b7 : N) : Icmpv4Type :=
  match lookup t c icmp4_table with
  | Some f => f [t; c; 0; 0; b4; b5; b6; b7]
  | None => V4Unknown t c b4 b5 b6 b7
  end.

Ltac table_cases :=
  repeat match goal with
         | |- context [if ?b then _ else _] => destruct b; [reflexivity|]
         end.

Lemma spec4_of_bytes t c k0 k1 b4 b5 b6 b7 rest :
  match lookup t c icmp4_table with
  | Some f => f (t :: c :: k0 :: k1 :: b4 :: b5 :: b6 :: b7 :: rest)
  | None => V4Unknown t c b4 b5 b6 b7
  end = icmp4_of_bytes t c b4 b5 b6 b7.
Proof. unfold icmp4_of_bytes, icmp4_table. cbn [lookup]. table_cases. reflexivity. Qed.

Lemma icmp4_of_bytes_hl t c b4 b5 b6 b7 : icmp4_type_header_len (icmp4_of_bytes t c b4 b5 b6 b7) = 8.
Proof. unfold icmp4_of_bytes, icmp4_table. cbn [lookup]. table_cases. reflexivity. Qed.

Lemma len8 {A} (a b c d e f g h : A) r : len (a :: b :: c :: d :: e :: f :: g :: h :: r) = 8 + len r.
Proof. rewrite !len_cons. lia. Qed.

Lemma icmp4_header_8 t c k0 k1 b4 b5 b6 b7 rest :
  lookup t c icmp4_fixed_table = None ->
  icmp4_slice_header (t :: c :: k0 :: k1 :: b4 :: b5 :: b6 :: b7 :: rest) =
  Ok {| icmp4_type := icmp4_of_bytes t c b4 b5 b6 b7; icmp4_checksum := be16 k0 k1 |}.
Proof.
  intros LF. pose proof (icmp4_cases t c k0 k1 b4 b5 b6 b7 rest) as C. cbv zeta in C.
  rewrite LF in C. destruct C as (_ & _ & Ht).
  unfold icmp4_slice_header. rewrite Ht, spec4_of_bytes. reflexivity.
Qed.

Lemma icmp4_from_slice_8 t c k0 k1 b4 b5 b6 b7 rest :
  lookup t c icmp4_fixed_table = None ->
  icmp4_from_slice (t :: c :: k0 :: k1 :: b4 :: b5 :: b6 :: b7 :: rest) =
  Ok ({| icmp4_type := icmp4_of_bytes t c b4 b5 b6 b7; icmp4_checksum := be16 k0 k1 |}, rest).
Proof.
  intros LF. pose proof (icmp4_cases t c k0 k1 b4 b5 b6 b7 rest) as C. cbv zeta in C.
  rewrite LF in C. destruct C as (Hf & _ & _).
  unfold icmp4_from_slice. rewrite Hf, len8.
  replace (8 + len rest <? 8) with false by (symmetry; apply N.ltb_ge; lia).
  rewrite (icmp4_header_8 _ _ _ _ _ _ _ _ _ LF).
  unfold icmp4_header_len. cbn [icmp4_type]. rewrite icmp4_of_bytes_hl.
  unfold slice_from. rewrite len8.
  replace (8 <=? 8 + len rest) with true by (symmetry; apply N.leb_le; lia).
  reflexivity.
Qed.

(* the test of `read` (type 14 | 13 and code 0) is the membership in the RFC table
   of the fixed-size messages *)
Lemma icmp4_read_test t c :
  ((t =? 14) || (t =? 13)) && (0 =? c) =
  match lookup t c icmp4_fixed_table with Some _ => true | None => false end.
Proof.
  unfold icmp4_fixed_table. cbn [lookup].
  rewrite (N.eqb_sym 13 t), (N.eqb_sym 14 t).
  destruct (t =? 13) eqn:E13, (t =? 14) eqn:E14, (0 =? c); try reflexivity.
Qed.

Lemma read_exact_app a rest n : n = len a -> read_exact (a ++ rest) n = Ok (a, rest).
Proof.
  intros ->. unfold read_exact. rewrite len_app.
  replace (len a + len rest <? len a) with false by (symmetry; apply N.ltb_ge; lia).
  rewrite take_app_len, drop_app_len by reflexivity. reflexivity.
Qed.

Lemma icmp4_read_8 t c k0 k1 b4 b5 b6 b7 rest :
  lookup t c icmp4_fixed_table = None ->
  icmp4_read (t :: c :: k0 :: k1 :: b4 :: b5 :: b6 :: b7 :: rest) =
  Ok ({| icmp4_type := icmp4_of_bytes t c b4 b5 b6 b7; icmp4_checksum := be16 k0 k1 |}, rest).
Proof.
  intros LF. unfold icmp4_read.
  change (t :: c :: k0 :: k1 :: b4 :: b5 :: b6 :: b7 :: rest) with ([t; c; k0; k1; b4; b5; b6; b7] ++ rest).
  rewrite read_exact_app by reflexivity.
  change (rd [t; c; k0; k1; b4; b5; b6; b7] 0) with (Some t).
  change (rd [t; c; k0; k1; b4; b5; b6; b7] 1) with (Some c). cbv iota beta.
  rewrite icmp4_read_test, LF.
  rewrite (icmp4_header_8 _ _ _ _ _ _ _ _ [] LF). reflexivity.
Qed.

(* ---------------- timestamp / timestamp reply: exactly 20 bytes ---------------- *)
Definition icmp4_ts_mk (t : N) : TimestampMessage -> Icmpv4Type :=
  if t =? 13 then V4TimestampRequest else V4TimestampReply.

Lemma icmp4_header_20 t k0 k1 i0 i1 s0 s1 o0 o1 o2 o3 r0 r1 r2 r3 t0 t1 t2 t3 :
  t = 13 \/ t = 14 ->
  icmp4_slice_header [t; 0; k0; k1; i0; i1; s0; s1; o0; o1; o2; o3; r0; r1; r2; r3; t0; t1; t2; t3] =
  Ok {| icmp4_type := icmp4_ts_mk t (mkTimestamp (be16 i0 i1) (be16 s0 s1) (be32 o0 o1 o2 o3)
                                        (be32 r0 r1 r2 r3) (be32 t0 t1 t2 t3));
        icmp4_checksum := be16 k0 k1 |}.
Proof. intros [-> | ->]; reflexivity. Qed.

Lemma icmp4_from_slice_20 t k0 k1 i0 i1 s0 s1 o0 o1 o2 o3 r0 r1 r2 r3 t0 t1 t2 t3 :
  t = 13 \/ t = 14 ->
  icmp4_from_slice [t; 0; k0; k1; i0; i1; s0; s1; o0; o1; o2; o3; r0; r1; r2; r3; t0; t1; t2; t3] =
  Ok ({| icmp4_type := icmp4_ts_mk t (mkTimestamp (be16 i0 i1) (be16 s0 s1) (be32 o0 o1 o2 o3)
                                         (be32 r0 r1 r2 r3) (be32 t0 t1 t2 t3));
         icmp4_checksum := be16 k0 k1 |}, []).
Proof. intros [-> | ->]; reflexivity. Qed.

Lemma icmp4_read_20 t k0 k1 i0 i1 s0 s1 o0 o1 o2 o3 r0 r1 r2 r3 t0 t1 t2 t3 rest :
  t = 13 \/ t = 14 ->
  icmp4_read ([t; 0; k0; k1; i0; i1; s0; s1; o0; o1; o2; o3; r0; r1; r2; r3; t0; t1; t2; t3] ++ rest) =
  Ok ({| icmp4_type := icmp4_ts_mk t (mkTimestamp (be16 i0 i1) (be16 s0 s1) (be32 o0 o1 o2 o3)
                                         (be32 r0 r1 r2 r3) (be32 t0 t1 t2 t3));
         icmp4_checksum := be16 k0 k1 |}, rest).
Proof.
  intros T. unfold icmp4_read.
  change ([t; 0; k0; k1; i0; i1; s0; s1; o0; o1; o2; o3; r0; r1; r2; r3; t0; t1; t2; t3] ++ rest)
    with ([t; 0; k0; k1; i0; i1; s0; s1] ++ ([o0; o1; o2; o3; r0; r1; r2; r3; t0; t1; t2; t3] ++ rest)).
  rewrite read_exact_app by reflexivity.
  change (rd [t; 0; k0; k1; i0; i1; s0; s1] 0) with (Some t).
  change (rd [t; 0; k0; k1; i0; i1; s0; s1] 1) with (Some 0). cbv iota beta.
  replace (((t =? 14) || (t =? 13)) && (0 =? 0)) with true by (destruct T as [-> | ->]; reflexivity).
  rewrite read_exact_app by reflexivity.
  change ([t; 0; k0; k1; i0; i1; s0; s1] ++ [o0; o1; o2; o3; r0; r1; r2; r3; t0; t1; t2; t3])
    with [t; 0; k0; k1; i0; i1; s0; s1; o0; o1; o2; o3; r0; r1; r2; r3; t0; t1; t2; t3].
  rewrite icmp4_header_20 by exact T. reflexivity.
Qed.

(* ---------------- encoder closures ---------------- *)
Lemma re_zero_eq ck t c :
  icmp4_re_zero (u16_to_be ck) t c = Some [t; c; (ck / 256) mod 256; ck mod 256; 0; 0; 0; 0].
Proof. reflexivity. Qed.
Lemma re_2u16_eq ck t c a b :
  icmp4_re_2u16 (u16_to_be ck) t c a b =
  Some [t; c; (ck / 256) mod 256; ck mod 256; (a / 256) mod 256; a mod 256; (b / 256) mod 256; b mod 256].
Proof. reflexivity. Qed.
Lemma re_4u8_eq ck t c x0 x1 x2 x3 :
  icmp4_re_4u8 (u16_to_be ck) t c [x0; x1; x2; x3] = Some [t; c; (ck / 256) mod 256; ck mod 256; x0; x1; x2; x3].
Proof. reflexivity. Qed.
Lemma re_ts_eq ck t m :
  icmp4_re_timestamp_msg (u16_to_be ck) t m =
  Some ([t; 0; (ck / 256) mod 256; ck mod 256] ++ u16_to_be (ts_id m) ++ u16_to_be (ts_seq m)
        ++ u32_to_be (ts_originate m) ++ u32_to_be (ts_receive m) ++ u32_to_be (ts_transmit m)).
Proof. reflexivity. Qed.

Theorem icmp4_ser_agree h out :
  exists e, icmp4_to_bytes h = Some e /\ icmp4_write out h = Some (out ++ e) /\ len e = icmp4_header_len h.
Proof.
  assert (X : exists e, icmp4_to_bytes h = Some e /\ len e = icmp4_header_len h).
  { destruct h as [ty ck]. unfold icmp4_to_bytes, icmp4_header_len. cbn [icmp4_type icmp4_checksum].
    destruct ty as [t c b4 b5 b6 b7 | id seq | d | code g0 g1 g2 g3 | id seq | code | p | m | m];
      try destruct d; try destruct p; cbn [u16_to_be icmp4_type_header_len];
      rewrite ?re_zero_eq, ?re_2u16_eq, ?re_4u8_eq, ?re_ts_eq; eexists; split; reflexivity. }
  destruct X as (e & E & L). exists e. unfold icmp4_write. rewrite E. repeat split; assumption.
Qed.

Ltac of_bytes_red :=
  lazy [icmp4_of_bytes icmp4_table lookup N.eqb Pos.eqb andb du redirect4 u16_at byte_at nth
        N.to_nat Pos.to_nat Pos.iter_op Nat.add Init.Nat.add N.add Pos.add Pos.succ].

Lemma mod256_lt x : x mod 256 < 256.
Proof. apply N.mod_lt. lia. Qed.

Lemma dec_enc_8 ty ck t c x4 x5 x6 x7 :
  ck < 65536 -> t < 256 -> c < 256 -> x4 < 256 -> x5 < 256 -> x6 < 256 -> x7 < 256 ->
  lookup t c icmp4_fixed_table = None -> icmp4_of_bytes t c x4 x5 x6 x7 = ty ->
  let e := [t; c; (ck / 256) mod 256; ck mod 256; x4; x5; x6; x7] in
  len e = icmp4_type_header_len ty /\ bytes_ok e /\
  (forall rest, icmp4_read (e ++ rest) = Ok ({| icmp4_type := ty; icmp4_checksum := ck |}, rest)) /\
  (forall rest, icmp4_from_slice (e ++ rest) = Ok ({| icmp4_type := ty; icmp4_checksum := ck |}, rest)).
Proof.
  intros Hck Ht Hc H4 H5 H6 H7 LF OB e. subst e.
  split; [rewrite <- OB, icmp4_of_bytes_hl; reflexivity|].
  split.
  { repeat (apply bytes_ok_explicit_cons; [first [assumption | apply mod256_lt]|]). constructor. }
  split; intros rest; cbn [app].
  - rewrite icmp4_read_8 by exact LF. rewrite OB, (u16_be_roundtrip _ Hck). reflexivity.
  - rewrite icmp4_from_slice_8 by exact LF. rewrite OB, (u16_be_roundtrip _ Hck). reflexivity.
Qed.

Lemma wf_icmp4_ts_facts m : wf_icmp4_ts m = true ->
  ts_id m < 65536 /\ ts_seq m < 65536 /\ ts_originate m < 4294967296 /\ ts_receive m < 4294967296
  /\ ts_transmit m < 4294967296.
Proof. unfold wf_icmp4_ts. intros W. bsplit W. repeat split; assumption. Qed.

Lemma dec_enc_20 (t : N) (mk : TimestampMessage -> Icmpv4Type) ck m :
  (t = 13 \/ t = 14) -> icmp4_ts_mk t = mk -> ck < 65536 -> wf_icmp4_ts m = true ->
  let e := [t; 0; (ck / 256) mod 256; ck mod 256] ++ u16_to_be (ts_id m) ++ u16_to_be (ts_seq m)
           ++ u32_to_be (ts_originate m) ++ u32_to_be (ts_receive m) ++ u32_to_be (ts_transmit m) in
  len e = 20 /\ bytes_ok e /\
  (forall rest, icmp4_read (e ++ rest) = Ok ({| icmp4_type := mk m; icmp4_checksum := ck |}, rest)) /\
  icmp4_from_slice e = Ok ({| icmp4_type := mk m; icmp4_checksum := ck |}, []).
Proof.
  intros T MK Hck W e. destruct (wf_icmp4_ts_facts m W) as (R1 & R2 & R3 & R4 & R5).
  subst e mk. split; [reflexivity|]. split.
  { apply bytes_ok_explicit_cons; [destruct T as [-> | ->]; lia|].
    apply bytes_ok_explicit_cons; [lia|].
    apply bytes_ok_explicit_cons; [apply mod256_lt|].
    apply bytes_ok_explicit_cons; [apply mod256_lt|].
    repeat (apply bytes_ok_app; split); first [apply bytes_ok_u16_to_be | apply bytes_ok_u32_to_be]. }
  unfold u16_to_be, u32_to_be. cbn [app]. split; [intros rest|].
  - change (?a :: ?b :: ?c :: ?d :: ?e :: ?f :: ?g :: ?h :: ?i :: ?j :: ?k :: ?l :: ?m' :: ?n :: ?o
            :: ?p :: ?q :: ?r :: ?s :: ?u :: rest)
      with ([a; b; c; d; e; f; g; h; i; j; k; l; m'; n; o; p; q; r; s; u] ++ rest).
    rewrite icmp4_read_20 by exact T.
    rewrite !u16_be_roundtrip, !u32_be_roundtrip by assumption. destruct m. reflexivity.
  - rewrite icmp4_from_slice_20 by exact T.
    rewrite !u16_be_roundtrip, !u32_be_roundtrip by assumption. destruct m. reflexivity.
Qed.

Ltac fin8 := match goal with F8 : forall t c x4 x5 x6 x7 : N, _ |- _ => apply F8 end;
    try lia; try apply mod256_lt; try assumption; try reflexivity;
    of_bytes_red; rewrite ?u16_be_roundtrip by assumption; reflexivity.

(* every well-formed value: read returns the value and any remainder; from_slice
   returns it with any remainder for the 8-byte messages, and with the empty
   remainder for timestamp / timestamp reply (Icmpv4Slice::from_slice wants
   EXACTLY 20 bytes for those, see icmp4_timestamp_trailing_rejected) *)
Theorem icmp4_dec_enc h : wf_icmp4 h = true ->
  exists e, icmp4_to_bytes h = Some e /\ len e = icmp4_header_len h /\ bytes_ok e /\
    (forall rest, icmp4_read (e ++ rest) = Ok (h, rest)) /\
    (forall rest, icmp4_header_len h = 8 \/ rest = [] -> icmp4_from_slice (e ++ rest) = Ok (h, rest)).
Proof.
  destruct h as [ty ck]. unfold wf_icmp4. cbn [icmp4_type icmp4_checksum]. intros W.
  apply andb_true_iff in W. destruct W as [WT WC]. apply N.ltb_lt in WC.
  unfold icmp4_to_bytes, icmp4_header_len. cbn [icmp4_type icmp4_checksum].
  assert (F8 : forall t c x4 x5 x6 x7,
    t < 256 -> c < 256 -> x4 < 256 -> x5 < 256 -> x6 < 256 -> x7 < 256 ->
    lookup t c icmp4_fixed_table = None -> icmp4_of_bytes t c x4 x5 x6 x7 = ty ->
    exists e, Some [t; c; (ck / 256) mod 256; ck mod 256; x4; x5; x6; x7] = Some e /\
      len e = icmp4_type_header_len ty /\ bytes_ok e /\
      (forall rest, icmp4_read (e ++ rest) = Ok ({| icmp4_type := ty; icmp4_checksum := ck |}, rest)) /\
      (forall rest, icmp4_type_header_len ty = 8 \/ rest = [] ->
         icmp4_from_slice (e ++ rest) = Ok ({| icmp4_type := ty; icmp4_checksum := ck |}, rest))).
  { intros t c x4 x5 x6 x7 Ht Hc H4 H5 H6 H7 LF OB.
    destruct (dec_enc_8 ty ck t c x4 x5 x6 x7 WC Ht Hc H4 H5 H6 H7 LF OB) as (L & B & R & F).
    eexists. split; [reflexivity|]. repeat split; try assumption. intros rest _. apply F. }
  assert (F20 : forall t mk m, (t = 13 \/ t = 14) -> icmp4_ts_mk t = mk -> wf_icmp4_ts m = true -> ty = mk m ->
    exists e, icmp4_re_timestamp_msg (u16_to_be ck) t m = Some e /\
      len e = icmp4_type_header_len ty /\ bytes_ok e /\
      (forall rest, icmp4_read (e ++ rest) = Ok ({| icmp4_type := ty; icmp4_checksum := ck |}, rest)) /\
      (forall rest, icmp4_type_header_len ty = 8 \/ rest = [] ->
         icmp4_from_slice (e ++ rest) = Ok ({| icmp4_type := ty; icmp4_checksum := ck |}, rest))).
  { intros t mk m T MK Wm ->. rewrite re_ts_eq.
    destruct (dec_enc_20 t mk ck m T MK WC Wm) as (L & B & R & F).
    eexists. split; [reflexivity|]. split; [rewrite L; destruct T as [-> | ->]; subst mk; reflexivity|].
    split; [exact B|]. split; [exact R|].
    intros rest [X | ->].
    - exfalso. destruct T as [-> | ->]; subst mk; vm_compute in X; discriminate X.
    - rewrite app_nil_r. exact F. }
  destruct ty as [t c b4 b5 b6 b7 | id seq | d | code g0 g1 g2 g3 | id seq | code | p | m | m].
  - (* Unknown *)
    cbn [wf_icmp4_type] in WT. bsplit WT. rewrite re_4u8_eq.
    match goal with H : negb (icmp4_typed t c) = true |- _ => rename H into WN end.
    unfold icmp4_typed in WN.
    destruct (lookup t c icmp4_table) eqn:LT; [cbn [negb] in WN; discriminate|].
    destruct (lookup t c icmp4_fixed_table) eqn:LF; [cbn [negb] in WN; discriminate|].
    apply F8; try assumption. unfold icmp4_of_bytes. rewrite LT. reflexivity.
  - (* EchoReply *)
    cbn [wf_icmp4_type] in WT. bsplit WT. rewrite re_2u16_eq. fin8.
  - (* DestinationUnreachable *)
    destruct d; cbn [wf_icmp4_type] in WT; bsplit WT;
      try (change (u16_to_be next_hop_mtu) with [(next_hop_mtu / 256) mod 256; next_hop_mtu mod 256]; cbv iota beta);
      rewrite ?re_zero_eq, ?re_4u8_eq; fin8.
  - (* Redirect *)
    cbn [wf_icmp4_type] in WT. bsplit WT. rewrite re_4u8_eq.
    destruct code; cbn [icmp4_redirect_code_u8]; fin8.
  - (* EchoRequest *)
    cbn [wf_icmp4_type] in WT. bsplit WT. rewrite re_2u16_eq. fin8.
  - (* TimeExceeded *)
    rewrite re_zero_eq. destruct code; cbn [icmp4_time_exceeded_code_u8]; fin8.
  - (* ParameterProblem *)
    destruct p; cbn [wf_icmp4_type] in WT; bsplit WT; rewrite ?re_zero_eq, ?re_4u8_eq; fin8.
  - apply (F20 13 V4TimestampRequest m); auto.
  - apply (F20 14 V4TimestampReply m); auto.
Qed.

(* ---------------- decode -> encode ---------------- *)
Lemma be16_hi a b : a < 256 -> b < 256 -> (be16 a b / 256) mod 256 = a.
Proof. intros Ha Hb. pose proof (u16_to_be_be16 a b Ha Hb) as E. unfold u16_to_be in E. congruence. Qed.
Lemma be16_lo a b : a < 256 -> b < 256 -> be16 a b mod 256 = b.
Proof. intros Ha Hb. pose proof (u16_to_be_be16 a b Ha Hb) as E. unfold u16_to_be in E. congruence. Qed.

(* raw pairs: nothing is normalised *)
Definition raw_mask_ok (t : N) : bool :=
  all_below 256 (fun c => match lookup t c icmp4_table with
                          | Some _ => true
                          | None => bytes_eqb (icmp4_keep_mask t c 8) (ones 8)
                          end).
Lemma sweep_raw_mask : all_below 256 raw_mask_ok = true.
Proof. vm_compute. reflexivity. Qed.
Lemma raw_mask t c : t < 256 -> c < 256 -> lookup t c icmp4_table = None -> icmp4_keep_mask t c 8 = ones 8.
Proof.
  intros Ht Hc LT. pose proof (all_byte _ sweep_raw_mask t Ht) as S. unfold raw_mask_ok in S.
  pose proof (all_byte _ S c Hc) as S'. cbv beta in S'. rewrite LT in S'. apply bytes_eqb_eq. exact S'.
Qed.

Ltac split_table LT :=
  match type of LT with
  | (if ?b then _ else _) = _ => let E := fresh "E" in destruct b eqn:E; [ | clear E; split_table LT]
  | None = Some _ => discriminate LT
  end.

Ltac mask_compute :=
  match goal with
  | |- context [icmp4_keep_mask ?t ?c ?n] =>
    let m := eval vm_compute in (icmp4_keep_mask t c n) in change (icmp4_keep_mask t c n) with m
  end.

Lemma enc_dec_8 t c k0 k1 b4 b5 b6 b7 :
  t < 256 -> c < 256 -> k0 < 256 -> k1 < 256 -> b4 < 256 -> b5 < 256 -> b6 < 256 -> b7 < 256 ->
  lookup t c icmp4_fixed_table = None ->
  let h := {| icmp4_type := icmp4_of_bytes t c b4 b5 b6 b7; icmp4_checksum := be16 k0 k1 |} in
  wf_icmp4 h = true /\
  icmp4_to_bytes h = Some (masked (icmp4_keep_mask t c 8) [t; c; k0; k1; b4; b5; b6; b7]).
Proof.
  intros Ht Hc H0 H1 H4 H5 H6 H7 LF h. subst h.
  pose proof (be16_bound k0 k1 H0 H1) as CK. apply N.ltb_lt in CK.
  unfold wf_icmp4, icmp4_to_bytes. cbn [icmp4_type icmp4_checksum]. rewrite CK, andb_true_r.
  destruct (lookup t c icmp4_table) as [f|] eqn:LT.
  - unfold icmp4_table in LT. cbn [lookup] in LT. split_table LT.
    all: match goal with E : (_ =? ?t') && (_ =? ?c') = true |- _ =>
           apply andb_true_iff in E; destruct E as [E1 E2]; apply N.eqb_eq in E1, E2; subst t' c' end.
    all: clear LT LF Ht Hc.
    all: of_bytes_red; cbn [wf_icmp4_type icmp4_redirect_code_u8 icmp4_time_exceeded_code_u8].
    all: mask_compute; cbn [masked].
    all: rewrite ?re_zero_eq, ?re_2u16_eq, ?re_4u8_eq.
    all: try (rewrite (u16_to_be_be16 b6 b7 H6 H7); cbv iota beta; rewrite ?re_4u8_eq).
    all: rewrite ?be16_hi, ?be16_lo, ?land_255, ?N.land_0_r by (first [assumption | lia]).
    all: split; [|reflexivity].
    all: try reflexivity.
    all: try (pose proof (be16_bound b4 b5 H4 H5) as X1; pose proof (be16_bound b6 b7 H6 H7) as X2;
              apply N.ltb_lt in X1, X2; rewrite ?X1, ?X2; reflexivity).
    all: try (apply N.ltb_lt in H4, H5, H6, H7; rewrite ?H4, ?H5, ?H6, ?H7; reflexivity).
  - unfold icmp4_of_bytes. rewrite LT. cbn [wf_icmp4_type]. unfold icmp4_typed. rewrite LT, LF.
    rewrite re_4u8_eq, (raw_mask t c Ht Hc LT).
    change (ones 8) with [255; 255; 255; 255; 255; 255; 255; 255]. cbn [masked].
    rewrite ?be16_hi, ?be16_lo, ?land_255 by assumption.
    apply N.ltb_lt in Ht, Hc, H4, H5, H6, H7. rewrite Ht, Hc, H4, H5, H6, H7. split; reflexivity.
Qed.

Lemma icmp4_ts_mk_13 : icmp4_ts_mk 13 = V4TimestampRequest. Proof. reflexivity. Qed.
Lemma icmp4_ts_mk_14 : icmp4_ts_mk 14 = V4TimestampReply. Proof. reflexivity. Qed.

Lemma agree_ones_refl a : bytes_ok a -> agree (ones (len a)) a a.
Proof.
  intros H. apply agree_of_masked; [apply len_ones|]. symmetry. apply masked_ones. exact H.
Qed.

Lemma fixed_table_cases t c v : lookup t c icmp4_fixed_table = Some v -> (t = 13 \/ t = 14) /\ c = 0.
Proof.
  unfold icmp4_fixed_table. cbn [lookup]. intros H.
  destruct ((13 =? t) && (0 =? c)) eqn:E1.
  { apply andb_true_iff in E1. destruct E1 as [A B]. apply N.eqb_eq in A, B. auto. }
  destruct ((14 =? t) && (0 =? c)) eqn:E2.
  { apply andb_true_iff in E2. destruct E2 as [A B]. apply N.eqb_eq in A, B. auto. }
  discriminate.
Qed.

Lemma len_ge_cons12 (bs : bytes) : len bs = 12 ->
  exists a b c d e f g h i j k l, bs = [a; b; c; d; e; f; g; h; i; j; k; l].
Proof.
  intros H.
  do 12 (destruct bs as [|? bs]; [len_absurd H|]).
  destruct bs; [|len_absurd H]. repeat eexists.
Qed.

(* every accepted byte string: the value is well-formed, re-encoding reproduces the
   consumed bytes outside icmp4_keep_mask (the "unused" words of destination
   unreachable / time exceeded / parameter problem), decoding again gives the same
   value, and read agrees with from_slice *)
Theorem icmp4_enc_dec bs h rest : bytes_ok bs -> icmp4_from_slice bs = Ok (h, rest) ->
  wf_icmp4 h = true /\ bs = take (icmp4_header_len h) bs ++ rest /\
  exists e t c, icmp4_to_bytes h = Some e /\ rd bs 0 = Some t /\ rd bs 1 = Some c /\
    agree (icmp4_keep_mask t c (icmp4_header_len h)) e (take (icmp4_header_len h) bs) /\
    icmp4_from_slice e = Ok (h, []) /\ icmp4_read bs = Ok (h, rest).
Proof.
  intros OK H.
  destruct (len bs <? 8) eqn:E8.
  { unfold icmp4_from_slice, Icmpv4Slice.from_slice, Icmpv4Slice.MIN_LEN in H. rewrite E8 in H. discriminate. }
  destruct (len_ge_cons8 bs E8) as (t & c & k0 & k1 & b4 & b5 & b6 & b7 & r & ->).
  pose proof OK as OK'. bytes_ok_split OK'.
  destruct (lookup t c icmp4_fixed_table) as [v|] eqn:LF.
  - (* timestamp / timestamp reply *)
    destruct (fixed_table_cases t c v LF) as [T ->].
    pose proof (icmp4_cases t 0 k0 k1 b4 b5 b6 b7 r) as C. cbv zeta in C. rewrite LF in C.
    destruct v as [[n lay] mk]. destruct C as (_ & _ & Hf & _).
    assert (L : len r = 12).
    { unfold icmp4_from_slice in H. rewrite Hf, len8 in H.
      destruct (8 + len r <? 8); [discriminate|].
      destruct (8 + len r =? 20) eqn:E20; [|discriminate]. apply N.eqb_eq in E20. lia. }
    destruct (len_ge_cons12 r L) as (o0 & o1 & o2 & o3 & r0 & r1 & r2 & r3 & t0 & t1 & t2 & t3 & ->).
    rewrite icmp4_from_slice_20 in H by exact T.
    apply Ok_inj in H. apply pair_equal_spec in H. destruct H as [<- <-].
    bytes_ok_split OK'.
    set (bs := [t; 0; k0; k1; b4; b5; b6; b7; o0; o1; o2; o3; r0; r1; r2; r3; t0; t1; t2; t3]) in *.
    assert (HL : icmp4_header_len
                   {| icmp4_type := icmp4_ts_mk t (mkTimestamp (be16 b4 b5) (be16 b6 b7) (be32 o0 o1 o2 o3)
                                                     (be32 r0 r1 r2 r3) (be32 t0 t1 t2 t3));
                      icmp4_checksum := be16 k0 k1 |} = 20).
    { destruct T as [-> | ->]; reflexivity. }
    rewrite HL. change (take 20 bs) with bs.
    assert (TB : icmp4_to_bytes
                   {| icmp4_type := icmp4_ts_mk t (mkTimestamp (be16 b4 b5) (be16 b6 b7) (be32 o0 o1 o2 o3)
                                                     (be32 r0 r1 r2 r3) (be32 t0 t1 t2 t3));
                      icmp4_checksum := be16 k0 k1 |} = Some bs).
    { unfold icmp4_to_bytes. cbn [icmp4_type icmp4_checksum].
      destruct T as [-> | ->]; rewrite ?icmp4_ts_mk_13, ?icmp4_ts_mk_14; rewrite re_ts_eq; cbn [ts_id ts_seq ts_originate ts_receive ts_transmit];
        rewrite !u16_to_be_be16, !u32_to_be_be32, be16_hi, be16_lo by assumption; reflexivity. }
    split.
    { unfold wf_icmp4. cbn [icmp4_type icmp4_checksum].
      pose proof (be16_bound k0 k1 B1 B2) as X0. pose proof (be16_bound b4 b5 B3 B4) as X1.
      pose proof (be16_bound b6 b7 B5 B6) as X2. pose proof (be32_bound o0 o1 o2 o3 B7 B8 B9 B10) as X3.
      pose proof (be32_bound r0 r1 r2 r3 B11 B12 B13 B14) as X4.
      pose proof (be32_bound t0 t1 t2 t3 B15 B16 B17 B18) as X5.
      apply N.ltb_lt in X0, X1, X2, X3, X4, X5.
      destruct T as [-> | ->]; rewrite ?icmp4_ts_mk_13, ?icmp4_ts_mk_14; cbn [wf_icmp4_type]; unfold wf_icmp4_ts; cbn [ts_id ts_seq ts_originate ts_receive ts_transmit];
        rewrite X0, X1, X2, X3, X4, X5; reflexivity. }
    split; [symmetry; apply app_nil_r|].
    exists bs, t, 0. split; [exact TB|]. split; [reflexivity|]. split; [reflexivity|].
    split.
    { replace (icmp4_keep_mask t 0 20) with (ones (len bs)) by (destruct T as [-> | ->]; reflexivity).
      apply agree_ones_refl. exact OK. }
    split.
    + apply icmp4_from_slice_20. exact T.
    + rewrite <- (app_nil_r bs). apply icmp4_read_20. exact T.
  - rewrite icmp4_from_slice_8 in H by exact LF.
    apply Ok_inj in H. apply pair_equal_spec in H. destruct H as [<- <-].
    unfold icmp4_header_len. cbn [icmp4_type]. rewrite icmp4_of_bytes_hl.
    change (take 8 (t :: c :: k0 :: k1 :: b4 :: b5 :: b6 :: b7 :: r)) with [t; c; k0; k1; b4; b5; b6; b7].
    destruct (enc_dec_8 t c k0 k1 b4 b5 b6 b7 B B0 B1 B2 B3 B4 B5 B6 LF) as [WF TB]. cbv zeta in WF, TB.
    split; [exact WF|]. split; [reflexivity|].
    eexists. exists t, c. split; [exact TB|]. split; [reflexivity|]. split; [reflexivity|].
    split.
    { apply agree_of_masked; [|reflexivity].
      unfold icmp4_keep_mask. change (ones (8 - 8)) with (@nil N).
      destruct ((t =? 3) && (c <=? 15)), (c =? 4), ((t =? 11) && (c <=? 1)), ((t =? 12) && (c <=? 2)), (c =? 0);
        reflexivity. }
    split.
    + destruct (icmp4_dec_enc _ WF) as (e & TB' & _ & _ & _ & F).
      rewrite TB in TB'. apply Some_inj in TB'. rewrite TB'.
      specialize (F [] (or_intror eq_refl)). rewrite app_nil_r in F. exact F.
    + apply icmp4_read_8. exact LF.
Qed.

(* from_slice needs EXACTLY 20 bytes for timestamp messages: the encoding followed
   by one more byte is rejected (read accepts it) *)
Example icmp4_timestamp_trailing_rejected :
  let h := {| icmp4_type := V4TimestampRequest (mkTimestamp 1 2 3 4 5); icmp4_checksum := 6 |} in
  exists e, icmp4_to_bytes h = Some e /\ icmp4_from_slice (e ++ [0]) = Err ELen
            /\ icmp4_read (e ++ [0]) = Ok (h, [0]).
Proof. eexists. split; [reflexivity|]. split; reflexivity. Qed.

(* the encoder against the RFC 792 tables of CtlMsg/Spec.v: the independent decoder
   `icmp4` (table lookup by type and code, fields at the RFC offsets) accepts what
   from_slice accepts with the same answer, hence reads every well-formed value back
   from its encoding *)
Lemma icmp4_from_slice_spec bs h rest : icmp4_from_slice bs = Ok (h, rest) ->
  icmp4 bs = CtlMsg.Spec.Ok (icmp4_type h, icmp4_header_len h, rest).
Proof.
  intros H.
  destruct (len bs <? 8) eqn:E8.
  { unfold icmp4_from_slice, Icmpv4Slice.from_slice, Icmpv4Slice.MIN_LEN in H. rewrite E8 in H. discriminate. }
  destruct (len_ge_cons8 bs E8) as (t & c & k0 & k1 & b4 & b5 & b6 & b7 & r & ->).
  destruct (lookup t c icmp4_fixed_table) as [v|] eqn:LF.
  - destruct (fixed_table_cases t c v LF) as [T ->].
    pose proof (icmp4_cases t 0 k0 k1 b4 b5 b6 b7 r) as C. cbv zeta in C. rewrite LF in C.
    destruct v as [[n lay] mk]. destruct C as (_ & _ & Hf & _).
    assert (L : len r = 12).
    { unfold icmp4_from_slice in H. rewrite Hf, len8 in H.
      destruct (8 + len r <? 8); [discriminate|].
      destruct (8 + len r =? 20) eqn:E20; [|discriminate]. apply N.eqb_eq in E20. lia. }
    destruct (len_ge_cons12 r L) as (o0 & o1 & o2 & o3 & r0 & r1 & r2 & r3 & t0 & t1 & t2 & t3 & ->).
    rewrite icmp4_from_slice_20 in H by exact T.
    apply Ok_inj in H. apply pair_equal_spec in H. destruct H as [<- <-].
    destruct T as [-> | ->]; reflexivity.
  - rewrite icmp4_from_slice_8 in H by exact LF.
    apply Ok_inj in H. apply pair_equal_spec in H. destruct H as [<- <-].
    unfold icmp4_header_len. cbn [icmp4_type]. rewrite icmp4_of_bytes_hl.
    unfold icmp4. rewrite E8.
    change (byte_at (t :: c :: k0 :: k1 :: b4 :: b5 :: b6 :: b7 :: r) 0) with t.
    change (byte_at (t :: c :: k0 :: k1 :: b4 :: b5 :: b6 :: b7 :: r) 1) with c.
    change (byte_at (t :: c :: k0 :: k1 :: b4 :: b5 :: b6 :: b7 :: r) 4) with b4.
    change (byte_at (t :: c :: k0 :: k1 :: b4 :: b5 :: b6 :: b7 :: r) 5) with b5.
    change (byte_at (t :: c :: k0 :: k1 :: b4 :: b5 :: b6 :: b7 :: r) 6) with b6.
    change (byte_at (t :: c :: k0 :: k1 :: b4 :: b5 :: b6 :: b7 :: r) 7) with b7.
    cbv zeta. rewrite LF. rewrite <- (spec4_of_bytes t c k0 k1 b4 b5 b6 b7 r).
    destruct (lookup t c icmp4_table) as [f|]; reflexivity.
Qed.

Theorem icmp4_spec h : wf_icmp4 h = true ->
  exists e, icmp4_to_bytes h = Some e /\
    icmp4 e = CtlMsg.Spec.Ok (icmp4_type h, icmp4_header_len h, []).
Proof.
  intros W. destruct (icmp4_dec_enc h W) as (e & TB & L & _ & _ & F).
  exists e. split; [exact TB|].
  specialize (F [] (or_intror eq_refl)). rewrite app_nil_r in F.
  apply icmp4_from_slice_spec. exact F.
Qed.
