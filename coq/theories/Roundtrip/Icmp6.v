(* Roundtrip/Icmp6.v -- model of etherparse Icmpv6Header / Icmpv6Type:
   to_bytes (closures return_trivial / return_4u8 over ArrayVec<u8,40> + set_len(8),
   RouterAdvertisementHeader::to_bytes, NeighborAdvertisementHeader::to_bytes,
   IcmpEchoHeader::to_bytes), write (= write_all(to_bytes)), header_len, from_slice
   (Icmpv6Slice::from_slice(..)?.header(), &slice[8..]), read.
   The DECODING side (Icmpv6Slice::{from_slice, icmp_type, checksum}, the from_bytes
   of the NDP headers) is the C17 model CtlMsg/Model.v, imported unchanged; the value
   vocabulary is the one of CtlMsg/Spec.v.  Icmpv6Header has no write_to_slice. *)
From EP Require Import Base.Bytes.
From EP Require Import CtlMsg.Spec CtlMsg.Model.
From EP Require Import Roundtrip.Common.
Local Open Scope N_scope.

Record Icmpv6Header := { icmp6_type : Icmpv6Type; icmp6_checksum : N }.

(* Icmpv6Type::header_len: 8 for every variant *)
Definition icmp6_type_header_len (t : Icmpv6Type) : N :=
  match t with
  | V6Unknown _ _ _ _ _ _ | V6DestinationUnreachable _ | V6PacketTooBig _ | V6TimeExceeded _
  | V6ParameterProblem _ _ | V6EchoRequest _ _ | V6EchoReply _ _ | V6RouterSolicitation
  | V6RouterAdvertisement _ _ _ _ | V6NeighborSolicitation | V6NeighborAdvertisement _ _ _ | V6Redirect => 8
  end.
Definition icmp6_header_len (h : Icmpv6Header) : N := icmp6_type_header_len (icmp6_type h).

(* ArrayVec::from([u8; 40]) followed by set_len(n) *)
Definition icmp6_set_len (arr : bytes) (n : N) : option bytes :=
  if n <=? len arr then Some (take n arr) else None.

(* code_u8(): `*self as u8` of the fieldless enums *)
Definition icmp6_du_code_u8 (c : DestUnreachableCode6) : N :=
  match c with
  | NoRoute => 0 | Prohibited => 1 | BeyondScope => 2 | Address6 => 3 | Port6 => 4
  | SourceAddressFailedPolicy => 5 | RejectRoute => 6
  end.
Definition icmp6_te_code_u8 (c : TimeExceededCode6) : N :=
  match c with HopLimitExceeded => 0 | FragmentReassemblyTimeExceeded6 => 1 end.
Definition icmp6_pp_code_u8 (c : ParameterProblemCode6) : N :=
  match c with
  | ErroneousHeaderField => 0 | UnrecognizedNextHeader => 1 | UnrecognizedIpv6Option => 2
  | Ipv6FirstFragmentIncompleteHeaderChain => 3 | SrUpperLayerHeaderError => 4
  | UnrecognizedNextHeaderByIntermediateNode => 5 | ExtensionHeaderTooBig => 6
  | ExtensionHeaderChainTooLong => 7 | TooManyExtensionHeaders => 8
  | TooManyOptionsInExtensionHeader => 9 | OptionTooBig => 10
  end.

Definition icmp6_return_trivial (ck : bytes) (type_u8 code_u8 : N) : option bytes :=
  match ck with
  | [c0; c1] =>
    icmp6_set_len [type_u8; code_u8; c0; c1;  0; 0; 0; 0;
                   0; 0; 0; 0;  0; 0; 0; 0;  0; 0; 0; 0;  0; 0; 0; 0;
                   0; 0; 0; 0;  0; 0; 0; 0;  0; 0; 0; 0;  0; 0; 0; 0] 8
  | _ => None
  end.
Definition icmp6_return_4u8 (ck : bytes) (type_u8 code_u8 : N) (bytes5to8 : bytes) : option bytes :=
  match ck, bytes5to8 with
  | [c0; c1], [x0; x1; x2; x3] =>
    icmp6_set_len [type_u8; code_u8; c0; c1;  x0; x1; x2; x3;
                   0; 0; 0; 0;  0; 0; 0; 0;  0; 0; 0; 0;  0; 0; 0; 0;
                   0; 0; 0; 0;  0; 0; 0; 0;  0; 0; 0; 0;  0; 0; 0; 0] 8
  | _, _ => None
  end.

(* IcmpEchoHeader::to_bytes *)
Definition icmp6_echo_to_bytes (id seq : N) : bytes := u16_to_be id ++ u16_to_be seq.
(* RouterAdvertisementHeader::to_bytes *)
Definition icmp6_ra_to_bytes (cur_hop_limit : N) (managed other : bool) (router_lifetime : N) : bytes :=
  [cur_hop_limit; bor (if managed then 128 else 0) (if other then 64 else 0)] ++ u16_to_be router_lifetime.
(* NeighborAdvertisementHeader::to_bytes *)
Definition icmp6_na_to_bytes (router solicited override : bool) : bytes :=
  let first_byte := 0 in
  let first_byte := if router then bor first_byte 128 else first_byte in
  let first_byte := if solicited then bor first_byte 64 else first_byte in
  let first_byte := if override then bor first_byte 32 else first_byte in
  [first_byte; 0; 0; 0].

(* Icmpv6Header::to_bytes *)
Definition icmp6_to_bytes (h : Icmpv6Header) : option bytes :=
  let ck := u16_to_be (icmp6_checksum h) in
  match icmp6_type h with
  | V6Unknown t c b4 b5 b6 b7 => icmp6_return_4u8 ck t c [b4; b5; b6; b7]
  | V6DestinationUnreachable code => icmp6_return_trivial ck 1 (icmp6_du_code_u8 code)
  | V6PacketTooBig mtu => icmp6_return_4u8 ck 2 0 (u32_to_be mtu)
  | V6TimeExceeded code => icmp6_return_trivial ck 3 (icmp6_te_code_u8 code)
  | V6ParameterProblem code pointer => icmp6_return_4u8 ck 4 (icmp6_pp_code_u8 code) (u32_to_be pointer)
  | V6EchoRequest id seq => icmp6_return_4u8 ck 128 0 (icmp6_echo_to_bytes id seq)
  | V6EchoReply id seq => icmp6_return_4u8 ck 129 0 (icmp6_echo_to_bytes id seq)
  | V6RouterSolicitation => icmp6_return_trivial ck 133 0
  | V6RouterAdvertisement chl m o rl => icmp6_return_4u8 ck 134 0 (icmp6_ra_to_bytes chl m o rl)
  | V6NeighborSolicitation => icmp6_return_trivial ck 135 0
  | V6NeighborAdvertisement r s o => icmp6_return_4u8 ck 136 0 (icmp6_na_to_bytes r s o)
  | V6Redirect => icmp6_return_trivial ck 137 0
  end.

Definition icmp6_write (out : bytes) (h : Icmpv6Header) : option bytes :=
  match icmp6_to_bytes h with
  | Some e => Some (out ++ e)
  | None => None
  end.

(* Icmpv6Slice::header *)
Definition icmp6_slice_header (s : bytes) : res Icmpv6Header :=
  match Icmpv6Slice.icmp_type s with
  | CtlMsg.Spec.Ok ty =>
    match Icmpv6Slice.checksum s with
    | Some ck => Ok {| icmp6_type := ty; icmp6_checksum := ck |}
    | None => Err EOOB
    end
  | CtlMsg.Spec.ErrLen _ => Err ELen
  | CtlMsg.Spec.UB _ => Err EOOB
  end.

(* Icmpv6Header::from_slice *)
Definition icmp6_from_slice (s : bytes) : res (Icmpv6Header * bytes) :=
  match Icmpv6Slice.from_slice s with
  | CtlMsg.Spec.ErrLen _ => Err ELen
  | CtlMsg.Spec.UB _ => Err EOOB
  | CtlMsg.Spec.Ok sl =>
    match icmp6_slice_header sl with
    | Err e => Err e
    | Ok h =>
      match slice_from s (icmp6_header_len h) with      (* &slice[len..] *)
      | None => Err EPanic
      | Some rest => Ok (h, rest)
      end
    end
  end.

(* Icmpv6Header::read: 8 bytes, Icmpv6Slice { slice: &start }.header() -- the slice is built
   without Icmpv6Slice::from_slice (no maximum-length check) *)
Definition icmp6_read (r : bytes) : res (Icmpv6Header * bytes) :=
  match read_exact r 8 with
  | Err e => Err e
  | Ok (start, r1) =>
    match icmp6_slice_header start with
    | Err e => Err e
    | Ok h => Ok (h, r1)
    end
  end.

(* well-formed values: fields in the range of their Rust type; the raw variant only for
   (type, code) pairs WITHOUT typed variant (not in the RFC 4443 / 4861 table of CtlMsg/Spec.v) *)
Definition icmp6_typed (t c : N) : bool :=
  match lookup t c icmp6_table with Some _ => true | None => false end.
Definition wf_icmp6_type (ty : Icmpv6Type) : bool :=
  match ty with
  | V6Unknown t c b4 b5 b6 b7 =>
    (t <? 256) && (c <? 256) && (b4 <? 256) && (b5 <? 256) && (b6 <? 256) && (b7 <? 256)
    && negb (icmp6_typed t c)
  | V6PacketTooBig mtu => mtu <? 4294967296
  | V6ParameterProblem _ pointer => pointer <? 4294967296
  | V6EchoRequest id seq | V6EchoReply id seq => (id <? 65536) && (seq <? 65536)
  | V6RouterAdvertisement chl _ _ rl => (chl <? 256) && (rl <? 65536)
  | _ => true
  end.
Definition wf_icmp6 (h : Icmpv6Header) : bool :=
  wf_icmp6_type (icmp6_type h) && (icmp6_checksum h <? 65536).

(* bits that survive decode -> encode, by type t and code c: destination unreachable,
   time exceeded, router / neighbor solicitation, redirect: the unused / reserved word is
   zeroed; router advertisement: only M and O of byte 5; neighbor advertisement: only
   R, S, O of byte 4, the 29 reserved bits are zeroed *)
Definition icmp6_keep_mask (t c : N) : bytes :=
  [255; 255; 255; 255] ++
  (if ((t =? 1) && (c <=? 6)) || ((t =? 3) && (c <=? 1))
      || (((t =? 133) || (t =? 135) || (t =? 137)) && (c =? 0)) then [0; 0; 0; 0]
   else if (t =? 134) && (c =? 0) then [255; 192; 255; 255]
   else if (t =? 136) && (c =? 0) then [224; 0; 0; 0]
   else [255; 255; 255; 255]).
