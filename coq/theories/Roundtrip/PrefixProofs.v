(* Roundtrip/PrefixProofs.v -- C08 for icmpv6::PrefixInformation (NDP option 3) *)
From EP Require Import Base.Bytes Roundtrip.Common Roundtrip.CommonProofs Roundtrip.Prefix.
From Coq Require Import ZArith Lia ZifyN.
Local Open Scope N_scope.

Ltac len_absurd H := exfalso; revert H; clear; unfold len; cbn [length]; lia.

Lemma len16_explicit (l : bytes) : len l = 16 ->
  exists x0 x1 x2 x3 x4 x5 x6 x7 x8 x9 x10 x11 x12 x13 x14 x15,
    l = [x0; x1; x2; x3; x4; x5; x6; x7; x8; x9; x10; x11; x12; x13; x14; x15].
Proof.
  intros H. do 16 (destruct l as [|? l]; [len_absurd H|]).
  destruct l; [|len_absurd H]. repeat eexists.
Qed.

Lemma len32_explicit (l : bytes) : len l = 32 ->
  exists t ln pl fl v0 v1 v2 v3 p0 p1 p2 p3 r0 r1 r2 r3 pre,
    l = [t; ln; pl; fl; v0; v1; v2; v3; p0; p1; p2; p3; r0; r1; r2; r3] ++ pre /\ len pre = 16.
Proof.
  intros H. do 16 (destruct l as [|? l]; [len_absurd H|]).
  repeat eexists. rewrite !len_cons in H. lia.
Qed.

Lemma pi_from_bytes_32 t ln pl fl v0 v1 v2 v3 p0 p1 p2 p3 r0 r1 r2 r3
      x0 x1 x2 x3 x4 x5 x6 x7 x8 x9 x10 x11 x12 x13 x14 x15 :
  pi_from_bytes [t; ln; pl; fl; v0; v1; v2; v3; p0; p1; p2; p3; r0; r1; r2; r3;
                 x0; x1; x2; x3; x4; x5; x6; x7; x8; x9; x10; x11; x12; x13; x14; x15] =
  if negb (bytes_eqb [t; ln] [3; 4]) then Err (EContent 1)
  else Ok {| pi_prefix_length := pl; pi_on_link := nz (band fl 128); pi_autonomous := nz (band fl 64);
             pi_valid_lifetime := be32 v0 v1 v2 v3; pi_preferred_lifetime := be32 p0 p1 p2 p3;
             pi_prefix := [x0; x1; x2; x3; x4; x5; x6; x7; x8; x9; x10; x11; x12; x13; x14; x15] |}.
Proof. reflexivity. Qed.

Lemma hdr_eqb t ln : bytes_eqb [t; ln] [3; 4] = (t =? 3) && (ln =? 4).
Proof.
  unfold bytes_eqb. change (length [t; ln] =? length [3; 4])%nat with true.
  change (forallb (fun p : N * N => fst p =? snd p) (combine [t; ln] [3; 4])) with ((t =? 3) && ((ln =? 4) && true)).
  now rewrite andb_true_r.
Qed.

(* flags *)
Lemma flags_dec (l a : bool) :
  nz (band (bor (if l then 128 else 0) (if a then 64 else 0)) 128) = l /\
  nz (band (bor (if l then 128 else 0) (if a then 64 else 0)) 64) = a /\
  bor (if l then 128 else 0) (if a then 64 else 0) < 256 /\
  bor (if l then 128 else 0) (if a then 64 else 0) = (if l then 128 else 0) + (if a then 64 else 0).
Proof. destruct l, a; repeat split; vm_compute; reflexivity. Qed.

Definition flags_ok (b : N) : bool :=
  bor (if nz (band b 128) then 128 else 0) (if nz (band b 64) then 64 else 0) =? N.land b 192.
Lemma sweep_flags : all_below 256 flags_ok = true.
Proof. vm_compute. reflexivity. Qed.
Lemma flags_enc b : b < 256 ->
  bor (if nz (band b 128) then 128 else 0) (if nz (band b 64) then 64 else 0) = N.land b 192.
Proof. intros H. apply N.eqb_eq. exact (all_byte _ sweep_flags b H). Qed.

Lemma wf_pi_facts h : wf_pi h = true ->
  pi_prefix_length h < 256 /\ pi_valid_lifetime h < 4294967296 /\ pi_preferred_lifetime h < 4294967296
  /\ len (pi_prefix h) = 16 /\ bytes_ok (pi_prefix h).
Proof.
  unfold wf_pi. intros W. bsplit W. repeat split; try assumption. apply bytes_okb_spec. assumption.
Qed.

(* to_bytes yields LEN = 32 bytes (the type has a single serialiser) *)
Theorem pi_ser_agree h : wf_pi h = true -> exists e, pi_to_bytes h = Some e /\ len e = pi_len.
Proof.
  intros W. destruct (wf_pi_facts h W) as (_ & _ & _ & L & _).
  unfold pi_to_bytes. apply N.eqb_eq in L. rewrite L. eexists. split; [reflexivity|].
  apply N.eqb_eq in L. rewrite !len_app, L. reflexivity.
Qed.

(* every well-formed value: from_slice and from_bytes return it; from_slice takes EXACTLY 32
   bytes (there is no remainder), anything longer is rejected *)
Theorem pi_dec_enc h : wf_pi h = true ->
  exists e, pi_to_bytes h = Some e /\ len e = pi_len /\ bytes_ok e /\
    pi_from_slice e = Ok h /\ pi_from_bytes e = Ok h /\
    (forall rest, rest <> [] -> pi_from_slice (e ++ rest) = Err ELen).
Proof.
  intros W. destruct (wf_pi_facts h W) as (R1 & R2 & R3 & L & OKP).
  destruct h as [pl l a v p pre]. cbn [pi_prefix_length pi_valid_lifetime pi_preferred_lifetime pi_prefix] in *.
  destruct (len16_explicit pre L) as (x0 & x1 & x2 & x3 & x4 & x5 & x6 & x7 & x8 & x9 & x10 & x11 & x12 & x13 & x14 & x15 & ->).
  destruct (flags_dec l a) as (F1 & F2 & F3 & _).
  unfold pi_to_bytes. cbn [pi_prefix_length pi_on_link pi_autonomous pi_valid_lifetime pi_preferred_lifetime pi_prefix].
  change (len [x0; x1; x2; x3; x4; x5; x6; x7; x8; x9; x10; x11; x12; x13; x14; x15] =? 16) with true.
  cbv iota. unfold u32_to_be. cbn [app].
  eexists. split; [reflexivity|]. split; [reflexivity|].
  assert (FB : pi_from_bytes
    [3; 4; pl; bor (if l then 128 else 0) (if a then 64 else 0); (v / 256 / 256 / 256) mod 256;
     (v / 256 / 256) mod 256; (v / 256) mod 256; v mod 256; (p / 256 / 256 / 256) mod 256;
     (p / 256 / 256) mod 256; (p / 256) mod 256; p mod 256; 0; 0; 0; 0; x0; x1; x2; x3; x4; x5; x6; x7; x8; x9;
     x10; x11; x12; x13; x14; x15] =
    Ok {| pi_prefix_length := pl; pi_on_link := l; pi_autonomous := a; pi_valid_lifetime := v;
          pi_preferred_lifetime := p;
          pi_prefix := [x0; x1; x2; x3; x4; x5; x6; x7; x8; x9; x10; x11; x12; x13; x14; x15] |}).
  { rewrite pi_from_bytes_32. change (bytes_eqb [3; 4] [3; 4]) with true. cbn [negb].
    rewrite F1, F2, !u32_be_roundtrip by assumption. reflexivity. }
  split.
  { bytes_ok_split OKP.
    repeat (apply bytes_ok_explicit_cons; [first [assumption | apply N.mod_lt; lia | lia]|]). constructor. }
  split; [unfold pi_from_slice; exact FB|]. split; [exact FB|].
  intros rest NE. unfold pi_from_slice. rewrite len_app.
  match goal with |- context [len ?e + len rest =? 32] => change (len e) with 32 end.
  replace (32 + len rest =? 32) with false; [reflexivity|].
  symmetry. apply N.eqb_neq. destruct rest; [congruence|]. rewrite len_cons. lia.
Qed.

(* every accepted byte string (exactly 32 bytes): kept outside pi_keep_mask *)
Theorem pi_enc_dec bs h : bytes_ok bs -> pi_from_slice bs = Ok h ->
  wf_pi h = true /\ len bs = pi_len /\
  exists e, pi_to_bytes h = Some e /\ agree pi_keep_mask e bs /\ pi_from_slice e = Ok h /\ pi_from_bytes bs = Ok h.
Proof.
  intros OK H. unfold pi_from_slice in H. destruct (len bs =? 32) eqn:L; [|discriminate]. apply N.eqb_eq in L.
  destruct (len32_explicit bs L) as (t & ln & pl & fl & v0 & v1 & v2 & v3 & p0 & p1 & p2 & p3 & r0 & r1 & r2 & r3 & pre & -> & LP).
  destruct (len16_explicit pre LP) as (x0 & x1 & x2 & x3 & x4 & x5 & x6 & x7 & x8 & x9 & x10 & x11 & x12 & x13 & x14 & x15 & ->).
  cbn [app] in *. pose proof H as H0. rewrite pi_from_bytes_32, hdr_eqb in H.
  destruct (t =? 3) eqn:E3; [|discriminate]. destruct (ln =? 4) eqn:E4; [|discriminate].
  apply N.eqb_eq in E3, E4. subst t ln. cbn [andb negb] in H. apply Ok_inj in H.
  pose proof OK as OK'. bytes_ok_split OK'.
  assert (WF : wf_pi h = true).
  { rewrite <- H. unfold wf_pi. cbn [pi_prefix_length pi_valid_lifetime pi_preferred_lifetime pi_prefix].
    pose proof (be32_bound v0 v1 v2 v3 B3 B4 B5 B6) as X1. pose proof (be32_bound p0 p1 p2 p3 B7 B8 B9 B10) as X2.
    apply N.ltb_lt in X1, X2, B1. rewrite X1, X2, B1.
    change (len [x0; x1; x2; x3; x4; x5; x6; x7; x8; x9; x10; x11; x12; x13; x14; x15] =? 16) with true.
    cbn [andb]. apply bytes_okb_spec.
    repeat (apply bytes_ok_explicit_cons; [assumption|]). constructor. }
  split; [exact WF|]. split; [exact L|].
  destruct (pi_dec_enc h WF) as (e & TB & _ & _ & FS & _).
  exists e. split; [exact TB|]. split; [|split; [exact FS | exact H0]].
  apply agree_of_masked; [reflexivity|].
  rewrite <- H in TB. unfold pi_to_bytes in TB.
  cbn [pi_prefix_length pi_on_link pi_autonomous pi_valid_lifetime pi_preferred_lifetime pi_prefix] in TB.
  change (len [x0; x1; x2; x3; x4; x5; x6; x7; x8; x9; x10; x11; x12; x13; x14; x15] =? 16) with true in TB.
  cbv iota in TB. apply Some_inj in TB. rewrite <- TB.
  rewrite (flags_enc fl B2), !u32_to_be_be32 by assumption.
  unfold pi_keep_mask. change (ones 8) with [255; 255; 255; 255; 255; 255; 255; 255].
  change (ones 16) with [255; 255; 255; 255; 255; 255; 255; 255; 255; 255; 255; 255; 255; 255; 255; 255].
  cbn [app masked]. rewrite !land_255 by (first [assumption | lia]). rewrite !N.land_0_r. reflexivity.
Qed.

(* RFC 4861 section 4.6.2 layout *)
Theorem pi_spec h : wf_pi h = true ->
  pi_to_bytes h = Some (pi_layout (pi_prefix_length h) (pi_on_link h) (pi_autonomous h)
                          (pi_valid_lifetime h) (pi_preferred_lifetime h) (pi_prefix h)).
Proof.
  intros W. destruct (wf_pi_facts h W) as (R1 & R2 & R3 & L & _).
  unfold pi_to_bytes, pi_layout. apply N.eqb_eq in L. rewrite L.
  destruct (flags_dec (pi_on_link h) (pi_autonomous h)) as (_ & _ & _ & F4). rewrite F4.
  unfold u32_to_be. cbn [app].
  set (v := pi_valid_lifetime h) in *. set (p := pi_preferred_lifetime h) in *.
  assert (D : forall x, x < 4294967296 ->
     (x / 256 / 256 / 256) mod 256 = x / 16777216 /\ (x / 256 / 256) mod 256 = (x / 65536) mod 256).
  { intros x Hx. rewrite !N.div_div by lia. change (256 * 256 * 256) with 16777216. change (256 * 256) with 65536.
    split; [|reflexivity]. apply N.mod_small. apply N.div_lt_upper_bound; lia. }
  destruct (D v R2) as [-> ->]. destruct (D p R3) as [-> ->]. reflexivity.
Qed.
