(* Roundtrip/PropsTransport.v -- property C08 for the transport / control-message
   types (extend-c08b): UdpHeader, Icmpv4Header, Icmpv6Header, IgmpHeader,
   ReportGroupRecordV3Header, ndp PrefixInformation.
   Only statements; every proof is `exact <lemma>`.  Per type T:
   C08_T_ser_agree, C08_T_dec_enc, C08_T_enc_dec (+ C08_T_spec). *)
From EP Require Import Base.Bytes.
From EP Require CtlMsg.Spec CtlMsg.Model.
From EP Require Import Roundtrip.Common.
From EP Require Roundtrip.Udp Roundtrip.UdpProofs Roundtrip.Icmp4 Roundtrip.Icmp4Proofs.
From EP Require Roundtrip.Icmp6 Roundtrip.Icmp6Proofs Roundtrip.Igmp Roundtrip.IgmpProofs.
From EP Require Roundtrip.Grec Roundtrip.GrecProofs Roundtrip.Prefix Roundtrip.PrefixProofs.
Local Open Scope N_scope.

(* ------------------------------------------------------------------ UdpHeader *)
Module UDP.
Import Roundtrip.Udp Roundtrip.UdpProofs.

(* write = write_all(to_bytes); fixed length 8 = header_len (no write_to_slice) *)
Theorem C08_Udp_ser_agree : forall h out,
  udp_write out h = out ++ udp_to_bytes h /\ len (udp_to_bytes h) = udp_header_len h.
Proof. exact udp_ser_agree. Qed.
Print Assumptions C08_Udp_ser_agree.

(* all four u16 fields, any trailing bytes; from_slice and read *)
Theorem C08_Udp_dec_enc : forall h rest, wf_udp h = true ->
  udp_from_slice (udp_to_bytes h ++ rest) = Ok (h, rest) /\ udp_read (udp_to_bytes h ++ rest) = Ok (h, rest).
Proof. exact udp_dec_enc. Qed.
Print Assumptions C08_Udp_dec_enc.

(* no reserved bits: re-encoding reproduces the consumed 8 bytes exactly *)
Theorem C08_Udp_enc_dec : forall bs h rest, bytes_ok bs -> udp_from_slice bs = Ok (h, rest) ->
  wf_udp h = true /\ bs = take 8 bs ++ rest
  /\ udp_to_bytes h = take 8 bs
  /\ agree udp_keep_mask (udp_to_bytes h) (take 8 bs)
  /\ udp_from_slice (udp_to_bytes h) = Ok (h, [])
  /\ udp_read bs = Ok (h, rest).
Proof. exact udp_enc_dec. Qed.
Print Assumptions C08_Udp_enc_dec.

Theorem C08_Udp_spec : forall h, wf_udp h = true ->
  udp_to_bytes h = udp_layout (udp_source_port h) (udp_destination_port h) (udp_length h) (udp_checksum h).
Proof. exact udp_spec. Qed.
Print Assumptions C08_Udp_spec.

Definition ex_max : UdpHeader :=
  {| udp_source_port := 65535; udp_destination_port := 65535; udp_length := 65535; udp_checksum := 65535 |}.
Definition ex_mixed : UdpHeader :=
  {| udp_source_port := 258; udp_destination_port := 53; udp_length := 8; udp_checksum := 43981 |}.
Example C08_Udp_ex_wf : wf_udp ex_max = true /\ wf_udp ex_mixed = true.
Proof. split; vm_compute; reflexivity. Qed.
Example C08_Udp_ex_bytes : udp_to_bytes ex_mixed = [1; 2; 0; 53; 0; 8; 171; 205].
Proof. vm_compute. reflexivity. Qed.
Example C08_Udp_ex_dec : udp_from_slice [1; 2; 0; 53; 0; 8; 171; 205; 9] = Ok (ex_mixed, [9]).
Proof. vm_compute. reflexivity. Qed.
End UDP.

(* ------------------------------------------------------------------ Icmpv4Header *)
Module ICMP4.
Import CtlMsg.Spec Roundtrip.Icmp4 Roundtrip.Icmp4Proofs.
Import Roundtrip.Common.

(* to_bytes and write agree, header_len many bytes (no write_to_slice) *)
Theorem C08_Icmp4_ser_agree : forall h out,
  exists e, icmp4_to_bytes h = Some e /\ icmp4_write out h = Some (out ++ e) /\ len e = icmp4_header_len h.
Proof. exact icmp4_ser_agree. Qed.
Print Assumptions C08_Icmp4_ser_agree.

(* every well-formed value (wf_icmp4: fields in range; the raw variant Unknown only for
   (type, code) pairs without typed variant): read returns the value and any remainder;
   from_slice does so for the 8-byte messages and, for timestamp / timestamp reply, with
   the empty remainder (it insists on exactly 20 bytes) *)
Theorem C08_Icmp4_dec_enc : forall h, wf_icmp4 h = true ->
  exists e, icmp4_to_bytes h = Some e /\ len e = icmp4_header_len h /\ bytes_ok e /\
    (forall rest, icmp4_read (e ++ rest) = Ok (h, rest)) /\
    (forall rest, icmp4_header_len h = 8 \/ rest = [] -> icmp4_from_slice (e ++ rest) = Ok (h, rest)).
Proof. exact icmp4_dec_enc. Qed.
Print Assumptions C08_Icmp4_dec_enc.

(* every accepted byte string; normalised: the unused words of destination unreachable
   (type 3, code <= 15: bytes 4-7, code 4 keeps the next-hop MTU 6-7), time exceeded
   (11, code <= 1: bytes 4-7), parameter problem (12, code <= 2: bytes 5-7, byte 4 unless code 0) *)
Theorem C08_Icmp4_enc_dec : forall bs h rest, bytes_ok bs -> icmp4_from_slice bs = Ok (h, rest) ->
  wf_icmp4 h = true /\ bs = take (icmp4_header_len h) bs ++ rest /\
  exists e t c, icmp4_to_bytes h = Some e /\ rd bs 0 = Some t /\ rd bs 1 = Some c /\
    agree (icmp4_keep_mask t c (icmp4_header_len h)) e (take (icmp4_header_len h) bs) /\
    icmp4_from_slice e = Ok (h, []) /\ icmp4_read bs = Ok (h, rest).
Proof. exact icmp4_enc_dec. Qed.
Print Assumptions C08_Icmp4_enc_dec.

(* the RFC 792 table decoder of CtlMsg/Spec.v reads every well-formed value back *)
Theorem C08_Icmp4_spec : forall h, wf_icmp4 h = true ->
  exists e, icmp4_to_bytes h = Some e /\
    icmp4 e = CtlMsg.Spec.Ok (icmp4_type h, icmp4_header_len h, []).
Proof. exact icmp4_spec. Qed.
Print Assumptions C08_Icmp4_spec.

Definition ex_frag : Icmpv4Header :=
  {| icmp4_type := V4DestinationUnreachable (DuFragmentationNeeded 1500); icmp4_checksum := 65535 |}.
Definition ex_ts : Icmpv4Header :=
  {| icmp4_type := V4TimestampReply (mkTimestamp 65535 1 4294967295 2 3); icmp4_checksum := 258 |}.
Definition ex_raw : Icmpv4Header :=
  {| icmp4_type := V4Unknown 3 16 1 2 3 4; icmp4_checksum := 0 |}.
Example C08_Icmp4_ex_wf : wf_icmp4 ex_frag = true /\ wf_icmp4 ex_ts = true /\ wf_icmp4 ex_raw = true.
Proof. repeat split; vm_compute; reflexivity. Qed.
(* a raw value whose (type, code) has a typed variant is NOT well-formed: it decodes to the typed variant *)
Example C08_Icmp4_ex_not_wf :
  wf_icmp4 {| icmp4_type := V4Unknown 8 0 0 1 0 2; icmp4_checksum := 0 |} = false /\
  icmp4_from_slice [8; 0; 0; 0; 0; 1; 0; 2] = Ok ({| icmp4_type := V4EchoRequest 1 2; icmp4_checksum := 0 |}, []).
Proof. split; vm_compute; reflexivity. Qed.
Example C08_Icmp4_ex_bytes : icmp4_to_bytes ex_frag = Some [3; 4; 255; 255; 0; 0; 5; 220].
Proof. vm_compute. reflexivity. Qed.
(* the unused bytes 4-5 are dropped by the typed variant *)
Example C08_Icmp4_ex_dec : icmp4_from_slice [3; 4; 255; 255; 170; 187; 5; 220; 9] = Ok (ex_frag, [9]).
Proof. vm_compute. reflexivity. Qed.
Example C08_Icmp4_ex_timestamp_trailing :
  exists e, icmp4_to_bytes ex_ts = Some e /\ len e = 20 /\ icmp4_from_slice (e ++ [0]) = Err ELen
            /\ icmp4_read (e ++ [0]) = Ok (ex_ts, [0]).
Proof. eexists. split; [vm_compute; reflexivity|]. repeat split; vm_compute; reflexivity. Qed.
End ICMP4.

(* ------------------------------------------------------------------ Icmpv6Header *)
Module ICMP6.
Import CtlMsg.Spec Roundtrip.Icmp6 Roundtrip.Icmp6Proofs.
Import Roundtrip.Common.

Theorem C08_Icmp6_ser_agree : forall h out,
  exists e, icmp6_to_bytes h = Some e /\ icmp6_write out h = Some (out ++ e) /\ len e = icmp6_header_len h.
Proof. exact icmp6_ser_agree. Qed.
Print Assumptions C08_Icmp6_ser_agree.

(* every well-formed value (raw variant only for (type, code) without typed variant); read:
   any remainder; from_slice: any remainder as long as the slice stays within u32::MAX bytes
   (Icmpv6Slice::from_slice rejects longer slices) *)
Theorem C08_Icmp6_dec_enc : forall h, wf_icmp6 h = true ->
  exists e, icmp6_to_bytes h = Some e /\ len e = icmp6_header_len h /\ bytes_ok e /\
    (forall rest, icmp6_read (e ++ rest) = Ok (h, rest)) /\
    (forall rest, 8 + len rest <= 4294967295 -> icmp6_from_slice (e ++ rest) = Ok (h, rest)).
Proof. exact icmp6_dec_enc. Qed.
Print Assumptions C08_Icmp6_dec_enc.

(* normalised: bytes 4-7 of destination unreachable (1, code <= 6), time exceeded (3, code <= 1),
   router solicitation / neighbor solicitation / redirect (133 / 135 / 137, code 0);
   router advertisement (134, 0) keeps 0xC0 of byte 5; neighbor advertisement (136, 0)
   keeps 0xE0 of byte 4 and zeroes bytes 5-7 *)
Theorem C08_Icmp6_enc_dec : forall bs h rest, bytes_ok bs -> icmp6_from_slice bs = Ok (h, rest) ->
  wf_icmp6 h = true /\ bs = take (icmp6_header_len h) bs ++ rest /\
  exists e t c, icmp6_to_bytes h = Some e /\ rd bs 0 = Some t /\ rd bs 1 = Some c /\
    agree (icmp6_keep_mask t c) e (take (icmp6_header_len h) bs) /\
    icmp6_from_slice e = Ok (h, []) /\ icmp6_read bs = Ok (h, rest).
Proof. exact icmp6_enc_dec. Qed.
Print Assumptions C08_Icmp6_enc_dec.

(* the RFC 4443 / 4861 table decoder of CtlMsg/Spec.v reads every well-formed value back *)
Theorem C08_Icmp6_spec : forall h, wf_icmp6 h = true ->
  exists e, icmp6_to_bytes h = Some e /\ icmp6 e = CtlMsg.Spec.Ok (icmp6_type h, []).
Proof. exact icmp6_spec. Qed.
Print Assumptions C08_Icmp6_spec.

Definition ex_ra : Icmpv6Header :=
  {| icmp6_type := V6RouterAdvertisement 255 true false 65535; icmp6_checksum := 65535 |}.
Definition ex_na : Icmpv6Header :=
  {| icmp6_type := V6NeighborAdvertisement true false true; icmp6_checksum := 1 |}.
Definition ex_pp : Icmpv6Header :=
  {| icmp6_type := V6ParameterProblem OptionTooBig 4294967295; icmp6_checksum := 258 |}.
Example C08_Icmp6_ex_wf : wf_icmp6 ex_ra = true /\ wf_icmp6 ex_na = true /\ wf_icmp6 ex_pp = true.
Proof. repeat split; vm_compute; reflexivity. Qed.
Example C08_Icmp6_ex_not_wf :
  wf_icmp6 {| icmp6_type := V6Unknown 136 0 224 0 0 0; icmp6_checksum := 0 |} = false /\
  wf_icmp6 {| icmp6_type := V6Unknown 136 1 224 0 0 0; icmp6_checksum := 0 |} = true.
Proof. split; vm_compute; reflexivity. Qed.
Example C08_Icmp6_ex_bytes :
  icmp6_to_bytes ex_ra = Some [134; 0; 255; 255; 255; 128; 255; 255] /\
  icmp6_to_bytes ex_na = Some [136; 0; 0; 1; 160; 0; 0; 0].
Proof. split; vm_compute; reflexivity. Qed.
(* reserved bits set in the input are dropped *)
Example C08_Icmp6_ex_dec :
  icmp6_from_slice [136; 0; 0; 1; 191; 255; 255; 255; 9] = Ok (ex_na, [9]) /\
  icmp6_from_slice [134; 0; 255; 255; 255; 191; 255; 255] = Ok (ex_ra, []).
Proof. split; vm_compute; reflexivity. Qed.
End ICMP6.

(* ------------------------------------------------------------------ IgmpHeader *)
Module IGMP.
Import CtlMsg.Spec Roundtrip.Igmp Roundtrip.IgmpProofs.
Import Roundtrip.Common.

(* IgmpHeader has a single serialiser (to_bytes): header_len many bytes *)
Theorem C08_Igmp_ser_agree : forall h,
  exists e, igmp_to_bytes h = Some e /\ len e = igmp_header_len h.
Proof. exact igmp_ser_agree. Qed.
Print Assumptions C08_Igmp_ser_agree.

(* every well-formed value and any remainder -- except the 8-byte membership query, which
   round-trips with the EMPTY remainder only: the query version is decided by the length
   of the slice (8: v1/v2, >= 12: v3), see C08_Igmp_ex_query_trailing *)
Theorem C08_Igmp_dec_enc : forall h, wf_igmp h = true ->
  exists e, igmp_to_bytes h = Some e /\ len e = igmp_header_len h /\ bytes_ok e /\
    (forall rest, igmp_is_query8 (igmp_type h) = false \/ rest = [] -> igmp_from_slice (e ++ rest) = Ok (h, rest)).
Proof. exact igmp_dec_enc. Qed.
Print Assumptions C08_Igmp_dec_enc.

(* normalised: byte 1 of the v1 / v2 / v3 reports and of leave group (0x12, 0x16, 0x22, 0x17) *)
Theorem C08_Igmp_enc_dec : forall bs h rest, bytes_ok bs -> igmp_from_slice bs = Ok (h, rest) ->
  wf_igmp h = true /\ bs = take (igmp_header_len h) bs ++ rest /\
  exists e t, igmp_to_bytes h = Some e /\ rd bs 0 = Some t /\
    agree (igmp_keep_mask t (igmp_header_len h)) e (take (igmp_header_len h) bs) /\
    igmp_from_slice e = Ok (h, []).
Proof. exact igmp_enc_dec. Qed.
Print Assumptions C08_Igmp_enc_dec.

(* the RFC 2236 / 3376 decoder of CtlMsg/Spec.v reads every well-formed value back *)
Theorem C08_Igmp_spec : forall h, wf_igmp h = true ->
  exists e, igmp_to_bytes h = Some e /\
    igmp e = CtlMsg.Spec.Ok (igmp_type h, igmp_checksum h, igmp_header_len h, []).
Proof. exact igmp_spec. Qed.
Print Assumptions C08_Igmp_spec.

Definition ex_q3 : IgmpHeader :=
  {| igmp_type := IgMembershipQueryWithSources 255 224 0 0 1 15 255 65535; igmp_checksum := 65535 |}.
Definition ex_v3 : IgmpHeader :=
  {| igmp_type := IgMembershipReportV3 1 2 3; igmp_checksum := 4 |}.
Example C08_Igmp_ex_wf : wf_igmp ex_q3 = true /\ wf_igmp ex_v3 = true
  /\ wf_igmp {| igmp_type := IgUnknown 18 0 1 2 3 4; igmp_checksum := 0 |} = false.
Proof. repeat split; vm_compute; reflexivity. Qed.
Example C08_Igmp_ex_bytes : igmp_to_bytes ex_v3 = Some [34; 0; 0; 4; 1; 2; 0; 3].
Proof. vm_compute. reflexivity. Qed.
Example C08_Igmp_ex_dec : igmp_from_slice [34; 170; 0; 4; 1; 2; 0; 3; 9] = Ok (ex_v3, [9]).
Proof. vm_compute. reflexivity. Qed.
Example C08_Igmp_ex_query_trailing :
  let h := {| igmp_type := IgMembershipQuery 100 224 0 0 1; igmp_checksum := 7 |} in
  exists e, igmp_to_bytes h = Some e /\
    igmp_from_slice (e ++ [1; 2; 0; 3]) =
      Ok ({| igmp_type := IgMembershipQueryWithSources 100 224 0 0 1 1 2 3; igmp_checksum := 7 |}, [])
    /\ igmp_from_slice (e ++ [1]) = Err ELen.
Proof. exact igmp_query_trailing. Qed.
End IGMP.

(* ------------------------------------------------------------------ ReportGroupRecordV3Header *)
Module GREC.
Import CtlMsg.Spec Roundtrip.Grec Roundtrip.GrecProofs.
Import Roundtrip.Common.

Theorem C08_Grec_ser_agree : forall g, len (grec_to_bytes g) = grec_len.
Proof. exact grec_ser_agree. Qed.
Print Assumptions C08_Grec_ser_agree.

Theorem C08_Grec_dec_enc : forall g rest, wf_grec g = true ->
  grec_from_slice (grec_to_bytes g ++ rest) = Ok (g, rest).
Proof. exact grec_dec_enc. Qed.
Print Assumptions C08_Grec_dec_enc.

Theorem C08_Grec_enc_dec : forall bs g rest, bytes_ok bs -> grec_from_slice bs = Ok (g, rest) ->
  wf_grec g = true /\ bs = take 8 bs ++ rest /\ grec_to_bytes g = take 8 bs
  /\ agree grec_keep_mask (grec_to_bytes g) (take 8 bs)
  /\ grec_from_slice (grec_to_bytes g) = Ok (g, []).
Proof. exact grec_enc_dec. Qed.
Print Assumptions C08_Grec_enc_dec.

Theorem C08_Grec_spec : forall g, wf_grec g = true -> group_record (grec_to_bytes g) = CtlMsg.Spec.Ok (g, []).
Proof. exact grec_spec. Qed.
Print Assumptions C08_Grec_spec.

Definition ex_max : GroupRecord := mkGroupRecord 255 255 65535 239 255 255 250.
Example C08_Grec_ex_wf : wf_grec ex_max = true. Proof. vm_compute. reflexivity. Qed.
Example C08_Grec_ex_bytes : grec_to_bytes (mkGroupRecord 4 0 258 224 0 0 22) = [4; 0; 1; 2; 224; 0; 0; 22].
Proof. vm_compute. reflexivity. Qed.
Example C08_Grec_ex_dec :
  grec_from_slice [4; 0; 1; 2; 224; 0; 0; 22; 9] = Ok (mkGroupRecord 4 0 258 224 0 0 22, [9]).
Proof. vm_compute. reflexivity. Qed.
End GREC.

(* ------------------------------------------------------------------ ndp PrefixInformation *)
Module PREFIX.
Import Roundtrip.Prefix Roundtrip.PrefixProofs.

Theorem C08_Prefix_ser_agree : forall h, wf_pi h = true -> exists e, pi_to_bytes h = Some e /\ len e = pi_len.
Proof. exact pi_ser_agree. Qed.
Print Assumptions C08_Prefix_ser_agree.

(* from_slice / from_bytes take exactly 32 bytes: no remainder; longer inputs are rejected *)
Theorem C08_Prefix_dec_enc : forall h, wf_pi h = true ->
  exists e, pi_to_bytes h = Some e /\ len e = pi_len /\ bytes_ok e /\
    pi_from_slice e = Ok h /\ pi_from_bytes e = Ok h /\
    (forall rest, rest <> [] -> pi_from_slice (e ++ rest) = Err ELen).
Proof. exact pi_dec_enc. Qed.
Print Assumptions C08_Prefix_dec_enc.

(* normalised: reserved1 (low 6 bits of byte 3) and reserved2 (bytes 12-15) *)
Theorem C08_Prefix_enc_dec : forall bs h, bytes_ok bs -> pi_from_slice bs = Ok h ->
  wf_pi h = true /\ len bs = pi_len /\
  exists e, pi_to_bytes h = Some e /\ agree pi_keep_mask e bs /\ pi_from_slice e = Ok h /\ pi_from_bytes bs = Ok h.
Proof. exact pi_enc_dec. Qed.
Print Assumptions C08_Prefix_enc_dec.

Theorem C08_Prefix_spec : forall h, wf_pi h = true ->
  pi_to_bytes h = Some (pi_layout (pi_prefix_length h) (pi_on_link h) (pi_autonomous h)
                          (pi_valid_lifetime h) (pi_preferred_lifetime h) (pi_prefix h)).
Proof. exact pi_spec. Qed.
Print Assumptions C08_Prefix_spec.

Definition ex_pi : PrefixInformation :=
  {| pi_prefix_length := 64; pi_on_link := true; pi_autonomous := false; pi_valid_lifetime := 4294967295;
     pi_preferred_lifetime := 258; pi_prefix := [32; 1; 13; 184] ++ repeat 0 11 ++ [255] |}.
Example C08_Prefix_ex_wf : wf_pi ex_pi = true. Proof. vm_compute. reflexivity. Qed.
Example C08_Prefix_ex_bytes : pi_to_bytes ex_pi =
  Some ([3; 4; 64; 128; 255; 255; 255; 255; 0; 0; 1; 2; 0; 0; 0; 0; 32; 1; 13; 184] ++ repeat 0 11 ++ [255]).
Proof. vm_compute. reflexivity. Qed.
(* reserved bits set in the input are dropped, the value is the same *)
Example C08_Prefix_ex_dec :
  pi_from_slice ([3; 4; 64; 191; 255; 255; 255; 255; 0; 0; 1; 2; 9; 9; 9; 9; 32; 1; 13; 184] ++ repeat 0 11 ++ [255])
  = Ok ex_pi.
Proof. vm_compute. reflexivity. Qed.
End PREFIX.
