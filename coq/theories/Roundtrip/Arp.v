(* Roundtrip/Arp.v -- model of etherparse ArpPacket / ArpPacketSlice / ArpEthIpv4Packet
   (net/arp_packet.rs, net/arp_packet_slice.rs, net/arp_eth_ipv4_packet.rs): new,
   new_unchecked, set_hw_addrs, set_protocol_addrs, the four address accessors, to_bytes,
   write, packet_len, from_slice (ArpPacketSlice::from_slice + to_packet), read, PartialEq,
   try_eth_ipv4, ArpEthIpv4Packet::{to_bytes, to_arp_packet}.  No write_to_slice.  Prefix arp_/ae_.

   The four address buffers are [MaybeUninit<u8>; 255]: the model stores the INITIALISED
   PREFIX of each buffer (a list of at most 255 bytes); from_raw_parts(buf, size) /
   assume_init beyond the initialised prefix is undefined = None. *)
From EP Require Import Base.Bytes Roundtrip.Common.
Local Open Scope N_scope.

Record ArpPacket := {
  arp_hw_addr_type : N;            (* ArpHardwareId(u16) *)
  arp_proto_addr_type : N;         (* EtherType(u16) *)
  arp_hw_addr_size : N;            (* u8, private *)
  arp_proto_addr_size : N;         (* u8, private *)
  arp_operation : N;               (* ArpOperation(u16) *)
  arp_sender_hw_addr_buf : bytes;
  arp_sender_protocol_addr_buf : bytes;
  arp_target_hw_addr_buf : bytes;
  arp_target_protocol_addr_buf : bytes }.

(* from_raw_parts(buf.as_ptr(), size) *)
Definition arp_buf_slice (buf : bytes) (n : N) : option bytes :=
  if n <=? len buf then Some (take n buf) else None.

Definition arp_sender_hw_addr (h : ArpPacket) := arp_buf_slice (arp_sender_hw_addr_buf h) (arp_hw_addr_size h).
Definition arp_sender_protocol_addr (h : ArpPacket) :=
  arp_buf_slice (arp_sender_protocol_addr_buf h) (arp_proto_addr_size h).
Definition arp_target_hw_addr (h : ArpPacket) := arp_buf_slice (arp_target_hw_addr_buf h) (arp_hw_addr_size h).
Definition arp_target_protocol_addr (h : ArpPacket) :=
  arp_buf_slice (arp_target_protocol_addr_buf h) (arp_proto_addr_size h).

(* new_unchecked: sizes `len as u8`; copy_nonoverlapping(src, buf, len) into a 255 byte buffer *)
Definition arp_new_unchecked (hat pat op : N) (sh sp th tp : bytes) : option ArpPacket :=
  if (255 <? len sh) || (255 <? len sp) || (255 <? len th) || (255 <? len tp) then None
  else Some {| arp_hw_addr_type := hat; arp_proto_addr_type := pat;
               arp_hw_addr_size := as_u8 (len sh); arp_proto_addr_size := as_u8 (len sp);
               arp_operation := op;
               arp_sender_hw_addr_buf := sh; arp_sender_protocol_addr_buf := sp;
               arp_target_hw_addr_buf := th; arp_target_protocol_addr_buf := tp |}.

(* new: None = Err(ArpNewError) *)
Definition arp_new (hat pat op : N) (sh sp th tp : bytes) : option ArpPacket :=
  if negb (len sh =? len th) then None
  else if negb (len sp =? len tp) then None
  else if 255 <? len sh then None
  else if 255 <? len sp then None
  else arp_new_unchecked hat pat op sh sp th tp.

(* set_hw_addrs / set_protocol_addrs: copy into the front of the buffers (None = Err) *)
Definition arp_set_hw_addrs (h : ArpPacket) (sh th : bytes) : option ArpPacket :=
  if negb (len sh =? len th) then None
  else if 255 <? len sh then None
  else Some {| arp_hw_addr_type := arp_hw_addr_type h; arp_proto_addr_type := arp_proto_addr_type h;
               arp_hw_addr_size := as_u8 (len sh); arp_proto_addr_size := arp_proto_addr_size h;
               arp_operation := arp_operation h;
               arp_sender_hw_addr_buf := sh ++ drop (len sh) (arp_sender_hw_addr_buf h);
               arp_sender_protocol_addr_buf := arp_sender_protocol_addr_buf h;
               arp_target_hw_addr_buf := th ++ drop (len th) (arp_target_hw_addr_buf h);
               arp_target_protocol_addr_buf := arp_target_protocol_addr_buf h |}.
Definition arp_set_protocol_addrs (h : ArpPacket) (sp tp : bytes) : option ArpPacket :=
  if negb (len sp =? len tp) then None
  else if 255 <? len sp then None
  else Some {| arp_hw_addr_type := arp_hw_addr_type h; arp_proto_addr_type := arp_proto_addr_type h;
               arp_hw_addr_size := arp_hw_addr_size h; arp_proto_addr_size := as_u8 (len sp);
               arp_operation := arp_operation h;
               arp_sender_hw_addr_buf := arp_sender_hw_addr_buf h;
               arp_sender_protocol_addr_buf := sp ++ drop (len sp) (arp_sender_protocol_addr_buf h);
               arp_target_hw_addr_buf := arp_target_hw_addr_buf h;
               arp_target_protocol_addr_buf := tp ++ drop (len tp) (arp_target_protocol_addr_buf h) |}.

(* PartialEq: the five scalar fields and the four address slices *)
Definition arp_opt_eqb (a b : option bytes) : bool :=
  match a, b with Some x, Some y => bytes_eqb x y | _, _ => false end.
Definition arp_eqb (a b : ArpPacket) : bool :=
  (arp_hw_addr_type a =? arp_hw_addr_type b) && (arp_proto_addr_type a =? arp_proto_addr_type b)
  && (arp_hw_addr_size a =? arp_hw_addr_size b) && (arp_proto_addr_size a =? arp_proto_addr_size b)
  && (arp_operation a =? arp_operation b)
  && arp_opt_eqb (arp_sender_hw_addr a) (arp_sender_hw_addr b)
  && arp_opt_eqb (arp_sender_protocol_addr a) (arp_sender_protocol_addr b)
  && arp_opt_eqb (arp_target_hw_addr a) (arp_target_hw_addr b)
  && arp_opt_eqb (arp_target_protocol_addr a) (arp_target_protocol_addr b).

Definition arp_packet_len (h : ArpPacket) : N := 8 + arp_hw_addr_size h * 2 + arp_proto_addr_size h * 2.
Definition ARP_MAX_LEN : N := 1028.   (* 8 + 2*255 + 2*255 *)

Definition arp_first8 (h : ArpPacket) : bytes :=
  u16_to_be (arp_hw_addr_type h) ++ u16_to_be (arp_proto_addr_type h)
  ++ [arp_hw_addr_size h; arp_proto_addr_size h] ++ u16_to_be (arp_operation h).

(* to_bytes: ArrayVec<1028>; extend(8 bytes); 4 x try_extend_from_slice(..).unwrap() *)
Definition arp_to_bytes (h : ArpPacket) : option bytes :=
  match arp_sender_hw_addr h, arp_sender_protocol_addr h, arp_target_hw_addr h, arp_target_protocol_addr h with
  | Some sh, Some sp, Some th, Some tp =>
    let all := arp_first8 h ++ sh ++ sp ++ th ++ tp in
    if len all <=? ARP_MAX_LEN then Some all else None
  | _, _, _, _ => None
  end.

Definition arp_write (out : bytes) (h : ArpPacket) : option bytes :=
  match arp_to_bytes h with Some e => Some (out ++ e) | None => None end.

(* ArpPacketSlice::from_slice *)
Definition arp_slice_from_slice (s : bytes) : res bytes :=
  if len s <? 8 then Err ELen
  else match rd s 4, rd s 5 with
       | Some hs, Some ps =>
         let min_len := 8 + hs * 2 + ps * 2 in
         if len s <? min_len then Err ELen else Ok (take min_len s)
       | _, _ => Err EOOB
       end.

(* ArpPacketSlice::to_packet: unchecked reads, from_raw_parts(ptr + off, n), new_unchecked *)
Definition arp_to_packet (s : bytes) : res ArpPacket :=
  match s with
  | b0 :: b1 :: b2 :: b3 :: hs :: ps :: b6 :: b7 :: _ =>
    match slice_range s 8 (8 + hs), slice_range s (8 + hs) (8 + hs + ps),
          slice_range s (8 + hs + ps) (8 + hs + ps + hs),
          slice_range s (8 + hs * 2 + ps) (8 + hs * 2 + ps + ps) with
    | Some sh, Some sp, Some th, Some tp =>
      match arp_new_unchecked (be16 b0 b1) (be16 b2 b3) (be16 b6 b7) sh sp th tp with
      | Some p => Ok p
      | None => Err EOOB
      end
    | _, _, _, _ => Err EOOB
    end
  | _ => Err EOOB
  end.

(* ArpPacket::from_slice: returns the packet only *)
Definition arp_from_slice (s : bytes) : res ArpPacket :=
  match arp_slice_from_slice s with
  | Err e => Err e
  | Ok hs => arp_to_packet hs
  end.

(* ArpPacket::read *)
Definition arp_read (r : bytes) : res (ArpPacket * bytes) :=
  match read_exact r 8 with
  | Err e => Err e
  | Ok (start, r1) =>
    match start with
    | [b0; b1; b2; b3; hs; ps; b6; b7] =>
      if (255 <? hs) || (255 <? ps) then Err EPanic      (* from_raw_parts_mut beyond the buffer *)
      else
      match read_exact r1 hs with
      | Err e => Err e
      | Ok (sh, r2) =>
        match read_exact r2 ps with
        | Err e => Err e
        | Ok (sp, r3) =>
          match read_exact r3 hs with
          | Err e => Err e
          | Ok (th, r4) =>
            match read_exact r4 ps with
            | Err e => Err e
            | Ok (tp, r5) =>
              Ok ({| arp_hw_addr_type := be16 b0 b1; arp_proto_addr_type := be16 b2 b3;
                     arp_hw_addr_size := hs; arp_proto_addr_size := ps; arp_operation := be16 b6 b7;
                     arp_sender_hw_addr_buf := sh; arp_sender_protocol_addr_buf := sp;
                     arp_target_hw_addr_buf := th; arp_target_protocol_addr_buf := tp |}, r5)
            end
          end
        end
      end
    | _ => Err EOOB
    end
  end.

Definition arp_wf_buf (buf : bytes) (n : N) : bool := (n <=? len buf) && (len buf <=? 255) && bytes_okb buf.
Definition wf_arp (h : ArpPacket) : bool :=
  (arp_hw_addr_type h <? 65536) && (arp_proto_addr_type h <? 65536) && (arp_operation h <? 65536)
  && (arp_hw_addr_size h <? 256) && (arp_proto_addr_size h <? 256)
  && arp_wf_buf (arp_sender_hw_addr_buf h) (arp_hw_addr_size h)
  && arp_wf_buf (arp_sender_protocol_addr_buf h) (arp_proto_addr_size h)
  && arp_wf_buf (arp_target_hw_addr_buf h) (arp_hw_addr_size h)
  && arp_wf_buf (arp_target_protocol_addr_buf h) (arp_proto_addr_size h).

(* what a decoder returns: exactly `size` initialised bytes per buffer *)
Definition arp_norm (h : ArpPacket) : ArpPacket :=
  {| arp_hw_addr_type := arp_hw_addr_type h; arp_proto_addr_type := arp_proto_addr_type h;
     arp_hw_addr_size := arp_hw_addr_size h; arp_proto_addr_size := arp_proto_addr_size h;
     arp_operation := arp_operation h;
     arp_sender_hw_addr_buf := take (arp_hw_addr_size h) (arp_sender_hw_addr_buf h);
     arp_sender_protocol_addr_buf := take (arp_proto_addr_size h) (arp_sender_protocol_addr_buf h);
     arp_target_hw_addr_buf := take (arp_hw_addr_size h) (arp_target_hw_addr_buf h);
     arp_target_protocol_addr_buf := take (arp_proto_addr_size h) (arp_target_protocol_addr_buf h) |}.

(* ------------------------------------------------------------------ ArpEthIpv4Packet *)
Record ArpEthIpv4Packet := {
  ae_operation : N;        (* ArpOperation(u16) *)
  ae_sender_mac : bytes;   (* [u8;6] *)
  ae_sender_ipv4 : bytes;  (* [u8;4] *)
  ae_target_mac : bytes;   (* [u8;6] *)
  ae_target_ipv4 : bytes }. (* [u8;4] *)

(* ETH_HW_TYPE = 1, IPV4_ETH_TYPE = 0x0800 *)
Definition ae_to_bytes (v : ArpEthIpv4Packet) : bytes :=
  u16_to_be 1 ++ u16_to_be 2048 ++ [6; 4] ++ u16_to_be (ae_operation v)
  ++ ae_sender_mac v ++ ae_sender_ipv4 v ++ ae_target_mac v ++ ae_target_ipv4 v.

Definition ae_to_arp_packet (v : ArpEthIpv4Packet) : option ArpPacket :=
  arp_new_unchecked 1 2048 (ae_operation v) (ae_sender_mac v) (ae_sender_ipv4 v) (ae_target_mac v)
                    (ae_target_ipv4 v).

(* [buf[0].assume_init(), .., buf[n-1].assume_init()] *)
Definition arp_assume_init (buf : bytes) (n : N) : option bytes :=
  if n <=? len buf then Some (take n buf) else None.

(* try_eth_ipv4: EContent 0..3 = NonMatchingHwType, ProtocolType, HwAddrSize, ProtoAddrSize *)
Definition arp_try_eth_ipv4 (h : ArpPacket) : res ArpEthIpv4Packet :=
  if negb (arp_hw_addr_type h =? 1) then Err (EContent 0)
  else if negb (arp_proto_addr_type h =? 2048) then Err (EContent 1)
  else if negb (arp_hw_addr_size h =? 6) then Err (EContent 2)
  else if negb (arp_proto_addr_size h =? 4) then Err (EContent 3)
  else match arp_assume_init (arp_sender_hw_addr_buf h) 6, arp_assume_init (arp_sender_protocol_addr_buf h) 4,
             arp_assume_init (arp_target_hw_addr_buf h) 6, arp_assume_init (arp_target_protocol_addr_buf h) 4 with
       | Some sm, Some si, Some tm, Some ti =>
         Ok {| ae_operation := arp_operation h; ae_sender_mac := sm; ae_sender_ipv4 := si;
               ae_target_mac := tm; ae_target_ipv4 := ti |}
       | _, _, _, _ => Err EOOB
       end.

Definition wf_ae (v : ArpEthIpv4Packet) : bool :=
  (ae_operation v <? 65536)
  && (len (ae_sender_mac v) =? 6) && bytes_okb (ae_sender_mac v)
  && (len (ae_sender_ipv4 v) =? 4) && bytes_okb (ae_sender_ipv4 v)
  && (len (ae_target_mac v) =? 6) && bytes_okb (ae_target_mac v)
  && (len (ae_target_ipv4 v) =? 4) && bytes_okb (ae_target_ipv4 v).
