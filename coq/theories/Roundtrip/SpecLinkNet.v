(* Roundtrip/SpecLinkNet.v -- wire layouts of the link / network layer headers as
   the standards draw them (IEEE 802.1AE, RFC 4302, RFC 8200, IEEE 802.3/802.1Q,
   LINKTYPE_LINUX_SLL, RFC 826), plain arithmetic, no reference to the Rust code.
   Right-hand sides of the C08_<T>_spec theorems and oracle of the correspondence run. *)
From EP Require Import Base.Bytes Roundtrip.Common Roundtrip.Spec.
Local Open Scope N_scope.

(* IEEE 802.1AE-2018 section 9.3 SecTAG (after the MACsec EtherType):
     TCI-AN octet: | V=0 | ES | SC | SCB | E | C |  AN (2 bit) |     (bit 8 .. bit 1)
     SL octet:     | 0 | 0 |        SL (6 bit)               |
     PN: 4 octets;  SCI: 8 octets, present iff SC = 1.
   etherparse appends the EtherType of the user data (2 octets) iff E = C = 0. *)
Definition macsec_layout (es sc scb e c : bool) (an sl pn : N) (sci et : option N) : bytes :=
  [bit es * 64 + bit sc * 32 + bit scb * 16 + bit e * 8 + bit c * 4 + an; sl]
  ++ field 4 pn
  ++ (match sci with Some s => field 8 s | None => [] end)
  ++ (match et with Some t => field 2 t | None => [] end).

(* RFC 4302 section 2, Authentication Header:
   |  Next Header  |  Payload Len  |          RESERVED             |
   |                 Security Parameters Index (SPI)               |
   |                    Sequence Number Field                      |
   |                Integrity Check Value-ICV (variable)           |
   Payload Len = length of the AH in 32 bit words minus 2. *)
Definition ah_layout (nh spi sq : N) (icv : bytes) : bytes :=
  [nh; (12 + len icv) / 4 - 2; 0; 0] ++ field 4 spi ++ field 4 sq ++ icv.

(* RFC 8200 sections 4.3, 4.4, 4.6 (hop-by-hop, routing, destination options), generic form:
   |  Next Header  |  Hdr Ext Len  |      header specific data ...
   Hdr Ext Len = length of the header in 8-octet units, not including the first 8 octets. *)
Definition rawext_layout (nh : N) (payload : bytes) : bytes :=
  [nh; (2 + len payload) / 8 - 1] ++ payload.

(* RFC 8200 section 3:
   |Version| Traffic Class |           Flow Label                  |
   |         Payload Length        |  Next Header  |   Hop Limit   |
   |                         Source Address (128 bit)              |
   |                      Destination Address (128 bit)            |
   Version = 6; first word = version * 2^28 + traffic class * 2^20 + flow label. *)
Definition ipv6_layout (tc fl pl nh hop : N) (src dst : bytes) : bytes :=
  field 4 (6 * 268435456 + tc * 1048576 + fl) ++ field 2 pl ++ [nh; hop] ++ src ++ dst.

(* IEEE 802.3 / Ethernet II frame header: destination (6), source (6), EtherType (2) *)
Definition eth_layout (dst src : bytes) (et : N) : bytes := dst ++ src ++ field 2 et.

(* IEEE 802.1Q tag after the TPID: TCI = | PCP (3) | DEI (1) | VID (12) |, then the
   EtherType of the encapsulated frame *)
Definition vlan_layout (pcp : N) (dei : bool) (vid et : N) : bytes :=
  field 2 (pcp * 8192 + bit dei * 4096 + vid) ++ field 2 et.

(* LINKTYPE_LINUX_SLL (tcpdump.org/linktypes/LINKTYPE_LINUX_SLL.html):
   packet type (2) | ARPHRD_ type (2) | link-layer address length (2) | link-layer address (8) | protocol type (2) *)
Definition sll_layout (pt hrd alen : N) (addr : bytes) (proto : N) : bytes :=
  field 2 pt ++ field 2 hrd ++ field 2 alen ++ addr ++ field 2 proto.

(* RFC 826 packet format:
   hardware address space (2) | protocol address space (2) | hardware address length (1) |
   protocol address length (1) | opcode (2) | sender hardware address | sender protocol address |
   target hardware address | target protocol address *)
Definition arp_layout (hrd pro op : N) (sha spa tha tpa : bytes) : bytes :=
  field 2 hrd ++ field 2 pro ++ [len sha; len spa] ++ field 2 op ++ sha ++ spa ++ tha ++ tpa.
