(* Roundtrip/AuthProofs.v -- C08 for IpAuthHeader *)
From EP Require Import Base.Bytes Roundtrip.Common Roundtrip.CommonProofs Roundtrip.Auth.
From Coq Require Import ZArith Lia ZifyN.
Local Open Scope N_scope.

Lemma ah_wf_facts h : wf_ah h = true ->
  ah_next_header h < 256 /\ ah_spi h < 4294967296 /\ ah_sequence_number h < 4294967296
  /\ ah_raw_icv_len h <= 254 /\ len (ah_raw_icv_buffer h) = 1016 /\ bytes_ok (ah_raw_icv_buffer h).
Proof. unfold wf_ah. intros W. bsplit W. repeat split; try assumption. apply bytes_okb_spec; assumption. Qed.

Definition ah_icv (h : IpAuthHeader) : bytes := take (ah_raw_icv_len h * 4) (ah_raw_icv_buffer h).
Definition ah_fix (h : IpAuthHeader) : bytes :=
  [ah_next_header h; ah_raw_icv_len h + 1; 0; 0] ++ u32_to_be (ah_spi h) ++ u32_to_be (ah_sequence_number h).

Lemma len_ah_fix h : len (ah_fix h) = 12.
Proof. reflexivity. Qed.

Lemma ah_fixed_wf h : wf_ah h = true -> ah_fixed h = Some (ah_fix h).
Proof.
  intros W. destruct (ah_wf_facts h W) as (_ & _ & _ & L & _).
  unfold ah_fixed. replace (256 <=? ah_raw_icv_len h + 1) with false by (symmetry; apply N.leb_gt; lia). reflexivity.
Qed.

Lemma len_ah_icv h : wf_ah h = true -> len (ah_icv h) = ah_raw_icv_len h * 4.
Proof.
  intros W. destruct (ah_wf_facts h W) as (_ & _ & _ & L & BL & _).
  unfold ah_icv. rewrite len_take, BL. lia.
Qed.

Lemma ah_raw_icv_wf h : wf_ah h = true -> ah_raw_icv h = Some (ah_icv h).
Proof.
  intros W. destruct (ah_wf_facts h W) as (_ & _ & _ & L & BL & _).
  unfold ah_raw_icv, slice_range. rewrite BL.
  replace (0 <=? ah_raw_icv_len h * 4) with true by (symmetry; apply N.leb_le; lia).
  replace (ah_raw_icv_len h * 4 <=? 1016) with true by (symmetry; apply N.leb_le; lia).
  cbn [andb]. rewrite N.sub_0_r, drop_0. reflexivity.
Qed.

Lemma ah_to_bytes_wf h : wf_ah h = true -> ah_to_bytes h = Some (ah_fix h ++ ah_icv h).
Proof.
  intros W. destruct (ah_wf_facts h W) as (_ & _ & _ & L & BL & _).
  unfold ah_to_bytes. rewrite (ah_fixed_wf h W). unfold ah_header_len, AH_MAX_LEN.
  rewrite len_app, len_ah_fix, BL.
  replace (12 + 1016 <=? 1028) with true by reflexivity.
  replace (12 + ah_raw_icv_len h * 4 <=? 12 + 1016) with true by (symmetry; apply N.leb_le; lia).
  cbn [andb]. f_equal. apply take_app_more. rewrite len_ah_fix. reflexivity.
Qed.

Theorem ah_ser_agree h out : wf_ah h = true ->
  exists e, ah_to_bytes h = Some e /\ ah_write out h = Some (out ++ e) /\ len e = ah_header_len h.
Proof.
  intros W. exists (ah_fix h ++ ah_icv h). split; [apply ah_to_bytes_wf; assumption|]. split.
  - unfold ah_write. rewrite (ah_fixed_wf h W), (ah_raw_icv_wf h W). reflexivity.
  - rewrite len_app, len_ah_fix, (len_ah_icv h W). reflexivity.
Qed.

(* new on an aligned ICV *)
Lemma ah_new_aligned nh spi sq icv k : len icv = k * 4 -> k <= 254 ->
  ah_new nh spi sq icv = Some {| ah_next_header := nh; ah_spi := spi; ah_sequence_number := sq;
                                 ah_raw_icv_len := k; ah_raw_icv_buffer := icv ++ zeros (1016 - k * 4) |}.
Proof.
  intros L K. unfold ah_new, AH_MAX_ICV_LEN. rewrite L.
  replace (1016 <? k * 4) with false by (symmetry; apply N.ltb_ge; lia).
  rewrite N.mod_mul by lia. change (0 =? 0) with true. cbn [negb].
  rewrite N.div_mul by lia. unfold as_u8. rewrite N.mod_small by lia. reflexivity.
Qed.

Lemma ah_slice_from_slice_app F O rest pl :
  len F = 12 -> rd F 1 = Some pl -> 1 <= pl -> (pl + 2) * 4 = 12 + len O ->
  ah_slice_from_slice (F ++ O ++ rest) = Ok (F ++ O).
Proof.
  intros LF R P H. unfold ah_slice_from_slice. rewrite !len_app, LF.
  replace (12 + (len O + len rest) <? 12) with false by (symmetry; apply N.ltb_ge; lia).
  assert (R' : rd (F ++ O ++ rest) 1 = Some pl).
  { unfold rd in *. rewrite nth_error_app1; [assumption|]. apply nth_error_Some. congruence. }
  rewrite R'. replace (pl <? 1) with false by (symmetry; apply N.ltb_ge; lia).
  rewrite H. replace (12 + (len O + len rest) <? 12 + len O) with false by (symmetry; apply N.ltb_ge; lia).
  f_equal. rewrite app_assoc. apply take_app_len. rewrite len_app, LF. reflexivity.
Qed.

Lemma ah_norm_icv h : ah_raw_icv_buffer (ah_norm h) = ah_icv h ++ zeros (1016 - ah_raw_icv_len h * 4).
Proof. reflexivity. Qed.

Theorem ah_dec_enc h rest : wf_ah h = true ->
  exists e, ah_to_bytes h = Some e /\ ah_from_slice (e ++ rest) = Ok (ah_norm h, rest)
            /\ ah_read (e ++ rest) = Ok (ah_norm h, rest) /\ ah_eqb (ah_norm h) h = true.
Proof.
  intros W. destruct (ah_wf_facts h W) as (R1 & R2 & R3 & L & BL & BO).
  set (O := ah_icv h). assert (LO : len O = ah_raw_icv_len h * 4) by (apply len_ah_icv; assumption).
  exists (ah_fix h ++ O). split; [apply ah_to_bytes_wf; assumption|].
  assert (HDR : ah_to_header (ah_fix h ++ O) = Ok (ah_norm h)).
  { unfold ah_fix, u32_to_be. cbn [app]. unfold ah_to_header, slice_from.
    rewrite !len_cons.
    replace (12 <=? 1 + (1 + (1 + (1 + (1 + (1 + (1 + (1 + (1 + (1 + (1 + (1 + len O)))))))))))) with true
      by (symmetry; apply N.leb_le; lia).
    change (drop 12 ?x) with O.
    rewrite (ah_new_aligned _ _ _ O (ah_raw_icv_len h) LO L).
    rewrite !u32_be_roundtrip by assumption. reflexivity. }
  split; [|split].
  - unfold ah_from_slice. rewrite <- app_assoc.
    rewrite (ah_slice_from_slice_app (ah_fix h) O rest (ah_raw_icv_len h + 1));
      [|apply len_ah_fix|reflexivity|lia|rewrite LO; lia].
    rewrite HDR. unfold slice_from. rewrite !len_app, len_ah_fix.
    replace (12 + len O <=? 12 + (len O + len rest)) with true by (symmetry; apply N.leb_le; lia).
    rewrite app_assoc, (drop_app_len (ah_fix h ++ O) rest) by (rewrite len_app, len_ah_fix; reflexivity).
    reflexivity.
  - unfold ah_read, read_exact. rewrite <- app_assoc, !len_app, len_ah_fix.
    replace (12 + (len O + len rest) <? 12) with false by (symmetry; apply N.ltb_ge; lia).
    rewrite (take_app_len (ah_fix h)) by (symmetry; apply len_ah_fix).
    rewrite (drop_app_len (ah_fix h)) by (symmetry; apply len_ah_fix).
    unfold ah_fix, u32_to_be. cbn [app]. cbv iota beta.
    replace (ah_raw_icv_len h + 1 <? 1) with false by (symmetry; apply N.ltb_ge; lia).
    replace (ah_raw_icv_len h + 1 - 1) with (ah_raw_icv_len h) by lia.
    unfold AH_MAX_ICV_LEN.
    replace (1016 <? ah_raw_icv_len h * 4) with false by (symmetry; apply N.ltb_ge; lia).
    rewrite len_app, LO.
    replace (ah_raw_icv_len h * 4 + len rest <? ah_raw_icv_len h * 4) with false by (symmetry; apply N.ltb_ge; lia).
    rewrite (take_app_len O rest) by (symmetry; exact LO).
    rewrite (drop_app_len O rest) by (symmetry; exact LO).
    rewrite !u32_be_roundtrip by assumption. reflexivity.
  - unfold ah_eqb, ah_norm. cbn [ah_next_header ah_spi ah_sequence_number].
    rewrite !N.eqb_refl. cbn [andb].
    rewrite (ah_raw_icv_wf h W). unfold ah_raw_icv, slice_range. cbn [ah_raw_icv_len ah_raw_icv_buffer].
    fold (ah_icv h). fold O. rewrite len_app, LO, len_zeros.
    replace (0 <=? ah_raw_icv_len h * 4) with true by (symmetry; apply N.leb_le; lia).
    replace (ah_raw_icv_len h * 4 <=? ah_raw_icv_len h * 4 + (1016 - ah_raw_icv_len h * 4)) with true
      by (symmetry; apply N.leb_le; lia).
    cbn [andb]. rewrite N.sub_0_r, drop_0, (take_app_len O) by (symmetry; exact LO). apply bytes_eqb_refl.
Qed.

Theorem ah_enc_dec bs h rest : bytes_ok bs -> ah_from_slice bs = Ok (h, rest) ->
  wf_ah h = true /\ ah_norm h = h /\
  exists e, ah_to_bytes h = Some e /\ bs = take (ah_header_len h) bs ++ rest
            /\ agree (ah_keep_mask (ah_header_len h)) e (take (ah_header_len h) bs)
            /\ ah_from_slice e = Ok (h, []).
Proof.
  intros OK H. unfold ah_from_slice, ah_slice_from_slice in H.
  destruct (len bs <? 12) eqn:L; [discriminate|].
  destruct bs as [|b0 [|b1 [|b2 [|b3 [|b4 [|b5 [|b6 [|b7 [|b8 [|b9 [|b10 [|b11 r]]]]]]]]]]]];
    try (vm_compute in L; discriminate).
  clear L.
  match type of H with context [rd ?s 1] => change (rd s 1) with (Some b1) in H end.
  cbv iota beta zeta in H.
  destruct (b1 <? 1) eqn:L1; [discriminate|]. apply N.ltb_ge in L1.
  set (hl := (b1 + 2) * 4) in *.
  set (bs := b0 :: b1 :: b2 :: b3 :: b4 :: b5 :: b6 :: b7 :: b8 :: b9 :: b10 :: b11 :: r) in *.
  destruct (len bs <? hl) eqn:L2; [discriminate|]. apply N.ltb_ge in L2.
  pose proof OK as OK'. unfold bs in OK'. bytes_ok_split OK'.
  set (F := [b0; b1; b2; b3; b4; b5; b6; b7; b8; b9; b10; b11]).
  assert (EB : bs = F ++ r) by reflexivity.
  set (k := b1 - 1).
  assert (HK : hl = 12 + k * 4) by (unfold hl, k; lia).
  assert (K254 : k <= 254) by (unfold k; lia).
  set (O := take (k * 4) r).
  assert (LR : k * 4 <= len r).
  { rewrite EB, len_app in L2. change (len F) with 12 in L2. lia. }
  assert (LO : len O = k * 4) by (unfold O; rewrite len_take; lia).
  assert (TK : take hl bs = F ++ O).
  { rewrite EB. apply take_app_more. change (len F) with 12. exact HK. }
  assert (BOo : bytes_ok O) by (unfold O; apply bytes_ok_take; exact OK').
  rewrite TK in H. unfold slice_from in H.
  replace (len (F ++ O)) with hl in H by (rewrite len_app, LO; change (len F) with 12; lia).
  replace (hl <=? len bs) with true in H by (symmetry; apply N.leb_le; exact L2).
  unfold F in H. cbn [app] in H. unfold ah_to_header, slice_from in H.
  rewrite !len_cons in H.
  replace (12 <=? 1 + (1 + (1 + (1 + (1 + (1 + (1 + (1 + (1 + (1 + (1 + (1 + len O)))))))))))) with true in H
    by (symmetry; apply N.leb_le; lia).
  match type of H with context [drop 12 ?x] => change (drop 12 x) with O in H end.
  rewrite (ah_new_aligned _ _ _ O k LO K254) in H.
  injection H as Hh Hrest.
  assert (Hl : ah_header_len h = hl).
  { rewrite <- Hh. unfold ah_header_len. cbn [ah_raw_icv_len]. lia. }
  assert (WF : wf_ah h = true).
  { rewrite <- Hh. unfold wf_ah. cbn [ah_next_header ah_spi ah_sequence_number ah_raw_icv_len ah_raw_icv_buffer].
    pose proof (be32_bound b4 b5 b6 b7 B3 B4 B5 B6) as X3.
    pose proof (be32_bound b8 b9 b10 b11 B7 B8 B9 B10) as X4.
    apply N.ltb_lt in X3, X4, B. rewrite X3, X4, B. cbn [andb].
    replace (k <=? 254) with true by (symmetry; apply N.leb_le; exact K254).
    rewrite len_app, LO, len_zeros.
    replace (k * 4 + (1016 - k * 4) =? 1016) with true by (symmetry; apply N.eqb_eq; lia).
    cbn [andb]. apply bytes_okb_spec. apply bytes_ok_app. split; [exact BOo|apply bytes_ok_zeros]. }
  assert (NM : ah_norm h = h).
  { rewrite <- Hh. unfold ah_norm. cbn [ah_next_header ah_spi ah_sequence_number ah_raw_icv_len ah_raw_icv_buffer].
    rewrite (take_app_len O) by (symmetry; exact LO). reflexivity. }
  split; [exact WF|]. split; [exact NM|].
  destruct (ah_dec_enc h [] WF) as (e & E1 & E2 & _ & _).
  exists e. split; [exact E1|]. rewrite Hl.
  split; [rewrite <- Hrest; symmetry; apply take_drop|].
  rewrite app_nil_r, NM in E2. split; [|exact E2].
  rewrite (ah_to_bytes_wf h WF) in E1. apply Some_inj in E1. rewrite <- E1, TK.
  apply agree_of_masked.
  - unfold ah_keep_mask. rewrite !len_app, !len_ones, LO. change (len F) with 12. change (len [255; 255; 0; 0]) with 4. lia.
  - assert (IC : ah_icv h = O).
    { rewrite <- Hh. unfold ah_icv. cbn [ah_raw_icv_len ah_raw_icv_buffer]. apply take_app_len. symmetry. exact LO. }
    rewrite IC. rewrite <- Hh. unfold ah_fix. cbn [ah_next_header ah_spi ah_sequence_number ah_raw_icv_len].
    rewrite (u32_to_be_be32 b4 b5 b6 b7 B3 B4 B5 B6), (u32_to_be_be32 b8 b9 b10 b11 B7 B8 B9 B10).
    replace (k + 1) with b1 by (unfold k; lia).
    unfold ah_keep_mask.
    change F with ([b0; b1; b2; b3] ++ [b4; b5; b6; b7; b8; b9; b10; b11]).
    cbn [app masked].
    rewrite !land_255 by assumption. rewrite !N.land_0_r.
    replace (hl - 4) with (len ([b4; b5; b6; b7; b8; b9; b10; b11] ++ O))
      by (rewrite len_app, LO; change (len [b4; b5; b6; b7; b8; b9; b10; b11]) with 8; lia).
    rewrite masked_ones by (repeat (apply bytes_ok_explicit_cons; [assumption|]); exact BOo).
    reflexivity.
Qed.

(* ---- the serialiser writes the RFC 4302 layout ---- *)
From EP Require Import Roundtrip.Spec Roundtrip.SpecLinkNet.

Theorem ah_spec h : wf_ah h = true ->
  ah_to_bytes h = Some (ah_layout (ah_next_header h) (ah_spi h) (ah_sequence_number h) (ah_icv h)).
Proof.
  intros W. rewrite (ah_to_bytes_wf h W). f_equal.
  unfold ah_layout, ah_fix. rewrite (len_ah_icv h W).
  replace ((12 + ah_raw_icv_len h * 4) / 4 - 2) with (ah_raw_icv_len h + 1); [reflexivity|].
  replace (12 + ah_raw_icv_len h * 4) with ((ah_raw_icv_len h + 3) * 4) by lia.
  rewrite N.div_mul by lia. lia.
Qed.

(* new() yields a well-formed value whose ICV is the argument *)
Lemma ah_new_wf nh spi sq icv h : nh < 256 -> spi < 4294967296 -> sq < 4294967296 -> bytes_ok icv ->
  ah_new nh spi sq icv = Some h -> wf_ah h = true /\ ah_icv h = icv /\ ah_norm h = h.
Proof.
  intros A B C OK H. unfold ah_new, AH_MAX_ICV_LEN in H.
  destruct (1016 <? len icv) eqn:L; [discriminate|]. apply N.ltb_ge in L.
  destruct (len icv mod 4 =? 0) eqn:M; [|discriminate]. cbn [negb] in H. apply N.eqb_eq in M.
  apply Some_inj in H.
  assert (D : len icv = len icv / 4 * 4).
  { pose proof (N.div_mod (len icv) 4 ltac:(lia)) as X. rewrite M in X. lia. }
  assert (K : len icv / 4 <= 254) by lia.
  assert (U : as_u8 (len icv / 4) = len icv / 4) by (unfold as_u8; apply N.mod_small; lia).
  rewrite U in H. subst h. split; [|split].
  - unfold wf_ah. cbn [ah_next_header ah_spi ah_sequence_number ah_raw_icv_len ah_raw_icv_buffer].
    apply N.ltb_lt in A, B, C. rewrite A, B, C. cbn [andb].
    replace (len icv / 4 <=? 254) with true by (symmetry; apply N.leb_le; exact K).
    rewrite len_app, len_zeros.
    replace (len icv + (1016 - len icv) =? 1016) with true by (symmetry; apply N.eqb_eq; lia).
    cbn [andb]. apply bytes_okb_spec, bytes_ok_app. split; [assumption|apply bytes_ok_zeros].
  - unfold ah_icv. cbn [ah_raw_icv_len ah_raw_icv_buffer]. apply take_app_len. symmetry. exact D.
  - unfold ah_norm. cbn [ah_next_header ah_spi ah_sequence_number ah_raw_icv_len ah_raw_icv_buffer].
    rewrite <- D. rewrite (take_app_len icv) by reflexivity. reflexivity.
Qed.

(* set_raw_icv keeps the value well-formed and may leave stale bytes behind the ICV *)
Lemma ah_set_raw_icv_wf h icv h' : wf_ah h = true -> bytes_ok icv ->
  ah_set_raw_icv h icv = Some h' -> wf_ah h' = true /\ ah_icv h' = icv.
Proof.
  intros W OK H. destruct (ah_wf_facts h W) as (R1 & R2 & R3 & _ & BL & BO).
  unfold ah_set_raw_icv, AH_MAX_ICV_LEN in H.
  destruct (1016 <? len icv) eqn:L; [discriminate|]. apply N.ltb_ge in L.
  destruct (len icv mod 4 =? 0) eqn:M; [|discriminate]. cbn [negb] in H. apply N.eqb_eq in M.
  destruct (len (ah_raw_icv_buffer h) <? len icv); [discriminate|].
  apply Some_inj in H.
  assert (D : len icv = len icv / 4 * 4).
  { pose proof (N.div_mod (len icv) 4 ltac:(lia)) as X. rewrite M in X. lia. }
  assert (K : len icv / 4 <= 254) by lia.
  assert (U : as_u8 (len icv / 4) = len icv / 4) by (unfold as_u8; apply N.mod_small; lia).
  rewrite U in H. subst h'. split.
  - unfold wf_ah. cbn [ah_next_header ah_spi ah_sequence_number ah_raw_icv_len ah_raw_icv_buffer].
    apply N.ltb_lt in R1, R2, R3. rewrite R1, R2, R3. cbn [andb].
    replace (len icv / 4 <=? 254) with true by (symmetry; apply N.leb_le; exact K).
    rewrite len_app, len_drop, BL.
    replace (len icv + (1016 - len icv) =? 1016) with true by (symmetry; apply N.eqb_eq; lia).
    cbn [andb]. apply bytes_okb_spec, bytes_ok_app. split; [assumption|apply bytes_ok_drop; assumption].
  - unfold ah_icv. cbn [ah_raw_icv_len ah_raw_icv_buffer]. apply take_app_len. symmetry. exact D.
Qed.
