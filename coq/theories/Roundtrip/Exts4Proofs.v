(* Roundtrip/Exts4Proofs.v -- C08 for Ipv4Extensions *)
From EP Require Import Base.Bytes Roundtrip.Common Roundtrip.CommonProofs Roundtrip.Auth Roundtrip.AuthProofs
  Roundtrip.Exts4.
From Coq Require Import ZArith Lia ZifyN.
Local Open Scope N_scope.

(* from_slice with AUTH is IpAuthHeader::from_slice plus the next header *)
Lemma ah_to_header_next hs h : ah_to_header hs = Ok h -> rd hs 0 = Some (ah_next_header h).
Proof.
  unfold ah_to_header. destruct hs as [|b0 [|b1 [|b2 [|b3 [|b4 [|b5 [|b6 [|b7 [|b8 [|b9 [|b10 [|b11 r]]]]]]]]]]]];
    try discriminate.
  destruct (slice_from _ 12); [|discriminate].
  unfold ah_new. destruct (AH_MAX_ICV_LEN <? len b); [discriminate|].
  destruct (negb (len b mod 4 =? 0)); [discriminate|].
  intros H. apply Ok_inj in H. subst h. reflexivity.
Qed.

Lemma x4_from_slice_auth s : x4_from_slice X4_AUTH s =
  match ah_from_slice s with
  | Ok (h, rest) => Ok ({| x4_auth := Some h |}, ah_next_header h, rest)
  | Err e => Err e
  end.
Proof.
  unfold x4_from_slice, x4_slice_from_slice, ah_from_slice. rewrite N.eqb_refl.
  destruct (ah_slice_from_slice s) as [hs|e]; [|reflexivity].
  destruct (slice_from s (len hs)) as [rest|]; [|reflexivity].
  destruct (ah_to_header hs) as [h|e] eqn:T.
  - rewrite (ah_to_header_next hs h T). rewrite T. reflexivity.
  - destruct hs as [|x l].
    + cbn in T. injection T as <-. reflexivity.
    + change (rd (x :: l) 0) with (Some x). cbv iota. rewrite T. reflexivity.
Qed.

(* write with a linked start number: the header bytes (nothing when absent), header_len many *)
Theorem x4_ser_agree e out start : wf_x4 e = true -> x4_linked start e = true ->
  exists b, x4_write out e start = Ok (out ++ b) /\ len b = x4_header_len e
            /\ match x4_auth e with Some h => ah_to_bytes h = Some b | None => b = [] end.
Proof.
  intros W L. unfold x4_write, x4_header_len, wf_x4, x4_linked in *.
  destruct (x4_auth e) as [h|].
  - destruct (ah_ser_agree h out W) as (b & B1 & _ & B3). exists b. rewrite L, B1. auto.
  - exists []. rewrite app_nil_r. auto.
Qed.

(* an authentication header that the preceding header does not announce is refused by write *)
Theorem x4_write_unlinked e out start h : x4_auth e = Some h -> start <> X4_AUTH ->
  x4_write out e start = Err (EContent 0).
Proof.
  intros E N. unfold x4_write. rewrite E.
  destruct (N.eqb_spec X4_AUTH start) as [X|X]; [congruence|reflexivity].
Qed.

Theorem x4_dec_enc e start rest : wf_x4 e = true -> x4_linked start e = true ->
  exists b, x4_write [] e start = Ok b
    /\ x4_from_slice start (b ++ rest) = Ok (x4_norm e, x4_final start e, rest)
    /\ x4_read (b ++ rest) start = Ok (x4_norm e, x4_final start e, rest)
    /\ x4_eqb (x4_norm e) e = true.
Proof.
  intros W L. unfold wf_x4, x4_linked in *. unfold x4_write, x4_norm, x4_final, x4_eqb.
  destruct e as [[h|]]; cbn [x4_auth] in *.
  - apply N.eqb_eq in L. subst start. rewrite N.eqb_refl.
    destruct (ah_dec_enc h rest W) as (b & B1 & B2 & B3 & B4). rewrite B1. exists b. cbn [app].
    split; [reflexivity|]. rewrite x4_from_slice_auth, B2. unfold x4_read. rewrite N.eqb_refl, B3.
    repeat split; try reflexivity. exact B4.
  - exists []. cbn [app]. unfold x4_from_slice, x4_slice_from_slice, x4_read.
    apply negb_true_iff in L. rewrite L. repeat split; reflexivity.
Qed.

(* the keep-mask of the consumed bytes: the AH mask when an AH was consumed *)
Definition x4_keep_mask (e : Ipv4Extensions) : bytes :=
  match x4_auth e with Some h => ah_keep_mask (ah_header_len h) | None => [] end.

Theorem x4_enc_dec start bs e n rest : bytes_ok bs -> x4_from_slice start bs = Ok (e, n, rest) ->
  wf_x4 e = true /\ x4_norm e = e /\ x4_linked start e = true /\ n = x4_final start e
  /\ exists b, x4_write [] e start = Ok b /\ bs = take (x4_header_len e) bs ++ rest
       /\ agree (x4_keep_mask e) b (take (x4_header_len e) bs)
       /\ x4_from_slice start (b ++ rest) = Ok (e, n, rest).
Proof.
  intros OK H. destruct (N.eqb_spec X4_AUTH start) as [X|X].
  - subst start. rewrite x4_from_slice_auth in H.
    destruct (ah_from_slice bs) as [[h r]|] eqn:F; [|discriminate].
    apply Ok_inj in H. injection H as <- <- <-.
    destruct (ah_enc_dec bs h r OK F) as (WF & NM & b & B1 & B2 & B3 & B4).
    unfold wf_x4, x4_norm, x4_linked, x4_final, x4_write, x4_header_len, x4_keep_mask. cbn [x4_auth].
    rewrite NM, N.eqb_refl, B1. repeat split; try assumption; try reflexivity.
    exists b. split; [reflexivity|]. split; [exact B2|]. split; [exact B3|].
    destruct (ah_dec_enc h r WF) as (b' & C1 & C2 & _). rewrite B1 in C1. apply Some_inj in C1. subst b'.
    rewrite x4_from_slice_auth, C2, NM. reflexivity.
  - unfold x4_from_slice, x4_slice_from_slice in H. apply N.eqb_neq in X. rewrite X in H.
    apply Ok_inj in H. injection H as <- <- <-.
    unfold wf_x4, x4_norm, x4_linked, x4_final, x4_write, x4_header_len, x4_keep_mask. cbn [x4_auth].
    rewrite X. repeat split; try reflexivity.
    exists []. cbn [app]. rewrite take_0. cbn [app]. split; [reflexivity|]. split; [reflexivity|].
    split; [unfold agree; repeat split; reflexivity|].
    unfold x4_from_slice, x4_slice_from_slice. rewrite X. reflexivity.
Qed.
