(* Roundtrip/DecodersTotal.v -- audit follow-up (C08 / C06): the decoder models of the C08 types
   never end in one of their MODEL failure values, for EVERY input.

   The C08 models (Roundtrip/*.v) return `Err EOOB` / `Err EPanic` where the transliterated Rust code
   would read out of bounds (get_unchecked, from_raw_parts), panic on a slice index / unwrap, or
   (IpHeaders, Ipv6Extensions) where a part model returns Panic / OutOfFuel / QBad / QUnderflow /
   QFuel.  The round-trip theorems conclude `Ok` and so exclude these values for ACCEPTED inputs
   only.  Here: for every byte string -- `bytes_ok bs` where a length octet >= 256 would send the
   model into a branch a real u8 cannot reach -- every from_slice / read / from_bytes model returns
   `Ok _` or a proper error (`ELen`, `EContent _`, `EIo`): `proper`.  Hence no equation between two
   decoder results (C06's value theorems `X_read bs = eof_of_len (X_from_slice bs)`) holds because
   both sides are a model failure.

   Method: the length check of each decoder makes its unchecked reads defined (`rd_lt_Some`,
   `slice_range_some`); the byte sweeps of C08 (`tcp_b12_facts`, `band15_lt`) bound the derived
   lengths; `read` follows from the C06 equalities read = eof_of_len from_slice (Equiv/ReadValues*.v)
   where they exist; ICMP / IGMP through the C17 theorems (model = RFC table, which has no UB);
   Ipv6Extensions through C12 (`from_slice_never_panics`, erasure to C16's read program + C16's
   `ext_readers_good`); IpHeaders by composition, the LimitedReader with ANY budget (also larger
   than the data: no `iph_read_room`-style hypothesis). *)
From EP Require Import Base.Bytes Roundtrip.Common Roundtrip.CommonProofs Roundtrip.LinkNetLemmas.
From EP Require Import CtlMsg.Spec CtlMsg.Model CtlMsg.Proofs.
From EP Require Import Roundtrip.Eth Roundtrip.Vlan Roundtrip.Sll Roundtrip.Udp Roundtrip.Frag Roundtrip.Ipv6
  Roundtrip.Tcp Roundtrip.Ipv4 Roundtrip.Auth Roundtrip.RawExt Roundtrip.Macsec Roundtrip.Arp Roundtrip.Exts4
  Roundtrip.Icmp4 Roundtrip.Icmp4Proofs Roundtrip.Icmp6 Roundtrip.Icmp6Proofs
  Roundtrip.Igmp Roundtrip.IgmpProofs Roundtrip.Grec Roundtrip.GrecProofs Roundtrip.Prefix
  Roundtrip.IpHeaders Roundtrip.IpHeadersProofs.
From EP Require Roundtrip.ArpProofs.
From EP Require IoFault.Spec IoFault.Model IoFault.Proofs ExtChain.Spec ExtChain.Model ExtChain.DecodeTotal
  ExtChain.ReadModel ExtChain.ReadView ExtChain.ReadProofs ExtChain.ReadErase.
From EP Require Import Equiv.ReadValues Equiv.ReadValuesLink Equiv.ReadValuesNet.
From EP Require Import Roundtrip.Common.
From Coq Require Import ZArith Lia ZifyN ZifyBool.
Local Open Scope N_scope.
Module XM := EP.ExtChain.Model.
Module XR := EP.ExtChain.ReadModel.
Module XV := EP.ExtChain.ReadView.
Module XE := EP.ExtChain.ReadErase.
Module IOM := EP.IoFault.Model.
Module IOS := EP.IoFault.Spec.
Module IOP := EP.IoFault.Proofs.

(* a decoder result that is not a failure value of the MODEL *)
Definition proper {A} (r : res A) : Prop :=
  match r with
  | Ok _ | Err ELen | Err (EContent _) | Err EIo => True
  | Err EOOB | Err EPanic => False
  end.

Lemma proper_eof {A} (r : res A) : proper r -> proper (eof_of_len r).
Proof. destruct r as [a|[]]; auto. Qed.

Ltac ltb_all :=
  repeat match goal with
  | H : (_ <? _) = true |- _ => apply N.ltb_lt in H
  | H : (_ <? _) = false |- _ => apply N.ltb_ge in H
  | H : (_ <=? _) = true |- _ => apply N.leb_le in H
  | H : (_ <=? _) = false |- _ => apply N.leb_gt in H
  | H : (_ =? _) = true |- _ => apply N.eqb_eq in H
  | H : (_ =? _) = false |- _ => apply N.eqb_neq in H
  end.

Lemma slice_range_some (s : bytes) a b : a <= b -> b <= len s ->
  exists o, slice_range s a b = Some o /\ len o = b - a.
Proof.
  intros H1 H2. unfold slice_range. rewrite (leb_true _ _ H1), (leb_true _ _ H2). cbn [andb].
  eexists. split; [reflexivity|]. rewrite len_take, len_drop. lia.
Qed.
Lemma slice_from_some (s : bytes) a : a <= len s -> slice_from s a = Some (drop a s).
Proof. intros H. unfold slice_from. rewrite (leb_true _ _ H). reflexivity. Qed.
Lemma slice_range_ok (s : bytes) a b o : bytes_ok s -> slice_range s a b = Some o -> bytes_ok o.
Proof.
  unfold slice_range. intros Hb. destruct ((a <=? b) && (b <=? len s)); [|discriminate].
  intros H. injection H as <-. apply bytes_ok_take, bytes_ok_drop, Hb.
Qed.

(* a list with at least n elements, written out *)
Tactic Notation "explode" ident(s) integer(n) :=
  do n (destruct s as [|? s]; [exfalso; unfold len in *; cbn [length] in *; lia|]).
(* bs = (k explicit elements) ++ t *)
Ltac split_pre bs k E :=
  let pre := fresh "pre" in let t := fresh "t" in let Hpre := fresh "Hpre" in
  destruct (split_n k bs E) as (pre & t & -> & Hpre);
  repeat (destruct pre as [|? pre]; [discriminate Hpre|]); destruct pre; [|discriminate Hpre]; clear Hpre.
Ltac rd_all s :=
  repeat match goal with
  | |- context [rd s ?i] => let v := fresh "v" in destruct (rd_lt_Some s i ltac:(lia)) as [v ->]
  end.

(* ---- Ethernet2Header ---- *)
Lemma eth_from_slice_total bs : proper (eth_from_slice bs).
Proof.
  unfold eth_from_slice, eth_slice_from_slice, slice_from.
  destruct (len bs <? 14) eqn:E; [exact I|]. apply N.ltb_ge in E.
  replace (14 <=? len bs) with true by (symmetry; apply N.leb_le; lia).
  split_pre bs 14%nat E. exact I.
Qed.
Lemma eth_read_total bs : proper (eth_read bs).
Proof. rewrite eth_read_eq_from_slice. apply proper_eof, eth_from_slice_total. Qed.
Lemma eth_from_bytes_total b : len b = 14 -> proper (eth_from_bytes b).
Proof. intros L. explode b 14. destruct b; [exact I|exfalso; unfold len in L; cbn [length] in L; lia]. Qed.

(* ---- SingleVlanHeader ---- *)
Lemma vl_from_slice_total bs : proper (vl_from_slice bs).
Proof.
  unfold vl_from_slice, vl_slice_from_slice, slice_from.
  destruct (len bs <? 4) eqn:E; [exact I|]. apply N.ltb_ge in E.
  replace (4 <=? len bs) with true by (symmetry; apply N.leb_le; lia).
  split_pre bs 4%nat E. exact I.
Qed.
Lemma vl_read_total bs : proper (vl_read bs).
Proof. rewrite vl_read_eq_from_slice. apply proper_eof, vl_from_slice_total. Qed.
Lemma vl_from_bytes_total b : len b = 4 -> proper (vl_from_bytes b).
Proof. intros L. explode b 4. destruct b; [exact I|exfalso; unfold len in L; cbn [length] in L; lia]. Qed.

(* ---- LinuxSllHeader ---- *)
Lemma sll_from_slice_total bs : proper (sll_from_slice bs).
Proof.
  unfold sll_from_slice, sll_slice_from_slice, slice_from.
  destruct (len bs <? 16) eqn:E; [exact I|]. apply N.ltb_ge in E.
  replace (16 <=? len bs) with true by (symmetry; apply N.leb_le; lia).
  split_pre bs 16%nat E.
  unfold sll_rd16 at 1 2 3.
  match goal with |- context [rd ?l 0] => change (rd l 0) with (Some n); change (rd l 1) with (Some n0);
     change (rd l 2) with (Some n1); change (rd l 3) with (Some n2);
     change (rd l 14) with (Some n13); change (rd l 15) with (Some n14) end.
  cbv iota beta.
  destruct (sll_packet_type_try_from (be16 n n0)) as [pt|] eqn:PT; [|exact I].
  destruct (sll_protocol_try_from (be16 n1 n2) (be16 n13 n14)) as [p|] eqn:PR; [|exact I].
  match goal with |- context [take 16 ?l] =>
    change (take 16 l) with [n; n0; n1; n2; n3; n4; n5; n6; n7; n8; n9; n10; n11; n12; n13; n14] end.
  unfold sll_to_header, sll_rd16.
  match goal with |- context [rd ?l 0] => change (rd l 0) with (Some n); change (rd l 1) with (Some n0);
     change (rd l 2) with (Some n1); change (rd l 3) with (Some n2);
     change (rd l 4) with (Some n3); change (rd l 5) with (Some n4);
     change (rd l 14) with (Some n13); change (rd l 15) with (Some n14) end.
  cbv iota beta. 
  match goal with |- context [slice_range ?l 6 14] =>
    change (slice_range l 6 14) with (Some [n5; n6; n7; n8; n9; n10; n11; n12]) end.
  cbv iota beta. rewrite PT, PR. exact I.
Qed.
Lemma sll_read_total bs : proper (Sll.sll_read bs).
Proof. rewrite sll_read_eq_from_slice. apply proper_eof, sll_from_slice_total. Qed.
Lemma sll_from_bytes_total b : len b = 16 -> proper (sll_from_bytes b).
Proof.
  intros L. explode b 16. destruct b; [|exfalso; unfold len in L; cbn [length] in L; lia].
  unfold sll_from_bytes.
  destruct (sll_packet_type_try_from _); [|exact I]. destruct (sll_protocol_try_from _ _); exact I.
Qed.

(* ---- UdpHeader ---- *)
Lemma udp_from_slice_total bs : proper (udp_from_slice bs).
Proof.
  unfold udp_from_slice, udp_slice_from_slice, slice_from.
  destruct (len bs <? 8) eqn:E; [exact I|]. apply N.ltb_ge in E.
  replace (8 <=? len bs) with true by (symmetry; apply N.leb_le; lia).
  split_pre bs 8%nat E. exact I.
Qed.
Lemma udp_read_total bs : proper (udp_read bs).
Proof. rewrite udp_read_eq_from_slice. apply proper_eof, udp_from_slice_total. Qed.
Lemma udp_from_bytes_total b : len b = 8 -> proper (udp_from_bytes b).
Proof. intros L. explode b 8. destruct b; [exact I|exfalso; unfold len in L; cbn [length] in L; lia]. Qed.

(* ---- Ipv6FragmentHeader ---- *)
Lemma frag_from_slice_total bs : proper (frag_from_slice bs).
Proof.
  unfold frag_from_slice, frag_slice_from_slice, slice_from.
  destruct (len bs <? 8) eqn:E; [exact I|]. apply N.ltb_ge in E.
  replace (8 <=? len bs) with true by (symmetry; apply N.leb_le; lia).
  split_pre bs 8%nat E. exact I.
Qed.
Lemma frag_read_total bs : proper (frag_read bs).
Proof. rewrite frag_read_eq_from_slice. apply proper_eof, frag_from_slice_total. Qed.

(* ---- Ipv6Header ---- *)
Lemma ip6_from_slice_total bs : proper (ip6_from_slice bs).
Proof.
  unfold ip6_from_slice, ip6_slice_from_slice, slice_from.
  destruct (len bs <? 40) eqn:E; [exact I|]. apply N.ltb_ge in E.
  replace (40 <=? len bs) with true by (symmetry; apply N.leb_le; lia).
  split_pre bs 40%nat E.
  change (rd _ 0) with (Some n). cbv iota beta zeta.
  destruct (negb (shr n 4 =? 6)); exact I.
Qed.
Lemma ip6_read_total bs : proper (ip6_read bs).
Proof.
  unfold ip6_read. unfold read_exact at 1.
  destruct (len bs <? 1) eqn:E; [exact I|]. ltb_all.
  split_pre bs 1%nat E. change (take 1 ([n] ++ t)) with [n]. change (drop 1 ([n] ++ t)) with t. cbv iota beta zeta.
  destruct (negb (shr n 4 =? 6)); [exact I|].
  unfold ip6_read_without_version, read_exact.
  destruct (len t <? 39) eqn:E2; [exact I|]. ltb_all.
  split_pre t 39%nat E2. exact I.
Qed.

(* ---- TcpHeader ---- *)
Lemma tcp_to_header_ok s b12 : 20 <= len s -> rd s 12 = Some b12 ->
  20 <= shr (band b12 240) 4 * 4 -> shr (band b12 240) 4 * 4 <= len s -> shr (band b12 240) 4 * 4 <= 60 ->
  exists h, Tcp.to_header s = Ok h.
Proof.
  intros L R H1 H2 H3. explode s 20. injection R as ->.
  unfold Tcp.to_header.
  destruct (slice_range_some _ 20 _ H1 H2) as (o & -> & Lo).
  replace (40 <? len o) with false by (symmetry; apply N.ltb_ge; lia).
  eexists. reflexivity.
Qed.

Lemma tcp_from_slice_total bs : bytes_ok bs -> proper (Tcp.from_slice bs).
Proof.
  intros Hb. unfold Tcp.from_slice, Tcp.slice_from_slice.
  destruct (len bs <? 20) eqn:E; [exact I|]. ltb_all.
  destruct (rd_lt_Some bs 12 ltac:(lia)) as [b12 R]. rewrite R.
  pose proof (rd_ok _ _ _ Hb R) as Hb12.
  destruct (tcp_b12_facts b12 Hb12) as (F1 & F2 & F3). cbv zeta.
  destruct (shr (band b12 240) 2 <? 20) eqn:E2; [exact I|].
  destruct (len bs <? shr (band b12 240) 2) eqn:E3; [exact I|].
  symmetry in F1. ltb_all. destruct (F3 F1) as (G1 & G2 & G3 & G4).
  assert (LH : len (take (shr (band b12 240) 2) bs) = shr (band b12 240) 2) by (rewrite len_take; lia).
  destruct (tcp_to_header_ok (take (shr (band b12 240) 2) bs) b12) as [h ->]; try lia.
  { rewrite rd_take_lt by lia. exact R. }
  rewrite LH, slice_from_some by lia. exact I.
Qed.

Lemma tcp_read_total bs : bytes_ok bs -> proper (Tcp.read bs).
Proof. intros Hb. rewrite (tcp_read_eq_from_slice bs Hb). apply proper_eof, tcp_from_slice_total, Hb. Qed.

(* ---- Ipv4Header ---- *)
Lemma ip4_to_header_ok s : 20 <= len s -> len s <= 60 -> exists h, ip4_to_header s = Ok h /\ ip4_header_len h = len s.
Proof.
  intros L H. explode s 20. unfold ip4_to_header.
  assert (LS : len s <= 40) by (unfold len in *; cbn [length] in *; lia).
  replace (40 <? len s) with false by (symmetry; apply N.ltb_ge; lia).
  eexists. split; [reflexivity|]. unfold ip4_header_len. cbn [i4_options i4o_len]. unfold as_u8.
  rewrite N.mod_small by lia. unfold len in *; cbn [length] in *; lia.
Qed.

Lemma ip4_from_slice_total bs : bytes_ok bs -> proper (ip4_from_slice bs).
Proof.
  intros Hb. unfold ip4_from_slice, ip4_slice_from_slice.
  destruct (len bs <? 20) eqn:E; [exact I|]. ltb_all.
  destruct (rd_lt_Some bs 0 ltac:(lia)) as [b0 R]. rewrite R.
  pose proof (rd_ok _ _ _ Hb R) as Hb0. cbv zeta.
  destruct (negb (shr b0 4 =? 4)); [exact I|].
  destruct (band b0 15 <? 5) eqn:E2; [exact I|].
  destruct (len bs <? band b0 15 * 4) eqn:E3; [exact I|]. ltb_all.
  pose proof (band15_lt b0) as B.
  destruct (ip4_to_header_ok (take (band b0 15 * 4) bs)) as (h & -> & LH); try (rewrite len_take; lia).
  rewrite LH, len_take, slice_from_some by lia. exact I.
Qed.

Lemma ip4_read_short bs : len bs < 20 -> proper (ip4_read bs).
Proof.
  intros L. unfold ip4_read. unfold read_exact at 1.
  destruct (len bs <? 1) eqn:E; [exact I|]. ltb_all.
  split_pre bs 1%nat E. change (take 1 ([n] ++ t)) with [n]. change (drop 1 ([n] ++ t)) with t. cbv iota beta zeta.
  destruct (negb (shr n 4 =? 4)); [exact I|].
  unfold read_exact. rewrite len_app in L. change (len [n]) with 1 in L.
  replace (len t <? 19) with true by (symmetry; apply N.ltb_lt; lia). exact I.
Qed.
Lemma ip4_read_total bs : bytes_ok bs -> proper (ip4_read bs).
Proof.
  intros Hb. destruct (N.lt_ge_cases (len bs) 20) as [L|L]; [apply ip4_read_short, L|].
  rewrite (ip4_read_eq_from_slice bs Hb L). apply proper_eof, ip4_from_slice_total, Hb.
Qed.

(* ---- IpAuthHeader ---- *)
Lemma ah_to_header_ok s : 12 <= len s -> len s <= 1028 -> (len s - 12) mod 4 = 0 -> exists h, ah_to_header s = Ok h.
Proof.
  intros L H M. explode s 12. unfold ah_to_header.
  rewrite slice_from_some by lia.
  match goal with |- context [drop 12 ?l] => change (drop 12 l) with s end.
  assert (LS : len s = len (n :: n0 :: n1 :: n2 :: n3 :: n4 :: n5 :: n6 :: n7 :: n8 :: n9 :: n10 :: s) - 12)
    by (unfold len; cbn [length]; lia).
  unfold ah_new, AH_MAX_ICV_LEN.
  replace (1016 <? len s) with false by (symmetry; apply N.ltb_ge; lia).
  rewrite LS, M. cbn [N.eqb negb]. change (0 =? 0) with true. cbn [negb]. eexists. reflexivity.
Qed.

Lemma ah_from_slice_total bs : bytes_ok bs -> proper (ah_from_slice bs).
Proof.
  intros Hb. unfold ah_from_slice, ah_slice_from_slice.
  destruct (len bs <? 12) eqn:E; [exact I|]. ltb_all.
  destruct (rd_lt_Some bs 1 ltac:(lia)) as [pl R]. rewrite R.
  pose proof (rd_ok _ _ _ Hb R) as Hpl. cbv zeta.
  destruct (pl <? 1) eqn:E1; [exact I|].
  destruct (len bs <? (pl + 2) * 4) eqn:E2; [exact I|]. ltb_all.
  assert (LH : len (take ((pl + 2) * 4) bs) = (pl + 2) * 4) by (rewrite len_take; lia).
  rewrite LH, slice_from_some by lia.
  assert (M : (len (take ((pl + 2) * 4) bs) - 12) mod 4 = 0).
  { rewrite LH. replace ((pl + 2) * 4 - 12) with ((pl - 1) * 4) by lia. apply N.mod_mul. discriminate. }
  destruct (ah_to_header_ok (take ((pl + 2) * 4) bs) ltac:(lia) ltac:(lia) M) as [h ->].
  exact I.
Qed.

Lemma ah_read_total bs : bytes_ok bs -> proper (ah_read bs).
Proof. intros Hb. rewrite (ah_read_eq_from_slice bs Hb). apply proper_eof, ah_from_slice_total, Hb. Qed.

(* ---- Ipv4Extensions ---- *)
Lemma x4_from_slice_total start bs : bytes_ok bs -> proper (x4_from_slice start bs).
Proof.
  intros Hb. pose proof (ah_from_slice_total bs Hb) as P.
  unfold x4_from_slice, x4_slice_from_slice. unfold ah_from_slice in P.
  destruct (X4_AUTH =? start); [|exact I].
  destruct (ah_slice_from_slice bs) as [hs|e] eqn:S; [|destruct e; try exact I; contradiction].
  destruct (slice_from bs (len hs)) as [rest|]; [|contradiction].
  destruct (ah_to_header hs) as [h|e] eqn:H.
  - rewrite (ah_to_header_nh _ _ H). cbv iota beta. rewrite H. exact I.
  - destruct (rd hs 0) eqn:R0.
    + cbv iota beta. rewrite H. exact P.
    + rewrite (ah_to_header_nil_rd _ R0) in H. injection H as <-. contradiction.
Qed.

Lemma x4_read_total start bs : bytes_ok bs -> proper (x4_read bs start).
Proof. intros Hb. rewrite (x4_read_eq_from_slice start bs Hb). apply proper_eof, x4_from_slice_total, Hb. Qed.

(* ---- Ipv6RawExtHeader ---- *)
Lemma rx_to_header_ok s : 8 <= len s -> len s <= 2048 -> len s mod 8 = 0 -> exists h, rx_to_header s = Ok h.
Proof.
  intros L H M. unfold rx_to_header.
  destruct (rd_lt_Some s 0 ltac:(lia)) as [b0 ->].
  replace (len s <? 2) with false by (symmetry; apply N.ltb_ge; lia).
  unfold rx_new_raw, RX_MAX_PAYLOAD_LEN. rewrite len_drop.
  replace (len s - 2 <? 6) with false by (symmetry; apply N.ltb_ge; lia).
  replace (2046 <? len s - 2) with false by (symmetry; apply N.ltb_ge; lia).
  replace (len s - 2 + 2) with (len s) by lia. rewrite M. change (0 =? 0) with true. cbn [negb].
  eexists. reflexivity.
Qed.

Lemma rx_from_slice_total bs : bytes_ok bs -> proper (rx_from_slice bs).
Proof.
  intros Hb. unfold rx_from_slice, rx_slice_from_slice.
  destruct (len bs <? 8) eqn:E; [exact I|]. ltb_all.
  destruct (rd_lt_Some bs 1 ltac:(lia)) as [b1 R]. rewrite R.
  pose proof (rd_ok _ _ _ Hb R) as Hb1. cbv zeta.
  destruct (len bs <? (b1 + 1) * 8) eqn:E2; [exact I|]. ltb_all.
  assert (LH : len (take ((b1 + 1) * 8) bs) = (b1 + 1) * 8) by (rewrite len_take; lia).
  rewrite LH, slice_from_some by lia.
  assert (M : len (take ((b1 + 1) * 8) bs) mod 8 = 0).
  { rewrite LH. apply N.mod_mul. discriminate. }
  destruct (rx_to_header_ok (take ((b1 + 1) * 8) bs) ltac:(lia) ltac:(lia) M) as [h ->].
  exact I.
Qed.

Lemma rx_read_total bs : bytes_ok bs -> proper (rx_read bs).
Proof. intros Hb. rewrite (rx_read_eq_from_slice bs Hb). apply proper_eof, rx_from_slice_total, Hb. Qed.

(* ---- MacsecHeader ---- *)
Lemma mac_to_header_ok s tci : rd s 0 = Some tci -> mac_required_len tci <= len s -> exists h, mac_to_header s = Ok h.
Proof.
  intros R L. unfold mac_required_len in L. rewrite mac_unmod_bits in L.
  unfold mac_to_header, mac_sl_ptype, mac_sl_sci, mac_rd16. rewrite R.
  destruct (nz (band tci 8)), (nz (band tci 4)), (nz (band tci 32)); cbn [negb andb] in L; cbv iota beta;
    rd_all s; eexists; reflexivity.
Qed.

Lemma mac_from_slice_total bs : proper (mac_from_slice bs).
Proof.
  unfold mac_from_slice, mac_slice_from_slice.
  destruct (len bs <? 6) eqn:E; [exact I|]. ltb_all.
  destruct (rd_lt_Some bs 0 ltac:(lia)) as [tci R0]. destruct (rd_lt_Some bs 1 ltac:(lia)) as [b1 R1].
  rewrite R0, R1.
  destruct (nz (band tci 128)); [exact I|]. cbv zeta.
  pose proof (mac_required_len_bounds tci) as RB.
  destruct (band tci 12 =? 0) eqn:U; [destruct (band b1 63 =? 1); [exact I|]|];
  (destruct (len bs <? mac_required_len tci) eqn:E2; [exact I|]; ltb_all;
   destruct (mac_to_header_ok (take (mac_required_len tci) bs) tci) as [h ->];
     [rewrite rd_take_lt by lia; exact R0 | rewrite len_take; lia | exact I]).
Qed.

Lemma mac_read_total bs : proper (mac_read bs).
Proof.
  rewrite mac_read_eq_from_slice. apply proper_eof.
  pose proof (mac_from_slice_total bs) as P. destruct (mac_from_slice bs) as [h|e]; [exact I|exact P].
Qed.

(* ---- ArpPacket ---- *)
Lemma arp_to_packet_ok s hs ps : rd s 4 = Some hs -> rd s 5 = Some ps -> hs < 256 -> ps < 256 ->
  len s = 8 + hs * 2 + ps * 2 -> exists p, arp_to_packet s = Ok p.
Proof.
  intros R4 R5 H1 H2 L. explode s 8. injection R4 as ->. injection R5 as ->.
  unfold arp_to_packet.
  destruct (slice_range_some (n :: n0 :: n1 :: n2 :: hs :: ps :: n5 :: n6 :: s) 8 (8 + hs) ltac:(lia) ltac:(lia))
    as (a & -> & La).
  destruct (slice_range_some (n :: n0 :: n1 :: n2 :: hs :: ps :: n5 :: n6 :: s) (8 + hs) (8 + hs + ps) ltac:(lia) ltac:(lia))
    as (b & -> & Lb).
  destruct (slice_range_some (n :: n0 :: n1 :: n2 :: hs :: ps :: n5 :: n6 :: s) (8 + hs + ps) (8 + hs + ps + hs) ltac:(lia) ltac:(lia))
    as (c & -> & Lc).
  destruct (slice_range_some (n :: n0 :: n1 :: n2 :: hs :: ps :: n5 :: n6 :: s) (8 + hs * 2 + ps) (8 + hs * 2 + ps + ps) ltac:(lia) ltac:(lia))
    as (d & -> & Ld).
  unfold arp_new_unchecked.
  replace ((255 <? len a) || (255 <? len b) || (255 <? len c) || (255 <? len d)) with false.
  2:{ symmetry. repeat (apply orb_false_intro); apply N.ltb_ge; lia. }
  eexists. reflexivity.
Qed.

Lemma arp_from_slice_total bs : bytes_ok bs -> proper (arp_from_slice bs).
Proof.
  intros Hb. unfold arp_from_slice, arp_slice_from_slice.
  destruct (len bs <? 8) eqn:E; [exact I|]. ltb_all.
  destruct (rd_lt_Some bs 4 ltac:(lia)) as [hs R4]. destruct (rd_lt_Some bs 5 ltac:(lia)) as [ps R5].
  rewrite R4, R5. cbv zeta.
  pose proof (rd_ok _ _ _ Hb R4) as H4. pose proof (rd_ok _ _ _ Hb R5) as H5.
  destruct (len bs <? 8 + hs * 2 + ps * 2) eqn:E2; [exact I|]. ltb_all.
  destruct (arp_to_packet_ok (take (8 + hs * 2 + ps * 2) bs) hs ps) as [p ->]; try assumption.
  - rewrite rd_take_lt by lia. exact R4.
  - rewrite rd_take_lt by lia. exact R5.
  - rewrite len_take. lia.
  - exact I.
Qed.

Lemma arp_read_total bs : bytes_ok bs -> proper (arp_read bs).
Proof.
  intros Hb. rewrite (arp_read_eq_from_slice bs Hb). apply proper_eof.
  pose proof (arp_from_slice_total bs Hb) as P. destruct (arp_from_slice bs) as [h|e]; [exact I|exact P].
Qed.

(* try_eth_ipv4 on a well-formed packet, hence on whatever from_slice returned *)
Lemma arp_try_eth_ipv4_wf p : wf_arp p = true -> proper (arp_try_eth_ipv4 p).
Proof.
  intros W. destruct (ArpProofs.arp_wf_facts p W) as (_ & _ & _ & _ & _ & B1 & B2 & B3 & B4).
  apply ArpProofs.arp_wf_buf_facts in B1, B2, B3, B4.
  unfold arp_try_eth_ipv4, arp_assume_init.
  destruct (negb (arp_hw_addr_type p =? 1)); [exact I|].
  destruct (negb (arp_proto_addr_type p =? 2048)); [exact I|].
  destruct (arp_hw_addr_size p =? 6) eqn:E6; [|exact I].
  destruct (arp_proto_addr_size p =? 4) eqn:E4; [|exact I]. ltb_all. cbn [negb].
  rewrite (leb_true 6 (len (arp_sender_hw_addr_buf p))) by lia.
  rewrite (leb_true 4 (len (arp_sender_protocol_addr_buf p))) by lia.
  rewrite (leb_true 6 (len (arp_target_hw_addr_buf p))) by lia.
  rewrite (leb_true 4 (len (arp_target_protocol_addr_buf p))) by lia. exact I.
Qed.
Lemma arp_try_eth_ipv4_total bs p : bytes_ok bs -> arp_from_slice bs = Ok p -> proper (arp_try_eth_ipv4 p).
Proof.
  intros Hb H. destruct (ArpProofs.arp_enc_dec bs p Hb H) as (W & _). apply arp_try_eth_ipv4_wf, W.
Qed.

(* ---- Icmpv4Header ---- *)
Lemma icmp4_from_slice_total bs : proper (icmp4_from_slice bs).
Proof.
  destruct (len bs <? 8) eqn:E8.
  { unfold icmp4_from_slice, Icmpv4Slice.from_slice, Icmpv4Slice.MIN_LEN. rewrite E8. exact I. }
  destruct (len_ge_cons8 bs E8) as (t & c & k0 & k1 & b4 & b5 & b6 & b7 & rest & ->).
  destruct (lookup t c icmp4_fixed_table) as [[[n lay] mk]|] eqn:LF.
  - destruct (fixed_table_cases _ _ _ LF) as [T ->].
    pose proof (icmp4_cases t 0 k0 k1 b4 b5 b6 b7 rest) as C. cbv zeta in C. rewrite LF in C.
    destruct C as (_ & _ & Hf & _).
    destruct (len rest =? 12) eqn:E12; ltb_all.
    + destruct (len_ge_cons12 rest E12) as (o0 & o1 & o2 & o3 & r0 & r1 & r2 & r3 & t0 & t1 & t2 & t3 & ->).
      rewrite (icmp4_from_slice_20 t k0 k1 b4 b5 b6 b7 o0 o1 o2 o3 r0 r1 r2 r3 t0 t1 t2 t3 T). exact I.
    + unfold icmp4_from_slice. rewrite Hf, Icmp4Proofs.len8.
      replace (8 + len rest <? 8) with false by (symmetry; apply N.ltb_ge; lia).
      replace (8 + len rest =? 20) with false by (symmetry; apply N.eqb_neq; lia). exact I.
  - rewrite (icmp4_from_slice_8 _ _ _ _ _ _ _ _ _ LF). exact I.
Qed.

Lemma icmp4_read_total bs : proper (icmp4_read bs).
Proof.
  destruct (icmp4_ts_trailing bs) eqn:T.
  - unfold icmp4_ts_trailing in T. apply andb_true_iff in T. destruct T as [T L]. ltb_all.
    rewrite (icmp4_read_eq_from_slice_ts bs T) by lia.
    pose proof (icmp4_from_slice_total (take 20 bs)) as P.
    destruct (icmp4_from_slice (take 20 bs)) as [[h r]|e]; [exact I|exact P].
  - rewrite (icmp4_read_eq_from_slice bs T). apply proper_eof, icmp4_from_slice_total.
Qed.

(* ---- Icmpv6Header ---- *)
Lemma icmp6_from_slice_total bs : proper (icmp6_from_slice bs).
Proof.
  destruct (len bs <? 8) eqn:E8.
  { unfold icmp6_from_slice, Icmpv6Slice.from_slice, Icmpv6Slice.MIN_LEN. rewrite E8. exact I. }
  destruct (4294967295 <? len bs) eqn:EM; ltb_all.
  { rewrite (icmp6_from_slice_too_long bs EM). exact I. }
  assert (E8' : (len bs <? 8) = false) by (apply N.ltb_ge; lia).
  destruct (len_ge_cons8 bs E8') as (t & c & k0 & k1 & b4 & b5 & b6 & b7 & rest & ->).
  rewrite Icmp6Proofs.len8 in EM. rewrite (icmp6_from_slice_8 _ _ _ _ _ _ _ _ _ EM). exact I.
Qed.

Lemma icmp6_read_total bs : proper (icmp6_read bs).
Proof.
  rewrite icmp6_read_eq_from_slice_prefix. apply proper_eof.
  pose proof (icmp6_from_slice_total (take 8 bs)) as P.
  destruct (icmp6_from_slice (take 8 bs)) as [[h r]|e]; [exact I|exact P].
Qed.

(* ---- IgmpHeader, ReportGroupRecordV3Header: the C17 theorems say model = RFC table, which has no UB *)
Lemma igmp_from_slice_total bs : proper (igmp_from_slice bs).
Proof.
  unfold igmp_from_slice. pose proof (igmp_eq bs) as E. unfold Igmp.view in E.
  destruct (Igmp.from_slice bs) as [[[ty ck] r]|e|n]; try exact I.
  exfalso. unfold igmp in E. cbv zeta in E.
  destruct (len bs <? 8); [discriminate|].
  destruct (byte_at bs 0 =? 17).
  - destruct (len bs =? 8); [discriminate|]. destruct (12 <=? len bs); discriminate.
  - destruct (lookup1 (byte_at bs 0) igmp_table); discriminate.
Qed.

Lemma grec_from_slice_total bs : proper (grec_from_slice bs).
Proof.
  unfold grec_from_slice. rewrite group_record_eq. unfold group_record.
  destruct (len bs <? 8); exact I.
Qed.

(* ---- NDP PrefixInformation ---- *)
Lemma pi_split_some (s : bytes) n : n <= len s -> pi_split s n = Some (take n s, drop n s).
Proof. intros H. unfold pi_split. rewrite (leb_true _ _ H). reflexivity. Qed.

Lemma len2_explicit {A} (l : list A) : len l = 2 -> exists a b, l = [a; b].
Proof.
  intros H. destruct l as [|a [|b [|c l]]]; try (exfalso; unfold len in H; cbn [length] in H; lia).
  eauto.
Qed.

Lemma pi_from_bytes_total b : len b = 32 -> proper (pi_from_bytes b).
Proof.
  intros L. unfold pi_from_bytes.
  rewrite (pi_split_some b 2) by lia.
  destruct (negb (bytes_eqb (take 2 b) [3; 4])); [exact I|].
  rewrite (pi_split_some (drop 2 b) 2) by (rewrite !len_drop; lia).
  rewrite (pi_split_some (drop 2 (drop 2 b)) 4) by (rewrite !len_drop; lia).
  rewrite (pi_split_some (drop 4 (drop 2 (drop 2 b))) 4) by (rewrite !len_drop; lia).
  rewrite (pi_split_some (drop 4 (drop 4 (drop 2 (drop 2 b)))) 4) by (rewrite !len_drop; lia).
  rewrite (pi_split_some (drop 4 (drop 4 (drop 4 (drop 2 (drop 2 b))))) 16) by (rewrite !len_drop; lia).
  destruct (len2_explicit (take 2 (drop 2 b))) as (pl & fl & ->); [rewrite len_take, !len_drop; lia|].
  destruct (len4_explicit (take 4 (drop 2 (drop 2 b)))) as (v0 & v1 & v2 & v3 & ->); [rewrite len_take, !len_drop; lia|].
  destruct (len4_explicit (take 4 (drop 4 (drop 2 (drop 2 b))))) as (p0 & p1 & p2 & p3 & ->); [rewrite len_take, !len_drop; lia|].
  exact I.
Qed.

Lemma pi_from_slice_total s : proper (pi_from_slice s).
Proof.
  unfold pi_from_slice. destruct (len s =? 32) eqn:E; [|exact I]. ltb_all. apply pi_from_bytes_total, E.
Qed.

(* ---- IpHeaders: the three slice decoders ---- *)
Lemma v4_tail_total header rest : bytes_ok rest -> proper (v4_tail header rest).
Proof.
  intros Hb. unfold v4_tail. pose proof (x4_from_slice_total (i4_protocol header) rest Hb) as P.
  destruct (x4_from_slice (i4_protocol header) rest) as [[[e n] r]|e]; [exact I|exact P].
Qed.

Lemma v6_tail_total header hp ls : bytes_ok hp -> proper (v6_tail header hp ls).
Proof.
  intros Hb. unfold v6_tail. pose proof (ExtChain.DecodeTotal.from_slice_never_panics (i6_next_header header) hp Hb) as P.
  destruct (XM.from_slice (i6_next_header header) hp) as [[[e n] r]|x| |]; try contradiction; cbn [of_x6].
  - exact I.
  - destruct x; exact I.
Qed.

Lemma iph_from_ipv4_slice_total bs : bytes_ok bs -> proper (iph_from_ipv4_slice bs).
Proof.
  intros Hb. unfold iph_from_ipv4_slice. pose proof (ip4_from_slice_total bs Hb) as P.
  destruct (ip4_from_slice bs) as [[header hr]|e] eqn:F; [|exact P].
  destruct (ip4_from_slice_inv _ _ _ F) as (b0 & _ & _ & _ & _ & _ & _ & _ & ->).
  destruct (ip4_header_len header <=? i4_total_len header) eqn:E1; [|exact I].
  destruct (len (drop (band b0 15 * 4) bs) <? i4_total_len header - ip4_header_len header) eqn:E2; [exact I|]. ltb_all.
  destruct (slice_range_some (drop (band b0 15 * 4) bs) 0 (i4_total_len header - ip4_header_len header) ltac:(lia) E2)
    as (o & SR & _). rewrite SR.
  apply v4_tail_total. eapply slice_range_ok; [|exact SR]. apply bytes_ok_drop, Hb.
Qed.

Lemma ip6_from_slice_rest s h rest : ip6_from_slice s = Ok (h, rest) -> rest = drop 40 s /\ 40 <= len s.
Proof.
  unfold ip6_from_slice, ip6_slice_from_slice.
  destruct (len s <? 40) eqn:L; [discriminate|]. ltb_all.
  destruct (rd s 0); [|discriminate]. destruct (negb _); [discriminate|].
  destruct (ip6_to_header (take 40 s)); [|discriminate].
  unfold slice_from. rewrite (leb_true _ _ L). intros H. apply Ok_inj in H. injection H as _ <-. auto.
Qed.

Lemma iph_from_ipv6_slice_total bs : bytes_ok bs -> proper (iph_from_ipv6_slice bs).
Proof.
  intros Hb. unfold iph_from_ipv6_slice. pose proof (ip6_from_slice_total bs) as P.
  destruct (ip6_from_slice bs) as [[header hr]|e] eqn:F; [|exact P].
  destruct (ip6_from_slice_rest _ _ _ F) as [-> L].
  destruct ((0 =? i6_payload_length header) && (40 <? len bs)).
  - apply v6_tail_total, bytes_ok_drop, Hb.
  - destruct (len (drop 40 bs) <? i6_payload_length header) eqn:E2; [exact I|]. ltb_all.
    destruct (slice_range_some (drop 40 bs) 0 (i6_payload_length header) ltac:(lia) E2) as (o & SR & _). rewrite SR.
    apply v6_tail_total. eapply slice_range_ok; [|exact SR]. apply bytes_ok_drop, Hb.
Qed.

Lemma iph_from_slice_total bs : bytes_ok bs -> proper (iph_from_slice bs).
Proof.
  intros Hb. destruct (len bs =? 0) eqn:E0.
  { unfold iph_from_slice. rewrite E0. exact I. }
  ltb_all. destruct (rd_lt_Some bs 0 ltac:(lia)) as [b0 R].
  destruct (N.eq_dec (shr b0 4) 4) as [V4|V4].
  { rewrite (iph_dispatch_v4 bs b0 R V4). apply iph_from_ipv4_slice_total, Hb. }
  destruct (N.eq_dec (shr b0 4) 6) as [V6|V6].
  { rewrite (iph_dispatch_v6 bs b0 R V6). apply iph_from_ipv6_slice_total, Hb. }
  rewrite (iph_dispatch_other bs b0 R V4 V6). exact I.
Qed.

(* ---- readers behind a LimitedReader: what a reader result may be ---- *)
(* answers IpHeaders::read maps to a proper error (of_q): no impossible index, no usize underflow, no
   fuel exhaustion, and of the content errors only the two the extension readers can raise *)
Definition qreg {A} (q : IOM.qres A) : Prop :=
  match q with
  | IOM.QOk _ | IOM.QIo _ | IOM.QLen _ | IOM.QContent IOM.CHopNotAtStart | IOM.QContent IOM.CAuthZeroLen => True
  | _ => False
  end.

Lemma of_q_proper {A} (r : IOM.qres A * IOM.rstate) : qreg (fst r) -> proper (of_q r).
Proof. destruct r as [[a|k|e|c| | |] st]; cbn [fst of_q qreg]; try tauto. destruct c; tauto. Qed.

(* reader state invariant: chunk >= 1, a LimitedReader has not read beyond its budget, data are bytes *)
Definition st_ok (st : IOM.rstate) : Prop :=
  1 <= IOS.src_chunk (IOM.rs_src st) /\
  match IOM.rs_lim st with Some r => IOM.lr_read r <= IOM.lr_max r | None => True end /\
  bytes_ok (IOS.src_data (IOM.rs_src st)).

Lemma rd_exact_cases st n : st_ok st ->
  match XR.rd_exact st n with
  | (IOM.QOk bs, st') => len bs = n /\ bytes_ok bs /\ st_ok st' /\ (IOM.rs_lim st <> None -> IOM.rs_lim st' <> None)
  | (IOM.QIo _, _) | (IOM.QLen _, _) => True
  | _ => False
  end.
Proof.
  destruct st as [s [r|]]; intros (Hc & Hr & Hb); cbn [IOM.rs_src IOM.rs_lim] in *; unfold XR.rd_exact; cbn [IOM.rs_src IOM.rs_lim].
  - destruct (N.lt_ge_cases (IOM.lr_max r - IOM.lr_read r) n) as [L|L].
    + rewrite IOP.lr_read_exact_len by assumption. exact I.
    + rewrite IOP.lr_read_exact_within by assumption.
      destruct (n <=? len (IOS.src_data s)) eqn:E; [|exact I]. ltb_all.
      split; [rewrite len_take; lia|]. split; [apply bytes_ok_take, Hb|].
      split; [|cbn; discriminate]. split; cbn; [exact Hc|]. split; [lia|apply bytes_ok_drop, Hb].
  - destruct (N.le_gt_cases n (len (IOS.src_data s))) as [L|L].
    + rewrite IOP.io_read_exact_ok by assumption. split; [rewrite len_take; lia|]. split; [apply bytes_ok_take, Hb|].
      split; [|auto]. split; cbn; [exact Hc|]. split; [exact I|apply bytes_ok_drop, Hb].
    + rewrite IOP.io_read_exact_fail by assumption. exact I.
Qed.

Lemma start_layer_cases lim layer st : st_ok st -> (lim = true -> IOM.rs_lim st <> None) ->
  exists st', XR.start_layer lim layer st = (IOM.QOk tt, st') /\ st_ok st' /\
              (IOM.rs_lim st <> None -> IOM.rs_lim st' <> None).
Proof.
  intros (Hc & Hr & Hb) HL. unfold XR.start_layer. destruct lim.
  - destruct (IOM.rs_lim st) as [r|] eqn:E; [|exfalso; apply (HL eq_refl); reflexivity].
    unfold IOM.lr_start_layer, IOM.checked_sub. rewrite (leb_true _ _ Hr).
    eexists. split; [reflexivity|]. split; [split; cbn; [exact Hc|split; [lia|exact Hb]]|]. cbn. discriminate.
  - exists st. split; [reflexivity|]. split; [repeat split; assumption|auto].
Qed.

(* IpAuthHeader::read_limited of Roundtrip/IpHeaders.v *)
Lemma ah_read_limited_reg st : st_ok st -> IOM.rs_lim st <> None -> qreg (fst (ah_read_limited st)).
Proof.
  intros Hs HL. unfold ah_read_limited.
  destruct (start_layer_cases true IOM.L_AUTH st Hs (fun _ => HL)) as (st1 & -> & Hs1 & _). cbn [XR.qbind].
  pose proof (rd_exact_cases st1 12 Hs1) as C.
  destruct (XR.rd_exact st1 12) as [[start|k|e|c| | |] st2]; try contradiction; try exact I. cbn [XR.qbind].
  destruct C as (L & Hb & Hs2 & _).
  destruct start as [|b0 [|b1 [|b2 [|b3 [|b4 [|b5 [|b6 [|b7 [|b8 [|b9 [|b10 [|b11 [|x t]]]]]]]]]]]]];
    try (exfalso; unfold len in L; cbn [length] in L; lia).
  destruct (b1 <? 1) eqn:Z; [exact I|]. ltb_all.
  assert (H1 : b1 < 256).
  { apply bytes_ok_cons in Hb. destruct Hb as [_ Hb]. apply bytes_ok_cons in Hb. destruct Hb as [Hb _]. exact Hb. }
  unfold AH_MAX_ICV_LEN. replace (1016 <? (b1 - 1) * 4) with false by (symmetry; apply N.ltb_ge; lia).
  pose proof (rd_exact_cases st2 ((b1 - 1) * 4) Hs2) as C2.
  destruct (XR.rd_exact st2 ((b1 - 1) * 4)) as [[icv|k|e|c| | |] st3]; try contradiction; exact I.
Qed.

Lemma x4_read_limited_reg st start : st_ok st -> IOM.rs_lim st <> None -> qreg (fst (x4_read_limited st start)).
Proof.
  intros Hs HL. unfold x4_read_limited. destruct (X4_AUTH =? start); [|exact I].
  pose proof (ah_read_limited_reg st Hs HL) as R.
  destruct (ah_read_limited st) as [[h|k|e|c| | |] st1]; cbn [XR.qbind fst] in *; try contradiction; try exact I.
  exact R.
Qed.

(* Ipv6Extensions::read / read_limited (C12's model): content errors are the two of the property ... *)
Lemma qbind_content {A B} (r : IOM.qres A * IOM.rstate) (k : A -> IOM.rstate -> IOM.qres B * IOM.rstate) c :
  fst (XR.qbind r k) = IOM.QContent c ->
  fst r = IOM.QContent c \/ exists a st, r = (IOM.QOk a, st) /\ fst (k a st) = IOM.QContent c.
Proof.
  destruct r as [[a|x|e|c'| | |] st]; cbn [XR.qbind fst]; intros H; try discriminate.
  - right. exists a, st. split; [reflexivity|exact H].
  - left. injection H as <-. reflexivity.
Qed.

Lemma rd_exact_no_content st n c : fst (XR.rd_exact st n) <> IOM.QContent c.
Proof.
  unfold XR.rd_exact. destruct (IOM.rs_lim st) as [r|].
  - unfold IOM.lr_read_exact. destruct (IOM.checked_sub _ _); [|discriminate].
    destruct (_ <? n); [discriminate|].
    destruct (IOM.io_read_exact (IOM.rs_src st) n) as [[bs|k| |] s']; discriminate.
  - destruct (IOM.io_read_exact (IOM.rs_src st) n) as [[bs|k| |] s']; discriminate.
Qed.

Lemma start_layer_no_content lim layer st c : fst (XR.start_layer lim layer st) <> IOM.QContent c.
Proof.
  unfold XR.start_layer. destruct lim; [|discriminate].
  destruct (IOM.rs_lim st); [|discriminate]. destruct (IOM.lr_start_layer _ _); discriminate.
Qed.

Lemma raw_read_no_content lim st c : fst (XR.raw_read lim st) <> IOM.QContent c.
Proof.
  unfold XR.raw_read. intros H.
  apply qbind_content in H. destruct H as [H|(u & st1 & _ & H)]; [exact (start_layer_no_content _ _ _ _ H)|].
  apply qbind_content in H. destruct H as [H|(d & st2 & _ & H)]; [exact (rd_exact_no_content _ _ _ H)|].
  destruct (rd d 0); [|discriminate]. destruct (rd d 1); [|discriminate].
  apply qbind_content in H. destruct H as [H|(p & st3 & _ & H)]; [exact (rd_exact_no_content _ _ _ H)|discriminate].
Qed.

Lemma frag_read_no_content lim st c : fst (XR.frag_read lim st) <> IOM.QContent c.
Proof.
  unfold XR.frag_read. intros H.
  apply qbind_content in H. destruct H as [H|(u & st1 & _ & H)]; [exact (start_layer_no_content _ _ _ _ H)|].
  apply qbind_content in H. destruct H as [H|(d & st2 & _ & H)]; [exact (rd_exact_no_content _ _ _ H)|].
  destruct (XM.frag_slice_to_header d); discriminate.
Qed.

Lemma auth_read_content lim st c : fst (XR.auth_read lim st) = IOM.QContent c -> c = IOM.CAuthZeroLen.
Proof.
  unfold XR.auth_read. intros H.
  apply qbind_content in H. destruct H as [H|(u & st1 & _ & H)]; [destruct (start_layer_no_content _ _ _ _ H)|].
  apply qbind_content in H. destruct H as [H|(d & st2 & _ & H)]; [destruct (rd_exact_no_content _ _ _ H)|].
  destruct (rd d 0), (rd d 1), (rd d 4), (rd d 5), (rd d 6), (rd d 7), (rd d 8), (rd d 9), (rd d 10), (rd d 11);
    try discriminate.
  destruct (_ <? 1); [injection H as <-; reflexivity|].
  apply qbind_content in H. destruct H as [H|(p & st3 & _ & H)]; [destruct (rd_exact_no_content _ _ _ H)|discriminate].
Qed.

Lemma read6_loop_content fuel : forall lim result n st c,
  fst (XR.read6_loop fuel lim result n st) = IOM.QContent c -> c = IOM.CHopNotAtStart \/ c = IOM.CAuthZeroLen.
Proof.
  induction fuel as [|f IH]; intros lim result n st c H; [discriminate|].
  cbn [XR.read6_loop] in H.
  destruct (XM.arm_of n).
  - injection H as <-. auto.
  - destruct (XM.routing result) as [r|].
    + destruct (XM.is_some _); [discriminate|].
      apply qbind_content in H. destruct H as [H|(h & st1 & _ & H)]; [destruct (raw_read_no_content _ _ _ H)|eauto].
    + destruct (XM.is_some _); [discriminate|].
      apply qbind_content in H. destruct H as [H|(h & st1 & _ & H)]; [destruct (raw_read_no_content _ _ _ H)|eauto].
  - destruct (XM.is_some _); [discriminate|].
    apply qbind_content in H. destruct H as [H|(h & st1 & _ & H)]; [destruct (raw_read_no_content _ _ _ H)|eauto].
  - destruct (XM.is_some _); [discriminate|].
    apply qbind_content in H. destruct H as [H|(h & st1 & _ & H)]; [destruct (frag_read_no_content _ _ _ H)|eauto].
  - destruct (XM.is_some _); [discriminate|].
    apply qbind_content in H. destruct H as [H|(h & st1 & _ & H)]; [right; eapply auth_read_content; eauto|eauto].
  - discriminate.
Qed.

Lemma read6_content lim first st c :
  fst (XR.read6 lim first st) = IOM.QContent c -> c = IOM.CHopNotAtStart \/ c = IOM.CAuthZeroLen.
Proof.
  unfold XR.read6. destruct (_ =? first).
  - intros H. apply qbind_content in H. destruct H as [H|(h & st1 & _ & H)]; [destruct (raw_read_no_content _ _ _ H)|].
    eapply read6_loop_content; eauto.
  - apply read6_loop_content.
Qed.

(* ... and never an impossible index / underflow / fuel: C16's theorem for the read program x6_read,
   carried over by C12's erasure theorem *)
Lemma read6_reg lim first s r : 1 <= IOS.src_chunk s -> IOM.lr_read r <= IOM.lr_max r ->
  qreg (fst (XR.read6 lim first (IOM.mk_rstate s (if lim then Some r else None)))).
Proof.
  intros Hc Hr.
  pose proof (proj1 (IOP.ext_readers_good lim first s r Hc Hr)) as G. cbv zeta in G.
  rewrite XE.read6_erase in G by exact Hc. unfold XE.qmap_pair in G. cbn [fst] in G.
  pose proof (read6_content lim first (IOM.mk_rstate s (if lim then Some r else None))) as C.
  destruct (fst (XR.read6 lim first _)) as [a|k|e|c| | |]; cbn in G; try contradiction; try exact I.
  destruct (C c eq_refl) as [-> | ->]; exact I.
Qed.

Lemma ip6_read_without_version_total r v : proper (ip6_read_without_version r v).
Proof.
  unfold ip6_read_without_version, read_exact.
  destruct (len r <? 39) eqn:E2; [exact I|]. ltb_all.
  split_pre r 39%nat E2. exact I.
Qed.


Lemma iph_read_total bs : bytes_ok bs -> proper (iph_read bs).
Proof.
  intros Hb. unfold iph_read. unfold read_exact at 1.
  destruct (len bs <? 1) eqn:E; [exact I|]. ltb_all.
  split_pre bs 1%nat E. rename n into value.
  change (take 1 ([value] ++ t)) with [value]. change (drop 1 ([value] ++ t)) with t. cbv iota beta zeta.
  apply bytes_ok_app in Hb. destruct Hb as [Hv Ht].
  assert (Hv' : value < 256) by (apply bytes_ok_cons in Hv; apply Hv).
  destruct (shr value 4 =? 4).
  - destruct (band value 15 <? 5) eqn:E5; [exact I|]. ltb_all.
    pose proof (band15_lt value) as B.
    replace (60 <? band value 15 * 4) with false by (symmetry; apply N.ltb_ge; lia).
    unfold read_exact. destruct (len t <? band value 15 * 4 - 1) eqn:E2; [exact I|]. ltb_all.
    destruct (ip4_to_header_ok (value :: take (band value 15 * 4 - 1) t)) as (header & -> & _);
      try (rewrite len_cons, len_take; lia).
    destruct (i4_total_len header <? band value 15 * 4); [exact I|].
    match goal with |- proper (match of_q ?x with _ => _ end) => assert (P : proper (of_q x)) end.
    { apply of_q_proper, x4_read_limited_reg; [|cbn; discriminate].
      split; [cbn; lia|]. split; [cbn; lia|]. cbn. apply bytes_ok_drop, Ht. }
    destruct (of_q _) as [[[ext next] r3]|e]; [exact I|exact P].
  - destruct (shr value 4 =? 6); [|exact I].
    pose proof (ip6_read_without_version_total t (band value 15)) as P.
    destruct (ip6_read_without_version t (band value 15)) as [[header r2]|e] eqn:R; [|exact P].
    match goal with |- proper (match of_q ?x with _ => _ end) => assert (Q : proper (of_q x)) end.
    { apply of_q_proper. unfold limited.
      apply (read6_reg true (i6_next_header header) (XR.cursor r2)); cbn; lia. }
    destruct (of_q _) as [[[ext next] r3]|e]; [exact I|exact Q].
Qed.

(* ---- Ipv6Extensions (C12's model ExtChain/): collected from C12 / C16 ---- *)
Definition x6_proper {E A} (r : XM.res E A) : Prop :=
  match r with XM.Panic | XM.OutOfFuel => False | _ => True end.

Lemma exts6_from_slice_total first bs : bytes_ok bs -> x6_proper (XM.from_slice first bs).
Proof.
  intros Hb. pose proof (ExtChain.DecodeTotal.from_slice_never_panics first bs Hb) as P.
  destruct (XM.from_slice first bs) as [[[e n] r]|x| |]; try contradiction; exact I.
Qed.

(* read over a Cursor, and read_limited behind a LimitedReader of ANY budget *)
Lemma exts6_read_total first bs : qreg (fst (XR.read6 false first (IOM.mk_rstate (XR.cursor bs) None))).
Proof. apply (read6_reg false first (XR.cursor bs) (IOM.mk_limrd 0 0 0 0 0)); cbn; lia. Qed.

Lemma exts6_read_limited_total first bs mx ls off ly :
  qreg (fst (XR.read6 true first (limited bs mx ls off ly))).
Proof. unfold limited. apply (read6_reg true first (XR.cursor bs)); cbn; lia. Qed.

(* ================================================================ summary *)
(* decoders that need no hypothesis at all: any list of numbers *)
Theorem decoders_total_any : forall bs,
  proper (eth_from_slice bs) /\ proper (eth_read bs) /\
  proper (vl_from_slice bs) /\ proper (vl_read bs) /\
  proper (sll_from_slice bs) /\ proper (Sll.sll_read bs) /\
  proper (mac_from_slice bs) /\ proper (mac_read bs) /\
  proper (ip6_from_slice bs) /\ proper (ip6_read bs) /\
  proper (frag_from_slice bs) /\ proper (frag_read bs) /\
  proper (udp_from_slice bs) /\ proper (udp_read bs) /\
  proper (icmp4_from_slice bs) /\ proper (icmp4_read bs) /\
  proper (icmp6_from_slice bs) /\ proper (icmp6_read bs) /\
  proper (igmp_from_slice bs) /\ proper (grec_from_slice bs) /\ proper (pi_from_slice bs) /\
  (forall first, qreg (fst (XR.read6 false first (IOM.mk_rstate (XR.cursor bs) None)))) /\
  (forall first mx ls off ly, qreg (fst (XR.read6 true first (limited bs mx ls off ly)))).
Proof.
  intros bs.
  repeat match goal with |- _ /\ _ => split end.
  - apply eth_from_slice_total. - apply eth_read_total.
  - apply vl_from_slice_total. - apply vl_read_total.
  - apply sll_from_slice_total. - apply sll_read_total.
  - apply mac_from_slice_total. - apply mac_read_total.
  - apply ip6_from_slice_total. - apply ip6_read_total.
  - apply frag_from_slice_total. - apply frag_read_total.
  - apply udp_from_slice_total. - apply udp_read_total.
  - apply icmp4_from_slice_total. - apply icmp4_read_total.
  - apply icmp6_from_slice_total. - apply icmp6_read_total.
  - apply igmp_from_slice_total. - apply grec_from_slice_total. - apply pi_from_slice_total.
  - intros first. apply exts6_read_total.
  - intros first mx ls off ly. apply exts6_read_limited_total.
Qed.

(* decoders with a length octet: for bytes (a "byte" >= 256 would run the model into a buffer-index
   branch a real u8 cannot reach) *)
Theorem decoders_total_bytes : forall bs, bytes_ok bs ->
  proper (Tcp.from_slice bs) /\ proper (Tcp.read bs) /\
  proper (ip4_from_slice bs) /\ proper (ip4_read bs) /\
  proper (ah_from_slice bs) /\ proper (ah_read bs) /\
  proper (rx_from_slice bs) /\ proper (rx_read bs) /\
  proper (arp_from_slice bs) /\ proper (arp_read bs) /\
  (forall p, arp_from_slice bs = Ok p -> proper (arp_try_eth_ipv4 p)) /\
  (forall start, proper (x4_from_slice start bs) /\ proper (x4_read bs start)) /\
  (forall first, x6_proper (XM.from_slice first bs)) /\
  proper (iph_from_slice bs) /\ proper (iph_from_ipv4_slice bs) /\ proper (iph_from_ipv6_slice bs) /\
  proper (iph_read bs).
Proof.
  intros bs Hb.
  repeat match goal with |- _ /\ _ => split end.
  - apply tcp_from_slice_total, Hb. - apply tcp_read_total, Hb.
  - apply ip4_from_slice_total, Hb. - apply ip4_read_total, Hb.
  - apply ah_from_slice_total, Hb. - apply ah_read_total, Hb.
  - apply rx_from_slice_total, Hb. - apply rx_read_total, Hb.
  - apply arp_from_slice_total, Hb. - apply arp_read_total, Hb.
  - intros p H. exact (arp_try_eth_ipv4_total bs p Hb H).
  - intros start. split; [apply x4_from_slice_total, Hb|apply x4_read_total, Hb].
  - intros first. apply exts6_from_slice_total, Hb.
  - apply iph_from_slice_total, Hb. - apply iph_from_ipv4_slice_total, Hb.
  - apply iph_from_ipv6_slice_total, Hb. - apply iph_read_total, Hb.
Qed.

(* from_bytes([u8; N]): the argument type fixes the length *)
Theorem from_bytes_total : forall b,
  (len b = 14 -> proper (eth_from_bytes b)) /\ (len b = 4 -> proper (vl_from_bytes b)) /\
  (len b = 16 -> proper (sll_from_bytes b)) /\ (len b = 8 -> proper (udp_from_bytes b)) /\
  (len b = 32 -> proper (pi_from_bytes b)).
Proof.
  intros b. repeat split.
  - apply eth_from_bytes_total. - apply vl_from_bytes_total. - apply sll_from_bytes_total.
  - apply udp_from_bytes_total. - apply pi_from_bytes_total.
Qed.

(* the hypothesis is needed: a length "octet" of 300 sends the reader model into its buffer-index
   branch; both classes of results occur *)
Example decoders_total_ex :
  ah_read ([17; 300] ++ repeat 0 10) = Err EPanic /\
  ah_from_slice [17; 2; 0; 0; 0; 0; 0; 1; 0; 0; 0; 2; 1; 2; 3] = Err ELen /\
  ah_read [17; 2; 0; 0; 0; 0; 0; 1; 0; 0; 0; 2; 1; 2; 3] = Err EIo /\
  Tcp.from_slice (repeat 0 12 ++ [64] ++ repeat 0 7) = Err (EContent 4) /\
  iph_read [69] = Err EIo /\ iph_read [64] = Err (EContent 0) /\
  iph_from_slice [96; 0; 0; 0; 0; 8; 0; 64] = Err ELen /\
  (exists r, iph_read ([96; 0; 0; 0; 0; 200; 17; 64] ++ repeat 1 16 ++ repeat 2 16) = Ok r).
Proof. repeat split; try (vm_compute; reflexivity). eexists. vm_compute. reflexivity. Qed.
