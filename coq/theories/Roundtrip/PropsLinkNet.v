(* Roundtrip/PropsLinkNet.v -- property C08 for the link / network layer types
   (extend-c08a).  Only statements; every proof is `exact <lemma>`.  The
   theorems are re-stated (again by `exact`) at the end of Props/C08.v, which is
   the file the driver parses for `Print Assumptions`. *)
From EP Require Import Base.Bytes Roundtrip.Common Roundtrip.Spec Roundtrip.SpecLinkNet.
From EP Require Roundtrip.Macsec Roundtrip.MacsecProofs.
From EP Require Roundtrip.Auth Roundtrip.AuthProofs Roundtrip.RawExt Roundtrip.RawExtProofs.
From EP Require Roundtrip.Ipv6 Roundtrip.Ipv6Proofs.
From EP Require Roundtrip.Eth Roundtrip.EthProofs Roundtrip.Vlan Roundtrip.VlanProofs.
From EP Require Roundtrip.Sll Roundtrip.SllProofs Roundtrip.Arp Roundtrip.ArpProofs.
From EP Require Roundtrip.Exts4 Roundtrip.Exts4Proofs.
From EP Require ExtChain.Spec ExtChain.Model ExtChain.Proofs Roundtrip.Exts6Proofs.
Local Open Scope N_scope.

(* ------------------------------------------------------------------ MacsecHeader *)
Module MACSEC.
Import Roundtrip.Macsec Roundtrip.MacsecProofs.

(* to_bytes (ArrayVec + set_len never undefined) and write agree, header_len many
   bytes; for EVERY value, well-formed or not.  MacsecHeader has no write_to_slice. *)
Theorem C08_Macsec_ser_agree : forall h out,
  exists e, mac_to_bytes h = Some e /\ mac_write out h = Some (out ++ e) /\ len e = mac_header_len h.
Proof. exact mac_ser_agree. Qed.
Print Assumptions C08_Macsec_ser_agree.

(* every well-formed value (all four ptypes, with/without SCI, all an/short_len/
   packet_nr/sci/ether type values; wf_mac EXCLUDES ptype = Unmodified(_) with
   short_len = 1, see C08_Macsec_excluded_rejected) followed by any bytes `rest`:
   from_slice returns the value (it returns no remainder: the caller skips
   header_len bytes, which leaves exactly `rest`), read returns value and `rest` *)
Theorem C08_Macsec_dec_enc : forall h rest, wf_mac h = true ->
  exists e, mac_to_bytes h = Some e /\ len e = mac_header_len h
    /\ mac_from_slice (e ++ rest) = Ok h /\ drop (mac_header_len h) (e ++ rest) = rest
    /\ mac_read (e ++ rest) = Ok (h, rest).
Proof. exact mac_dec_enc. Qed.
Print Assumptions C08_Macsec_dec_enc.

(* the values excluded by wf_mac although every field is in the range of its Rust
   type (ptype Unmodified and short_len 1): to_bytes encodes them, both decoders
   answer InvalidUnmodifiedShortLen -- such a value does NOT survive the round trip *)
Theorem C08_Macsec_excluded_rejected : forall h rest, mac_in_range h = true -> wf_mac h = false ->
  exists e, mac_to_bytes h = Some e /\ mac_from_slice (e ++ rest) = Err (EContent 1)
            /\ mac_read (e ++ rest) = Err (EContent 1).
Proof. exact mac_excluded_rejected. Qed.
Print Assumptions C08_Macsec_excluded_rejected.

(* every accepted byte string: the value is well-formed, re-encoding reproduces the
   consumed bytes outside the two reserved top bits of the short-length octet,
   decoding the re-encoded bytes (followed by the unconsumed input) gives the value again *)
Theorem C08_Macsec_enc_dec : forall bs h, bytes_ok bs -> mac_from_slice bs = Ok h ->
  wf_mac h = true /\ mac_header_len h <= len bs
  /\ exists e, mac_to_bytes h = Some e
       /\ agree (mac_keep_mask (mac_header_len h)) e (take (mac_header_len h) bs)
       /\ mac_from_slice (e ++ drop (mac_header_len h) bs) = Ok h.
Proof. exact mac_enc_dec. Qed.
Print Assumptions C08_Macsec_enc_dec.

(* IEEE 802.1AE SecTAG layout (+ ether type of the user data iff E = C = 0) *)
Theorem C08_Macsec_spec : forall h, wf_mac h = true ->
  mac_to_bytes h = Some (macsec_layout (mac_endstation_id h) (mac_sci_some (mac_sci h)) (mac_scb h)
    (mac_encrypted (mac_ptype h)) (mac_userdata_changed (mac_ptype h)) (mac_an h) (mac_short_len h)
    (mac_packet_nr h) (mac_sci h) (mac_et_opt (mac_ptype h))).
Proof. exact mac_spec. Qed.
Print Assumptions C08_Macsec_spec.

Definition ex_max : MacsecHeader :=
  {| mac_ptype := MacUnmodified 65535; mac_endstation_id := true; mac_scb := true; mac_an := 3;
     mac_short_len := 63; mac_packet_nr := 4294967295; mac_sci := Some 18446744073709551615 |}.
Definition ex_min : MacsecHeader :=
  {| mac_ptype := MacEncrypted; mac_endstation_id := false; mac_scb := false; mac_an := 0;
     mac_short_len := 1; mac_packet_nr := 1; mac_sci := None |}.
(* the refuted witness: in range, Unmodified + short_len 1 *)
Definition ex_excluded : MacsecHeader :=
  {| mac_ptype := MacUnmodified 2048; mac_endstation_id := false; mac_scb := false; mac_an := 0;
     mac_short_len := 1; mac_packet_nr := 7; mac_sci := None |}.
Example C08_Macsec_ex_wf : wf_mac ex_max = true /\ wf_mac ex_min = true
  /\ mac_in_range ex_excluded = true /\ wf_mac ex_excluded = false.
Proof. repeat split; vm_compute; reflexivity. Qed.
Example C08_Macsec_ex_bytes : mac_to_bytes ex_max =
  Some [115; 63; 255; 255; 255; 255; 255; 255; 255; 255; 255; 255; 255; 255; 255; 255]
  /\ mac_to_bytes ex_min = Some [12; 1; 0; 0; 0; 1].
Proof. split; vm_compute; reflexivity. Qed.
Example C08_Macsec_excluded_refuted : exists h e, mac_in_range h = true /\ mac_to_bytes h = Some e
  /\ mac_from_slice e = Err (EContent 1) /\ mac_read e = Err (EContent 1).
Proof. exists ex_excluded, [0; 1; 0; 0; 0; 7; 8; 0]. repeat split; vm_compute; reflexivity. Qed.
(* reserved bits set in the input are dropped: byte 1 = 0xC5 decodes to short_len 5 *)
Example C08_Macsec_ex_dec : mac_from_slice [44; 197; 0; 0; 0; 9; 1; 2; 3; 4; 5; 6; 7; 8; 170] =
  Ok {| mac_ptype := MacEncrypted; mac_endstation_id := false; mac_scb := false; mac_an := 0;
        mac_short_len := 5; mac_packet_nr := 9; mac_sci := Some 72623859790382856 |}.
Proof. vm_compute. reflexivity. Qed.
End MACSEC.

(* ------------------------------------------------------------------ IpAuthHeader *)
Module AUTH.
Import Roundtrip.Auth Roundtrip.AuthProofs.

(* to_bytes (ArrayVec<1028> + set_len) and write agree, header_len many bytes *)
Theorem C08_Auth_ser_agree : forall h out, wf_ah h = true ->
  exists e, ah_to_bytes h = Some e /\ ah_write out h = Some (out ++ e) /\ len e = ah_header_len h.
Proof. exact ah_ser_agree. Qed.
Print Assumptions C08_Auth_ser_agree.

(* every well-formed value (every ICV length 0,4,..,1016, arbitrary stale bytes in the
   buffer behind the ICV), followed by any bytes: from_slice and read return the value
   (buffer zeroed behind the ICV = what PartialEq ignores) and exactly `rest` *)
Theorem C08_Auth_dec_enc : forall h rest, wf_ah h = true ->
  exists e, ah_to_bytes h = Some e /\ ah_from_slice (e ++ rest) = Ok (ah_norm h, rest)
            /\ ah_read (e ++ rest) = Ok (ah_norm h, rest) /\ ah_eqb (ah_norm h) h = true.
Proof. exact ah_dec_enc. Qed.
Print Assumptions C08_Auth_dec_enc.

(* reserved: bytes 2-3 *)
Theorem C08_Auth_enc_dec : forall bs h rest, bytes_ok bs -> ah_from_slice bs = Ok (h, rest) ->
  wf_ah h = true /\ ah_norm h = h /\
  exists e, ah_to_bytes h = Some e /\ bs = take (ah_header_len h) bs ++ rest
            /\ agree (ah_keep_mask (ah_header_len h)) e (take (ah_header_len h) bs)
            /\ ah_from_slice e = Ok (h, []).
Proof. exact ah_enc_dec. Qed.
Print Assumptions C08_Auth_enc_dec.

(* RFC 4302 layout; payload len = header length in 32 bit words - 2 *)
Theorem C08_Auth_spec : forall h, wf_ah h = true ->
  ah_to_bytes h = Some (ah_layout (ah_next_header h) (ah_spi h) (ah_sequence_number h) (ah_icv h)).
Proof. exact ah_spec. Qed.
Print Assumptions C08_Auth_spec.

Definition ex_max : IpAuthHeader :=
  {| ah_next_header := 255; ah_spi := 4294967295; ah_sequence_number := 4294967295;
     ah_raw_icv_len := 254; ah_raw_icv_buffer := repeat 255 1016 |}.
Definition ex_stale : IpAuthHeader :=
  {| ah_next_header := 6; ah_spi := 1; ah_sequence_number := 2;
     ah_raw_icv_len := 1; ah_raw_icv_buffer := [1; 2; 3; 4] ++ repeat 170 1012 |}.
Example C08_Auth_ex_wf : wf_ah ex_max = true /\ wf_ah ex_stale = true.
Proof. split; vm_compute; reflexivity. Qed.
Example C08_Auth_ex_bytes : ah_to_bytes ex_stale = Some [6; 2; 0; 0; 0; 0; 0; 1; 0; 0; 0; 2; 1; 2; 3; 4].
Proof. vm_compute. reflexivity. Qed.
Example C08_Auth_ex_dec : exists h,
  ah_from_slice [6; 2; 171; 205; 0; 0; 0; 1; 0; 0; 0; 2; 1; 2; 3; 4; 9] = Ok (h, [9]) /\ ah_eqb h ex_stale = true.
Proof. eexists. split; vm_compute; reflexivity. Qed.
End AUTH.

(* ------------------------------------------------------------------ Ipv6RawExtHeader *)
Module RAWEXT.
Import Roundtrip.RawExt Roundtrip.RawExtProofs.

Theorem C08_RawExt_ser_agree : forall h out, wf_rx h = true ->
  exists e, rx_to_bytes h = Some e /\ rx_write out h = Some (out ++ e) /\ len e = rx_header_len h.
Proof. exact rx_ser_agree. Qed.
Print Assumptions C08_RawExt_ser_agree.

(* every payload length 6, 14, .., 2046, arbitrary stale bytes behind the payload *)
Theorem C08_RawExt_dec_enc : forall h rest, wf_rx h = true ->
  exists e, rx_to_bytes h = Some e /\ rx_from_slice (e ++ rest) = Ok (rx_norm h, rest)
            /\ rx_read (e ++ rest) = Ok (rx_norm h, rest) /\ rx_eqb (rx_norm h) h = true.
Proof. exact rx_dec_enc. Qed.
Print Assumptions C08_RawExt_dec_enc.

(* no reserved bits: the consumed bytes are reproduced exactly *)
Theorem C08_RawExt_enc_dec : forall bs h rest, bytes_ok bs -> rx_from_slice bs = Ok (h, rest) ->
  wf_rx h = true /\ rx_norm h = h /\
  exists e, rx_to_bytes h = Some e /\ bs = e ++ rest /\ len e = rx_header_len h
            /\ rx_from_slice e = Ok (h, []).
Proof. exact rx_enc_dec. Qed.
Print Assumptions C08_RawExt_enc_dec.

(* RFC 8200 generic extension header; hdr ext len = length in 8 octets - 1 *)
Theorem C08_RawExt_spec : forall h, wf_rx h = true ->
  rx_to_bytes h = Some (rawext_layout (rx_next_header h) (rx_pl h)).
Proof. exact rx_spec. Qed.
Print Assumptions C08_RawExt_spec.

Definition ex_max : Ipv6RawExtHeader :=
  {| rx_next_header := 255; rx_header_length := 255; rx_payload_buffer := repeat 255 2046 |}.
Definition ex_stale : Ipv6RawExtHeader :=
  {| rx_next_header := 43; rx_header_length := 0; rx_payload_buffer := [1; 2; 3; 4; 5; 6] ++ repeat 170 2040 |}.
Example C08_RawExt_ex_wf : wf_rx ex_max = true /\ wf_rx ex_stale = true.
Proof. split; vm_compute; reflexivity. Qed.
Example C08_RawExt_ex_bytes : rx_to_bytes ex_stale = Some [43; 0; 1; 2; 3; 4; 5; 6].
Proof. vm_compute. reflexivity. Qed.
Example C08_RawExt_ex_dec : exists h,
  rx_from_slice [43; 0; 1; 2; 3; 4; 5; 6; 9] = Ok (h, [9]) /\ rx_eqb h ex_stale = true.
Proof. eexists. split; vm_compute; reflexivity. Qed.
End RAWEXT.

(* ------------------------------------------------------------------ Ipv6Header *)
Module IPV6.
Import Roundtrip.Ipv6 Roundtrip.Ipv6Proofs.

(* write = write_all(to_bytes); 40 bytes *)
Theorem C08_Ipv6_ser_agree : forall h out, wf_ip6 h = true ->
  ip6_write out h = out ++ ip6_to_bytes h /\ len (ip6_to_bytes h) = ip6_header_len h.
Proof. exact ip6_ser_agree. Qed.
Print Assumptions C08_Ipv6_ser_agree.

Theorem C08_Ipv6_dec_enc : forall h rest, wf_ip6 h = true ->
  ip6_from_slice (ip6_to_bytes h ++ rest) = Ok (h, rest) /\ ip6_read (ip6_to_bytes h ++ rest) = Ok (h, rest).
Proof. exact ip6_dec_enc. Qed.
Print Assumptions C08_Ipv6_dec_enc.

(* no reserved bits (the version nibble is checked to be 6): exact reproduction *)
Theorem C08_Ipv6_enc_dec : forall bs h rest, bytes_ok bs -> ip6_from_slice bs = Ok (h, rest) ->
  wf_ip6 h = true /\ bs = ip6_to_bytes h ++ rest /\ len (ip6_to_bytes h) = 40
  /\ ip6_from_slice (ip6_to_bytes h) = Ok (h, []).
Proof. exact ip6_enc_dec. Qed.
Print Assumptions C08_Ipv6_enc_dec.

Theorem C08_Ipv6_spec : forall h, wf_ip6 h = true ->
  ip6_to_bytes h = ipv6_layout (i6_traffic_class h) (i6_flow_label h) (i6_payload_length h)
                     (i6_next_header h) (i6_hop_limit h) (i6_source h) (i6_destination h).
Proof. exact ip6_spec. Qed.
Print Assumptions C08_Ipv6_spec.

Definition ex_max : Ipv6Header :=
  {| i6_traffic_class := 255; i6_flow_label := 1048575; i6_payload_length := 65535; i6_next_header := 255;
     i6_hop_limit := 255; i6_source := repeat 255 16; i6_destination := repeat 255 16 |}.
Definition ex_mid : Ipv6Header :=
  {| i6_traffic_class := 165; i6_flow_label := 74565; i6_payload_length := 8; i6_next_header := 17;
     i6_hop_limit := 64; i6_source := repeat 1 16; i6_destination := repeat 2 16 |}.
Example C08_Ipv6_ex_wf : wf_ip6 ex_max = true /\ wf_ip6 ex_mid = true.
Proof. split; vm_compute; reflexivity. Qed.
Example C08_Ipv6_ex_bytes : ip6_to_bytes ex_mid = [106; 81; 35; 69; 0; 8; 17; 64] ++ repeat 1 16 ++ repeat 2 16.
Proof. vm_compute. reflexivity. Qed.
Example C08_Ipv6_ex_dec :
  ip6_from_slice ([106; 81; 35; 69; 0; 8; 17; 64] ++ repeat 1 16 ++ repeat 2 16 ++ [9]) = Ok (ex_mid, [9]).
Proof. vm_compute. reflexivity. Qed.
End IPV6.

(* ------------------------------------------------------------------ Ethernet2Header *)
Module ETH.
Import Roundtrip.Eth Roundtrip.EthProofs.

(* to_bytes = write = write_to_slice (any slice of >= 14 bytes; the bytes behind the header are
   untouched and returned as the rest; shorter slices are refused); 14 bytes *)
Theorem C08_Eth_ser_agree : forall h out slice, wf_eth h = true ->
  eth_write out h = out ++ eth_to_bytes h /\ len (eth_to_bytes h) = eth_header_len h
  /\ (14 <= len slice -> eth_write_to_slice slice h = Ok (eth_to_bytes h ++ drop 14 slice, drop 14 slice))
  /\ (len slice < 14 -> eth_write_to_slice slice h = Err ELen).
Proof. exact eth_ser_agree. Qed.
Print Assumptions C08_Eth_ser_agree.

Theorem C08_Eth_dec_enc : forall h rest, wf_eth h = true ->
  eth_from_slice (eth_to_bytes h ++ rest) = Ok (h, rest) /\ eth_read (eth_to_bytes h ++ rest) = Ok (h, rest)
  /\ eth_from_bytes (eth_to_bytes h) = Ok h.
Proof. exact eth_dec_enc. Qed.
Print Assumptions C08_Eth_dec_enc.

Theorem C08_Eth_enc_dec : forall bs h rest, bytes_ok bs -> eth_from_slice bs = Ok (h, rest) ->
  wf_eth h = true /\ bs = eth_to_bytes h ++ rest /\ len (eth_to_bytes h) = 14
  /\ eth_from_slice (eth_to_bytes h) = Ok (h, []).
Proof. exact eth_enc_dec. Qed.
Print Assumptions C08_Eth_enc_dec.

Theorem C08_Eth_spec : forall h,
  eth_to_bytes h = eth_layout (eth_destination h) (eth_source h) (eth_ether_type h).
Proof. exact eth_spec. Qed.
Print Assumptions C08_Eth_spec.

Definition ex1 : Ethernet2Header :=
  {| eth_source := [1; 2; 3; 4; 5; 6]; eth_destination := [255; 255; 255; 255; 255; 255]; eth_ether_type := 2048 |}.
Example C08_Eth_ex_wf : wf_eth ex1 = true. Proof. vm_compute. reflexivity. Qed.
Example C08_Eth_ex_bytes : eth_to_bytes ex1 = [255; 255; 255; 255; 255; 255; 1; 2; 3; 4; 5; 6; 8; 0].
Proof. vm_compute. reflexivity. Qed.
Example C08_Eth_ex_dec : eth_from_slice [255; 255; 255; 255; 255; 255; 1; 2; 3; 4; 5; 6; 8; 0; 9] = Ok (ex1, [9]).
Proof. vm_compute. reflexivity. Qed.
Example C08_Eth_ex_wts : eth_write_to_slice (repeat 165 16) ex1 =
  Ok ([255; 255; 255; 255; 255; 255; 1; 2; 3; 4; 5; 6; 8; 0; 165; 165], [165; 165]).
Proof. vm_compute. reflexivity. Qed.
End ETH.

(* ------------------------------------------------------------------ SingleVlanHeader *)
Module VLAN.
Import Roundtrip.Vlan Roundtrip.VlanProofs.

Theorem C08_Vlan_ser_agree : forall h out,
  vl_write out h = out ++ vl_to_bytes h /\ len (vl_to_bytes h) = vl_header_len h.
Proof. exact vl_ser_agree. Qed.
Print Assumptions C08_Vlan_ser_agree.

Theorem C08_Vlan_dec_enc : forall h rest, wf_vl h = true ->
  vl_from_slice (vl_to_bytes h ++ rest) = Ok (h, rest) /\ vl_read (vl_to_bytes h ++ rest) = Ok (h, rest)
  /\ vl_from_bytes (vl_to_bytes h) = Ok h.
Proof. exact vl_dec_enc. Qed.
Print Assumptions C08_Vlan_dec_enc.

Theorem C08_Vlan_enc_dec : forall bs h rest, bytes_ok bs -> vl_from_slice bs = Ok (h, rest) ->
  wf_vl h = true /\ bs = vl_to_bytes h ++ rest /\ len (vl_to_bytes h) = 4
  /\ vl_from_slice (vl_to_bytes h) = Ok (h, []).
Proof. exact vl_enc_dec. Qed.
Print Assumptions C08_Vlan_enc_dec.

(* IEEE 802.1Q TCI: PCP * 2^13 + DEI * 2^12 + VID *)
Theorem C08_Vlan_spec : forall h, wf_vl h = true ->
  vl_to_bytes h = vlan_layout (vl_pcp h) (vl_drop_eligible_indicator h) (vl_vlan_id h) (vl_ether_type h).
Proof. exact vl_spec. Qed.
Print Assumptions C08_Vlan_spec.

Definition ex_max : SingleVlanHeader :=
  {| vl_pcp := 7; vl_drop_eligible_indicator := true; vl_vlan_id := 4095; vl_ether_type := 65535 |}.
Example C08_Vlan_ex_wf : wf_vl ex_max = true. Proof. vm_compute. reflexivity. Qed.
Example C08_Vlan_ex_bytes : vl_to_bytes ex_max = [255; 255; 255; 255]. Proof. vm_compute. reflexivity. Qed.
Example C08_Vlan_ex_dec : vl_from_slice [176; 5; 8; 0; 9] =
  Ok ({| vl_pcp := 5; vl_drop_eligible_indicator := true; vl_vlan_id := 5; vl_ether_type := 2048 |}, [9]).
Proof. vm_compute. reflexivity. Qed.
End VLAN.

(* ------------------------------------------------------------------ LinuxSllHeader *)
Module SLL.
Import Roundtrip.Sll Roundtrip.SllProofs.

Theorem C08_Sll_ser_agree : forall h out slice, wf_sll h = true ->
  sll_write out h = out ++ sll_to_bytes h /\ len (sll_to_bytes h) = sll_header_len h
  /\ (16 <= len slice -> sll_write_to_slice slice h = Ok (sll_to_bytes h ++ drop 16 slice, drop 16 slice))
  /\ (len slice < 16 -> sll_write_to_slice slice h = Err ELen).
Proof. exact sll_ser_agree. Qed.
Print Assumptions C08_Sll_ser_agree.

(* wf_sll = field ranges (packet type <= 7) + the protocol type variant belongs to the ARP hardware
   id, which is one of the five supported ones; LinuxNonstandardEtherType holds one of its constants *)
Theorem C08_Sll_dec_enc : forall h rest, wf_sll h = true ->
  sll_from_slice (sll_to_bytes h ++ rest) = Ok (h, rest) /\ sll_read (sll_to_bytes h ++ rest) = Ok (h, rest)
  /\ sll_from_bytes (sll_to_bytes h) = Ok h.
Proof. exact sll_dec_enc. Qed.
Print Assumptions C08_Sll_dec_enc.

Theorem C08_Sll_enc_dec : forall bs h rest, bytes_ok bs -> sll_from_slice bs = Ok (h, rest) ->
  wf_sll h = true /\ bs = sll_to_bytes h ++ rest /\ len (sll_to_bytes h) = 16
  /\ sll_from_slice (sll_to_bytes h) = Ok (h, []).
Proof. exact sll_enc_dec. Qed.
Print Assumptions C08_Sll_enc_dec.

(* values in range but with a protocol type variant that does not belong to the hardware id do
   NOT survive: the decoder rejects them or returns a different value *)
Theorem C08_Sll_inconsistent_not_roundtrip : forall h rest, sll_in_range h = true -> sll_consistent h = false ->
  forall h' rest', sll_from_slice (sll_to_bytes h ++ rest) = Ok (h', rest') -> h' <> h.
Proof. exact sll_inconsistent_not_roundtrip. Qed.
Print Assumptions C08_Sll_inconsistent_not_roundtrip.

Theorem C08_Sll_spec : forall h, sll_to_bytes h =
  sll_layout (sll_packet_type h) (sll_arp_hrd_type h) (sll_sender_address_valid_length h)
             (sll_sender_address h) (sll_protocol_u16 (sll_protocol_type h)).
Proof. exact sll_spec. Qed.
Print Assumptions C08_Sll_spec.

Definition ex_eth : LinuxSllHeader :=
  {| sll_packet_type := 4; sll_arp_hrd_type := 1; sll_sender_address_valid_length := 6;
     sll_sender_address := [1; 2; 3; 4; 5; 6; 0; 0]; sll_protocol_type := SllEtherType 2048 |}.
Definition ex_nonstd : LinuxSllHeader :=
  {| sll_packet_type := 7; sll_arp_hrd_type := 1; sll_sender_address_valid_length := 65535;
     sll_sender_address := repeat 255 8; sll_protocol_type := SllNonstd 250 |}.
Definition ex_netlink : LinuxSllHeader :=
  {| sll_packet_type := 0; sll_arp_hrd_type := 824; sll_sender_address_valid_length := 0;
     sll_sender_address := repeat 0 8; sll_protocol_type := SllNetlink 65535 |}.
(* in range but inconsistent: Ethernet hardware id with an `Ignored` protocol type / unsupported id *)
Definition ex_bad1 : LinuxSllHeader :=
  {| sll_packet_type := 0; sll_arp_hrd_type := 1; sll_sender_address_valid_length := 0;
     sll_sender_address := repeat 0 8; sll_protocol_type := SllIgnored 5 |}.
Definition ex_bad2 : LinuxSllHeader :=
  {| sll_packet_type := 0; sll_arp_hrd_type := 6; sll_sender_address_valid_length := 0;
     sll_sender_address := repeat 0 8; sll_protocol_type := SllEtherType 2048 |}.
Example C08_Sll_ex_wf : wf_sll ex_eth = true /\ wf_sll ex_nonstd = true /\ wf_sll ex_netlink = true
  /\ sll_in_range ex_bad1 = true /\ wf_sll ex_bad1 = false /\ sll_in_range ex_bad2 = true /\ wf_sll ex_bad2 = false.
Proof. repeat split; vm_compute; reflexivity. Qed.
Example C08_Sll_ex_bytes : sll_to_bytes ex_eth = [0; 4; 0; 1; 0; 6; 1; 2; 3; 4; 5; 6; 0; 0; 8; 0].
Proof. vm_compute. reflexivity. Qed.
Example C08_Sll_inconsistent_refuted :
  sll_from_slice (sll_to_bytes ex_bad1) =
    Ok ({| sll_packet_type := 0; sll_arp_hrd_type := 1; sll_sender_address_valid_length := 0;
           sll_sender_address := repeat 0 8; sll_protocol_type := SllNonstd 5 |}, [])
  /\ sll_from_slice (sll_to_bytes ex_bad2) = Err (EContent 1).
Proof. split; vm_compute; reflexivity. Qed.
End SLL.

(* ------------------------------------------------------------------ ArpPacket / ArpEthIpv4Packet *)
Module ARP.
Import Roundtrip.Arp Roundtrip.ArpProofs.

Theorem C08_Arp_ser_agree : forall h out, wf_arp h = true ->
  exists e, arp_to_bytes h = Some e /\ arp_write out h = Some (out ++ e) /\ len e = arp_packet_len h.
Proof. exact arp_ser_agree. Qed.
Print Assumptions C08_Arp_ser_agree.

(* every well-formed packet (all address sizes 0..255, stale initialised bytes behind the
   addresses after set_hw_addrs/set_protocol_addrs), any trailing bytes; from_slice returns no
   remainder: skipping packet_len bytes leaves `rest` *)
Theorem C08_Arp_dec_enc : forall h rest, wf_arp h = true ->
  exists e, arp_to_bytes h = Some e /\ len e = arp_packet_len h
    /\ arp_from_slice (e ++ rest) = Ok (arp_norm h) /\ drop (arp_packet_len h) (e ++ rest) = rest
    /\ arp_read (e ++ rest) = Ok (arp_norm h, rest) /\ arp_eqb (arp_norm h) h = true.
Proof. exact arp_dec_enc. Qed.
Print Assumptions C08_Arp_dec_enc.

Theorem C08_Arp_enc_dec : forall bs h, bytes_ok bs -> arp_from_slice bs = Ok h ->
  wf_arp h = true /\ arp_norm h = h /\ arp_packet_len h <= len bs
  /\ exists e, arp_to_bytes h = Some e /\ e = take (arp_packet_len h) bs
       /\ arp_from_slice (e ++ drop (arp_packet_len h) bs) = Ok h.
Proof. exact arp_enc_dec. Qed.
Print Assumptions C08_Arp_enc_dec.

Theorem C08_Arp_spec : forall h, wf_arp h = true ->
  arp_to_bytes h = Some (arp_layout (arp_hw_addr_type h) (arp_proto_addr_type h) (arp_operation h)
                                    (arp_sh h) (arp_sp h) (arp_th h) (arp_tp h)).
Proof. exact arp_spec. Qed.
Print Assumptions C08_Arp_spec.

(* the Ethernet/IPv4 view *)
Theorem C08_ArpEthIpv4_ser_agree : forall v, wf_ae v = true ->
  exists p, ae_to_arp_packet v = Some p /\ wf_arp p = true /\ arp_to_bytes p = Some (ae_to_bytes v)
            /\ len (ae_to_bytes v) = 28 /\ arp_try_eth_ipv4 p = Ok v.
Proof. exact ae_ser_agree. Qed.
Print Assumptions C08_ArpEthIpv4_ser_agree.

Theorem C08_ArpEthIpv4_dec_enc : forall v rest, wf_ae v = true ->
  exists p, arp_from_slice (ae_to_bytes v ++ rest) = Ok p /\ arp_try_eth_ipv4 p = Ok v
            /\ drop 28 (ae_to_bytes v ++ rest) = rest.
Proof. exact ae_dec_enc. Qed.
Print Assumptions C08_ArpEthIpv4_dec_enc.

Theorem C08_ArpEthIpv4_enc_dec : forall bs p v, bytes_ok bs -> arp_from_slice bs = Ok p ->
  arp_try_eth_ipv4 p = Ok v -> wf_ae v = true /\ 28 <= len bs /\ ae_to_bytes v = take 28 bs.
Proof. exact ae_enc_dec. Qed.
Print Assumptions C08_ArpEthIpv4_enc_dec.

Definition ex_v : ArpEthIpv4Packet :=
  {| ae_operation := 1; ae_sender_mac := [1; 2; 3; 4; 5; 6]; ae_sender_ipv4 := [10; 0; 0; 1];
     ae_target_mac := [0; 0; 0; 0; 0; 0]; ae_target_ipv4 := [10; 0; 0; 2] |}.
Definition ex_stale : ArpPacket :=
  {| arp_hw_addr_type := 65535; arp_proto_addr_type := 65535; arp_hw_addr_size := 1; arp_proto_addr_size := 0;
     arp_operation := 65535; arp_sender_hw_addr_buf := [7; 170; 170]; arp_sender_protocol_addr_buf := [170];
     arp_target_hw_addr_buf := [8; 170]; arp_target_protocol_addr_buf := [] |}.
Example C08_Arp_ex_wf : wf_ae ex_v = true /\ wf_arp ex_stale = true. Proof. split; vm_compute; reflexivity. Qed.
Example C08_Arp_ex_bytes : ae_to_bytes ex_v =
  [0; 1; 8; 0; 6; 4; 0; 1; 1; 2; 3; 4; 5; 6; 10; 0; 0; 1; 0; 0; 0; 0; 0; 0; 10; 0; 0; 2]
  /\ arp_to_bytes ex_stale = Some [255; 255; 255; 255; 1; 0; 255; 255; 7; 8].
Proof. split; vm_compute; reflexivity. Qed.
Example C08_Arp_ex_dec : exists p, arp_from_slice (ae_to_bytes ex_v ++ [9]) = Ok p /\ arp_try_eth_ipv4 p = Ok ex_v.
Proof. eexists. split; vm_compute; reflexivity. Qed.
End ARP.

(* ------------------------------------------------------------------ Ipv4Extensions *)
Module EXTS4.
Import Roundtrip.Auth Roundtrip.AuthProofs Roundtrip.Exts4 Roundtrip.Exts4Proofs.

(* the only serialiser is write(start_ip_number); `x4_linked`: the authentication header is present
   exactly when the start number announces it (set_next_headers establishes this, property C12) *)
Theorem C08_Exts4_ser_agree : forall e out start, wf_x4 e = true -> x4_linked start e = true ->
  exists b, x4_write out e start = Ok (out ++ b) /\ len b = x4_header_len e
            /\ match x4_auth e with Some h => ah_to_bytes h = Some b | None => b = [] end.
Proof. exact x4_ser_agree. Qed.
Print Assumptions C08_Exts4_ser_agree.

Theorem C08_Exts4_dec_enc : forall e start rest, wf_x4 e = true -> x4_linked start e = true ->
  exists b, x4_write [] e start = Ok b
    /\ x4_from_slice start (b ++ rest) = Ok (x4_norm e, x4_final start e, rest)
    /\ x4_read (b ++ rest) start = Ok (x4_norm e, x4_final start e, rest)
    /\ x4_eqb (x4_norm e) e = true.
Proof. exact x4_dec_enc. Qed.
Print Assumptions C08_Exts4_dec_enc.

(* reserved: bytes 2-3 of the authentication header *)
Theorem C08_Exts4_enc_dec : forall start bs e n rest, bytes_ok bs -> x4_from_slice start bs = Ok (e, n, rest) ->
  wf_x4 e = true /\ x4_norm e = e /\ x4_linked start e = true /\ n = x4_final start e
  /\ exists b, x4_write [] e start = Ok b /\ bs = take (x4_header_len e) bs ++ rest
       /\ agree (x4_keep_mask e) b (take (x4_header_len e) bs)
       /\ x4_from_slice start (b ++ rest) = Ok (e, n, rest).
Proof. exact x4_enc_dec. Qed.
Print Assumptions C08_Exts4_enc_dec.

Definition ex_some : Ipv4Extensions := {| x4_auth := Some AUTH.ex_stale |}.
Example C08_Exts4_ex : wf_x4 ex_some = true /\ x4_linked 51 ex_some = true
  /\ x4_write [] ex_some 51 = Ok [6; 2; 0; 0; 0; 0; 0; 1; 0; 0; 0; 2; 1; 2; 3; 4]
  /\ x4_write [] ex_some 6 = Err (EContent 0)
  /\ x4_from_slice 17 [1; 2; 3] = Ok ({| x4_auth := None |}, 17, [1; 2; 3]).
Proof. repeat split; vm_compute; reflexivity. Qed.
End EXTS4.

(* ------------------------------------------------------------------ Ipv6Extensions *)
(* Stated on the model of property C12 (ExtChain/Model.v: Exts6, write, from_slice, next_header,
   header_len), which is tied to the crate by C12's own correspondence run; C12 proves the chain
   bookkeeping (C12_write_iff_walk, C12_write_len, C12_decode_write for an empty remainder). *)
Module EXTS6.
Import ExtChain.Spec ExtChain.Model ExtChain.Proofs Roundtrip.Exts6Proofs.

(* the only serialiser is write(first_header); decode(write e ++ rest) = (e, final number, rest) for
   every valid struct whose chain is consistent (write succeeds, equivalently next_header succeeds)
   and ends on a non-extension number; len = header_len.
   _partial: Ipv6Extensions::read is not modelled (ExtChain has no model of it). Full statement:
   ... /\ read (bs ++ rest) first = Ok (e, n, rest). *)
Theorem C08_Exts6_dec_enc_partial : forall e first bs n rest, exts6_valid e = true ->
  write e first = (bs, Ok tt) -> next_header e first = Ok n -> is_ext_number n = false ->
  len bs = header_len e /\ from_slice first (bs ++ rest) = Ok (e, n, rest).
Proof. exact exts6_dec_enc. Qed.
Print Assumptions C08_Exts6_dec_enc_partial.

(* every accepted byte string (including chains on which the decoder stops early because a header
   kind repeats, n then is an extension number): the struct is valid, write succeeds with the same
   final number, the written bytes equal the consumed bytes except the reserved bits of fragment
   (byte 1, bits 1-2 of byte 3) and authentication headers (bytes 2-3) [hdr_eq], and decode again
   with any remainder gives the same struct *)
Theorem C08_Exts6_enc_dec : forall first bs e n r, bytes_ok bs -> from_slice first bs = Ok (e, n, r) ->
  exts6_valid e = true /\
  exists bs' cons, write e first = (bs', Ok tt) /\ next_header e first = Ok n
    /\ bs = cons ++ r /\ hdr_eq bs' cons /\ len bs' = header_len e
    /\ forall t, from_slice first (bs' ++ t) = Ok (e, n, t).
Proof. exact exts6_enc_dec. Qed.
Print Assumptions C08_Exts6_enc_dec.

(* the decoder never looks behind the headers it consumes *)
Theorem C08_Exts6_frame : forall first s t e n r,
  from_slice first s = Ok (e, n, r) -> from_slice first (s ++ t) = Ok (e, n, r ++ t).
Proof. exact from_slice_frame. Qed.
Print Assumptions C08_Exts6_frame.

(* hop-by-hop (8 bytes), fragment with reserved bits set, then UDP: re-encoding clears the reserved bits *)
Definition ex_bytes : bytes := [44; 0; 1; 2; 3; 4; 5; 6] ++ [17; 170; 0; 15; 0; 0; 0; 1] ++ [9; 9].
Example C08_Exts6_ex : exists e,
  from_slice 0 ex_bytes = Ok (e, 17, [9; 9]) /\ exts6_valid e = true
  /\ write e 0 = ([44; 0; 1; 2; 3; 4; 5; 6] ++ [17; 0; 0; 9; 0; 0; 0; 1], Ok tt)
  /\ from_slice 0 (fst (write e 0) ++ [7]) = Ok (e, 17, [7]).
Proof. eexists. repeat split; vm_compute; reflexivity. Qed.
(* a repeated fragment header stops the decoder on an extension number; still a round trip *)
Example C08_Exts6_ex_dup : exists e,
  from_slice 44 ([44; 0; 0; 8; 0; 0; 0; 1] ++ [44; 0; 0; 0; 0; 0; 0; 2]) = Ok (e, 44, [44; 0; 0; 0; 0; 0; 0; 2])
  /\ write e 44 = ([44; 0; 0; 8; 0; 0; 0; 1], Ok tt).
Proof. eexists. split; vm_compute; reflexivity. Qed.
End EXTS6.
