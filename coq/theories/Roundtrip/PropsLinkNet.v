(* Roundtrip/PropsLinkNet.v -- property C08 for the link / network layer types
   (extend-c08a).  Only statements; every proof is `exact <lemma>`.  The
   theorems are re-stated (again by `exact`) at the end of Props/C08.v, which is
   the file the driver parses for `Print Assumptions`. *)
From EP Require Import Base.Bytes Roundtrip.Common Roundtrip.Spec Roundtrip.SpecLinkNet.
From EP Require Roundtrip.Macsec Roundtrip.MacsecProofs.
From EP Require Roundtrip.Auth Roundtrip.AuthProofs Roundtrip.RawExt Roundtrip.RawExtProofs.
From EP Require Roundtrip.Ipv6 Roundtrip.Ipv6Proofs.
Local Open Scope N_scope.

(* ------------------------------------------------------------------ MacsecHeader *)
Module MACSEC.
Import Roundtrip.Macsec Roundtrip.MacsecProofs.

(* to_bytes (ArrayVec + set_len never undefined) and write agree, header_len many
   bytes; for EVERY value, well-formed or not.  MacsecHeader has no write_to_slice. *)
Theorem C08_Macsec_ser_agree : forall h out,
  exists e, mac_to_bytes h = Some e /\ mac_write out h = Some (out ++ e) /\ len e = mac_header_len h.
Proof. exact mac_ser_agree. Qed.
Print Assumptions C08_Macsec_ser_agree.

(* every well-formed value (all four ptypes, with/without SCI, all an/short_len/
   packet_nr/sci/ether type values; wf_mac EXCLUDES ptype = Unmodified(_) with
   short_len = 1, see C08_Macsec_excluded_rejected) followed by any bytes `rest`:
   from_slice returns the value (it returns no remainder: the caller skips
   header_len bytes, which leaves exactly `rest`), read returns value and `rest` *)
Theorem C08_Macsec_dec_enc : forall h rest, wf_mac h = true ->
  exists e, mac_to_bytes h = Some e /\ len e = mac_header_len h
    /\ mac_from_slice (e ++ rest) = Ok h /\ drop (mac_header_len h) (e ++ rest) = rest
    /\ mac_read (e ++ rest) = Ok (h, rest).
Proof. exact mac_dec_enc. Qed.
Print Assumptions C08_Macsec_dec_enc.

(* the values excluded by wf_mac although every field is in the range of its Rust
   type (ptype Unmodified and short_len 1): to_bytes encodes them, both decoders
   answer InvalidUnmodifiedShortLen -- such a value does NOT survive the round trip *)
Theorem C08_Macsec_excluded_rejected : forall h rest, mac_in_range h = true -> wf_mac h = false ->
  exists e, mac_to_bytes h = Some e /\ mac_from_slice (e ++ rest) = Err (EContent 1)
            /\ mac_read (e ++ rest) = Err (EContent 1).
Proof. exact mac_excluded_rejected. Qed.
Print Assumptions C08_Macsec_excluded_rejected.

(* every accepted byte string: the value is well-formed, re-encoding reproduces the
   consumed bytes outside the two reserved top bits of the short-length octet,
   decoding the re-encoded bytes (followed by the unconsumed input) gives the value again *)
Theorem C08_Macsec_enc_dec : forall bs h, bytes_ok bs -> mac_from_slice bs = Ok h ->
  wf_mac h = true /\ mac_header_len h <= len bs
  /\ exists e, mac_to_bytes h = Some e
       /\ agree (mac_keep_mask (mac_header_len h)) e (take (mac_header_len h) bs)
       /\ mac_from_slice (e ++ drop (mac_header_len h) bs) = Ok h.
Proof. exact mac_enc_dec. Qed.
Print Assumptions C08_Macsec_enc_dec.

(* IEEE 802.1AE SecTAG layout (+ ether type of the user data iff E = C = 0) *)
Theorem C08_Macsec_spec : forall h, wf_mac h = true ->
  mac_to_bytes h = Some (macsec_layout (mac_endstation_id h) (mac_sci_some (mac_sci h)) (mac_scb h)
    (mac_encrypted (mac_ptype h)) (mac_userdata_changed (mac_ptype h)) (mac_an h) (mac_short_len h)
    (mac_packet_nr h) (mac_sci h) (mac_et_opt (mac_ptype h))).
Proof. exact mac_spec. Qed.
Print Assumptions C08_Macsec_spec.

Definition ex_max : MacsecHeader :=
  {| mac_ptype := MacUnmodified 65535; mac_endstation_id := true; mac_scb := true; mac_an := 3;
     mac_short_len := 63; mac_packet_nr := 4294967295; mac_sci := Some 18446744073709551615 |}.
Definition ex_min : MacsecHeader :=
  {| mac_ptype := MacEncrypted; mac_endstation_id := false; mac_scb := false; mac_an := 0;
     mac_short_len := 1; mac_packet_nr := 1; mac_sci := None |}.
(* the refuted witness: in range, Unmodified + short_len 1 *)
Definition ex_excluded : MacsecHeader :=
  {| mac_ptype := MacUnmodified 2048; mac_endstation_id := false; mac_scb := false; mac_an := 0;
     mac_short_len := 1; mac_packet_nr := 7; mac_sci := None |}.
Example C08_Macsec_ex_wf : wf_mac ex_max = true /\ wf_mac ex_min = true
  /\ mac_in_range ex_excluded = true /\ wf_mac ex_excluded = false.
Proof. repeat split; vm_compute; reflexivity. Qed.
Example C08_Macsec_ex_bytes : mac_to_bytes ex_max =
  Some [115; 63; 255; 255; 255; 255; 255; 255; 255; 255; 255; 255; 255; 255; 255; 255]
  /\ mac_to_bytes ex_min = Some [12; 1; 0; 0; 0; 1].
Proof. split; vm_compute; reflexivity. Qed.
Example C08_Macsec_excluded_refuted : exists h e, mac_in_range h = true /\ mac_to_bytes h = Some e
  /\ mac_from_slice e = Err (EContent 1) /\ mac_read e = Err (EContent 1).
Proof. exists ex_excluded, [0; 1; 0; 0; 0; 7; 8; 0]. repeat split; vm_compute; reflexivity. Qed.
(* reserved bits set in the input are dropped: byte 1 = 0xC5 decodes to short_len 5 *)
Example C08_Macsec_ex_dec : mac_from_slice [44; 197; 0; 0; 0; 9; 1; 2; 3; 4; 5; 6; 7; 8; 170] =
  Ok {| mac_ptype := MacEncrypted; mac_endstation_id := false; mac_scb := false; mac_an := 0;
        mac_short_len := 5; mac_packet_nr := 9; mac_sci := Some 72623859790382856 |}.
Proof. vm_compute. reflexivity. Qed.
End MACSEC.

(* ------------------------------------------------------------------ IpAuthHeader *)
Module AUTH.
Import Roundtrip.Auth Roundtrip.AuthProofs.

(* to_bytes (ArrayVec<1028> + set_len) and write agree, header_len many bytes *)
Theorem C08_Auth_ser_agree : forall h out, wf_ah h = true ->
  exists e, ah_to_bytes h = Some e /\ ah_write out h = Some (out ++ e) /\ len e = ah_header_len h.
Proof. exact ah_ser_agree. Qed.
Print Assumptions C08_Auth_ser_agree.

(* every well-formed value (every ICV length 0,4,..,1016, arbitrary stale bytes in the
   buffer behind the ICV), followed by any bytes: from_slice and read return the value
   (buffer zeroed behind the ICV = what PartialEq ignores) and exactly `rest` *)
Theorem C08_Auth_dec_enc : forall h rest, wf_ah h = true ->
  exists e, ah_to_bytes h = Some e /\ ah_from_slice (e ++ rest) = Ok (ah_norm h, rest)
            /\ ah_read (e ++ rest) = Ok (ah_norm h, rest) /\ ah_eqb (ah_norm h) h = true.
Proof. exact ah_dec_enc. Qed.
Print Assumptions C08_Auth_dec_enc.

(* reserved: bytes 2-3 *)
Theorem C08_Auth_enc_dec : forall bs h rest, bytes_ok bs -> ah_from_slice bs = Ok (h, rest) ->
  wf_ah h = true /\ ah_norm h = h /\
  exists e, ah_to_bytes h = Some e /\ bs = take (ah_header_len h) bs ++ rest
            /\ agree (ah_keep_mask (ah_header_len h)) e (take (ah_header_len h) bs)
            /\ ah_from_slice e = Ok (h, []).
Proof. exact ah_enc_dec. Qed.
Print Assumptions C08_Auth_enc_dec.

(* RFC 4302 layout; payload len = header length in 32 bit words - 2 *)
Theorem C08_Auth_spec : forall h, wf_ah h = true ->
  ah_to_bytes h = Some (ah_layout (ah_next_header h) (ah_spi h) (ah_sequence_number h) (ah_icv h)).
Proof. exact ah_spec. Qed.
Print Assumptions C08_Auth_spec.

Definition ex_max : IpAuthHeader :=
  {| ah_next_header := 255; ah_spi := 4294967295; ah_sequence_number := 4294967295;
     ah_raw_icv_len := 254; ah_raw_icv_buffer := repeat 255 1016 |}.
Definition ex_stale : IpAuthHeader :=
  {| ah_next_header := 6; ah_spi := 1; ah_sequence_number := 2;
     ah_raw_icv_len := 1; ah_raw_icv_buffer := [1; 2; 3; 4] ++ repeat 170 1012 |}.
Example C08_Auth_ex_wf : wf_ah ex_max = true /\ wf_ah ex_stale = true.
Proof. split; vm_compute; reflexivity. Qed.
Example C08_Auth_ex_bytes : ah_to_bytes ex_stale = Some [6; 2; 0; 0; 0; 0; 0; 1; 0; 0; 0; 2; 1; 2; 3; 4].
Proof. vm_compute. reflexivity. Qed.
Example C08_Auth_ex_dec : exists h,
  ah_from_slice [6; 2; 171; 205; 0; 0; 0; 1; 0; 0; 0; 2; 1; 2; 3; 4; 9] = Ok (h, [9]) /\ ah_eqb h ex_stale = true.
Proof. eexists. split; vm_compute; reflexivity. Qed.
End AUTH.

(* ------------------------------------------------------------------ Ipv6RawExtHeader *)
Module RAWEXT.
Import Roundtrip.RawExt Roundtrip.RawExtProofs.

Theorem C08_RawExt_ser_agree : forall h out, wf_rx h = true ->
  exists e, rx_to_bytes h = Some e /\ rx_write out h = Some (out ++ e) /\ len e = rx_header_len h.
Proof. exact rx_ser_agree. Qed.
Print Assumptions C08_RawExt_ser_agree.

(* every payload length 6, 14, .., 2046, arbitrary stale bytes behind the payload *)
Theorem C08_RawExt_dec_enc : forall h rest, wf_rx h = true ->
  exists e, rx_to_bytes h = Some e /\ rx_from_slice (e ++ rest) = Ok (rx_norm h, rest)
            /\ rx_read (e ++ rest) = Ok (rx_norm h, rest) /\ rx_eqb (rx_norm h) h = true.
Proof. exact rx_dec_enc. Qed.
Print Assumptions C08_RawExt_dec_enc.

(* no reserved bits: the consumed bytes are reproduced exactly *)
Theorem C08_RawExt_enc_dec : forall bs h rest, bytes_ok bs -> rx_from_slice bs = Ok (h, rest) ->
  wf_rx h = true /\ rx_norm h = h /\
  exists e, rx_to_bytes h = Some e /\ bs = e ++ rest /\ len e = rx_header_len h
            /\ rx_from_slice e = Ok (h, []).
Proof. exact rx_enc_dec. Qed.
Print Assumptions C08_RawExt_enc_dec.

(* RFC 8200 generic extension header; hdr ext len = length in 8 octets - 1 *)
Theorem C08_RawExt_spec : forall h, wf_rx h = true ->
  rx_to_bytes h = Some (rawext_layout (rx_next_header h) (rx_pl h)).
Proof. exact rx_spec. Qed.
Print Assumptions C08_RawExt_spec.

Definition ex_max : Ipv6RawExtHeader :=
  {| rx_next_header := 255; rx_header_length := 255; rx_payload_buffer := repeat 255 2046 |}.
Definition ex_stale : Ipv6RawExtHeader :=
  {| rx_next_header := 43; rx_header_length := 0; rx_payload_buffer := [1; 2; 3; 4; 5; 6] ++ repeat 170 2040 |}.
Example C08_RawExt_ex_wf : wf_rx ex_max = true /\ wf_rx ex_stale = true.
Proof. split; vm_compute; reflexivity. Qed.
Example C08_RawExt_ex_bytes : rx_to_bytes ex_stale = Some [43; 0; 1; 2; 3; 4; 5; 6].
Proof. vm_compute. reflexivity. Qed.
Example C08_RawExt_ex_dec : exists h,
  rx_from_slice [43; 0; 1; 2; 3; 4; 5; 6; 9] = Ok (h, [9]) /\ rx_eqb h ex_stale = true.
Proof. eexists. split; vm_compute; reflexivity. Qed.
End RAWEXT.

(* ------------------------------------------------------------------ Ipv6Header *)
Module IPV6.
Import Roundtrip.Ipv6 Roundtrip.Ipv6Proofs.

(* write = write_all(to_bytes); 40 bytes *)
Theorem C08_Ipv6_ser_agree : forall h out, wf_ip6 h = true ->
  ip6_write out h = out ++ ip6_to_bytes h /\ len (ip6_to_bytes h) = ip6_header_len h.
Proof. exact ip6_ser_agree. Qed.
Print Assumptions C08_Ipv6_ser_agree.

Theorem C08_Ipv6_dec_enc : forall h rest, wf_ip6 h = true ->
  ip6_from_slice (ip6_to_bytes h ++ rest) = Ok (h, rest) /\ ip6_read (ip6_to_bytes h ++ rest) = Ok (h, rest).
Proof. exact ip6_dec_enc. Qed.
Print Assumptions C08_Ipv6_dec_enc.

(* no reserved bits (the version nibble is checked to be 6): exact reproduction *)
Theorem C08_Ipv6_enc_dec : forall bs h rest, bytes_ok bs -> ip6_from_slice bs = Ok (h, rest) ->
  wf_ip6 h = true /\ bs = ip6_to_bytes h ++ rest /\ len (ip6_to_bytes h) = 40
  /\ ip6_from_slice (ip6_to_bytes h) = Ok (h, []).
Proof. exact ip6_enc_dec. Qed.
Print Assumptions C08_Ipv6_enc_dec.

Theorem C08_Ipv6_spec : forall h, wf_ip6 h = true ->
  ip6_to_bytes h = ipv6_layout (i6_traffic_class h) (i6_flow_label h) (i6_payload_length h)
                     (i6_next_header h) (i6_hop_limit h) (i6_source h) (i6_destination h).
Proof. exact ip6_spec. Qed.
Print Assumptions C08_Ipv6_spec.

Definition ex_max : Ipv6Header :=
  {| i6_traffic_class := 255; i6_flow_label := 1048575; i6_payload_length := 65535; i6_next_header := 255;
     i6_hop_limit := 255; i6_source := repeat 255 16; i6_destination := repeat 255 16 |}.
Definition ex_mid : Ipv6Header :=
  {| i6_traffic_class := 165; i6_flow_label := 74565; i6_payload_length := 8; i6_next_header := 17;
     i6_hop_limit := 64; i6_source := repeat 1 16; i6_destination := repeat 2 16 |}.
Example C08_Ipv6_ex_wf : wf_ip6 ex_max = true /\ wf_ip6 ex_mid = true.
Proof. split; vm_compute; reflexivity. Qed.
Example C08_Ipv6_ex_bytes : ip6_to_bytes ex_mid = [106; 81; 35; 69; 0; 8; 17; 64] ++ repeat 1 16 ++ repeat 2 16.
Proof. vm_compute. reflexivity. Qed.
Example C08_Ipv6_ex_dec :
  ip6_from_slice ([106; 81; 35; 69; 0; 8; 17; 64] ++ repeat 1 16 ++ repeat 2 16 ++ [9]) = Ok (ex_mid, [9]).
Proof. vm_compute. reflexivity. Qed.
End IPV6.
