(* Roundtrip/Prefix.v -- model of etherparse icmpv6::PrefixInformation (NDP option 3,
   transport/icmpv6/ndp_option/prefix_information.rs): to_bytes ([u8; 32]), LEN,
   from_bytes([u8; 32]), from_slice (try_into [u8; 32], then from_bytes).  The type has no
   write / read / header_len.  split_first_chunk::<N>().unwrap() is partial (EPanic). *)
From EP Require Import Base.Bytes Roundtrip.Common.
Local Open Scope N_scope.

Record PrefixInformation := {
  pi_prefix_length : N; pi_on_link : bool; pi_autonomous : bool;
  pi_valid_lifetime : N; pi_preferred_lifetime : N; pi_prefix : bytes }.

Definition pi_len : N := 32.                         (* PrefixInformation::LEN *)

(* slice.split_first_chunk::<n>() *)
Definition pi_split (s : bytes) (n : N) : option (bytes * bytes) :=
  if n <=? len s then Some (take n s, drop n s) else None.

(* from_bytes(bytes: [u8; 32]) *)
Definition pi_from_bytes (b : bytes) : res PrefixInformation :=
  match pi_split b 2 with
  | None => Err EPanic
  | Some (type_and_len, rest) =>
    if negb (bytes_eqb type_and_len [3; 4]) then Err (EContent 1)        (* UnexpectedHeader *)
    else
    match pi_split rest 2 with
    | None => Err EPanic
    | Some (prefix_length_and_flags, rest) =>
    match pi_split rest 4 with
    | None => Err EPanic
    | Some (valid_lifetime, rest) =>
    match pi_split rest 4 with
    | None => Err EPanic
    | Some (preferred_lifetime, rest) =>
    match pi_split rest 4 with
    | None => Err EPanic
    | Some (_reserved2, prefix) =>
    match pi_split prefix 16 with                                         (* first_chunk::<16>() *)
    | None => Err EPanic
    | Some (prefix, _) =>
      match prefix_length_and_flags, valid_lifetime, preferred_lifetime with
      | [pl; fl], [v0; v1; v2; v3], [p0; p1; p2; p3] =>
        Ok {| pi_prefix_length := pl;
              pi_on_link := nz (band fl 128);
              pi_autonomous := nz (band fl 64);
              pi_valid_lifetime := be32 v0 v1 v2 v3;
              pi_preferred_lifetime := be32 p0 p1 p2 p3;
              pi_prefix := prefix |}
      | _, _, _ => Err EPanic
      end
    end end end end end
  end.

(* from_slice: bytes.try_into::<&[u8; 32]>() (exact length), then from_bytes *)
Definition pi_from_slice (s : bytes) : res PrefixInformation :=
  if len s =? 32 then pi_from_bytes s else Err ELen.

(* to_bytes: a zeroed [u8; 32] filled chunk by chunk; `*prefix = self.prefix` needs a [u8; 16] *)
Definition pi_to_bytes (h : PrefixInformation) : option bytes :=
  if len (pi_prefix h) =? 16 then
    Some ([3; 4]
          ++ [pi_prefix_length h;
              bor (if pi_on_link h then 128 else 0) (if pi_autonomous h then 64 else 0)]
          ++ u32_to_be (pi_valid_lifetime h) ++ u32_to_be (pi_preferred_lifetime h)
          ++ [0; 0; 0; 0] ++ pi_prefix h)
  else None.

Definition wf_pi (h : PrefixInformation) : bool :=
  (pi_prefix_length h <? 256) && (pi_valid_lifetime h <? 4294967296)
  && (pi_preferred_lifetime h <? 4294967296) && (len (pi_prefix h) =? 16) && bytes_okb (pi_prefix h).

(* kept: L and A of byte 3; the 6 bits of reserved1 and the 4 bytes of reserved2 are written as 0 *)
Definition pi_keep_mask : bytes :=
  [255; 255; 255; 192] ++ ones 8 ++ [0; 0; 0; 0] ++ ones 16.

(* RFC 4861 section 4.6.2 layout *)
Definition pi_layout (plen : N) (l a : bool) (valid pref : N) (prefix : bytes) : bytes :=
  [3; 4; plen; (if l then 128 else 0) + (if a then 64 else 0)]
  ++ [valid / 16777216; (valid / 65536) mod 256; (valid / 256) mod 256; valid mod 256]
  ++ [pref / 16777216; (pref / 65536) mod 256; (pref / 256) mod 256; pref mod 256]
  ++ [0; 0; 0; 0] ++ prefix.
