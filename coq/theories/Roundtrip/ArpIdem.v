(* Roundtrip/ArpIdem.v -- round 3 (c08id), audit top-12 item 12 (c):
   explicit idempotence for ArpEthIpv4Packet (clause D of C08: decode(encode(decode bs)) = decode bs), which
   so far followed only by composing C08_ArpEthIpv4_enc_dec with C08_ArpEthIpv4_dec_enc, and the rejection
   classes of ArpPacket::try_eth_ipv4.  Only compositions of the existing models (Roundtrip/Arp.v). *)
From EP Require Import Base.Bytes Roundtrip.Common Roundtrip.CommonProofs Roundtrip.LinkNetLemmas Roundtrip.Arp
  Roundtrip.ArpProofs.
From Coq Require Import ZArith Lia ZifyN.
Local Open Scope N_scope.

(* every accepted byte string that converts to the Ethernet/IPv4 view: the view is well-formed, its 28
   bytes ARE the first 28 bytes of the input, and decoding them again -- whatever follows, by from_slice
   or by read -- returns THE SAME ArpPacket p (not just some packet), which converts to the same view *)
Theorem ae_idempotent bs p v : bytes_ok bs -> arp_from_slice bs = Ok p -> arp_try_eth_ipv4 p = Ok v ->
  wf_ae v = true /\ len (ae_to_bytes v) = 28 /\ bs = ae_to_bytes v ++ drop 28 bs
  /\ ae_to_arp_packet v = Some p
  /\ forall rest, arp_from_slice (ae_to_bytes v ++ rest) = Ok p
                  /\ arp_read (ae_to_bytes v ++ rest) = Ok (p, rest)
                  /\ drop 28 (ae_to_bytes v ++ rest) = rest.
Proof.
  intros OK H T.
  destruct (ae_enc_dec bs p v OK H T) as (W & L28 & TB).
  destruct (arp_enc_dec bs p OK H) as (WP & NM & PL & e & E1 & E2 & _).
  destruct (ae_ser_agree v W) as (p' & P1 & WP' & P2 & L & P3).
  (* the packet rebuilt from the view is p: both are normal and have the same bytes *)
  assert (PL28 : arp_packet_len p = 28).
  { unfold arp_try_eth_ipv4 in T.
    destruct (arp_hw_addr_type p =? 1); [|discriminate]. destruct (arp_proto_addr_type p =? 2048); [|discriminate].
    destruct (arp_hw_addr_size p =? 6) eqn:H6; [|discriminate].
    destruct (arp_proto_addr_size p =? 4) eqn:H4; [|discriminate].
    apply N.eqb_eq in H6, H4. unfold arp_packet_len. rewrite H6, H4. reflexivity. }
  assert (EB : e = ae_to_bytes v) by (rewrite TB, E2, PL28; reflexivity).
  try subst e.
  assert (DEC : forall rest, arp_from_slice (ae_to_bytes v ++ rest) = Ok p
                             /\ arp_read (ae_to_bytes v ++ rest) = Ok (p, rest)).
  { intros rest. destruct (arp_dec_enc p rest WP) as (e' & F1 & _ & F3 & _ & F5 & _).
    rewrite E1 in F1. apply Some_inj in F1. subst e'. rewrite NM in F3, F5. rewrite EB in F3, F5. split; assumption. }
  split; [exact W|]. split; [exact L|]. split.
  { rewrite TB. symmetry. apply take_drop. }
  split.
  { (* p' = p: decode the same 28 bytes through p' *)
    destruct (arp_dec_enc p' [] WP') as (e' & F1 & _ & F3 & _).
    rewrite P2 in F1. apply Some_inj in F1. subst e'.
    rewrite (proj1 (DEC [])) in F3. apply Ok_inj in F3.
    (* arp_norm p' = p' : new_unchecked stores exactly len-many bytes *)
    rewrite P1. f_equal. rewrite F3. clear - P1 W.
    destruct (ae_wf_facts v W) as (_ & L1 & _ & L2 & _ & L3 & _ & L4 & _).
    unfold ae_to_arp_packet, arp_new_unchecked in P1. rewrite L1, L2, L3, L4 in P1.
    change ((255 <? 6) || (255 <? 4) || (255 <? 6) || (255 <? 4)) with false in P1. cbv iota in P1.
    apply Some_inj in P1. subst p'. unfold arp_norm.
    cbn [arp_hw_addr_type arp_proto_addr_type arp_hw_addr_size arp_proto_addr_size arp_operation
         arp_sender_hw_addr_buf arp_sender_protocol_addr_buf arp_target_hw_addr_buf arp_target_protocol_addr_buf].
    change (as_u8 6) with 6. change (as_u8 4) with 4.
    rewrite !take_all by lia. reflexivity. }
  intros rest. destruct (DEC rest) as [D1 D2]. split; [exact D1|]. split; [exact D2|].
  apply drop_app_len. symmetry. exact L.
Qed.

(* the rejection classes of try_eth_ipv4, for every well-formed ArpPacket (so for every decoded one):
   it converts exactly when hardware type = 1 (Ethernet), protocol type = 0x0800, sizes 6 and 4; otherwise
   the error names the FIRST field that differs, in this order; no undefined read (EOOB) *)
Theorem ae_try_classes p : wf_arp p = true ->
  match arp_try_eth_ipv4 p with
  | Ok v => arp_hw_addr_type p = 1 /\ arp_proto_addr_type p = 2048 /\ arp_hw_addr_size p = 6
            /\ arp_proto_addr_size p = 4 /\ wf_ae v = true /\ ae_operation v = arp_operation p
  | Err (EContent 0) => arp_hw_addr_type p <> 1
  | Err (EContent 1) => arp_hw_addr_type p = 1 /\ arp_proto_addr_type p <> 2048
  | Err (EContent 2) => arp_hw_addr_type p = 1 /\ arp_proto_addr_type p = 2048 /\ arp_hw_addr_size p <> 6
  | Err (EContent 3) => arp_hw_addr_type p = 1 /\ arp_proto_addr_type p = 2048 /\ arp_hw_addr_size p = 6
                        /\ arp_proto_addr_size p <> 4
  | Err _ => False
  end.
Proof.
  intros WP. destruct (arp_wf_facts p WP) as (R1 & R2 & R3 & H1 & H2 & W1 & W2 & W3 & W4).
  unfold arp_try_eth_ipv4, arp_assume_init.
  destruct (arp_hw_addr_type p =? 1) eqn:T1; cbn [negb]; [apply N.eqb_eq in T1|apply N.eqb_neq in T1; exact T1].
  destruct (arp_proto_addr_type p =? 2048) eqn:T2; cbn [negb]; [apply N.eqb_eq in T2|apply N.eqb_neq in T2; auto].
  destruct (arp_hw_addr_size p =? 6) eqn:H6; cbn [negb]; [apply N.eqb_eq in H6|apply N.eqb_neq in H6; auto].
  destruct (arp_proto_addr_size p =? 4) eqn:H4; cbn [negb]; [apply N.eqb_eq in H4|apply N.eqb_neq in H4; auto].
  rewrite H6 in W1, W3. rewrite H4 in W2, W4.
  destruct (arp_buf_slice_wf _ _ W1) as (_ & L1 & K1). destruct (arp_buf_slice_wf _ _ W2) as (_ & L2 & K2).
  destruct (arp_buf_slice_wf _ _ W3) as (_ & L3 & K3). destruct (arp_buf_slice_wf _ _ W4) as (_ & L4 & K4).
  destruct (arp_wf_buf_facts _ _ W1) as (G1 & _). destruct (arp_wf_buf_facts _ _ W2) as (G2 & _).
  destruct (arp_wf_buf_facts _ _ W3) as (G3 & _). destruct (arp_wf_buf_facts _ _ W4) as (G4 & _).
  rewrite (leb_true _ _ G1), (leb_true _ _ G2), (leb_true _ _ G3), (leb_true _ _ G4).
  repeat split; try assumption.
  unfold wf_ae. cbn [ae_operation ae_sender_mac ae_sender_ipv4 ae_target_mac ae_target_ipv4].
  rewrite L1, L2, L3, L4. apply N.ltb_lt in R3. rewrite R3.
  apply bytes_okb_spec in K1, K2, K3, K4. rewrite K1, K2, K3, K4. reflexivity.
Qed.
