(* Roundtrip/Frag.v -- model of etherparse Ipv6FragmentHeader / Ipv6FragmentHeaderSlice:
   to_bytes, write (= write_all(to_bytes)), header_len, from_slice, read. *)
From EP Require Import Base.Bytes Roundtrip.Common.
Local Open Scope N_scope.

Record Ipv6FragmentHeader := {
  fr_next_header : N; fr_fragment_offset : N; fr_more_fragments : bool; fr_identification : N }.

Definition frag_header_len (h : Ipv6FragmentHeader) : N := 8.

(* ((fragment_offset.value() << 3) | if more_fragments {1} else {0}).to_be_bytes()   (u16) *)
Definition frag_word (fo : N) (mf : bool) : N := bor (shl16 fo 3) (if mf then 1 else 0).

Definition frag_to_bytes (h : Ipv6FragmentHeader) : bytes :=
  [fr_next_header h; 0] ++ u16_to_be (frag_word (fr_fragment_offset h) (fr_more_fragments h))
  ++ u32_to_be (fr_identification h).

Definition frag_write (out : bytes) (h : Ipv6FragmentHeader) : bytes := out ++ frag_to_bytes h.

(* Ipv6FragmentHeaderSlice::from_slice *)
Definition frag_slice_from_slice (s : bytes) : res bytes :=
  if len s <? 8 then Err ELen else Ok (take 8 s).

(* Ipv6FragmentHeaderSlice::to_header: unchecked reads at 0, 2, 3, 4..7 *)
Definition frag_to_header (s : bytes) : res Ipv6FragmentHeader :=
  match s with
  | b0 :: b1 :: b2 :: b3 :: b4 :: b5 :: b6 :: b7 :: _ =>
    Ok {| fr_next_header := b0; fr_fragment_offset := shr (be16 b2 b3) 3;
          fr_more_fragments := nz (band b3 1); fr_identification := be32 b4 b5 b6 b7 |}
  | _ => Err EOOB
  end.

Definition frag_from_slice (s : bytes) : res (Ipv6FragmentHeader * bytes) :=
  match frag_slice_from_slice s with
  | Err e => Err e
  | Ok hs =>
    match slice_from s 8 with
    | None => Err EPanic
    | Some rest => match frag_to_header hs with
                   | Err e => Err e
                   | Ok h => Ok (h, rest)
                   end
    end
  end.

(* read: read_exact 8 bytes, from_slice_unchecked(&buffer).to_header() *)
Definition frag_read (r : bytes) : res (Ipv6FragmentHeader * bytes) :=
  match read_exact r 8 with
  | Err e => Err e
  | Ok (buf, r1) => match frag_to_header buf with
                    | Err e => Err e
                    | Ok h => Ok (h, r1)
                    end
  end.

Definition wf_frag (h : Ipv6FragmentHeader) : bool :=
  (fr_next_header h <? 256) && (fr_fragment_offset h <? 8192) && (fr_identification h <? 4294967296).

(* reserved: byte 1 and bits 1-2 of byte 3 *)
Definition frag_keep_mask : bytes := [255; 0; 255; 249; 255; 255; 255; 255].
