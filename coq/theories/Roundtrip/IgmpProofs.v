(* Roundtrip/IgmpProofs.v -- C08 for IgmpHeader / IgmpType.
   The type dispatch of the decoder is taken from the C17 lemma CtlMsg.Proofs.igmp_cases. *)
From EP Require Import Base.Bytes.
From EP Require Import CtlMsg.Spec CtlMsg.Model CtlMsg.Proofs.
From EP Require Import Roundtrip.Common Roundtrip.CommonProofs Roundtrip.Igmp.
From Coq Require Import ZArith Lia ZifyN.
Local Open Scope N_scope.

Definition igmp_of_bytes (t m g0 g1 g2 g3 : N) : IgmpType :=
  match lookup1 t igmp_table with
  | Some f => f [t; m; 0; 0; g0; g1; g2; g3]
  | None => IgUnknown t m g0 g1 g2 g3
  end.

Ltac table_cases :=
  repeat match goal with
         | |- context [if ?b then _ else _] => destruct b; [reflexivity|]
         end.

Lemma spec_igmp_of_bytes t m c0 c1 g0 g1 g2 g3 rest :
  spec_igmp_type t m g0 g1 g2 g3 (t :: m :: c0 :: c1 :: g0 :: g1 :: g2 :: g3 :: rest) = igmp_of_bytes t m g0 g1 g2 g3.
Proof. unfold spec_igmp_type, igmp_of_bytes, igmp_table. cbn [lookup1]. table_cases. reflexivity. Qed.

Lemma igmp_of_bytes_hl t m g0 g1 g2 g3 : Igmp.header_len (igmp_of_bytes t m g0 g1 g2 g3) = 8.
Proof. unfold igmp_of_bytes, igmp_table. cbn [lookup1]. table_cases. reflexivity. Qed.

Lemma len8 {A} (a b c d e f g h : A) r : len (a :: b :: c :: d :: e :: f :: g :: h :: r) = 8 + len r.
Proof. rewrite !len_cons. lia. Qed.

Lemma igmp_fs_other t m c0 c1 g0 g1 g2 g3 rest : (t =? 17) = false ->
  igmp_from_slice (t :: m :: c0 :: c1 :: g0 :: g1 :: g2 :: g3 :: rest) =
  Ok ({| igmp_type := igmp_of_bytes t m g0 g1 g2 g3; igmp_checksum := be16 c0 c1 |}, rest).
Proof.
  intros T. unfold igmp_from_slice. rewrite igmp_cases. cbv zeta. rewrite len8, T.
  replace (8 + len rest <? 8) with false by (symmetry; apply N.ltb_ge; lia).
  rewrite rest_after_spec by (rewrite len8; lia). rewrite spec_igmp_of_bytes. reflexivity.
Qed.

Lemma igmp_fs_q8 m c0 c1 g0 g1 g2 g3 :
  igmp_from_slice [17; m; c0; c1; g0; g1; g2; g3] =
  Ok ({| igmp_type := IgMembershipQuery m g0 g1 g2 g3; igmp_checksum := be16 c0 c1 |}, []).
Proof. reflexivity. Qed.

Lemma igmp_fs_q12 m c0 c1 g0 g1 g2 g3 r8 q n0 n1 rest :
  igmp_from_slice (17 :: m :: c0 :: c1 :: g0 :: g1 :: g2 :: g3 :: r8 :: q :: n0 :: n1 :: rest) =
  Ok ({| igmp_type := IgMembershipQueryWithSources m g0 g1 g2 g3 r8 q (be16 n0 n1);
         igmp_checksum := be16 c0 c1 |}, rest).
Proof.
  unfold igmp_from_slice. rewrite igmp_cases. cbv zeta.
  set (s := 17 :: m :: c0 :: c1 :: g0 :: g1 :: g2 :: g3 :: r8 :: q :: n0 :: n1 :: rest).
  assert (L : len s = 12 + len rest) by (unfold s; rewrite !len_cons; lia).
  rewrite L. change (17 =? 17) with true.
  replace (12 + len rest <? 8) with false by (symmetry; apply N.ltb_ge; lia).
  replace (8 =? 12 + len rest) with false by (symmetry; apply N.eqb_neq; lia).
  replace (12 <=? 12 + len rest) with true by (symmetry; apply N.leb_le; lia).
  rewrite rest_after_spec by lia. reflexivity.
Qed.

(* trailing bytes after an 8-byte query: 1-3 are rejected *)
Lemma igmp_fs_q_short m c0 c1 g0 g1 g2 g3 rest : 0 < len rest < 4 ->
  igmp_from_slice (17 :: m :: c0 :: c1 :: g0 :: g1 :: g2 :: g3 :: rest) = Err ELen.
Proof.
  intros R. unfold igmp_from_slice. rewrite igmp_cases. cbv zeta. rewrite len8. change (17 =? 17) with true.
  replace (8 + len rest <? 8) with false by (symmetry; apply N.ltb_ge; lia).
  replace (8 =? 8 + len rest) with false by (symmetry; apply N.eqb_neq; lia).
  replace (12 <=? 8 + len rest) with false by (symmetry; apply N.leb_gt; lia).
  reflexivity.
Qed.

Lemma arm8_eq ck b0 b1 b4 b5 b6 b7 :
  igmp_arm8 (u16_to_be ck) b0 b1 b4 b5 b6 b7 = Some [b0; b1; (ck / 256) mod 256; ck mod 256; b4; b5; b6; b7].
Proof. reflexivity. Qed.

Theorem igmp_ser_agree h :
  exists e, igmp_to_bytes h = Some e /\ len e = igmp_header_len h.
Proof.
  destruct h as [ty ck]. unfold igmp_to_bytes, igmp_header_len. cbn [igmp_type igmp_checksum].
  destruct ty; cbn [Igmp.header_len]; unfold u16_to_be at 1; cbv iota beta; rewrite ?arm8_eq;
    unfold u16_to_be; eexists; split; reflexivity.
Qed.

Lemma mod256_lt x : x mod 256 < 256.
Proof. apply N.mod_lt. lia. Qed.

Ltac of_bytes_redg :=
  lazy [igmp_of_bytes igmp_table lookup1 N.eqb Pos.eqb u16_at byte_at nth
        N.to_nat Pos.to_nat Pos.iter_op Nat.add Init.Nat.add N.add Pos.add Pos.succ].

Ltac ok_bytes := repeat (apply bytes_ok_explicit_cons; [first [assumption | apply mod256_lt | lia]|]); constructor.

(* every well-formed value; the 8-byte query only with the empty remainder
   (see igmp_query_trailing) *)
Theorem igmp_dec_enc h : wf_igmp h = true ->
  exists e, igmp_to_bytes h = Some e /\ len e = igmp_header_len h /\ bytes_ok e /\
    (forall rest, igmp_is_query8 (igmp_type h) = false \/ rest = [] -> igmp_from_slice (e ++ rest) = Ok (h, rest)).
Proof.
  destruct h as [ty ck]. unfold wf_igmp. cbn [igmp_type igmp_checksum]. intros W.
  apply andb_true_iff in W. destruct W as [WT WC]. apply N.ltb_lt in WC.
  unfold igmp_to_bytes, igmp_header_len. cbn [igmp_type igmp_checksum].
  destruct ty as [m g0 g1 g2 g3 | m g0 g1 g2 g3 r8 q n | g0 g1 g2 g3 | g0 g1 g2 g3 | f0 f1 n | g0 g1 g2 g3
                 | t r1 b4 b5 b6 b7]; cbn [wf_igmp_type] in WT; bsplit WT; cbn [Igmp.header_len igmp_is_query8].
  - rewrite arm8_eq. eexists. split; [reflexivity|]. split; [reflexivity|]. split; [ok_bytes|].
    intros rest [X | ->]; [discriminate|]. cbn [app]. rewrite igmp_fs_q8, u16_be_roundtrip by assumption. reflexivity.
  - unfold u16_to_be. eexists. split; [reflexivity|]. split; [reflexivity|]. split; [ok_bytes|].
    intros rest _. cbn [app]. rewrite igmp_fs_q12, !u16_be_roundtrip by assumption. reflexivity.
  - rewrite arm8_eq. eexists. split; [reflexivity|]. split; [reflexivity|]. split; [ok_bytes|].
    intros rest _. cbn [app]. rewrite igmp_fs_other by reflexivity. of_bytes_redg.
    rewrite u16_be_roundtrip by assumption. reflexivity.
  - rewrite arm8_eq. eexists. split; [reflexivity|]. split; [reflexivity|]. split; [ok_bytes|].
    intros rest _. cbn [app]. rewrite igmp_fs_other by reflexivity. of_bytes_redg.
    rewrite u16_be_roundtrip by assumption. reflexivity.
  - change (u16_to_be n) with [(n / 256) mod 256; n mod 256]. cbv iota beta. rewrite arm8_eq.
    eexists. split; [reflexivity|]. split; [reflexivity|]. split; [ok_bytes|].
    intros rest _. cbn [app]. rewrite igmp_fs_other by reflexivity. of_bytes_redg.
    rewrite !u16_be_roundtrip by assumption. reflexivity.
  - rewrite arm8_eq. eexists. split; [reflexivity|]. split; [reflexivity|]. split; [ok_bytes|].
    intros rest _. cbn [app]. rewrite igmp_fs_other by reflexivity. of_bytes_redg.
    rewrite u16_be_roundtrip by assumption. reflexivity.
  - rewrite arm8_eq.
    match goal with H : negb (igmp_typed t) = true |- _ => rename H into WN end.
    unfold igmp_typed in WN. apply negb_true_iff in WN. apply orb_false_iff in WN. destruct WN as [T17 LT].
    destruct (lookup1 t igmp_table) eqn:L1; [discriminate|].
    eexists. split; [reflexivity|]. split; [reflexivity|]. split; [ok_bytes|].
    intros rest _. cbn [app]. rewrite igmp_fs_other by exact T17. unfold igmp_of_bytes. rewrite L1.
    rewrite u16_be_roundtrip by assumption. reflexivity.
Qed.

(* ---------------- decode -> encode ---------------- *)
Lemma be16_hi a b : a < 256 -> b < 256 -> (be16 a b / 256) mod 256 = a.
Proof. intros Ha Hb. pose proof (u16_to_be_be16 a b Ha Hb) as E. unfold u16_to_be in E. congruence. Qed.
Lemma be16_lo a b : a < 256 -> b < 256 -> be16 a b mod 256 = b.
Proof. intros Ha Hb. pose proof (u16_to_be_be16 a b Ha Hb) as E. unfold u16_to_be in E. congruence. Qed.

Definition raw_mask_ok (t : N) : bool :=
  (t =? 17) || match lookup1 t igmp_table with
               | Some _ => true
               | None => bytes_eqb (igmp_keep_mask t 8) (ones 8)
               end.
Lemma sweep_raw_mask : all_below 256 raw_mask_ok = true.
Proof. vm_compute. reflexivity. Qed.
Lemma raw_mask t : t < 256 -> lookup1 t igmp_table = None -> igmp_keep_mask t 8 = ones 8.
Proof.
  intros Ht LT. pose proof (all_byte _ sweep_raw_mask t Ht) as S. unfold raw_mask_ok in S.
  rewrite LT in S. destruct (t =? 17) eqn:E.
  - apply N.eqb_eq in E. subst t. reflexivity.
  - apply bytes_eqb_eq. exact S.
Qed.

Ltac split_table LT :=
  match type of LT with
  | (if ?b then _ else _) = _ => let E := fresh "E" in destruct b eqn:E; [ | clear E; split_table LT]
  | None = Some _ => discriminate LT
  end.

Lemma enc_dec_other t m c0 c1 g0 g1 g2 g3 :
  t < 256 -> m < 256 -> c0 < 256 -> c1 < 256 -> g0 < 256 -> g1 < 256 -> g2 < 256 -> g3 < 256 ->
  (t =? 17) = false ->
  let h := {| igmp_type := igmp_of_bytes t m g0 g1 g2 g3; igmp_checksum := be16 c0 c1 |} in
  wf_igmp h = true /\
  igmp_to_bytes h = Some (masked (igmp_keep_mask t 8) [t; m; c0; c1; g0; g1; g2; g3]).
Proof.
  intros Ht Hm H0 H1 H4 H5 H6 H7 T17 h. subst h.
  pose proof (be16_bound c0 c1 H0 H1) as CK. apply N.ltb_lt in CK.
  unfold wf_igmp, igmp_to_bytes. cbn [igmp_type igmp_checksum]. rewrite CK, andb_true_r.
  destruct (lookup1 t igmp_table) as [f|] eqn:LT.
  - unfold igmp_table in LT. cbn [lookup1] in LT. split_table LT.
    all: match goal with E : (_ =? ?t') = true |- _ => apply N.eqb_eq in E; subst t' end.
    all: clear LT Ht T17.
    all: of_bytes_redg; cbn [wf_igmp_type].
    all: match goal with
         | |- context [igmp_keep_mask ?t ?n] =>
           let k := eval vm_compute in (igmp_keep_mask t n) in change (igmp_keep_mask t n) with k
         end; cbn [masked].
    all: rewrite ?(u16_to_be_be16 g2 g3 H6 H7); cbv iota beta.
    all: rewrite arm8_eq.
    all: rewrite ?be16_hi, ?be16_lo, ?land_255, ?N.land_0_r by (first [assumption | lia]).
    all: split; [|reflexivity].
    all: pose proof (be16_bound g2 g3 H6 H7) as X1; apply N.ltb_lt in X1, H4, H5, H6, H7;
         rewrite ?X1, ?H4, ?H5, ?H6, ?H7; reflexivity.
  - unfold igmp_of_bytes. rewrite LT. cbn [wf_igmp_type]. unfold igmp_typed. rewrite LT, T17.
    rewrite arm8_eq, (raw_mask t Ht LT).
    change (ones 8) with [255; 255; 255; 255; 255; 255; 255; 255]. cbn [masked].
    rewrite ?be16_hi, ?be16_lo, ?land_255 by assumption.
    apply N.ltb_lt in Ht, Hm, H4, H5, H6, H7. rewrite Ht, Hm, H4, H5, H6, H7. split; reflexivity.
Qed.

Lemma agree_ones_refl a : bytes_ok a -> agree (ones (len a)) a a.
Proof.
  intros H. apply agree_of_masked; [apply len_ones|]. symmetry. apply masked_ones. exact H.
Qed.

(* every accepted byte string *)
Theorem igmp_enc_dec bs h rest : bytes_ok bs -> igmp_from_slice bs = Ok (h, rest) ->
  wf_igmp h = true /\ bs = take (igmp_header_len h) bs ++ rest /\
  exists e t, igmp_to_bytes h = Some e /\ rd bs 0 = Some t /\
    agree (igmp_keep_mask t (igmp_header_len h)) e (take (igmp_header_len h) bs) /\
    igmp_from_slice e = Ok (h, []).
Proof.
  intros OK H.
  destruct (len bs <? 8) eqn:E8.
  { unfold igmp_from_slice, Igmp.from_slice, Igmp.MIN_LEN in H. rewrite E8 in H. discriminate. }
  destruct (len_ge_cons8 bs E8) as (t & m & c0 & c1 & g0 & g1 & g2 & g3 & r & ->).
  pose proof OK as OK'. bytes_ok_split OK'.
  destruct (t =? 17) eqn:T17.
  - apply N.eqb_eq in T17. subst t.
    destruct r as [|r8 r].
    { (* exactly 8 bytes: IGMPv1/v2 query *)
      rewrite igmp_fs_q8 in H. apply Ok_inj in H. apply pair_equal_spec in H. destruct H as [<- <-].
      unfold igmp_header_len. cbn [igmp_type Igmp.header_len].
      change (take 8 [17; m; c0; c1; g0; g1; g2; g3]) with [17; m; c0; c1; g0; g1; g2; g3].
      assert (WF : wf_igmp {| igmp_type := IgMembershipQuery m g0 g1 g2 g3; igmp_checksum := be16 c0 c1 |} = true).
      { unfold wf_igmp. cbn [igmp_type igmp_checksum wf_igmp_type].
        pose proof (be16_bound c0 c1 B1 B2) as X. apply N.ltb_lt in X, B0, B3, B4, B5, B6.
        rewrite X, B0, B3, B4, B5, B6. reflexivity. }
      split; [exact WF|]. split; [reflexivity|].
      exists [17; m; c0; c1; g0; g1; g2; g3], 17.
      split. { unfold igmp_to_bytes. cbn [igmp_type igmp_checksum]. rewrite arm8_eq, be16_hi, be16_lo by assumption. reflexivity. }
      split; [reflexivity|]. split; [|apply igmp_fs_q8].
      change (igmp_keep_mask 17 8) with (ones (len [17; m; c0; c1; g0; g1; g2; g3])).
      apply agree_ones_refl. exact OK. }
    destruct r as [|q r]; [exfalso; match type of H with igmp_from_slice (_ :: _ :: _ :: _ :: _ :: _ :: _ :: _ :: ?rr) = _ => assert (R : 0 < len rr < 4) by (unfold len; cbn [length]; lia); rewrite (igmp_fs_q_short _ _ _ _ _ _ _ rr R) in H end; discriminate|].
    destruct r as [|n0 r]; [exfalso; match type of H with igmp_from_slice (_ :: _ :: _ :: _ :: _ :: _ :: _ :: _ :: ?rr) = _ => assert (R : 0 < len rr < 4) by (unfold len; cbn [length]; lia); rewrite (igmp_fs_q_short _ _ _ _ _ _ _ rr R) in H end; discriminate|].
    destruct r as [|n1 r]; [exfalso; match type of H with igmp_from_slice (_ :: _ :: _ :: _ :: _ :: _ :: _ :: _ :: ?rr) = _ => assert (R : 0 < len rr < 4) by (unfold len; cbn [length]; lia); rewrite (igmp_fs_q_short _ _ _ _ _ _ _ rr R) in H end; discriminate|].
    (* at least 12 bytes: IGMPv3 query *)
    rewrite igmp_fs_q12 in H. apply Ok_inj in H. apply pair_equal_spec in H. destruct H as [<- <-].
    bytes_ok_split OK'.
    unfold igmp_header_len. cbn [igmp_type Igmp.header_len].
    change (take 12 (17 :: m :: c0 :: c1 :: g0 :: g1 :: g2 :: g3 :: r8 :: q :: n0 :: n1 :: r))
      with [17; m; c0; c1; g0; g1; g2; g3; r8; q; n0; n1].
    assert (WF : wf_igmp {| igmp_type := IgMembershipQueryWithSources m g0 g1 g2 g3 r8 q (be16 n0 n1);
                            igmp_checksum := be16 c0 c1 |} = true).
    { unfold wf_igmp. cbn [igmp_type igmp_checksum wf_igmp_type].
      pose proof (be16_bound c0 c1 B1 B2) as X. pose proof (be16_bound n0 n1 B9 B10) as Y.
      apply N.ltb_lt in X, Y, B0, B3, B4, B5, B6, B7, B8.
      rewrite X, Y, B0, B3, B4, B5, B6, B7, B8. reflexivity. }
    split; [exact WF|]. split; [reflexivity|].
    exists [17; m; c0; c1; g0; g1; g2; g3; r8; q; n0; n1], 17.
    split. { unfold igmp_to_bytes. cbn [igmp_type igmp_checksum]. rewrite !u16_to_be_be16 by assumption. reflexivity. }
    split; [reflexivity|]. split; [|apply (igmp_fs_q12 m c0 c1 g0 g1 g2 g3 r8 q n0 n1 [])].
    change (igmp_keep_mask 17 12) with (ones (len [17; m; c0; c1; g0; g1; g2; g3; r8; q; n0; n1])).
    apply agree_ones_refl. repeat (apply bytes_ok_explicit_cons; [first [assumption | lia]|]). constructor.
  - rewrite igmp_fs_other in H by exact T17.
    apply Ok_inj in H. apply pair_equal_spec in H. destruct H as [<- <-].
    unfold igmp_header_len. cbn [igmp_type]. rewrite igmp_of_bytes_hl.
    change (take 8 (t :: m :: c0 :: c1 :: g0 :: g1 :: g2 :: g3 :: r)) with [t; m; c0; c1; g0; g1; g2; g3].
    destruct (enc_dec_other t m c0 c1 g0 g1 g2 g3 B B0 B1 B2 B3 B4 B5 B6 T17) as [WF TB]. cbv zeta in WF, TB.
    split; [exact WF|]. split; [reflexivity|].
    eexists. exists t. split; [exact TB|]. split; [reflexivity|].
    split.
    { apply agree_of_masked; [|reflexivity]. unfold igmp_keep_mask.
      destruct ((t =? 18) || (t =? 22) || (t =? 23) || (t =? 34)); reflexivity. }
    destruct (igmp_dec_enc _ WF) as (e & TB' & _ & _ & F).
    rewrite TB in TB'. apply Some_inj in TB'. rewrite TB'.
    assert (Q : igmp_is_query8 (igmp_of_bytes t m g0 g1 g2 g3) = false).
    { unfold igmp_of_bytes, igmp_table. cbn [lookup1]. table_cases. reflexivity. }
    specialize (F [] (or_introl Q)). rewrite app_nil_r in F. exact F.
Qed.

(* the 8-byte query followed by >= 4 more bytes decodes to a DIFFERENT value (IGMPv3
   query with sources): the reason for `rest = []` in igmp_dec_enc *)
Example igmp_query_trailing :
  let h := {| igmp_type := IgMembershipQuery 100 224 0 0 1; igmp_checksum := 7 |} in
  exists e, igmp_to_bytes h = Some e /\
    igmp_from_slice (e ++ [1; 2; 0; 3]) =
      Ok ({| igmp_type := IgMembershipQueryWithSources 100 224 0 0 1 1 2 3; igmp_checksum := 7 |}, [])
    /\ igmp_from_slice (e ++ [1]) = Err ELen.
Proof. eexists. split; [reflexivity|]. split; reflexivity. Qed.

(* the encoder against the RFC 2236 / 3376 table of CtlMsg/Spec.v *)
Lemma igmp_from_slice_spec bs h rest : igmp_from_slice bs = Ok (h, rest) ->
  igmp bs = CtlMsg.Spec.Ok (igmp_type h, igmp_checksum h, igmp_header_len h, rest).
Proof.
  intros H. rewrite <- igmp_eq. unfold igmp_from_slice in H. unfold Igmp.view.
  destruct (Igmp.from_slice bs) as [[[ty ck] r]| |]; try discriminate.
  apply Ok_inj in H. apply pair_equal_spec in H. destruct H as [<- <-]. reflexivity.
Qed.

Theorem igmp_spec h : wf_igmp h = true ->
  exists e, igmp_to_bytes h = Some e /\
    igmp e = CtlMsg.Spec.Ok (igmp_type h, igmp_checksum h, igmp_header_len h, []).
Proof.
  intros W. destruct (igmp_dec_enc h W) as (e & TB & L & _ & F).
  exists e. split; [exact TB|].
  specialize (F [] (or_intror eq_refl)). rewrite app_nil_r in F.
  apply igmp_from_slice_spec. exact F.
Qed.
