(* Roundtrip/Macsec.v -- model of etherparse MacsecHeader / MacsecHeaderSlice
   (link/macsec_header.rs, link/macsec_header_slice.rs): to_bytes, write
   (= write_all(to_bytes)), header_len, from_slice (MacsecHeaderSlice::from_slice
   + to_header), read.  MacsecHeader has no write_to_slice.
   Names are prefixed (mac_...) because extraction flattens modules. *)
From EP Require Import Base.Bytes Roundtrip.Common.
Local Open Scope N_scope.

Inductive MacsecPType :=
| MacUnmodified (ether_type : N)      (* !tci.c && !tci.e, carries the next ether type *)
| MacModified
| MacEncrypted
| MacEncryptedUnmodified.

Record MacsecHeader := {
  mac_ptype : MacsecPType;
  mac_endstation_id : bool;
  mac_scb : bool;
  mac_an : N;               (* MacsecAn(u8), 2 bits *)
  mac_short_len : N;        (* MacsecShortLen(u8), 6 bits *)
  mac_packet_nr : N;        (* u32 *)
  mac_sci : option N }.     (* Option<u64> *)

Definition mac_encrypted (p : MacsecPType) : bool :=
  match p with MacEncrypted | MacEncryptedUnmodified => true | _ => false end.
Definition mac_userdata_changed (p : MacsecPType) : bool :=
  match p with MacEncrypted | MacModified => true | _ => false end.
Definition mac_is_unmod (p : MacsecPType) : bool :=
  match p with MacUnmodified _ => true | _ => false end.
Definition mac_sci_some (s : option N) : bool := match s with Some _ => true | None => false end.

(* header_len: 6 + (sci? 8) + (Unmodified? 2) *)
Definition mac_header_len (h : MacsecHeader) : N :=
  6 + (if mac_sci_some (mac_sci h) then 8 else 0) + (if mac_is_unmod (mac_ptype h) then 2 else 0).

(* tci_an = (an & 0b11) | c?0b100 | e?0b1000 | scb?0b1_0000 | sci?0b10_0000 | es?0b100_0000
   (left associative u8 `|`) *)
Definition mac_tci_of (an : N) (c e scb sc es : bool) : N :=
  bor (bor (bor (bor (bor (band an 3) (if c then 4 else 0)) (if e then 8 else 0))
                (if scb then 16 else 0)) (if sc then 32 else 0)) (if es then 64 else 0).
Definition mac_tci_an (h : MacsecHeader) : N :=
  mac_tci_of (mac_an h) (mac_userdata_changed (mac_ptype h)) (mac_encrypted (mac_ptype h))
             (mac_scb h) (mac_sci_some (mac_sci h)) (mac_endstation_id h).

(* the 16 byte array built by to_bytes before set_len *)
Definition mac_array (h : MacsecHeader) : bytes :=
  let pn_be := u32_to_be (mac_packet_nr h) in
  let sci_be := to_be 8 (match mac_sci h with Some s => s | None => 0 end) in
  let et_be := u16_to_be (match mac_ptype h with MacUnmodified e => e | _ => 0 end) in
  if mac_sci_some (mac_sci h)
  then [mac_tci_an h; band (mac_short_len h) 63] ++ pn_be ++ sci_be ++ et_be
  else [mac_tci_an h; band (mac_short_len h) 63] ++ pn_be ++ et_be ++ [0; 0; 0; 0; 0; 0; 0; 0].

(* to_bytes: ArrayVec<16> from the full array, then unsafe set_len(n): undefined
   (None) unless n <= capacity/initialised length *)
Definition mac_to_bytes (h : MacsecHeader) : option bytes :=
  let a := mac_array h in
  let n := mac_header_len h in
  if (len a <=? 16) && (n <=? len a) then Some (take n a) else None.

(* write: writer.write_all(&self.to_bytes()) on a Vec (never fails) *)
Definition mac_write (out : bytes) (h : MacsecHeader) : option bytes :=
  match mac_to_bytes h with Some e => Some (out ++ e) | None => None end.

(* MacsecHeaderSlice::from_slice; EContent 0 = UnexpectedVersion,
   EContent 1 = InvalidUnmodifiedShortLen.  get_unchecked = rd / EOOB *)
Definition mac_required_len (tci : N) : N :=
  6 + (if band tci 12 =? 0 then 2 else 0) + (if nz (band tci 32) then 8 else 0).

Definition mac_slice_from_slice (s : bytes) : res bytes :=
  if len s <? 6 then Err ELen
  else match rd s 0 with
       | None => Err EOOB
       | Some tci =>
         if nz (band tci 128) then Err (EContent 0)
         else
           let unmodified := band tci 12 =? 0 in
           match (if unmodified
                  then match rd s 1 with
                       | None => Err EOOB
                       | Some b1 => if band b1 63 =? 1 then Err (EContent 1) else Ok tt
                       end
                  else Ok tt) with
           | Err e => Err e
           | Ok _ =>
             let required_len := mac_required_len tci in
             if len s <? required_len then Err ELen else Ok (take required_len s)
           end
       end.

(* accessors of MacsecHeaderSlice, all unchecked reads of the stored slice *)
Definition mac_rd16 (s : bytes) (i j : N) : res N :=
  match rd s i, rd s j with
  | Some a, Some b => Ok (be16 a b)
  | _, _ => Err EOOB
  end.

Definition mac_sl_ptype (s : bytes) (tci : N) : res MacsecPType :=
  let e := nz (band tci 8) in
  let c := nz (band tci 4) in
  if e then (if c then Ok MacEncrypted else Ok MacEncryptedUnmodified)
  else if c then Ok MacModified
  else if nz (band tci 32)
       then match mac_rd16 s 14 15 with Ok v => Ok (MacUnmodified v) | Err x => Err x end
       else match mac_rd16 s 6 7 with Ok v => Ok (MacUnmodified v) | Err x => Err x end.

Definition mac_sl_sci (s : bytes) (tci : N) : res (option N) :=
  if nz (band tci 32)
  then match rd s 6, rd s 7, rd s 8, rd s 9, rd s 10, rd s 11, rd s 12, rd s 13 with
       | Some a, Some b, Some c, Some d, Some e, Some f, Some g, Some h =>
         Ok (Some (of_be [a; b; c; d; e; f; g; h]))
       | _, _, _, _, _, _, _, _ => Err EOOB
       end
  else Ok None.

(* MacsecHeaderSlice::to_header *)
Definition mac_to_header (s : bytes) : res MacsecHeader :=
  match rd s 0, rd s 1, rd s 2, rd s 3, rd s 4, rd s 5 with
  | Some tci, Some b1, Some b2, Some b3, Some b4, Some b5 =>
    match mac_sl_ptype s tci with
    | Err x => Err x
    | Ok p =>
      match mac_sl_sci s tci with
      | Err x => Err x
      | Ok sci =>
        Ok {| mac_ptype := p;
              mac_endstation_id := nz (band tci 64);
              mac_scb := nz (band tci 16);
              mac_an := band tci 3;
              mac_short_len := band b1 63;
              mac_packet_nr := be32 b2 b3 b4 b5;
              mac_sci := sci |}
      end
    end
  | _, _, _, _, _, _ => Err EOOB
  end.

(* MacsecHeader::from_slice = MacsecHeaderSlice::from_slice(slice).map(to_header);
   it returns the header only (the caller computes the rest from header_len) *)
Definition mac_from_slice (s : bytes) : res MacsecHeader :=
  match mac_slice_from_slice s with
  | Err e => Err e
  | Ok hs => mac_to_header hs
  end.

(* MacsecHeader::read: bytes = [0;16]; read_exact(bytes[..6]); checks;
   read_exact(bytes[6..required_len]); MacsecHeaderSlice{&bytes[..required_len]}.to_header() *)
Definition mac_read (r : bytes) : res (MacsecHeader * bytes) :=
  match read_exact r 6 with
  | Err e => Err e
  | Ok (first, r1) =>
    match rd first 0, rd first 1 with
    | Some tci, Some b1 =>
      if nz (band tci 128) then Err (EContent 0)
      else
        let unmodified := band tci 12 =? 0 in
        if unmodified && (band b1 63 =? 1) then Err (EContent 1)
        else
          let required_len := mac_required_len tci in
          match (if 6 <? required_len
                 then (if required_len <=? 16     (* &mut bytes[6..required_len] *)
                       then read_exact r1 (required_len - 6)
                       else Err EPanic)
                 else Ok ([], r1)) with
          | Err e => Err e
          | Ok (more, r2) =>
            let buf := first ++ more ++ zeros (16 - 6 - len more) in
            match slice_range buf 0 required_len with
            | None => Err EPanic
            | Some hs => match mac_to_header hs with
                         | Err e => Err e
                         | Ok h => Ok (h, r2)
                         end
            end
          end
    | _, _ => Err EOOB
    end
  end.

(* well-formed values: fields in the range of their Rust types, and NOT
   (ptype = Unmodified(_) and short_len = 1): that combination is encoded by
   to_bytes but rejected by the decoders (InvalidUnmodifiedShortLen). *)
Definition mac_wf_ptype (p : MacsecPType) : bool :=
  match p with MacUnmodified e => e <? 65536 | _ => true end.
Definition mac_wf_sci (s : option N) : bool :=
  match s with Some v => v <? 18446744073709551616 | None => true end.
Definition wf_mac (h : MacsecHeader) : bool :=
  mac_wf_ptype (mac_ptype h) && (mac_an h <? 4) && (mac_short_len h <? 64)
  && (mac_packet_nr h <? 4294967296) && mac_wf_sci (mac_sci h)
  && negb (mac_is_unmod (mac_ptype h) && (mac_short_len h =? 1)).

(* range conditions only (what the Rust types enforce) *)
Definition mac_in_range (h : MacsecHeader) : bool :=
  mac_wf_ptype (mac_ptype h) && (mac_an h <? 4) && (mac_short_len h <? 64)
  && (mac_packet_nr h <? 4294967296) && mac_wf_sci (mac_sci h).

(* reserved: the two top bits of the short length octet *)
Definition mac_keep_mask (hl : N) : bytes := [255; 63] ++ ones (hl - 2).
