(* Roundtrip/Exts6Proofs.v -- C08 for Ipv6Extensions, stated on the model of property C12
   (ExtChain/Model.v: Exts6, from_slice, write, next_header, header_len).  C12 proves
   decode(write e) = e for an empty remainder (C12_decode_write) and len(write e) = header_len e;
   here: the decoder only looks at the bytes it consumes (framing), hence the round trip with any
   trailing bytes. *)
From EP Require Import Base.Bytes ExtChain.Spec ExtChain.Model ExtChain.View ExtChain.Proofs.
From Coq Require Import ZArith Lia ZifyN.
Local Open Scope N_scope.

(* ---- lists ---- *)
Lemma take_app_le {A} (a b : list A) n : n <= len a -> take n (a ++ b) = take n a.
Proof.
  intros H. unfold take, len in *. rewrite firstn_app.
  replace (N.to_nat n - length a)%nat with 0%nat by lia. cbn [firstn]. apply app_nil_r.
Qed.
Lemma drop_app_le {A} (a b : list A) n : n <= len a -> drop n (a ++ b) = drop n a ++ b.
Proof.
  intros H. unfold drop, len in *. rewrite skipn_app.
  replace (N.to_nat n - length a)%nat with 0%nat by lia. reflexivity.
Qed.
Lemma rd_app_lt (a b : bytes) i : i < len a -> rd (a ++ b) i = rd a i.
Proof. intros H. unfold rd, len in *. apply nth_error_app1. lia. Qed.
Lemma slice_from_app_le (a b : bytes) n r : slice_from a n = Some r -> slice_from (a ++ b) n = Some (r ++ b).
Proof.
  unfold slice_from. destruct (n <=? len a) eqn:E; [|discriminate]. apply N.leb_le in E.
  intros H. injection H as <-. rewrite len_app. destruct (n <=? len a + len b) eqn:E2; [|apply N.leb_gt in E2; lia].
  f_equal. apply drop_app_le. exact E.
Qed.

(* ---- the three header readers are framed ---- *)
Lemma raw_slice_from_slice_frame s t sl : raw_slice_from_slice s = Ok sl ->
  raw_slice_from_slice (s ++ t) = Ok sl /\ len sl <= len s.
Proof.
  unfold raw_slice_from_slice. destruct (len s <? 8) eqn:L; [discriminate|]. apply N.ltb_ge in L.
  destruct (rd s 1) as [b1|] eqn:R; [|discriminate].
  destruct (len s <? (b1 + 1) * 8) eqn:L2; [discriminate|]. apply N.ltb_ge in L2.
  intros H. injection H as <-. rewrite len_app.
  destruct (len s + len t <? 8) eqn:X; [apply N.ltb_lt in X; lia|].
  rewrite rd_app_lt by lia. rewrite R.
  destruct (len s + len t <? (b1 + 1) * 8) eqn:X2; [apply N.ltb_lt in X2; lia|].
  rewrite take_app_le by exact L2. split; [reflexivity|]. rewrite len_take. lia.
Qed.

Lemma read_raw_frame wo wo' slice slice' rest t h nh r :
  read_raw wo slice rest = Ok (h, nh, r) -> read_raw wo' slice' (rest ++ t) = Ok (h, nh, r ++ t).
Proof.
  unfold read_raw. destruct (raw_slice_from_slice rest) as [sl|e| |] eqn:S; try discriminate.
  - destruct (raw_slice_from_slice_frame rest t sl S) as [S' LS]. rewrite S'.
    destruct (slice_from rest (len sl)) as [rest'|] eqn:F; [|discriminate].
    rewrite (slice_from_app_le rest t (len sl) rest' F).
    destruct (raw_slice_next_header sl); [|discriminate].
    destruct (raw_slice_to_header sl); cbn [bind]; try discriminate.
    intros H. injection H as <- <- <-. reflexivity.
  - destruct (offset_err wo slice rest e); cbn [bind]; discriminate.
Qed.

Lemma frag_slice_from_slice_frame s t sl : frag_slice_from_slice s = Ok sl ->
  frag_slice_from_slice (s ++ t) = Ok sl /\ len sl <= len s.
Proof.
  unfold frag_slice_from_slice. destruct (len s <? 8) eqn:L; [discriminate|]. apply N.ltb_ge in L.
  intros H. injection H as <-. rewrite len_app.
  destruct (len s + len t <? 8) eqn:X; [apply N.ltb_lt in X; lia|].
  rewrite take_app_le by exact L. split; [reflexivity|]. rewrite len_take. lia.
Qed.

Lemma read_frag_frame slice slice' rest t h nh r :
  read_frag slice rest = Ok (h, nh, r) -> read_frag slice' (rest ++ t) = Ok (h, nh, r ++ t).
Proof.
  unfold read_frag. destruct (frag_slice_from_slice rest) as [sl|e| |] eqn:S; try discriminate.
  - destruct (frag_slice_from_slice_frame rest t sl S) as [S' LS]. rewrite S'.
    destruct (slice_from rest (len sl)) as [rest'|] eqn:F; [|discriminate].
    rewrite (slice_from_app_le rest t (len sl) rest' F).
    destruct (rd sl 0); [|discriminate].
    destruct (frag_slice_to_header sl); cbn [bind]; try discriminate.
    intros H. injection H as <- <- <-. reflexivity.
  - destruct (offset_err true slice rest e); cbn [bind]; discriminate.
Qed.

Lemma auth_slice_from_slice_frame s t sl : auth_slice_from_slice s = Ok sl ->
  auth_slice_from_slice (s ++ t) = Ok sl /\ len sl <= len s.
Proof.
  unfold auth_slice_from_slice, AUTH_MIN_LEN. destruct (len s <? 12) eqn:L; [discriminate|]. apply N.ltb_ge in L.
  destruct (rd s 1) as [pl|] eqn:R; [|discriminate].
  destruct (pl <? 1) eqn:P; [discriminate|].
  destruct (len s <? (pl + 2) * 4) eqn:L2; [discriminate|]. apply N.ltb_ge in L2.
  intros H. injection H as <-. rewrite len_app.
  destruct (len s + len t <? 12) eqn:X; [apply N.ltb_lt in X; lia|].
  rewrite rd_app_lt by lia. rewrite R, P.
  destruct (len s + len t <? (pl + 2) * 4) eqn:X2; [apply N.ltb_lt in X2; lia|].
  rewrite take_app_le by exact L2. split; [reflexivity|]. rewrite len_take. lia.
Qed.

Lemma read_auth_frame slice slice' rest t h nh r :
  read_auth slice rest = Ok (h, nh, r) -> read_auth slice' (rest ++ t) = Ok (h, nh, r ++ t).
Proof.
  unfold read_auth. destruct (auth_slice_from_slice rest) as [sl|e| |] eqn:S; try discriminate.
  - destruct (auth_slice_from_slice_frame rest t sl S) as [S' LS]. rewrite S'.
    destruct (slice_from rest (len sl)) as [rest'|] eqn:F; [|discriminate].
    rewrite (slice_from_app_le rest t (len sl) rest' F).
    destruct (auth_slice_next_header sl); [|discriminate].
    destruct (auth_slice_to_header sl); cbn [bind]; try discriminate.
    intros H. injection H as <- <- <-. reflexivity.
  - destruct e as [e|]; [destruct (offset_err true slice rest e); cbn [bind]; discriminate|discriminate].
Qed.

(* ---- the chain decoder is framed ---- *)
Lemma from_slice_loop_frame fuel : forall slice slice' result rest next t e n r,
  from_slice_loop fuel slice result rest next = Ok (e, n, r) ->
  from_slice_loop fuel slice' result (rest ++ t) next = Ok (e, n, r ++ t).
Proof.
  induction fuel as [|fuel IH]; intros slice slice' result rest next t e n r H; [discriminate|].
  cbn [from_slice_loop] in *. destruct (arm_of next).
  - discriminate.
  - destruct (routing result) as [rt|].
    + destruct (is_some (rt_final_destination_options rt)).
      * injection H as <- <- <-. reflexivity.
      * destruct (read_raw true slice rest) as [[[h nh] rest']|x| |] eqn:R; cbn [bind] in H; try discriminate.
        rewrite (read_raw_frame true true slice slice' rest t h nh rest' R). cbn [bind]. eapply IH. exact H.
    + destruct (is_some (destination_options result)).
      * injection H as <- <- <-. reflexivity.
      * destruct (read_raw true slice rest) as [[[h nh] rest']|x| |] eqn:R; cbn [bind] in H; try discriminate.
        rewrite (read_raw_frame true true slice slice' rest t h nh rest' R). cbn [bind]. eapply IH. exact H.
  - destruct (is_some (routing result)).
    + injection H as <- <- <-. reflexivity.
    + destruct (read_raw true slice rest) as [[[h nh] rest']|x| |] eqn:R; cbn [bind] in H; try discriminate.
      rewrite (read_raw_frame true true slice slice' rest t h nh rest' R). cbn [bind]. eapply IH. exact H.
  - destruct (is_some (fragment result)).
    + injection H as <- <- <-. reflexivity.
    + destruct (read_frag slice rest) as [[[h nh] rest']|x| |] eqn:R; cbn [bind] in H; try discriminate.
      rewrite (read_frag_frame slice slice' rest t h nh rest' R). cbn [bind]. eapply IH. exact H.
  - destruct (is_some (auth result)).
    + injection H as <- <- <-. reflexivity.
    + destruct (read_auth slice rest) as [[[h nh] rest']|x| |] eqn:R; cbn [bind] in H; try discriminate.
      rewrite (read_auth_frame slice slice' rest t h nh rest' R). cbn [bind]. eapply IH. exact H.
  - injection H as <- <- <-. reflexivity.
Qed.

(* Ipv6Extensions::from_slice reads only the extension headers: trailing bytes come back untouched *)
Theorem from_slice_frame first s t e n r :
  from_slice first s = Ok (e, n, r) -> from_slice first (s ++ t) = Ok (e, n, r ++ t).
Proof.
  unfold from_slice. destruct (IPV6_HOP_BY_HOP =? first).
  - destruct (read_raw false s s) as [[[h nh] rest']|x| |] eqn:R; cbn [bind]; try discriminate.
    rewrite (read_raw_frame false false s (s ++ t) s t h nh rest' R). cbn [bind].
    apply from_slice_loop_frame.
  - apply from_slice_loop_frame.
Qed.

(* C08 decode(encode v ++ rest): every valid extension struct whose chain is consistent (write
   succeeds <-> next_header succeeds, C12_write_iff_walk) and ends on a non-extension number *)
Theorem exts6_dec_enc e first bs n rest : exts6_valid e = true ->
  write e first = (bs, Ok tt) -> next_header e first = Ok n -> is_ext_number n = false ->
  len bs = header_len e /\ from_slice first (bs ++ rest) = Ok (e, n, rest).
Proof.
  intros V W H X. split.
  - exact (write_len e first bs V W).
  - pose proof (decode_write e first bs n V W H X) as D.
    apply (from_slice_frame first bs rest e n []) in D. exact D.
Qed.

(* ================================================================== *)
(* decode -> encode: what the three header readers return, in terms of the bytes they consumed *)

Lemma rd_ok' (bs : bytes) i v : bytes_ok bs -> rd bs i = Some v -> v < 256.
Proof. intros H R. exact (rd_ok bs i v H R). Qed.

Lemma rd_take_lt' (bs : bytes) n i : i < n -> rd (take n bs) i = rd bs i.
Proof.
  intros H. unfold rd, take.
  revert bs i H. induction n as [|n IH] using N.peano_ind; intros bs i H; [lia|].
  replace (N.to_nat (N.succ n)) with (S (N.to_nat n)) by lia.
  destruct bs as [|b r]; [reflexivity|]. cbn [firstn].
  destruct (N.eq_dec i 0) as [->|Hi]; [reflexivity|].
  replace (N.to_nat i) with (S (N.to_nat (i - 1))) by lia. cbn [nth_error].
  apply IH. lia.
Qed.

Lemma read_raw_inv wo slice rest h nh rest' : bytes_ok rest -> read_raw wo slice rest = Ok (h, nh, rest') ->
  raw_valid h = true /\ nh = r_next_header h
  /\ rest = (r_next_header h :: r_header_length h :: r_payload h) ++ rest'.
Proof.
  intros OK H. unfold read_raw in H.
  destruct (raw_slice_from_slice rest) as [sl|x| |] eqn:S; try discriminate.
  2:{ destruct (offset_err wo slice rest x); cbn [bind] in H; discriminate. }
  unfold raw_slice_from_slice in S.
  destruct (len rest <? 8) eqn:L; [discriminate|]. apply N.ltb_ge in L.
  destruct (rd rest 1) as [b1|] eqn:R1; [|discriminate].
  destruct (len rest <? (b1 + 1) * 8) eqn:L2; [discriminate|]. apply N.ltb_ge in L2.
  injection S as <-.
  set (l := (b1 + 1) * 8) in *. set (sl := take l rest) in *.
  assert (B1 : b1 < 256) by (eapply rd_ok'; eauto).
  assert (LS : len sl = l) by (unfold sl; rewrite len_take; lia).
  unfold slice_from in H. rewrite LS in H.
  destruct (l <=? len rest) eqn:X; [|apply N.leb_gt in X; lia].
  unfold raw_slice_next_header in H.
  destruct (rd sl 0) as [b0|] eqn:R0; [|discriminate].
  unfold raw_slice_to_header, raw_slice_next_header, raw_slice_payload, usize_sub in H. rewrite R0, LS in H.
  destruct (2 <=? l) eqn:X2; [|apply N.leb_gt in X2; lia].
  assert (R1' : rd sl 1 = Some b1) by (unfold sl; rewrite rd_take_lt' by lia; exact R1).
  assert (BS : bytes_ok sl) by (unfold sl; apply bytes_ok_take; exact OK).
  assert (B0 : b0 < 256) by (eapply rd_ok'; eauto).
  destruct sl as [|x0 [|x1 p]] eqn:ESL; try (rewrite ?len_cons, ?len_nil in LS; lia).
  change (rd (x0 :: x1 :: p) 0) with (Some x0) in R0. change (rd (x0 :: x1 :: p) 1) with (Some x1) in R1'.
  injection R0 as ->. injection R1' as ->.
  change (drop 2 (b0 :: b1 :: p)) with p in H.
  assert (LP : len p = 6 + b1 * 8) by (rewrite !len_cons in LS; lia).
  unfold raw_new_raw, RAW_MIN_PAYLOAD_LEN, RAW_MAX_PAYLOAD_LEN in H. rewrite LP in H.
  destruct (6 + b1 * 8 <? 6) eqn:E1; [apply N.ltb_lt in E1; lia|].
  destruct (2046 <? 6 + b1 * 8) eqn:E2; [apply N.ltb_lt in E2; lia|].
  assert (E3 : ((6 + b1 * 8 + 2) mod 8 =? 0) = true).
  { apply N.eqb_eq. replace (6 + b1 * 8 + 2) with ((b1 + 1) * 8) by lia. apply N.mod_mul. lia. }
  rewrite E3 in H. cbn [negb bind] in H.
  assert (E4 : ((6 + b1 * 8 - 6) / 8) mod 256 = b1).
  { replace (6 + b1 * 8 - 6) with (b1 * 8) by lia. rewrite N.div_mul by lia. apply N.mod_small. exact B1. }
  rewrite E4 in H. injection H as <- <- <-. cbn [r_next_header r_header_length r_payload].
  split; [|split; [reflexivity|]].
  - unfold raw_valid. cbn [r_next_header r_header_length r_payload].
    apply N.ltb_lt in B0, B1. rewrite B0, B1, LP, N.eqb_refl. cbn [andb].
    apply bytes_okb_spec. apply bytes_ok_cons in BS. destruct BS as [_ BS].
    apply bytes_ok_cons in BS. destruct BS as [_ BS]. exact BS.
  - rewrite <- ESL. unfold sl. symmetry. apply take_drop.
Qed.

(* fragment header: bytes 2,3 hold offset*8 + M; byte 1 and bits 1-2 of byte 3 are reserved *)
Definition fr_chk (b2 : N) : bool :=
  forallb (fun b3 =>
    let fo := N.shiftr (be16 b2 b3) 3 in
    let more := negb (N.land b3 1 =? 0) in
    let w := N.lor ((N.shiftl fo 3) mod 65536) (if more then 1 else 0) in
    (fo <? 8192) && ((w / 256) mod 256 =? b2) && (w mod 256 =? N.land b3 249))
    (map N.of_nat (seq 0 256)).
Lemma fr_sweep : forallb fr_chk (map N.of_nat (seq 0 256)) = true.
Proof. vm_compute. reflexivity. Qed.

Lemma in_bytes_range b : b < 256 -> In b (map N.of_nat (seq 0 256)).
Proof.
  intros H. apply in_map_iff. exists (N.to_nat b). split; [lia|]. apply in_seq. lia.
Qed.

Lemma fr_facts b2 b3 : b2 < 256 -> b3 < 256 ->
  let fo := N.shiftr (be16 b2 b3) 3 in
  let more := negb (N.land b3 1 =? 0) in
  let w := N.lor ((N.shiftl fo 3) mod 65536) (if more then 1 else 0) in
  fo < 8192 /\ (w / 256) mod 256 = b2 /\ w mod 256 = N.land b3 249.
Proof.
  intros H2 H3. pose proof fr_sweep as S. rewrite forallb_forall in S.
  specialize (S b2 (in_bytes_range b2 H2)). unfold fr_chk in S. rewrite forallb_forall in S.
  specialize (S b3 (in_bytes_range b3 H3)). cbv zeta in *.
  rewrite !andb_true_iff in S. destruct S as [[S1 S2] S3].
  apply N.ltb_lt in S1. apply N.eqb_eq in S2, S3. auto.
Qed.

Lemma to_be32_be32 a b c d : a < 256 -> b < 256 -> c < 256 -> d < 256 -> to_be32 (be32 a b c d) = [a; b; c; d].
Proof.
  intros Ha Hb Hc Hd. unfold to_be32, be32.
  assert (E0 : (((a * 256 + b) * 256 + c) * 256 + d) mod 256 = d) by dmlia.
  assert (E1 : ((((a * 256 + b) * 256 + c) * 256 + d) / 256) mod 256 = c) by dmlia.
  assert (E2 : ((((a * 256 + b) * 256 + c) * 256 + d) / 65536) mod 256 = b) by dmlia.
  assert (E3 : ((((a * 256 + b) * 256 + c) * 256 + d) / 16777216) mod 256 = a) by dmlia.
  rewrite E0, E1, E2, E3. reflexivity.
Qed.

Lemma read_frag_inv slice rest h nh rest' : bytes_ok rest -> read_frag slice rest = Ok (h, nh, rest') ->
  frag_valid h = true /\ nh = f_next_header h /\
  exists b0 b1 b2 b3 b4 b5 b6 b7,
    rest = [b0; b1; b2; b3; b4; b5; b6; b7] ++ rest'
    /\ frag_to_bytes h = [b0; 0; b2; N.land b3 249; b4; b5; b6; b7].
Proof.
  intros OK H. unfold read_frag in H.
  destruct (frag_slice_from_slice rest) as [sl|x| |] eqn:S; try discriminate.
  2:{ destruct (offset_err true slice rest x); cbn [bind] in H; discriminate. }
  unfold frag_slice_from_slice in S.
  destruct (len rest <? 8) eqn:L; [discriminate|].
  destruct rest as [|b0 [|b1 [|b2 [|b3 [|b4 [|b5 [|b6 [|b7 r]]]]]]]]; try (vm_compute in L; discriminate).
  injection S as <-.
  change (take 8 (b0 :: b1 :: b2 :: b3 :: b4 :: b5 :: b6 :: b7 :: r)) with [b0; b1; b2; b3; b4; b5; b6; b7] in H.
  unfold slice_from in H. change (len [b0; b1; b2; b3; b4; b5; b6; b7]) with 8 in H.
  apply N.ltb_ge in L. destruct (8 <=? len (b0 :: b1 :: b2 :: b3 :: b4 :: b5 :: b6 :: b7 :: r)) eqn:X;
    [|apply N.leb_gt in X; lia].
  change (drop 8 (b0 :: b1 :: b2 :: b3 :: b4 :: b5 :: b6 :: b7 :: r)) with r in H.
  rewrite rd0 in H. unfold frag_slice_to_header in H.
  rewrite rd0, rd2, rd3, rd4, rd5, rd6, rd7 in H. cbn [bind] in H. injection H as <- <- <-.
  cbn [f_next_header]. unfold bytes_ok in OK.
  repeat (match goal with H : Forall _ (_ :: _) |- _ => inversion H; clear H; subst end).
  unfold byte_ok in *.
  destruct (fr_facts b2 b3 ltac:(assumption) ltac:(assumption)) as (F1 & F2 & F3). cbv zeta in *.
  split; [|split; [reflexivity|]].
  - unfold frag_valid. cbn [f_next_header f_fragment_offset f_identification].
    assert (I : be32 b4 b5 b6 b7 < 4294967296) by (unfold be32; lia).
    rewrite !andb_true_iff, !N.ltb_lt. auto.
  - exists b0, b1, b2, b3, b4, b5, b6, b7. split; [reflexivity|].
    unfold frag_to_bytes. cbn [f_next_header f_fragment_offset f_more_fragments f_identification].
    rewrite to_be32_be32 by assumption. unfold to_be16. rewrite F2, F3. reflexivity.
Qed.

Lemma read_auth_inv slice rest h nh rest' : bytes_ok rest -> read_auth slice rest = Ok (h, nh, rest') ->
  auth_valid h = true /\ nh = a_next_header h /\
  exists b0 b1 b2 b3 body,
    rest = [b0; b1; b2; b3] ++ body ++ rest' /\ auth_bytes h = [b0; b1; 0; 0] ++ body.
Proof.
  intros OK H. unfold read_auth in H.
  destruct (auth_slice_from_slice rest) as [sl|x| |] eqn:S; try discriminate.
  2:{ destruct x as [x|]; [destruct (offset_err true slice rest x); cbn [bind] in H; discriminate|discriminate]. }
  unfold auth_slice_from_slice, AUTH_MIN_LEN in S.
  destruct (len rest <? 12) eqn:L; [discriminate|]. apply N.ltb_ge in L.
  destruct rest as [|b0 [|b1 [|b2 [|b3 [|b4 [|b5 [|b6 [|b7 [|b8 [|b9 [|b10 [|b11 r]]]]]]]]]]]];
    try (rewrite ?len_cons, ?len_nil in L; lia).
  rewrite rd1 in S. destruct (b1 <? 1) eqn:P; [discriminate|]. apply N.ltb_ge in P.
  set (rest := b0 :: b1 :: b2 :: b3 :: b4 :: b5 :: b6 :: b7 :: b8 :: b9 :: b10 :: b11 :: r) in *.
  destruct (len rest <? (b1 + 2) * 4) eqn:L2; [discriminate|]. apply N.ltb_ge in L2.
  injection S as <-.
  pose proof OK as OK'. unfold rest, bytes_ok in OK'.
  repeat (match goal with H : Forall _ (_ :: _) |- _ => inversion H; clear H; subst end).
  unfold byte_ok in *.
  set (k := b1 - 1). assert (K : (b1 + 2) * 4 = 12 + k * 4) by (unfold k; lia).
  set (F := [b0; b1; b2; b3; b4; b5; b6; b7; b8; b9; b10; b11]).
  assert (ER : rest = F ++ r) by reflexivity.
  assert (LR : k * 4 <= len r) by (rewrite ER, len_app in L2; change (len F) with 12 in L2; lia).
  set (icv := take (k * 4) r).
  assert (LI : len icv = k * 4) by (unfold icv; rewrite len_take; lia).
  assert (TK : take ((b1 + 2) * 4) rest = F ++ icv).
  { rewrite K, ER. unfold take. replace (N.to_nat (12 + k * 4)) with (12 + N.to_nat (k * 4))%nat by lia.
    reflexivity. }
  rewrite TK in H. unfold slice_from in H.
  rewrite len_app, LI in H. change (len F) with 12 in H.
  destruct (12 + k * 4 <=? len rest) eqn:X; [|apply N.leb_gt in X; lia].
  assert (DR : drop (12 + k * 4) rest = drop (k * 4) r).
  { rewrite ER. unfold drop. replace (N.to_nat (12 + k * 4)) with (12 + N.to_nat (k * 4))%nat by lia. reflexivity. }
  rewrite DR in H. unfold auth_slice_next_header in H. unfold F in H. cbn [app] in H. rewrite rd0 in H.
  unfold auth_slice_to_header in H.
  rewrite rd0, rd4, rd5, rd6, rd7, rd8, rd9, rd10, rd11 in H.
  unfold slice_from in H. rewrite !len_cons, LI in H.
  destruct (12 <=? 1 + (1 + (1 + (1 + (1 + (1 + (1 + (1 + (1 + (1 + (1 + (1 + k * 4)))))))))))) eqn:X2;
    [|apply N.leb_gt in X2; lia].
  change (drop 12 (b0 :: b1 :: b2 :: b3 :: b4 :: b5 :: b6 :: b7 :: b8 :: b9 :: b10 :: b11 :: icv)) with icv in H.
  unfold auth_new, AUTH_MAX_ICV_LEN in H. rewrite LI in H.
  destruct (1016 <? k * 4) eqn:E1; [apply N.ltb_lt in E1; unfold k in E1; lia|].
  assert (E2 : ((k * 4) mod 4 =? 0) = true) by (apply N.eqb_eq, N.mod_mul; lia).
  rewrite E2 in H. cbn [negb bind] in H.
  assert (E3 : (k * 4 / 4) mod 256 = k) by (rewrite N.div_mul by lia; apply N.mod_small; unfold k; lia).
  rewrite E3 in H. injection H as <- <- <-. cbn [a_next_header].
  assert (BI : bytes_ok icv).
  { unfold icv. apply bytes_ok_take. assumption. }
  split; [|split; [reflexivity|]].
  - unfold auth_valid. cbn [a_next_header a_spi a_sequence_number a_raw_icv_len a_raw_icv].
    assert (I1 : be32 b4 b5 b6 b7 < 4294967296) by (unfold be32; lia).
    assert (I2 : be32 b8 b9 b10 b11 < 4294967296) by (unfold be32; lia).
    assert (I3 : k < 255) by (unfold k; lia).
    rewrite !andb_true_iff, !N.ltb_lt, N.eqb_eq, bytes_okb_spec. auto 10.
  - exists b0, b1, b2, b3, ([b4; b5; b6; b7; b8; b9; b10; b11] ++ icv). split.
    + rewrite ER. unfold F. cbn [app]. do 12 f_equal. unfold icv. symmetry. apply take_drop.
    + unfold auth_bytes. cbn [a_next_header a_spi a_sequence_number a_raw_icv_len a_raw_icv].
      rewrite !to_be32_be32 by assumption. replace (k + 1) with b1 by (unfold k; lia). reflexivity.
Qed.

(* ================================================================== *)
(* the decoder only ever fills empty places: the final struct extends every intermediate one *)
Definition ext_le (a e : Exts6) : Prop :=
  hop_by_hop_options e = hop_by_hop_options a /\
  (forall h, destination_options a = Some h -> destination_options e = Some h) /\
  (forall ra, routing a = Some ra -> exists re, routing e = Some re /\ rt_routing re = rt_routing ra /\
     (forall h, rt_final_destination_options ra = Some h -> rt_final_destination_options re = Some h)) /\
  (forall h, fragment a = Some h -> fragment e = Some h) /\
  (forall h, auth a = Some h -> auth e = Some h).

Lemma ext_le_refl a : ext_le a a.
Proof. unfold ext_le. repeat split; auto. intros ra H. exists ra. auto. Qed.

Lemma ext_le_trans a b c : ext_le a b -> ext_le b c -> ext_le a c.
Proof.
  unfold ext_le. intros (A1 & A2 & A3 & A4 & A5) (B1 & B2 & B3 & B4 & B5).
  split; [congruence|]. split; [auto|]. split; [|split; auto].
  intros ra H. destruct (A3 ra H) as (rb & Hb & Eb & Fb). destruct (B3 rb Hb) as (rc & Hc & Ec & Fc).
  exists rc. split; [exact Hc|]. split; [congruence|]. auto.
Qed.

Lemma is_some_false {A} (o : option A) : is_some o = false -> o = None.
Proof. destruct o; [discriminate|reflexivity]. Qed.

Lemma from_slice_loop_mono fuel : forall slice result rest next e n r,
  from_slice_loop fuel slice result rest next = Ok (e, n, r) -> ext_le result e.
Proof.
  induction fuel as [|fuel IH]; intros slice result rest next e n r H; [discriminate|].
  cbn [from_slice_loop] in H. destruct (arm_of next).
  - discriminate.
  - destruct (routing result) as [rt|] eqn:ER.
    + destruct (is_some (rt_final_destination_options rt)) eqn:EF.
      * injection H as <- _ _. apply ext_le_refl.
      * destruct (read_raw true slice rest) as [[[h nh] rest']|x| |]; cbn [bind] in H; try discriminate.
        apply IH in H. eapply ext_le_trans; [|exact H].
        apply is_some_false in EF.
        unfold ext_le, set_routing. cbn. repeat split; auto.
        intros ra Hra. rewrite ER in Hra. injection Hra as <-. eexists. split; [reflexivity|]. split; [reflexivity|].
        intros h0 Hh. rewrite EF in Hh. discriminate.
    + destruct (is_some (destination_options result)) eqn:ED.
      * injection H as <- _ _. apply ext_le_refl.
      * destruct (read_raw true slice rest) as [[[h nh] rest']|x| |]; cbn [bind] in H; try discriminate.
        apply IH in H. eapply ext_le_trans; [|exact H].
        apply is_some_false in ED.
        unfold ext_le, set_dst. cbn. repeat split; auto.
        -- intros h0 Hh. rewrite ED in Hh. discriminate.
        -- intros ra Hra. rewrite ER in Hra. discriminate.
  - destruct (is_some (routing result)) eqn:ER.
    + injection H as <- _ _. apply ext_le_refl.
    + destruct (read_raw true slice rest) as [[[h nh] rest']|x| |]; cbn [bind] in H; try discriminate.
      apply IH in H. eapply ext_le_trans; [|exact H].
      apply is_some_false in ER.
      unfold ext_le, set_routing. cbn. repeat split; auto.
      intros ra Hra. rewrite ER in Hra. discriminate.
  - destruct (is_some (fragment result)) eqn:EF.
    + injection H as <- _ _. apply ext_le_refl.
    + destruct (read_frag slice rest) as [[[h nh] rest']|x| |]; cbn [bind] in H; try discriminate.
      apply IH in H. eapply ext_le_trans; [|exact H].
      apply is_some_false in EF.
      unfold ext_le, set_frag. cbn. repeat split; auto.
      * intros ra Hra. exists ra. auto.
      * intros h0 Hh. rewrite EF in Hh. discriminate.
  - destruct (is_some (auth result)) eqn:EA.
    + injection H as <- _ _. apply ext_le_refl.
    + destruct (read_auth slice rest) as [[[h nh] rest']|x| |]; cbn [bind] in H; try discriminate.
      apply IH in H. eapply ext_le_trans; [|exact H].
      apply is_some_false in EA.
      unfold ext_le, set_auth. cbn. repeat split; auto.
      * intros ra Hra. exists ra. auto.
      * intros h0 Hh. rewrite EA in Hh. discriminate.
  - injection H as <- _ _. apply ext_le_refl.
Qed.

(* suffixes of byte strings *)
Lemma bytes_ok_app_r (a b : bytes) : bytes_ok (a ++ b) -> bytes_ok b.
Proof. intros H. apply bytes_ok_app in H. tauto. Qed.

(* every header the decoder stores satisfies the type invariant *)
Lemma from_slice_loop_valid fuel : forall slice result rest next e n r,
  bytes_ok rest -> exts6_valid result = true ->
  from_slice_loop fuel slice result rest next = Ok (e, n, r) -> exts6_valid e = true /\ bytes_ok r.
Proof.
  induction fuel as [|fuel IH]; intros slice result rest next e n r OK V H; [discriminate|].
  pose proof (exts6_valid_inv result V) as (Vh & Vd & Vr & Vf & Va).
  cbn [from_slice_loop] in H. destruct (arm_of next).
  - discriminate.
  - destruct (routing result) as [rt|] eqn:ER.
    + destruct (is_some (rt_final_destination_options rt)).
      * injection H as <- _ <-. auto.
      * destruct (read_raw true slice rest) as [[[h nh] rest']|x| |] eqn:R; cbn [bind] in H; try discriminate.
        destruct (read_raw_inv _ _ _ _ _ _ OK R) as (VH & _ & ->).
        apply bytes_ok_app_r in OK. eapply IH; [exact OK| |exact H].
        cbn [opt_valid] in Vr. apply routing_valid_inv in Vr. destruct Vr as [Vrt _].
        unfold exts6_valid, set_routing. cbn. rewrite Vh, Vd, Vf, Va. unfold routing_valid. cbn.
        rewrite Vrt, VH. reflexivity.
    + destruct (is_some (destination_options result)).
      * injection H as <- _ <-. auto.
      * destruct (read_raw true slice rest) as [[[h nh] rest']|x| |] eqn:R; cbn [bind] in H; try discriminate.
        destruct (read_raw_inv _ _ _ _ _ _ OK R) as (VH & _ & ->).
        apply bytes_ok_app_r in OK. eapply IH; [exact OK| |exact H].
        unfold exts6_valid, set_dst. cbn. rewrite ER. cbn. rewrite Vh, Vf, Va, VH. reflexivity.
  - destruct (is_some (routing result)).
    + injection H as <- _ <-. auto.
    + destruct (read_raw true slice rest) as [[[h nh] rest']|x| |] eqn:R; cbn [bind] in H; try discriminate.
      destruct (read_raw_inv _ _ _ _ _ _ OK R) as (VH & _ & ->).
      apply bytes_ok_app_r in OK. eapply IH; [exact OK| |exact H].
      unfold exts6_valid, set_routing. cbn. rewrite Vh, Vd, Vf, Va. unfold routing_valid. cbn.
      rewrite VH. reflexivity.
  - destruct (is_some (fragment result)).
    + injection H as <- _ <-. auto.
    + destruct (read_frag slice rest) as [[[h nh] rest']|x| |] eqn:R; cbn [bind] in H; try discriminate.
      destruct (read_frag_inv _ _ _ _ _ OK R) as (VH & _ & b0 & b1 & b2 & b3 & b4 & b5 & b6 & b7 & -> & _).
      apply bytes_ok_app_r in OK. eapply IH; [exact OK| |exact H].
      unfold exts6_valid, set_frag. cbn. rewrite Vh, Vd, Vr, Va, VH. reflexivity.
  - destruct (is_some (auth result)).
    + injection H as <- _ <-. auto.
    + destruct (read_auth slice rest) as [[[h nh] rest']|x| |] eqn:R; cbn [bind] in H; try discriminate.
      destruct (read_auth_inv _ _ _ _ _ OK R) as (VH & _ & b0 & b1 & b2 & b3 & body & -> & _).
      apply bytes_ok_app_r in OK. apply bytes_ok_app_r in OK.
      eapply IH; [exact OK| |exact H].
      unfold exts6_valid, set_auth. cbn. rewrite Vh, Vd, Vr, Vf, VH. reflexivity.
  - injection H as <- _ <-. auto.
Qed.

(* ================================================================== *)
(* re-encoded bytes vs consumed bytes: identical except the reserved byte 1 and bits 1-2 of
   byte 3 of a fragment header and the reserved bytes 2-3 of an authentication header *)
Inductive hdr_eq : bytes -> bytes -> Prop :=
| he_nil : hdr_eq [] []
| he_same : forall a x y, hdr_eq x y -> hdr_eq (a ++ x) (a ++ y)
| he_frag : forall b0 b1 b2 b3 b4 b5 b6 b7 x y, hdr_eq x y ->
    hdr_eq ([b0; 0; b2; N.land b3 249; b4; b5; b6; b7] ++ x) ([b0; b1; b2; b3; b4; b5; b6; b7] ++ y)
| he_auth : forall b0 b1 b2 b3 body x y, hdr_eq x y ->
    hdr_eq (([b0; b1; 0; 0] ++ body) ++ x) (([b0; b1; b2; b3] ++ body) ++ y).

Lemma hdr_eq_len a b : hdr_eq a b -> len a = len b.
Proof.
  induction 1; [reflexivity| | |]; rewrite ?len_app, ?len_cons in *; lia.
Qed.

Definition no_flags : Flags := mkFlags false false false false false false.

Lemma done_fixed e f : flags_ok e f -> done e f = e -> f = no_flags.
Proof.
  intros (F1 & F2 & F3 & F4 & F5 & F6) D.
  destruct f as [f1 f2 f3 f4 f5 f6]. cbn in *.
  apply (f_equal hop_by_hop_options) in D as D1. apply (f_equal destination_options) in D as D2.
  apply (f_equal routing) in D as D3. apply (f_equal fragment) in D as D4. apply (f_equal auth) in D as D5.
  unfold done in D1, D2, D3, D4, D5. cbn in D1, D2, D3, D4, D5.
  assert (f1 = false).
  { destruct f1; [|reflexivity]. specialize (F1 eq_refl). rewrite <- D1 in F1. discriminate. }
  assert (f2 = false).
  { destruct f2; [|reflexivity]. specialize (F2 eq_refl). rewrite <- D2 in F2. discriminate. }
  assert (f3 = false).
  { destruct f3; [|reflexivity]. specialize (F3 eq_refl). rewrite <- D3 in F3. discriminate. }
  assert (f4 = false).
  { destruct f4; [|reflexivity]. specialize (F4 eq_refl). rewrite <- D4 in F4. discriminate. }
  assert (f5 = false).
  { destruct f5; [|reflexivity]. specialize (F5 eq_refl). rewrite <- D5 in F5. discriminate. }
  subst. assert (f6 = false).
  { destruct f6; [|reflexivity]. destruct (F6 eq_refl) as (r & Er & Fr). rewrite Er in D3.
    injection D3 as D3. rewrite <- D3 in Fr. discriminate. }
  subst. reflexivity.
Qed.

Lemma check_all_done_none {A} (a : A) : check_all_done no_flags a = Ok a.
Proof. reflexivity. Qed.

(* the condition under which the decoder loop returns without reading *)
Definition stops (e : Exts6) (next : N) : bool :=
  match arm_of next with
  | AHop => false
  | ADest => match routing e with
             | Some r => is_some (rt_final_destination_options r)
             | None => is_some (destination_options e)
             end
  | ARoute => is_some (routing e)
  | AFrag => is_some (fragment e)
  | AAuth => is_some (auth e)
  | AOther => true
  end.

Lemma stops_loop e next fuel slice t : stops e next = true ->
  from_slice_loop (S fuel) slice e t next = Ok (e, next, t).
Proof.
  unfold stops. cbn [from_slice_loop]. destruct (arm_of next); try discriminate; try reflexivity.
  - destruct (routing e) as [r|]; intros ->; reflexivity.
  - intros ->; reflexivity.
  - intros ->; reflexivity.
  - intros ->; reflexivity.
Qed.

(* lock step: the writer re-emits the headers in the order the decoder met them *)
Lemma write_mirror fuel : forall e nw next rw w slice rest n r,
  exts6_valid e = true -> Inv e nw rw -> flags_ok e nw -> bytes_ok rest ->
  from_slice_loop fuel slice (done e nw) rest next = Ok (e, n, r) ->
  exists suf cons, write_loop fuel e nw next rw w = (w ++ suf, Ok tt) /\ rest = cons ++ r /\ hdr_eq suf cons
     /\ next_header_loop fuel e nw next rw = Ok n
     /\ forall slice' t, from_slice_loop fuel slice' (done e nw) (suf ++ t) next = Ok (e, n, t).
Proof.
  induction fuel as [|fuel IH]; intros e nw next rw w slice rest n r V I FO OK H; [discriminate|].
  pose proof (exts6_valid_inv e V) as (Vh & Vd & Vr & Vf & Va).
  (* the stop case, once the loop has returned its own state *)
  assert (STOP : done e nw = e -> stops e next = true -> n = next -> r = rest ->
    exists suf cons, write_loop (S fuel) e nw next rw w = (w ++ suf, Ok tt) /\ rest = cons ++ r /\ hdr_eq suf cons
     /\ next_header_loop (S fuel) e nw next rw = Ok n
     /\ forall slice' t, from_slice_loop (S fuel) slice' (done e nw) (suf ++ t) next = Ok (e, n, t)).
  { intros D ST -> ->. pose proof (done_fixed _ _ FO D) as NF. subst nw.
    exists [], []. rewrite app_nil_r. cbn [app].
    split; [|split; [reflexivity|split; [constructor|split]]].
    - cbn [write_loop]. unfold stops in ST.
      destruct (arm_of next); try discriminate; try reflexivity. destruct rw; reflexivity.
    - cbn [next_header_loop]. unfold stops in ST.
      destruct (arm_of next); try discriminate; try reflexivity. destruct rw; reflexivity.
    - intros slice' t. rewrite D. apply stops_loop. exact ST. }
  cbn [from_slice_loop] in H.
  destruct (arm_of next) eqn:A.
  - discriminate.
  - (* destination options *)
    assert (RD : routing (done e nw) =
                 if fl_routing nw then None
                 else match routing e with
                      | Some r => Some (mkRouting (rt_routing r)
                                          (if fl_final_destination_options nw then None
                                           else rt_final_destination_options r))
                      | None => None
                      end) by reflexivity.
    assert (DD : destination_options (done e nw) = if fl_destination_options nw then None else destination_options e)
      by reflexivity.
    pose proof I as I0. destruct I as [I1 I2].
    (* the plain destination-options slot: no routing header decoded so far *)
    assert (PLAIN : routing (done e nw) = None -> rw = false ->
      exists suf cons, write_loop (S fuel) e nw next rw w = (w ++ suf, Ok tt) /\ rest = cons ++ r /\ hdr_eq suf cons
        /\ next_header_loop (S fuel) e nw next rw = Ok n
        /\ forall slice' t, from_slice_loop (S fuel) slice' (done e nw) (suf ++ t) next = Ok (e, n, t)).
    { intros RN ->. rewrite RN, DD in H.
      destruct (fl_destination_options nw) eqn:FD.
      - cbn [is_some] in H.
        destruct (read_raw true slice rest) as [[[h nh] rest']|x| |] eqn:R; cbn [bind] in H; try discriminate.
        destruct (read_raw_inv _ _ _ _ _ _ OK R) as (VH & -> & ->).
        pose proof (from_slice_loop_mono _ _ _ _ _ _ _ _ H) as (_ & M & _).
        specialize (M h eq_refl).
        assert (DE : set_dst (done e nw) h = done e (clr_dst nw)).
        { unfold done, set_dst, clr_dst. cbn. rewrite M. reflexivity. }
        rewrite DE in H. apply bytes_ok_app_r in OK.
        destruct (IH e (clr_dst nw) (r_next_header h) false
                    (w ++ r_next_header h :: r_header_length h :: r_payload h) slice rest' n r V
                    (Inv_clr_dst _ _ _ I0) (flags_ok_clr_dst _ _ FO) OK H) as (suf & cons & W & -> & HE & NH & RE).
        exists ((r_next_header h :: r_header_length h :: r_payload h) ++ suf),
               ((r_next_header h :: r_header_length h :: r_payload h) ++ cons).
        split; [|split; [rewrite <- app_assoc; reflexivity|split; [apply he_same; exact HE|split]]].
        + cbn [write_loop]. rewrite A, FD, M, (raw_to_bytes_valid h VH), W. rewrite <- app_assoc. reflexivity.
        + cbn [next_header_loop]. rewrite A, FD, M. exact NH.
        + intros slice' t. cbn [from_slice_loop]. rewrite A, RN, DD. cbn [is_some].
          rewrite <- app_assoc, (read_raw_written h true slice' (suf ++ t) VH). cbn [bind]. rewrite DE. apply RE.
      - destruct (destination_options e) as [h|] eqn:ED; cbn [is_some] in H.
        + injection H as D <- <-. apply STOP; auto.
          unfold stops. rewrite A. rewrite D in RN. rewrite RN, ED. reflexivity.
        + exfalso.
          destruct (read_raw true slice rest) as [[[h nh] rest']|x| |] eqn:R; cbn [bind] in H; try discriminate.
          pose proof (from_slice_loop_mono _ _ _ _ _ _ _ _ H) as (_ & M & _).
          specialize (M h eq_refl). congruence. }
    destruct (fl_routing nw) eqn:FR.
    + cbn in I1. subst rw. apply PLAIN; [exact RD|reflexivity].
    + destruct (routing e) as [re|] eqn:ER.
      * cbn in I1. subst rw. rewrite RD in H. cbn [rt_final_destination_options rt_routing] in H.
        cbn [opt_valid] in Vr. apply routing_valid_inv in Vr. destruct Vr as [Vrt Vfin].
        destruct (fl_final_destination_options nw) eqn:FF.
        -- cbn [is_some] in H.
           destruct (read_raw true slice rest) as [[[h nh] rest']|x| |] eqn:R; cbn [bind] in H; try discriminate.
           destruct (read_raw_inv _ _ _ _ _ _ OK R) as (VH & -> & ->).
           pose proof (from_slice_loop_mono _ _ _ _ _ _ _ _ H) as (_ & _ & M & _).
           destruct (M _ eq_refl) as (re' & E' & _ & MF). rewrite ER in E'. injection E' as <-.
           specialize (MF h eq_refl).
           assert (DE : set_routing (done e nw) (mkRouting (rt_routing re) (Some h)) = done e (clr_final nw)).
           { unfold done, set_routing, clr_final. cbn. rewrite FR, ER, MF. reflexivity. }
           rewrite DE in H. apply bytes_ok_app_r in OK.
           destruct (IH e (clr_final nw) (r_next_header h) true
                       (w ++ r_next_header h :: r_header_length h :: r_payload h) slice rest' n r V
                       (Inv_clr_final _ _ I0) (flags_ok_clr_final _ _ FO) OK H)
             as (suf & cons & W & -> & HE & NH & RE).
           exists ((r_next_header h :: r_header_length h :: r_payload h) ++ suf),
                  ((r_next_header h :: r_header_length h :: r_payload h) ++ cons).
           split; [|split; [rewrite <- app_assoc; reflexivity|split; [apply he_same; exact HE|split]]].
           ++ cbn [write_loop]. rewrite A, FF, ER, MF, (raw_to_bytes_valid h VH), W. rewrite <- app_assoc. reflexivity.
           ++ cbn [next_header_loop]. rewrite A, FF, ER, MF. exact NH.
           ++ intros slice' t. cbn [from_slice_loop]. rewrite A, RD.
              cbn [rt_final_destination_options rt_routing is_some].
              rewrite <- app_assoc, (read_raw_written h true slice' (suf ++ t) VH). cbn [bind]. rewrite DE. apply RE.
        -- destruct (rt_final_destination_options re) as [hf|] eqn:EF; cbn [is_some] in H.
           ++ injection H as D <- <-. apply STOP; auto.
              unfold stops. rewrite A, ER, EF. reflexivity.
           ++ exfalso.
              destruct (read_raw true slice rest) as [[[h nh] rest']|x| |] eqn:R; cbn [bind] in H; try discriminate.
              pose proof (from_slice_loop_mono _ _ _ _ _ _ _ _ H) as (_ & _ & M & _).
              destruct (M _ eq_refl) as (re' & E' & _ & MF). rewrite ER in E'. injection E' as <-.
              specialize (MF h eq_refl). congruence.
      * cbn in I1. subst rw. apply PLAIN; [exact RD|reflexivity].
  - (* routing *)
    assert (RD : routing (done e nw) =
                 if fl_routing nw then None
                 else match routing e with
                      | Some r => Some (mkRouting (rt_routing r)
                                          (if fl_final_destination_options nw then None
                                           else rt_final_destination_options r))
                      | None => None
                      end) by reflexivity.
    destruct (fl_routing nw) eqn:FR.
    + rewrite RD in H. cbn [is_some] in H.
      destruct (read_raw true slice rest) as [[[h nh] rest']|x| |] eqn:R; cbn [bind] in H; try discriminate.
      destruct (read_raw_inv _ _ _ _ _ _ OK R) as (VH & -> & ->).
      pose proof (from_slice_loop_mono _ _ _ _ _ _ _ _ H) as (_ & _ & M & _).
      destruct (M _ eq_refl) as (re & ER & ERT & _). cbn [rt_routing] in ERT.
      pose proof I as I0. destruct I as [I1 I2]. specialize (I2 FR). unfold has_final in I2. rewrite ER in I2.
      assert (DE : set_routing (done e nw) (mkRouting h None) = done e (clr_routing nw)).
      { unfold done, set_routing, clr_routing. cbn. rewrite ER, ERT, I2.
        destruct (rt_final_destination_options re); reflexivity. }
      rewrite DE in H. apply bytes_ok_app_r in OK.
      destruct (IH e (clr_routing nw) (r_next_header h) true
                  (w ++ r_next_header h :: r_header_length h :: r_payload h) slice rest' n r V
                  (Inv_clr_routing _ _ rw _ ER I0) (flags_ok_clr_routing _ _ FO) OK H)
        as (suf & cons & W & -> & HE & NH & RE).
      exists ((r_next_header h :: r_header_length h :: r_payload h) ++ suf),
             ((r_next_header h :: r_header_length h :: r_payload h) ++ cons).
      split; [|split; [rewrite <- app_assoc; reflexivity|split; [apply he_same; exact HE|split]]].
      * cbn [write_loop]. rewrite A, FR, ER, ERT, (raw_to_bytes_valid h VH), W. rewrite <- app_assoc. reflexivity.
      * cbn [next_header_loop]. rewrite A, FR, ER, ERT. exact NH.
      * intros slice' t. cbn [from_slice_loop]. rewrite A, RD. cbn [is_some].
        rewrite <- app_assoc, (read_raw_written h true slice' (suf ++ t) VH). cbn [bind]. rewrite DE. apply RE.
    + rewrite RD in H. destruct (routing e) as [re|] eqn:ER; cbn [is_some] in H.
      * injection H as D <- <-. apply STOP; auto. unfold stops. rewrite A, ER. reflexivity.
      * exfalso.
        destruct (read_raw true slice rest) as [[[h nh] rest']|x| |] eqn:R; cbn [bind] in H; try discriminate.
        pose proof (from_slice_loop_mono _ _ _ _ _ _ _ _ H) as (_ & _ & M & _).
        destruct (M _ eq_refl) as (re & ER' & _). congruence.
  - (* fragment *)
    assert (FD : fragment (done e nw) = if fl_fragment nw then None else fragment e) by reflexivity.
    destruct (fl_fragment nw) eqn:FF.
    + rewrite FD in H. cbn [is_some] in H.
      destruct (read_frag slice rest) as [[[h nh] rest']|x| |] eqn:R; cbn [bind] in H; try discriminate.
      destruct (read_frag_inv _ _ _ _ _ OK R) as (VH & -> & b0 & b1 & b2 & b3 & b4 & b5 & b6 & b7 & -> & TB).
      pose proof (from_slice_loop_mono _ _ _ _ _ _ _ _ H) as (_ & _ & _ & M & _).
      specialize (M h eq_refl).
      assert (DE : set_frag (done e nw) h = done e (clr_frag nw)).
      { unfold done, set_frag, clr_frag. cbn. rewrite M. reflexivity. }
      rewrite DE in H. apply bytes_ok_app_r in OK.
      destruct (IH e (clr_frag nw) (f_next_header h) rw (w ++ frag_to_bytes h) slice rest' n r V
                  (Inv_clr_frag _ _ _ I) (flags_ok_clr_frag _ _ FO) OK H) as (suf & cons & W & -> & HE & NH & RE).
      exists (frag_to_bytes h ++ suf), ([b0; b1; b2; b3; b4; b5; b6; b7] ++ cons).
      split; [|split; [rewrite <- app_assoc; reflexivity|split; [rewrite TB; apply he_frag; exact HE|split]]].
      * cbn [write_loop]. rewrite A, FF, M, W. rewrite <- app_assoc. reflexivity.
      * cbn [next_header_loop]. rewrite A, FF, M. exact NH.
      * intros slice' t. cbn [from_slice_loop]. rewrite A, FD. cbn [is_some].
        rewrite <- app_assoc, (read_frag_written h slice' (suf ++ t) VH). cbn [bind]. rewrite DE. apply RE.
    + rewrite FD in H. destruct (fragment e) as [h|] eqn:EF; cbn [is_some] in H.
      * injection H as D <- <-. apply STOP; auto. unfold stops. rewrite A, EF. reflexivity.
      * exfalso.
        destruct (read_frag slice rest) as [[[h nh] rest']|x| |] eqn:R; cbn [bind] in H; try discriminate.
        pose proof (from_slice_loop_mono _ _ _ _ _ _ _ _ H) as (_ & _ & _ & M & _).
        specialize (M h eq_refl). congruence.
  - (* authentication *)
    assert (FD : auth (done e nw) = if fl_auth nw then None else auth e) by reflexivity.
    destruct (fl_auth nw) eqn:FF.
    + rewrite FD in H. cbn [is_some] in H.
      destruct (read_auth slice rest) as [[[h nh] rest']|x| |] eqn:R; cbn [bind] in H; try discriminate.
      destruct (read_auth_inv _ _ _ _ _ OK R) as (VH & -> & b0 & b1 & b2 & b3 & body & -> & TB).
      pose proof (from_slice_loop_mono _ _ _ _ _ _ _ _ H) as (_ & _ & _ & _ & M).
      specialize (M h eq_refl).
      assert (DE : set_auth (done e nw) h = done e (clr_auth nw)).
      { unfold done, set_auth, clr_auth. cbn. rewrite M. reflexivity. }
      rewrite DE in H. apply bytes_ok_app_r in OK. apply bytes_ok_app_r in OK.
      destruct (IH e (clr_auth nw) (a_next_header h) rw (w ++ auth_bytes h) slice rest' n r V
                  (Inv_clr_auth _ _ _ I) (flags_ok_clr_auth _ _ FO) OK H) as (suf & cons & W & -> & HE & NH & RE).
      exists (auth_bytes h ++ suf), (([b0; b1; b2; b3] ++ body) ++ cons).
      split; [|split; [rewrite <- !app_assoc; reflexivity|split; [rewrite TB; apply he_auth; exact HE|split]]].
      * cbn [write_loop]. rewrite A, FF, M, (auth_to_bytes_valid h VH), W. rewrite <- app_assoc. reflexivity.
      * cbn [next_header_loop]. rewrite A, FF, M. exact NH.
      * intros slice' t. cbn [from_slice_loop]. rewrite A, FD. cbn [is_some].
        rewrite <- app_assoc, (read_auth_written h slice' (suf ++ t) VH). cbn [bind]. rewrite DE. apply RE.
    + rewrite FD in H. destruct (auth e) as [h|] eqn:EF; cbn [is_some] in H.
      * injection H as D <- <-. apply STOP; auto. unfold stops. rewrite A, EF. reflexivity.
      * exfalso.
        destruct (read_auth slice rest) as [[[h nh] rest']|x| |] eqn:R; cbn [bind] in H; try discriminate.
        pose proof (from_slice_loop_mono _ _ _ _ _ _ _ _ H) as (_ & _ & _ & _ & M).
        specialize (M h eq_refl). congruence.
  - injection H as D <- <-. apply STOP; auto. unfold stops. rewrite A. reflexivity.
Qed.

(* C08 decode -> encode for Ipv6Extensions: every accepted byte string (also chains on which the
   decoder stops early because a header kind repeats) *)
Theorem exts6_enc_dec first bs e n r : bytes_ok bs -> from_slice first bs = Ok (e, n, r) ->
  exts6_valid e = true /\
  exists bs' cons, write e first = (bs', Ok tt) /\ next_header e first = Ok n
    /\ bs = cons ++ r /\ hdr_eq bs' cons /\ len bs' = header_len e
    /\ forall t, from_slice first (bs' ++ t) = Ok (e, n, t).
Proof.
  intros OK H. unfold from_slice in H.
  assert (VD : exts6_valid exts6_default = true) by reflexivity.
  destruct (IPV6_HOP_BY_HOP =? first) eqn:E0.
  - destruct (read_raw false bs bs) as [[[h nh] rest']|x| |] eqn:R; cbn [bind] in H; try discriminate.
    destruct (read_raw_inv _ _ _ _ _ _ OK R) as (VH & -> & EB).
    assert (OK' : bytes_ok rest') by (rewrite EB in OK; apply bytes_ok_app_r in OK; exact OK).
    assert (VS : exts6_valid (set_hop exts6_default h) = true).
    { unfold exts6_valid, set_hop. cbn. rewrite VH. reflexivity. }
    destruct (from_slice_loop_valid _ _ _ _ _ _ _ _ OK' VS H) as [V _].
    pose proof (from_slice_loop_mono _ _ _ _ _ _ _ _ H) as (MH & _). cbn in MH.
    split; [exact V|].
    rewrite <- (done_init_hop e h MH) in H.
    destruct (write_mirror LOOP_FUEL e (clr_hop (flags_init e)) (r_next_header h) false
                (r_next_header h :: r_header_length h :: r_payload h) bs rest' n r V
                (Inv_clr_hop _ _ _ (Inv_init e)) (flags_ok_clr_hop _ _ (flags_ok_init e)) OK' H)
      as (suf & cons & W & -> & HE & NH & RE).
    assert (WE : write e first = ((r_next_header h :: r_header_length h :: r_payload h) ++ suf, Ok tt)).
    { unfold write. rewrite E0, MH, (raw_to_bytes_valid h VH). exact W. }
    exists ((r_next_header h :: r_header_length h :: r_payload h) ++ suf),
           ((r_next_header h :: r_header_length h :: r_payload h) ++ cons).
    split; [exact WE|]. split; [unfold next_header; rewrite E0, MH; exact NH|].
    split; [rewrite EB, <- app_assoc; reflexivity|]. split; [apply he_same; exact HE|].
    split; [exact (write_len e first _ V WE)|].
    intros t. unfold from_slice. rewrite E0.
    rewrite <- app_assoc, (read_raw_written h false _ (suf ++ t) VH). cbn [bind].
    rewrite <- (done_init_hop e h MH). apply RE.
  - destruct (from_slice_loop_valid _ _ _ _ _ _ _ _ OK VD H) as [V _].
    split; [exact V|].
    rewrite <- (done_init e) in H.
    destruct (write_mirror LOOP_FUEL e (flags_init e) first false [] bs bs n r V
                (Inv_init e) (flags_ok_init e) OK H) as (suf & cons & W & EB & HE & NH & RE).
    cbn [app] in W.
    assert (WE : write e first = (suf, Ok tt)) by (unfold write; rewrite E0; exact W).
    exists suf, cons. split; [exact WE|]. split; [unfold next_header; rewrite E0; exact NH|].
    split; [exact EB|]. split; [exact HE|]. split; [exact (write_len e first _ V WE)|].
    intros t. unfold from_slice. rewrite E0. rewrite <- (done_init e). apply RE.
Qed.
