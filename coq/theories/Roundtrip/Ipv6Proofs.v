(* Roundtrip/Ipv6Proofs.v -- C08 for Ipv6Header *)
From EP Require Import Base.Bytes Roundtrip.Common Roundtrip.CommonProofs Roundtrip.Ipv6.
From Coq Require Import ZArith Lia ZifyN.
Local Open Scope N_scope.

(* ---- byte level facts (complete sweeps) ---- *)
Definition ip6_P (tc : N) : bool :=
  all_below 16 (fun f1 =>
    let b0 := ip6_byte0 tc in let b1 := ip6_byte1 tc f1 in
    (shr b0 4 =? 6) && (bor (shl8 b0 4) (shr b1 4) =? tc) && (band b1 15 =? f1) && (b0 <? 256) && (b1 <? 256)
    && (bor (shl8 (band b0 15) 4) (shr b1 4) =? tc)
    && (b0 =? 96 + tc / 16) && (b1 =? (tc mod 16) * 16 + f1)).
Lemma ip6_sweepP : all_below 256 ip6_P = true.
Proof. vm_compute. reflexivity. Qed.

Lemma ip6_P_facts tc f1 : tc < 256 -> f1 < 16 ->
  let b0 := ip6_byte0 tc in let b1 := ip6_byte1 tc f1 in
  shr b0 4 = 6 /\ bor (shl8 b0 4) (shr b1 4) = tc /\ band b1 15 = f1 /\ b0 < 256 /\ b1 < 256
  /\ bor (shl8 (band b0 15) 4) (shr b1 4) = tc /\ b0 = 96 + tc / 16 /\ b1 = (tc mod 16) * 16 + f1.
Proof.
  intros H1 H2. pose proof (all_byte ip6_P ip6_sweepP tc H1) as S. unfold ip6_P in S.
  pose proof (all_below_spec 16 _ S f1 ltac:(lia)) as S'. cbv beta zeta in S'. bsplit S'.
  cbv zeta. repeat split; assumption.
Qed.

Definition ip6_Q (b0 : N) : bool :=
  if shr b0 4 =? 6 then
    all_below 256 (fun b1 =>
      let tc := bor (shl8 b0 4) (shr b1 4) in
      (ip6_byte0 tc =? b0) && (ip6_byte1 tc (band b1 15) =? b1) && (tc <? 256) && (band b1 15 <? 16)
      && (bor (shl8 (band b0 15) 4) (shr b1 4) =? tc))
  else true.
Lemma ip6_sweepQ : all_below 256 ip6_Q = true.
Proof. vm_compute. reflexivity. Qed.

Lemma ip6_Q_facts b0 b1 : b0 < 256 -> b1 < 256 -> shr b0 4 = 6 ->
  let tc := bor (shl8 b0 4) (shr b1 4) in
  ip6_byte0 tc = b0 /\ ip6_byte1 tc (band b1 15) = b1 /\ tc < 256 /\ band b1 15 < 16
  /\ bor (shl8 (band b0 15) 4) (shr b1 4) = tc.
Proof.
  intros H0 H1 V. pose proof (all_byte ip6_Q ip6_sweepQ b0 H0) as S. unfold ip6_Q in S.
  rewrite V in S. change (6 =? 6) with true in S. cbv iota in S.
  pose proof (all_byte _ S b1 H1) as S'. cbv beta zeta in S'. bsplit S'. cbv zeta. repeat split; assumption.
Qed.

(* ---- flow label: 20 bits in a u32 ---- *)
Lemma ip6_fl_digits fl : fl < 1048576 ->
  (fl / 256 / 256 / 256) mod 256 = 0 /\ (fl / 256 / 256) mod 256 < 16
  /\ be32 0 ((fl / 256 / 256) mod 256) ((fl / 256) mod 256) (fl mod 256) = fl.
Proof.
  intros H.
  assert (B : fl < 4294967296) by lia.
  pose proof (u32_be_roundtrip fl B) as R.
  assert (Z : fl / 256 / 256 / 256 = 0).
  { rewrite !N.div_div by lia. apply N.div_small. lia. }
  assert (F : fl / 256 / 256 < 16).
  { rewrite N.div_div by lia. apply N.div_lt_upper_bound; lia. }
  rewrite Z in *. rewrite (N.mod_small 0 256) in * by lia.
  rewrite (N.mod_small (fl / 256 / 256) 256) in * by lia.
  repeat split; assumption.
Qed.

Lemma ip6_wf_facts h : wf_ip6 h = true ->
  i6_traffic_class h < 256 /\ i6_flow_label h < 1048576 /\ i6_payload_length h < 65536
  /\ i6_next_header h < 256 /\ i6_hop_limit h < 256
  /\ len (i6_source h) = 16 /\ bytes_ok (i6_source h)
  /\ len (i6_destination h) = 16 /\ bytes_ok (i6_destination h).
Proof. unfold wf_ip6. intros W. bsplit W. repeat split; try assumption; apply bytes_okb_spec; assumption. Qed.

(* the first 8 bytes *)
Definition ip6_head (h : Ipv6Header) : bytes :=
  [ip6_byte0 (i6_traffic_class h);
   ip6_byte1 (i6_traffic_class h) ((i6_flow_label h / 256 / 256) mod 256);
   (i6_flow_label h / 256) mod 256; i6_flow_label h mod 256;
   (i6_payload_length h / 256) mod 256; i6_payload_length h mod 256;
   i6_next_header h; i6_hop_limit h].

Lemma ip6_to_bytes_explicit h : ip6_to_bytes h = ip6_head h ++ i6_source h ++ i6_destination h.
Proof. reflexivity. Qed.

Lemma len_ip6_to_bytes h : wf_ip6 h = true -> len (ip6_to_bytes h) = 40.
Proof.
  intros W. destruct (ip6_wf_facts h W) as (_ & _ & _ & _ & _ & LS & _ & LD & _).
  rewrite ip6_to_bytes_explicit, !len_app, LS, LD. reflexivity.
Qed.

Theorem ip6_ser_agree h out : wf_ip6 h = true ->
  ip6_write out h = out ++ ip6_to_bytes h /\ len (ip6_to_bytes h) = ip6_header_len h.
Proof. intros W. split; [reflexivity|apply len_ip6_to_bytes; assumption]. Qed.

Lemma slice_range_mid (A B C : bytes) a b : len A = a -> b = a + len B -> slice_range (A ++ B ++ C) a b = Some B.
Proof.
  intros LA ->. unfold slice_range. rewrite !len_app, LA.
  replace (a <=? a + len B) with true by (symmetry; apply N.leb_le; lia).
  replace (a + len B <=? a + (len B + len C)) with true by (symmetry; apply N.leb_le; lia).
  cbn [andb]. f_equal. rewrite (drop_app_len A) by (symmetry; exact LA).
  apply take_app_len. lia.
Qed.

Lemma ip6_to_header_enc h : wf_ip6 h = true -> ip6_to_header (ip6_to_bytes h) = Ok h.
Proof.
  intros W. destruct (ip6_wf_facts h W) as (R1 & R2 & R3 & R4 & R5 & LS & BS & LD & BD).
  destruct (ip6_fl_digits _ R2) as (F0 & F1 & F2).
  destruct (ip6_P_facts _ _ R1 F1) as (P1 & P2 & P3 & P4 & P5 & _). cbv zeta in *.
  assert (S1 : slice_range (ip6_to_bytes h) 8 24 = Some (i6_source h)).
  { rewrite ip6_to_bytes_explicit. apply slice_range_mid; [reflexivity|rewrite LS; reflexivity]. }
  assert (S2 : slice_range (ip6_to_bytes h) 24 40 = Some (i6_destination h)).
  { rewrite ip6_to_bytes_explicit, app_assoc. rewrite <- (app_nil_r (i6_destination h)) at 1.
    apply slice_range_mid; [rewrite len_app, LS; reflexivity|rewrite LD; reflexivity]. }
  revert S1 S2. rewrite ip6_to_bytes_explicit. unfold ip6_head. cbn [app]. intros S1 S2.
  unfold ip6_to_header. rewrite S1, S2, P2, P3, F2, (u16_be_roundtrip _ R3). destruct h. reflexivity.
Qed.

Theorem ip6_dec_enc h rest : wf_ip6 h = true ->
  ip6_from_slice (ip6_to_bytes h ++ rest) = Ok (h, rest) /\ ip6_read (ip6_to_bytes h ++ rest) = Ok (h, rest).
Proof.
  intros W. pose proof (ip6_to_header_enc h W) as HD. pose proof (len_ip6_to_bytes h W) as LE.
  destruct (ip6_wf_facts h W) as (R1 & R2 & R3 & R4 & R5 & LS & BS & LD & BD).
  destruct (ip6_fl_digits _ R2) as (F0 & F1 & F2).
  destruct (ip6_P_facts _ _ R1 F1) as (P1 & P2 & P3 & P4 & P5 & P6 & _). cbv zeta in *.
  split.
  - unfold ip6_from_slice, ip6_slice_from_slice, slice_from. rewrite len_app, LE.
    replace (40 + len rest <? 40) with false by (symmetry; apply N.ltb_ge; lia).
    replace (40 <=? 40 + len rest) with true by (symmetry; apply N.leb_le; lia).
    assert (R0 : rd (ip6_to_bytes h ++ rest) 0 = Some (ip6_byte0 (i6_traffic_class h))) by reflexivity.
    rewrite R0, P1. change (6 =? 6) with true. cbn [negb].
    rewrite (take_app_len (ip6_to_bytes h)) by (symmetry; exact LE).
    rewrite (drop_app_len (ip6_to_bytes h)) by (symmetry; exact LE). rewrite HD. reflexivity.
  - set (T := [ip6_byte1 (i6_traffic_class h) ((i6_flow_label h / 256 / 256) mod 256);
               (i6_flow_label h / 256) mod 256; i6_flow_label h mod 256;
               (i6_payload_length h / 256) mod 256; i6_payload_length h mod 256;
               i6_next_header h; i6_hop_limit h]).
    set (B39 := T ++ i6_source h ++ i6_destination h).
    assert (L39 : len B39 = 39) by (unfold B39; rewrite !len_app, LS, LD; reflexivity).
    assert (EQ : ip6_to_bytes h ++ rest = [ip6_byte0 (i6_traffic_class h)] ++ (B39 ++ rest)).
    { rewrite ip6_to_bytes_explicit. unfold B39, ip6_head, T. cbn [app]. rewrite <- !app_assoc. reflexivity. }
    rewrite EQ. unfold ip6_read. unfold read_exact at 1. rewrite len_app.
    change (len [ip6_byte0 (i6_traffic_class h)]) with 1.
    replace (1 + len (B39 ++ rest) <? 1) with false by (symmetry; apply N.ltb_ge; lia).
    rewrite take_app_len, drop_app_len by reflexivity. cbv iota beta zeta.
    rewrite P1. change (6 =? 6) with true. cbn [negb].
    unfold ip6_read_without_version, read_exact. rewrite len_app, L39.
    replace (39 + len rest <? 39) with false by (symmetry; apply N.ltb_ge; lia).
    rewrite (take_app_len B39) by (symmetry; exact L39). rewrite (drop_app_len B39) by (symmetry; exact L39).
    assert (S1 : slice_range B39 7 23 = Some (i6_source h)).
    { unfold B39. apply slice_range_mid; [reflexivity|rewrite LS; reflexivity]. }
    assert (S2 : slice_range B39 23 39 = Some (i6_destination h)).
    { unfold B39. rewrite app_assoc. rewrite <- (app_nil_r (i6_destination h)) at 1.
      apply slice_range_mid; [rewrite len_app, LS; reflexivity|rewrite LD; reflexivity]. }
    revert S1 S2. unfold B39, T. cbn [app]. intros S1 S2. rewrite S1, S2.
    rewrite P6, P3, F2, (u16_be_roundtrip _ R3). destruct h. reflexivity.
Qed.

(* no reserved bits: re-encoding reproduces the 40 consumed bytes exactly *)
Theorem ip6_enc_dec bs h rest : bytes_ok bs -> ip6_from_slice bs = Ok (h, rest) ->
  wf_ip6 h = true /\ bs = ip6_to_bytes h ++ rest /\ len (ip6_to_bytes h) = 40
  /\ ip6_from_slice (ip6_to_bytes h) = Ok (h, []).
Proof.
  intros OK H. unfold ip6_from_slice, ip6_slice_from_slice in H.
  destruct (len bs <? 40) eqn:L; [discriminate|]. apply N.ltb_ge in L.
  destruct bs as [|b0 [|b1 [|b2 [|b3 [|b4 [|b5 [|b6 [|b7 r]]]]]]]];
    try (rewrite ?len_cons, ?len_nil in L; lia).
  match type of H with context [rd ?s 0] => change (rd s 0) with (Some b0) in H end.
  cbv iota beta zeta in H.
  destruct (shr b0 4 =? 6) eqn:V; [|discriminate]. cbn [negb] in H. apply N.eqb_eq in V.
  pose proof OK as OK'. bytes_ok_split OK'.
  set (H8 := [b0; b1; b2; b3; b4; b5; b6; b7]) in *.
  set (bs := b0 :: b1 :: b2 :: b3 :: b4 :: b5 :: b6 :: b7 :: r) in *.
  assert (EB : bs = H8 ++ r) by reflexivity.
  assert (LR : 32 <= len r) by (unfold bs in L; rewrite !len_cons in L; lia).
  set (S := take 16 r). set (D := take 16 (drop 16 r)).
  assert (LS : len S = 16) by (unfold S; rewrite len_take; lia).
  assert (LD : len D = 16) by (unfold D; rewrite len_take, len_drop; lia).
  assert (T32 : take 32 r = S ++ D) by (apply (take_drop_split r 16 16)).
  assert (TK : take 40 bs = H8 ++ S ++ D).
  { rewrite EB, <- T32. apply take_app_more. reflexivity. }
  assert (RS : r = S ++ D ++ drop 32 r) by (rewrite app_assoc, <- T32; symmetry; apply take_drop).
  assert (BS : bytes_ok S) by (unfold S; apply bytes_ok_take; exact OK').
  assert (BD : bytes_ok D) by (unfold D; apply bytes_ok_take, bytes_ok_drop; exact OK').
  rewrite TK in H.
  assert (S1 : slice_range (H8 ++ S ++ D) 8 24 = Some S)
    by (apply slice_range_mid; [reflexivity|rewrite LS; reflexivity]).
  assert (S2 : slice_range (H8 ++ S ++ D) 24 40 = Some D).
  { rewrite app_assoc. rewrite <- (app_nil_r D) at 1.
    apply slice_range_mid; [rewrite len_app, LS; reflexivity|rewrite LD; reflexivity]. }
  revert S1 S2 H. unfold H8. cbn [app]. intros S1 S2 H. unfold ip6_to_header in H. rewrite S1, S2 in H.
  unfold slice_from in H. replace (40 <=? len bs) with true in H by (symmetry; apply N.leb_le; exact L).
  apply Ok_inj in H. apply pair_equal_spec in H. destruct H as [Hh Hrest].
  destruct (ip6_Q_facts b0 b1 B B0 V) as (Q1 & Q2 & Q3 & Q4 & _). cbv zeta in *.
  pose proof (u32_to_be_be32 0 (band b1 15) b2 b3 ltac:(lia) ltac:(lia) B1 B2) as FL.
  unfold u32_to_be in FL. injection FL as FL0 FL1 FL2 FL3.
  pose proof (u16_to_be_be16 b4 b5 B3 B4) as PL. unfold u16_to_be in PL. injection PL as PL0 PL1.
  assert (FB : be32 0 (band b1 15) b2 b3 < 1048576) by (unfold be32; lia).
  assert (WF : wf_ip6 h = true).
  { rewrite <- Hh. unfold wf_ip6.
    cbn [i6_traffic_class i6_flow_label i6_payload_length i6_next_header i6_hop_limit i6_source i6_destination].
    pose proof (be16_bound b4 b5 B3 B4) as X.
    apply N.ltb_lt in Q3, FB, X, B5, B6. rewrite Q3, FB, X, B5, B6, LS, LD. cbn [andb].
    change (16 =? 16) with true. cbn [andb].
    apply bytes_okb_spec in BS, BD. rewrite BS, BD. reflexivity. }
  assert (ENC : ip6_to_bytes h = H8 ++ S ++ D).
  { rewrite ip6_to_bytes_explicit. rewrite <- Hh. unfold ip6_head.
    cbn [i6_traffic_class i6_flow_label i6_payload_length i6_next_header i6_hop_limit i6_source i6_destination].
    rewrite FL1, FL2, FL3, PL0, PL1, Q1, Q2. reflexivity. }
  split; [exact WF|]. split; [|split].
  - rewrite ENC, <- Hrest. change (drop 40 bs) with (drop 32 r). rewrite EB.
    rewrite (app_assoc H8), <- (app_assoc (H8 ++ S)), <- (app_assoc H8). f_equal. exact RS.
  - apply len_ip6_to_bytes. exact WF.
  - destruct (ip6_dec_enc h [] WF) as [E _]. rewrite app_nil_r in E. exact E.
Qed.

(* ---- the serialiser writes the RFC 8200 layout ---- *)
From EP Require Import Roundtrip.Spec Roundtrip.SpecLinkNet.

Theorem ip6_spec h : wf_ip6 h = true ->
  ip6_to_bytes h = ipv6_layout (i6_traffic_class h) (i6_flow_label h) (i6_payload_length h)
                     (i6_next_header h) (i6_hop_limit h) (i6_source h) (i6_destination h).
Proof.
  intros W. destruct (ip6_wf_facts h W) as (R1 & R2 & R3 & R4 & R5 & LS & BS & LD & BD).
  destruct (ip6_fl_digits _ R2) as (F0 & F1 & F2).
  destruct (ip6_P_facts _ _ R1 F1) as (_ & _ & _ & P4 & P5 & _ & P7 & P8). cbv zeta in *.
  rewrite ip6_to_bytes_explicit. unfold ipv6_layout, ip6_head.
  set (f1 := (i6_flow_label h / 256 / 256) mod 256) in *.
  set (f2 := (i6_flow_label h / 256) mod 256) in *. set (f3 := i6_flow_label h mod 256) in *.
  assert (B2 : f2 < 256) by (apply N.mod_lt; lia). assert (B3 : f3 < 256) by (apply N.mod_lt; lia).
  set (b0 := ip6_byte0 (i6_traffic_class h)) in *.
  set (b1 := ip6_byte1 (i6_traffic_class h) f1) in *.
  assert (E : 6 * 268435456 + i6_traffic_class h * 1048576 + i6_flow_label h = be32 b0 b1 f2 f3).
  { rewrite <- F2 at 1. unfold be32. rewrite P7, P8.
    pose proof (N.div_mod (i6_traffic_class h) 16 ltac:(lia)) as X.
    set (th := i6_traffic_class h / 16) in *. set (tl := i6_traffic_class h mod 16) in *.
    clearbody th tl f1 f2 f3. lia. }
  rewrite E. change (field 4 (be32 b0 b1 f2 f3)) with (u32_to_be (be32 b0 b1 f2 f3)).
  rewrite (u32_to_be_be32 b0 b1 f2 f3 P4 P5 B2 B3). reflexivity.
Qed.
