(* Roundtrip/IpHeadersReadAny.v -- audit follow-up (C08): IpHeaders::read of a written well-formed value,
   whatever follows the headers in the reader.

   C08_IpHeaders_dec_enc states the read half for IPv6 under `iph_read_room h rest`
   (payload_length - extension length <= len rest: the reader holds the announced payload), because C12's
   read_limited theorems (ExtChain/ReadProofs.v, `m_ok`) are stated for a LimitedReader whose budget lies within
   the data.  The crate's read never looks at the payload; the hypothesis is a proof artefact.  Here it is
   removed: a successful run of Ipv6Extensions::read_limited does not depend on how much budget is left
   over (`mono_read6`: same reader calls, same bytes, same verdict under any larger max_len), so the run with
   budget = exactly the extension headers (where C12's theorem applies) is the run with budget =
   payload_length.  Header-only Cursors included. *)
From EP Require Import Base.Bytes Roundtrip.Common Roundtrip.CommonProofs Roundtrip.LinkNetLemmas.
From EP Require Import Checksum.Model.
From EP Require Import Roundtrip.Ipv4 Roundtrip.Ipv4Proofs Roundtrip.Ipv6 Roundtrip.Ipv6Proofs Roundtrip.Auth Roundtrip.Exts4
  Roundtrip.IpHeaders Roundtrip.IpHeadersProofs.
From EP Require IoFault.Spec IoFault.Model IoFault.Proofs ExtChain.Spec ExtChain.Model ExtChain.Proofs
  ExtChain.ReadModel ExtChain.ReadView ExtChain.ReadProofs Roundtrip.Exts6Proofs.
From Coq Require Import ZArith Lia ZifyN ZifyBool.
Local Open Scope N_scope.
Module XM := EP.ExtChain.Model.
Module XS := EP.ExtChain.Spec.
Module XR := EP.ExtChain.ReadModel.
Module XV := EP.ExtChain.ReadView.
Module XRP := EP.ExtChain.ReadProofs.
Module IOM := EP.IoFault.Model.
Module IOS := EP.IoFault.Spec.

(* ---- a LimitedReader with a larger budget: every successful run stays the same ---- *)
Definition bump (d : N) (r : IOM.limrd) : IOM.limrd :=
  IOM.mk_limrd (IOM.lr_max r + d) (IOM.lr_source r) (IOM.lr_layer r) (IOM.lr_off r) (IOM.lr_read r).
Definition bump_st (d : N) (st : IOM.rstate) : IOM.rstate :=
  IOM.mk_rstate (IOM.rs_src st) (option_map (bump d) (IOM.rs_lim st)).

(* f's successful runs do not depend on how much budget is left over *)
Definition mono {A} (f : IOM.rstate -> IOM.qres A * IOM.rstate) : Prop :=
  forall d st a st', f st = (IOM.QOk a, st') -> f (bump_st d st) = (IOM.QOk a, bump_st d st').

Lemma mono_qbind {A B} (f : IOM.rstate -> IOM.qres A * IOM.rstate) (k : A -> IOM.rstate -> IOM.qres B * IOM.rstate) :
  mono f -> (forall a, mono (k a)) -> mono (fun st => XR.qbind (f st) k).
Proof.
  intros Hf Hk d st b st' H. cbv beta in *.
  destruct (f st) as [[a|x|e|c| | |] st1] eqn:F; cbn [XR.qbind] in H; try discriminate.
  rewrite (Hf d st a st1 F). cbn [XR.qbind]. apply Hk, H.
Qed.

Lemma mono_ret {A} (a : A) : mono (fun st => (IOM.QOk a, st)).
Proof. intros d st b st' H. injection H as <- <-. reflexivity. Qed.

Lemma mono_rd_exact n : mono (fun st => XR.rd_exact st n).
Proof.
  intros d [s [r|]] bs st'; unfold XR.rd_exact, bump_st; cbn [IOM.rs_src IOM.rs_lim option_map].
  - unfold IOM.lr_read_exact, IOM.checked_sub. cbn [bump IOM.lr_max IOM.lr_read IOM.lr_source IOM.lr_layer IOM.lr_off].
    destruct (IOM.lr_read r <=? IOM.lr_max r) eqn:E1; [|discriminate]. apply N.leb_le in E1.
    destruct (IOM.lr_max r - IOM.lr_read r <? n) eqn:E2; [discriminate|]. apply N.ltb_ge in E2.
    replace (IOM.lr_read r <=? IOM.lr_max r + d) with true by (symmetry; apply N.leb_le; lia).
    replace (IOM.lr_max r + d - IOM.lr_read r <? n) with false by (symmetry; apply N.ltb_ge; lia).
    destruct (IOM.io_read_exact s n) as [[b|k| |] s']; try discriminate.
    intros H. injection H as <- <-. reflexivity.
  - destruct (IOM.io_read_exact s n) as [[b|k| |] s']; try discriminate.
    intros H. injection H as <- <-. reflexivity.
Qed.

Lemma mono_start_layer lim layer : mono (XR.start_layer lim layer).
Proof.
  intros d [s [r|]] u st'; unfold XR.start_layer, bump_st; cbn [IOM.rs_src IOM.rs_lim option_map]; destruct lim;
    try discriminate; try (intros H; injection H as <- <-; reflexivity).
  unfold IOM.lr_start_layer, IOM.checked_sub. cbn [bump IOM.lr_max IOM.lr_read IOM.lr_source IOM.lr_layer IOM.lr_off].
  destruct (IOM.lr_read r <=? IOM.lr_max r) eqn:E1; [|discriminate]. apply N.leb_le in E1.
  replace (IOM.lr_read r <=? IOM.lr_max r + d) with true by (symmetry; apply N.leb_le; lia).
  intros H. injection H as <- <-. cbn [IOM.rs_src IOM.rs_lim option_map bump IOM.lr_max IOM.lr_read IOM.lr_source IOM.lr_layer IOM.lr_off].
  replace (IOM.lr_max r + d - IOM.lr_read r) with (IOM.lr_max r - IOM.lr_read r + d) by lia. reflexivity.
Qed.

Lemma mono_fail {A} (q : IOM.qres A) : (forall a, q <> IOM.QOk a) -> mono (fun st => (q, st)).
Proof. intros N d st a st' H. injection H as H _. destruct (N a H). Qed.

Lemma mono_raw_read lim : mono (XR.raw_read lim).
Proof.
  unfold XR.raw_read. apply mono_qbind; [apply mono_start_layer|]. intros _.
  apply (mono_qbind (fun st => XR.rd_exact st 2)); [apply mono_rd_exact|]. intros d0.
  destruct (rd d0 0) as [nh|]; [|apply mono_fail; discriminate].
  destruct (rd d0 1) as [hl|]; [|apply mono_fail; discriminate].
  apply (mono_qbind (fun st => XR.rd_exact st (hl * 8 + 6))); [apply mono_rd_exact|]. intros p. apply mono_ret.
Qed.

Lemma mono_frag_read lim : mono (XR.frag_read lim).
Proof.
  unfold XR.frag_read. apply mono_qbind; [apply mono_start_layer|]. intros _.
  apply (mono_qbind (fun st => XR.rd_exact st 8)); [apply mono_rd_exact|]. intros b.
  destruct (XM.frag_slice_to_header b); [apply mono_ret|apply mono_fail; discriminate..].
Qed.

Lemma mono_auth_read lim : mono (XR.auth_read lim).
Proof.
  unfold XR.auth_read. apply mono_qbind; [apply mono_start_layer|]. intros _.
  apply (mono_qbind (fun st => XR.rd_exact st 12)); [apply mono_rd_exact|]. intros s.
  destruct (rd s 0), (rd s 1) as [pl|], (rd s 4), (rd s 5), (rd s 6), (rd s 7), (rd s 8), (rd s 9), (rd s 10), (rd s 11);
    try (apply mono_fail; discriminate).
  destruct (pl <? 1); [apply mono_fail; discriminate|].
  apply (mono_qbind (fun st => XR.rd_exact st ((pl - 1) * 4))); [apply mono_rd_exact|]. intros icv. apply mono_ret.
Qed.

Lemma mono_read6_loop fuel : forall lim result n, mono (XR.read6_loop fuel lim result n).
Proof.
  induction fuel as [|f IH]; intros lim result n; [apply mono_fail; discriminate|].
  cbn [XR.read6_loop]. destruct (XM.arm_of n).
  - apply mono_fail; discriminate.
  - destruct (XM.routing result) as [r|].
    + destruct (XM.is_some _); [apply mono_ret|]. apply mono_qbind; [apply mono_raw_read|]. intros h. apply IH.
    + destruct (XM.is_some _); [apply mono_ret|]. apply mono_qbind; [apply mono_raw_read|]. intros h. apply IH.
  - destruct (XM.is_some _); [apply mono_ret|]. apply mono_qbind; [apply mono_raw_read|]. intros h. apply IH.
  - destruct (XM.is_some _); [apply mono_ret|]. apply mono_qbind; [apply mono_frag_read|]. intros h. apply IH.
  - destruct (XM.is_some _); [apply mono_ret|]. apply mono_qbind; [apply mono_auth_read|]. intros h. apply IH.
  - apply mono_ret.
Qed.

Theorem mono_read6 lim first : mono (XR.read6 lim first).
Proof.
  unfold XR.read6. destruct (_ =? first); [|apply mono_read6_loop].
  apply mono_qbind; [apply mono_raw_read|]. intros h. apply mono_read6_loop.
Qed.

(* ---- IpHeaders::read of a written well-formed value, ANY continuation ---- *)
Theorem iph_read_any_v6 en hd e : iph_wf (IpV6 hd e) = true ->
  exists w, iph_write en (IpV6 hd e) = (w, XM.Ok tt) /\ len w = iph_header_len (IpV6 hd e)
    /\ (forall rest, bytes_ok rest -> iph_read (w ++ rest) = Ok (IpV6 hd e, iph_final (IpV6 hd e), rest)).
Proof.
  intros WF. destruct (iph_wf_v6 hd e WF) as (W & V & (n & NH & NE) & LEN).
  destruct (iph_write_v6 en hd e n V NH) as (xb & EW & LXB & BXB & EIW).
  pose proof (len_ip6_to_bytes hd W) as LHB.
  assert (XDEC : XM.from_slice (i6_next_header hd) xb = XM.Ok (e, n, [])).
  { pose proof (Exts6Proofs.exts6_dec_enc e (i6_next_header hd) xb n [] V EW NH NE) as X.
    rewrite app_nil_r in X. exact (proj2 X). }
  assert (FIN : iph_final (IpV6 hd e) = n).
  { unfold iph_final, iph_next_header. rewrite NH. reflexivity. }
  exists ((ip6_to_bytes hd) ++ xb). split; [exact EIW|]. split; [rewrite len_app, LHB, LXB; reflexivity|].
  intros rest BR. rewrite <- app_assoc.
  destruct (ip6_read_inv _ _ _ (proj2 (ip6_dec_enc hd (xb ++ rest) W))) as (v0 & r1 & RE & V6 & RW).
  unfold iph_read. rewrite RE. cbv beta iota zeta.
  rewrite V6. change (6 =? 4) with false. change (6 =? 6) with true. cbv iota. rewrite RW.
  (* a LimitedReader whose budget is exactly the extension headers: C12's theorem applies *)
  set (r0 := IOM.lr_new (len xb) IOM.LS_IPV6_PAYLOAD (ip6_header_len hd) IOM.L_IPV6H).
  assert (MOK : XV.m_ok (xb ++ rest) (XV.MLim r0)).
  { cbn [XV.m_ok r0 IOM.lr_new IOM.lr_read IOM.lr_max]. rewrite len_app. lia. }
  assert (BD : bytes_ok (xb ++ rest)) by (apply bytes_ok_app; split; assumption).
  assert (VW : XV.view (xb ++ rest) (XV.MLim r0) = xb).
  { unfold r0. rewrite view_lim_new. apply take_app_len. reflexivity. }
  pose proof XDEC as FS. rewrite <- VW in FS.
  destruct (XRP.read6_eq_from_slice (xb ++ rest) 65536 0 (XV.MLim r0) (i6_next_header hd) e n _
              ltac:(lia) BD MOK FS) as (m' & k & EV & KA & R6 & V' & MOK' & LM).
  cbn [XV.lim_of] in R6.
  assert (K : k = len xb).
  { rewrite VW, app_nil_r in EV. assert (L := f_equal len EV). rewrite len_take in L.
    cbn [XV.avail r0 IOM.lr_new IOM.lr_max IOM.lr_read] in KA. lia. }
  (* the real budget is payload_length >= len xb: same successful run *)
  pose proof (mono_read6 true (i6_next_header hd) (i6_payload_length hd - len xb) _ _ _ R6) as R6'.
  unfold limited.
  replace (IOM.mk_rstate (XR.cursor (xb ++ rest))
             (Some (IOM.lr_new (i6_payload_length hd) IOM.LS_IPV6_PAYLOAD (ip6_header_len hd) IOM.L_IPV6H)))
    with (bump_st (i6_payload_length hd - len xb) (XV.mk_st (xb ++ rest) 65536 0 (XV.MLim r0))).
  2:{ unfold bump_st, XV.mk_st, XR.cursor, r0, IOM.lr_new, bump.
      cbn [IOM.rs_src IOM.rs_lim option_map IOM.lr_max IOM.lr_read IOM.lr_source IOM.lr_layer IOM.lr_off].
      replace (len xb + (i6_payload_length hd - len xb)) with (i6_payload_length hd) by lia. reflexivity. }
  rewrite R6'. unfold of_q, bump_st, XV.mk_st. cbn [IOM.rs_src IOS.src_data].
  rewrite K, drop_app_len by reflexivity. rewrite FIN. reflexivity.
Qed.

(* both versions: no hypothesis on what follows the headers in the reader (C08_IpHeaders_dec_enc
   asks for iph_read_room: the reader holds the announced payload) *)
Theorem iph_read_any en h : iph_wf h = true ->
  exists w, iph_write en h = (w, XM.Ok tt) /\ len w = iph_header_len h
    /\ (forall rest, bytes_ok rest -> iph_read (w ++ rest) = Ok (iph_written en h, iph_final h, rest)).
Proof.
  intros WF. destruct h as [hd e|hd e].
  - destruct (iph_dec_enc en (IpV4 hd e) WF) as (w & A & B & _ & D). exists w. repeat split; try assumption.
    intros rest BR. apply D; [exact BR|exact I].
  - exact (iph_read_any_v6 en hd e WF).
Qed.

(* non-vacuity: IPv6 + hop-by-hop + fragment, payload_length 18, and the reader ends right behind the
   extension headers / one byte later: outside iph_read_room, accepted *)
Example iph_read_any_ex :
  let h := IpV6 {| i6_traffic_class := 0; i6_flow_label := 0; i6_payload_length := 18; i6_next_header := 0;
                   i6_hop_limit := 64; i6_source := repeat 1 16; i6_destination := repeat 2 16 |}
                (XM.mkExts6 (Some (XM.mkRaw 44 0 [1; 2; 3; 4; 5; 6])) None None (Some (XM.mkFrag 17 1 true 1)) None) in
  iph_wf h = true /\ ~ iph_read_room h [] /\ ~ iph_read_room h [9] /\
  iph_read (fst (iph_write LE h)) = Ok (h, 17, []) /\ iph_read (fst (iph_write LE h) ++ [9]) = Ok (h, 17, [9]).
Proof.
  cbv zeta. split; [vm_compute; reflexivity|].
  split; [intros H; vm_compute in H; apply H; reflexivity|].
  split; [intros H; vm_compute in H; apply H; reflexivity|].
  split; vm_compute; reflexivity.
Qed.
