(* Roundtrip/Vlan.v -- model of etherparse SingleVlanHeader / SingleVlanHeaderSlice
   (link/single_vlan_header.rs, link/single_vlan_header_slice.rs): to_bytes, write,
   header_len, from_slice, from_bytes, read.  No write_to_slice.  Prefix vl_. *)
From EP Require Import Base.Bytes Roundtrip.Common.
Local Open Scope N_scope.

Record SingleVlanHeader := {
  vl_pcp : N;                       (* VlanPcp(u8), 3 bits *)
  vl_drop_eligible_indicator : bool;
  vl_vlan_id : N;                   (* VlanId(u16), 12 bits *)
  vl_ether_type : N }.              (* EtherType(u16) *)

Definition vl_header_len (h : SingleVlanHeader) : N := 4.

(* (if dei { id_be[0] | 0x10 } else { id_be[0] } | (pcp << 5)) *)
Definition vl_byte0 (pcp : N) (dei : bool) (id0 : N) : N :=
  bor (if dei then bor id0 16 else id0) (shl8 pcp 5).

Definition vl_to_bytes (h : SingleVlanHeader) : bytes :=
  match u16_to_be (vl_vlan_id h) with
  | [id0; id1] =>
    [vl_byte0 (vl_pcp h) (vl_drop_eligible_indicator h) id0; id1] ++ u16_to_be (vl_ether_type h)
  | _ => []
  end.

Definition vl_write (out : bytes) (h : SingleVlanHeader) : bytes := out ++ vl_to_bytes h.

(* the field decoding shared (textually) by from_bytes and the slice accessors *)
Definition vl_decode4 (b0 b1 b2 b3 : N) : SingleVlanHeader :=
  {| vl_pcp := band (shr b0 5) 7;
     vl_drop_eligible_indicator := nz (band b0 16);
     vl_vlan_id := be16 (band b0 15) b1;
     vl_ether_type := be16 b2 b3 |}.

(* from_bytes([u8;4]) *)
Definition vl_from_bytes (b : bytes) : res SingleVlanHeader :=
  match b with
  | [b0; b1; b2; b3] => Ok (vl_decode4 b0 b1 b2 b3)
  | _ => Err EPanic
  end.

Definition vl_slice_from_slice (s : bytes) : res bytes :=
  if len s <? 4 then Err ELen else Ok (take 4 s).

(* to_header: unchecked reads at 0, 1, 2..3 *)
Definition vl_to_header (s : bytes) : res SingleVlanHeader :=
  match s with
  | b0 :: b1 :: b2 :: b3 :: _ => Ok (vl_decode4 b0 b1 b2 b3)
  | _ => Err EOOB
  end.

Definition vl_from_slice (s : bytes) : res (SingleVlanHeader * bytes) :=
  match vl_slice_from_slice s with
  | Err e => Err e
  | Ok hs =>
    match vl_to_header hs with
    | Err e => Err e
    | Ok h => match slice_from s 4 with
              | None => Err EPanic
              | Some rest => Ok (h, rest)
              end
    end
  end.

Definition vl_read (r : bytes) : res (SingleVlanHeader * bytes) :=
  match read_exact r 4 with
  | Err e => Err e
  | Ok (buf, r1) => match vl_to_header buf with
                    | Err e => Err e
                    | Ok h => Ok (h, r1)
                    end
  end.

Definition wf_vl (h : SingleVlanHeader) : bool :=
  (vl_pcp h <? 8) && (vl_vlan_id h <? 4096) && (vl_ether_type h <? 65536).
