(* Roundtrip/Eth.v -- model of etherparse Ethernet2Header / Ethernet2HeaderSlice
   (link/ethernet2_header.rs, link/ethernet2_header_slice.rs): to_bytes, write,
   write_to_slice, header_len, from_slice, from_bytes, read.  Prefix eth_. *)
From EP Require Import Base.Bytes Roundtrip.Common.
Local Open Scope N_scope.

Record Ethernet2Header := {
  eth_source : bytes;        (* [u8;6] *)
  eth_destination : bytes;   (* [u8;6] *)
  eth_ether_type : N }.      (* EtherType(u16) *)

Definition eth_header_len (h : Ethernet2Header) : N := 14.

(* [destination[0..5], source[0..5], ether_type_be[0..1]] *)
Definition eth_to_bytes (h : Ethernet2Header) : bytes :=
  eth_destination h ++ eth_source h ++ u16_to_be (eth_ether_type h).

Definition eth_write (out : bytes) (h : Ethernet2Header) : bytes := out ++ eth_to_bytes h.

(* write_to_slice: Err ELen = SliceWriteSpaceError; slice[..14].copy_from_slice(&to_bytes) panics
   on a length mismatch; result = (slice after the call, returned rest &mut slice[14..]) *)
Definition eth_write_to_slice (slice : bytes) (h : Ethernet2Header) : res (bytes * bytes) :=
  if len slice <? 14 then Err ELen
  else if negb (len (eth_to_bytes h) =? 14) then Err EPanic
  else Ok (eth_to_bytes h ++ drop 14 slice, drop 14 slice).

(* from_bytes([u8;14]) *)
Definition eth_from_bytes (b : bytes) : res Ethernet2Header :=
  match b with
  | [b0; b1; b2; b3; b4; b5; b6; b7; b8; b9; b10; b11; b12; b13] =>
    Ok {| eth_source := [b6; b7; b8; b9; b10; b11]; eth_destination := [b0; b1; b2; b3; b4; b5];
          eth_ether_type := be16 b12 b13 |}
  | _ => Err EPanic
  end.

Definition eth_slice_from_slice (s : bytes) : res bytes :=
  if len s <? 14 then Err ELen else Ok (take 14 s).

(* to_header: get_unchecked_6_byte_array(ptr), (ptr+6), get_unchecked_be_u16(ptr+12) *)
Definition eth_to_header (s : bytes) : res Ethernet2Header :=
  match slice_range s 0 6, slice_range s 6 12, slice_range s 12 14 with
  | Some dst, Some src, Some [e0; e1] =>
    Ok {| eth_source := src; eth_destination := dst; eth_ether_type := be16 e0 e1 |}
  | _, _, _ => Err EOOB
  end.

Definition eth_from_slice (s : bytes) : res (Ethernet2Header * bytes) :=
  match eth_slice_from_slice s with
  | Err e => Err e
  | Ok hs =>
    match eth_to_header hs with
    | Err e => Err e
    | Ok h => match slice_from s 14 with
              | None => Err EPanic
              | Some rest => Ok (h, rest)
              end
    end
  end.

(* read: read_exact(14); from_slice_unchecked(&buffer).to_header() *)
Definition eth_read (r : bytes) : res (Ethernet2Header * bytes) :=
  match read_exact r 14 with
  | Err e => Err e
  | Ok (buf, r1) => match eth_to_header buf with
                    | Err e => Err e
                    | Ok h => Ok (h, r1)
                    end
  end.

Definition wf_eth (h : Ethernet2Header) : bool :=
  (len (eth_source h) =? 6) && bytes_okb (eth_source h)
  && (len (eth_destination h) =? 6) && bytes_okb (eth_destination h)
  && (eth_ether_type h <? 65536).
