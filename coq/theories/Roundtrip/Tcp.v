(* Roundtrip/Tcp.v -- model of etherparse TcpHeader / TcpOptions (raw buffer) /
   TcpHeaderSlice: to_bytes, write, header_len, from_slice (via
   TcpHeaderSlice::from_slice + to_header), read, TcpOptions::try_from_slice,
   PartialEq.  Option *elements* belong to C13; here the option area is an
   opaque byte buffer `buf : [u8;40]` with a length `len : u8`. *)
From EP Require Import Base.Bytes Roundtrip.Common.
Local Open Scope N_scope.

Record TcpOptions := { o_len : N; o_buf : bytes }.

Record TcpHeader := {
  source_port : N; destination_port : N;
  sequence_number : N; acknowledgment_number : N;
  ns : bool; fin : bool; syn : bool; rst : bool; psh : bool;
  ack : bool; urg : bool; ece : bool; cwr : bool;
  window_size : N; checksum : N; urgent_pointer : N;
  options : TcpOptions }.

(* TcpOptions::as_slice: from_raw_parts(buf, len) -- undefined when len > 40 *)
Definition opt_as_slice (o : TcpOptions) : option bytes :=
  if o_len o <=? len (o_buf o) then Some (take (o_len o) (o_buf o)) else None.

(* TcpOptions::try_from_slice *)
Definition opt_try_from_slice (s : bytes) : option TcpOptions :=
  if 40 <? len s then None
  else
    let l := as_u8 (len s) in
    Some {| o_len := as_u8 (shl8 (shr l 2) 2 + (if nz (band l 3) then 4 else 0));
            o_buf := s ++ zeros (40 - len s) |}.

(* PartialEq for TcpOptions: as_slice() == as_slice() *)
Definition opt_eqb (a b : TcpOptions) : bool :=
  match opt_as_slice a, opt_as_slice b with
  | Some x, Some y => bytes_eqb x y
  | _, _ => false
  end.

Definition tcp_eqb (a b : TcpHeader) : bool :=
  (source_port a =? source_port b) && (destination_port a =? destination_port b)
  && (sequence_number a =? sequence_number b)
  && (acknowledgment_number a =? acknowledgment_number b)
  && Bool.eqb (ns a) (ns b) && Bool.eqb (fin a) (fin b) && Bool.eqb (syn a) (syn b)
  && Bool.eqb (rst a) (rst b) && Bool.eqb (psh a) (psh b) && Bool.eqb (ack a) (ack b)
  && Bool.eqb (urg a) (urg b) && Bool.eqb (ece a) (ece b) && Bool.eqb (cwr a) (cwr b)
  && (window_size a =? window_size b) && (checksum a =? checksum b)
  && (urgent_pointer a =? urgent_pointer b) && opt_eqb (options a) (options b).

(* TcpOptions::data_offset : MIN_DATA_OFFSET + (len >> 2)   (u8 arithmetic) *)
Definition opt_data_offset (o : TcpOptions) : N := as_u8 (5 + shr (o_len o) 2).
Definition data_offset (h : TcpHeader) : N := opt_data_offset (options h).
Definition header_len (h : TcpHeader) : N := 20 + o_len (options h).

Definition byte12 (h : TcpHeader) : N :=
  let value := band (shl8 (data_offset h) 4) 240 in
  if ns h then bor value 1 else value.

Definition byte13 (h : TcpHeader) : N :=
  let v := 0 in
  let v := if fin h then bor v 1 else v in
  let v := if syn h then bor v 2 else v in
  let v := if rst h then bor v 4 else v in
  let v := if psh h then bor v 8 else v in
  let v := if ack h then bor v 16 else v in
  let v := if urg h then bor v 32 else v in
  let v := if ece h then bor v 64 else v in
  let v := if cwr h then bor v 128 else v in
  v.

(* the 20 fixed bytes, identical expression in write() and to_bytes() *)
Definition fixed_bytes (h : TcpHeader) : bytes :=
  u16_to_be (source_port h) ++ u16_to_be (destination_port h)
  ++ u32_to_be (sequence_number h) ++ u32_to_be (acknowledgment_number h)
  ++ [byte12 h; byte13 h]
  ++ u16_to_be (window_size h) ++ u16_to_be (checksum h) ++ u16_to_be (urgent_pointer h).

(* to_bytes: ArrayVec<60>: extend(20 bytes); extend(options.buf) ; set_len(header_len)
   -- set_len beyond the initialised part is undefined (None) *)
Definition to_bytes (h : TcpHeader) : option bytes :=
  let all := fixed_bytes h ++ o_buf (options h) in
  if (len all <=? 60) && (header_len h <=? len all) then Some (take (header_len h) all) else None.

(* write to a Vec<u8> (never fails): write_all(fixed); if !options.is_empty() write_all(options) *)
Definition write (out : bytes) (h : TcpHeader) : option bytes :=
  match opt_as_slice (options h) with
  | None => None
  | Some o => Some (out ++ fixed_bytes h ++ (if len o =? 0 then [] else o))
  end.

(* TcpHeaderSlice::from_slice : returns the header slice *)
Definition slice_from_slice (s : bytes) : res bytes :=
  if len s <? 20 then Err ELen
  else match rd s 12 with
       | None => Err EOOB
       | Some b12 =>
         let hl := shr (band b12 240) 2 in
         if hl <? 20 then Err (EContent (as_u8 (shr hl 2)))
         else if len s <? hl then Err ELen
         else Ok (take hl s)
       end.

(* TcpHeaderSlice::to_header (all accessors read at fixed offsets of the stored slice;
   options() = &slice[20 .. data_offset*4]) *)
Definition to_header (s : bytes) : res TcpHeader :=
  match s with
  | b0 :: b1 :: b2 :: b3 :: b4 :: b5 :: b6 :: b7 :: b8 :: b9 :: b10 :: b11 :: b12 :: b13
    :: b14 :: b15 :: b16 :: b17 :: b18 :: b19 :: _ =>
    let doff := shr (band b12 240) 4 in
    match slice_range s 20 (doff * 4) with
    | None => Err EPanic
    | Some os =>
      if 40 <? len os then Err EPanic   (* buf[..len].clone_from_slice *)
      else
      Ok {| source_port := be16 b0 b1; destination_port := be16 b2 b3;
            sequence_number := be32 b4 b5 b6 b7; acknowledgment_number := be32 b8 b9 b10 b11;
            ns := nz (band b12 1);
            fin := nz (band b13 1); syn := nz (band b13 2); rst := nz (band b13 4);
            psh := nz (band b13 8); ack := nz (band b13 16); urg := nz (band b13 32);
            ece := nz (band b13 64); cwr := nz (band b13 128);
            window_size := be16 b14 b15; checksum := be16 b16 b17; urgent_pointer := be16 b18 b19;
            options := {| o_len := as_u8 (len os); o_buf := os ++ zeros (40 - len os) |} |}
    end
  | _ => Err EOOB
  end.

(* TcpHeader::from_slice *)
Definition from_slice (s : bytes) : res (TcpHeader * bytes) :=
  match slice_from_slice s with
  | Err e => Err e
  | Ok hs =>
    match to_header hs with
    | Err e => Err e
    | Ok h => match slice_from s (len hs) with
              | None => Err EPanic
              | Some rest => Ok (h, rest)
              end
    end
  end.

(* TcpHeader::read from a reader positioned at `r`; returns header and unread rest *)
Definition read (r : bytes) : res (TcpHeader * bytes) :=
  match read_exact r 20 with
  | Err e => Err e
  | Ok (raw, r1) =>
    match raw with
    | [b0; b1; b2; b3; b4; b5; b6; b7; b8; b9; b10; b11; b12; b13; b14; b15; b16; b17; b18; b19] =>
      let doff := shr (band b12 240) 4 in
      if doff <? 5 then Err (EContent doff)
      else
        let ol := shl8 (doff - 5) 2 in
        match (if 0 <? ol
               then (if ol <=? 40 then
                      match read_exact r1 ol with
                      | Err e => Err e
                      | Ok (o, r2) => Ok (o ++ zeros (40 - ol), r2)
                      end
                     else Err EPanic)
               else Ok (zeros 40, r1)) with
        | Err e => Err e
        | Ok (buf, r2) =>
          Ok ({| source_port := be16 b0 b1; destination_port := be16 b2 b3;
                 sequence_number := be32 b4 b5 b6 b7; acknowledgment_number := be32 b8 b9 b10 b11;
                 ns := nz (band b12 1);
                 fin := nz (band b13 1); syn := nz (band b13 2); rst := nz (band b13 4);
                 psh := nz (band b13 8); ack := nz (band b13 16); urg := nz (band b13 32);
                 ece := nz (band b13 64); cwr := nz (band b13 128);
                 window_size := be16 b14 b15; checksum := be16 b16 b17;
                 urgent_pointer := be16 b18 b19;
                 options := {| o_len := ol; o_buf := buf |} |}, r2)
        end
    | _ => Err EOOB
    end
  end.

(* well-formed values: every field in the range of its Rust type, options
   buffer is a [u8;40], len a multiple of 4 not above 40 (what every public
   constructor produces) *)
Definition wf_opt (o : TcpOptions) : bool :=
  (o_len o <=? 40) && (o_len o mod 4 =? 0) && (len (o_buf o) =? 40) && bytes_okb (o_buf o).
Definition wf_tcp (h : TcpHeader) : bool :=
  (source_port h <? 65536) && (destination_port h <? 65536)
  && (sequence_number h <? 4294967296) && (acknowledgment_number h <? 4294967296)
  && (window_size h <? 65536) && (checksum h <? 65536) && (urgent_pointer h <? 65536)
  && wf_opt (options h).

(* the value a decoder returns for h: buffer bytes behind `len` are zero *)
Definition norm_opt (o : TcpOptions) : TcpOptions :=
  {| o_len := o_len o; o_buf := take (o_len o) (o_buf o) ++ zeros (40 - o_len o) |}.
Definition norm (h : TcpHeader) : TcpHeader :=
  {| source_port := source_port h; destination_port := destination_port h;
     sequence_number := sequence_number h; acknowledgment_number := acknowledgment_number h;
     ns := ns h; fin := fin h; syn := syn h; rst := rst h; psh := psh h; ack := ack h;
     urg := urg h; ece := ece h; cwr := cwr h;
     window_size := window_size h; checksum := checksum h; urgent_pointer := urgent_pointer h;
     options := norm_opt (options h) |}.

(* bits of the consumed bytes that survive decode -> encode: everything but
   the three reserved bits of byte 12 (mask 0x0e) *)
Definition keep_mask (hl : N) : bytes := ones 12 ++ [241] ++ ones (hl - 13).
