(* Roundtrip/Icmp4.v -- model of etherparse Icmpv4Header / Icmpv4Type:
   to_bytes (the four closures re_zero / re_2u16 / re_4u8 / re_timestamp_msg over
   ArrayVec<u8,20> + set_len), write (= write_all(to_bytes)), header_len,
   from_slice (Icmpv4Slice::from_slice(..)?.header(), &slice[header_len..]), read.
   The DECODING side (Icmpv4Slice::{from_slice, icmp_type, checksum}) is the C17
   model CtlMsg/Model.v, imported unchanged; the value vocabulary (Icmpv4Type and
   its parts) is the one of CtlMsg/Spec.v.  Icmpv4Header has no write_to_slice. *)
From EP Require Import Base.Bytes.
From EP Require Import CtlMsg.Spec CtlMsg.Model.
From EP Require Import Roundtrip.Common.
Local Open Scope N_scope.

Record Icmpv4Header := { icmp4_type : Icmpv4Type; icmp4_checksum : N }.

(* Icmpv4Type::header_len *)
Definition icmp4_type_header_len (t : Icmpv4Type) : N :=
  match t with
  | V4TimestampRequest _ | V4TimestampReply _ => 20
  | _ => 8
  end.
Definition icmp4_header_len (h : Icmpv4Header) : N := icmp4_type_header_len (icmp4_type h).

(* ArrayVec::from([u8; 20]) followed by set_len(n): undefined beyond the capacity *)
Definition icmp4_set_len (arr : bytes) (n : N) : option bytes :=
  if n <=? len arr then Some (take n arr) else None.

(* `code as u8` of the fieldless enums *)
Definition icmp4_redirect_code_u8 (c : RedirectCode) : N :=
  match c with
  | RedirectForNetwork => 0 | RedirectForHost => 1
  | RedirectForTypeOfServiceAndNetwork => 2 | RedirectForTypeOfServiceAndHost => 3
  end.
Definition icmp4_time_exceeded_code_u8 (c : TimeExceededCode4) : N :=
  match c with TtlExceededInTransit => 0 | FragmentReassemblyTimeExceeded4 => 1 end.

(* the closures of to_bytes; ck = checksum_be *)
Definition icmp4_re_zero (ck : bytes) (type_u8 code_u8 : N) : option bytes :=
  match ck with
  | [c0; c1] =>
    icmp4_set_len [type_u8; code_u8; c0; c1;  0; 0; 0; 0;  0; 0; 0; 0;  0; 0; 0; 0;  0; 0; 0; 0] 8
  | _ => None
  end.
Definition icmp4_re_2u16 (ck : bytes) (type_u8 code_u8 a_u16 b_u16 : N) : option bytes :=
  match ck, u16_to_be a_u16, u16_to_be b_u16 with
  | [c0; c1], [a0; a1], [b0; b1] =>
    icmp4_set_len [type_u8; code_u8; c0; c1;  a0; a1; b0; b1;  0; 0; 0; 0;  0; 0; 0; 0;  0; 0; 0; 0] 8
  | _, _, _ => None
  end.
Definition icmp4_re_4u8 (ck : bytes) (type_u8 code_u8 : N) (bytes5to8 : bytes) : option bytes :=
  match ck, bytes5to8 with
  | [c0; c1], [x0; x1; x2; x3] =>
    icmp4_set_len [type_u8; code_u8; c0; c1;  x0; x1; x2; x3;  0; 0; 0; 0;  0; 0; 0; 0;  0; 0; 0; 0] 8
  | _, _ => None
  end.
Definition icmp4_re_timestamp_msg (ck : bytes) (type_u8 : N) (m : TimestampMessage) : option bytes :=
  match ck, u16_to_be (ts_id m), u16_to_be (ts_seq m),
        u32_to_be (ts_originate m), u32_to_be (ts_receive m), u32_to_be (ts_transmit m) with
  | [c0; c1], [i0; i1], [s0; s1], [o0; o1; o2; o3], [r0; r1; r2; r3], [t0; t1; t2; t3] =>
    Some [type_u8; 0; c0; c1;  i0; i1; s0; s1;  o0; o1; o2; o3;  r0; r1; r2; r3;  t0; t1; t2; t3]
  | _, _, _, _, _, _ => None
  end.

(* Icmpv4Header::to_bytes *)
Definition icmp4_to_bytes (h : Icmpv4Header) : option bytes :=
  let ck := u16_to_be (icmp4_checksum h) in
  match icmp4_type h with
  | V4Unknown t c b4 b5 b6 b7 => icmp4_re_4u8 ck t c [b4; b5; b6; b7]
  | V4EchoReply id seq => icmp4_re_2u16 ck 0 0 id seq
  | V4DestinationUnreachable d =>
    match d with
    | DuNetwork => icmp4_re_zero ck 3 0
    | DuHost => icmp4_re_zero ck 3 1
    | DuProtocol => icmp4_re_zero ck 3 2
    | DuPort => icmp4_re_zero ck 3 3
    | DuFragmentationNeeded m =>
      match u16_to_be m with
      | [m0; m1] => icmp4_re_4u8 ck 3 4 [0; 0; m0; m1]
      | _ => None
      end
    | DuSourceRouteFailed => icmp4_re_zero ck 3 5
    | DuNetworkUnknown => icmp4_re_zero ck 3 6
    | DuHostUnknown => icmp4_re_zero ck 3 7
    | DuIsolated => icmp4_re_zero ck 3 8
    | DuNetworkProhibited => icmp4_re_zero ck 3 9
    | DuHostProhibited => icmp4_re_zero ck 3 10
    | DuTosNetwork => icmp4_re_zero ck 3 11
    | DuTosHost => icmp4_re_zero ck 3 12
    | DuFilterProhibited => icmp4_re_zero ck 3 13
    | DuHostPrecedenceViolation => icmp4_re_zero ck 3 14
    | DuPrecedenceCutoff => icmp4_re_zero ck 3 15
    end
  | V4Redirect code g0 g1 g2 g3 => icmp4_re_4u8 ck 5 (icmp4_redirect_code_u8 code) [g0; g1; g2; g3]
  | V4EchoRequest id seq => icmp4_re_2u16 ck 8 0 id seq
  | V4TimeExceeded code => icmp4_re_zero ck 11 (icmp4_time_exceeded_code_u8 code)
  | V4ParameterProblem p =>
    match p with
    | PointerIndicatesError pointer => icmp4_re_4u8 ck 12 0 [pointer; 0; 0; 0]
    | MissingRequiredOption => icmp4_re_zero ck 12 1
    | BadLength => icmp4_re_zero ck 12 2
    end
  | V4TimestampRequest m => icmp4_re_timestamp_msg ck 13 m
  | V4TimestampReply m => icmp4_re_timestamp_msg ck 14 m
  end.

(* write: writer.write_all(&self.to_bytes()) into a Vec *)
Definition icmp4_write (out : bytes) (h : Icmpv4Header) : option bytes :=
  match icmp4_to_bytes h with
  | Some e => Some (out ++ e)
  | None => None
  end.

(* Icmpv4Slice::header: icmp_type() and checksum() of the slice (C17 model) *)
Definition icmp4_slice_header (s : bytes) : res Icmpv4Header :=
  match Icmpv4Slice.icmp_type s with
  | CtlMsg.Spec.Ok ty =>
    match Icmpv4Slice.checksum s with
    | Some ck => Ok {| icmp4_type := ty; icmp4_checksum := ck |}
    | None => Err EOOB
    end
  | CtlMsg.Spec.ErrLen _ => Err ELen
  | CtlMsg.Spec.UB _ => Err EOOB
  end.

(* Icmpv4Header::from_slice *)
Definition icmp4_from_slice (s : bytes) : res (Icmpv4Header * bytes) :=
  match Icmpv4Slice.from_slice s with
  | CtlMsg.Spec.ErrLen _ => Err ELen
  | CtlMsg.Spec.UB _ => Err EOOB
  | CtlMsg.Spec.Ok sl =>
    match icmp4_slice_header sl with
    | Err e => Err e
    | Ok h =>
      match slice_from s (icmp4_header_len h) with      (* &slice[header.header_len()..] *)
      | None => Err EPanic
      | Some rest => Ok (h, rest)
      end
    end
  end.

(* Icmpv4Header::read: 8 bytes, then 12 more for timestamp / timestamp reply with code 0;
   the slice handed to header() is built WITHOUT Icmpv4Slice::from_slice *)
Definition icmp4_read (r : bytes) : res (Icmpv4Header * bytes) :=
  match read_exact r 8 with
  | Err e => Err e
  | Ok (b8, r1) =>
    match rd b8 0, rd b8 1 with
    | Some t, Some c =>
      if ((t =? 14) || (t =? 13)) && (0 =? c) then
        match read_exact r1 12 with
        | Err e => Err e
        | Ok (b12, r2) =>
          match icmp4_slice_header (b8 ++ b12) with
          | Err e => Err e
          | Ok h => Ok (h, r2)
          end
        end
      else
        match icmp4_slice_header b8 with
        | Err e => Err e
        | Ok h => Ok (h, r1)
        end
    | _, _ => Err EPanic
    end
  end.

(* well-formed values: fields in the range of their Rust type; the raw variant
   `Unknown` only for (type, code) pairs that have NO typed variant -- a raw value
   with e.g. (type 8, code 0) is decoded as EchoRequest, it is not well-formed.
   "has a typed variant" = the pair is in one of the RFC tables of CtlMsg/Spec.v *)
Definition icmp4_typed (t c : N) : bool :=
  match lookup t c icmp4_table, lookup t c icmp4_fixed_table with
  | None, None => false
  | _, _ => true
  end.
Definition wf_icmp4_ts (m : TimestampMessage) : bool :=
  (ts_id m <? 65536) && (ts_seq m <? 65536) && (ts_originate m <? 4294967296)
  && (ts_receive m <? 4294967296) && (ts_transmit m <? 4294967296).
Definition wf_icmp4_type (ty : Icmpv4Type) : bool :=
  match ty with
  | V4Unknown t c b4 b5 b6 b7 =>
    (t <? 256) && (c <? 256) && (b4 <? 256) && (b5 <? 256) && (b6 <? 256) && (b7 <? 256)
    && negb (icmp4_typed t c)
  | V4EchoReply id seq | V4EchoRequest id seq => (id <? 65536) && (seq <? 65536)
  | V4DestinationUnreachable (DuFragmentationNeeded m) => m <? 65536
  | V4DestinationUnreachable _ => true
  | V4Redirect _ g0 g1 g2 g3 => (g0 <? 256) && (g1 <? 256) && (g2 <? 256) && (g3 <? 256)
  | V4TimeExceeded _ => true
  | V4ParameterProblem (PointerIndicatesError p) => p <? 256
  | V4ParameterProblem _ => true
  | V4TimestampRequest m | V4TimestampReply m => wf_icmp4_ts m
  end.
Definition wf_icmp4 (h : Icmpv4Header) : bool :=
  wf_icmp4_type (icmp4_type h) && (icmp4_checksum h <? 65536).

(* bits that survive decode -> encode, by type t, code c and message length n:
   the typed variants write zeros into the words the RFC calls "unused" *)
Definition icmp4_keep_mask (t c n : N) : bytes :=
  [255; 255; 255; 255] ++
  (if (t =? 3) && (c <=? 15) then (if c =? 4 then [0; 0; 255; 255] else [0; 0; 0; 0])
   else if (t =? 11) && (c <=? 1) then [0; 0; 0; 0]
   else if (t =? 12) && (c <=? 2) then (if c =? 0 then [255; 0; 0; 0] else [0; 0; 0; 0])
   else [255; 255; 255; 255])
  ++ ones (n - 8).
