(* Roundtrip/SllProofs.v -- C08 for LinuxSllHeader *)
From EP Require Import Base.Bytes Roundtrip.Common Roundtrip.CommonProofs Roundtrip.LinkNetLemmas Roundtrip.Sll.
From Coq Require Import ZArith Lia ZifyN.
Local Open Scope N_scope.

Lemma sll_nonstd_some v n : sll_nonstd_try_from v = Some n -> n = v.
Proof.
  unfold sll_nonstd_try_from. intros H.
  repeat match type of H with (if ?c then _ else _) = _ => destruct c end; congruence.
Qed.

Lemma sll_protocol_of_wf hrd p :
  (match p with
   | SllNetlink _ => hrd =? 824
   | SllGre _ => hrd =? 778
   | SllIgnored _ => (hrd =? 803) || (hrd =? 770)
   | SllNonstd v => (hrd =? 1) && (match sll_nonstd_try_from v with Some _ => true | None => false end)
   | SllEtherType v => (hrd =? 1) && (match sll_nonstd_try_from v with Some _ => false | None => true end)
   end) = true ->
  sll_protocol_try_from hrd (sll_protocol_u16 p) = Some p.
Proof.
  intros C. unfold sll_protocol_try_from. destruct p as [v|v|v|v|v]; cbn [sll_protocol_u16].
  - apply orb_true_iff in C. destruct C as [C|C]; apply N.eqb_eq in C; subst hrd; reflexivity.
  - apply N.eqb_eq in C. subst hrd. reflexivity.
  - apply N.eqb_eq in C. subst hrd. reflexivity.
  - apply andb_true_iff in C. destruct C as [C1 C2]. apply N.eqb_eq in C1. subst hrd.
    change (1 =? 824) with false. change (1 =? 778) with false. change (1 =? 803) with false.
    change (1 =? 770) with false. change (1 =? 1) with true. cbv iota.
    destruct (sll_nonstd_try_from v); [discriminate|reflexivity].
  - apply andb_true_iff in C. destruct C as [C1 C2]. apply N.eqb_eq in C1. subst hrd.
    change (1 =? 824) with false. change (1 =? 778) with false. change (1 =? 803) with false.
    change (1 =? 770) with false. change (1 =? 1) with true. cbv iota.
    destruct (sll_nonstd_try_from v) as [n|] eqn:E; [|discriminate].
    apply sll_nonstd_some in E. subst n. reflexivity.
Qed.

Lemma sll_protocol_try_from_spec hrd v p : sll_protocol_try_from hrd v = Some p ->
  sll_protocol_u16 p = v /\
  (match p with
   | SllNetlink _ => hrd =? 824
   | SllGre _ => hrd =? 778
   | SllIgnored _ => (hrd =? 803) || (hrd =? 770)
   | SllNonstd v => (hrd =? 1) && (match sll_nonstd_try_from v with Some _ => true | None => false end)
   | SllEtherType v => (hrd =? 1) && (match sll_nonstd_try_from v with Some _ => false | None => true end)
   end) = true.
Proof.
  unfold sll_protocol_try_from. intros H.
  destruct (hrd =? 824) eqn:E1; [apply Some_inj in H; subst p; split; reflexivity|].
  destruct (hrd =? 778) eqn:E2; [apply Some_inj in H; subst p; split; reflexivity|].
  destruct (hrd =? 803) eqn:E3; [apply Some_inj in H; subst p; split; reflexivity|].
  destruct (hrd =? 770) eqn:E4; [apply Some_inj in H; subst p; split; reflexivity|].
  destruct (hrd =? 1) eqn:E5; [|discriminate].
  destruct (sll_nonstd_try_from v) as [n|] eqn:E.
  - pose proof (sll_nonstd_some v n E) as X. subst n. apply Some_inj in H. subst p. cbn [sll_protocol_u16].
    split; [reflexivity|]. rewrite E. reflexivity.
  - apply Some_inj in H. subst p. cbn [sll_protocol_u16]. split; [reflexivity|]. rewrite E. reflexivity.
Qed.

Lemma sll_wf_facts h : wf_sll h = true ->
  sll_packet_type h <= 7 /\ sll_arp_hrd_type h < 65536 /\ sll_sender_address_valid_length h < 65536
  /\ len (sll_sender_address h) = 8 /\ bytes_ok (sll_sender_address h)
  /\ sll_protocol_u16 (sll_protocol_type h) < 65536 /\ sll_consistent h = true.
Proof.
  unfold wf_sll, sll_in_range. intros W. bsplit W. repeat split; try assumption. apply bytes_okb_spec; assumption.
Qed.

Lemma len_sll_to_bytes h : wf_sll h = true -> len (sll_to_bytes h) = 16.
Proof.
  intros W. destruct (sll_wf_facts h W) as (_ & _ & _ & LA & _).
  unfold sll_to_bytes. rewrite !len_app, LA. reflexivity.
Qed.

Theorem sll_ser_agree h out slice : wf_sll h = true ->
  sll_write out h = out ++ sll_to_bytes h /\ len (sll_to_bytes h) = sll_header_len h
  /\ (16 <= len slice -> sll_write_to_slice slice h = Ok (sll_to_bytes h ++ drop 16 slice, drop 16 slice))
  /\ (len slice < 16 -> sll_write_to_slice slice h = Err ELen).
Proof.
  intros W. pose proof (len_sll_to_bytes h W) as L. split; [reflexivity|]. split; [exact L|]. split; intros H.
  - unfold sll_write_to_slice. rewrite L, (ltb_false _ _ H). reflexivity.
  - unfold sll_write_to_slice. apply N.ltb_lt in H. rewrite H. reflexivity.
Qed.

Ltac sll_rd := cbv [sll_rd16 rd nth_error N.to_nat Pos.to_nat Pos.iter_op Nat.add Init.Nat.add].

Lemma sll_decoders_enc h : wf_sll h = true ->
  sll_to_header (sll_to_bytes h) = Ok h /\ sll_from_bytes (sll_to_bytes h) = Ok h
  /\ sll_slice_from_slice (sll_to_bytes h) = Ok (sll_to_bytes h).
Proof.
  intros W. destruct (sll_wf_facts h W) as (R1 & R2 & R3 & LA & BA & R4 & C).
  pose proof (len_sll_to_bytes h W) as L16.
  destruct (len8_explicit _ LA) as (a0 & a1 & a2 & a3 & a4 & a5 & a6 & a7 & EA).
  pose proof (sll_protocol_of_wf _ _ C) as PR.
  revert L16. destruct h as [pt hrd savl addr p].
  cbn [sll_packet_type sll_arp_hrd_type sll_sender_address_valid_length sll_sender_address sll_protocol_type] in *.
  subst addr. unfold sll_to_bytes, u16_to_be.
  cbn [sll_packet_type sll_arp_hrd_type sll_sender_address_valid_length sll_sender_address sll_protocol_type app].
  set (v := sll_protocol_u16 p) in *.
  assert (E1 : be16 ((pt / 256) mod 256) (pt mod 256) = pt) by (apply u16_be_roundtrip; lia).
  assert (E2 : be16 ((hrd / 256) mod 256) (hrd mod 256) = hrd) by (apply u16_be_roundtrip; lia).
  assert (E3 : be16 ((savl / 256) mod 256) (savl mod 256) = savl) by (apply u16_be_roundtrip; lia).
  assert (E4 : be16 ((v / 256) mod 256) (v mod 256) = v) by (apply u16_be_roundtrip; lia).
  set (p0 := (pt / 256) mod 256) in *. set (p1 := pt mod 256) in *.
  set (h0 := (hrd / 256) mod 256) in *. set (h1 := hrd mod 256) in *.
  set (s0 := (savl / 256) mod 256) in *. set (s1 := savl mod 256) in *.
  set (v0 := (v / 256) mod 256) in *. set (v1 := v mod 256) in *.
  clearbody p0 p1 h0 h1 s0 s1 v0 v1. intros L16.
  assert (PT : sll_packet_type_try_from pt = Some pt).
  { unfold sll_packet_type_try_from. rewrite (leb_true pt 7 R1). reflexivity. }
  split; [|split].
  - unfold sll_to_header.
    match goal with |- context [slice_range ?s 6 14] =>
      let r := eval vm_compute in (slice_range s 6 14) in change (slice_range s 6 14) with r end.
    sll_rd. rewrite E1, E2, E3, E4, PT, PR. reflexivity.
  - unfold sll_from_bytes. rewrite E1, E2, E3, E4, PT, PR. reflexivity.
  - unfold sll_slice_from_slice. rewrite L16. change (16 <? 16) with false. cbv iota.
    sll_rd. rewrite E1, E2, E4, PT, PR. rewrite take_all by (rewrite L16; lia). reflexivity.
Qed.

Theorem sll_dec_enc h rest : wf_sll h = true ->
  sll_from_slice (sll_to_bytes h ++ rest) = Ok (h, rest) /\ sll_read (sll_to_bytes h ++ rest) = Ok (h, rest)
  /\ sll_from_bytes (sll_to_bytes h) = Ok h.
Proof.
  intros W. pose proof (len_sll_to_bytes h W) as L.
  destruct (sll_decoders_enc h W) as (HD & HB & HS).
  split; [|split; [|exact HB]].
  - unfold sll_from_slice.
    assert (SS : sll_slice_from_slice (sll_to_bytes h ++ rest) = Ok (sll_to_bytes h)).
    { revert HS. unfold sll_slice_from_slice. rewrite len_app, L.
      rewrite (ltb_false (16 + len rest) 16) by lia. change (16 <? 16) with false. cbv iota.
      assert (RD : forall i j, i < 16 -> j < 16 ->
                   sll_rd16 (sll_to_bytes h ++ rest) i j = sll_rd16 (sll_to_bytes h) i j).
      { intros i j Hi Hj. unfold sll_rd16, rd. rewrite !nth_error_app1; [reflexivity| |];
          unfold len in L; lia. }
      rewrite !RD by lia.
      destruct (sll_rd16 (sll_to_bytes h) 0 1), (sll_rd16 (sll_to_bytes h) 2 3),
               (sll_rd16 (sll_to_bytes h) 14 15); try discriminate.
      destruct (sll_packet_type_try_from n); [|discriminate].
      destruct (sll_protocol_try_from n0 n1); [|discriminate].
      intros _. f_equal. apply take_app_len. symmetry. exact L. }
    rewrite SS, HD. unfold slice_from. rewrite len_app, L. rewrite (leb_true 16 (16 + len rest)) by lia.
    rewrite (drop_app_len (sll_to_bytes h)) by (symmetry; exact L). reflexivity.
  - unfold sll_read, read_exact. rewrite len_app, L. rewrite (ltb_false (16 + len rest) 16) by lia.
    rewrite (take_app_len (sll_to_bytes h)) by (symmetry; exact L).
    rewrite (drop_app_len (sll_to_bytes h)) by (symmetry; exact L). rewrite HB. reflexivity.
Qed.

(* no reserved bits: exact reproduction of the 16 consumed bytes *)
Theorem sll_enc_dec bs h rest : bytes_ok bs -> sll_from_slice bs = Ok (h, rest) ->
  wf_sll h = true /\ bs = sll_to_bytes h ++ rest /\ len (sll_to_bytes h) = 16
  /\ sll_from_slice (sll_to_bytes h) = Ok (h, []).
Proof.
  intros OK H. unfold sll_from_slice, sll_slice_from_slice in H.
  destruct (len bs <? 16) eqn:L; [discriminate|].
  destruct bs as [|b0 [|b1 [|b2 [|b3 [|b4 [|b5 [|b6 [|b7 [|b8 [|b9 [|b10 [|b11 [|b12 [|b13 [|b14 [|b15 r]]]]]]]]]]]]]]]];
    try (vm_compute in L; discriminate).
  clear L. revert H. sll_rd.
  destruct (sll_packet_type_try_from (be16 b0 b1)) as [pt|] eqn:PT; [|discriminate].
  destruct (sll_protocol_try_from (be16 b2 b3) (be16 b14 b15)) as [p|] eqn:PR; [|discriminate].
  match goal with |- context [take 16 ?s] =>
    let t := eval cbv [take firstn N.to_nat Pos.to_nat Pos.iter_op Nat.add Init.Nat.add] in (take 16 s) in
    change (take 16 s) with t end.
  unfold sll_to_header.
  match goal with |- context [slice_range ?s 6 14] =>
    let v := eval vm_compute in (slice_range s 6 14) in change (slice_range s 6 14) with v end.
  sll_rd. rewrite PT, PR. unfold slice_from. rewrite !len_cons. rewrite (leb_true 16 _) by lia.
  match goal with |- context [drop 16 ?s] => change (drop 16 s) with r end.
  intros H. apply Ok_inj in H. apply pair_equal_spec in H. destruct H as [Hh Hrest]. subst rest.
  pose proof OK as OK'. bytes_ok_split OK'.
  unfold sll_packet_type_try_from in PT. destruct (be16 b0 b1 <=? 7) eqn:P7; [|discriminate].
  apply Some_inj in PT. subst pt. apply N.leb_le in P7.
  destruct (sll_protocol_try_from_spec _ _ _ PR) as (PU & PC).
  assert (WF : wf_sll h = true).
  { rewrite <- Hh. unfold wf_sll, sll_in_range, sll_consistent.
    cbn [sll_packet_type sll_arp_hrd_type sll_sender_address_valid_length sll_sender_address sll_protocol_type].
    rewrite PU, PC.
    pose proof (be16_bound b2 b3 B1 B2) as X1. pose proof (be16_bound b4 b5 B3 B4) as X2.
    pose proof (be16_bound b14 b15 B13 B14) as X3.
    apply N.ltb_lt in X1, X2, X3. rewrite X1, X2, X3. rewrite (leb_true _ _ P7).
    change (len [b6; b7; b8; b9; b10; b11; b12; b13] =? 8) with true. cbn [andb].
    assert (X : bytes_okb [b6; b7; b8; b9; b10; b11; b12; b13] = true)
      by (apply bytes_okb_spec; repeat (apply bytes_ok_explicit_cons; [assumption|]); constructor).
    rewrite X. reflexivity. }
  split; [exact WF|]. split; [|split].
  - rewrite <- Hh. unfold sll_to_bytes.
    cbn [sll_packet_type sll_arp_hrd_type sll_sender_address_valid_length sll_sender_address sll_protocol_type].
    rewrite PU, !u16_to_be_be16 by assumption. reflexivity.
  - apply len_sll_to_bytes. exact WF.
  - destruct (sll_dec_enc h [] WF) as [E _]. rewrite app_nil_r in E. exact E.
Qed.

From EP Require Import Roundtrip.Spec Roundtrip.SpecLinkNet.
Theorem sll_spec h : sll_to_bytes h =
  sll_layout (sll_packet_type h) (sll_arp_hrd_type h) (sll_sender_address_valid_length h)
             (sll_sender_address h) (sll_protocol_u16 (sll_protocol_type h)).
Proof. reflexivity. Qed.

(* values outside wf_sll: every field in the range of its Rust type, but the protocol type
   variant does not belong to the ARP hardware id: the decoders either reject the encoded
   bytes (unsupported hardware id) or return a DIFFERENT value *)
Theorem sll_inconsistent_not_roundtrip h rest : sll_in_range h = true -> sll_consistent h = false ->
  forall h' rest', sll_from_slice (sll_to_bytes h ++ rest) = Ok (h', rest') -> h' <> h.
Proof.
  intros R NC h' rest' D E. subst h'.
  assert (OKB : bytes_ok (sll_to_bytes h)).
  { unfold sll_in_range in R. bsplit R. unfold sll_to_bytes.
    repeat (apply bytes_ok_app; split); try apply bytes_ok_u16_to_be. apply bytes_okb_spec. assumption. }
  (* decode the prefix alone: the same header comes out, so it would be well-formed *)
  unfold sll_from_slice in D.
  destruct (sll_slice_from_slice (sll_to_bytes h ++ rest)) as [hs|] eqn:S; [|discriminate].
  destruct (sll_to_header hs) as [hh|] eqn:T; [|discriminate].
  destruct (slice_from (sll_to_bytes h ++ rest) 16); [|discriminate].
  apply Ok_inj in D. apply pair_equal_spec in D. destruct D as [D _]. subst hh.
  (* hs is the first 16 bytes and to_header succeeded: protocol consistent *)
  unfold sll_to_header in T.
  destruct (sll_rd16 hs 0 1), (sll_rd16 hs 2 3) as [hrd|], (sll_rd16 hs 4 5), (slice_range hs 6 14),
           (sll_rd16 hs 14 15) as [prv|]; try discriminate.
  destruct (sll_packet_type_try_from n); [|discriminate].
  destruct (sll_protocol_try_from hrd prv) as [p|] eqn:PR; [|discriminate].
  apply Ok_inj in T. destruct (sll_protocol_try_from_spec _ _ _ PR) as (_ & PC).
  rewrite <- T in NC. unfold sll_consistent in NC.
  cbn [sll_arp_hrd_type sll_protocol_type] in NC. rewrite PC in NC. discriminate.
Qed.
