(* Roundtrip/ArpProofs.v -- C08 for ArpPacket and the ArpEthIpv4Packet view *)
From EP Require Import Base.Bytes Roundtrip.Common Roundtrip.CommonProofs Roundtrip.LinkNetLemmas Roundtrip.Arp.
From Coq Require Import ZArith Lia ZifyN.
Local Open Scope N_scope.

Lemma arp_wf_buf_facts buf n : arp_wf_buf buf n = true -> n <= len buf /\ len buf <= 255 /\ bytes_ok buf.
Proof. unfold arp_wf_buf. intros W. bsplit W. repeat split; try assumption. apply bytes_okb_spec; assumption. Qed.

Lemma arp_wf_facts h : wf_arp h = true ->
  arp_hw_addr_type h < 65536 /\ arp_proto_addr_type h < 65536 /\ arp_operation h < 65536
  /\ arp_hw_addr_size h < 256 /\ arp_proto_addr_size h < 256
  /\ arp_wf_buf (arp_sender_hw_addr_buf h) (arp_hw_addr_size h) = true
  /\ arp_wf_buf (arp_sender_protocol_addr_buf h) (arp_proto_addr_size h) = true
  /\ arp_wf_buf (arp_target_hw_addr_buf h) (arp_hw_addr_size h) = true
  /\ arp_wf_buf (arp_target_protocol_addr_buf h) (arp_proto_addr_size h) = true.
Proof. unfold wf_arp. intros W. bsplit W. repeat split; assumption. Qed.

Definition arp_sh h := take (arp_hw_addr_size h) (arp_sender_hw_addr_buf h).
Definition arp_sp h := take (arp_proto_addr_size h) (arp_sender_protocol_addr_buf h).
Definition arp_th h := take (arp_hw_addr_size h) (arp_target_hw_addr_buf h).
Definition arp_tp h := take (arp_proto_addr_size h) (arp_target_protocol_addr_buf h).
Definition arp_enc h := arp_first8 h ++ arp_sh h ++ arp_sp h ++ arp_th h ++ arp_tp h.

Lemma arp_buf_slice_wf buf n : arp_wf_buf buf n = true ->
  arp_buf_slice buf n = Some (take n buf) /\ len (take n buf) = n /\ bytes_ok (take n buf).
Proof.
  intros W. destruct (arp_wf_buf_facts _ _ W) as (A & B & C). unfold arp_buf_slice.
  rewrite (leb_true _ _ A). split; [reflexivity|]. split; [rewrite len_take; lia|apply bytes_ok_take; exact C].
Qed.

Lemma len_arp_first8 h : len (arp_first8 h) = 8.
Proof. reflexivity. Qed.

Lemma arp_lens h : wf_arp h = true ->
  len (arp_sh h) = arp_hw_addr_size h /\ len (arp_sp h) = arp_proto_addr_size h
  /\ len (arp_th h) = arp_hw_addr_size h /\ len (arp_tp h) = arp_proto_addr_size h.
Proof.
  intros W. destruct (arp_wf_facts h W) as (_ & _ & _ & _ & _ & W1 & W2 & W3 & W4).
  destruct (arp_buf_slice_wf _ _ W1) as (_ & L1 & _). destruct (arp_buf_slice_wf _ _ W2) as (_ & L2 & _).
  destruct (arp_buf_slice_wf _ _ W3) as (_ & L3 & _). destruct (arp_buf_slice_wf _ _ W4) as (_ & L4 & _).
  repeat split; assumption.
Qed.

Lemma len_arp_enc h : wf_arp h = true -> len (arp_enc h) = arp_packet_len h.
Proof.
  intros W. destruct (arp_lens h W) as (L1 & L2 & L3 & L4).
  unfold arp_enc, arp_packet_len. rewrite !len_app, len_arp_first8, L1, L2, L3, L4. lia.
Qed.

Lemma arp_to_bytes_wf h : wf_arp h = true -> arp_to_bytes h = Some (arp_enc h).
Proof.
  intros W. pose proof (len_arp_enc h W) as LE.
  destruct (arp_wf_facts h W) as (_ & _ & _ & H1 & H2 & W1 & W2 & W3 & W4).
  destruct (arp_buf_slice_wf _ _ W1) as (S1 & _). destruct (arp_buf_slice_wf _ _ W2) as (S2 & _).
  destruct (arp_buf_slice_wf _ _ W3) as (S3 & _). destruct (arp_buf_slice_wf _ _ W4) as (S4 & _).
  unfold arp_to_bytes, arp_sender_hw_addr, arp_sender_protocol_addr, arp_target_hw_addr, arp_target_protocol_addr.
  rewrite S1, S2, S3, S4. fold (arp_sh h) (arp_sp h) (arp_th h) (arp_tp h). fold (arp_enc h).
  rewrite LE. unfold arp_packet_len, ARP_MAX_LEN.
  rewrite (leb_true _ 1028) by lia. reflexivity.
Qed.

Theorem arp_ser_agree h out : wf_arp h = true ->
  exists e, arp_to_bytes h = Some e /\ arp_write out h = Some (out ++ e) /\ len e = arp_packet_len h.
Proof.
  intros W. exists (arp_enc h). split; [apply arp_to_bytes_wf; exact W|]. split.
  - unfold arp_write. rewrite (arp_to_bytes_wf h W). reflexivity.
  - apply len_arp_enc. exact W.
Qed.

(* to_packet on  F8 ++ A ++ B ++ C ++ D  with the sizes in bytes 4 and 5 *)
Lemma arp_to_packet_windows b0 b1 b2 b3 hs ps b6 b7 A B C D :
  len A = hs -> len B = ps -> len C = hs -> len D = ps -> hs < 256 -> ps < 256 ->
  arp_to_packet ([b0; b1; b2; b3; hs; ps; b6; b7] ++ A ++ B ++ C ++ D) =
  Ok {| arp_hw_addr_type := be16 b0 b1; arp_proto_addr_type := be16 b2 b3;
        arp_hw_addr_size := hs; arp_proto_addr_size := ps; arp_operation := be16 b6 b7;
        arp_sender_hw_addr_buf := A; arp_sender_protocol_addr_buf := B;
        arp_target_hw_addr_buf := C; arp_target_protocol_addr_buf := D |}.
Proof.
  intros LA LB LC LD H1 H2.
  destruct (four_windows [b0; b1; b2; b3; hs; ps; b6; b7] A B C D eq_refl) as (S1 & S2 & S3 & S4).
  cbv zeta in *. rewrite LA in S1. rewrite LA, LB in S2. rewrite LA, LB, LC in S3. rewrite LA, LB, LC, LD in S4.
  replace (8 + hs + ps + hs) with (8 + hs * 2 + ps) in S4 by lia.
  revert S1 S2 S3 S4. cbn [app]. intros S1 S2 S3 S4.
  unfold arp_to_packet. rewrite S1, S2, S3, S4.
  unfold arp_new_unchecked. rewrite LA, LB, LC, LD.
  rewrite (ltb_false 255 hs) by lia. rewrite (ltb_false 255 ps) by lia. cbn [orb].
  unfold as_u8. rewrite !N.mod_small by lia. reflexivity.
Qed.

Lemma arp_first8_explicit h : arp_first8 h =
  [(arp_hw_addr_type h / 256) mod 256; arp_hw_addr_type h mod 256;
   (arp_proto_addr_type h / 256) mod 256; arp_proto_addr_type h mod 256;
   arp_hw_addr_size h; arp_proto_addr_size h;
   (arp_operation h / 256) mod 256; arp_operation h mod 256].
Proof. reflexivity. Qed.

Theorem arp_dec_enc h rest : wf_arp h = true ->
  exists e, arp_to_bytes h = Some e /\ len e = arp_packet_len h
    /\ arp_from_slice (e ++ rest) = Ok (arp_norm h) /\ drop (arp_packet_len h) (e ++ rest) = rest
    /\ arp_read (e ++ rest) = Ok (arp_norm h, rest) /\ arp_eqb (arp_norm h) h = true.
Proof.
  intros W. exists (arp_enc h). pose proof (len_arp_enc h W) as LE.
  split; [apply arp_to_bytes_wf; exact W|]. split; [exact LE|].
  destruct (arp_wf_facts h W) as (R1 & R2 & R3 & H1 & H2 & W1 & W2 & W3 & W4).
  destruct (arp_lens h W) as (L1 & L2 & L3 & L4).
  assert (NM : Ok (arp_norm h) =
    Ok {| arp_hw_addr_type := be16 ((arp_hw_addr_type h / 256) mod 256) (arp_hw_addr_type h mod 256);
          arp_proto_addr_type := be16 ((arp_proto_addr_type h / 256) mod 256) (arp_proto_addr_type h mod 256);
          arp_hw_addr_size := arp_hw_addr_size h; arp_proto_addr_size := arp_proto_addr_size h;
          arp_operation := be16 ((arp_operation h / 256) mod 256) (arp_operation h mod 256);
          arp_sender_hw_addr_buf := arp_sh h; arp_sender_protocol_addr_buf := arp_sp h;
          arp_target_hw_addr_buf := arp_th h; arp_target_protocol_addr_buf := arp_tp h |}).
  { rewrite !u16_be_roundtrip by assumption. reflexivity. }
  split; [|split; [|split]].
  - unfold arp_from_slice, arp_slice_from_slice. rewrite len_app, LE.
    assert (X : 8 <= arp_packet_len h) by (unfold arp_packet_len; lia).
    rewrite (ltb_false (arp_packet_len h + len rest) 8) by lia.
    assert (R4 : rd (arp_enc h ++ rest) 4 = Some (arp_hw_addr_size h)) by reflexivity.
    assert (R5 : rd (arp_enc h ++ rest) 5 = Some (arp_proto_addr_size h)) by reflexivity.
    rewrite R4, R5. cbv iota beta zeta. fold (arp_packet_len h).
    rewrite (ltb_false (arp_packet_len h + len rest) (arp_packet_len h)) by lia.
    rewrite (take_app_len (arp_enc h)) by (symmetry; exact LE).
    unfold arp_enc. rewrite arp_first8_explicit.
    rewrite (arp_to_packet_windows _ _ _ _ _ _ _ _ _ _ _ _ L1 L2 L3 L4 H1 H2). symmetry. exact NM.
  - apply drop_app_len. symmetry. exact LE.
  - unfold arp_read, arp_enc. rewrite <- !app_assoc.
    rewrite (read_exact_app' (arp_first8 h)) by reflexivity.
    rewrite arp_first8_explicit. cbv iota beta.
    rewrite (ltb_false 255 (arp_hw_addr_size h)) by lia. rewrite (ltb_false 255 (arp_proto_addr_size h)) by lia.
    cbn [orb].
    rewrite (read_exact_app' (arp_sh h)) by exact L1. rewrite (read_exact_app' (arp_sp h)) by exact L2.
    rewrite (read_exact_app' (arp_th h)) by exact L3. rewrite (read_exact_app' (arp_tp h)) by exact L4.
    rewrite !u16_be_roundtrip by assumption. reflexivity.
  - unfold arp_eqb, arp_norm. cbn [arp_hw_addr_type arp_proto_addr_type arp_hw_addr_size arp_proto_addr_size arp_operation].
    rewrite !N.eqb_refl. cbn [andb].
    unfold arp_sender_hw_addr, arp_sender_protocol_addr, arp_target_hw_addr, arp_target_protocol_addr.
    cbn [arp_hw_addr_size arp_proto_addr_size arp_sender_hw_addr_buf arp_sender_protocol_addr_buf
         arp_target_hw_addr_buf arp_target_protocol_addr_buf].
    destruct (arp_buf_slice_wf _ _ W1) as (S1 & _). destruct (arp_buf_slice_wf _ _ W2) as (S2 & _).
    destruct (arp_buf_slice_wf _ _ W3) as (S3 & _). destruct (arp_buf_slice_wf _ _ W4) as (S4 & _).
    rewrite S1, S2, S3, S4. fold (arp_sh h) (arp_sp h) (arp_th h) (arp_tp h).
    unfold arp_buf_slice. rewrite L1, L2, L3, L4. rewrite !N.leb_refl.
    rewrite (take_all (arp_sh h)) by lia. rewrite (take_all (arp_sp h)) by lia.
    rewrite (take_all (arp_th h)) by lia. rewrite (take_all (arp_tp h)) by lia.
    unfold arp_opt_eqb. rewrite !bytes_eqb_refl. reflexivity.
Qed.

(* no reserved bits: the consumed bytes are reproduced exactly *)
Theorem arp_enc_dec bs h : bytes_ok bs -> arp_from_slice bs = Ok h ->
  wf_arp h = true /\ arp_norm h = h /\ arp_packet_len h <= len bs
  /\ exists e, arp_to_bytes h = Some e /\ e = take (arp_packet_len h) bs
       /\ arp_from_slice (e ++ drop (arp_packet_len h) bs) = Ok h.
Proof.
  intros OK H. unfold arp_from_slice, arp_slice_from_slice in H.
  destruct (len bs <? 8) eqn:L; [discriminate|]. apply N.ltb_ge in L.
  destruct bs as [|b0 [|b1 [|b2 [|b3 [|hs [|ps [|b6 [|b7 r]]]]]]]]; try (rewrite ?len_cons, ?len_nil in L; lia).
  match type of H with context [rd ?s 4] => change (rd s 4) with (Some hs) in H end.
  match type of H with context [rd ?s 5] => change (rd s 5) with (Some ps) in H end.
  cbv iota beta zeta in H.
  set (F := [b0; b1; b2; b3; hs; ps; b6; b7]) in *.
  set (bs := b0 :: b1 :: b2 :: b3 :: hs :: ps :: b6 :: b7 :: r) in *.
  assert (EB : bs = F ++ r) by reflexivity.
  destruct (len bs <? 8 + hs * 2 + ps * 2) eqn:L2; [discriminate|]. apply N.ltb_ge in L2.
  pose proof OK as OK'. unfold bs in OK'. bytes_ok_split OK'.
  assert (LR : hs + ps + hs + ps <= len r) by (rewrite EB, len_app in L2; change (len F) with 8 in L2; lia).
  set (XA := take hs r). set (XB := take ps (drop hs r)).
  set (XC := take hs (drop (hs + ps) r)). set (XD := take ps (drop (hs + ps + hs) r)).
  assert (LA : len XA = hs) by (unfold XA; rewrite len_take; lia).
  assert (LB : len XB = ps) by (unfold XB; rewrite len_take, len_drop; lia).
  assert (LC : len XC = hs) by (unfold XC; rewrite len_take, len_drop; lia).
  assert (LD : len XD = ps) by (unfold XD; rewrite len_take, len_drop; lia).
  assert (T4 : take (hs + ps + hs + ps) r = XA ++ XB ++ XC ++ XD).
  { rewrite (take_drop_split r (hs + ps + hs) ps). rewrite (take_drop_split r (hs + ps) hs).
    rewrite (take_drop_split r hs ps). unfold XA, XB, XC, XD. rewrite <- !app_assoc. reflexivity. }
  assert (TK : take (8 + hs * 2 + ps * 2) bs = F ++ XA ++ XB ++ XC ++ XD).
  { rewrite EB, <- T4. apply take_app_more. change (len F) with 8. lia. }
  rewrite TK in H. unfold F in H.
  rewrite (arp_to_packet_windows _ _ _ _ _ _ _ _ _ _ _ _ LA LB LC LD B3 B4) in H.
  apply Ok_inj in H.
  assert (BA : bytes_ok XA) by (unfold XA; apply bytes_ok_take; exact OK').
  assert (BB : bytes_ok XB) by (unfold XB; apply bytes_ok_take, bytes_ok_drop; exact OK').
  assert (BC : bytes_ok XC) by (unfold XC; apply bytes_ok_take, bytes_ok_drop; exact OK').
  assert (BD : bytes_ok XD) by (unfold XD; apply bytes_ok_take, bytes_ok_drop; exact OK').
  assert (WB : forall X n, len X = n -> n < 256 -> bytes_ok X -> arp_wf_buf X n = true).
  { intros X n LX Hn BX. unfold arp_wf_buf. rewrite LX, N.leb_refl. rewrite (leb_true n 255) by lia.
    apply bytes_okb_spec in BX. rewrite BX. reflexivity. }
  assert (WF : wf_arp h = true).
  { rewrite <- H. unfold wf_arp.
    cbn [arp_hw_addr_type arp_proto_addr_type arp_hw_addr_size arp_proto_addr_size arp_operation
         arp_sender_hw_addr_buf arp_sender_protocol_addr_buf arp_target_hw_addr_buf arp_target_protocol_addr_buf].
    pose proof (be16_bound b0 b1 B B0) as X1. pose proof (be16_bound b2 b3 B1 B2) as X2.
    pose proof (be16_bound b6 b7 B5 B6) as X3.
    apply N.ltb_lt in X1, X2, X3. rewrite X1, X2, X3.
    rewrite (WB XA hs LA B3 BA), (WB XB ps LB B4 BB), (WB XC hs LC B3 BC), (WB XD ps LD B4 BD).
    apply N.ltb_lt in B3, B4. rewrite B3, B4. reflexivity. }
  assert (NM : arp_norm h = h).
  { rewrite <- H. unfold arp_norm.
    cbn [arp_hw_addr_type arp_proto_addr_type arp_hw_addr_size arp_proto_addr_size arp_operation
         arp_sender_hw_addr_buf arp_sender_protocol_addr_buf arp_target_hw_addr_buf arp_target_protocol_addr_buf].
    rewrite (take_all XA), (take_all XB), (take_all XC), (take_all XD) by lia. reflexivity. }
  assert (PL : arp_packet_len h = 8 + hs * 2 + ps * 2).
  { rewrite <- H. reflexivity. }
  split; [exact WF|]. split; [exact NM|]. split; [rewrite PL; exact L2|].
  exists (arp_enc h). split; [apply arp_to_bytes_wf; exact WF|]. split.
  - rewrite PL, TK. rewrite <- H. unfold arp_enc, arp_sh, arp_sp, arp_th, arp_tp, arp_first8.
    cbn [arp_hw_addr_type arp_proto_addr_type arp_hw_addr_size arp_proto_addr_size arp_operation
         arp_sender_hw_addr_buf arp_sender_protocol_addr_buf arp_target_hw_addr_buf arp_target_protocol_addr_buf].
    rewrite (take_all XA), (take_all XB), (take_all XC), (take_all XD) by lia.
    rewrite !u16_to_be_be16 by assumption. reflexivity.
  - destruct (arp_dec_enc h (drop (arp_packet_len h) bs) WF) as (e & E1 & _ & E2 & _).
    rewrite (arp_to_bytes_wf h WF) in E1. apply Some_inj in E1. subst e. rewrite NM in E2. exact E2.
Qed.

From EP Require Import Roundtrip.Spec Roundtrip.SpecLinkNet.

Theorem arp_spec h : wf_arp h = true ->
  arp_to_bytes h = Some (arp_layout (arp_hw_addr_type h) (arp_proto_addr_type h) (arp_operation h)
                                    (arp_sh h) (arp_sp h) (arp_th h) (arp_tp h)).
Proof.
  intros W. rewrite (arp_to_bytes_wf h W). destruct (arp_lens h W) as (L1 & L2 & _ & _).
  unfold arp_layout. rewrite L1, L2. reflexivity.
Qed.

(* new() gives a well-formed value holding the given addresses *)
Lemma arp_new_wf hat pat op sh sp th tp h :
  hat < 65536 -> pat < 65536 -> op < 65536 -> bytes_ok sh -> bytes_ok sp -> bytes_ok th -> bytes_ok tp ->
  arp_new hat pat op sh sp th tp = Some h ->
  wf_arp h = true /\ arp_norm h = h /\ arp_sh h = sh /\ arp_sp h = sp /\ arp_th h = th /\ arp_tp h = tp.
Proof.
  intros A1 A2 A3 B1 B2 B3 B4 H. unfold arp_new in H.
  destruct (len sh =? len th) eqn:E1; [|discriminate]. destruct (len sp =? len tp) eqn:E2; [|discriminate].
  cbn [negb] in H. apply N.eqb_eq in E1, E2.
  destruct (255 <? len sh) eqn:L1; [discriminate|]. destruct (255 <? len sp) eqn:L2; [discriminate|].
  apply N.ltb_ge in L1, L2. unfold arp_new_unchecked in H.
  rewrite (ltb_false 255 (len sh)), (ltb_false 255 (len sp)), (ltb_false 255 (len th)), (ltb_false 255 (len tp)) in H by lia.
  cbn [orb] in H. apply Some_inj in H. unfold as_u8 in H. rewrite !N.mod_small in H by lia. subst h.
  assert (WB : forall X n, len X = n -> n < 256 -> bytes_ok X -> arp_wf_buf X n = true).
  { intros X n LX Hn BX. unfold arp_wf_buf. rewrite LX, N.leb_refl. rewrite (leb_true n 255) by lia.
    apply bytes_okb_spec in BX. rewrite BX. reflexivity. }
  unfold wf_arp, arp_norm, arp_sh, arp_sp, arp_th, arp_tp.
  cbn [arp_hw_addr_type arp_proto_addr_type arp_hw_addr_size arp_proto_addr_size arp_operation
       arp_sender_hw_addr_buf arp_sender_protocol_addr_buf arp_target_hw_addr_buf arp_target_protocol_addr_buf].
  rewrite (take_all sh), (take_all sp), (take_all th), (take_all tp) by lia.
  rewrite (WB sh (len sh)), (WB sp (len sp)), (WB th (len sh)), (WB tp (len sp)) by (try assumption; lia).
  apply N.ltb_lt in A1, A2, A3. rewrite A1, A2, A3.
  rewrite (proj2 (N.ltb_lt (len sh) 256)) by lia. rewrite (proj2 (N.ltb_lt (len sp) 256)) by lia.
  repeat split; reflexivity.
Qed.

(* ------------------------------------------------------------------ ArpEthIpv4Packet *)
Lemma ae_wf_facts v : wf_ae v = true ->
  ae_operation v < 65536 /\ len (ae_sender_mac v) = 6 /\ bytes_ok (ae_sender_mac v)
  /\ len (ae_sender_ipv4 v) = 4 /\ bytes_ok (ae_sender_ipv4 v)
  /\ len (ae_target_mac v) = 6 /\ bytes_ok (ae_target_mac v)
  /\ len (ae_target_ipv4 v) = 4 /\ bytes_ok (ae_target_ipv4 v).
Proof. unfold wf_ae. intros W. bsplit W. repeat split; try assumption; apply bytes_okb_spec; assumption. Qed.

(* the view's own serialiser = ArpPacket::to_bytes of the converted packet; 28 bytes *)
Theorem ae_ser_agree v : wf_ae v = true ->
  exists p, ae_to_arp_packet v = Some p /\ wf_arp p = true /\ arp_to_bytes p = Some (ae_to_bytes v)
            /\ len (ae_to_bytes v) = 28 /\ arp_try_eth_ipv4 p = Ok v.
Proof.
  intros W. destruct (ae_wf_facts v W) as (R & L1 & B1 & L2 & B2 & L3 & B3 & L4 & B4).
  unfold ae_to_arp_packet.
  assert (N : arp_new 1 2048 (ae_operation v) (ae_sender_mac v) (ae_sender_ipv4 v) (ae_target_mac v) (ae_target_ipv4 v)
              = arp_new_unchecked 1 2048 (ae_operation v) (ae_sender_mac v) (ae_sender_ipv4 v) (ae_target_mac v)
                  (ae_target_ipv4 v)).
  { unfold arp_new. rewrite L1, L2, L3, L4. reflexivity. }
  destruct (arp_new_unchecked 1 2048 (ae_operation v) (ae_sender_mac v) (ae_sender_ipv4 v) (ae_target_mac v)
              (ae_target_ipv4 v)) as [p|] eqn:E.
  2:{ unfold arp_new_unchecked in E. rewrite L1, L2, L3, L4 in E. discriminate. }
  destruct (arp_new_wf 1 2048 (ae_operation v) _ _ _ _ p ltac:(lia) ltac:(lia) R B1 B2 B3 B4 N)
    as (WP & _ & S1 & S2 & S3 & S4).
  exists p. split; [reflexivity|]. split; [exact WP|].
  unfold arp_new_unchecked in E. rewrite L1, L2, L3, L4 in E. cbn [orb] in E.
  change (255 <? 6) with false in E. change (255 <? 4) with false in E. cbn [orb] in E.
  apply Some_inj in E.
  split; [|split].
  - rewrite (arp_to_bytes_wf p WP). unfold arp_enc. rewrite S1, S2, S3, S4. rewrite <- E. reflexivity.
  - unfold ae_to_bytes. rewrite !len_app, L1, L2, L3, L4. reflexivity.
  - rewrite <- E. unfold arp_try_eth_ipv4, arp_assume_init.
    cbn [arp_hw_addr_type arp_proto_addr_type arp_hw_addr_size arp_proto_addr_size arp_operation
         arp_sender_hw_addr_buf arp_sender_protocol_addr_buf arp_target_hw_addr_buf arp_target_protocol_addr_buf].
    rewrite L1, L2, L3, L4. cbv [as_u8]. 
    change (6 mod 256) with 6. change (4 mod 256) with 4.
    change (1 =? 1) with true. change (2048 =? 2048) with true. change (6 =? 6) with true. change (4 =? 4) with true.
    change (6 <=? 6) with true. change (4 <=? 4) with true. cbn [negb].
    rewrite !take_all by lia. destruct v. reflexivity.
Qed.

(* decode(encode v ++ rest) through ArpPacket::from_slice + try_from gives v back *)
Theorem ae_dec_enc v rest : wf_ae v = true ->
  exists p, arp_from_slice (ae_to_bytes v ++ rest) = Ok p /\ arp_try_eth_ipv4 p = Ok v
            /\ drop 28 (ae_to_bytes v ++ rest) = rest.
Proof.
  intros W. destruct (ae_ser_agree v W) as (p & P1 & WP & P2 & L & P3).
  destruct (arp_dec_enc p rest WP) as (e & E1 & E2 & E3 & E4 & _).
  rewrite P2 in E1. apply Some_inj in E1. subst e.
  exists (arp_norm p). split; [exact E3|]. split.
  - (* try_eth_ipv4 only looks at the first size bytes *)
    revert P3. unfold arp_try_eth_ipv4, arp_norm, arp_assume_init.
    cbn [arp_hw_addr_type arp_proto_addr_type arp_hw_addr_size arp_proto_addr_size arp_operation
         arp_sender_hw_addr_buf arp_sender_protocol_addr_buf arp_target_hw_addr_buf arp_target_protocol_addr_buf].
    destruct (arp_hw_addr_type p =? 1); [|discriminate]. destruct (arp_proto_addr_type p =? 2048); [|discriminate].
    destruct (arp_hw_addr_size p =? 6) eqn:H6; [|discriminate].
    destruct (arp_proto_addr_size p =? 4) eqn:H4; [|discriminate].
    cbn [negb]. apply N.eqb_eq in H6, H4. rewrite H6, H4.
    destruct (6 <=? len (arp_sender_hw_addr_buf p)) eqn:G1; [|discriminate].
    destruct (4 <=? len (arp_sender_protocol_addr_buf p)) eqn:G2; [|discriminate].
    destruct (6 <=? len (arp_target_hw_addr_buf p)) eqn:G3; [|discriminate].
    destruct (4 <=? len (arp_target_protocol_addr_buf p)) eqn:G4; [|discriminate].
    apply N.leb_le in G1, G2, G3, G4.
    rewrite !len_take. rewrite !N.min_l by assumption.
    change (6 <=? 6) with true. change (4 <=? 4) with true. cbv iota.
    rewrite !take_take by lia. auto.
  - apply drop_app_len. symmetry. exact L.
Qed.

(* accepted bytes that convert to the view: the view re-encodes to exactly the 28 consumed bytes *)
Theorem ae_enc_dec bs p v : bytes_ok bs -> arp_from_slice bs = Ok p -> arp_try_eth_ipv4 p = Ok v ->
  wf_ae v = true /\ 28 <= len bs /\ ae_to_bytes v = take 28 bs.
Proof.
  intros OK H T. destruct (arp_enc_dec bs p OK H) as (WP & NM & PL & e & E1 & E2 & _).
  destruct (arp_wf_facts p WP) as (R1 & R2 & R3 & H1 & H2 & W1 & W2 & W3 & W4).
  destruct (arp_buf_slice_wf _ _ W1) as (_ & L1 & K1). destruct (arp_buf_slice_wf _ _ W2) as (_ & L2 & K2).
  destruct (arp_buf_slice_wf _ _ W3) as (_ & L3 & K3). destruct (arp_buf_slice_wf _ _ W4) as (_ & L4 & K4).
  unfold arp_try_eth_ipv4, arp_assume_init in T.
  destruct (arp_hw_addr_type p =? 1) eqn:T1; [|discriminate].
  destruct (arp_proto_addr_type p =? 2048) eqn:T2; [|discriminate].
  destruct (arp_hw_addr_size p =? 6) eqn:H6; [|discriminate].
  destruct (arp_proto_addr_size p =? 4) eqn:H4; [|discriminate].
  cbn [negb] in T. apply N.eqb_eq in T1, T2, H6, H4.
  destruct (6 <=? len (arp_sender_hw_addr_buf p)); [|discriminate].
  destruct (4 <=? len (arp_sender_protocol_addr_buf p)); [|discriminate].
  destruct (6 <=? len (arp_target_hw_addr_buf p)); [|discriminate].
  destruct (4 <=? len (arp_target_protocol_addr_buf p)); [|discriminate].
  apply Ok_inj in T. rewrite H6 in L1, L3, K1, K3. rewrite H4 in L2, L4, K2, K4.
  assert (P28 : arp_packet_len p = 28) by (unfold arp_packet_len; rewrite H6, H4; reflexivity).
  rewrite P28 in *.
  split; [|split; [exact PL|]].
  - rewrite <- T. unfold wf_ae. cbn [ae_operation ae_sender_mac ae_sender_ipv4 ae_target_mac ae_target_ipv4].
    rewrite L1, L2, L3, L4. apply N.ltb_lt in R3. rewrite R3.
    apply bytes_okb_spec in K1, K2, K3, K4. rewrite K1, K2, K3, K4. reflexivity.
  - rewrite <- E2. rewrite (arp_to_bytes_wf p WP) in E1. apply Some_inj in E1. rewrite <- E1.
    rewrite <- T. unfold ae_to_bytes, arp_enc, arp_first8, arp_sh, arp_sp, arp_th, arp_tp.
    cbn [ae_operation ae_sender_mac ae_sender_ipv4 ae_target_mac ae_target_ipv4].
    rewrite T1, T2, H6, H4. rewrite <- !app_assoc. reflexivity.
Qed.
