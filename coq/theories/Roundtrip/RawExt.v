(* Roundtrip/RawExt.v -- model of etherparse Ipv6RawExtHeader / Ipv6RawExtHeaderSlice
   (net/ipv6_raw_ext_header.rs, net/ipv6_raw_ext_header_slice.rs): new_raw, payload,
   to_bytes, write, header_len, from_slice, read, PartialEq.  No write_to_slice.  Prefix rx_. *)
From EP Require Import Base.Bytes Roundtrip.Common.
Local Open Scope N_scope.

Record Ipv6RawExtHeader := {
  rx_next_header : N;          (* IpNumber(u8) *)
  rx_header_length : N;        (* u8, private: length in 8 octets minus the first 8 *)
  rx_payload_buffer : bytes }. (* [u8; 0xff*8 + 6] *)

Definition RX_MAX_PAYLOAD_LEN : N := 2046.
Definition RX_MAX_LEN : N := 2048.

(* payload: &self.payload_buffer[..(6 + usize::from(self.header_length) * 8)] *)
Definition rx_payload (h : Ipv6RawExtHeader) : option bytes :=
  slice_range (rx_payload_buffer h) 0 (6 + rx_header_length h * 8).

(* new_raw : None = Err(ExtPayloadLenError) *)
Definition rx_new_raw (nh : N) (payload : bytes) : option Ipv6RawExtHeader :=
  if len payload <? 6 then None
  else if RX_MAX_PAYLOAD_LEN <? len payload then None
  else if negb ((len payload + 2) mod 8 =? 0) then None
  else Some {| rx_next_header := nh;
               rx_header_length := as_u8 ((len payload - 6) / 8);
               rx_payload_buffer := payload ++ zeros (RX_MAX_PAYLOAD_LEN - len payload) |}.

(* set_payload: copies into the front of the buffer, keeps the bytes behind (None = Err) *)
Definition rx_set_payload (h : Ipv6RawExtHeader) (payload : bytes) : option Ipv6RawExtHeader :=
  if len payload <? 6 then None
  else if RX_MAX_PAYLOAD_LEN <? len payload then None
  else if negb ((len payload + 2) mod 8 =? 0) then None
  else if len (rx_payload_buffer h) <? len payload then None
  else Some {| rx_next_header := rx_next_header h;
               rx_header_length := as_u8 ((len payload - 6) / 8);
               rx_payload_buffer := payload ++ drop (len payload) (rx_payload_buffer h) |}.

(* PartialEq: next_header and payload() *)
Definition rx_eqb (a b : Ipv6RawExtHeader) : bool :=
  (rx_next_header a =? rx_next_header b)
  && match rx_payload a, rx_payload b with
     | Some x, Some y => bytes_eqb x y
     | _, _ => false
     end.

Definition rx_header_len (h : Ipv6RawExtHeader) : N := 2 + (6 + rx_header_length h * 8).

(* to_bytes: ArrayVec<2048>::new(); extend([nh, hl]); try_extend_from_slice(payload()).unwrap() *)
Definition rx_to_bytes (h : Ipv6RawExtHeader) : option bytes :=
  match rx_payload h with
  | None => None
  | Some p => if 2 + len p <=? RX_MAX_LEN then Some ([rx_next_header h; rx_header_length h] ++ p) else None
  end.

(* write: write_all(&[nh, hl]); write_all(self.payload()) *)
Definition rx_write (out : bytes) (h : Ipv6RawExtHeader) : option bytes :=
  match rx_payload h with
  | None => None
  | Some p => Some (out ++ [rx_next_header h; rx_header_length h] ++ p)
  end.

(* Ipv6RawExtHeaderSlice::from_slice (slice[1] is a checked index) *)
Definition rx_slice_from_slice (s : bytes) : res bytes :=
  if len s <? 8 then Err ELen
  else match rd s 1 with
       | None => Err EPanic
       | Some b1 =>
         let l := (b1 + 1) * 8 in
         if len s <? l then Err ELen else Ok (take l s)
       end.

(* to_header: new_raw(next_header(), payload()).unwrap();
   payload() = from_raw_parts(ptr + 2, len - 2) (unchecked) *)
Definition rx_to_header (s : bytes) : res Ipv6RawExtHeader :=
  match rd s 0 with
  | None => Err EOOB
  | Some b0 =>
    if len s <? 2 then Err EOOB
    else match rx_new_raw b0 (drop 2 s) with
         | None => Err EPanic
         | Some h => Ok h
         end
  end.

Definition rx_from_slice (s : bytes) : res (Ipv6RawExtHeader * bytes) :=
  match rx_slice_from_slice s with
  | Err e => Err e
  | Ok hs =>
    match slice_from s (len hs) with
    | None => Err EPanic
    | Some rest => match rx_to_header hs with
                   | Err e => Err e
                   | Ok h => Ok (h, rest)
                   end
    end
  end.

(* read: read_exact(2); read_exact(&mut buffer[..hl*8 + 6]) *)
Definition rx_read (r : bytes) : res (Ipv6RawExtHeader * bytes) :=
  match read_exact r 2 with
  | Err e => Err e
  | Ok (d, r1) =>
    match d with
    | [b0; b1] =>
      let n := b1 * 8 + 6 in
      if RX_MAX_PAYLOAD_LEN <? n then Err EPanic
      else match read_exact r1 n with
           | Err e => Err e
           | Ok (p, r2) =>
             Ok ({| rx_next_header := b0; rx_header_length := b1;
                    rx_payload_buffer := p ++ zeros (RX_MAX_PAYLOAD_LEN - n) |}, r2)
           end
    | _ => Err EOOB
    end
  end.

(* well-formed: u8 ranges and the buffer a [u8; 2046] *)
Definition wf_rx (h : Ipv6RawExtHeader) : bool :=
  (rx_next_header h <? 256) && (rx_header_length h <? 256)
  && (len (rx_payload_buffer h) =? 2046) && bytes_okb (rx_payload_buffer h).

(* what a decoder returns: zero behind the payload (set_payload with a shorter payload leaves stale bytes) *)
Definition rx_norm (h : Ipv6RawExtHeader) : Ipv6RawExtHeader :=
  {| rx_next_header := rx_next_header h; rx_header_length := rx_header_length h;
     rx_payload_buffer := take (6 + rx_header_length h * 8) (rx_payload_buffer h)
                          ++ zeros (2046 - (6 + rx_header_length h * 8)) |}.
