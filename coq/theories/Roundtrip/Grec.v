(* Roundtrip/Grec.v -- model of etherparse igmp::ReportGroupRecordV3Header: to_bytes
   ([u8; 8]), LEN, from_slice.  The type has no write / read / header_len (LEN = 8).
   The DECODING side is the C17 model CtlMsg/Model.v (Igmp.group_record_from_slice),
   imported unchanged; the value type is CtlMsg/Spec.v GroupRecord. *)
From EP Require Import Base.Bytes.
From EP Require Import CtlMsg.Spec CtlMsg.Model.
From EP Require Import Roundtrip.Common.
Local Open Scope N_scope.

Definition grec_len : N := 8.           (* ReportGroupRecordV3Header::LEN *)

(* to_bytes *)
Definition grec_to_bytes (g : GroupRecord) : bytes :=
  [record_type g; aux_data_len g] ++ u16_to_be (gr_num_of_sources g) ++ [m0 g; m1 g; m2 g; m3 g].

(* from_slice (C17 model) with the result vocabulary of Roundtrip/Common.v *)
Definition grec_from_slice (s : bytes) : res (GroupRecord * bytes) :=
  match Igmp.group_record_from_slice s with
  | CtlMsg.Spec.Ok (g, rest) => Ok (g, rest)
  | CtlMsg.Spec.ErrLen _ => Err ELen
  | CtlMsg.Spec.UB _ => Err EOOB
  end.

Definition wf_grec (g : GroupRecord) : bool :=
  (record_type g <? 256) && (aux_data_len g <? 256) && (gr_num_of_sources g <? 65536)
  && (m0 g <? 256) && (m1 g <? 256) && (m2 g <? 256) && (m3 g <? 256).

(* no reserved bits *)
Definition grec_keep_mask : bytes := ones 8.
