(* Roundtrip/FragProofs.v -- C08 for Ipv6FragmentHeader *)
From EP Require Import Base.Bytes Roundtrip.Common Roundtrip.CommonProofs Roundtrip.Frag Roundtrip.Spec.
From Coq Require Import ZArith Lia ZifyN.
Local Open Scope N_scope.

Definition PW (fo : N) : bool :=
  all_bool (fun mf => let w := frag_word fo mf in
    (w <? 65536) && (shr w 3 =? fo) && Bool.eqb (nz (band (w mod 256) 1)) mf && (w =? fo * 8 + bit mf)).
Lemma sweepPW : all_below 8192 PW = true.
Proof. vm_compute. reflexivity. Qed.

Lemma word_facts fo mf : fo < 8192 ->
  let w := frag_word fo mf in
  w < 65536 /\ shr w 3 = fo /\ nz (band (w mod 256) 1) = mf /\ w = fo * 8 + bit mf.
Proof.
  intros H. assert (E8 : N.of_nat 8192 = 8192) by (vm_compute; reflexivity).
  pose proof (all_below_spec 8192 PW sweepPW fo ltac:(rewrite E8; exact H)) as S. unfold PW in S.
  pose proof (all_bool_spec _ S mf) as S'. cbv beta zeta in S'. cbv zeta. bsplit S'. repeat split; assumption.
Qed.

Definition QW (b2 : N) : bool :=
  all_below 256 (fun b3 =>
    let w := frag_word (shr (be16 b2 b3) 3) (nz (band b3 1)) in
    ((w / 256) mod 256 =? b2) && (w mod 256 =? N.land b3 249) && (shr (be16 b2 b3) 3 <? 8192)).
Lemma sweepQW : all_below 256 QW = true.
Proof. vm_compute. reflexivity. Qed.

Lemma QW_facts b2 b3 : b2 < 256 -> b3 < 256 ->
  let w := frag_word (shr (be16 b2 b3) 3) (nz (band b3 1)) in
  (w / 256) mod 256 = b2 /\ w mod 256 = N.land b3 249 /\ shr (be16 b2 b3) 3 < 8192.
Proof.
  intros H2 H3. pose proof (all_byte QW sweepQW b2 H2) as S. unfold QW in S.
  pose proof (all_byte _ S b3 H3) as S'. cbv beta zeta in S'. cbv zeta. bsplit S'. repeat split; assumption.
Qed.

Lemma wf_frag_facts h : wf_frag h = true ->
  fr_next_header h < 256 /\ fr_fragment_offset h < 8192 /\ fr_identification h < 4294967296.
Proof. unfold wf_frag. intros W. bsplit W. repeat split; assumption. Qed.

Lemma len_frag_to_bytes h : len (frag_to_bytes h) = 8.
Proof. reflexivity. Qed.

Theorem frag_ser_agree h out :
  frag_write out h = out ++ frag_to_bytes h /\ len (frag_to_bytes h) = frag_header_len h.
Proof. split; reflexivity. Qed.

Lemma frag_to_header_enc h : wf_frag h = true -> frag_to_header (frag_to_bytes h) = Ok h.
Proof.
  intros W. destruct (wf_frag_facts h W) as (R1 & R2 & R3).
  destruct (word_facts (fr_fragment_offset h) (fr_more_fragments h) R2) as (W1 & W2 & W3 & _).
  cbv zeta in *. unfold frag_to_bytes, u16_to_be, u32_to_be. cbn [app]. unfold frag_to_header.
  rewrite (u16_be_roundtrip _ W1), W2, W3, (u32_be_roundtrip _ R3). destruct h. reflexivity.
Qed.

Theorem frag_dec_enc h rest : wf_frag h = true ->
  frag_from_slice (frag_to_bytes h ++ rest) = Ok (h, rest) /\ frag_read (frag_to_bytes h ++ rest) = Ok (h, rest).
Proof.
  intros W. pose proof (frag_to_header_enc h W) as HD. split.
  - unfold frag_from_slice, frag_slice_from_slice, slice_from. rewrite len_app, len_frag_to_bytes.
    replace (8 + len rest <? 8) with false by (symmetry; apply N.ltb_ge; lia).
    replace (8 <=? 8 + len rest) with true by (symmetry; apply N.leb_le; lia).
    rewrite (take_app_len (frag_to_bytes h)) by reflexivity.
    rewrite (drop_app_len (frag_to_bytes h)) by reflexivity. rewrite HD. reflexivity.
  - unfold frag_read, read_exact. rewrite len_app, len_frag_to_bytes.
    replace (8 + len rest <? 8) with false by (symmetry; apply N.ltb_ge; lia).
    rewrite (take_app_len (frag_to_bytes h)) by reflexivity.
    rewrite (drop_app_len (frag_to_bytes h)) by reflexivity. rewrite HD. reflexivity.
Qed.

Theorem frag_enc_dec bs h rest : bytes_ok bs -> frag_from_slice bs = Ok (h, rest) ->
  wf_frag h = true /\ bs = take 8 bs ++ rest
  /\ agree frag_keep_mask (frag_to_bytes h) (take 8 bs)
  /\ frag_from_slice (frag_to_bytes h) = Ok (h, []).
Proof.
  intros OK H. unfold frag_from_slice, frag_slice_from_slice in H.
  destruct (len bs <? 8) eqn:L; [discriminate|].
  destruct bs as [|b0 [|b1 [|b2 [|b3 [|b4 [|b5 [|b6 [|b7 r]]]]]]]]; try (vm_compute in L; discriminate).
  clear L. change (take 8 (b0 :: b1 :: b2 :: b3 :: b4 :: b5 :: b6 :: b7 :: r)) with [b0; b1; b2; b3; b4; b5; b6; b7] in *.
  unfold slice_from in H.
  match type of H with context [8 <=? len ?s] =>
    replace (8 <=? len s) with true in H by (symmetry; apply N.leb_le; rewrite !len_cons; lia);
    change (drop 8 s) with r in H end.
  unfold frag_to_header in H. apply Ok_inj in H. apply pair_equal_spec in H. destruct H as [Hh Hrest].
  pose proof OK as OK'. bytes_ok_split OK'.
  destruct (QW_facts b2 b3 B1 B2) as (Q1 & Q2 & Q3). cbv zeta in *.
  assert (WF : wf_frag h = true).
  { rewrite <- Hh. unfold wf_frag. cbn [fr_next_header fr_fragment_offset fr_identification].
    pose proof (be32_bound b4 b5 b6 b7 B3 B4 B5 B6) as X.
    apply N.ltb_lt in B, Q3, X. rewrite B, Q3, X. reflexivity. }
  split; [exact WF|]. split; [rewrite <- Hrest; reflexivity|].
  split.
  - apply agree_of_masked; [reflexivity|].
    rewrite <- Hh. unfold frag_to_bytes. cbn [fr_next_header fr_fragment_offset fr_more_fragments fr_identification].
    rewrite (u32_to_be_be32 b4 b5 b6 b7 B3 B4 B5 B6). unfold u16_to_be. rewrite Q1, Q2.
    unfold frag_keep_mask. cbn [app masked].
    rewrite !land_255 by assumption. rewrite N.land_0_r. reflexivity.
  - pose proof (frag_dec_enc h [] WF) as [E _]. rewrite app_nil_r in E. exact E.
Qed.

Theorem frag_spec h : wf_frag h = true ->
  frag_to_bytes h = frag_layout (fr_next_header h) (fr_fragment_offset h) (fr_more_fragments h) (fr_identification h).
Proof.
  intros W. destruct (wf_frag_facts h W) as (R1 & R2 & R3).
  destruct (word_facts (fr_fragment_offset h) (fr_more_fragments h) R2) as (_ & _ & _ & W4). cbv zeta in W4.
  unfold frag_to_bytes, frag_layout. rewrite W4. reflexivity.
Qed.
