(* Roundtrip/VlanProofs.v -- C08 for SingleVlanHeader *)
From EP Require Import Base.Bytes Roundtrip.Common Roundtrip.CommonProofs Roundtrip.LinkNetLemmas Roundtrip.Vlan.
From EP Require Import Roundtrip.Spec.
From Coq Require Import ZArith Lia ZifyN.
Local Open Scope N_scope.

(* ---- byte level facts (complete sweeps) ---- *)
Definition vl_P (pcp : N) : bool :=
  all_bool (fun dei => all_below 16 (fun id0 =>
    let b := vl_byte0 pcp dei id0 in
    (band (shr b 5) 7 =? pcp) && Bool.eqb (nz (band b 16)) dei && (band b 15 =? id0) && (b <? 256)
    && (b =? pcp * 32 + bit dei * 16 + id0))).
Lemma vl_sweepP : all_below 8 vl_P = true.
Proof. vm_compute. reflexivity. Qed.
Lemma vl_P_facts pcp dei id0 : pcp < 8 -> id0 < 16 ->
  let b := vl_byte0 pcp dei id0 in
  band (shr b 5) 7 = pcp /\ nz (band b 16) = dei /\ band b 15 = id0 /\ b < 256
  /\ b = pcp * 32 + bit dei * 16 + id0.
Proof.
  intros H1 H2. pose proof (all_below_spec 8 vl_P vl_sweepP pcp ltac:(lia)) as S. unfold vl_P in S.
  pose proof (all_below_spec 16 _ (all_bool_spec _ S dei) id0 ltac:(lia)) as S'. cbv beta zeta in S'.
  bsplit S'. cbv zeta. repeat split; assumption.
Qed.

Definition vl_Q (b : N) : bool :=
  (vl_byte0 (band (shr b 5) 7) (nz (band b 16)) (band b 15) =? b) && (band (shr b 5) 7 <? 8) && (band b 15 <? 16).
Lemma vl_sweepQ : all_below 256 vl_Q = true.
Proof. vm_compute. reflexivity. Qed.
Lemma vl_Q_facts b : b < 256 ->
  vl_byte0 (band (shr b 5) 7) (nz (band b 16)) (band b 15) = b /\ band (shr b 5) 7 < 8 /\ band b 15 < 16.
Proof. intros H. pose proof (all_byte vl_Q vl_sweepQ b H) as S. unfold vl_Q in S. bsplit S. repeat split; assumption. Qed.

Lemma vl_wf_facts h : wf_vl h = true -> vl_pcp h < 8 /\ vl_vlan_id h < 4096 /\ vl_ether_type h < 65536.
Proof. unfold wf_vl. intros W. bsplit W. repeat split; assumption. Qed.

Lemma vl_id_digits v : v < 4096 -> (v / 256) mod 256 < 16 /\ be16 ((v / 256) mod 256) (v mod 256) = v.
Proof.
  intros H. split.
  - rewrite N.mod_small; apply N.div_lt_upper_bound; lia.
  - apply u16_be_roundtrip. lia.
Qed.

Definition vl_enc (h : SingleVlanHeader) : bytes :=
  [vl_byte0 (vl_pcp h) (vl_drop_eligible_indicator h) ((vl_vlan_id h / 256) mod 256); vl_vlan_id h mod 256;
   (vl_ether_type h / 256) mod 256; vl_ether_type h mod 256].
Lemma vl_to_bytes_explicit h : vl_to_bytes h = vl_enc h.
Proof. reflexivity. Qed.

Theorem vl_ser_agree h out :
  vl_write out h = out ++ vl_to_bytes h /\ len (vl_to_bytes h) = vl_header_len h.
Proof. split; reflexivity. Qed.

Lemma vl_decode_enc h : wf_vl h = true ->
  vl_decode4 (vl_byte0 (vl_pcp h) (vl_drop_eligible_indicator h) ((vl_vlan_id h / 256) mod 256))
             (vl_vlan_id h mod 256) ((vl_ether_type h / 256) mod 256) (vl_ether_type h mod 256) = h.
Proof.
  intros W. destruct (vl_wf_facts h W) as (R1 & R2 & R3).
  destruct (vl_id_digits _ R2) as (I1 & I2).
  destruct (vl_P_facts (vl_pcp h) (vl_drop_eligible_indicator h) _ R1 I1) as (P1 & P2 & P3 & _). cbv zeta in *.
  unfold vl_decode4. rewrite P1, P2, P3, I2, (u16_be_roundtrip _ R3). destruct h. reflexivity.
Qed.

Theorem vl_dec_enc h rest : wf_vl h = true ->
  vl_from_slice (vl_to_bytes h ++ rest) = Ok (h, rest) /\ vl_read (vl_to_bytes h ++ rest) = Ok (h, rest)
  /\ vl_from_bytes (vl_to_bytes h) = Ok h.
Proof.
  intros W. pose proof (vl_decode_enc h W) as D. rewrite vl_to_bytes_explicit. unfold vl_enc.
  split; [|split].
  - unfold vl_from_slice, vl_slice_from_slice, slice_from. cbn [app]. rewrite !len_cons.
    rewrite (ltb_false _ 4) by lia. rewrite (leb_true 4 _) by lia.
    match goal with |- context [take 4 ?s] =>
      let t := eval cbv [take firstn N.to_nat Pos.to_nat Pos.iter_op Nat.add Init.Nat.add] in (take 4 s) in
      change (take 4 s) with t end.
    unfold vl_to_header. rewrite D. reflexivity.
  - unfold vl_read, read_exact. cbn [app]. rewrite !len_cons. rewrite (ltb_false _ 4) by lia.
    match goal with |- context [take 4 ?s] =>
      let t := eval cbv [take firstn N.to_nat Pos.to_nat Pos.iter_op Nat.add Init.Nat.add] in (take 4 s) in
      change (take 4 s) with t end.
    unfold vl_to_header. rewrite D. reflexivity.
  - unfold vl_from_bytes. rewrite D. reflexivity.
Qed.

(* no reserved bits: exact reproduction of the 4 consumed bytes *)
Theorem vl_enc_dec bs h rest : bytes_ok bs -> vl_from_slice bs = Ok (h, rest) ->
  wf_vl h = true /\ bs = vl_to_bytes h ++ rest /\ len (vl_to_bytes h) = 4
  /\ vl_from_slice (vl_to_bytes h) = Ok (h, []).
Proof.
  intros OK H. unfold vl_from_slice, vl_slice_from_slice in H.
  destruct (len bs <? 4) eqn:L; [discriminate|].
  destruct bs as [|b0 [|b1 [|b2 [|b3 r]]]]; try (vm_compute in L; discriminate).
  clear L. change (take 4 (b0 :: b1 :: b2 :: b3 :: r)) with [b0; b1; b2; b3] in H.
  unfold vl_to_header, slice_from in H. rewrite !len_cons in H. rewrite (leb_true 4 _) in H by lia.
  change (drop 4 (b0 :: b1 :: b2 :: b3 :: r)) with r in H.
  apply Ok_inj in H. apply pair_equal_spec in H. destruct H as [Hh Hrest]. subst rest.
  pose proof OK as OK'. bytes_ok_split OK'.
  destruct (vl_Q_facts b0 B) as (Q1 & Q2 & Q3).
  pose proof (u16_to_be_be16 (band b0 15) b1 ltac:(lia) B0) as IE. unfold u16_to_be in IE.
  apply (f_equal (fun l => match l with [a; b] => (a, b) | _ => (0, 0) end)) in IE.
  apply pair_equal_spec in IE. destruct IE as [IE0 IE1].
  pose proof (u16_to_be_be16 b2 b3 B1 B2) as EE. unfold u16_to_be in EE.
  apply (f_equal (fun l => match l with [a; b] => (a, b) | _ => (0, 0) end)) in EE.
  apply pair_equal_spec in EE. destruct EE as [EE0 EE1].
  assert (WF : wf_vl h = true).
  { rewrite <- Hh. unfold wf_vl, vl_decode4. cbn [vl_pcp vl_vlan_id vl_ether_type].
    assert (V : be16 (band b0 15) b1 < 4096) by (unfold be16; lia).
    pose proof (be16_bound b2 b3 B1 B2) as E.
    apply N.ltb_lt in Q2, V, E. rewrite Q2, V, E. reflexivity. }
  split; [exact WF|]. split; [|split].
  - rewrite vl_to_bytes_explicit. rewrite <- Hh. unfold vl_enc, vl_decode4.
    cbn [vl_pcp vl_drop_eligible_indicator vl_vlan_id vl_ether_type].
    rewrite IE0, IE1, EE0, EE1, Q1. reflexivity.
  - reflexivity.
  - destruct (vl_dec_enc h [] WF) as [E _]. rewrite app_nil_r in E. exact E.
Qed.

From EP Require Import Roundtrip.SpecLinkNet.
Theorem vl_spec h : wf_vl h = true ->
  vl_to_bytes h = vlan_layout (vl_pcp h) (vl_drop_eligible_indicator h) (vl_vlan_id h) (vl_ether_type h).
Proof.
  intros W. destruct (vl_wf_facts h W) as (R1 & R2 & R3).
  destruct (vl_id_digits _ R2) as (I1 & I2).
  destruct (vl_P_facts (vl_pcp h) (vl_drop_eligible_indicator h) _ R1 I1) as (_ & _ & _ & P4 & P5). cbv zeta in *.
  rewrite vl_to_bytes_explicit. unfold vl_enc, vlan_layout.
  set (id0 := (vl_vlan_id h / 256) mod 256) in *. set (id1 := vl_vlan_id h mod 256) in *.
  assert (B1 : id1 < 256) by (apply N.mod_lt; lia).
  set (b0 := vl_byte0 (vl_pcp h) (vl_drop_eligible_indicator h) id0) in *.
  assert (E : vl_pcp h * 8192 + bit (vl_drop_eligible_indicator h) * 4096 + vl_vlan_id h = be16 b0 id1).
  { rewrite <- I2 at 1. unfold be16. rewrite P5. clearbody id0 id1. lia. }
  rewrite E. change (field 2 (be16 b0 id1)) with (u16_to_be (be16 b0 id1)).
  rewrite (u16_to_be_be16 b0 id1 P4 B1). reflexivity.
Qed.
