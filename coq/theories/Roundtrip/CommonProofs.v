(* Roundtrip/CommonProofs.v -- lemmas about the vocabulary of Common.v *)
From EP Require Import Base.Bytes Roundtrip.Common.
Local Open Scope N_scope.
From Coq Require Import ZArith Lia ZifyN.

Ltac dmlia := zify; Z.div_mod_to_equations; lia.

(* ---- big endian ---- *)
Lemma u16_be_roundtrip v : v < 65536 -> be16 ((v / 256) mod 256) (v mod 256) = v.
Proof. intros H. unfold be16. dmlia. Qed.

Lemma u16_to_be_be16 a b : a < 256 -> b < 256 -> u16_to_be (be16 a b) = [a; b].
Proof.
  intros Ha Hb. unfold u16_to_be, be16.
  replace ((a * 256 + b) / 256) with a by dmlia.
  replace ((a * 256 + b) mod 256) with b by dmlia.
  rewrite (N.mod_small a 256) by assumption. reflexivity.
Qed.

Lemma be16_bound a b : a < 256 -> b < 256 -> be16 a b < 65536.
Proof. unfold be16. lia. Qed.

Lemma u32_be_roundtrip v : v < 4294967296 ->
  be32 ((v / 256 / 256 / 256) mod 256) ((v / 256 / 256) mod 256) ((v / 256) mod 256) (v mod 256) = v.
Proof.
  intros H. unfold be32.
  set (q1 := v / 256). set (q2 := q1 / 256). set (q3 := q2 / 256).
  assert (E1 : v = 256 * q1 + v mod 256) by (apply N.div_mod; lia).
  assert (E2 : q1 = 256 * q2 + q1 mod 256) by (apply N.div_mod; lia).
  assert (E3 : q2 = 256 * q3 + q2 mod 256) by (apply N.div_mod; lia).
  assert (B1 : v mod 256 < 256) by (apply N.mod_lt; lia).
  assert (B2 : q1 mod 256 < 256) by (apply N.mod_lt; lia).
  assert (B3 : q2 mod 256 < 256) by (apply N.mod_lt; lia).
  assert (B4 : q3 < 256) by lia.
  rewrite (N.mod_small q3 256) by assumption. lia.
Qed.

Lemma u32_to_be_be32 a b c d : a < 256 -> b < 256 -> c < 256 -> d < 256 ->
  u32_to_be (be32 a b c d) = [a; b; c; d].
Proof.
  intros Ha Hb Hc Hd. unfold u32_to_be, be32.
  set (x2 := a * 256 + b). set (x1 := x2 * 256 + c).
  assert (E1 : (x1 * 256 + d) / 256 = x1) by dmlia.
  assert (E0 : (x1 * 256 + d) mod 256 = d) by dmlia.
  rewrite E1, E0.
  assert (E2 : x1 / 256 = x2) by (unfold x1; dmlia).
  assert (E2' : x1 mod 256 = c) by (unfold x1; dmlia).
  rewrite E2, E2'.
  assert (E3 : x2 / 256 = a) by (unfold x2; dmlia).
  assert (E3' : x2 mod 256 = b) by (unfold x2; dmlia).
  rewrite E3, E3'. rewrite (N.mod_small a 256) by assumption. reflexivity.
Qed.

Lemma be32_bound a b c d : a < 256 -> b < 256 -> c < 256 -> d < 256 -> be32 a b c d < 4294967296.
Proof. unfold be32. lia. Qed.

Lemma len_u16_to_be v : len (u16_to_be v) = 2. Proof. reflexivity. Qed.
Lemma len_u32_to_be v : len (u32_to_be v) = 4. Proof. reflexivity. Qed.

Lemma bytes_ok_u16_to_be v : bytes_ok (u16_to_be v).
Proof. unfold u16_to_be. repeat constructor; unfold byte_ok; apply N.mod_lt; lia. Qed.
Lemma bytes_ok_u32_to_be v : bytes_ok (u32_to_be v).
Proof. unfold u32_to_be. repeat constructor; unfold byte_ok; apply N.mod_lt; lia. Qed.

(* generic width *)
Lemma of_be_acc_app acc a b : of_be_acc acc (a ++ b) = of_be_acc (of_be_acc acc a) b.
Proof. revert acc. induction a as [|x a IH]; intros acc; cbn [app of_be_acc]; auto. Qed.

Lemma len_to_be n v : length (to_be n v) = n.
Proof. revert v. induction n as [|n IH]; intros v; cbn [to_be length]; auto.
  rewrite app_length, IH. cbn [length]. lia. Qed.

Lemma bytes_ok_to_be n v : bytes_ok (to_be n v).
Proof. revert v. induction n as [|n IH]; intros v; cbn [to_be].
  - constructor.
  - apply bytes_ok_app. split; [apply IH|]. repeat constructor. unfold byte_ok. apply N.mod_lt. lia. Qed.

Lemma of_be_to_be n v : v < 256 ^ (N.of_nat n) -> of_be (to_be n v) = v.
Proof.
  unfold of_be. revert v. induction n as [|n IH]; intros v H.
  - cbn [to_be of_be_acc]. change (256 ^ N.of_nat 0) with 1 in H. lia.
  - cbn [to_be]. rewrite of_be_acc_app. cbn [of_be_acc].
    rewrite IH.
    + pose proof (N.div_mod v 256). lia.
    + replace (N.of_nat (S n)) with (N.succ (N.of_nat n)) in H by lia.
      rewrite N.pow_succ_r' in H. apply N.div_lt_upper_bound; lia.
Qed.

Lemma of_be_acc_bound acc bs : bytes_ok bs ->
  of_be_acc acc bs < (acc + 1) * 256 ^ (len bs).
Proof.
  revert acc. induction bs as [|b r IH]; intros acc H.
  - cbn [of_be_acc]. rewrite len_nil. change (256 ^ 0) with 1. lia.
  - apply bytes_ok_cons in H. destruct H as [Hb Hr]. unfold byte_ok in Hb.
    cbn [of_be_acc]. specialize (IH (acc * 256 + b) Hr).
    rewrite len_cons. replace (1 + len r) with (N.succ (len r)) by lia.
    rewrite N.pow_succ_r'. 
    eapply N.lt_le_trans; [exact IH|].
    set (P := 256 ^ len r).
    apply N.le_trans with (m := ((acc + 1) * 256) * P); [apply N.mul_le_mono_r; lia | lia].
Qed.

Lemma to_be_of_be_acc n acc bs : bytes_ok bs -> length bs = n ->
  to_be n (of_be_acc acc bs) = bs /\ of_be_acc acc bs / 256 ^ (N.of_nat n) = acc.
Proof.
  revert n acc. induction bs as [|b r IH] using rev_ind; intros n acc H L.
  - cbn in L. subst n. cbn [to_be of_be_acc]. split; auto. change (256 ^ N.of_nat 0) with 1. apply N.div_1_r.
  - rewrite app_length in L. cbn [length] in L. destruct n as [|n]; [lia|].
    apply bytes_ok_app in H. destruct H as [Hr Hb]. apply bytes_ok_cons in Hb. destruct Hb as [Hb _].
    unfold byte_ok in Hb.
    rewrite of_be_acc_app. cbn [of_be_acc to_be].
    set (a := of_be_acc acc r).
    assert (E1 : (a * 256 + b) / 256 = a) by dmlia.
    assert (E0 : (a * 256 + b) mod 256 = b) by dmlia.
    rewrite E1, E0.
    destruct (IH n acc Hr ltac:(lia)) as [I1 I2]. fold a in I1, I2.
    split; [now rewrite I1|].
    replace (N.of_nat (S n)) with (N.succ (N.of_nat n)) by lia.
    rewrite N.pow_succ_r', <- N.div_div, E1 by lia. exact I2.
Qed.

Lemma to_be_of_be bs : bytes_ok bs -> to_be (length bs) (of_be bs) = bs.
Proof. intros H. apply (to_be_of_be_acc (length bs) 0 bs H eq_refl). Qed.

Lemma of_be_bound bs : bytes_ok bs -> of_be bs < 256 ^ (len bs).
Proof. intros H. pose proof (of_be_acc_bound 0 bs H). unfold of_be. lia. Qed.

(* ---- lists ---- *)
Lemma take_app_len {A} (a b : list A) n : n = len a -> take n (a ++ b) = a.
Proof.
  intros ->. unfold take, len. rewrite Nat2N.id.
  rewrite firstn_app, Nat.sub_diag, firstn_all. cbn [firstn]. apply app_nil_r.
Qed.

Lemma drop_app_len {A} (a b : list A) n : n = len a -> drop n (a ++ b) = b.
Proof.
  intros ->. unfold drop, len. rewrite Nat2N.id.
  rewrite skipn_app, Nat.sub_diag, skipn_all. reflexivity.
Qed.

Lemma take_app_more {A} (a b : list A) n k : n = len a + k -> take n (a ++ b) = a ++ take k b.
Proof.
  intros ->. unfold take, len. rewrite firstn_app.
  rewrite firstn_all2 by lia. f_equal. f_equal. lia.
Qed.

Lemma drop_app_more {A} (a b : list A) n k : n = len a + k -> drop n (a ++ b) = drop k b.
Proof.
  intros ->. unfold drop, len. rewrite skipn_app.
  rewrite skipn_all2 by lia. cbn [app]. f_equal. lia.
Qed.

Lemma take_all {A} (a : list A) n : len a <= n -> take n a = a.
Proof. intros H. unfold take. apply firstn_all2. unfold len in H. lia. Qed.

Lemma take_0 {A} (a : list A) : take 0 a = [].
Proof. reflexivity. Qed.
Lemma drop_0 {A} (a : list A) : drop 0 a = a.
Proof. reflexivity. Qed.

Lemma len_zeros n : len (zeros n) = n.
Proof. unfold len, zeros. rewrite repeat_length. lia. Qed.
Lemma len_ones n : len (ones n) = n.
Proof. unfold len, ones. rewrite repeat_length. lia. Qed.

Lemma bytes_ok_zeros n : bytes_ok (zeros n).
Proof. unfold zeros, bytes_ok. apply Forall_forall. intros x Hx. apply repeat_spec in Hx. subst. unfold byte_ok. lia. Qed.

Lemma len_0_nil {A} (a : list A) : len a = 0 -> a = [].
Proof. destruct a; auto. rewrite len_cons. lia. Qed.

Lemma len_ge_cons {A} (l : list A) n : 1 + n <= len l -> exists x r, l = x :: r /\ n <= len r.
Proof. destruct l as [|x r]; [rewrite len_nil; lia|]. rewrite len_cons. intros H. exists x, r. split; auto. lia. Qed.

Lemma take_take {A} (l : list A) a b : a <= b -> take a (take b l) = take a l.
Proof. intros H. unfold take. rewrite firstn_firstn. f_equal. lia. Qed.

Lemma take_drop_split {A} (l : list A) a b : take (a + b) l = take a l ++ take b (drop a l).
Proof.
  unfold take, drop. replace (N.to_nat (a + b)) with (N.to_nat a + N.to_nat b)%nat by lia.
  revert l. induction (N.to_nat a) as [|n IH]; intros l; cbn [Nat.add firstn skipn app]; auto.
  destruct l as [|x l]; cbn [firstn skipn app].
  - now rewrite firstn_nil.
  - now rewrite IH.
Qed.

Lemma drop_drop {A} (l : list A) a b : drop a (drop b l) = drop (b + a) l.
Proof.
  unfold drop. replace (N.to_nat (b + a)) with (N.to_nat b + N.to_nat a)%nat by lia.
  revert l. induction (N.to_nat b) as [|n IH]; intros l; cbn [Nat.add skipn]; auto.
  destruct l as [|x l]; [now rewrite skipn_nil|]. apply IH.
Qed.

(* ---- masked ---- *)
Lemma masked_app k1 k2 a b : length k1 = length a ->
  masked (k1 ++ k2) (a ++ b) = masked k1 a ++ masked k2 b.
Proof.
  revert a. induction k1 as [|k k1 IH]; intros [|x a] L; cbn in L; try discriminate; cbn [app masked]; auto.
  now rewrite IH by lia.
Qed.

Lemma masked_ones bs : bytes_ok bs -> masked (ones (len bs)) bs = bs.
Proof.
  induction bs as [|b r IH]; intros H; [reflexivity|].
  apply bytes_ok_cons in H. destruct H as [Hb Hr]. unfold byte_ok in Hb.
  unfold ones. rewrite len_cons.
  replace (N.to_nat (1 + len r)) with (S (N.to_nat (len r))) by lia.
  cbn [repeat masked]. fold (ones (len r)). rewrite IH by assumption. f_equal.
  change 255 with (N.ones 8). rewrite N.land_ones. apply N.mod_small. exact Hb.
Qed.

Lemma len_masked k a : length k = length a -> len (masked k a) = len a.
Proof.
  revert a. induction k as [|x k IH]; intros [|y a] L; cbn in L; try discriminate; cbn [masked]; auto.
  rewrite !len_cons, IH by lia. reflexivity.
Qed.

(* ---- sweeps ---- *)
Lemma nrange_in n x : x < N.of_nat n -> In x (nrange n).
Proof.
  induction n as [|n IH]; intros H; [lia|].
  cbn [nrange]. apply in_or_app.
  destruct (N.eq_dec x (N.of_nat n)) as [->|Hne]; [right; now left|left; apply IH; lia].
Qed.

Lemma all_below_spec n P : all_below n P = true -> forall x, x < N.of_nat n -> P x = true.
Proof. unfold all_below. rewrite forallb_forall. intros H x Hx. apply H, nrange_in, Hx. Qed.

Lemma all_byte P : all_below 256 P = true -> forall x, x < 256 -> P x = true.
Proof. intros H x Hx. apply (all_below_spec 256 P H). exact Hx. Qed.

Lemma all_bool_spec P : all_bool P = true -> forall b, P b = true.
Proof. unfold all_bool. intros H b. apply andb_true_iff in H. destruct H, b; auto. Qed.

Lemma bytes_eqb_refl a : bytes_eqb a a = true.
Proof.
  unfold bytes_eqb. rewrite Nat.eqb_refl. cbn [andb].
  induction a as [|x a IH]; cbn [combine forallb fst snd]; auto. now rewrite N.eqb_refl, IH.
Qed.

Lemma bytes_eqb_eq a b : bytes_eqb a b = true -> a = b.
Proof.
  unfold bytes_eqb. intros H. apply andb_true_iff in H. destruct H as [L F].
  apply Nat.eqb_eq in L. revert b L F.
  induction a as [|x a IH]; intros [|y b] L F; cbn in L; try discriminate; auto.
  cbn [combine forallb fst snd] in F. apply andb_true_iff in F. destruct F as [E F].
  apply N.eqb_eq in E. subst. f_equal. apply IH; auto.
Qed.

(* decompose hypotheses of the form  a && b = true, x =? y = true, x <? y = true ... *)
Ltac bsplit H :=
  match type of H with
  | (_ && _)%bool = true =>
      let H1 := fresh H in let H2 := fresh H in
      apply andb_true_iff in H; destruct H as [H1 H2]; bsplit H1; bsplit H2
  | (_ =? _) = true => apply N.eqb_eq in H
  | (_ <? _) = true => apply N.ltb_lt in H
  | (_ <=? _) = true => apply N.leb_le in H
  | Bool.eqb _ _ = true => apply Bool.eqb_prop in H
  | _ => idtac
  end.

Lemma rd_take_lt bs n i : i < n -> rd (take n bs) i = rd bs i.
Proof.
  intros H. unfold rd, take.
  revert bs i H. induction n as [|n IH] using N.peano_ind; intros bs i H; [lia|].
  replace (N.to_nat (N.succ n)) with (S (N.to_nat n)) by lia.
  destruct bs as [|b r]; [reflexivity|]. cbn [firstn].
  destruct (N.eq_dec i 0) as [->|Hi]; [reflexivity|].
  replace (N.to_nat i) with (S (N.to_nat (i - 1))) by lia. cbn [nth_error].
  apply IH. lia.
Qed.

(* ---- agree ---- *)
Lemma masked_idem k c : masked k (masked k c) = masked k c.
Proof.
  revert c. induction k as [|x k IH]; intros [|y c]; cbn [masked]; auto.
  rewrite IH. f_equal. rewrite <- N.land_assoc, N.land_diag. reflexivity.
Qed.

Lemma agree_of_masked k e c : len k = len c -> e = masked k c -> agree k e c.
Proof.
  intros L ->. unfold agree. split; [|split].
  - rewrite len_masked; [lia|]. apply Nat2N.inj. exact L.
  - lia.
  - apply masked_idem.
Qed.

Lemma land_255 b : b < 256 -> N.land b 255 = b.
Proof. intros H. change 255 with (N.ones 8). rewrite N.land_ones. apply N.mod_small. exact H. Qed.

Lemma masked_ones_app a k b : bytes_ok a -> masked (ones (len a) ++ k) (a ++ b) = a ++ masked k b.
Proof.
  intros H. rewrite masked_app.
  - now rewrite masked_ones.
  - pose proof (len_ones (len a)) as L. apply Nat2N.inj. exact L.
Qed.

Lemma bytes_ok_explicit_cons b r : b < 256 -> bytes_ok r -> bytes_ok (b :: r).
Proof. intros. apply bytes_ok_cons. split; assumption. Qed.

(* ok-ness of a byte of an explicit list hypothesis *)
Ltac bytes_ok_split H :=
  repeat (let Hb := fresh "B" in apply bytes_ok_cons in H; destruct H as [Hb H]; unfold byte_ok in Hb).

Lemma Some_inj {A} (x y : A) : Some x = Some y -> x = y.
Proof. intros H. injection H. auto. Qed.
Lemma Ok_inj {A} (x y : A) : Ok x = Ok y -> x = y.
Proof. intros H. injection H. auto. Qed.
