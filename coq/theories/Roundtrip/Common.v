(* Roundtrip/Common.v -- vocabulary shared by the C08 models: fixed-width
   integer operations of Rust (u8/u16/u32 shifts, masks, to_be_bytes /
   from_be_bytes), result type, sub-slicing, masked comparison of byte strings,
   finite sweeps.  Definitions only (lemmas: CommonProofs.v). *)
From EP Require Import Base.Bytes.
Local Open Scope N_scope.

(* decode failures.  EOOB / EPanic are the partial primitives (unchecked read
   out of bounds, slice-index panic, unwrap on None, invalid set_len): the
   theorems show them unreachable. *)
Inductive derr := ELen | EContent (code : N) | EIo | EOOB | EPanic.
Inductive res (A : Type) := Ok (a : A) | Err (e : derr).
Arguments Ok {A} a.
Arguments Err {A} e.

Definition is_ok {A} (r : res A) : bool := match r with Ok _ => true | Err _ => false end.

(* Rust integer operators *)
Definition band (a b : N) : N := N.land a b.
Definition bor (a b : N) : N := N.lor a b.
Definition shr (a k : N) : N := N.shiftr a k.
Definition shl8 (a k : N) : N := (N.shiftl a k) mod 256.
Definition shl16 (a k : N) : N := (N.shiftl a k) mod 65536.
Definition shl32 (a k : N) : N := (N.shiftl a k) mod 4294967296.
Definition as_u8 (a : N) : N := a mod 256.
Definition as_u16 (a : N) : N := a mod 65536.
Definition b2n (b : bool) : N := if b then 1 else 0.
Definition nz (x : N) : bool := negb (x =? 0).       (* 0 != x *)

(* uNN::to_be_bytes / from_be_bytes (only ever division by 256) *)
Definition u16_to_be (v : N) : bytes := [(v / 256) mod 256; v mod 256].
Definition u32_to_be (v : N) : bytes :=
  [(v / 256 / 256 / 256) mod 256; (v / 256 / 256) mod 256; (v / 256) mod 256; v mod 256].
Fixpoint to_be (n : nat) (v : N) : bytes :=
  match n with O => [] | S k => to_be k (v / 256) ++ [v mod 256] end.
Fixpoint of_be_acc (acc : N) (bs : bytes) : N :=
  match bs with [] => acc | b :: r => of_be_acc (acc * 256 + b) r end.
Definition of_be (bs : bytes) : N := of_be_acc 0 bs.

(* &s[a..b] : panics unless a <= b <= len *)
Definition slice_range (s : bytes) (a b : N) : option bytes :=
  if (a <=? b) && (b <=? len s) then Some (take (b - a) (drop a s)) else None.
(* &s[a..] *)
Definition slice_from (s : bytes) (a : N) : option bytes :=
  if a <=? len s then Some (drop a s) else None.

Definition zeros (n : N) : bytes := repeat 0 (N.to_nat n).
Definition ones (n : N) : bytes := repeat 255 (N.to_nat n).

(* byte-wise AND with a mask of bits to KEEP (shorter list wins) *)
Fixpoint masked (keep bs : bytes) : bytes :=
  match keep, bs with
  | k :: kr, b :: br => N.land b k :: masked kr br
  | _, _ => []
  end.
(* a and b have the same length as the mask and agree on every kept bit *)
Definition agree (keep a b : bytes) : Prop :=
  len a = len keep /\ len b = len keep /\ masked keep a = masked keep b.

(* finite sweeps *)
Fixpoint nrange (n : nat) : list N :=
  match n with O => [] | S k => nrange k ++ [N.of_nat k] end.
Definition all_below (n : nat) (P : N -> bool) : bool := forallb P (nrange n).
Definition all_bool (P : bool -> bool) : bool := P true && P false.

(* std::io::Read over a byte list: read_exact(n) *)
Definition read_exact (r : bytes) (n : N) : res (bytes * bytes) :=
  if len r <? n then Err EIo else Ok (take n r, drop n r).

Definition bytes_eqb (a b : bytes) : bool :=
  (length a =? length b)%nat && forallb (fun p => fst p =? snd p) (combine a b).
