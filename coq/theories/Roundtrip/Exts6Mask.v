(* Roundtrip/Exts6Mask.v -- round 3 (c08id), audit top-12 item 12 (b):
   a POSITIONAL keep-mask for Ipv6Extensions and the serialiser agreement.

   Exts6Proofs.exts6_enc_dec relates the re-written bytes to the consumed ones by the inductive relation
   `hdr_eq` (SOME segmentation exists in which the differences are reserved bytes).  Here the segmentation
   is COMPUTED from the decoded struct: `x6_chain e first` is the list of header parts in the order in
   which Ipv6Extensions::write emits them (the order of the next_header links, a function of e and of the
   first ip number), `x6_keep_mask e first` is the concatenation of the parts' own masks -- all ones for a
   raw header, Roundtrip.Frag.frag_keep_mask (byte 1, bits 1-2 of byte 3) for the fragment header,
   Roundtrip.Auth.ah_keep_mask (bytes 2-3) for the authentication header -- so every masked position is at
   a fixed offset inside a header whose start is the sum of the lengths of the parts in front of it.

   Ipv6Extensions has ONE serialiser (write -> write_internal; no to_bytes, no write_to_slice): its
   agreement statement is  write = concatenation of the parts' to_bytes() in chain order, header_len bytes,
   every present header exactly once (x6_present).
   Nothing new is modelled: x6_chain mirrors ExtChain.Model.write_loop and is tied to it by write_loop_chain. *)
From EP Require Import Base.Bytes ExtChain.Spec ExtChain.Model ExtChain.View ExtChain.Proofs Roundtrip.Exts6Proofs.
From EP Require Roundtrip.Common Roundtrip.CommonProofs Roundtrip.Frag Roundtrip.Auth.
From Coq Require Import ZArith Lia ZifyN Permutation.
Local Open Scope N_scope.

Local Notation agree := Roundtrip.Common.agree.
Local Notation masked := Roundtrip.Common.masked.
Local Notation ones := Roundtrip.Common.ones.

(* ------------------------------------------------------------------ the parts of an extension chain *)
Inductive part := PRaw (h : RawExt) | PFrag (h : Frag) | PAuth (h : AuthH).

(* the header's own to_bytes() (None = its unwrap / u8 arithmetic panics: excluded by *_valid) *)
Definition part_to_bytes (p : part) : option bytes :=
  match p with
  | PRaw h => raw_to_bytes h
  | PFrag h => Some (frag_to_bytes h)
  | PAuth h => auth_to_bytes h
  end.
(* ... and its value for a valid header *)
Definition part_bytes (p : part) : bytes :=
  match p with
  | PRaw h => r_next_header h :: r_header_length h :: r_payload h
  | PFrag h => frag_to_bytes h
  | PAuth h => auth_bytes h
  end.
Definition part_len (p : part) : N :=
  match p with
  | PRaw h => raw_header_len h
  | PFrag h => frag_header_len h
  | PAuth h => auth_header_len h
  end.
Definition part_valid (p : part) : bool :=
  match p with
  | PRaw h => raw_valid h
  | PFrag h => frag_valid h
  | PAuth h => auth_valid h
  end.
(* the bits of the header that survive decode -> encode: the masks of the single headers (C08_Frag_enc_dec,
   C08_Auth_enc_dec; a raw extension header has no reserved bit) *)
Definition part_mask (p : part) : bytes :=
  match p with
  | PRaw h => ones (raw_header_len h)
  | PFrag _ => Roundtrip.Frag.frag_keep_mask
  | PAuth h => Roundtrip.Auth.ah_keep_mask (auth_header_len h)
  end.

Definition parts_bytes (ps : list part) : bytes := flat_map part_bytes ps.
Definition parts_mask (ps : list part) : bytes := flat_map part_mask ps.

(* the order in which write_internal emits the headers: the loop of write_internal with the writes
   replaced by the header written *)
Fixpoint chain_loop (fuel : nat) (e : Exts6) (nw : Flags) (next : N) (rw : bool) : list part :=
  match fuel with
  | O => []
  | S f =>
    match arm_of next with
    | AHop => []
    | ADest =>
      if rw then
        if fl_final_destination_options nw then
          match routing e with
          | None => []
          | Some r =>
            match rt_final_destination_options r with
            | None => []
            | Some h => PRaw h :: chain_loop f e (clr_final nw) (r_next_header h) rw
            end
          end
        else []
      else if fl_destination_options nw then
        match destination_options e with
        | None => []
        | Some h => PRaw h :: chain_loop f e (clr_dst nw) (r_next_header h) rw
        end
      else []
    | ARoute =>
      if fl_routing nw then
        match routing e with
        | None => []
        | Some r => PRaw (rt_routing r) :: chain_loop f e (clr_routing nw) (r_next_header (rt_routing r)) true
        end
      else []
    | AFrag =>
      if fl_fragment nw then
        match fragment e with
        | None => []
        | Some h => PFrag h :: chain_loop f e (clr_frag nw) (f_next_header h) rw
        end
      else []
    | AAuth =>
      if fl_auth nw then
        match auth e with
        | None => []
        | Some h => PAuth h :: chain_loop f e (clr_auth nw) (a_next_header h) rw
        end
      else []
    | AOther => []
    end
  end.

Definition x6_chain (e : Exts6) (first : N) : list part :=
  if IPV6_HOP_BY_HOP =? first then
    match hop_by_hop_options e with
    | Some h => PRaw h :: chain_loop LOOP_FUEL e (clr_hop (flags_init e)) (r_next_header h) false
    | None => chain_loop LOOP_FUEL e (flags_init e) first false
    end
  else chain_loop LOOP_FUEL e (flags_init e) first false.

(* THE positional mask of Ipv6Extensions *)
Definition x6_keep_mask (e : Exts6) (first : N) : bytes := parts_mask (x6_chain e first).

(* the headers the struct holds, in the order of its fields *)
Definition opt_list {A} (o : option A) : list A := match o with Some a => [a] | None => [] end.
Definition pending_parts (e : Exts6) (f : Flags) : list part :=
  (if fl_hop_by_hop_options f then map PRaw (opt_list (hop_by_hop_options e)) else [])
  ++ (if fl_destination_options f then map PRaw (opt_list (destination_options e)) else [])
  ++ (if fl_routing f then map (fun r => PRaw (rt_routing r)) (opt_list (routing e)) else [])
  ++ (if fl_final_destination_options f
      then match routing e with Some r => map PRaw (opt_list (rt_final_destination_options r)) | None => [] end
      else [])
  ++ (if fl_fragment f then map PFrag (opt_list (fragment e)) else [])
  ++ (if fl_auth f then map PAuth (opt_list (auth e)) else []).
Definition x6_present (e : Exts6) : list part := pending_parts e (mkFlags true true true true true true).

(* ------------------------------------------------------------------ parts *)
Lemma part_to_bytes_valid p : part_valid p = true ->
  part_to_bytes p = Some (part_bytes p) /\ len (part_bytes p) = part_len p /\ len (part_mask p) = part_len p.
Proof.
  destruct p as [h|h|h]; cbn [part_valid part_to_bytes part_bytes part_len part_mask]; intros V.
  - pose proof (raw_to_bytes_valid h V) as T. split; [exact T|].
    split; [exact (raw_to_bytes_len h _ V T)|apply Roundtrip.CommonProofs.len_ones].
  - split; [reflexivity|]. split; [apply frag_to_bytes_len|reflexivity].
  - split; [apply auth_to_bytes_valid; exact V|]. split; [apply auth_bytes_len; exact V|].
    unfold Roundtrip.Auth.ah_keep_mask. rewrite len_app, Roundtrip.CommonProofs.len_ones.
    unfold auth_header_len. change (len [255; 255; 0; 0]) with 4. lia.
Qed.

Lemma parts_bytes_cons p ps : parts_bytes (p :: ps) = part_bytes p ++ parts_bytes ps.
Proof. reflexivity. Qed.
Lemma parts_mask_cons p ps : parts_mask (p :: ps) = part_mask p ++ parts_mask ps.
Proof. reflexivity. Qed.

(* ------------------------------------------------------------------ the writer emits the chain *)
Lemma write_loop_chain fuel : forall e nw next rw w, exts6_valid e = true ->
  fst (write_loop fuel e nw next rw w) = w ++ parts_bytes (chain_loop fuel e nw next rw)
  /\ Forall (fun p => part_valid p = true) (chain_loop fuel e nw next rw).
Proof.
  induction fuel as [|fuel IH]; intros e nw next rw w V; [cbn; rewrite app_nil_r; auto|].
  pose proof (exts6_valid_inv e V) as (Vh & Vd & Vr & Vf & Va).
  assert (NIL : forall x : res walk_error unit, fst (w, x) = w ++ parts_bytes [] /\ Forall (fun p => part_valid p = true) [])
    by (intros x; cbn; rewrite app_nil_r; auto).
  cbn [write_loop chain_loop]. destruct (arm_of next).
  - destruct (fl_hop_by_hop_options nw); apply NIL.
  - destruct rw.
    + destruct (fl_final_destination_options nw); [|apply NIL].
      destruct (routing e) as [r|] eqn:Er; [|apply NIL].
      destruct (rt_final_destination_options r) as [h|] eqn:Eh; [|apply NIL].
      cbn [opt_valid] in Vr. apply routing_valid_inv in Vr. destruct Vr as [_ Vfin].
      rewrite Eh in Vfin. cbn [opt_valid] in Vfin. rewrite (raw_to_bytes_valid h Vfin).
      destruct (IH e (clr_final nw) (r_next_header h) true (w ++ r_next_header h :: r_header_length h :: r_payload h) V)
        as [B F]. rewrite B, parts_bytes_cons, <- app_assoc. split; [reflexivity|constructor; assumption].
    + destruct (fl_destination_options nw); [|apply NIL].
      destruct (destination_options e) as [h|] eqn:Eh; [|apply NIL].
      cbn [opt_valid] in Vd. rewrite (raw_to_bytes_valid h Vd).
      destruct (IH e (clr_dst nw) (r_next_header h) false (w ++ r_next_header h :: r_header_length h :: r_payload h) V)
        as [B F]. rewrite B, parts_bytes_cons, <- app_assoc. split; [reflexivity|constructor; assumption].
  - destruct (fl_routing nw); [|apply NIL].
    destruct (routing e) as [r|] eqn:Er; [|apply NIL].
    cbn [opt_valid] in Vr. apply routing_valid_inv in Vr. destruct Vr as [Vrt _].
    cbv zeta. rewrite (raw_to_bytes_valid _ Vrt).
    destruct (IH e (clr_routing nw) (r_next_header (rt_routing r)) true
                (w ++ r_next_header (rt_routing r) :: r_header_length (rt_routing r) :: r_payload (rt_routing r)) V)
      as [B F]. rewrite B, parts_bytes_cons, <- app_assoc. split; [reflexivity|constructor; assumption].
  - destruct (fl_fragment nw); [|apply NIL].
    destruct (fragment e) as [h|] eqn:Eh; [|apply NIL]. cbn [opt_valid] in Vf.
    destruct (IH e (clr_frag nw) (f_next_header h) rw (w ++ frag_to_bytes h) V) as [B F].
    rewrite B, parts_bytes_cons, <- app_assoc. split; [reflexivity|constructor; assumption].
  - destruct (fl_auth nw); [|apply NIL].
    destruct (auth e) as [h|] eqn:Eh; [|apply NIL]. cbn [opt_valid] in Va.
    rewrite (auth_to_bytes_valid h Va).
    destruct (IH e (clr_auth nw) (a_next_header h) rw (w ++ auth_bytes h) V) as [B F].
    rewrite B, parts_bytes_cons, <- app_assoc. split; [reflexivity|constructor; assumption].
  - apply NIL.
Qed.

(* write emits the chain -- also when it ends in an error: the bytes in the Vec are the headers reached *)
Theorem write_is_chain e first : exts6_valid e = true ->
  fst (write e first) = parts_bytes (x6_chain e first)
  /\ Forall (fun p => part_valid p = true) (x6_chain e first).
Proof.
  intros V. unfold write, x6_chain. destruct (IPV6_HOP_BY_HOP =? first).
  - destruct (hop_by_hop_options e) as [h|] eqn:Eh.
    + pose proof (exts6_valid_inv e V) as (Vh & _). rewrite Eh in Vh. cbn [opt_valid] in Vh.
      rewrite (raw_to_bytes_valid h Vh).
      destruct (write_loop_chain LOOP_FUEL e (clr_hop (flags_init e)) (r_next_header h) false
                  (r_next_header h :: r_header_length h :: r_payload h) V) as [B F].
      rewrite B. split; [reflexivity|constructor; assumption].
    + destruct (write_loop_chain LOOP_FUEL e (flags_init e) first false [] V) as [B F]. rewrite B. auto.
  - destruct (write_loop_chain LOOP_FUEL e (flags_init e) first false [] V) as [B F]. rewrite B. auto.
Qed.

(* a successful write has emitted every pending header exactly once *)
Lemma perm_front (p : part) a b c : Permutation c (a ++ b) -> Permutation (p :: c) (a ++ p :: b).
Proof. intros H. apply Permutation_cons_app. exact H. Qed.

Lemma perm_push (p : part) a x y : Permutation (p :: x) y -> Permutation (p :: a ++ x) (a ++ y).
Proof. intros H. etransitivity; [apply Permutation_middle|]. apply Permutation_app_head. exact H. Qed.

Ltac perm_tac W :=
  rewrite <- ?app_assoc in W |- *; cbn [app] in W |- *;
  (etransitivity; [apply perm_skip; exact W|]);
  repeat (first [reflexivity | apply perm_push]).
Ltac flag_cbn W :=
  unfold pending_parts in W |- *;
  cbn [clr_hop clr_dst clr_routing clr_frag clr_auth clr_final fl_hop_by_hop_options fl_destination_options
       fl_routing fl_fragment fl_auth fl_final_destination_options] in W.

Lemma write_loop_perm fuel : forall e nw next rw w, flags_ok e nw ->
  snd (write_loop fuel e nw next rw w) = Ok tt ->
  Permutation (chain_loop fuel e nw next rw) (pending_parts e nw).
Proof.
  induction fuel as [|fuel IH]; intros e nw next rw w FO W; [discriminate|].
  assert (Done : forall w' : bytes, snd (w', @check_all_done unit nw tt) = Ok tt -> Permutation [] (pending_parts e nw)).
  { intros w' H. cbn [snd] in H. apply check_all_done_ok in H. destruct H as [_ ->]. constructor. }
  cbn [write_loop chain_loop] in *. destruct (arm_of next).
  - destruct (fl_hop_by_hop_options nw); [discriminate|]. eapply Done; exact W.
  - destruct rw.
    + destruct (fl_final_destination_options nw) eqn:Ef; [|eapply Done; exact W].
      destruct (routing e) as [r|] eqn:Er; [|discriminate].
      destruct (rt_final_destination_options r) as [h|] eqn:Eh; [|discriminate].
      destruct (raw_to_bytes h); [|discriminate].
      apply IH in W; [|apply flags_ok_clr_final; exact FO].
      flag_cbn W. rewrite ?Ef, ?Er in W. rewrite ?Ef, ?Er. rewrite Eh. cbn [opt_list map] in W |- *. perm_tac W.
    + destruct (fl_destination_options nw) eqn:Ef; [|eapply Done; exact W].
      destruct (destination_options e) as [h|] eqn:Eh; [|discriminate].
      destruct (raw_to_bytes h); [|discriminate].
      apply IH in W; [|apply flags_ok_clr_dst; exact FO].
      flag_cbn W. rewrite ?Ef, ?Eh in W. rewrite ?Ef, ?Eh. cbn [opt_list map] in W |- *. perm_tac W.
  - destruct (fl_routing nw) eqn:Ef; [|eapply Done; exact W].
    destruct (routing e) as [r|] eqn:Er; [|discriminate]. cbv zeta in W.
    destruct (raw_to_bytes (rt_routing r)); [|discriminate].
    apply IH in W; [|apply flags_ok_clr_routing; exact FO].
    flag_cbn W. rewrite ?Ef, ?Er in W. rewrite ?Ef, ?Er. cbn [opt_list map] in W |- *. perm_tac W.
  - destruct (fl_fragment nw) eqn:Ef; [|eapply Done; exact W].
    destruct (fragment e) as [h|] eqn:Eh; [|discriminate].
    apply IH in W; [|apply flags_ok_clr_frag; exact FO].
    flag_cbn W. rewrite ?Ef, ?Eh in W. rewrite ?Ef, ?Eh. cbn [opt_list map] in W |- *. perm_tac W.
  - destruct (fl_auth nw) eqn:Ef; [|eapply Done; exact W].
    destruct (auth e) as [h|] eqn:Eh; [|discriminate].
    destruct (auth_to_bytes h); [|discriminate].
    apply IH in W; [|apply flags_ok_clr_auth; exact FO].
    flag_cbn W. rewrite ?Ef, ?Eh in W. rewrite ?Ef, ?Eh. cbn [opt_list map] in W |- *. perm_tac W.
  - eapply Done; exact W.
Qed.

Lemma pending_init_present e : Permutation (pending_parts e (flags_init e)) (x6_present e).
Proof.
  unfold x6_present, pending_parts, flags_init. cbn.
  destruct (hop_by_hop_options e), (destination_options e), (routing e) as [[rt [fd|]]|],
    (fragment e), (auth e); cbn; reflexivity.
Qed.


(* ---- A: the serialiser agreement of Ipv6Extensions --------------------------------------------- *)
(* (the struct has a single serialiser, write; IpHeaders::write and the packet builder call the same
   write_internal).  For every valid struct and every first ip number:
   - the bytes in the Vec -- also after an error -- are the to_bytes() of the headers of the chain, in chain
     order, each of its own header_len;
   - when write succeeds these are header_len(e) bytes and the chain is a permutation of the headers the
     struct holds: every present header is written exactly once. *)
Theorem exts6_ser_agree e first : exts6_valid e = true ->
  fst (write e first) = parts_bytes (x6_chain e first)
  /\ Forall (fun p => part_to_bytes p = Some (part_bytes p) /\ len (part_bytes p) = part_len p)
            (x6_chain e first)
  /\ (snd (write e first) = Ok tt ->
      len (fst (write e first)) = header_len e /\ Permutation (x6_chain e first) (x6_present e)
      /\ len (x6_keep_mask e first) = header_len e).
Proof.
  intros V. destruct (write_is_chain e first V) as [B F]. split; [exact B|]. split.
  { eapply Forall_impl; [|exact F]. cbv beta. intros p VP. destruct (part_to_bytes_valid p VP) as (T & L & _). auto. }
  intros S. destruct (write e first) as [bs r] eqn:EW. cbn [fst snd] in *. subst r.
  pose proof (write_len e first bs V EW) as LB.
  assert (P : Permutation (x6_chain e first) (x6_present e)).
  { etransitivity; [|apply pending_init_present].
    unfold write, x6_chain in *. destruct (IPV6_HOP_BY_HOP =? first).
    - destruct (hop_by_hop_options e) as [h|] eqn:Eh.
      + destruct (raw_to_bytes h) as [tb|]; [|discriminate].
        pose proof (write_loop_perm LOOP_FUEL e (clr_hop (flags_init e)) (r_next_header h) false tb
                      (flags_ok_clr_hop _ _ (flags_ok_init e))) as Q. rewrite EW in Q. specialize (Q eq_refl).
        unfold pending_parts in *. cbn [clr_hop flags_init fl_hop_by_hop_options fl_destination_options fl_routing
          fl_fragment fl_auth fl_final_destination_options] in *. rewrite Eh. cbn [is_some opt_list map app] in *.
        apply perm_skip. exact Q.
      + pose proof (write_loop_perm LOOP_FUEL e (flags_init e) first false [] (flags_ok_init e)) as Q.
        rewrite EW in Q. exact (Q eq_refl).
    - pose proof (write_loop_perm LOOP_FUEL e (flags_init e) first false [] (flags_ok_init e)) as Q.
      rewrite EW in Q. exact (Q eq_refl). }
  split; [exact LB|]. split; [exact P|].
  (* the mask is as long as the bytes *)
  rewrite <- LB, B. unfold x6_keep_mask. clear - F. induction F as [|p ps VP _ IH]; [reflexivity|].
  rewrite parts_mask_cons, parts_bytes_cons, !len_app, IH.
  destruct (part_to_bytes_valid p VP) as (_ & L1 & L2). lia.
Qed.

(* ------------------------------------------------------------------ decode side: consumed bytes per part *)
(* what the three header readers say about the bytes they consumed (read_raw_inv, read_frag_inv,
   read_auth_inv), as a relation between the decoded header and its chunk of the input *)
Definition part_rel (p : part) (c : bytes) : Prop :=
  match p with
  | PRaw h => c = r_next_header h :: r_header_length h :: r_payload h
  | PFrag h => exists b0 b1 b2 b3 b4 b5 b6 b7,
      c = [b0; b1; b2; b3; b4; b5; b6; b7] /\ frag_to_bytes h = [b0; 0; b2; N.land b3 249; b4; b5; b6; b7]
  | PAuth h => exists b0 b1 b2 b3 body,
      c = [b0; b1; b2; b3] ++ body /\ auth_bytes h = [b0; b1; 0; 0] ++ body
  end.
Fixpoint parts_rel (ps : list part) (c : bytes) : Prop :=
  match ps with
  | [] => c = []
  | p :: r => exists c1 c2, c = c1 ++ c2 /\ part_rel p c1 /\ parts_rel r c2
  end.

Lemma chain_nil_no_flags fuel e next rw : chain_loop fuel e no_flags next rw = [].
Proof. destruct fuel as [|f]; [reflexivity|]. cbn [chain_loop]. destruct (arm_of next), rw; reflexivity. Qed.

(* lock step: the decoder meets the headers in the order of the chain *)
Lemma chain_mirror fuel : forall e nw next rw slice rest n r,
  exts6_valid e = true -> Inv e nw rw -> flags_ok e nw -> bytes_ok rest ->
  from_slice_loop fuel slice (done e nw) rest next = Ok (e, n, r) ->
  exists cons, rest = cons ++ r /\ parts_rel (chain_loop fuel e nw next rw) cons.
Proof.
  induction fuel as [|fuel IH]; intros e nw next rw slice rest n r V I FO OK H; [discriminate|].
  pose proof (exts6_valid_inv e V) as (Vh & Vd & Vr & Vf & Va).
  assert (STOP : done e nw = e -> r = rest ->
    exists cons, rest = cons ++ r /\ parts_rel (chain_loop (S fuel) e nw next rw) cons).
  { intros D ->. pose proof (done_fixed _ _ FO D) as NF. subst nw.
    exists []. rewrite chain_nil_no_flags. split; reflexivity. }
  cbn [from_slice_loop] in H.
  destruct (arm_of next) eqn:A.
  - discriminate.
  - (* destination options *)
    assert (RD : routing (done e nw) =
                 if fl_routing nw then None
                 else match routing e with
                      | Some r => Some (mkRouting (rt_routing r)
                                          (if fl_final_destination_options nw then None
                                           else rt_final_destination_options r))
                      | None => None
                      end) by reflexivity.
    assert (DD : destination_options (done e nw) = if fl_destination_options nw then None else destination_options e)
      by reflexivity.
    pose proof I as I0. destruct I as [I1 I2].
    assert (PLAIN : routing (done e nw) = None -> rw = false ->
      exists cons, rest = cons ++ r /\ parts_rel (chain_loop (S fuel) e nw next rw) cons).
    { intros RN ->. rewrite RN, DD in H.
      destruct (fl_destination_options nw) eqn:FD.
      - cbn [is_some] in H.
        destruct (read_raw true slice rest) as [[[h nh] rest']|x| |] eqn:R; cbn [bind] in H; try discriminate.
        destruct (read_raw_inv _ _ _ _ _ _ OK R) as (VH & -> & ->).
        pose proof (from_slice_loop_mono _ _ _ _ _ _ _ _ H) as (_ & M & _).
        specialize (M h eq_refl).
        assert (DE : set_dst (done e nw) h = done e (clr_dst nw)).
        { unfold done, set_dst, clr_dst. cbn. rewrite M. reflexivity. }
        rewrite DE in H. apply bytes_ok_app_r in OK.
        destruct (IH e (clr_dst nw) (r_next_header h) false slice rest' n r V
                    (Inv_clr_dst _ _ _ I0) (flags_ok_clr_dst _ _ FO) OK H) as (cons & -> & PR).
        exists ((r_next_header h :: r_header_length h :: r_payload h) ++ cons).
        split; [rewrite <- app_assoc; reflexivity|].
        cbn [chain_loop]. rewrite A, FD, M. cbn [parts_rel].
        exists (r_next_header h :: r_header_length h :: r_payload h), cons.
        split; [reflexivity|]. split; [reflexivity|exact PR].
      - destruct (destination_options e) as [h|] eqn:ED; cbn [is_some] in H.
        + injection H as D _ <-. apply STOP; auto.
        + exfalso.
          destruct (read_raw true slice rest) as [[[h nh] rest']|x| |] eqn:R; cbn [bind] in H; try discriminate.
          pose proof (from_slice_loop_mono _ _ _ _ _ _ _ _ H) as (_ & M & _).
          specialize (M h eq_refl). congruence. }
    destruct (fl_routing nw) eqn:FR.
    + cbn in I1. subst rw. apply PLAIN; [exact RD|reflexivity].
    + destruct (routing e) as [re|] eqn:ER.
      * cbn in I1. subst rw. rewrite RD in H. cbn [rt_final_destination_options rt_routing] in H.
        cbn [opt_valid] in Vr. apply routing_valid_inv in Vr. destruct Vr as [Vrt Vfin].
        destruct (fl_final_destination_options nw) eqn:FF.
        -- cbn [is_some] in H.
           destruct (read_raw true slice rest) as [[[h nh] rest']|x| |] eqn:R; cbn [bind] in H; try discriminate.
           destruct (read_raw_inv _ _ _ _ _ _ OK R) as (VH & -> & ->).
           pose proof (from_slice_loop_mono _ _ _ _ _ _ _ _ H) as (_ & _ & M & _).
           destruct (M _ eq_refl) as (re' & E' & _ & MF). rewrite ER in E'. injection E' as <-.
           specialize (MF h eq_refl).
           assert (DE : set_routing (done e nw) (mkRouting (rt_routing re) (Some h)) = done e (clr_final nw)).
           { unfold done, set_routing, clr_final. cbn. rewrite FR, ER, MF. reflexivity. }
           rewrite DE in H. apply bytes_ok_app_r in OK.
           destruct (IH e (clr_final nw) (r_next_header h) true slice rest' n r V
                       (Inv_clr_final _ _ I0) (flags_ok_clr_final _ _ FO) OK H) as (cons & -> & PR).
           exists ((r_next_header h :: r_header_length h :: r_payload h) ++ cons).
           split; [rewrite <- app_assoc; reflexivity|].
           cbn [chain_loop]. rewrite A, FF, ER, MF. cbn [parts_rel].
           exists (r_next_header h :: r_header_length h :: r_payload h), cons.
           split; [reflexivity|]. split; [reflexivity|exact PR].
        -- destruct (rt_final_destination_options re) as [hf|] eqn:EF; cbn [is_some] in H.
           ++ injection H as D _ <-. apply STOP; auto.
           ++ exfalso.
              destruct (read_raw true slice rest) as [[[h nh] rest']|x| |] eqn:R; cbn [bind] in H; try discriminate.
              pose proof (from_slice_loop_mono _ _ _ _ _ _ _ _ H) as (_ & _ & M & _).
              destruct (M _ eq_refl) as (re' & E' & _ & MF). rewrite ER in E'. injection E' as <-.
              specialize (MF h eq_refl). congruence.
      * cbn in I1. subst rw. apply PLAIN; [exact RD|reflexivity].
  - (* routing *)
    assert (RD : routing (done e nw) =
                 if fl_routing nw then None
                 else match routing e with
                      | Some r => Some (mkRouting (rt_routing r)
                                          (if fl_final_destination_options nw then None
                                           else rt_final_destination_options r))
                      | None => None
                      end) by reflexivity.
    destruct (fl_routing nw) eqn:FR.
    + rewrite RD in H. cbn [is_some] in H.
      destruct (read_raw true slice rest) as [[[h nh] rest']|x| |] eqn:R; cbn [bind] in H; try discriminate.
      destruct (read_raw_inv _ _ _ _ _ _ OK R) as (VH & -> & ->).
      pose proof (from_slice_loop_mono _ _ _ _ _ _ _ _ H) as (_ & _ & M & _).
      destruct (M _ eq_refl) as (re & ER & ERT & _). cbn [rt_routing] in ERT.
      pose proof I as I0. destruct I as [I1 I2]. specialize (I2 FR). unfold has_final in I2. rewrite ER in I2.
      assert (DE : set_routing (done e nw) (mkRouting h None) = done e (clr_routing nw)).
      { unfold done, set_routing, clr_routing. cbn. rewrite ER, ERT, I2.
        destruct (rt_final_destination_options re); reflexivity. }
      rewrite DE in H. apply bytes_ok_app_r in OK.
      destruct (IH e (clr_routing nw) (r_next_header h) true slice rest' n r V
                  (Inv_clr_routing _ _ rw _ ER I0) (flags_ok_clr_routing _ _ FO) OK H) as (cons & -> & PR).
      exists ((r_next_header h :: r_header_length h :: r_payload h) ++ cons).
      split; [rewrite <- app_assoc; reflexivity|].
      cbn [chain_loop]. rewrite A, FR, ER, ERT. cbn [parts_rel].
      exists (r_next_header h :: r_header_length h :: r_payload h), cons.
      split; [reflexivity|]. split; [reflexivity|exact PR].
    + rewrite RD in H. destruct (routing e) as [re|] eqn:ER; cbn [is_some] in H.
      * injection H as D _ <-. apply STOP; auto.
      * exfalso.
        destruct (read_raw true slice rest) as [[[h nh] rest']|x| |] eqn:R; cbn [bind] in H; try discriminate.
        pose proof (from_slice_loop_mono _ _ _ _ _ _ _ _ H) as (_ & _ & M & _).
        destruct (M _ eq_refl) as (re & ER' & _). congruence.
  - (* fragment *)
    assert (FD : fragment (done e nw) = if fl_fragment nw then None else fragment e) by reflexivity.
    destruct (fl_fragment nw) eqn:FF.
    + rewrite FD in H. cbn [is_some] in H.
      destruct (read_frag slice rest) as [[[h nh] rest']|x| |] eqn:R; cbn [bind] in H; try discriminate.
      destruct (read_frag_inv _ _ _ _ _ OK R) as (VH & -> & b0 & b1 & b2 & b3 & b4 & b5 & b6 & b7 & -> & TB).
      pose proof (from_slice_loop_mono _ _ _ _ _ _ _ _ H) as (_ & _ & _ & M & _).
      specialize (M h eq_refl).
      assert (DE : set_frag (done e nw) h = done e (clr_frag nw)).
      { unfold done, set_frag, clr_frag. cbn. rewrite M. reflexivity. }
      rewrite DE in H. apply bytes_ok_app_r in OK.
      destruct (IH e (clr_frag nw) (f_next_header h) rw slice rest' n r V
                  (Inv_clr_frag _ _ _ I) (flags_ok_clr_frag _ _ FO) OK H) as (cons & -> & PR).
      exists ([b0; b1; b2; b3; b4; b5; b6; b7] ++ cons).
      split; [rewrite <- app_assoc; reflexivity|].
      cbn [chain_loop]. rewrite A, FF, M. cbn [parts_rel].
      exists [b0; b1; b2; b3; b4; b5; b6; b7], cons.
      split; [reflexivity|]. split; [|exact PR].
      cbn [part_rel]. exists b0, b1, b2, b3, b4, b5, b6, b7. split; [reflexivity|exact TB].
    + rewrite FD in H. destruct (fragment e) as [h|] eqn:EF; cbn [is_some] in H.
      * injection H as D _ <-. apply STOP; auto.
      * exfalso.
        destruct (read_frag slice rest) as [[[h nh] rest']|x| |] eqn:R; cbn [bind] in H; try discriminate.
        pose proof (from_slice_loop_mono _ _ _ _ _ _ _ _ H) as (_ & _ & _ & M & _).
        specialize (M h eq_refl). congruence.
  - (* authentication *)
    assert (FD : auth (done e nw) = if fl_auth nw then None else auth e) by reflexivity.
    destruct (fl_auth nw) eqn:FF.
    + rewrite FD in H. cbn [is_some] in H.
      destruct (read_auth slice rest) as [[[h nh] rest']|x| |] eqn:R; cbn [bind] in H; try discriminate.
      destruct (read_auth_inv _ _ _ _ _ OK R) as (VH & -> & b0 & b1 & b2 & b3 & body & -> & TB).
      pose proof (from_slice_loop_mono _ _ _ _ _ _ _ _ H) as (_ & _ & _ & _ & M).
      specialize (M h eq_refl).
      assert (DE : set_auth (done e nw) h = done e (clr_auth nw)).
      { unfold done, set_auth, clr_auth. cbn. rewrite M. reflexivity. }
      rewrite DE in H. apply bytes_ok_app_r in OK. apply bytes_ok_app_r in OK.
      destruct (IH e (clr_auth nw) (a_next_header h) rw slice rest' n r V
                  (Inv_clr_auth _ _ _ I) (flags_ok_clr_auth _ _ FO) OK H) as (cons & -> & PR).
      exists (([b0; b1; b2; b3] ++ body) ++ cons).
      split; [rewrite <- !app_assoc; reflexivity|].
      cbn [chain_loop]. rewrite A, FF, M. cbn [parts_rel].
      exists ([b0; b1; b2; b3] ++ body), cons.
      split; [reflexivity|]. split; [|exact PR].
      cbn [part_rel]. exists b0, b1, b2, b3, body. split; [reflexivity|exact TB].
    + rewrite FD in H. destruct (auth e) as [h|] eqn:EF; cbn [is_some] in H.
      * injection H as D _ <-. apply STOP; auto.
      * exfalso.
        destruct (read_auth slice rest) as [[[h nh] rest']|x| |] eqn:R; cbn [bind] in H; try discriminate.
        pose proof (from_slice_loop_mono _ _ _ _ _ _ _ _ H) as (_ & _ & _ & _ & M).
        specialize (M h eq_refl). congruence.
  - injection H as D _ <-. apply STOP; auto.
Qed.

(* ------------------------------------------------------------------ from the chunks to the mask *)
Lemma agree_app k1 k2 a1 a2 b1 b2 : agree k1 a1 b1 -> agree k2 a2 b2 -> agree (k1 ++ k2) (a1 ++ a2) (b1 ++ b2).
Proof.
  intros (A1 & B1 & M1) (A2 & B2 & M2). unfold Roundtrip.Common.agree. rewrite !len_app.
  split; [lia|]. split; [lia|].
  rewrite !Roundtrip.CommonProofs.masked_app by (apply Nat2N.inj; unfold len in *; lia).
  rewrite M1, M2. reflexivity.
Qed.

Lemma agree_nil : agree [] [] [].
Proof. repeat split. Qed.

Lemma part_rel_agree p c : part_valid p = true -> part_rel p c -> agree (part_mask p) (part_bytes p) c.
Proof.
  intros V R. destruct (part_to_bytes_valid p V) as (_ & LB & LM).
  destruct p as [h|h|h]; cbn [part_rel part_mask part_bytes part_len] in *.
  - subst c. repeat split; lia.
  - destruct R as (b0 & b1 & b2 & b3 & b4 & b5 & b6 & b7 & -> & TB). rewrite TB.
    split; [reflexivity|]. split; [reflexivity|].
    unfold Roundtrip.Frag.frag_keep_mask. cbn [Roundtrip.Common.masked].
    rewrite N.land_0_r, N.land_0_r, <- N.land_assoc, N.land_diag. reflexivity.
  - destruct R as (b0 & b1 & b2 & b3 & body & -> & TB). rewrite TB in *.
    split; [lia|]. split; [rewrite len_app in *; change (len [b0; b1; b2; b3]) with 4; change (len [b0; b1; 0; 0]) with 4 in LB; lia|].
    unfold Roundtrip.Auth.ah_keep_mask. cbn [app Roundtrip.Common.masked].
    rewrite !N.land_0_r. reflexivity.
Qed.

Lemma parts_rel_agree ps : forall c, Forall (fun p => part_valid p = true) ps -> parts_rel ps c ->
  agree (parts_mask ps) (parts_bytes ps) c.
Proof.
  induction ps as [|p ps IH]; intros c F R.
  - cbn [parts_rel] in R. subst c. exact agree_nil.
  - cbn [parts_rel] in R. destruct R as (c1 & c2 & -> & R1 & R2).
    inversion F as [|? ? VP F']; subst.
    rewrite parts_mask_cons, parts_bytes_cons. apply agree_app; [apply part_rel_agree; assumption|apply IH; assumption].
Qed.

(* ---- C with a positional mask ------------------------------------------------------------------ *)
(* C08 decode -> encode for Ipv6Extensions, every accepted byte string: as Exts6Proofs.exts6_enc_dec, with
   the relation hdr_eq replaced by the positional mask computed from the decoded struct *)
Theorem exts6_enc_dec_mask first bs e n r : bytes_ok bs -> from_slice first bs = Ok (e, n, r) ->
  exts6_valid e = true /\
  exists bs' cons, write e first = (bs', Ok tt) /\ next_header e first = Ok n
    /\ bs = cons ++ r /\ agree (x6_keep_mask e first) bs' cons
    /\ bs' = parts_bytes (x6_chain e first) /\ len bs' = header_len e
    /\ forall t, from_slice first (bs' ++ t) = Ok (e, n, t).
Proof.
  intros OK H.
  destruct (exts6_enc_dec first bs e n r OK H) as (V & bs' & cons & EW & NH & SP & HE & LB & RE).
  split; [exact V|]. exists bs', cons.
  destruct (write_is_chain e first V) as [B F]. rewrite EW in B. cbn [fst] in B.
  split; [exact EW|]. split; [exact NH|]. split; [exact SP|]. split; [|split; [exact B|split; [exact LB|exact RE]]].
  (* the consumed bytes, part by part *)
  assert (PR : exists cons', bs = cons' ++ r /\ parts_rel (x6_chain e first) cons').
  { unfold from_slice in H. unfold x6_chain.
    destruct (IPV6_HOP_BY_HOP =? first) eqn:E0.
    - destruct (read_raw false bs bs) as [[[h nh] rest']|x| |] eqn:R; cbn [bind] in H; try discriminate.
      destruct (read_raw_inv _ _ _ _ _ _ OK R) as (VH & -> & EB).
      assert (OK' : bytes_ok rest') by (rewrite EB in OK; apply bytes_ok_app_r in OK; exact OK).
      pose proof (from_slice_loop_mono _ _ _ _ _ _ _ _ H) as (MH & _). cbn in MH.
      rewrite <- (done_init_hop e h MH) in H.
      destruct (chain_mirror LOOP_FUEL e (clr_hop (flags_init e)) (r_next_header h) false bs rest' n r V
                  (Inv_clr_hop _ _ _ (Inv_init e)) (flags_ok_clr_hop _ _ (flags_ok_init e)) OK' H)
        as (c' & -> & P).
      exists ((r_next_header h :: r_header_length h :: r_payload h) ++ c').
      split; [rewrite EB, <- app_assoc; reflexivity|].
      rewrite MH. cbn [parts_rel]. exists (r_next_header h :: r_header_length h :: r_payload h), c'.
      split; [reflexivity|]. split; [reflexivity|exact P].
    - rewrite <- (done_init e) in H.
      destruct (chain_mirror LOOP_FUEL e (flags_init e) first false bs bs n r V
                  (Inv_init e) (flags_ok_init e) OK H) as (c' & EB & P).
      exists c'. split; [exact EB|exact P]. }
  destruct PR as (cons' & SP' & P).
  assert (cons' = cons) by (rewrite SP in SP'; apply app_inv_tail in SP'; congruence). subst cons'.
  rewrite B. unfold x6_keep_mask. apply parts_rel_agree; assumption.
Qed.

(* the positional statement implies the old relation's content: no byte outside a fragment header's byte 1 /
   byte 3 or an authentication header's bytes 2-3 is masked *)
Lemma part_mask_raw h : part_mask (PRaw h) = ones (raw_header_len h). Proof. reflexivity. Qed.
Lemma part_mask_frag h : part_mask (PFrag h) = [255; 0; 255; 249; 255; 255; 255; 255]. Proof. reflexivity. Qed.
Lemma part_mask_auth h : part_mask (PAuth h) = [255; 255; 0; 0] ++ ones (auth_header_len h - 4). Proof. reflexivity. Qed.
