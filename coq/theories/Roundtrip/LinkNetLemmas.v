(* Roundtrip/LinkNetLemmas.v -- small list lemmas shared by the link / network layer
   C08 proofs (extend-c08a): lists of a known short length are explicit. *)
From EP Require Import Base.Bytes Roundtrip.Common Roundtrip.CommonProofs.
From Coq Require Import ZArith Lia ZifyN.
Local Open Scope N_scope.

Lemma len4_explicit {A} (l : list A) : len l = 4 -> exists a b c d, l = [a; b; c; d].
Proof.
  intros H. destruct l as [|a [|b [|c [|d [|e r]]]]]; try (vm_compute in H; discriminate).
  - eauto.
  - rewrite !len_cons in H. lia.
Qed.

Lemma len6_explicit {A} (l : list A) : len l = 6 -> exists a b c d e f, l = [a; b; c; d; e; f].
Proof.
  intros H. destruct l as [|a [|b [|c [|d [|e [|f [|g r]]]]]]]; try (vm_compute in H; discriminate).
  - eauto 7.
  - rewrite !len_cons in H. lia.
Qed.

Lemma len8_explicit {A} (l : list A) : len l = 8 -> exists a b c d e f g h, l = [a; b; c; d; e; f; g; h].
Proof.
  intros H. destruct l as [|a [|b [|c [|d [|e [|f [|g [|h [|i r]]]]]]]]]; try (vm_compute in H; discriminate).
  - eauto 9.
  - rewrite !len_cons in H. lia.
Qed.

(* [a <=? b] etc. with a proof of the relation *)
Lemma ltb_false a b : b <= a -> (a <? b) = false.
Proof. intros H. apply N.ltb_ge. exact H. Qed.
Lemma leb_true a b : a <= b -> (a <=? b) = true.
Proof. intros H. apply N.leb_le. exact H. Qed.

Lemma slice_range_mid3 (A B C : bytes) a b : len A = a -> b = a + len B -> slice_range (A ++ B ++ C) a b = Some B.
Proof.
  intros LA ->. unfold slice_range. rewrite !len_app, LA.
  rewrite (leb_true a (a + len B)) by lia. rewrite (leb_true (a + len B) (a + (len B + len C))) by lia.
  cbn [andb]. f_equal. rewrite (drop_app_len A) by (symmetry; exact LA).
  apply take_app_len. lia.
Qed.

Lemma read_exact_app' (A B : bytes) n : len A = n -> read_exact (A ++ B) n = Ok (A, B).
Proof.
  intros L. unfold read_exact. rewrite len_app. rewrite (ltb_false (len A + len B) n) by lia.
  rewrite (take_app_len A B) by (symmetry; exact L). rewrite (drop_app_len A B) by (symmetry; exact L). reflexivity.
Qed.

(* the four address windows behind an 8 byte prefix *)
Lemma four_windows (F A B C D : bytes) : len F = 8 ->
  let s := F ++ A ++ B ++ C ++ D in
  slice_range s 8 (8 + len A) = Some A
  /\ slice_range s (8 + len A) (8 + len A + len B) = Some B
  /\ slice_range s (8 + len A + len B) (8 + len A + len B + len C) = Some C
  /\ slice_range s (8 + len A + len B + len C) (8 + len A + len B + len C + len D) = Some D.
Proof.
  intros LF. cbv zeta. repeat split.
  - apply slice_range_mid3; [exact LF|reflexivity].
  - rewrite (app_assoc F A). apply slice_range_mid3; [rewrite len_app, LF; reflexivity|reflexivity].
  - rewrite (app_assoc F A), (app_assoc (F ++ A) B).
    apply slice_range_mid3; [rewrite !len_app, LF; reflexivity|reflexivity].
  - rewrite (app_assoc F A), (app_assoc (F ++ A) B), (app_assoc ((F ++ A) ++ B) C).
    rewrite <- (app_nil_r D) at 1.
    apply slice_range_mid3; [rewrite !len_app, LF; reflexivity|reflexivity].
Qed.
