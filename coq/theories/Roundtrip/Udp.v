(* Roundtrip/Udp.v -- model of etherparse UdpHeader / UdpHeaderSlice:
   to_bytes, write (= write_all(to_bytes)), header_len, from_slice (via
   UdpHeaderSlice::from_slice + to_header, rest = &slice[8..]), from_bytes, read
   (read_exact 8 bytes, from_bytes).  UdpHeader has no write_to_slice. *)
From EP Require Import Base.Bytes Roundtrip.Common.
Local Open Scope N_scope.

Record UdpHeader := {
  udp_source_port : N; udp_destination_port : N; udp_length : N; udp_checksum : N }.

Definition udp_header_len (h : UdpHeader) : N := 8.

(* to_bytes: the four u16::to_be_bytes, element by element *)
Definition udp_to_bytes (h : UdpHeader) : bytes :=
  u16_to_be (udp_source_port h) ++ u16_to_be (udp_destination_port h)
  ++ u16_to_be (udp_length h) ++ u16_to_be (udp_checksum h).

Definition udp_write (out : bytes) (h : UdpHeader) : bytes := out ++ udp_to_bytes h.

(* UdpHeaderSlice::from_slice: from_raw_parts(ptr, 8) after the length check *)
Definition udp_slice_from_slice (s : bytes) : res bytes :=
  if len s <? 8 then Err ELen else Ok (take 8 s).

(* get_unchecked_be_u16(ptr.add(i)) *)
Definition udp_get_be_u16 (s : bytes) (i : N) : res N :=
  match rd s i, rd s (i + 1) with
  | Some a, Some b => Ok (be16 a b)
  | _, _ => Err EOOB
  end.

(* UdpHeaderSlice::to_header: four unchecked reads at 0, 2, 4, 6 *)
Definition udp_to_header (s : bytes) : res UdpHeader :=
  match udp_get_be_u16 s 0, udp_get_be_u16 s 2, udp_get_be_u16 s 4, udp_get_be_u16 s 6 with
  | Ok sp, Ok dp, Ok l, Ok c =>
      Ok {| udp_source_port := sp; udp_destination_port := dp; udp_length := l; udp_checksum := c |}
  | _, _, _, _ => Err EOOB
  end.

(* UdpHeader::from_slice: (UdpHeaderSlice::from_slice(slice)?.to_header(), &slice[8..]) *)
Definition udp_from_slice (s : bytes) : res (UdpHeader * bytes) :=
  match udp_slice_from_slice s with
  | Err e => Err e
  | Ok hs =>
    match udp_to_header hs with
    | Err e => Err e
    | Ok h => match slice_from s 8 with
              | None => Err EPanic
              | Some rest => Ok (h, rest)
              end
    end
  end.

(* UdpHeader::from_bytes([u8;8]): indexing a fixed array *)
Definition udp_from_bytes (b : bytes) : res UdpHeader :=
  match b with
  | [b0; b1; b2; b3; b4; b5; b6; b7] =>
    Ok {| udp_source_port := be16 b0 b1; udp_destination_port := be16 b2 b3;
          udp_length := be16 b4 b5; udp_checksum := be16 b6 b7 |}
  | _ => Err EPanic
  end.

(* read: read_exact 8 bytes, from_bytes *)
Definition udp_read (r : bytes) : res (UdpHeader * bytes) :=
  match read_exact r 8 with
  | Err e => Err e
  | Ok (buf, r1) => match udp_from_bytes buf with
                    | Err e => Err e
                    | Ok h => Ok (h, r1)
                    end
  end.

(* all four fields are u16 *)
Definition wf_udp (h : UdpHeader) : bool :=
  (udp_source_port h <? 65536) && (udp_destination_port h <? 65536)
  && (udp_length h <? 65536) && (udp_checksum h <? 65536).

(* no reserved bits *)
Definition udp_keep_mask : bytes := ones 8.

(* RFC 768 layout *)
Definition udp_layout (sp dp l c : N) : bytes :=
  [sp / 256; sp mod 256; dp / 256; dp mod 256; l / 256; l mod 256; c / 256; c mod 256].
