(* Roundtrip/Icmp6Proofs.v -- C08 for Icmpv6Header / Icmpv6Type.
   The type/code dispatch of the decoder is taken from the C17 lemma
   CtlMsg.Proofs.icmp6_cases (model = RFC table for ALL numbers). *)
From EP Require Import Base.Bytes.
From EP Require Import CtlMsg.Spec CtlMsg.Model CtlMsg.Proofs.
From EP Require Import Roundtrip.Common Roundtrip.CommonProofs Roundtrip.Icmp6.
From Coq Require Import ZArith Lia ZifyN.
Local Open Scope N_scope.

(* ---------------- the decoder on an explicit 8-byte prefix ---------------- *)
Definition icmp6_of_bytes (t c b4 b5 b6 b7 : N) : Icmpv6Type :=
  match lookup t c icmp6_table with
  | Some f => f [t; c; 0; 0; b4; b5; b6; b7]
  | None => V6Unknown t c b4 b5 b6 b7
  end.

Ltac table_cases :=
  repeat match goal with
         | |- context [if ?b then _ else _] => destruct b; [reflexivity|]
         end.

Lemma spec6_of_bytes t c k0 k1 b4 b5 b6 b7 rest :
  spec6_type t c b4 b5 b6 b7 (t :: c :: k0 :: k1 :: b4 :: b5 :: b6 :: b7 :: rest) = icmp6_of_bytes t c b4 b5 b6 b7.
Proof. unfold spec6_type, icmp6_of_bytes, icmp6_table. cbn [lookup]. table_cases. reflexivity. Qed.

Lemma icmp6_of_bytes_hl t c b4 b5 b6 b7 : icmp6_type_header_len (icmp6_of_bytes t c b4 b5 b6 b7) = 8.
Proof. destruct (icmp6_of_bytes t c b4 b5 b6 b7); reflexivity. Qed.

Lemma len8 {A} (a b c d e f g h : A) r : len (a :: b :: c :: d :: e :: f :: g :: h :: r) = 8 + len r.
Proof. rewrite !len_cons. lia. Qed.

Lemma icmp6_header_8 t c k0 k1 b4 b5 b6 b7 rest :
  icmp6_slice_header (t :: c :: k0 :: k1 :: b4 :: b5 :: b6 :: b7 :: rest) =
  Ok {| icmp6_type := icmp6_of_bytes t c b4 b5 b6 b7; icmp6_checksum := be16 k0 k1 |}.
Proof.
  destruct (icmp6_cases t c k0 k1 b4 b5 b6 b7 rest) as [Ht _]. cbv zeta in Ht.
  unfold icmp6_slice_header. rewrite Ht, spec6_of_bytes. reflexivity.
Qed.

Lemma icmp6_from_slice_8 t c k0 k1 b4 b5 b6 b7 rest :
  8 + len rest <= 4294967295 ->
  icmp6_from_slice (t :: c :: k0 :: k1 :: b4 :: b5 :: b6 :: b7 :: rest) =
  Ok ({| icmp6_type := icmp6_of_bytes t c b4 b5 b6 b7; icmp6_checksum := be16 k0 k1 |}, rest).
Proof.
  intros LM. unfold icmp6_from_slice, Icmpv6Slice.from_slice, Icmpv6Slice.MIN_LEN, Icmpv6Slice.MAX_ICMPV6_BYTE_LEN.
  rewrite len8.
  replace (8 + len rest <? 8) with false by (symmetry; apply N.ltb_ge; lia).
  replace (4294967295 <? 8 + len rest) with false by (symmetry; apply N.ltb_ge; lia).
  rewrite icmp6_header_8.
  unfold icmp6_header_len. cbn [icmp6_type]. rewrite icmp6_of_bytes_hl.
  unfold slice_from. rewrite len8.
  replace (8 <=? 8 + len rest) with true by (symmetry; apply N.leb_le; lia).
  reflexivity.
Qed.

Lemma read_exact_app a rest n : n = len a -> read_exact (a ++ rest) n = Ok (a, rest).
Proof.
  intros ->. unfold read_exact. rewrite len_app.
  replace (len a + len rest <? len a) with false by (symmetry; apply N.ltb_ge; lia).
  rewrite take_app_len, drop_app_len by reflexivity. reflexivity.
Qed.

Lemma icmp6_read_8 t c k0 k1 b4 b5 b6 b7 rest :
  icmp6_read (t :: c :: k0 :: k1 :: b4 :: b5 :: b6 :: b7 :: rest) =
  Ok ({| icmp6_type := icmp6_of_bytes t c b4 b5 b6 b7; icmp6_checksum := be16 k0 k1 |}, rest).
Proof.
  unfold icmp6_read.
  change (t :: c :: k0 :: k1 :: b4 :: b5 :: b6 :: b7 :: rest) with ([t; c; k0; k1; b4; b5; b6; b7] ++ rest).
  rewrite read_exact_app by reflexivity. rewrite (icmp6_header_8 _ _ _ _ _ _ _ _ []). reflexivity.
Qed.

(* ---------------- encoder closures ---------------- *)
Lemma return_trivial_eq ck t c :
  icmp6_return_trivial (u16_to_be ck) t c = Some [t; c; (ck / 256) mod 256; ck mod 256; 0; 0; 0; 0].
Proof. reflexivity. Qed.
Lemma return_4u8_eq ck t c x0 x1 x2 x3 :
  icmp6_return_4u8 (u16_to_be ck) t c [x0; x1; x2; x3] = Some [t; c; (ck / 256) mod 256; ck mod 256; x0; x1; x2; x3].
Proof. reflexivity. Qed.

Theorem icmp6_ser_agree h out :
  exists e, icmp6_to_bytes h = Some e /\ icmp6_write out h = Some (out ++ e) /\ len e = icmp6_header_len h.
Proof.
  assert (X : exists e, icmp6_to_bytes h = Some e /\ len e = icmp6_header_len h).
  { destruct h as [ty ck]. unfold icmp6_to_bytes, icmp6_header_len. cbn [icmp6_type icmp6_checksum].
    destruct ty; cbn [icmp6_type_header_len];
      unfold icmp6_echo_to_bytes, icmp6_ra_to_bytes, icmp6_na_to_bytes, u32_to_be; cbv zeta;
      try (change (u16_to_be id) with [(id / 256) mod 256; id mod 256]);
      try (change (u16_to_be seq) with [(seq / 256) mod 256; seq mod 256]);
      try (change (u16_to_be router_lifetime) with [(router_lifetime / 256) mod 256; router_lifetime mod 256]);
      cbn [app];
      rewrite ?return_trivial_eq, ?return_4u8_eq; eexists; split; reflexivity. }
  destruct X as (e & E & L). exists e. unfold icmp6_write. rewrite E. repeat split; assumption.
Qed.

Ltac of_bytes_red6 :=
  lazy [icmp6_of_bytes icmp6_table lookup N.eqb Pos.eqb andb pp6 u16_at u32_at byte_at nth
        N.to_nat Pos.to_nat Pos.iter_op Nat.add Init.Nat.add N.add Pos.add Pos.succ].

Lemma mod256_lt x : x mod 256 < 256.
Proof. apply N.mod_lt. lia. Qed.

Lemma dec_enc_8 ty ck t c x4 x5 x6 x7 :
  ck < 65536 -> t < 256 -> c < 256 -> x4 < 256 -> x5 < 256 -> x6 < 256 -> x7 < 256 ->
  icmp6_of_bytes t c x4 x5 x6 x7 = ty ->
  let e := [t; c; (ck / 256) mod 256; ck mod 256; x4; x5; x6; x7] in
  len e = icmp6_type_header_len ty /\ bytes_ok e /\
  (forall rest, icmp6_read (e ++ rest) = Ok ({| icmp6_type := ty; icmp6_checksum := ck |}, rest)) /\
  (forall rest, 8 + len rest <= 4294967295 ->
     icmp6_from_slice (e ++ rest) = Ok ({| icmp6_type := ty; icmp6_checksum := ck |}, rest)).
Proof.
  intros Hck Ht Hc H4 H5 H6 H7 OB e. subst e.
  split; [rewrite <- OB, icmp6_of_bytes_hl; reflexivity|].
  split.
  { repeat (apply bytes_ok_explicit_cons; [first [assumption | apply mod256_lt]|]). constructor. }
  split; intros rest; cbn [app].
  - rewrite icmp6_read_8. rewrite OB, (u16_be_roundtrip _ Hck). reflexivity.
  - intros LM. rewrite icmp6_from_slice_8 by exact LM. rewrite OB, (u16_be_roundtrip _ Hck). reflexivity.
Qed.

Ltac fin8 := match goal with F8 : forall t c x4 x5 x6 x7 : N, _ |- _ => apply F8 end;
    try lia; try apply mod256_lt; try assumption; try reflexivity;
    of_bytes_red6; rewrite ?u16_be_roundtrip, ?u32_be_roundtrip by assumption; reflexivity.

(* every well-formed value: read returns the value and any remainder; from_slice does so
   as long as the whole slice is not longer than u32::MAX (Icmpv6Slice::from_slice rejects
   longer slices) *)
Theorem icmp6_dec_enc h : wf_icmp6 h = true ->
  exists e, icmp6_to_bytes h = Some e /\ len e = icmp6_header_len h /\ bytes_ok e /\
    (forall rest, icmp6_read (e ++ rest) = Ok (h, rest)) /\
    (forall rest, 8 + len rest <= 4294967295 -> icmp6_from_slice (e ++ rest) = Ok (h, rest)).
Proof.
  destruct h as [ty ck]. unfold wf_icmp6. cbn [icmp6_type icmp6_checksum]. intros W.
  apply andb_true_iff in W. destruct W as [WT WC]. apply N.ltb_lt in WC.
  unfold icmp6_to_bytes, icmp6_header_len. cbn [icmp6_type icmp6_checksum].
  assert (F8 : forall t c x4 x5 x6 x7,
    t < 256 -> c < 256 -> x4 < 256 -> x5 < 256 -> x6 < 256 -> x7 < 256 ->
    icmp6_of_bytes t c x4 x5 x6 x7 = ty ->
    exists e, Some [t; c; (ck / 256) mod 256; ck mod 256; x4; x5; x6; x7] = Some e /\
      len e = icmp6_type_header_len ty /\ bytes_ok e /\
      (forall rest, icmp6_read (e ++ rest) = Ok ({| icmp6_type := ty; icmp6_checksum := ck |}, rest)) /\
      (forall rest, 8 + len rest <= 4294967295 ->
         icmp6_from_slice (e ++ rest) = Ok ({| icmp6_type := ty; icmp6_checksum := ck |}, rest))).
  { intros t c x4 x5 x6 x7 Ht Hc H4 H5 H6 H7 OB.
    destruct (dec_enc_8 ty ck t c x4 x5 x6 x7 WC Ht Hc H4 H5 H6 H7 OB) as (L & B & R & F).
    eexists. split; [reflexivity|]. repeat split; assumption. }
  destruct ty as [t c b4 b5 b6 b7 | code | mtu | code | code pointer | id seq | id seq | | chl m o rl | | r s o | ].
  - (* Unknown *)
    cbn [wf_icmp6_type] in WT. bsplit WT. rewrite return_4u8_eq.
    match goal with H : negb (icmp6_typed t c) = true |- _ => rename H into WN end.
    unfold icmp6_typed in WN.
    destruct (lookup t c icmp6_table) eqn:LT; [cbn [negb] in WN; discriminate|].
    apply F8; try assumption. unfold icmp6_of_bytes. rewrite LT. reflexivity.
  - (* DestinationUnreachable *)
    rewrite return_trivial_eq. destruct code; cbn [icmp6_du_code_u8]; fin8.
  - (* PacketTooBig *)
    cbn [wf_icmp6_type] in WT. bsplit WT. unfold u32_to_be. rewrite return_4u8_eq. fin8.
  - (* TimeExceeded *)
    rewrite return_trivial_eq. destruct code; cbn [icmp6_te_code_u8]; fin8.
  - (* ParameterProblem *)
    cbn [wf_icmp6_type] in WT. bsplit WT. unfold u32_to_be. rewrite return_4u8_eq.
    destruct code; cbn [icmp6_pp_code_u8]; fin8.
  - (* EchoRequest *)
    cbn [wf_icmp6_type] in WT. bsplit WT. unfold icmp6_echo_to_bytes, u16_to_be at 2 3. cbn [app].
    rewrite return_4u8_eq. fin8.
  - (* EchoReply *)
    cbn [wf_icmp6_type] in WT. bsplit WT. unfold icmp6_echo_to_bytes, u16_to_be at 2 3. cbn [app].
    rewrite return_4u8_eq. fin8.
  - rewrite return_trivial_eq. fin8.
  - (* RouterAdvertisement *)
    cbn [wf_icmp6_type] in WT. bsplit WT. unfold icmp6_ra_to_bytes, u16_to_be at 2. cbn [app].
    rewrite return_4u8_eq. destruct m, o; fin8.
  - rewrite return_trivial_eq. fin8.
  - (* NeighborAdvertisement *)
    unfold icmp6_na_to_bytes. cbv zeta. rewrite return_4u8_eq. destruct r, s, o; fin8.
  - rewrite return_trivial_eq. fin8.
Qed.

(* ---------------- decode -> encode ---------------- *)
Lemma be16_hi a b : a < 256 -> b < 256 -> (be16 a b / 256) mod 256 = a.
Proof. intros Ha Hb. pose proof (u16_to_be_be16 a b Ha Hb) as E. unfold u16_to_be in E. congruence. Qed.
Lemma be16_lo a b : a < 256 -> b < 256 -> be16 a b mod 256 = b.
Proof. intros Ha Hb. pose proof (u16_to_be_be16 a b Ha Hb) as E. unfold u16_to_be in E. congruence. Qed.

(* raw pairs: nothing is normalised *)
Definition raw_mask_ok (t : N) : bool :=
  all_below 256 (fun c => match lookup t c icmp6_table with
                          | Some _ => true
                          | None => bytes_eqb (icmp6_keep_mask t c) (ones 8)
                          end).
Lemma sweep_raw_mask : all_below 256 raw_mask_ok = true.
Proof. vm_compute. reflexivity. Qed.
Lemma raw_mask t c : t < 256 -> c < 256 -> lookup t c icmp6_table = None -> icmp6_keep_mask t c = ones 8.
Proof.
  intros Ht Hc LT. pose proof (all_byte _ sweep_raw_mask t Ht) as S. unfold raw_mask_ok in S.
  pose proof (all_byte _ S c Hc) as S'. cbv beta in S'. rewrite LT in S'. apply bytes_eqb_eq. exact S'.
Qed.

(* the flag bytes of router / neighbor advertisement: all 256 values *)
Definition ra_flags_ok (b : N) : bool :=
  bor (if bit_msb b 0 then 128 else 0) (if bit_msb b 1 then 64 else 0) =? N.land b 192.
Lemma sweep_ra_flags : all_below 256 ra_flags_ok = true.
Proof. vm_compute. reflexivity. Qed.
Lemma ra_flags b : b < 256 -> bor (if bit_msb b 0 then 128 else 0) (if bit_msb b 1 then 64 else 0) = N.land b 192.
Proof. intros H. apply N.eqb_eq. exact (all_byte _ sweep_ra_flags b H). Qed.

Definition na_flags_ok (b : N) : bool :=
  bytes_eqb (icmp6_na_to_bytes (bit_msb b 0) (bit_msb b 1) (bit_msb b 2)) [N.land b 224; 0; 0; 0].
Lemma sweep_na_flags : all_below 256 na_flags_ok = true.
Proof. vm_compute. reflexivity. Qed.
Lemma na_flags b : b < 256 ->
  icmp6_na_to_bytes (bit_msb b 0) (bit_msb b 1) (bit_msb b 2) = [N.land b 224; 0; 0; 0].
Proof. intros H. apply bytes_eqb_eq. exact (all_byte _ sweep_na_flags b H). Qed.

Ltac split_table LT :=
  match type of LT with
  | (if ?b then _ else _) = _ => let E := fresh "E" in destruct b eqn:E; [ | clear E; split_table LT]
  | None = Some _ => discriminate LT
  end.

Ltac mask_compute :=
  match goal with
  | |- context [icmp6_keep_mask ?t ?c] =>
    let m := eval vm_compute in (icmp6_keep_mask t c) in change (icmp6_keep_mask t c) with m
  end.

Lemma enc_dec_8 t c k0 k1 b4 b5 b6 b7 :
  t < 256 -> c < 256 -> k0 < 256 -> k1 < 256 -> b4 < 256 -> b5 < 256 -> b6 < 256 -> b7 < 256 ->
  let h := {| icmp6_type := icmp6_of_bytes t c b4 b5 b6 b7; icmp6_checksum := be16 k0 k1 |} in
  wf_icmp6 h = true /\
  icmp6_to_bytes h = Some (masked (icmp6_keep_mask t c) [t; c; k0; k1; b4; b5; b6; b7]).
Proof.
  intros Ht Hc H0 H1 H4 H5 H6 H7 h. subst h.
  pose proof (be16_bound k0 k1 H0 H1) as CK. apply N.ltb_lt in CK.
  unfold wf_icmp6, icmp6_to_bytes. cbn [icmp6_type icmp6_checksum]. rewrite CK, andb_true_r.
  destruct (lookup t c icmp6_table) as [f|] eqn:LT.
  - unfold icmp6_table in LT. cbn [lookup] in LT. split_table LT.
    all: match goal with E : (_ =? ?t') && (_ =? ?c') = true |- _ =>
           apply andb_true_iff in E; destruct E as [E1 E2]; apply N.eqb_eq in E1, E2; subst t' c' end.
    all: clear LT Ht Hc.
    all: of_bytes_red6; cbn [wf_icmp6_type icmp6_du_code_u8 icmp6_te_code_u8 icmp6_pp_code_u8].
    all: mask_compute; cbn [masked].
    all: rewrite ?na_flags by assumption.
    all: unfold icmp6_echo_to_bytes, icmp6_ra_to_bytes.
    all: rewrite ?ra_flags by assumption.
    all: rewrite ?(u32_to_be_be32 b4 b5 b6 b7 H4 H5 H6 H7), ?(u16_to_be_be16 b4 b5 H4 H5),
           ?(u16_to_be_be16 b6 b7 H6 H7); cbn [app].
    all: rewrite ?return_trivial_eq, ?return_4u8_eq.
    all: rewrite ?be16_hi, ?be16_lo, ?land_255, ?N.land_0_r by (first [assumption | lia]).
    all: split; [|reflexivity].
    all: try reflexivity.
    all: try (pose proof (be16_bound b4 b5 H4 H5) as X1; pose proof (be16_bound b6 b7 H6 H7) as X2;
              pose proof (be32_bound b4 b5 b6 b7 H4 H5 H6 H7) as X3;
              apply N.ltb_lt in X1, X2, X3; apply N.ltb_lt in H4; rewrite ?X1, ?X2, ?X3, ?H4; reflexivity).
  - unfold icmp6_of_bytes. rewrite LT. cbn [wf_icmp6_type]. unfold icmp6_typed. rewrite LT.
    rewrite return_4u8_eq, (raw_mask t c Ht Hc LT).
    change (ones 8) with [255; 255; 255; 255; 255; 255; 255; 255]. cbn [masked].
    rewrite ?be16_hi, ?be16_lo, ?land_255 by assumption.
    apply N.ltb_lt in Ht, Hc, H4, H5, H6, H7. rewrite Ht, Hc, H4, H5, H6, H7. split; reflexivity.
Qed.

(* every accepted byte string: the value is well-formed, re-encoding reproduces the
   consumed 8 bytes outside icmp6_keep_mask, decoding again gives the same value, and read
   agrees with from_slice *)
Theorem icmp6_enc_dec bs h rest : bytes_ok bs -> icmp6_from_slice bs = Ok (h, rest) ->
  wf_icmp6 h = true /\ bs = take (icmp6_header_len h) bs ++ rest /\
  exists e t c, icmp6_to_bytes h = Some e /\ rd bs 0 = Some t /\ rd bs 1 = Some c /\
    agree (icmp6_keep_mask t c) e (take (icmp6_header_len h) bs) /\
    icmp6_from_slice e = Ok (h, []) /\ icmp6_read bs = Ok (h, rest).
Proof.
  intros OK H.
  destruct (len bs <? 8) eqn:E8.
  { unfold icmp6_from_slice, Icmpv6Slice.from_slice, Icmpv6Slice.MIN_LEN in H. rewrite E8 in H. discriminate. }
  destruct (4294967295 <? len bs) eqn:EM.
  { unfold icmp6_from_slice, Icmpv6Slice.from_slice, Icmpv6Slice.MIN_LEN, Icmpv6Slice.MAX_ICMPV6_BYTE_LEN in H.
    rewrite E8, EM in H. discriminate. }
  destruct (len_ge_cons8 bs E8) as (t & c & k0 & k1 & b4 & b5 & b6 & b7 & r & ->).
  pose proof OK as OK'. bytes_ok_split OK'.
  rewrite len8 in EM. apply N.ltb_ge in EM.
  rewrite icmp6_from_slice_8 in H by exact EM.
  apply Ok_inj in H. apply pair_equal_spec in H. destruct H as [<- <-].
  unfold icmp6_header_len. cbn [icmp6_type]. rewrite icmp6_of_bytes_hl.
  change (take 8 (t :: c :: k0 :: k1 :: b4 :: b5 :: b6 :: b7 :: r)) with [t; c; k0; k1; b4; b5; b6; b7].
  destruct (enc_dec_8 t c k0 k1 b4 b5 b6 b7 B B0 B1 B2 B3 B4 B5 B6) as [WF TB]. cbv zeta in WF, TB.
  split; [exact WF|]. split; [reflexivity|].
  eexists. exists t, c. split; [exact TB|]. split; [reflexivity|]. split; [reflexivity|].
  split.
  { apply agree_of_masked; [|reflexivity].
    unfold icmp6_keep_mask.
    repeat match goal with |- context [if ?b then _ else _] => destruct b end; reflexivity. }
  split.
  - destruct (icmp6_dec_enc _ WF) as (e & TB' & _ & _ & _ & F).
    rewrite TB in TB'. apply Some_inj in TB'. rewrite TB'.
    specialize (F [] ltac:(rewrite len_nil; lia)). rewrite app_nil_r in F. exact F.
  - apply icmp6_read_8.
Qed.

(* slices longer than u32::MAX are rejected by from_slice whatever they contain *)
Lemma icmp6_from_slice_too_long s : 4294967295 < len s -> icmp6_from_slice s = Err ELen.
Proof.
  intros H. unfold icmp6_from_slice, Icmpv6Slice.from_slice, Icmpv6Slice.MIN_LEN, Icmpv6Slice.MAX_ICMPV6_BYTE_LEN.
  replace (len s <? 8) with false by (symmetry; apply N.ltb_ge; lia).
  apply N.ltb_lt in H. rewrite H. reflexivity.
Qed.

(* the encoder against the RFC 4443 / 4861 table of CtlMsg/Spec.v *)
Lemma icmp6_from_slice_spec bs h rest : icmp6_from_slice bs = Ok (h, rest) ->
  icmp6 bs = CtlMsg.Spec.Ok (icmp6_type h, rest).
Proof.
  intros H. rewrite <- icmp6_eq. unfold icmp6_from_slice in H. unfold Icmpv6Slice.view.
  destruct (Icmpv6Slice.from_slice bs) as [sl| |] eqn:FS; try discriminate.
  assert (sl = bs /\ (len bs <? 8) = false) as [-> E8].
  { unfold Icmpv6Slice.from_slice, Icmpv6Slice.MIN_LEN in FS. destruct (len bs <? 8); [discriminate|].
    destruct (_ <? len bs); [discriminate|]. split; congruence. }
  unfold icmp6_slice_header in H.
  destruct (Icmpv6Slice.icmp_type bs) as [ty| |]; try discriminate.
  destruct (Icmpv6Slice.checksum bs); [|discriminate].
  rewrite (icmp6_payload_rest bs E8).
  unfold icmp6_header_len in H. cbn [icmp6_type] in H.
  replace (icmp6_type_header_len ty) with 8 in H by (destruct ty; reflexivity).
  unfold slice_from in H. apply N.ltb_ge in E8.
  replace (8 <=? len bs) with true in H by (symmetry; apply N.leb_le; lia).
  apply Ok_inj in H. apply pair_equal_spec in H. destruct H as [<- <-]. reflexivity.
Qed.

Theorem icmp6_spec h : wf_icmp6 h = true ->
  exists e, icmp6_to_bytes h = Some e /\ icmp6 e = CtlMsg.Spec.Ok (icmp6_type h, []).
Proof.
  intros W. destruct (icmp6_dec_enc h W) as (e & TB & L & _ & _ & F).
  exists e. split; [exact TB|].
  specialize (F [] ltac:(rewrite len_nil; lia)). rewrite app_nil_r in F.
  apply icmp6_from_slice_spec. exact F.
Qed.
