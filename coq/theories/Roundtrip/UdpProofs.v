(* Roundtrip/UdpProofs.v -- C08 for UdpHeader *)
From EP Require Import Base.Bytes Roundtrip.Common Roundtrip.CommonProofs Roundtrip.Udp.
From Coq Require Import ZArith Lia ZifyN.
Local Open Scope N_scope.

Lemma wf_udp_facts h : wf_udp h = true ->
  udp_source_port h < 65536 /\ udp_destination_port h < 65536 /\ udp_length h < 65536 /\ udp_checksum h < 65536.
Proof. unfold wf_udp. intros W. bsplit W. repeat split; assumption. Qed.

Lemma len_udp_to_bytes h : len (udp_to_bytes h) = 8.
Proof. reflexivity. Qed.

Theorem udp_ser_agree h out :
  udp_write out h = out ++ udp_to_bytes h /\ len (udp_to_bytes h) = udp_header_len h.
Proof. split; reflexivity. Qed.

Lemma udp_to_header_8 b0 b1 b2 b3 b4 b5 b6 b7 :
  udp_to_header [b0; b1; b2; b3; b4; b5; b6; b7] =
  Ok {| udp_source_port := be16 b0 b1; udp_destination_port := be16 b2 b3;
        udp_length := be16 b4 b5; udp_checksum := be16 b6 b7 |}.
Proof. reflexivity. Qed.

Lemma udp_to_header_enc h : wf_udp h = true -> udp_to_header (udp_to_bytes h) = Ok h.
Proof.
  intros W. destruct (wf_udp_facts h W) as (R1 & R2 & R3 & R4).
  unfold udp_to_bytes, u16_to_be. cbn [app]. rewrite udp_to_header_8.
  rewrite !u16_be_roundtrip by assumption. destruct h. reflexivity.
Qed.

Lemma udp_from_bytes_enc h : wf_udp h = true -> udp_from_bytes (udp_to_bytes h) = Ok h.
Proof.
  intros W. destruct (wf_udp_facts h W) as (R1 & R2 & R3 & R4).
  unfold udp_to_bytes, u16_to_be. cbn [app]. unfold udp_from_bytes.
  rewrite !u16_be_roundtrip by assumption. destruct h. reflexivity.
Qed.

Theorem udp_dec_enc h rest : wf_udp h = true ->
  udp_from_slice (udp_to_bytes h ++ rest) = Ok (h, rest) /\ udp_read (udp_to_bytes h ++ rest) = Ok (h, rest).
Proof.
  intros W. split.
  - unfold udp_from_slice, udp_slice_from_slice, slice_from. rewrite len_app, len_udp_to_bytes.
    replace (8 + len rest <? 8) with false by (symmetry; apply N.ltb_ge; lia).
    replace (8 <=? 8 + len rest) with true by (symmetry; apply N.leb_le; lia).
    rewrite (take_app_len (udp_to_bytes h)) by reflexivity.
    rewrite (drop_app_len (udp_to_bytes h)) by reflexivity.
    rewrite (udp_to_header_enc h W). reflexivity.
  - unfold udp_read, read_exact. rewrite len_app, len_udp_to_bytes.
    replace (8 + len rest <? 8) with false by (symmetry; apply N.ltb_ge; lia).
    rewrite (take_app_len (udp_to_bytes h)) by reflexivity.
    rewrite (drop_app_len (udp_to_bytes h)) by reflexivity.
    rewrite (udp_from_bytes_enc h W). reflexivity.
Qed.

Theorem udp_enc_dec bs h rest : bytes_ok bs -> udp_from_slice bs = Ok (h, rest) ->
  wf_udp h = true /\ bs = take 8 bs ++ rest
  /\ udp_to_bytes h = take 8 bs
  /\ agree udp_keep_mask (udp_to_bytes h) (take 8 bs)
  /\ udp_from_slice (udp_to_bytes h) = Ok (h, [])
  /\ udp_read bs = Ok (h, rest).
Proof.
  intros OK H. unfold udp_from_slice, udp_slice_from_slice in H.
  destruct (len bs <? 8) eqn:L; [discriminate|].
  destruct bs as [|b0 [|b1 [|b2 [|b3 [|b4 [|b5 [|b6 [|b7 r]]]]]]]]; try (vm_compute in L; discriminate).
  clear L. change (take 8 (b0 :: b1 :: b2 :: b3 :: b4 :: b5 :: b6 :: b7 :: r)) with [b0; b1; b2; b3; b4; b5; b6; b7] in *.
  unfold slice_from in H.
  match type of H with context [8 <=? len ?s] =>
    replace (8 <=? len s) with true in H by (symmetry; apply N.leb_le; rewrite !len_cons; lia);
    change (drop 8 s) with r in H end.
  rewrite udp_to_header_8 in H.
  apply Ok_inj in H. apply pair_equal_spec in H. destruct H as [Hh Hrest].
  pose proof OK as OK'. bytes_ok_split OK'.
  assert (WF : wf_udp h = true).
  { rewrite <- Hh. unfold wf_udp. cbn [udp_source_port udp_destination_port udp_length udp_checksum].
    pose proof (be16_bound b0 b1 B B0) as X0. pose proof (be16_bound b2 b3 B1 B2) as X1.
    pose proof (be16_bound b4 b5 B3 B4) as X2. pose proof (be16_bound b6 b7 B5 B6) as X3.
    apply N.ltb_lt in X0, X1, X2, X3. rewrite X0, X1, X2, X3. reflexivity. }
  assert (E : udp_to_bytes h = [b0; b1; b2; b3; b4; b5; b6; b7]).
  { rewrite <- Hh. unfold udp_to_bytes. cbn [udp_source_port udp_destination_port udp_length udp_checksum].
    rewrite !u16_to_be_be16 by assumption. reflexivity. }
  split; [exact WF|]. split; [rewrite <- Hrest; reflexivity|].
  split; [exact E|]. split.
  - rewrite E. apply agree_of_masked; [reflexivity|].
    unfold udp_keep_mask. change (ones 8) with [255; 255; 255; 255; 255; 255; 255; 255].
    cbn [masked]. rewrite !land_255 by assumption. reflexivity.
  - split.
    + pose proof (udp_dec_enc h [] WF) as [E' _]. rewrite app_nil_r in E'. exact E'.
    + rewrite <- Hrest.
      pose proof (udp_dec_enc h r WF) as [_ E']. rewrite E in E'. exact E'.
Qed.

(* RFC 768: source port, destination port, length, checksum, 16 bits each, big endian *)
Theorem udp_spec h : wf_udp h = true ->
  udp_to_bytes h = udp_layout (udp_source_port h) (udp_destination_port h) (udp_length h) (udp_checksum h).
Proof.
  intros W. destruct (wf_udp_facts h W) as (R1 & R2 & R3 & R4).
  unfold udp_to_bytes, udp_layout, u16_to_be. cbn [app].
  rewrite !(N.mod_small (_ / 256) 256) by (apply N.div_lt_upper_bound; lia). reflexivity.
Qed.
