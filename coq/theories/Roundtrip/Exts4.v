(* Roundtrip/Exts4.v -- model of etherparse Ipv4Extensions / Ipv4ExtensionsSlice
   (net/ipv4_exts.rs, net/ipv4_exts_slice.rs) on top of the IpAuthHeader model of Auth.v:
   from_slice, read, write (write_internal), header_len.  The chain bookkeeping
   (set_next_headers / next_header / write agreement) is property C12 (ExtChain/); here only the
   encode/decode round trip of the one optional header.  Prefix x4_. *)
From EP Require Import Base.Bytes Roundtrip.Common Roundtrip.Auth.
Local Open Scope N_scope.

Record Ipv4Extensions := { x4_auth : option IpAuthHeader }.

Definition X4_AUTH : N := 51.    (* ip_number::AUTH *)

Definition x4_header_len (e : Ipv4Extensions) : N :=
  match x4_auth e with Some h => ah_header_len h | None => 0 end.

(* write / write_internal to a Vec; EContent 0 = ExtNotReferenced{missing_ext: AUTH} *)
Definition x4_write (out : bytes) (e : Ipv4Extensions) (start_ip_number : N) : res bytes :=
  match x4_auth e with
  | Some h =>
    if X4_AUTH =? start_ip_number
    then match ah_to_bytes h with Some b => Ok (out ++ b) | None => Err EPanic end
    else Err (EContent 0)
  | None => Ok out
  end.

(* Ipv4ExtensionsSlice::from_slice: (Option<IpAuthHeaderSlice>, next, rest) *)
Definition x4_slice_from_slice (start_ip_number : N) (s : bytes) : res (option bytes * N * bytes) :=
  if X4_AUTH =? start_ip_number then
    match ah_slice_from_slice s with
    | Err e => Err e
    | Ok hs =>
      match slice_from s (len hs) with
      | None => Err EPanic
      | Some rest =>
        match rd hs 0 with                     (* header.next_header(): get_unchecked(0) *)
        | None => Err EOOB
        | Some nh => Ok (Some hs, nh, rest)
        end
      end
    end
  else Ok (None, start_ip_number, s).

(* Ipv4Extensions::from_slice = Ipv4ExtensionsSlice::from_slice(..).map(|v| (v.0.to_header(), v.1, v.2)) *)
Definition x4_from_slice (start_ip_number : N) (s : bytes) : res (Ipv4Extensions * N * bytes) :=
  match x4_slice_from_slice start_ip_number s with
  | Err e => Err e
  | Ok (None, n, rest) => Ok ({| x4_auth := None |}, n, rest)
  | Ok (Some hs, n, rest) =>
    match ah_to_header hs with
    | Err e => Err e
    | Ok h => Ok ({| x4_auth := Some h |}, n, rest)
    end
  end.

(* Ipv4Extensions::read *)
Definition x4_read (r : bytes) (start_ip_number : N) : res (Ipv4Extensions * N * bytes) :=
  if X4_AUTH =? start_ip_number then
    match ah_read r with
    | Err e => Err e
    | Ok (h, r1) => Ok ({| x4_auth := Some h |}, ah_next_header h, r1)
    end
  else Ok ({| x4_auth := None |}, start_ip_number, r).

Definition x4_eqb (a b : Ipv4Extensions) : bool :=
  match x4_auth a, x4_auth b with
  | Some x, Some y => ah_eqb x y
  | None, None => true
  | _, _ => false
  end.

Definition x4_norm (e : Ipv4Extensions) : Ipv4Extensions :=
  {| x4_auth := match x4_auth e with Some h => Some (ah_norm h) | None => None end |}.

(* well-formed: the header is; consistent with the start number: the authentication header is
   present exactly when the preceding header announces it *)
Definition wf_x4 (e : Ipv4Extensions) : bool :=
  match x4_auth e with Some h => wf_ah h | None => true end.
Definition x4_linked (start_ip_number : N) (e : Ipv4Extensions) : bool :=
  match x4_auth e with Some _ => X4_AUTH =? start_ip_number | None => negb (X4_AUTH =? start_ip_number) end.
(* the number that follows the extensions *)
Definition x4_final (start_ip_number : N) (e : Ipv4Extensions) : N :=
  match x4_auth e with Some h => ah_next_header h | None => start_ip_number end.
