(* Roundtrip/RawExtProofs.v -- C08 for Ipv6RawExtHeader *)
From EP Require Import Base.Bytes Roundtrip.Common Roundtrip.CommonProofs Roundtrip.RawExt.
From Coq Require Import ZArith Lia ZifyN.
Local Open Scope N_scope.

Lemma rx_wf_facts h : wf_rx h = true ->
  rx_next_header h < 256 /\ rx_header_length h < 256 /\ len (rx_payload_buffer h) = 2046
  /\ bytes_ok (rx_payload_buffer h).
Proof. unfold wf_rx. intros W. bsplit W. repeat split; try assumption. apply bytes_okb_spec; assumption. Qed.

Definition rx_pl (h : Ipv6RawExtHeader) : bytes := take (6 + rx_header_length h * 8) (rx_payload_buffer h).

Lemma len_rx_pl h : wf_rx h = true -> len (rx_pl h) = 6 + rx_header_length h * 8.
Proof. intros W. destruct (rx_wf_facts h W) as (_ & L & BL & _). unfold rx_pl. rewrite len_take, BL. lia. Qed.

Lemma rx_payload_wf h : wf_rx h = true -> rx_payload h = Some (rx_pl h).
Proof.
  intros W. destruct (rx_wf_facts h W) as (_ & L & BL & _).
  unfold rx_payload, slice_range. rewrite BL.
  replace (0 <=? 6 + rx_header_length h * 8) with true by (symmetry; apply N.leb_le; lia).
  replace (6 + rx_header_length h * 8 <=? 2046) with true by (symmetry; apply N.leb_le; lia).
  cbn [andb]. rewrite N.sub_0_r, drop_0. reflexivity.
Qed.

Definition rx_enc (h : Ipv6RawExtHeader) : bytes := [rx_next_header h; rx_header_length h] ++ rx_pl h.

Lemma rx_to_bytes_wf h : wf_rx h = true -> rx_to_bytes h = Some (rx_enc h).
Proof.
  intros W. destruct (rx_wf_facts h W) as (_ & L & BL & _).
  unfold rx_to_bytes. rewrite (rx_payload_wf h W), (len_rx_pl h W). unfold RX_MAX_LEN.
  replace (2 + (6 + rx_header_length h * 8) <=? 2048) with true by (symmetry; apply N.leb_le; lia). reflexivity.
Qed.

Theorem rx_ser_agree h out : wf_rx h = true ->
  exists e, rx_to_bytes h = Some e /\ rx_write out h = Some (out ++ e) /\ len e = rx_header_len h.
Proof.
  intros W. exists (rx_enc h). split; [apply rx_to_bytes_wf; assumption|]. split.
  - unfold rx_write. rewrite (rx_payload_wf h W). reflexivity.
  - unfold rx_enc. rewrite len_app, (len_rx_pl h W). reflexivity.
Qed.

Lemma rx_new_raw_aligned nh p k : len p = 6 + k * 8 -> k < 256 ->
  rx_new_raw nh p = Some {| rx_next_header := nh; rx_header_length := k;
                            rx_payload_buffer := p ++ zeros (2046 - (6 + k * 8)) |}.
Proof.
  intros L K. unfold rx_new_raw, RX_MAX_PAYLOAD_LEN. rewrite L.
  replace (6 + k * 8 <? 6) with false by (symmetry; apply N.ltb_ge; lia).
  replace (2046 <? 6 + k * 8) with false by (symmetry; apply N.ltb_ge; lia).
  replace (6 + k * 8 + 2) with ((k + 1) * 8) by lia.
  rewrite N.mod_mul by lia. change (0 =? 0) with true. cbn [negb].
  replace (6 + k * 8 - 6) with (k * 8) by lia.
  rewrite N.div_mul by lia. unfold as_u8. rewrite N.mod_small by lia. reflexivity.
Qed.

Theorem rx_dec_enc h rest : wf_rx h = true ->
  exists e, rx_to_bytes h = Some e /\ rx_from_slice (e ++ rest) = Ok (rx_norm h, rest)
            /\ rx_read (e ++ rest) = Ok (rx_norm h, rest) /\ rx_eqb (rx_norm h) h = true.
Proof.
  intros W. destruct (rx_wf_facts h W) as (R1 & L & BL & BO).
  set (P := rx_pl h). assert (LP : len P = 6 + rx_header_length h * 8) by (apply len_rx_pl; assumption).
  exists (rx_enc h). split; [apply rx_to_bytes_wf; assumption|].
  unfold rx_enc. fold P. cbn [app].
  assert (HDR : rx_to_header (rx_next_header h :: rx_header_length h :: P) = Ok (rx_norm h)).
  { unfold rx_to_header. change (rd (_ :: _ :: P) 0) with (Some (rx_next_header h)). cbv iota beta.
    rewrite !len_cons.
    replace (1 + (1 + len P) <? 2) with false by (symmetry; apply N.ltb_ge; lia).
    change (drop 2 (_ :: _ :: P)) with P.
    rewrite (rx_new_raw_aligned _ P (rx_header_length h) LP L). reflexivity. }
  split; [|split].
  - unfold rx_from_slice, rx_slice_from_slice.
    change (rd (_ :: _ :: P ++ rest) 1) with (Some (rx_header_length h)). cbv iota beta zeta.
    rewrite !len_cons, len_app, LP.
    replace (1 + (1 + (6 + rx_header_length h * 8 + len rest)) <? 8) with false by (symmetry; apply N.ltb_ge; lia).
    replace (1 + (1 + (6 + rx_header_length h * 8 + len rest)) <? (rx_header_length h + 1) * 8) with false
      by (symmetry; apply N.ltb_ge; lia).
    assert (TK : take ((rx_header_length h + 1) * 8) (rx_next_header h :: rx_header_length h :: P ++ rest)
                 = rx_next_header h :: rx_header_length h :: P).
    { change (rx_next_header h :: rx_header_length h :: P ++ rest) with ((rx_next_header h :: rx_header_length h :: P) ++ rest).
      apply take_app_len. rewrite !len_cons, LP. lia. }
    rewrite TK, HDR. unfold slice_from. rewrite !len_cons, len_app, LP.
    replace (1 + (1 + (6 + rx_header_length h * 8)) <=? 1 + (1 + (6 + rx_header_length h * 8 + len rest))) with true
      by (symmetry; apply N.leb_le; lia).
    change (rx_next_header h :: rx_header_length h :: P ++ rest) with ((rx_next_header h :: rx_header_length h :: P) ++ rest).
    rewrite drop_app_len by (rewrite !len_cons, LP; reflexivity). reflexivity.
  - unfold rx_read.
    change (rx_next_header h :: rx_header_length h :: P ++ rest) with ([rx_next_header h; rx_header_length h] ++ P ++ rest).
    unfold read_exact at 1. rewrite len_app.
    change (len [rx_next_header h; rx_header_length h]) with 2.
    replace (2 + len (P ++ rest) <? 2) with false by (symmetry; apply N.ltb_ge; lia).
    rewrite take_app_len, drop_app_len by reflexivity. cbv iota beta zeta. unfold RX_MAX_PAYLOAD_LEN.
    replace (2046 <? rx_header_length h * 8 + 6) with false by (symmetry; apply N.ltb_ge; lia).
    unfold read_exact. rewrite len_app, LP.
    replace (6 + rx_header_length h * 8 + len rest <? rx_header_length h * 8 + 6) with false by (symmetry; apply N.ltb_ge; lia).
    rewrite (take_app_len P rest) by (rewrite LP; lia).
    rewrite (drop_app_len P rest) by (rewrite LP; lia).
    unfold rx_norm. fold (rx_pl h). fold P.
    replace (rx_header_length h * 8 + 6) with (6 + rx_header_length h * 8) by lia. reflexivity.
  - unfold rx_eqb, rx_norm. cbn [rx_next_header]. rewrite N.eqb_refl. cbn [andb].
    rewrite (rx_payload_wf h W). unfold rx_payload, slice_range. cbn [rx_header_length rx_payload_buffer].
    fold (rx_pl h). fold P. rewrite len_app, LP, len_zeros.
    replace (0 <=? 6 + rx_header_length h * 8) with true by (symmetry; apply N.leb_le; lia).
    replace (6 + rx_header_length h * 8 <=? 6 + rx_header_length h * 8 + (2046 - (6 + rx_header_length h * 8))) with true
      by (symmetry; apply N.leb_le; lia).
    cbn [andb]. rewrite N.sub_0_r, drop_0, (take_app_len P) by (symmetry; exact LP). apply bytes_eqb_refl.
Qed.

(* no reserved bits: re-encoding reproduces the consumed bytes exactly *)
Theorem rx_enc_dec bs h rest : bytes_ok bs -> rx_from_slice bs = Ok (h, rest) ->
  wf_rx h = true /\ rx_norm h = h /\
  exists e, rx_to_bytes h = Some e /\ bs = e ++ rest /\ len e = rx_header_len h
            /\ rx_from_slice e = Ok (h, []).
Proof.
  intros OK H. unfold rx_from_slice, rx_slice_from_slice in H.
  destruct (len bs <? 8) eqn:L; [discriminate|]. apply N.ltb_ge in L.
  destruct bs as [|b0 [|b1 r]]; try (rewrite ?len_cons, ?len_nil in L; lia).
  match type of H with context [rd ?s 1] => change (rd s 1) with (Some b1) in H end.
  cbv iota beta zeta in H.
  set (bs := b0 :: b1 :: r) in *.
  destruct (len bs <? (b1 + 1) * 8) eqn:L2; [discriminate|]. apply N.ltb_ge in L2.
  pose proof OK as OK'. unfold bs in OK'. bytes_ok_split OK'.
  set (P := take (6 + b1 * 8) r).
  assert (LR : 6 + b1 * 8 <= len r) by (unfold bs in L2; rewrite !len_cons in L2; lia).
  assert (LP : len P = 6 + b1 * 8) by (unfold P; rewrite len_take; lia).
  assert (TK : take ((b1 + 1) * 8) bs = b0 :: b1 :: P).
  { change bs with ([b0; b1] ++ r). change (b0 :: b1 :: P) with ([b0; b1] ++ P).
    apply take_app_more. change (len [b0; b1]) with 2. lia. }
  assert (BP : bytes_ok P) by (unfold P; apply bytes_ok_take; exact OK').
  rewrite TK in H. unfold slice_from in H.
  replace (len (b0 :: b1 :: P)) with ((b1 + 1) * 8) in H by (rewrite !len_cons, LP; lia).
  replace ((b1 + 1) * 8 <=? len bs) with true in H by (symmetry; apply N.leb_le; exact L2).
  unfold rx_to_header in H. change (rd (b0 :: b1 :: P) 0) with (Some b0) in H. cbv iota beta in H.
  rewrite !len_cons in H.
  replace (1 + (1 + len P) <? 2) with false in H by (symmetry; apply N.ltb_ge; lia).
  change (drop 2 (b0 :: b1 :: P)) with P in H.
  rewrite (rx_new_raw_aligned b0 P b1 LP B0) in H.
  injection H as Hh Hrest.
  assert (WF : wf_rx h = true).
  { rewrite <- Hh. unfold wf_rx. cbn [rx_next_header rx_header_length rx_payload_buffer].
    apply N.ltb_lt in B, B0. rewrite B, B0. cbn [andb]. apply N.ltb_lt in B0.
    rewrite len_app, LP, len_zeros.
    replace (6 + b1 * 8 + (2046 - (6 + b1 * 8)) =? 2046) with true by (symmetry; apply N.eqb_eq; lia).
    cbn [andb]. apply bytes_okb_spec, bytes_ok_app. split; [exact BP|apply bytes_ok_zeros]. }
  assert (NM : rx_norm h = h).
  { rewrite <- Hh. unfold rx_norm. cbn [rx_next_header rx_header_length rx_payload_buffer].
    rewrite (take_app_len P) by (symmetry; exact LP). reflexivity. }
  assert (PL : rx_pl h = P).
  { rewrite <- Hh. unfold rx_pl. cbn [rx_header_length rx_payload_buffer]. apply take_app_len. symmetry. exact LP. }
  split; [exact WF|]. split; [exact NM|].
  destruct (rx_dec_enc h [] WF) as (e & E1 & E2 & _ & _).
  exists e. split; [exact E1|].
  rewrite app_nil_r, NM in E2.
  rewrite (rx_to_bytes_wf h WF) in E1. apply Some_inj in E1.
  assert (EE : e = b0 :: b1 :: P).
  { rewrite <- E1. unfold rx_enc. rewrite PL, <- Hh. reflexivity. }
  split; [|split; [|exact E2]].
  - rewrite EE, <- Hrest. rewrite <- TK. symmetry. apply take_drop.
  - rewrite EE, <- Hh. unfold rx_header_len. cbn [rx_header_length]. rewrite !len_cons, LP. lia.
Qed.

From EP Require Import Roundtrip.Spec Roundtrip.SpecLinkNet.

Theorem rx_spec h : wf_rx h = true ->
  rx_to_bytes h = Some (rawext_layout (rx_next_header h) (rx_pl h)).
Proof.
  intros W. rewrite (rx_to_bytes_wf h W). f_equal.
  unfold rawext_layout, rx_enc. rewrite (len_rx_pl h W).
  replace ((2 + (6 + rx_header_length h * 8)) / 8 - 1) with (rx_header_length h); [reflexivity|].
  replace (2 + (6 + rx_header_length h * 8)) with ((rx_header_length h + 1) * 8) by lia.
  rewrite N.div_mul by lia. lia.
Qed.

Lemma rx_new_raw_wf nh p h : nh < 256 -> bytes_ok p ->
  rx_new_raw nh p = Some h -> wf_rx h = true /\ rx_pl h = p /\ rx_norm h = h.
Proof.
  intros A OK H. unfold rx_new_raw, RX_MAX_PAYLOAD_LEN in H.
  destruct (len p <? 6) eqn:L6; [discriminate|]. apply N.ltb_ge in L6.
  destruct (2046 <? len p) eqn:L; [discriminate|]. apply N.ltb_ge in L.
  destruct ((len p + 2) mod 8 =? 0) eqn:M; [|discriminate]. cbn [negb] in H. apply N.eqb_eq in M.
  apply Some_inj in H.
  assert (D : len p = 6 + (len p - 6) / 8 * 8).
  { pose proof (N.div_mod (len p + 2) 8 ltac:(lia)) as X. rewrite M in X.
    assert (Y : (len p + 2) / 8 >= 1) by lia.
    replace (len p - 6) with (((len p + 2) / 8 - 1) * 8) by lia.
    rewrite N.div_mul by lia. lia. }
  assert (K : (len p - 6) / 8 < 256) by lia.
  assert (U : as_u8 ((len p - 6) / 8) = (len p - 6) / 8) by (unfold as_u8; apply N.mod_small; lia).
  rewrite U in H. subst h. split; [|split].
  - unfold wf_rx. cbn [rx_next_header rx_header_length rx_payload_buffer].
    apply N.ltb_lt in A, K. rewrite A, K. cbn [andb].
    rewrite len_app, len_zeros.
    replace (len p + (2046 - len p) =? 2046) with true by (symmetry; apply N.eqb_eq; lia).
    cbn [andb]. apply bytes_okb_spec, bytes_ok_app. split; [assumption|apply bytes_ok_zeros].
  - unfold rx_pl. cbn [rx_header_length rx_payload_buffer]. apply take_app_len. symmetry. exact D.
  - unfold rx_norm. cbn [rx_next_header rx_header_length rx_payload_buffer].
    rewrite <- D. rewrite (take_app_len p) by reflexivity. reflexivity.
Qed.

(* set_payload keeps the value well-formed and may leave stale bytes behind the payload *)
Lemma rx_set_payload_wf h p h' : wf_rx h = true -> bytes_ok p ->
  rx_set_payload h p = Some h' -> wf_rx h' = true /\ rx_pl h' = p.
Proof.
  intros W OK H. destruct (rx_wf_facts h W) as (A & _ & BL & BO).
  unfold rx_set_payload, RX_MAX_PAYLOAD_LEN in H.
  destruct (len p <? 6) eqn:L6; [discriminate|]. apply N.ltb_ge in L6.
  destruct (2046 <? len p) eqn:L; [discriminate|]. apply N.ltb_ge in L.
  destruct ((len p + 2) mod 8 =? 0) eqn:M; [|discriminate]. cbn [negb] in H. apply N.eqb_eq in M.
  destruct (len (rx_payload_buffer h) <? len p); [discriminate|].
  apply Some_inj in H.
  assert (D : len p = 6 + (len p - 6) / 8 * 8).
  { pose proof (N.div_mod (len p + 2) 8 ltac:(lia)) as X. rewrite M in X.
    assert (Y : (len p + 2) / 8 >= 1) by lia.
    replace (len p - 6) with (((len p + 2) / 8 - 1) * 8) by lia.
    rewrite N.div_mul by lia. lia. }
  assert (K : (len p - 6) / 8 < 256) by lia.
  assert (U : as_u8 ((len p - 6) / 8) = (len p - 6) / 8) by (unfold as_u8; apply N.mod_small; lia).
  rewrite U in H. subst h'. split.
  - unfold wf_rx. cbn [rx_next_header rx_header_length rx_payload_buffer].
    apply N.ltb_lt in A, K. rewrite A, K. cbn [andb].
    rewrite len_app, len_drop, BL.
    replace (len p + (2046 - len p) =? 2046) with true by (symmetry; apply N.eqb_eq; lia).
    cbn [andb]. apply bytes_okb_spec, bytes_ok_app. split; [assumption|apply bytes_ok_drop; assumption].
  - unfold rx_pl. cbn [rx_header_length rx_payload_buffer]. apply take_app_len. symmetry. exact D.
Qed.
