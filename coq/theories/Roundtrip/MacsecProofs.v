(* Roundtrip/MacsecProofs.v -- C08 for MacsecHeader *)
From EP Require Import Base.Bytes Roundtrip.Common Roundtrip.CommonProofs Roundtrip.Macsec.
From Coq Require Import ZArith Lia ZifyN.
Local Open Scope N_scope.

(* ---- byte level facts (complete sweeps) ---- *)
Definition mac_PT (an : N) : bool :=
  all_bool (fun c => all_bool (fun e => all_bool (fun scb => all_bool (fun sc => all_bool (fun es =>
    let t := mac_tci_of an c e scb sc es in
    (t <? 128) && Bool.eqb (nz (band t 128)) false && Bool.eqb (band t 12 =? 0) (negb c && negb e)
    && Bool.eqb (nz (band t 32)) sc && Bool.eqb (nz (band t 64)) es && Bool.eqb (nz (band t 16)) scb
    && Bool.eqb (nz (band t 8)) e && Bool.eqb (nz (band t 4)) c && (band t 3 =? an)))))).
Lemma mac_sweepPT : all_below 4 mac_PT = true.
Proof. vm_compute. reflexivity. Qed.

Lemma mac_tci_facts an c e scb sc es : an < 4 ->
  let t := mac_tci_of an c e scb sc es in
  t < 128 /\ nz (band t 128) = false /\ (band t 12 =? 0) = (negb c && negb e)%bool
  /\ nz (band t 32) = sc /\ nz (band t 64) = es /\ nz (band t 16) = scb
  /\ nz (band t 8) = e /\ nz (band t 4) = c /\ band t 3 = an.
Proof.
  intros H. pose proof (all_below_spec 4 mac_PT mac_sweepPT an ltac:(lia)) as S. unfold mac_PT in S.
  pose proof (all_bool_spec _ (all_bool_spec _ (all_bool_spec _ (all_bool_spec _ (all_bool_spec _ S c) e) scb) sc) es) as S'.
  cbv beta zeta in S'. bsplit S'. cbv zeta. repeat split; assumption.
Qed.

Definition mac_PS (sl : N) : bool := (band sl 63 =? sl).
Lemma mac_sweepPS : all_below 64 mac_PS = true.
Proof. vm_compute. reflexivity. Qed.
Lemma mac_sl_fact sl : sl < 64 -> band sl 63 = sl.
Proof. intros H. pose proof (all_below_spec 64 mac_PS mac_sweepPS sl ltac:(lia)) as S. now apply N.eqb_eq in S. Qed.

(* decode side: every first byte with the version bit clear *)
Definition mac_ptype_of (e c : bool) (et : N) : MacsecPType :=
  if e then (if c then MacEncrypted else MacEncryptedUnmodified)
  else if c then MacModified else MacUnmodified et.
Definition mac_Q0 (b : N) : bool :=
  if nz (band b 128) then true else
  let e := nz (band b 8) in let c := nz (band b 4) in
  let p := mac_ptype_of e c 0 in
  (mac_tci_of (band b 3) (mac_userdata_changed p) (mac_encrypted p) (nz (band b 16)) (nz (band b 32)) (nz (band b 64)) =? b)
  && Bool.eqb (band b 12 =? 0) (negb e && negb c) && (band b 3 <? 4).
Lemma mac_sweepQ0 : all_below 256 mac_Q0 = true.
Proof. vm_compute. reflexivity. Qed.
Lemma mac_Q0_facts b : b < 256 -> nz (band b 128) = false ->
  let e := nz (band b 8) in let c := nz (band b 4) in
  mac_tci_of (band b 3) (mac_userdata_changed (mac_ptype_of e c 0)) (mac_encrypted (mac_ptype_of e c 0))
             (nz (band b 16)) (nz (band b 32)) (nz (band b 64)) = b
  /\ (band b 12 =? 0) = (negb e && negb c)%bool /\ band b 3 < 4.
Proof.
  intros H V. pose proof (all_byte mac_Q0 mac_sweepQ0 b H) as S. unfold mac_Q0 in S. rewrite V in S.
  cbv zeta in S. bsplit S. cbv zeta. repeat split; assumption.
Qed.

Definition mac_Q1 (b : N) : bool := (band b 63 <? 64) && (band (band b 63) 63 =? band b 63).
Lemma mac_sweepQ1 : all_below 256 mac_Q1 = true.
Proof. vm_compute. reflexivity. Qed.
Lemma mac_Q1_facts b : b < 256 -> band b 63 < 64 /\ band (band b 63) 63 = band b 63.
Proof. intros H. pose proof (all_byte mac_Q1 mac_sweepQ1 b H) as S. unfold mac_Q1 in S. bsplit S. split; assumption. Qed.

(* ---- u64 big endian ---- *)
Lemma to_be8_explicit s : to_be 8 s =
  [(s / 256 / 256 / 256 / 256 / 256 / 256 / 256) mod 256; (s / 256 / 256 / 256 / 256 / 256 / 256) mod 256;
   (s / 256 / 256 / 256 / 256 / 256) mod 256; (s / 256 / 256 / 256 / 256) mod 256;
   (s / 256 / 256 / 256) mod 256; (s / 256 / 256) mod 256; (s / 256) mod 256; s mod 256].
Proof. reflexivity. Qed.
Lemma pow256_8 : 256 ^ N.of_nat 8 = 18446744073709551616.
Proof. vm_compute. reflexivity. Qed.
Lemma of_be8_roundtrip s : s < 18446744073709551616 -> of_be (to_be 8 s) = s.
Proof. intros H. apply of_be_to_be. rewrite pow256_8. exact H. Qed.
Lemma of_be8_bound a b c d e f g h : bytes_ok [a; b; c; d; e; f; g; h] ->
  of_be [a; b; c; d; e; f; g; h] < 18446744073709551616.
Proof. intros H. pose proof (of_be_bound _ H) as X. change (len [a; b; c; d; e; f; g; h]) with (N.of_nat 8) in X.
  rewrite pow256_8 in X. exact X. Qed.
Lemma to_be8_of_be a b c d e f g h : bytes_ok [a; b; c; d; e; f; g; h] ->
  to_be 8 (of_be [a; b; c; d; e; f; g; h]) = [a; b; c; d; e; f; g; h].
Proof. intros H. exact (to_be_of_be _ H). Qed.

(* ---- encoder ---- *)
Definition mac_first (h : MacsecHeader) : bytes :=
  [mac_tci_an h; band (mac_short_len h) 63] ++ u32_to_be (mac_packet_nr h).
Definition mac_more (h : MacsecHeader) : bytes :=
  (match mac_sci h with Some s => to_be 8 s | None => [] end)
  ++ (match mac_ptype h with MacUnmodified e => u16_to_be e | _ => [] end).
Definition mac_enc (h : MacsecHeader) : bytes := mac_first h ++ mac_more h.

Lemma mac_to_bytes_enc h : mac_to_bytes h = Some (mac_enc h).
Proof. destruct h as [p es scb an sl pn sci]. destruct p, sci; reflexivity. Qed.

Lemma len_mac_first h : len (mac_first h) = 6.
Proof. reflexivity. Qed.
Lemma len_mac_more h : len (mac_more h) = mac_header_len h - 6.
Proof. destruct h as [p es scb an sl pn sci]. destruct p, sci; reflexivity. Qed.
Lemma len_mac_enc h : len (mac_enc h) = mac_header_len h.
Proof. destruct h as [p es scb an sl pn sci]. destruct p, sci; reflexivity. Qed.

Theorem mac_ser_agree h out :
  exists e, mac_to_bytes h = Some e /\ mac_write out h = Some (out ++ e) /\ len e = mac_header_len h.
Proof.
  exists (mac_enc h). split; [apply mac_to_bytes_enc|]. split.
  - unfold mac_write. rewrite mac_to_bytes_enc. reflexivity.
  - apply len_mac_enc.
Qed.

(* ---- decode (encode v ++ rest) ---- *)
Lemma rd_app1 (A B : bytes) i v : rd A i = Some v -> rd (A ++ B) i = Some v.
Proof. unfold rd. intros H. rewrite nth_error_app1; [assumption|]. apply nth_error_Some. congruence. Qed.

Lemma mac_required_ge tci : 6 <= mac_required_len tci.
Proof. unfold mac_required_len. lia. Qed.

Lemma mac_slice_app E rest tci b1 :
  rd E 0 = Some tci -> rd E 1 = Some b1 -> nz (band tci 128) = false ->
  ((band tci 12 =? 0) && (band b1 63 =? 1))%bool = false -> mac_required_len tci = len E ->
  mac_slice_from_slice (E ++ rest) = Ok E.
Proof.
  intros R0 R1 V U L. pose proof (mac_required_ge tci) as G.
  unfold mac_slice_from_slice. rewrite len_app.
  replace (len E + len rest <? 6) with false by (symmetry; apply N.ltb_ge; lia).
  rewrite (rd_app1 E rest 0 tci R0), V, (rd_app1 E rest 1 b1 R1).
  assert (X : (if band tci 12 =? 0 then if band b1 63 =? 1 then Err (EContent 1) else Ok tt else Ok tt) = @Ok unit tt).
  { destruct (band tci 12 =? 0); [|reflexivity]. cbn [andb] in U. rewrite U. reflexivity. }
  rewrite X, L.
  replace (len E + len rest <? len E) with false by (symmetry; apply N.ltb_ge; lia).
  f_equal. apply take_app_len. reflexivity.
Qed.

Lemma read_exact_app (A B : bytes) n : len A = n -> read_exact (A ++ B) n = Ok (A, B).
Proof.
  intros L. unfold read_exact. rewrite len_app.
  replace (len A + len B <? n) with false by (symmetry; apply N.ltb_ge; lia).
  rewrite (take_app_len A B) by (symmetry; exact L). rewrite (drop_app_len A B) by (symmetry; exact L). reflexivity.
Qed.

Lemma mac_wf_facts h : wf_mac h = true ->
  mac_wf_ptype (mac_ptype h) = true /\ mac_an h < 4 /\ mac_short_len h < 64 /\ mac_packet_nr h < 4294967296
  /\ mac_wf_sci (mac_sci h) = true /\ (mac_is_unmod (mac_ptype h) && (mac_short_len h =? 1))%bool = false.
Proof. unfold wf_mac. intros W. bsplit W. apply negb_true_iff in W1. repeat split; assumption. Qed.

Ltac mac_rd := cbv [rd nth_error N.to_nat Pos.to_nat Pos.iter_op Nat.add Init.Nat.add].

(* to_header on the encoded bytes *)
Lemma mac_to_header_enc h : wf_mac h = true -> mac_to_header (mac_enc h) = Ok h.
Proof.
  intros W. destruct (mac_wf_facts h W) as (WP & WA & WS & WN & WC & WX).
  destruct h as [p es scb an sl pn sci]. cbn [mac_ptype mac_an mac_short_len mac_packet_nr mac_sci] in *.
  destruct (mac_tci_facts an (mac_userdata_changed p) (mac_encrypted p) scb (mac_sci_some sci) es WA)
    as (T0 & T1 & T2 & T3 & T4 & T5 & T6 & T7 & T8). cbv zeta in *.
  unfold mac_enc, mac_first, mac_more, mac_tci_an. cbn [mac_ptype mac_an mac_short_len mac_packet_nr mac_sci mac_scb mac_endstation_id].
  set (t := mac_tci_of an (mac_userdata_changed p) (mac_encrypted p) scb (mac_sci_some sci) es) in *.
  rewrite (mac_sl_fact sl WS).
  destruct p as [et| | |], sci as [s|]; cbn [mac_userdata_changed mac_encrypted mac_sci_some negb andb] in *;
    unfold mac_to_header, mac_sl_ptype, mac_sl_sci, mac_rd16, u32_to_be, u16_to_be; try rewrite to_be8_explicit;
    cbn [app]; mac_rd; rewrite T3, T4, T5, T6, T7, T8; cbv iota beta;
    rewrite (u32_be_roundtrip pn WN), (mac_sl_fact sl WS);
    try (rewrite <- to_be8_explicit, of_be8_roundtrip by (cbn [mac_wf_sci] in WC; apply N.ltb_lt; exact WC));
    try (rewrite u16_be_roundtrip by (cbn [mac_wf_ptype] in WP; apply N.ltb_lt; exact WP));
    reflexivity.
Qed.

Lemma mac_enc_head h : exists b2 b3 b4 b5,
  mac_first h = [mac_tci_an h; band (mac_short_len h) 63; b2; b3; b4; b5].
Proof. unfold mac_first, u32_to_be. cbn [app]. eauto. Qed.

Lemma mac_required_enc h : mac_an h < 4 -> mac_required_len (mac_tci_an h) = mac_header_len h.
Proof.
  intros WA.
  destruct (mac_tci_facts (mac_an h) (mac_userdata_changed (mac_ptype h)) (mac_encrypted (mac_ptype h)) (mac_scb h)
              (mac_sci_some (mac_sci h)) (mac_endstation_id h) WA) as (T0 & T1 & T2 & T3 & _). cbv zeta in *.
  unfold mac_required_len, mac_header_len. fold (mac_tci_an h) in T2, T3. rewrite T2, T3.
  destruct (mac_ptype h), (mac_sci h); reflexivity.
Qed.

Lemma mac_unmod_flag h : mac_an h < 4 -> (band (mac_tci_an h) 12 =? 0) = mac_is_unmod (mac_ptype h).
Proof.
  intros WA.
  destruct (mac_tci_facts (mac_an h) (mac_userdata_changed (mac_ptype h)) (mac_encrypted (mac_ptype h)) (mac_scb h)
              (mac_sci_some (mac_sci h)) (mac_endstation_id h) WA) as (T0 & T1 & T2 & _). cbv zeta in *.
  fold (mac_tci_an h) in T2. rewrite T2. destruct (mac_ptype h); reflexivity.
Qed.

Theorem mac_dec_enc h rest : wf_mac h = true ->
  exists e, mac_to_bytes h = Some e /\ len e = mac_header_len h
    /\ mac_from_slice (e ++ rest) = Ok h /\ drop (mac_header_len h) (e ++ rest) = rest
    /\ mac_read (e ++ rest) = Ok (h, rest).
Proof.
  intros W. exists (mac_enc h). split; [apply mac_to_bytes_enc|]. split; [apply len_mac_enc|].
  destruct (mac_wf_facts h W) as (WP & WA & WS & WN & WC & WX).
  destruct (mac_tci_facts (mac_an h) (mac_userdata_changed (mac_ptype h)) (mac_encrypted (mac_ptype h)) (mac_scb h)
              (mac_sci_some (mac_sci h)) (mac_endstation_id h) WA) as (T0 & T1 & _). cbv zeta in *.
  fold (mac_tci_an h) in T0, T1.
  pose proof (mac_required_enc h WA) as RQ. pose proof (mac_unmod_flag h WA) as UF.
  pose proof (mac_to_header_enc h W) as HD.
  destruct (mac_enc_head h) as (b2 & b3 & b4 & b5 & HF).
  assert (SL : band (band (mac_short_len h) 63) 63 = mac_short_len h) by (rewrite !(mac_sl_fact _ WS); reflexivity).
  split; [|split].
  - unfold mac_from_slice.
    rewrite (mac_slice_app (mac_enc h) rest (mac_tci_an h) (band (mac_short_len h) 63)).
    + exact HD.
    + unfold mac_enc. rewrite HF. reflexivity.
    + unfold mac_enc. rewrite HF. reflexivity.
    + exact T1.
    + rewrite UF, SL. exact WX.
    + rewrite RQ, len_mac_enc. reflexivity.
  - apply drop_app_len. symmetry. apply len_mac_enc.
  - unfold mac_read, mac_enc. rewrite <- app_assoc.
    rewrite (read_exact_app (mac_first h)) by apply len_mac_first.
    rewrite HF. mac_rd. rewrite T1, UF, SL, WX, RQ. rewrite <- HF.
    pose proof (len_mac_more h) as LM.
    assert (HL : 6 <= mac_header_len h <= 16).
    { unfold mac_header_len. destruct (mac_sci_some (mac_sci h)), (mac_is_unmod (mac_ptype h)); lia. }
    assert (SR : slice_range (mac_first h ++ mac_more h ++ zeros (16 - 6 - len (mac_more h))) 0 (mac_header_len h)
                 = Some (mac_enc h)).
    { unfold slice_range. rewrite !len_app, len_zeros, len_mac_first, LM. cbn [drop skipn N.to_nat].
      replace (0 <=? mac_header_len h) with true by (symmetry; apply N.leb_le; lia).
      replace (mac_header_len h <=? 6 + (mac_header_len h - 6 + (16 - 6 - (mac_header_len h - 6)))) with true
        by (symmetry; apply N.leb_le; lia).
      cbn [andb]. f_equal. rewrite N.sub_0_r, app_assoc. apply take_app_len.
      fold (mac_enc h). rewrite len_mac_enc. reflexivity. }
    destruct (N.ltb_spec 6 (mac_header_len h)) as [G|G].
    + replace (mac_header_len h <=? 16) with true by (symmetry; apply N.leb_le; lia).
      rewrite (read_exact_app (mac_more h)) by exact LM.
      rewrite SR, HD. reflexivity.
    + assert (ME : mac_more h = []) by (apply len_0_nil; lia).
      rewrite ME in *. cbn [app]. cbn [app] in SR. rewrite SR, HD. reflexivity.
Qed.

(* the excluded values: in range of the Rust types, ptype Unmodified, short_len 1:
   encoded by to_bytes, rejected by both decoders *)
Lemma mac_in_range_facts h : mac_in_range h = true ->
  mac_wf_ptype (mac_ptype h) = true /\ mac_an h < 4 /\ mac_short_len h < 64 /\ mac_packet_nr h < 4294967296
  /\ mac_wf_sci (mac_sci h) = true.
Proof. unfold mac_in_range. intros W. bsplit W. repeat split; assumption. Qed.

Theorem mac_excluded_rejected h rest : mac_in_range h = true -> wf_mac h = false ->
  exists e, mac_to_bytes h = Some e /\ mac_from_slice (e ++ rest) = Err (EContent 1)
            /\ mac_read (e ++ rest) = Err (EContent 1).
Proof.
  intros R NW. exists (mac_enc h). split; [apply mac_to_bytes_enc|].
  destruct (mac_in_range_facts h R) as (WP & WA & WS & WN & WC).
  assert (WX : (mac_is_unmod (mac_ptype h) && (mac_short_len h =? 1))%bool = true).
  { unfold wf_mac in NW. fold (mac_in_range h) in NW. rewrite R in NW. cbn [andb] in NW.
    apply negb_false_iff in NW. exact NW. }
  destruct (mac_tci_facts (mac_an h) (mac_userdata_changed (mac_ptype h)) (mac_encrypted (mac_ptype h)) (mac_scb h)
              (mac_sci_some (mac_sci h)) (mac_endstation_id h) WA) as (T0 & T1 & _). cbv zeta in *.
  fold (mac_tci_an h) in T0, T1.
  pose proof (mac_unmod_flag h WA) as UF.
  destruct (mac_enc_head h) as (b2 & b3 & b4 & b5 & HF).
  assert (SL : band (band (mac_short_len h) 63) 63 = mac_short_len h) by (rewrite !(mac_sl_fact _ WS); reflexivity).
  pose proof WX as WX'. apply andb_true_iff in WX'. destruct WX' as [WU W1].
  split.
  - unfold mac_from_slice, mac_slice_from_slice. rewrite len_app, len_mac_enc.
    replace (mac_header_len h + len rest <? 6) with false
      by (symmetry; apply N.ltb_ge; unfold mac_header_len; lia).
    unfold mac_enc. rewrite <- app_assoc, HF. cbn [app]. mac_rd.
    rewrite T1, UF, WU, SL, W1. reflexivity.
  - unfold mac_read, mac_enc. rewrite <- app_assoc.
    rewrite (read_exact_app (mac_first h)) by apply len_mac_first.
    rewrite HF. mac_rd. rewrite T1, UF, SL, WX. reflexivity.
Qed.

(* ---- decode then encode ---- *)
Lemma mac_keep_mask_explicit6 : mac_keep_mask 6 = [255; 63; 255; 255; 255; 255].
Proof. reflexivity. Qed.

Ltac mac_list_more r L :=
  let x := fresh "x" in destruct r as [|x r]; [vm_compute in L; discriminate|].

Theorem mac_enc_dec bs h : bytes_ok bs -> mac_from_slice bs = Ok h ->
  wf_mac h = true /\ mac_header_len h <= len bs
  /\ exists e, mac_to_bytes h = Some e
       /\ agree (mac_keep_mask (mac_header_len h)) e (take (mac_header_len h) bs)
       /\ mac_from_slice (e ++ drop (mac_header_len h) bs) = Ok h.
Proof.
  intros OK H.
  assert (KEY : wf_mac h = true /\ mac_header_len h <= len bs
                /\ agree (mac_keep_mask (mac_header_len h)) (mac_enc h) (take (mac_header_len h) bs)).
  2:{ destruct KEY as (WF & HL & AG). split; [exact WF|]. split; [exact HL|].
      exists (mac_enc h). split; [apply mac_to_bytes_enc|]. split; [exact AG|].
      destruct (mac_dec_enc h (drop (mac_header_len h) bs) WF) as (e & E1 & _ & E2 & _).
      rewrite mac_to_bytes_enc in E1. apply Some_inj in E1. subst e. exact E2. }
  unfold mac_from_slice, mac_slice_from_slice in H.
  destruct (len bs <? 6) eqn:L; [discriminate|].
  destruct bs as [|b0 [|b1 [|b2 [|b3 [|b4 [|b5 r]]]]]]; try (vm_compute in L; discriminate).
  clear L. revert H. mac_rd. intros H.
  destruct (nz (band b0 128)) eqn:V; [discriminate|].
  pose proof OK as OK'. apply bytes_ok_cons in OK'. destruct OK' as [B0 OK']. unfold byte_ok in B0.
  apply bytes_ok_cons in OK'. destruct OK' as [B1 OK']. unfold byte_ok in B1.
  apply bytes_ok_cons in OK'. destruct OK' as [B2 OK']. unfold byte_ok in B2.
  apply bytes_ok_cons in OK'. destruct OK' as [B3 OK']. unfold byte_ok in B3.
  apply bytes_ok_cons in OK'. destruct OK' as [B4 OK']. unfold byte_ok in B4.
  apply bytes_ok_cons in OK'. destruct OK' as [B5 OK']. unfold byte_ok in B5.
  destruct (mac_Q0_facts b0 B0 V) as (Q1 & Q2 & Q3). cbv zeta in Q1, Q2.
  destruct (mac_Q1_facts b1 B1) as (S1 & S2).
  pose proof (be32_bound b2 b3 b4 b5 B2 B3 B4 B5) as PN.
  pose proof (u32_to_be_be32 b2 b3 b4 b5 B2 B3 B4 B5) as PNE.
  unfold mac_required_len in H. rewrite Q2 in H.
  destruct (nz (band b0 8)) eqn:E8, (nz (band b0 4)) eqn:E4, (nz (band b0 32)) eqn:E32;
    cbn [negb andb mac_ptype_of mac_userdata_changed mac_encrypted] in *.
  all: try (destruct (band b1 63 =? 1) eqn:SL1; [discriminate|]).
  all: match type of H with context [len ?s <? ?n] => destruct (len s <? n) eqn:L; [discriminate|] end.
  (* 14 bytes: e/c set, sci *)
  1,3,5: do 8 (mac_list_more r L).
  (* 16 bytes *)
  7: do 10 (mac_list_more r L).
  (* 8 bytes *)
  8: do 2 (mac_list_more r L).
  all: clear L;
    match type of H with context [mac_to_header (take ?n ?s)] =>
      let t := eval cbv [take firstn N.to_nat Pos.to_nat Pos.iter_op Nat.add Init.Nat.add N.add Pos.add Pos.succ] in (take n s) in
      change (take n s) with t in H end; revert H;
    unfold mac_to_header, mac_sl_ptype, mac_sl_sci, mac_rd16; mac_rd; rewrite ?E8, ?E4, ?E32; cbv iota beta;
    intros H; apply Ok_inj in H; subst h;
    unfold wf_mac, mac_header_len, mac_enc, mac_first, mac_more, mac_tci_an;
    cbn [mac_ptype mac_an mac_short_len mac_packet_nr mac_sci mac_scb mac_endstation_id
         mac_sci_some mac_is_unmod mac_wf_ptype mac_wf_sci mac_userdata_changed mac_encrypted andb negb].
  all: rewrite ?Q1, ?S2, ?PNE.
  all: bytes_ok_split OK'.
  all: apply N.ltb_lt in Q3, S1, PN.
  all: split; [rewrite ?Q3, ?S1, ?PN, ?SL1; cbn [andb negb];
    try (match goal with |- context [of_be ?l] =>
           let X := fresh "X" in
           assert (X : of_be l < 18446744073709551616)
             by (apply of_be8_bound; repeat (apply bytes_ok_explicit_cons; [assumption|]); constructor);
           apply N.ltb_lt in X; rewrite X end);
    try (match goal with |- context [be16 ?a ?b <? _] =>
           let X := fresh "X" in
           assert (X : be16 a b < 65536) by (apply be16_bound; assumption);
           apply N.ltb_lt in X; rewrite X end);
    reflexivity|].
  all: split; [rewrite !len_cons; lia|].
  all: match goal with |- context [mac_keep_mask ?n] =>
         let m := eval vm_compute in (mac_keep_mask n) in change (mac_keep_mask n) with m end;
       match goal with |- context [take ?n ?s] =>
         let t := eval cbv [take firstn N.to_nat Pos.to_nat Pos.iter_op Nat.add Init.Nat.add N.add Pos.add Pos.succ] in (take n s) in
         change (take n s) with t end.
  all: apply agree_of_masked; [reflexivity|].
  all: cbn [masked app]; rewrite !land_255 by assumption.
  all: try (rewrite to_be8_of_be by (repeat (apply bytes_ok_explicit_cons; [assumption|]); constructor)).
  all: try (rewrite u16_to_be_be16 by assumption).
  all: reflexivity.
Qed.

(* ---- the serialiser writes the IEEE 802.1AE SecTAG layout ---- *)
From EP Require Import Roundtrip.Spec Roundtrip.SpecLinkNet.

Definition mac_PL (an : N) : bool :=
  all_bool (fun c => all_bool (fun e => all_bool (fun scb => all_bool (fun sc => all_bool (fun es =>
    mac_tci_of an c e scb sc es =? bit es * 64 + bit sc * 32 + bit scb * 16 + bit e * 8 + bit c * 4 + an))))).
Lemma mac_sweepPL : all_below 4 mac_PL = true.
Proof. vm_compute. reflexivity. Qed.

Definition mac_et_opt (p : MacsecPType) : option N := match p with MacUnmodified e => Some e | _ => None end.

Theorem mac_spec h : wf_mac h = true ->
  mac_to_bytes h = Some (macsec_layout (mac_endstation_id h) (mac_sci_some (mac_sci h)) (mac_scb h)
    (mac_encrypted (mac_ptype h)) (mac_userdata_changed (mac_ptype h)) (mac_an h) (mac_short_len h)
    (mac_packet_nr h) (mac_sci h) (mac_et_opt (mac_ptype h))).
Proof.
  intros W. rewrite mac_to_bytes_enc. f_equal.
  destruct (mac_wf_facts h W) as (WP & WA & WS & WN & WC & WX).
  pose proof (all_below_spec 4 mac_PL mac_sweepPL (mac_an h) ltac:(lia)) as S. unfold mac_PL in S.
  pose proof (all_bool_spec _ (all_bool_spec _ (all_bool_spec _ (all_bool_spec _ (all_bool_spec _ S
    (mac_userdata_changed (mac_ptype h))) (mac_encrypted (mac_ptype h))) (mac_scb h)) (mac_sci_some (mac_sci h)))
    (mac_endstation_id h)) as S'. cbv beta in S'. apply N.eqb_eq in S'.
  unfold mac_enc, mac_first, mac_more, macsec_layout, mac_tci_an. rewrite S', (mac_sl_fact _ WS).
  destruct h as [p es scb an sl pn sci]. destruct p, sci; reflexivity.
Qed.
