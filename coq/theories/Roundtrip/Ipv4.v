(* Roundtrip/Ipv4.v -- model of etherparse Ipv4Header / Ipv4Options / Ipv4HeaderSlice:
   to_bytes, write_raw, write (recomputes the header checksum), header_len,
   from_slice (Ipv4HeaderSlice::from_slice + to_header), read, PartialEq.
   Newtypes IpDscp (6 bit), IpEcn (2 bit), IpFragOffset (13 bit) are their value;
   the range is part of wf_ip4. *)
From EP Require Import Base.Bytes Roundtrip.Common Checksum.Model.
Local Open Scope N_scope.

Record Ipv4Options := { i4o_len : N; i4o_buf : bytes }.

Record Ipv4Header := {
  i4_dscp : N; i4_ecn : N; i4_total_len : N; i4_identification : N;
  i4_dont_fragment : bool; i4_more_fragments : bool; i4_fragment_offset : N;
  i4_time_to_live : N; i4_protocol : N; i4_header_checksum : N;
  i4_source : bytes; i4_destination : bytes;       (* [u8;4] *)
  i4_options : Ipv4Options }.

(* Ipv4Options::as_slice (Deref) *)
Definition i4o_as_slice (o : Ipv4Options) : option bytes :=
  if i4o_len o <=? len (i4o_buf o) then Some (take (i4o_len o) (i4o_buf o)) else None.

(* TryFrom<&[u8]> for Ipv4Options *)
Definition i4o_try_from (s : bytes) : option Ipv4Options :=
  if (len s <=? 40) && (len s mod 4 =? 0)
  then Some {| i4o_len := as_u8 (len s); i4o_buf := s ++ zeros (40 - len s) |}
  else None.

Definition i4o_eqb (a b : Ipv4Options) : bool :=
  match i4o_as_slice a, i4o_as_slice b with
  | Some x, Some y => bytes_eqb x y
  | _, _ => false
  end.

Definition ip4_eqb (a b : Ipv4Header) : bool :=
  (i4_dscp a =? i4_dscp b) && (i4_ecn a =? i4_ecn b) && (i4_total_len a =? i4_total_len b)
  && (i4_identification a =? i4_identification b)
  && Bool.eqb (i4_dont_fragment a) (i4_dont_fragment b)
  && Bool.eqb (i4_more_fragments a) (i4_more_fragments b)
  && (i4_fragment_offset a =? i4_fragment_offset b) && (i4_time_to_live a =? i4_time_to_live b)
  && (i4_protocol a =? i4_protocol b) && (i4_header_checksum a =? i4_header_checksum b)
  && bytes_eqb (i4_source a) (i4_source b) && bytes_eqb (i4_destination a) (i4_destination b)
  && i4o_eqb (i4_options a) (i4_options b).

(* ihl(): (options.len_u8() / 4) + 5 *)
Definition ip4_ihl (h : Ipv4Header) : N := as_u8 (i4o_len (i4_options h) / 4 + 5).
Definition ip4_header_len (h : Ipv4Header) : N := 20 + i4o_len (i4_options h).

Definition ip4_byte0 (h : Ipv4Header) : N := bor (shl8 4 4) (ip4_ihl h).
Definition ip4_byte1 (h : Ipv4Header) : N := bor (shl8 (i4_dscp h) 2) (i4_ecn h).
Definition ip4_flags (h : Ipv4Header) : N :=
  let r := 0 in
  let r := if i4_dont_fragment h then bor r 64 else r in
  let r := if i4_more_fragments h then bor r 32 else r in r.
(* [flags | (frag_be[0] & 0x1f), frag_be[1]] *)
Definition ip4_byte6 (h : Ipv4Header) : N :=
  bor (ip4_flags h) (band ((i4_fragment_offset h / 256) mod 256) 31).
Definition ip4_byte7 (h : Ipv4Header) : N := i4_fragment_offset h mod 256.

(* the 20 fixed bytes with a given checksum value (write_ipv4_header_internal / to_bytes) *)
Definition ip4_fixed (h : Ipv4Header) (ck : N) : option bytes :=
  match i4_source h, i4_destination h with
  | [s0; s1; s2; s3], [d0; d1; d2; d3] =>
    Some ([ip4_byte0 h; ip4_byte1 h] ++ u16_to_be (i4_total_len h) ++ u16_to_be (i4_identification h)
          ++ [ip4_byte6 h; ip4_byte7 h; i4_time_to_live h; i4_protocol h] ++ u16_to_be ck
          ++ [s0; s1; s2; s3; d0; d1; d2; d3])
  | _, _ => None
  end.

(* to_bytes: 20 bytes ++ buf[0..39] into ArrayVec<60>, set_len(header_len) *)
Definition ip4_to_bytes (h : Ipv4Header) : option bytes :=
  match ip4_fixed h (i4_header_checksum h) with
  | None => None
  | Some f =>
    if (len (i4o_buf (i4_options h)) =? 40) && (ip4_header_len h <=? 60)
    then Some (take (ip4_header_len h) (f ++ i4o_buf (i4_options h))) else None
  end.

(* write_ipv4_header_internal *)
Definition ip4_write_internal (out : bytes) (h : Ipv4Header) (ck : N) : option bytes :=
  match ip4_fixed h ck, i4o_as_slice (i4_options h) with
  | Some f, Some o => Some (out ++ f ++ o)
  | _, _ => None
  end.
Definition ip4_write_raw (out : bytes) (h : Ipv4Header) : option bytes :=
  ip4_write_internal out h (i4_header_checksum h).

(* calc_header_checksum, through the C09 model of Sum16BitWords *)
Definition ip4_calc_checksum (e : endian) (h : Ipv4Header) : option N :=
  match i4_source h, i4_destination h, i4o_as_slice (i4_options h) with
  | [s0; s1; s2; s3], [d0; d1; d2; d3], Some o =>
    Some (checksum64 e [P2 (ip4_byte0 h) (ip4_byte1 h);
                        P2 ((i4_total_len h / 256) mod 256) (i4_total_len h mod 256);
                        P2 ((i4_identification h / 256) mod 256) (i4_identification h mod 256);
                        P2 (ip4_byte6 h) (ip4_byte7 h);
                        P2 (i4_time_to_live h) (i4_protocol h);
                        P4 s0 s1 s2 s3; P4 d0 d1 d2 d3; PSlice o])
  | _, _, _ => None
  end.
Definition ip4_write (e : endian) (out : bytes) (h : Ipv4Header) : option bytes :=
  match ip4_calc_checksum e h with
  | None => None
  | Some ck => ip4_write_internal out h ck
  end.

(* Ipv4HeaderSlice::from_slice *)
Definition ip4_slice_from_slice (s : bytes) : res bytes :=
  if len s <? 20 then Err ELen
  else match rd s 0 with
       | None => Err EOOB
       | Some b0 =>
         let version := shr b0 4 in
         let ihl := band b0 15 in
         if negb (version =? 4) then Err (EContent version)
         else if ihl <? 5 then Err (EContent ihl)
         else let hl := ihl * 4 in
              if len s <? hl then Err ELen else Ok (take hl s)
       end.

(* Ipv4HeaderSlice::to_header *)
Definition ip4_to_header (s : bytes) : res Ipv4Header :=
  match s with
  | b0 :: b1 :: b2 :: b3 :: b4 :: b5 :: b6 :: b7 :: b8 :: b9 :: b10 :: b11 :: b12 :: b13
    :: b14 :: b15 :: b16 :: b17 :: b18 :: b19 :: os =>
    (* options(): from_raw_parts(ptr + 20, len - 20); copy into buf[..len] *)
    if 40 <? len os then Err EPanic
    else
    Ok {| i4_dscp := shr b1 2; i4_ecn := band b1 3; i4_total_len := be16 b2 b3;
          i4_identification := be16 b4 b5;
          i4_dont_fragment := nz (band b6 64); i4_more_fragments := nz (band b6 32);
          i4_fragment_offset := be16 (band b6 31) b7;
          i4_time_to_live := b8; i4_protocol := b9; i4_header_checksum := be16 b10 b11;
          i4_source := [b12; b13; b14; b15]; i4_destination := [b16; b17; b18; b19];
          i4_options := {| i4o_len := as_u8 (len os); i4o_buf := os ++ zeros (40 - len os) |} |}
  | _ => Err EOOB
  end.

Definition ip4_from_slice (s : bytes) : res (Ipv4Header * bytes) :=
  match ip4_slice_from_slice s with
  | Err e => Err e
  | Ok hs =>
    match ip4_to_header hs with
    | Err e => Err e
    | Ok h => match slice_from s (ip4_header_len h) with
              | None => Err EPanic
              | Some rest => Ok (h, rest)
              end
    end
  end.

(* Ipv4Header::read = read first byte, check version, read_without_version *)
Definition ip4_read (r : bytes) : res (Ipv4Header * bytes) :=
  match read_exact r 1 with
  | Err e => Err e
  | Ok (fb, r1) =>
    match fb with
    | [b0] =>
      let version := shr b0 4 in
      if negb (version =? 4) then Err (EContent version)
      else
      match read_exact r1 19 with
      | Err e => Err e
      | Ok (raw, r2) =>
        match raw with
        | [b1; b2; b3; b4; b5; b6; b7; b8; b9; b10; b11; b12; b13; b14; b15; b16; b17; b18; b19] =>
          let ihl := band b0 15 in
          if ihl <? 5 then Err (EContent ihl)
          else
            let ol := as_u8 ((ihl - 5) * 4) in
            match (if ol =? 0 then Ok (zeros 40, r2)
                   else if ol <=? 40 then
                          match read_exact r2 ol with
                          | Err e => Err e
                          | Ok (o, r3) => Ok (o ++ zeros (40 - ol), r3)
                          end
                        else Err EPanic) with
            | Err e => Err e
            | Ok (buf, r3) =>
              Ok ({| i4_dscp := shr b1 2; i4_ecn := band b1 3; i4_total_len := be16 b2 b3;
                     i4_identification := be16 b4 b5;
                     i4_dont_fragment := nz (band b6 64); i4_more_fragments := nz (band b6 32);
                     i4_fragment_offset := be16 (band b6 31) b7;
                     i4_time_to_live := b8; i4_protocol := b9; i4_header_checksum := be16 b10 b11;
                     i4_source := [b12; b13; b14; b15]; i4_destination := [b16; b17; b18; b19];
                     i4_options := {| i4o_len := ol; i4o_buf := buf |} |}, r3)
            end
        | _ => Err EOOB
        end
      end
    | _ => Err EOOB
    end
  end.

Definition wf_i4o (o : Ipv4Options) : bool :=
  (i4o_len o <=? 40) && (i4o_len o mod 4 =? 0) && (len (i4o_buf o) =? 40) && bytes_okb (i4o_buf o).
Definition wf_ip4 (h : Ipv4Header) : bool :=
  (i4_dscp h <? 64) && (i4_ecn h <? 4) && (i4_total_len h <? 65536) && (i4_identification h <? 65536)
  && (i4_fragment_offset h <? 8192) && (i4_time_to_live h <? 256) && (i4_protocol h <? 256)
  && (i4_header_checksum h <? 65536)
  && (len (i4_source h) =? 4) && bytes_okb (i4_source h)
  && (len (i4_destination h) =? 4) && bytes_okb (i4_destination h)
  && wf_i4o (i4_options h).

Definition ip4_norm_opt (o : Ipv4Options) : Ipv4Options :=
  {| i4o_len := i4o_len o; i4o_buf := take (i4o_len o) (i4o_buf o) ++ zeros (40 - i4o_len o) |}.
Definition ip4_norm (h : Ipv4Header) : Ipv4Header :=
  {| i4_dscp := i4_dscp h; i4_ecn := i4_ecn h; i4_total_len := i4_total_len h;
     i4_identification := i4_identification h; i4_dont_fragment := i4_dont_fragment h;
     i4_more_fragments := i4_more_fragments h; i4_fragment_offset := i4_fragment_offset h;
     i4_time_to_live := i4_time_to_live h; i4_protocol := i4_protocol h;
     i4_header_checksum := i4_header_checksum h; i4_source := i4_source h;
     i4_destination := i4_destination h; i4_options := ip4_norm_opt (i4_options h) |}.
Definition ip4_set_checksum (h : Ipv4Header) (ck : N) : Ipv4Header :=
  {| i4_dscp := i4_dscp h; i4_ecn := i4_ecn h; i4_total_len := i4_total_len h;
     i4_identification := i4_identification h; i4_dont_fragment := i4_dont_fragment h;
     i4_more_fragments := i4_more_fragments h; i4_fragment_offset := i4_fragment_offset h;
     i4_time_to_live := i4_time_to_live h; i4_protocol := i4_protocol h;
     i4_header_checksum := ck; i4_source := i4_source h;
     i4_destination := i4_destination h; i4_options := i4_options h |}.

(* everything survives but the reserved ("evil") bit 7 of byte 6 *)
Definition ip4_keep_mask (hl : N) : bytes := ones 6 ++ [127] ++ ones (hl - 7).
