(* Equiv/ReadValueErr.v -- C06 group 3 (round 3, c06rd): the offending VALUE of content rejections,
   read versus from_slice, for the two header types that were left: Ipv6Header (version number)
   and IpHeaders (version number, IHL).  On the value models Roundtrip/Ipv6.v, Roundtrip/Ipv4.v,
   Roundtrip/IpHeaders.v (C08), whose readers are linked to the read programs of the outcome-level
   theorems by Equiv/ReadLink.v, Equiv/ReadLinkIp.v.  Hypothesis: outside the class `cut_fixed`
   (Equiv/ReadSimple.v), inside which the two sides really differ (C06_read_cut_fixed_inside). *)
From EP Require Import Base.Bytes Equiv.ModelRead Equiv.ReadBase Equiv.ReadSimple.
From EP Require Import Roundtrip.Common Roundtrip.CommonProofs Roundtrip.Ipv4 Roundtrip.Ipv6 Roundtrip.IpHeaders
  Equiv.ReadValues.
From EP Require Equiv.ReadLink.
From Coq Require Import ZArith Lia ZifyN ZifyBool.
Local Open Scope N_scope.

Ltac dmlia := zify; Z.div_mod_to_equations; lia.

Lemma shl8_band15 b : shl8 (band b 15) 4 = shl8 b 4.
Proof.
  unfold shl8, band. rewrite land15_mod, !N.shiftl_mul_pow2. change (2 ^ 4) with 16. dmlia.
Qed.

(* ---- Ipv6Header: struct, unread rest and the version number of the rejection ---- *)
Theorem ip6_read_eq_from_slice_cut bs : cut_fixed HIpv6 bs = false ->
  ip6_read bs = eof_of_len (ip6_from_slice bs).
Proof.
  intros Hc. unfold ip6_read, ip6_from_slice, ip6_slice_from_slice. unfold read_exact at 1.
  destruct bs as [|b0 r]; [reflexivity|].
  cbn [cut_fixed] in Hc. set (bs := b0 :: r) in *.
  assert (L1 : len bs = 1 + len r) by (unfold bs; apply len_cons).
  replace (len bs <? 1) with false by (symmetry; apply N.ltb_ge; lia).
  change (take 1 bs) with [b0]. change (drop 1 bs) with r. cbv iota beta zeta.
  change (rd bs 0) with (Some b0). cbv iota.
  change (shr b0 4) with (N.shiftr b0 4).
  destruct (len bs <? 40) eqn:E40.
  - cbn [andb] in Hc. apply Bool.negb_false_iff in Hc. rewrite Hc. cbn [negb].
    apply N.ltb_lt in E40.
    unfold ip6_read_without_version, read_exact.
    replace (len r <? 39) with true by (symmetry; apply N.ltb_lt; lia). reflexivity.
  - apply N.ltb_ge in E40.
    destruct (negb (N.shiftr b0 4 =? 6)); [reflexivity|].
    assert (E39 : N.of_nat 39 <= len r) by (change (N.of_nat 39) with 39; lia).
    unfold slice_from. replace (40 <=? len bs) with true by (symmetry; apply N.leb_le; lia).
    unfold bs in *. clear bs.
    Equiv.ReadLink.split_pre r 39%nat E39.
    unfold ip6_read_without_version, read_exact.
    match goal with |- context [len ?l <? 39] =>
      replace (len l <? 39) with false by (symmetry; apply N.ltb_ge; rewrite len_app; unfold len at 1; cbn [length]; lia) end.
    rewrite Equiv.ReadLink.take_pre, Equiv.ReadLink.drop_pre by reflexivity. cbv iota beta.
    rewrite shl8_band15. reflexivity.
Qed.

(* ---- Ipv4Header: C06_read_value_ipv4 without the `20 <= len` hypothesis ---- *)
Theorem ip4_read_eq_from_slice_cut bs : bytes_ok bs -> cut_fixed HIpv4 bs = false ->
  ip4_read bs = eof_of_len (ip4_from_slice bs).
Proof.
  intros Hb Hc. destruct (N.lt_ge_cases (len bs) 20) as [L|L]; [|apply ip4_read_eq_from_slice; assumption].
  unfold ip4_read, ip4_from_slice, ip4_slice_from_slice. unfold read_exact at 1.
  destruct bs as [|b0 r]; [reflexivity|].
  cbn [cut_fixed] in Hc. set (bs := b0 :: r) in *.
  assert (L1 : len bs = 1 + len r) by (unfold bs; apply len_cons).
  replace (len bs <? 1) with false by (symmetry; apply N.ltb_ge; lia).
  change (take 1 bs) with [b0]. change (drop 1 bs) with r. cbv iota beta zeta.
  replace (len bs <? 20) with true in * by (symmetry; apply N.ltb_lt; lia).
  cbn [andb] in Hc. apply Bool.negb_false_iff in Hc.
  change (shr b0 4) with (N.shiftr b0 4). rewrite Hc. cbn [negb].
  unfold read_exact. replace (len r <? 19) with true by (symmetry; apply N.ltb_lt; lia). reflexivity.
Qed.

(* ---- IpHeaders: the two rejections that carry a value (err::ip::HeaderError::
   UnsupportedIpVersion{version_number}, Ipv4HeaderLengthSmallerThanHeader{ihl}) are decided by the
   first byte, on both sides, with the same value.  The other content rejections of IpHeaders
   (hop-by-hop header not at the start, zero AH payload length) carry no value; their kind is
   compared by C06_read_rejection_iff through the link C06_read_link. ---- *)
Theorem iph_value_rejections b0 r :
  (N.shiftr b0 4 <> 4 -> N.shiftr b0 4 <> 6 ->
   iph_read (b0 :: r) = Err (C_UNSUPPORTED_VERSION (N.shiftr b0 4)) /\
   iph_from_slice (b0 :: r) = Err (C_UNSUPPORTED_VERSION (N.shiftr b0 4))) /\
  (N.shiftr b0 4 = 4 -> N.land b0 15 < 5 ->
   iph_read (b0 :: r) = Err (EContent (N.land b0 15)) /\
   iph_from_slice (b0 :: r) = if len (b0 :: r) <? 20 then Err ELen else Err (EContent (N.land b0 15))).
Proof.
  set (bs := b0 :: r).
  assert (L1 : len bs = 1 + len r) by (unfold bs; apply len_cons).
  assert (R : forall X : res (IpHeaders * N * bytes) -> Prop,
              X (let version := N.shiftr b0 4 in
                 if version =? 4 then
                   let ihl := N.land b0 15 in
                   if ihl <? 5 then Err (EContent ihl) else iph_read bs
                 else if version =? 6 then iph_read bs
                 else Err (C_UNSUPPORTED_VERSION version)) -> X (iph_read bs)).
  { intros X. cbv zeta.
    destruct (N.shiftr b0 4 =? 4) eqn:V4; [destruct (N.land b0 15 <? 5) eqn:I5|destruct (N.shiftr b0 4 =? 6) eqn:V6];
      try (intros H; exact H);
      unfold iph_read, read_exact at 1;
      replace (len bs <? 1) with false by (symmetry; apply N.ltb_ge; lia);
      change (take 1 bs) with [b0]; change (drop 1 bs) with r; cbv iota beta zeta;
      change (shr b0 4) with (N.shiftr b0 4); change (band b0 15) with (N.land b0 15);
      rewrite V4, ?I5, ?V6; intros H; exact H. }
  unfold iph_from_slice. replace (len bs =? 0) with false by (symmetry; apply N.eqb_neq; lia).
  change (rd bs 0) with (Some b0). cbv iota zeta.
  change (shr b0 4) with (N.shiftr b0 4). change (band b0 15) with (N.land b0 15).
  split.
  - intros N4 N6. apply N.eqb_neq in N4, N6. split; [|rewrite N4, N6; reflexivity].
    apply R. cbv zeta. rewrite N4, N6. reflexivity.
  - intros V4 I5. apply N.eqb_eq in V4. apply N.ltb_lt in I5. split; [|rewrite V4, I5; reflexivity].
    apply R. cbv zeta. rewrite V4, I5. reflexivity.
Qed.

(* outside the class cut_fixed the two sides agree on both, with the value *)
Corollary iph_value_rejections_eq bs : cut_fixed HIpHeaders bs = false ->
  forall b0 r, bs = b0 :: r ->
  (N.shiftr b0 4 <> 6 -> (N.shiftr b0 4 = 4 -> N.land b0 15 < 5) ->
   exists c, iph_read bs = Err (EContent c) /\ iph_from_slice bs = Err (EContent c) /\
             c = if N.shiftr b0 4 =? 4 then N.land b0 15 else 1000 + N.shiftr b0 4).
Proof.
  intros Hc b0 r -> N6 I. cbn [cut_fixed] in Hc.
  destruct (iph_value_rejections b0 r) as [A B].
  destruct (N.shiftr b0 4 =? 4) eqn:V4.
  - apply N.eqb_eq in V4. specialize (I V4). destruct (B V4 I) as [B1 B2].
    apply N.ltb_lt in I. rewrite I in Hc. rewrite Bool.andb_true_r, Bool.andb_false_iff in Hc.
    destruct Hc as [Hc|Hc]; [|discriminate]. rewrite Hc in B2.
    eexists. split; [exact B1|]. split; [exact B2|reflexivity].
  - apply N.eqb_neq in V4. destruct (A V4 N6) as [A1 A2].
    eexists. split; [exact A1|]. split; [exact A2|reflexivity].
Qed.

(* ---- composition with the link: the read PROGRAM of the outcome-level theorems against the
   VALUE-level from_slice, for the two IP headers (outside cut_fixed) ---- *)
Corollary read_program_eq_value_slice_ipv6 bs : cut_fixed HIpv6 bs = false ->
  read_outcome HIpv6 bs =
  Equiv.ReadLink.rt_outcome Equiv.ReadLink.ipv6_kind bs snd (eof_of_len (ip6_from_slice bs)).
Proof. intros Hc. rewrite Equiv.ReadLink.link_ipv6, (ip6_read_eq_from_slice_cut bs Hc). reflexivity. Qed.

Corollary read_program_eq_value_slice_ipv4 bs : bytes_ok bs -> cut_fixed HIpv4 bs = false ->
  read_outcome HIpv4 bs =
  Equiv.ReadLink.rt_outcome (Equiv.ReadLink.ipv4_kind bs) bs snd (eof_of_len (ip4_from_slice bs)).
Proof. intros Hb Hc. rewrite Equiv.ReadLink.link_ipv4, (ip4_read_eq_from_slice_cut bs Hb Hc). reflexivity. Qed.

(* ---- the remaining content rejections of IpHeaders carry no value ---- *)
Lemma of_q_content {A} (x : IoFault.Model.qres A * IoFault.Model.rstate) c :
  of_q x = Err (EContent c) -> c = 0 \/ c = 1.
Proof.
  destruct x as [[a|k|e|cc| | |] st]; cbn [of_q]; try discriminate.
  destruct cc; intros H; try discriminate; injection H as <-; auto.
Qed.

Lemma of_x6_content {A} (x : ExtChain.Model.res ExtChain.Model.hdr_slice_error A) c :
  of_x6 x = Err (EContent c) -> c = 0 \/ c = 1.
Proof.
  destruct x as [a|[l| |]| |]; cbn [of_x6]; intros H; try discriminate; injection H as <-; auto.
Qed.

Lemma ip4_to_header_no_content s c : ip4_to_header s <> Err (EContent c).
Proof.
  unfold ip4_to_header.
  do 20 (destruct s as [|? s]; [discriminate|]). destruct (40 <? len s); discriminate.
Qed.

Lemma ip6_to_header_no_content s c : ip6_to_header s <> Err (EContent c).
Proof.
  unfold ip6_to_header.
  do 8 (destruct s as [|? s]; [discriminate|]).
  destruct (slice_range _ 8 24); [|discriminate]. destruct (slice_range _ 24 40); discriminate.
Qed.

Lemma ah_to_header_no_content s c : Roundtrip.Auth.ah_to_header s <> Err (EContent c).
Proof.
  unfold Roundtrip.Auth.ah_to_header.
  do 12 (destruct s as [|? s]; [discriminate|]).
  destruct (slice_from _ 12); [|discriminate]. destruct (Roundtrip.Auth.ah_new _ _ _ _); discriminate.
Qed.

Lemma x4_from_slice_content start s c : Roundtrip.Exts4.x4_from_slice start s = Err (EContent c) -> c = 0.
Proof.
  unfold Roundtrip.Exts4.x4_from_slice.
  destruct (Roundtrip.Exts4.x4_slice_from_slice start s) as [[[o n] rest]|e] eqn:E.
  - destruct o as [hs|]; [|discriminate].
    destruct (Roundtrip.Auth.ah_to_header hs) eqn:A; [discriminate|].
    intros H. injection H as ->. destruct (ah_to_header_no_content _ _ A).
  - intros H. injection H as ->. revert E.
    unfold Roundtrip.Exts4.x4_slice_from_slice. destruct (_ =? start); [|discriminate].
    unfold Roundtrip.Auth.ah_slice_from_slice.
    destruct (len s <? 12); [discriminate|].
    destruct (rd s 1) as [pl|]; [|discriminate].
    destruct (pl <? 1); [intros H; injection H as <-; reflexivity|]. cbv zeta.
    destruct (len s <? (pl + 2) * 4); [discriminate|].
    destruct (slice_from s _); [|discriminate]. destruct (rd _ 0); discriminate.
Qed.

Theorem iph_other_rejections_no_value b0 r c :
  (N.shiftr b0 4 = 4 /\ 5 <= N.land b0 15) \/ N.shiftr b0 4 = 6 ->
  iph_read (b0 :: r) = Err (EContent c) \/ iph_from_slice (b0 :: r) = Err (EContent c) ->
  c = 0 \/ c = 1.
Proof.
  set (bs := b0 :: r).
  assert (L1 : len bs = 1 + len r) by (unfold bs; apply len_cons).
  intros Hcl [H|H].
  - (* read *)
    revert H. unfold iph_read. unfold read_exact at 1.
    replace (len bs <? 1) with false by (symmetry; apply N.ltb_ge; lia).
    change (take 1 bs) with [b0]. change (drop 1 bs) with r. cbv iota beta zeta.
    change (shr b0 4) with (N.shiftr b0 4). change (band b0 15) with (N.land b0 15).
    destruct Hcl as [[V4 I5]|V6].
    + rewrite V4. change (4 =? 4) with true. cbv iota.
      replace (N.land b0 15 <? 5) with false by (symmetry; apply N.ltb_ge; lia).
      destruct (60 <? _); [discriminate|].
      unfold read_exact. destruct (len r <? _); [discriminate|].
      destruct (ip4_to_header _) as [hd|e] eqn:T.
      2:{ intros H. injection H as ->. destruct (ip4_to_header_no_content _ _ T). }
      destruct (_ <? _); [discriminate|].
      destruct (of_q _) as [[[ext next] r3]|e] eqn:Q; [discriminate|].
      intros H. injection H as ->. exact (of_q_content _ _ Q).
    + rewrite V6. change (6 =? 4) with false. change (6 =? 6) with true. cbv iota.
      unfold ip6_read_without_version, read_exact.
      destruct (len r <? 39); [discriminate|].
      destruct (take 39 r) as [|c0 [|c1 [|c2 [|c3 [|c4 [|c5 [|c6 tl]]]]]]]; try discriminate.
      destruct (slice_range _ 7 23); [|discriminate]. destruct (slice_range _ 23 39); [|discriminate].
      destruct (of_q _) as [[[ext next] r3]|e] eqn:Q; [discriminate|].
      intros H. injection H as ->. exact (of_q_content _ _ Q).
  - (* from_slice *)
    revert H. unfold iph_from_slice.
    replace (len bs =? 0) with false by (symmetry; apply N.eqb_neq; lia).
    change (rd bs 0) with (Some b0). cbv iota zeta.
    change (shr b0 4) with (N.shiftr b0 4). change (band b0 15) with (N.land b0 15).
    destruct Hcl as [[V4 I5]|V6].
    + rewrite V4. change (4 =? 4) with true. cbv iota.
      destruct (len bs <? 20); [discriminate|].
      replace (N.land b0 15 <? 5) with false by (symmetry; apply N.ltb_ge; lia).
      destruct (len bs <? _); [discriminate|].
      destruct (ip4_to_header _) as [hd|e] eqn:T.
      2:{ intros H. injection H as ->. destruct (ip4_to_header_no_content _ _ T). }
      destruct (_ <? _); [discriminate|]. destruct (_ <? _); [discriminate|].
      destruct (slice_range _ _ _); [|discriminate].
      unfold v4_tail. destruct (Roundtrip.Exts4.x4_from_slice _ _) as [[[e n] rest']|e] eqn:X; [discriminate|].
      intros H. injection H as ->. left. exact (x4_from_slice_content _ _ _ X).
    + rewrite V6. change (6 =? 4) with false. change (6 =? 6) with true. cbv iota.
      destruct (len bs <? 40); [discriminate|].
      destruct (ip6_to_header _) as [hd|e] eqn:T.
      2:{ intros H. injection H as ->. destruct (ip6_to_header_no_content _ _ T). }
      destruct ((0 =? _) && _).
      * destruct (slice_range _ _ _); [|discriminate]. unfold v6_tail.
        destruct (of_x6 _) as [[[e n] rest']|e] eqn:X; [discriminate|].
        intros H. injection H as ->. exact (of_x6_content _ _ X).
      * destruct (len bs <? _); [discriminate|].
        destruct (slice_range _ _ _); [|discriminate]. unfold v6_tail.
        destruct (of_x6 _) as [[[e n] rest']|e] eqn:X; [discriminate|].
        intros H. injection H as ->. exact (of_x6_content _ _ X).
Qed.
