(* Equiv/Ipv6SliceLaxTotal.v -- round 3 (v6lax): LaxIpv6Slice::from_slice and
   Ipv6ExtensionsSlice::from_slice_lax never return Bug on ANY slice value (no buffer, no
   octet hypothesis; Parse/LaxWireProofs.v has this for windows of an octet buffer only), and
   with it the hypothesis-free forms of the "copies agree" theorems of
   Equiv/Ipv6SliceLaxProofs.v. *)
From EP Require Import Base.Bytes Parse.Types Parse.Slices Parse.Cursor Parse.View Parse.Repr
  Parse.Access Parse.AccessProofs Parse.CtorsTotal Parse.LaxSlices Parse.LaxAccess Parse.LaxAccessProofs
  Parse.LaxProofs Parse.LaxFacts Equiv.Model Equiv.Proofs Parse.Ipv6SliceLax Equiv.Ipv6SliceLaxProofs.
From Coq Require Import ZArith Lia ZifyN ZifyBool List.
Import ListNotations.
Local Open Scope N_scope.

Lemma nb_lax_walk fuel start_len : forall rest nh fr,
  (N.to_nat (s_len rest) < fuel)%nat -> s_len rest <= start_len ->
  nobug (LaxIpv6Exts.walk fuel start_len rest nh fr).
Proof.
  induction fuel as [|f IH]; intros rest nh fr Hf Hs; [lia|].
  cbn [LaxIpv6Exts.walk].
  destruct (nh =? IPN_HOP_BY_HOP); [apply nobug_Ok|].
  destruct ((nh =? IPN_DEST_OPTIONS) || (nh =? IPN_ROUTE)).
  { pose proof (nb_raw rest) as NR.
    destruct (Ipv6RawExtHeaderSlice.from_slice rest) as [sl|[l|c]|b] eqn:E.
    - pose proof (raw_wf _ _ E) as ((b & _ & Lb) & S). pose proof (sub_of_len _ _ S).
      unfold Ipv6RawExtHeaderSlice.next_header. nb. apply IH; lia.
    - nb.
    - destruct (raw_ext_shape _ _ E) as (l & X & _). discriminate.
    - exfalso. now apply (NR b). }
  destruct (nh =? IPN_FRAG).
  { pose proof (nb_frag rest) as NR.
    destruct (Ipv6FragmentHeaderSlice.from_slice rest) as [sl|[l|c]|b] eqn:E.
    - pose proof (frag_wf _ _ E) as (W & S). unfold wf_frag in W. pose proof (sub_of_len _ _ S).
      unfold Ipv6FragmentHeaderSlice.next_header, Ipv6FragmentHeaderSlice.is_fragmenting_payload,
        Ipv6FragmentHeaderSlice.more_fragments, Ipv6FragmentHeaderSlice.fragment_offset.
      nb. apply IH; lia.
    - nb.
    - exfalso. revert E. unfold Ipv6FragmentHeaderSlice.from_slice, lerr.
      destruct (s_len rest <? 8); [discriminate|]. intros E.
      destruct (subU rest 0 8) as [x|e'|b'] eqn:E2; try discriminate.
      exact (subU_not_err _ _ _ _ E2).
    - exfalso. now apply (NR b). }
  destruct (nh =? IPN_AUTH).
  { pose proof (nb_ah rest) as NR.
    destruct (IpAuthHeaderSlice.from_slice rest) as [sl|[l|c]|b] eqn:E.
    - pose proof (ah_wf _ _ E) as ((p & _ & P1 & Lp) & S). pose proof (sub_of_len _ _ S).
      unfold IpAuthHeaderSlice.next_header. nb. apply IH; lia.
    - nb.
    - apply nobug_Ok.
    - exfalso. now apply (NR b). }
  apply nobug_Ok.
Qed.

Lemma nb_lax_exts nh s : nobug (LaxIpv6Exts.from_slice_lax nh s).
Proof.
  unfold LaxIpv6Exts.from_slice_lax.
  assert (K : forall rest0 nh0, s_len rest0 <= s_len s ->
    nobug (let* w := LaxIpv6Exts.walk (S (length (snd s))) (s_len s) rest0 nh0 false in
           let '(rest, next_header, fragmented, error) := w in
           let* used := subN (s_len s) (s_len rest) in
           let* sl := (if used <=? s_len s then Ok (fst s, take used (snd s)) else Bug SITE_INDEX) in
           Ok (mkIpv6Exts (if negb (s_len rest =? s_len s) then Some nh else None) fragmented sl,
               next_header, rest, error))).
  { intros rest0 nh0 L0. apply nobug_bind.
    - apply nb_lax_walk; [rewrite s_len_length; lia|exact L0].
    - intros (((restf, nxf), frf), er) Ew.
      destruct (lax_walk_collect _ _ _ _ _ _ _ _ _ Ew) as (A1 & _). nb. }
  destruct (IPN_HOP_BY_HOP =? nh) eqn:Eh.
  - pose proof (nb_raw s) as NR.
    destruct (Ipv6RawExtHeaderSlice.from_slice s) as [sl|[l|c]|b] eqn:E; cbn [bind].
    + pose proof (raw_wf _ _ E) as ((b & _ & Lb) & S). pose proof (sub_of_len _ _ S).
      destruct (s_len sl <=? s_len s) eqn:El; [|lia]. cbn [bind].
      unfold Ipv6RawExtHeaderSlice.next_header.
      destruct (AccessProofs.rdU_ok sl 0) as (x & Ex); [lia|]. rewrite Ex. cbn [bind].
      apply K. unfold s_len at 1. cbn [snd]. rewrite len_drop. unfold s_len. lia.
    + nb.
    + destruct (raw_ext_shape _ _ E) as (l & X & _). discriminate.
    + exfalso. now apply (NR b).
  - cbn [bind]. apply K. lia.
Qed.

Lemma nb_lax6 s : nobug (LaxIpv6Slice.from_slice s).
Proof.
  unfold LaxIpv6Slice.from_slice. apply nobug_bind; [apply nb_ipv6h|]. intros h Eh.
  pose proof (ipv6h_wf _ _ Eh) as (W & S). unfold wf_ipv6h in W. pose proof (sub_of_len _ _ S).
  unfold Ipv6HeaderSlice.payload_length.
  destruct (AccessProofs.rd16_ok h 4) as (pl & Epl); [lia|]. rewrite Epl. cbn [bind].
  assert (K : forall t : slice * len_source * bool,
            nobug (let '(header_payload, src, incomplete) := t in
                   LaxIpv6Slice.finish h header_payload src incomplete)).
  { intros ((hp, src), inc). unfold LaxIpv6Slice.finish, Ipv6HeaderSlice.next_header. nb.
    apply nobug_bind; [apply nb_lax_exts|]. intros (((x0, n), r), st) _. apply nobug_Ok. }
  cbv zeta. nb; apply K.
Qed.

(* ---- hypothesis-free "copies agree" ---------------------------------------------------------- *)
Theorem v6lax_eq_lax6_all s :
  Ipv6SliceLax.from_slice_lax s = v6lax_of_lax6 (LaxIpv6Slice.from_slice s).
Proof. apply v6lax_eq_lax6, nb_lax6. Qed.

Theorem v6lax_eq_lax_ip_arm_all o b rest :
  N.shiftr b 4 = 6 ->
  Ipv6SliceLax.from_slice_lax (o, b :: rest) = v6lax_of_lax_ip (LaxIpSlice.from_slice (o, b :: rest)).
Proof.
  intros N6. apply v6lax_eq_lax_ip_arm; [exact N6|]. intros bg E.
  assert (HF : F11 (b :: rest) = false).
  { unfold F11. destruct (N.shiftr b 4 =? 4) eqn:C; [lia|reflexivity]. }
  pose proof (lax_ip_dispatch o b rest HF) as D. rewrite E in D.
  unfold lax_ip_specific in D. rewrite N6 in D. cbn [N.eqb Pos.eqb] in D.
  pose proof (nb_lax6 (o, b :: rest)) as NB.
  destruct (LaxIpv6Slice.from_slice (o, b :: rest)) as [[lv st]|e|b']; cbn [rmap same_answer] in D;
    try contradiction.
  now apply (NB b').
Qed.

Theorem lax6_never_bug s nh :
  nobug (LaxIpv6Slice.from_slice s) /\ nobug (LaxIpv6Exts.from_slice_lax nh s).
Proof. split; [apply nb_lax6|apply nb_lax_exts]. Qed.
