(* Equiv/ShiftProofs.v -- C06 group 1a: SlicedPacket::from_ethernet against
   SlicedPacket::from_ether_type on the bytes behind the Ethernet II header.

   The slicers never look at the pointer of the slice they are given except to
   derive the pointers of sub-slices and pointer differences; so moving the
   input by k bytes moves every window of the answer by k bytes, and a cursor
   that starts with offset k reports every layer_start_offset k bytes later.
   This is proved function by function for the whole strict slicing stack. *)
From EP Require Import Base.Bytes Parse.Types Parse.Slices Parse.Cursor Parse.View Equiv.Model.
From Coq Require Import ZArith Lia ZifyN ZifyBool.
Import SlicedPacketCursor.

Local Open Scope N_scope.

(* ---- moving a slice -------------------------------------------------------- *)
Definition sh (k : N) (s : slice) : slice := (fst s + k, snd s).
Arguments sh : simpl never.

Lemma s_len_sh k s : s_len (sh k s) = s_len s. Proof. reflexivity. Qed.
Lemma s_off_sh k s : s_off (sh k s) = s_off s + k. Proof. reflexivity. Qed.
Lemma snd_sh k s : snd (sh k s) = snd s. Proof. reflexivity. Qed.
Lemma fst_sh k s : fst (sh k s) = fst s + k. Proof. reflexivity. Qed.
Lemma rdU_sh k s i : rdU (sh k s) i = rdU s i. Proof. reflexivity. Qed.
Lemma rd16_sh k s i : rd16 (sh k s) i = rd16 s i. Proof. reflexivity. Qed.

Lemma subU_sh k s a n : subU (sh k s) a n = rmap (sh k) (subU s a n).
Proof.
  unfold subU. rewrite s_len_sh. destruct (a + n <=? s_len s); [|reflexivity].
  cbn [rmap]. unfold sh. cbn [fst snd]. f_equal. f_equal. lia.
Qed.

Lemma win_sh k s : win_of (sh k s) = shw k (win_of s).
Proof. reflexivity. Qed.

Ltac shrw :=
  rewrite ?s_len_sh, ?rdU_sh, ?rd16_sh, ?snd_sh, ?subU_sh.

(* destruct the next shift-free scrutinee *)
Ltac nosh t := lazymatch t with context [sh] => fail | _ => idtac end.
Ltac noif t := lazymatch t with (if _ then _ else _) => fail | _ => idtac end.
Ltac step :=
  match goal with
  | |- context [if ?c then _ else _] => nosh c; destruct c
  | |- context [bind ?r _] => nosh r; noif r; destruct r as [?|[?|?]|?]
  | |- context [rmap _ ?r] => nosh r; noif r; destruct r as [?|[?|?]|?]
  | |- context [map_len_err _ ?r] => nosh r; noif r; destruct r as [?|[?|?]|?]
  end; cbn [bind rmap map_len_err].
Ltac steps := unfold lerr; cbn [bind rmap map_len_err]; shrw; repeat (step; shrw); try reflexivity.

(* ---- shifted values of the slicing model ---------------------------------- *)
Definition sh_ep k (e : ether_payload) : ether_payload :=
  mkEtherPayload (ep_ether_type e) (ep_src e) (sh k (ep_slice e)).
Definition sh_ipp k (p : ip_payload) : ip_payload :=
  mkIpPayload (ipp_number p) (ipp_fragmented p) (ipp_src p) (sh k (ipp_slice p)).
Definition sh_mp k (m : macsec_payload) : macsec_payload :=
  match m with MpUnmodified e => MpUnmodified (sh_ep k e) | MpModified s => MpModified (sh k s) end.
Definition sh_ms k (m : macsec_slice) : macsec_slice :=
  mkMacsecSlice (sh k (ms_header m)) (sh_mp k (ms_payload m)).
Definition sh_v4 k (v : ipv4_slice) : ipv4_slice :=
  mkIpv4Slice (sh k (v4_header v)) (option_map (sh k) (v4_auth v)) (sh_ipp k (v4_payload v)).
Definition sh_x6 k (x : ipv6_exts_slice) : ipv6_exts_slice :=
  mkIpv6Exts (x6_first x) (x6_fragmented x) (sh k (x6_slice x)).
Definition sh_v6 k (v : ipv6_slice) : ipv6_slice :=
  mkIpv6Slice (sh k (v6_header v)) (sh_x6 k (v6_exts v)) (sh_ipp k (v6_payload v)).
Definition sh_lext k (x : link_ext_slice) : link_ext_slice :=
  match x with LeVlan s => LeVlan (sh k s) | LeMacsec m => LeMacsec (sh_ms k m) end.
Definition sh_net k (n : net_slice) : net_slice :=
  match n with
  | NtIpv4 v => NtIpv4 (sh_v4 k v) | NtIpv6 v => NtIpv6 (sh_v6 k v) | NtArp s => NtArp (sh k s)
  end.
Definition sh_tr k (t : transport_slice) : transport_slice :=
  match t with
  | TrUdp s => TrUdp (sh k s) | TrTcp hl s => TrTcp hl (sh k s)
  | TrIcmpv4 s => TrIcmpv4 (sh k s) | TrIcmpv6 s => TrIcmpv6 (sh k s)
  end.

(* ---- single-layer slicers -------------------------------------------------- *)
Lemma vlan_from_slice_sh k s :
  SingleVlanSlice.from_slice (sh k s) = rmap (sh k) (SingleVlanSlice.from_slice s).
Proof. unfold SingleVlanSlice.from_slice. steps. Qed.

Lemma vlan_payload_sh k s :
  SingleVlanSlice.payload (sh k s) = rmap (sh_ep k) (SingleVlanSlice.payload s).
Proof.
  unfold SingleVlanSlice.payload, SingleVlanSlice.ether_type, SingleVlanSlice.payload_slice. steps.
Qed.

Lemma macsec_header_sh k s :
  Macsec.header_from_slice (sh k s) = rmap (sh k) (Macsec.header_from_slice s).
Proof. unfold Macsec.header_from_slice. steps. Qed.

Lemma macsec_epl_sh k h : Macsec.expected_payload_len (sh k h) = Macsec.expected_payload_len h.
Proof. reflexivity. Qed.
Lemma macsec_net_sh k h : Macsec.next_ether_type (sh k h) = Macsec.next_ether_type h.
Proof. reflexivity. Qed.
Lemma macsec_hl_sh k h : Macsec.header_len (sh k h) = Macsec.header_len h.
Proof. reflexivity. Qed.
Lemma macsec_sl_sh k h : Macsec.short_len (sh k h) = Macsec.short_len h.
Proof. reflexivity. Qed.

Lemma macsec_from_slice_sh k s :
  Macsec.from_slice (sh k s) = rmap (sh_ms k) (Macsec.from_slice s).
Proof.
  unfold Macsec.from_slice. rewrite macsec_header_sh.
  destruct (Macsec.header_from_slice s) as [h|[?|?]|?]; cbn [bind rmap]; try reflexivity.
  rewrite macsec_epl_sh, macsec_net_sh.
  destruct (Macsec.expected_payload_len h) as [[n|]|[?|?]|?]; cbn [bind rmap]; try reflexivity.
  - shrw. destruct (s_len s <? s_len h + n); [reflexivity|].
    destruct (subU s (s_len h) n) as [p|[?|?]|?]; cbn [bind rmap]; try reflexivity.
    destruct (Macsec.next_ether_type h) as [[et|]|[?|?]|?]; reflexivity.
  - shrw. destruct (subN (s_len s) (s_len h)) as [n|[?|?]|?]; cbn [bind rmap]; try reflexivity.
    shrw. destruct (subU s (s_len h) n) as [p|[?|?]|?]; cbn [bind rmap]; try reflexivity.
    destruct (Macsec.next_ether_type h) as [[et|]|[?|?]|?]; reflexivity.
Qed.

Lemma arp_from_slice_sh k s :
  ArpPacketSlice.from_slice (sh k s) = rmap (sh k) (ArpPacketSlice.from_slice s).
Proof. unfold ArpPacketSlice.from_slice. steps. Qed.

Lemma v4h_from_slice_sh k s :
  Ipv4HeaderSlice.from_slice (sh k s) = rmap (sh k) (Ipv4HeaderSlice.from_slice s).
Proof. unfold Ipv4HeaderSlice.from_slice. steps. Qed.

Lemma auth_from_slice_sh k s :
  IpAuthHeaderSlice.from_slice (sh k s) = rmap (sh k) (IpAuthHeaderSlice.from_slice s).
Proof. unfold IpAuthHeaderSlice.from_slice. steps. Qed.

Lemma v4_finish_sh k h hp :
  Ipv4Slice.finish (sh k h) (sh k hp) = rmap (sh_v4 k) (Ipv4Slice.finish h hp).
Proof.
  unfold Ipv4Slice.finish.
  change (Ipv4HeaderSlice.is_fragmenting_payload (sh k h)) with (Ipv4HeaderSlice.is_fragmenting_payload h).
  change (Ipv4HeaderSlice.protocol (sh k h)) with (Ipv4HeaderSlice.protocol h).
  rewrite auth_from_slice_sh.
  destruct (Ipv4HeaderSlice.is_fragmenting_payload h) as [fr|[?|?]|?]; cbn [bind rmap]; try reflexivity.
  destruct (Ipv4HeaderSlice.protocol h) as [proto|[?|?]|?]; cbn [bind rmap]; try reflexivity.
  destruct (proto =? IPN_AUTH); [|reflexivity].
  destruct (IpAuthHeaderSlice.from_slice hp) as [a|[?|?]|?]; cbn [bind rmap]; try reflexivity.
  change (IpAuthHeaderSlice.next_header (sh k a)) with (IpAuthHeaderSlice.next_header a).
  steps.
Qed.

Lemma v4_from_slice_sh k s :
  Ipv4Slice.from_slice (sh k s) = rmap (sh_v4 k) (Ipv4Slice.from_slice s).
Proof.
  unfold Ipv4Slice.from_slice. rewrite v4h_from_slice_sh.
  destruct (Ipv4HeaderSlice.from_slice s) as [h|[?|?]|?]; cbn [bind rmap]; try reflexivity.
  change (Ipv4HeaderSlice.total_len (sh k h)) with (Ipv4HeaderSlice.total_len h).
  destruct (Ipv4HeaderSlice.total_len h) as [tl|[?|?]|?]; cbn [bind rmap]; try reflexivity.
  shrw. destruct (tl <? s_len h); [reflexivity|]. destruct (s_len s <? tl); [reflexivity|].
  destruct (subN tl (s_len h)) as [n|[?|?]|?]; cbn [bind rmap]; try reflexivity.
  shrw. destruct (subU s (s_len h) n) as [hp|[?|?]|?]; cbn [bind rmap]; try reflexivity.
  apply v4_finish_sh.
Qed.

Lemma v6h_from_slice_sh k s :
  Ipv6HeaderSlice.from_slice (sh k s) = rmap (sh k) (Ipv6HeaderSlice.from_slice s).
Proof. unfold Ipv6HeaderSlice.from_slice. steps. Qed.

Lemma raw_from_slice_sh k s :
  Ipv6RawExtHeaderSlice.from_slice (sh k s) = rmap (sh k) (Ipv6RawExtHeaderSlice.from_slice s).
Proof.
  unfold Ipv6RawExtHeaderSlice.from_slice. shrw.
  destruct (s_len s <? 8); [reflexivity|].
  destruct (rd (snd s) 1); cbn [bind rmap]; [|reflexivity]. steps.
Qed.

Lemma frag_from_slice_sh k s :
  Ipv6FragmentHeaderSlice.from_slice (sh k s) = rmap (sh k) (Ipv6FragmentHeaderSlice.from_slice s).
Proof. unfold Ipv6FragmentHeaderSlice.from_slice. steps. Qed.

Definition sh_walk k (r : slice * N * bool) : slice * N * bool :=
  let '(s, n, b) := r in (sh k s, n, b).

Lemma walk_sh k fuel : forall start_len rest nh fr,
  Ipv6ExtensionsSlice.walk fuel start_len (sh k rest) nh fr =
  rmap (sh_walk k) (Ipv6ExtensionsSlice.walk fuel start_len rest nh fr).
Proof.
  induction fuel as [|f IH]; intros start_len rest nh fr; [reflexivity|].
  cbn [Ipv6ExtensionsSlice.walk]. shrw.
  rewrite raw_from_slice_sh, frag_from_slice_sh, auth_from_slice_sh.
  destruct (nh =? IPN_HOP_BY_HOP); [reflexivity|].
  destruct ((nh =? IPN_DEST_OPTIONS) || (nh =? IPN_ROUTE)).
  { destruct (subN start_len (s_len rest)) as [off|[?|?]|?]; cbn [bind rmap]; try reflexivity.
    destruct (Ipv6RawExtHeaderSlice.from_slice rest) as [sl|[?|?]|?]; cbn [bind rmap map_len_err]; try reflexivity.
    shrw. destruct (subN (s_len rest) (s_len sl)) as [n|[?|?]|?]; cbn [bind rmap]; try reflexivity.
    shrw. destruct (subU rest (s_len sl) n) as [rest'|[?|?]|?]; cbn [bind rmap]; try reflexivity.
    change (Ipv6RawExtHeaderSlice.next_header (sh k sl)) with (Ipv6RawExtHeaderSlice.next_header sl).
    destruct (Ipv6RawExtHeaderSlice.next_header sl) as [nh'|[?|?]|?]; cbn [bind rmap]; try reflexivity.
    apply IH. }
  destruct (nh =? IPN_FRAG).
  { destruct (subN start_len (s_len rest)) as [off|[?|?]|?]; cbn [bind rmap]; try reflexivity.
    destruct (Ipv6FragmentHeaderSlice.from_slice rest) as [sl|[?|?]|?]; cbn [bind rmap map_len_err]; try reflexivity.
    shrw. destruct (subN (s_len rest) (s_len sl)) as [n|[?|?]|?]; cbn [bind rmap]; try reflexivity.
    shrw. destruct (subU rest (s_len sl) n) as [rest'|[?|?]|?]; cbn [bind rmap]; try reflexivity.
    change (Ipv6FragmentHeaderSlice.next_header (sh k sl)) with (Ipv6FragmentHeaderSlice.next_header sl).
    change (Ipv6FragmentHeaderSlice.is_fragmenting_payload (sh k sl))
      with (Ipv6FragmentHeaderSlice.is_fragmenting_payload sl).
    destruct (Ipv6FragmentHeaderSlice.next_header sl) as [nh'|[?|?]|?]; cbn [bind rmap]; try reflexivity.
    destruct (Ipv6FragmentHeaderSlice.is_fragmenting_payload sl) as [fr'|[?|?]|?]; cbn [bind rmap]; try reflexivity.
    apply IH. }
  destruct (nh =? IPN_AUTH); [|reflexivity].
  destruct (subN start_len (s_len rest)) as [off|[?|?]|?]; cbn [bind rmap]; try reflexivity.
  destruct (IpAuthHeaderSlice.from_slice rest) as [sl|[?|?]|?]; cbn [bind rmap]; try reflexivity.
  shrw. destruct (subN (s_len rest) (s_len sl)) as [n|[?|?]|?]; cbn [bind rmap]; try reflexivity.
  shrw. destruct (subU rest (s_len sl) n) as [rest'|[?|?]|?]; cbn [bind rmap]; try reflexivity.
  change (IpAuthHeaderSlice.next_header (sh k sl)) with (IpAuthHeaderSlice.next_header sl).
  destruct (IpAuthHeaderSlice.next_header sl) as [nh'|[?|?]|?]; cbn [bind rmap]; try reflexivity.
  apply IH.
Qed.

Definition sh_x6r k (r : ipv6_exts_slice * N * slice) : ipv6_exts_slice * N * slice :=
  let '(x, n, s) := r in (sh_x6 k x, n, sh k s).

Lemma x6_from_slice_sh k nh s :
  Ipv6ExtensionsSlice.from_slice nh (sh k s) = rmap (sh_x6r k) (Ipv6ExtensionsSlice.from_slice nh s).
Proof.
  unfold Ipv6ExtensionsSlice.from_slice. shrw. rewrite raw_from_slice_sh.
  assert (Tail : forall rest0 nh0,
    (let* w := Ipv6ExtensionsSlice.walk (S (length (snd s))) (s_len s) (sh k rest0) nh0 false in
     let '(rest, next_header, fragmented) := w in
     let* used := subN (s_len s) (s_len rest) in
     let* sl := (if used <=? s_len s then Ok (fst (sh k s), take used (snd s)) else Bug SITE_INDEX) in
     Ok (mkIpv6Exts (if negb (s_len rest =? s_len s) then Some nh else None) fragmented sl,
         next_header, rest)) =
    rmap (sh_x6r k)
      (let* w := Ipv6ExtensionsSlice.walk (S (length (snd s))) (s_len s) rest0 nh0 false in
       let '(rest, next_header, fragmented) := w in
       let* used := subN (s_len s) (s_len rest) in
       let* sl := (if used <=? s_len s then Ok (fst s, take used (snd s)) else Bug SITE_INDEX) in
       Ok (mkIpv6Exts (if negb (s_len rest =? s_len s) then Some nh else None) fragmented sl,
           next_header, rest))).
  { intros rest0 nh0. rewrite walk_sh.
    destruct (Ipv6ExtensionsSlice.walk (S (length (snd s))) (s_len s) rest0 nh0 false)
      as [[[rest nx] fr]|[?|?]|?]; cbn [bind rmap sh_walk]; try reflexivity.
    shrw. destruct (subN (s_len s) (s_len rest)) as [used|[?|?]|?]; cbn [bind rmap]; try reflexivity.
    destruct (used <=? s_len s); reflexivity. }
  destruct (IPN_HOP_BY_HOP =? nh).
  - destruct (Ipv6RawExtHeaderSlice.from_slice s) as [sl|[?|?]|?]; cbn [bind rmap]; try reflexivity.
    shrw. destruct (s_len sl <=? s_len s); cbn [bind rmap]; [|reflexivity].
    change (Ipv6RawExtHeaderSlice.next_header (sh k sl)) with (Ipv6RawExtHeaderSlice.next_header sl).
    destruct (Ipv6RawExtHeaderSlice.next_header sl) as [nh'|[?|?]|?]; cbn [bind rmap]; try reflexivity.
    change (fst (sh k s) + s_len sl, drop (s_len sl) (snd s))
      with (fst s + k + s_len sl, drop (s_len sl) (snd s)).
    replace (fst s + k + s_len sl, drop (s_len sl) (snd s))
      with (sh k (fst s + s_len sl, drop (s_len sl) (snd s)))
      by (unfold sh; cbn [fst snd]; f_equal; lia).
    apply Tail.
  - cbn [bind]. apply Tail.
Qed.

Lemma v6_finish_sh k s h :
  Ipv6Slice.finish (sh k s) (sh k h) = rmap (sh_v6 k) (Ipv6Slice.finish s h).
Proof.
  unfold Ipv6Slice.finish.
  change (Ipv6HeaderSlice.payload_length (sh k h)) with (Ipv6HeaderSlice.payload_length h).
  change (Ipv6HeaderSlice.next_header (sh k h)) with (Ipv6HeaderSlice.next_header h).
  destruct (Ipv6HeaderSlice.payload_length h) as [pl|[?|?]|?]; cbn [bind rmap]; try reflexivity.
  shrw.
  assert (Tail : forall hp src,
    (let* nh := Ipv6HeaderSlice.next_header h in
     let* x := match Ipv6ExtensionsSlice.from_slice nh (sh k hp) with
               | Err (ELen e) => Err (ELen (le_add_offset (le_set_src e src) 40))
               | r => r end in
     let '(exts, payload_ip_number, payload) := x in
     Ok (mkIpv6Slice (sh k h) exts
           (mkIpPayload payload_ip_number (x6_fragmented exts) src payload))) =
    rmap (sh_v6 k)
      (let* nh := Ipv6HeaderSlice.next_header h in
       let* x := match Ipv6ExtensionsSlice.from_slice nh hp with
                 | Err (ELen e) => Err (ELen (le_add_offset (le_set_src e src) 40))
                 | r => r end in
       let '(exts, payload_ip_number, payload) := x in
       Ok (mkIpv6Slice h exts
             (mkIpPayload payload_ip_number (x6_fragmented exts) src payload)))).
  { intros hp src.
    destruct (Ipv6HeaderSlice.next_header h) as [nh|[?|?]|?]; cbn [bind rmap]; try reflexivity.
    rewrite x6_from_slice_sh.
    destruct (Ipv6ExtensionsSlice.from_slice nh hp) as [[[x n] p]|[?|?]|?]; cbn [bind rmap sh_x6r];
      reflexivity. }
  destruct ((0 =? pl) && (40 <? s_len s)).
  - destruct (subN (s_len s) 40) as [n|[?|?]|?]; cbn [bind rmap]; try reflexivity.
    shrw. destruct (subU s 40 n) as [p|[?|?]|?]; cbn [bind rmap]; try reflexivity.
    apply Tail.
  - destruct (s_len s <? 40 + pl); [reflexivity|].
    destruct (subU s 40 pl) as [p|[?|?]|?]; cbn [bind rmap]; try reflexivity.
    apply Tail.
Qed.

Lemma v6_from_slice_sh k s :
  Ipv6Slice.from_slice (sh k s) = rmap (sh_v6 k) (Ipv6Slice.from_slice s).
Proof.
  unfold Ipv6Slice.from_slice. rewrite v6h_from_slice_sh.
  destruct (Ipv6HeaderSlice.from_slice s) as [h|[?|?]|?]; cbn [bind rmap]; try reflexivity.
  apply v6_finish_sh.
Qed.

Lemma udp_from_slice_sh k s : UdpSlice.from_slice (sh k s) = rmap (sh k) (UdpSlice.from_slice s).
Proof.
  unfold UdpSlice.from_slice, UdpSlice.header_from_slice. shrw.
  destruct (s_len s <? 8); [reflexivity|].
  destruct (subU s 0 8) as [h|[?|?]|?]; cbn [bind rmap]; try reflexivity.
  change (UdpSlice.length (sh k h)) with (UdpSlice.length h).
  destruct (UdpSlice.length h) as [l|[?|?]|?]; cbn [bind rmap]; try reflexivity.
  shrw. destruct (s_len s <? l); [reflexivity|]. destruct (l =? 0); [reflexivity|].
  destruct (l <? 8); [reflexivity|]. reflexivity.
Qed.

Definition sh_tcp k (r : N * slice) : N * slice := (fst r, sh k (snd r)).
Lemma tcp_from_slice_sh k s : TcpSlice.from_slice (sh k s) = rmap (sh_tcp k) (TcpSlice.from_slice s).
Proof. unfold TcpSlice.from_slice. steps. Qed.

Lemma icmp4_from_slice_sh k s : Icmpv4Slice.from_slice (sh k s) = rmap (sh k) (Icmpv4Slice.from_slice s).
Proof. unfold Icmpv4Slice.from_slice. steps. Qed.

Lemma icmp6_from_slice_sh k s : Icmpv6Slice.from_slice (sh k s) = rmap (sh k) (Icmpv6Slice.from_slice s).
Proof. unfold Icmpv6Slice.from_slice. steps. Qed.

(* ---- the cursor ------------------------------------------------------------ *)
(* packets related up to the link layer, which the two entry points fill in
   differently *)
Definition prel k (p1 p2 : sliced_packet) : Prop :=
  sp_exts p1 = map (sh_lext k) (sp_exts p2) /\
  sp_net p1 = option_map (sh_net k) (sp_net p2) /\
  sp_transport p1 = option_map (sh_tr k) (sp_transport p2).

Definition crel k (c1 c2 : cursor) : Prop :=
  c_offset c1 = c_offset c2 + k /\ c_src c1 = c_src c2 /\ prel k (c_result c1) (c_result c2).

Definition rrel k (r1 r2 : res sliced_packet) : Prop :=
  match r1, r2 with
  | Ok p1, Ok p2 => prel k p1 p2
  | Err e1, Err e2 => e1 = shift_err k e2
  | Bug a, Bug b => a = b
  | _, _ => False
  end.

Lemma add_offset_shift k o1 o2 l :
  o1 = o2 + k -> le_add_offset l o1 = le_add_offset (le_add_offset l o2) k.
Proof. intros ->. unfold le_add_offset. cbn. f_equal. lia. Qed.

Lemma tr_fix_shift k c1 c2 l :
  crel k c1 c2 -> tr_fix c1 l = le_add_offset (tr_fix c2 l) k.
Proof.
  intros (Ho & Hs & _). unfold tr_fix, le_add_offset, le_set_src. cbn.
  rewrite Ho, Hs. destruct (le_src l); cbn; f_equal; lia.
Qed.

Lemma tr_generic k c1 c2 (A : Type) (r : res A) (shA : A -> A) (mk : A -> transport_slice) :
  crel k c1 c2 -> (forall a, mk (shA a) = sh_tr k (mk a)) ->
  rrel k (let* x := map_len_err (tr_fix c1) (rmap shA r) in Ok (set_transport c1 (mk x)))
         (let* x := map_len_err (tr_fix c2) r in Ok (set_transport c2 (mk x))).
Proof.
  intros C M. destruct r as [a|[l|c]|b]; cbn.
  - destruct C as (_ & _ & (E1 & E2 & _)). unfold prel. cbn. rewrite M. auto.
  - f_equal. now apply tr_fix_shift.
  - reflexivity.
  - reflexivity.
Qed.

Lemma transport_dispatch_sh k c1 c2 p :
  crel k c1 c2 -> rrel k (transport_dispatch c1 (sh_ipp k p)) (transport_dispatch c2 p).
Proof.
  intros C. unfold transport_dispatch. cbn [sh_ipp ipp_fragmented ipp_number ipp_slice].
  destruct (ipp_fragmented p); [exact (proj2 (proj2 C))|].
  destruct (ipp_number p =? IPN_ICMP).
  { unfold slice_icmp4. rewrite icmp4_from_slice_sh. now apply (tr_generic k c1 c2 slice _ (sh k) TrIcmpv4). }
  destruct (ipp_number p =? IPN_UDP).
  { unfold slice_udp. rewrite udp_from_slice_sh. now apply (tr_generic k c1 c2 slice _ (sh k) TrUdp). }
  destruct (ipp_number p =? IPN_TCP).
  { unfold slice_tcp. rewrite tcp_from_slice_sh.
    now apply (tr_generic k c1 c2 (N * slice)%type _ (sh_tcp k) (fun r => TrTcp (fst r) (snd r))). }
  destruct (ipp_number p =? IPN_ICMPV6).
  { unfold slice_icmp6. rewrite icmp6_from_slice_sh. now apply (tr_generic k c1 c2 slice _ (sh k) TrIcmpv6). }
  exact (proj2 (proj2 C)).
Qed.

Lemma ptr_diff_sh k p s : ptr_diff (sh k p) (sh k s) = ptr_diff p s.
Proof.
  unfold ptr_diff, subN. rewrite !s_off_sh.
  destruct (s_off s + k <=? s_off p + k) eqn:E1, (s_off s <=? s_off p) eqn:E2; try lia; [|reflexivity].
  f_equal. lia.
Qed.

Lemma crel_set_net k c1 c2 o1 o2 src n :
  crel k c1 c2 -> o1 = o2 + k -> crel k (set_net c1 o1 src (sh_net k n)) (set_net c2 o2 src n).
Proof.
  intros (_ & _ & (E1 & _ & E3)) ->. unfold crel, prel, set_net. cbn. auto.
Qed.

Lemma slice_arp_sh k c1 c2 s :
  crel k c1 c2 -> rrel k (slice_arp c1 (sh k s)) (slice_arp c2 s).
Proof.
  intros C. unfold slice_arp. rewrite arp_from_slice_sh.
  destruct (ArpPacketSlice.from_slice s) as [r|[l|c]|b]; cbn.
  - destruct C as (_ & _ & (E1 & _ & E3)). unfold prel. cbn. auto.
  - f_equal. apply add_offset_shift. exact (proj1 C).
  - reflexivity.
  - reflexivity.
Qed.

Lemma slice_ipv4_sh k c1 c2 s :
  crel k c1 c2 -> rrel k (slice_ipv4 c1 (sh k s)) (slice_ipv4 c2 s).
Proof.
  intros C. unfold slice_ipv4. rewrite v4_from_slice_sh.
  destruct (Ipv4Slice.from_slice s) as [ip|[l|c]|b]; cbn [rmap map_len_err bind].
  - change (ipp_slice (v4_payload (sh_v4 k ip))) with (sh k (ipp_slice (v4_payload ip))).
    rewrite ptr_diff_sh.
    unfold ptr_diff, subN.
    destruct (s_off s <=? s_off (ipp_slice (v4_payload ip))); cbn [bind]; [|reflexivity].
    change (v4_payload (sh_v4 k ip)) with (sh_ipp k (v4_payload ip)).
    apply transport_dispatch_sh.
    apply (crel_set_net k c1 c2 _ _ _ (NtIpv4 ip) C). destruct C as (-> & _). lia.
  - cbn. f_equal. apply add_offset_shift. exact (proj1 C).
  - reflexivity.
  - reflexivity.
Qed.

Lemma slice_ipv6_sh k c1 c2 s :
  crel k c1 c2 -> rrel k (slice_ipv6 c1 (sh k s)) (slice_ipv6 c2 s).
Proof.
  intros C. unfold slice_ipv6. rewrite v6_from_slice_sh.
  destruct (Ipv6Slice.from_slice s) as [ip|[l|c]|b]; cbn [rmap map_len_err bind].
  - change (ipp_slice (v6_payload (sh_v6 k ip))) with (sh k (ipp_slice (v6_payload ip))).
    rewrite ptr_diff_sh.
    unfold ptr_diff, subN.
    destruct (s_off s <=? s_off (ipp_slice (v6_payload ip))); cbn [bind]; [|reflexivity].
    change (v6_payload (sh_v6 k ip)) with (sh_ipp k (v6_payload ip)).
    apply transport_dispatch_sh.
    apply (crel_set_net k c1 c2 _ _ _ (NtIpv6 ip) C). destruct C as (-> & _). lia.
  - cbn. f_equal. apply add_offset_shift. exact (proj1 C).
  - reflexivity.
  - reflexivity.
Qed.

Lemma len_map {A B} (f : A -> B) l : len (map f l) = len l.
Proof. unfold len. now rewrite map_length. Qed.

Lemma push_ext_sh k c1 c2 o1 o2 src x :
  crel k c1 c2 -> o1 = o2 + k ->
  match push_ext c1 o1 src (sh_lext k x), push_ext c2 o2 src x with
  | Ok a, Ok b => crel k a b
  | Bug a, Bug b => a = b
  | _, _ => False
  end.
Proof.
  intros (_ & _ & (E1 & E2 & E3)) ->. unfold push_ext. rewrite E1, len_map.
  destruct (len (sp_exts (c_result c2)) <? LINK_EXTS_CAP); [|reflexivity].
  unfold crel, prel. cbn. rewrite map_app. cbn. auto.
Qed.

Ltac noerr_tac :=
  repeat (match goal with |- context [match ?x with _ => _ end] => destruct x end; cbn [bind]);
  discriminate.

Lemma vlan_payload_noerr s e : SingleVlanSlice.payload s <> Err e.
Proof.
  unfold SingleVlanSlice.payload, SingleVlanSlice.ether_type, SingleVlanSlice.payload_slice,
    rd16, rdU, subN, subU. noerr_tac.
Qed.

Lemma macsec_hl_noerr h e : Macsec.header_len h <> Err e.
Proof.
  unfold Macsec.header_len, Macsec.sci_present, Macsec.is_unmodified, Macsec.tci_an_raw, rdU.
  noerr_tac.
Qed.

Lemma macsec_sl_noerr h e : Macsec.short_len h <> Err e.
Proof. unfold Macsec.short_len, rdU. noerr_tac. Qed.

Lemma loop_sh k fuel : forall c1 c2 ep,
  crel k c1 c2 ->
  rrel k (slice_ether_type_loop fuel c1 (sh_ep k ep)) (slice_ether_type_loop fuel c2 ep).
Proof.
  induction fuel as [|f IH]; intros c1 c2 ep C; [reflexivity|].
  cbn [slice_ether_type_loop]. cbn [sh_ep ep_ether_type ep_slice].
  pose proof C as (Ho & Hs & (E1 & E2 & E3)).
  rewrite E1, len_map.
  destruct (is_vlan_type (ep_ether_type ep)).
  { destruct (LINK_EXTS_CAP <=? len (sp_exts (c_result c2))); [exact (proj2 (proj2 C))|].
    rewrite vlan_from_slice_sh.
    destruct (SingleVlanSlice.from_slice (ep_slice ep)) as [vlan|[l|c]|b]; cbn [rmap map_len_err bind].
    - rewrite vlan_payload_sh.
      destruct (SingleVlanSlice.payload vlan) as [vp|e|?] eqn:Ep; cbn [rmap bind];
        [|exfalso; exact (vlan_payload_noerr _ _ Ep)|reflexivity].
      rewrite Hs.
      pose proof (push_ext_sh k c1 c2 (c_offset c1 + SingleVlanSlice.header_len)
                    (c_offset c2 + SingleVlanSlice.header_len) (c_src c2) (LeVlan vlan) C) as P.
      cbn [sh_lext] in P.
      destruct (push_ext c1 _ _ _) as [a|?|?], (push_ext c2 _ _ _) as [b|?|?]; cbn [bind];
        try (exfalso; apply P; lia); try (apply P; lia).
      apply IH. apply P. lia.
    - cbn. f_equal. now apply add_offset_shift.
    - reflexivity.
    - reflexivity. }
  destruct (ep_ether_type ep =? ET_MACSEC).
  { destruct (LINK_EXTS_CAP <=? len (sp_exts (c_result c2))); [exact (proj2 (proj2 C))|].
    rewrite macsec_from_slice_sh.
    destruct (Macsec.from_slice (ep_slice ep)) as [m|[l|c]|b]; cbn [rmap map_len_err bind].
    - change (ms_header (sh_ms k m)) with (sh k (ms_header m)).
      rewrite macsec_hl_sh, macsec_sl_sh.
      destruct (Macsec.header_len (ms_header m)) as [hl|e|?] eqn:Ehl; cbn [bind];
        [|exfalso; exact (macsec_hl_noerr _ _ Ehl)|reflexivity].
      destruct (Macsec.short_len (ms_header m)) as [sl|e|?] eqn:Esl; cbn [bind];
        [|exfalso; exact (macsec_sl_noerr _ _ Esl)|reflexivity].
      rewrite Hs.
      pose proof (push_ext_sh k c1 c2 (c_offset c1 + hl) (c_offset c2 + hl)
                    (if 0 <? sl then LsMacsecShortLength else c_src c2) (LeMacsec m) C) as P.
      cbn [sh_lext] in P.
      destruct (push_ext c1 _ _ _) as [a|?|?], (push_ext c2 _ _ _) as [b|?|?]; cbn [bind];
        try (exfalso; apply P; lia); try (apply P; lia).
      change (ms_payload (sh_ms k m)) with (sh_mp k (ms_payload m)).
      destruct (ms_payload m) as [e|s]; cbn [sh_mp].
      + apply IH. apply P. lia.
      + assert (Cab : crel k a b) by (apply P; lia). exact (proj2 (proj2 Cab)).
    - cbn. f_equal. now apply add_offset_shift.
    - reflexivity.
    - reflexivity. }
  destruct (ep_ether_type ep =? ET_ARP); [now apply slice_arp_sh|].
  destruct (ep_ether_type ep =? ET_IPV4); [now apply slice_ipv4_sh|].
  destruct (ep_ether_type ep =? ET_IPV6); [now apply slice_ipv6_sh|].
  exact (proj2 (proj2 C)).
Qed.

(* ---- views ------------------------------------------------------------------ *)
Lemma view_ext_sh k x : view_ext (sh_lext k x) = shift_vext k (view_ext x).
Proof. destruct x as [s|[h [e|s]]]; reflexivity. Qed.

Lemma view_net_sh k n : view_net (sh_net k n) = shift_vnet k (view_net n).
Proof. destruct n as [[h [a|] p]|v|s]; reflexivity. Qed.

Lemma view_tr_sh k t : view_tr (sh_tr k t) = shift_vtr k (view_tr t).
Proof. destruct t; reflexivity. Qed.

Lemma rrel_view k r1 r2 :
  rrel k r1 r2 -> nolink (vres_of r1) = shift_vres k (nolink (vres_of r2)).
Proof.
  destruct r1 as [p1|e1|b1], r2 as [p2|e2|b2]; cbn; try contradiction.
  - intros (E1 & E2 & E3). unfold shift_vpacket, view. cbn. rewrite E1, E2, E3.
    f_equal. f_equal.
    + rewrite !map_map. apply map_ext. intros x. apply view_ext_sh.
    + destruct (sp_net p2); cbn; [now rewrite view_net_sh|reflexivity].
    + destruct (sp_transport p2); cbn; [now rewrite view_tr_sh|reflexivity].
  - intros ->. reflexivity.
  - intros ->. reflexivity.
Qed.

(* ---- the theorem ------------------------------------------------------------ *)
Lemma take_all' {A} n (l : list A) : len l <= n -> take n l = l.
Proof. intros H. unfold take. apply firstn_all2. unfold len in H. lia. Qed.

Theorem ethernet_eq_ethertype bs a b :
  rd bs 12 = Some a -> rd bs 13 = Some b ->
  nolink (vres_of (SlicedPacket.from_ethernet bs)) =
  shift_vres 14 (nolink (vres_of (SlicedPacket.from_ether_type (be16 a b) (drop 14 bs)))).
Proof.
  intros Ha Hb. apply rrel_view.
  pose proof (rd_Some_lt _ _ _ Hb) as L.
  unfold SlicedPacket.from_ethernet, SlicedPacket.from_ether_type, slice_ethernet2, slice_ether_type.
  unfold Ethernet2Slice.from_slice_without_fcs.
  change (s_len (mk_slice bs)) with (len bs).
  destruct (len bs <? 14) eqn:E14; [lia|]. cbn [map_len_err bind].
  unfold Ethernet2Slice.payload, Ethernet2Slice.ether_type, Ethernet2Slice.payload_slice, rd16, rdU.
  cbn [snd mk_slice]. rewrite Ha. cbn [bind].
  change (12 + 1) with 13. rewrite Hb. cbn [bind].
  unfold subN, subU. change (s_len (mk_slice bs)) with (len bs).
  change (fst (mk_slice bs)) with 0. change (snd (mk_slice bs)) with bs.
  destruct (14 <=? len bs) eqn:E14'; [|lia]. cbn [bind].
  destruct (14 + (len bs - 14) <=? len bs) eqn:E14''; [|lia]. cbn [bind].
  rewrite take_all' by (rewrite len_drop; lia).
  change (0 + 14, drop 14 bs) with (sh 14 (mk_slice (drop 14 bs))).
  change (mkEtherPayload (be16 a b) LsSlice (sh 14 (mk_slice (drop 14 bs))))
    with (sh_ep 14 (mkEtherPayload (be16 a b) LsSlice (mk_slice (drop 14 bs)))).
  apply loop_sh.
  unfold crel, prel, set_link, new. cbn. repeat split.
Qed.

Theorem ethernet_short bs :
  len bs < 14 ->
  SlicedPacket.from_ethernet bs = Err (ELen (mkLenError 14 (len bs) LsSlice LyEthernet2Header 0)).
Proof.
  intros H. unfold SlicedPacket.from_ethernet, slice_ethernet2, Ethernet2Slice.from_slice_without_fcs.
  change (s_len (mk_slice bs)) with (len bs).
  destruct (len bs <? 14) eqn:E; [|lia]. reflexivity.
Qed.
