(* Equiv/ReadIpHeaders.v -- C06 group 3: IpHeaders::read (first byte, the rest of
   the fixed header, then the extension headers through a LimitedReader bounded by
   total_len / payload_length) against IpHeaders::from_slice. *)
From EP Require Import Base.Bytes Parse.Types Parse.Slices Parse.Cursor Parse.HdrModel Parse.HdrView
  IoFault.Spec IoFault.Model IoFault.Proofs Equiv.Model Equiv.ModelRead Equiv.Proofs Equiv.ReadProofs
  Equiv.ReadBase Equiv.ReadSimple Equiv.ReadChain.
From Coq Require Import ZArith Lia ZifyN ZifyBool.

Local Open Scope N_scope.

(* "the slice holds the announced packet" fails: the fixed header is complete and
   announces (IPv4 total_len, IPv6 40 + payload_length) more bytes than the slice
   has.  from_slice then answers Len(.., Slice, Ipv4Packet / Ipv6Packet); the
   reader never looks at the payload. *)
Definition announced_missing (bs : bytes) : bool :=
  match rd bs 0 with
  | Some b0 =>
      if N.shiftr b0 4 =? 4 then
        (20 <=? len bs) &&
        match rd bs 2, rd bs 3 with Some a, Some b => len bs <? be16 a b | _, _ => false end
      else if N.shiftr b0 4 =? 6 then
        (40 <=? len bs) &&
        match rd bs 4, rd bs 5 with Some a, Some b => len bs <? 40 + be16 a b | _, _ => false end
      else false
  | None => false
  end.

Lemma O_limit mx ls off layer k d p :
  O (PLimit mx ls off layer k) (mk_st d p MPlain) = O k (mk_st d p (MLim (lr_new mx ls off layer))).
Proof. reflexivity. Qed.

Lemma hdr_rd (bs : bytes) n i v : i < n -> rd bs i = Some v ->
  rd (snd (0 + 0, take n (drop 0 bs))) i = Some v.
Proof. intros H E. cbn [snd]. rewrite drop_0'. rewrite rd_take by exact H. exact E. Qed.

Lemma F15_rd bs b0 p0 p1 nh :
  rd bs 0 = Some b0 -> rd bs 4 = Some p0 -> rd bs 5 = Some p1 -> rd bs 6 = Some nh ->
  F15 bs = (N.shiftr b0 4 =? 6) && (p0 =? 0) && (p1 =? 0) &&
           ((nh =? 0) || (nh =? 43) || (nh =? 44) || (nh =? 51) || (nh =? 60)).
Proof.
  destruct bs as [|a0 [|a1 [|a2 [|a3 [|a4 [|a5 [|a6 r]]]]]]]; unfold rd; cbn [N.to_nat Pos.to_nat Pos.iter_op nth_error plus];
    try discriminate.
  intros E0 E4 E5 E6. injection E0 as <-. injection E4 as <-. injection E5 as <-. injection E6 as <-.
  reflexivity.
Qed.

Lemma frag_flag_ok x : x_inv x -> exists b, Ipv6Extensions.is_fragmenting_payload x = Ok b.
Proof.
  intros [_ H]. unfold Ipv6Extensions.is_fragmenting_payload.
  destruct (x_frag x) as [f|] eqn:E; [|eauto].
  specialize (H f eq_refl).
  unfold Ipv6FragmentHeaderSlice.is_fragmenting_payload, Ipv6FragmentHeaderSlice.more_fragments,
    Ipv6FragmentHeaderSlice.fragment_offset.
  destruct (rd_lt_Some (snd f) 3) as [b3 H3]; [unfold s_len in H; lia|].
  destruct (rd_lt_Some (snd f) 2) as [b2 H2]; [unfold s_len in H; lia|].
  rewrite (rdU_some f 3 b3) by exact H3. rewrite (rdU_some f 2 b2) by exact H2.
  cbn [bind]. eauto.
Qed.

(* ---- version 4 ------------------------------------------------------------------- *)
Lemma ip_headers_v4 bs b0 :
  bytes_ok bs -> rd bs 0 = Some b0 -> N.shiftr b0 4 =? 4 = true ->
  cut_fixed HIpHeaders bs = false -> announced_missing bs = false ->
  same_reason (read_outcome HIpHeaders bs) (slice_outcome HIpHeaders bs).
Proof.
  intros Hb H0 Hv Hc Ha.
  assert (L1 : 1 <= len bs) by (apply rd_Some_lt in H0; lia).
  rewrite read_outcome_O by discriminate.
  unfold slice_outcome, read_prog, ip_headers_read, IpHeaders.from_slice.
  change (s_len (mk_slice bs)) with (len bs).
  is_false (len bs =? 0). cbn [mk_slice snd]. rewrite H0. cbn [bind]. rewrite Hv.
  change (0, bs) with (mk_slice bs).
  rd_step; [|lia].
  rewrite (at_some _ 0 b0) by (rewrite rd_take by lia; exact H0).
  rewrite <- shr4_div. destruct (N.shiftr b0 4 =? 4) eqn:Hv'; [|ltb_tac; congruence].
  rewrite <- land15_mod.
  rewrite (rdU_some (mk_slice bs) 0 b0) by exact H0. cbn [bind].
  (* the cut-short class and the announced length *)
  assert (Hc' : (len bs <? 20) && (N.land b0 15 <? 5) = false).
  { destruct bs as [|a r]; [discriminate|]. unfold rd in H0. cbn in H0. injection H0 as ->.
    cbn [cut_fixed] in Hc. rewrite Hv in Hc. rewrite andb_true_r in Hc. exact Hc. }
  unfold announced_missing in Ha. rewrite H0, Hv in Ha.
  destruct (len bs <? 20) eqn:E20; ltb_tac.
  { cbn [andb] in Hc'. destruct (N.land b0 15 <? 5) eqn:Ei; [discriminate Hc'|]. ltb_tac.
    rd_step; [lia|]. apply same_reason_eq; [reflexivity|discriminate]. }
  destruct (N.land b0 15 <? 5) eqn:Ei; ltb_tac.
  { apply same_reason_eq; [reflexivity|discriminate]. }
  set (hl := N.land b0 15 * 4) in *.
  rd_step.
  2:{ is_true (len bs <? hl). apply same_reason_eq; [reflexivity|discriminate]. }
  is_false (len bs <? hl).
  getb bs 2 t0 H2. getb bs 3 t1 H3. getb bs 9 pr H9. getb bs 6 b6 H6. getb bs 7 b7 H7.
  rewrite (at_some _ 1 t0) by (rewrite rd_take by lia; rewrite rd_drop; exact H2).
  rewrite (at_some _ 2 t1) by (rewrite rd_take by lia; rewrite rd_drop; exact H3).
  rewrite (at_some _ 8 pr) by (rewrite rd_take by lia; rewrite rd_drop; exact H9).
  rewrite subU_ok by (change (s_len (mk_slice bs)) with (len bs); lia).
  unfold mk_slice at 1. cbn [bind fst].
  unfold Ipv4HeaderSlice.total_len.
  rewrite (rd16_some _ 2 t0 t1) by (apply hdr_rd; [lia|assumption]). cbn [bind].
  change (t0 * 256 + t1) with (be16 t0 t1).
  assert (Ha' : len bs <? be16 t0 t1 = false).
  { rewrite H2, H3 in Ha. destruct (20 <=? len bs) eqn:EE; [exact Ha|ltb_tac; lia]. }
  clear Ha. ltb_tac.
  destruct (be16 t0 t1 <? hl) eqn:Et; ltb_tac.
  { apply same_reason_eq; [reflexivity|discriminate]. }
  is_false (len bs <? be16 t0 t1).
  rewrite subN_ok' by lia. cbn [bind].
  rewrite subU_ok by (change (s_len (mk_slice bs)) with (len bs); lia). cbn [bind mk_slice fst snd].
  set (n := be16 t0 t1 - hl) in *.
  rewrite drop_drop. replace (0 + 1 + (hl - 1)) with hl by lia. replace (1 + (hl - 1)) with hl by lia.
  rewrite O_limit. unfold lr_new.
  unfold IpHeaders.v4_exts, Ipv4HeaderSlice.protocol.
  rewrite (rdU_some _ 9 pr) by (apply hdr_rd; [lia|assumption]). cbn [bind].
  unfold Ipv4HeaderSlice.is_fragmenting_payload, Ipv4HeaderSlice.more_fragments,
    Ipv4HeaderSlice.fragments_offset.
  rewrite (rdU_some _ 6 b6) by (apply hdr_rd; [lia|assumption]).
  rewrite (rdU_some _ 7 b7) by (apply hdr_rd; [lia|assumption]). cbn [bind].
  unfold x4_read, Ipv4Extensions.from_slice. change IPN_AUTH with AUTH.
  destruct (AUTH =? pr).
  2:{ cbn [bind outcome_of_res snd ipp_slice]. rewrite O_ret. cbn. lia. }
  set (r := mk_limrd n LS_IPV4_TOTAL L_IPV4H hl 0).
  set (d := drop hl bs).
  assert (Hok : m_ok d (MLim r)).
  { cbn [m_ok r lr_read lr_max]. unfold d. rewrite len_drop. lia. }
  rewrite (auth_read_form d hl (MLim r)) by exact Hok.
  cbn [avail r lr_max lr_read fail_out lr_source lr_off]. rewrite N.sub_0_r.
  unfold IpAuthHeaderSlice.from_slice.
  assert (Hld : len d = len bs - hl) by (unfold d; apply len_drop).
  assert (Hsl : s_len (0 + hl, take n d) = n).
  { unfold s_len. cbn [snd]. rewrite len_take_le; [reflexivity|]. lia. }
  rewrite Hsl. rewrite (len_sub_take (0 + 0) (drop 0 bs) hl) by (rewrite drop_0'; lia).
  destruct (n <? 12) eqn:E12; ltb_tac.
  { cbn. repeat split; try lia. }
  destruct (rd_lt_Some d 0) as [nh Hn0]; [lia|].
  destruct (rd_lt_Some d 1) as [pl Hn1]; [lia|].
  rewrite Hn0, Hn1.
  assert (Hpl : pl < 256).
  { eapply rd_byte; [|exact Hn1]. unfold d. now apply bytes_ok_drop. }
  rewrite (rdU_some _ 1 pl) by (cbn [snd]; rewrite rd_take by lia; exact Hn1). cbn [bind].
  destruct (pl <? 1) eqn:Ep; ltb_tac.
  { cbn. reflexivity. }
  destruct (n <? (pl + 2) * 4) eqn:El; ltb_tac.
  { cbn. repeat split; try lia. }
  rewrite subU_ok by (rewrite Hsl; lia). cbn [bind fst snd]. rewrite drop_0'.
  rewrite (len_sub_take (0 + hl + 0) (take n d) ((pl + 2) * 4))
    by (rewrite len_take_le; lia).
  rewrite idx_from_ok by (rewrite Hsl; lia). cbn [bind fst snd].
  unfold IpAuthHeaderSlice.next_header.
  rewrite (rdU_some _ 0 nh) by (cbn [snd]; rewrite !rd_take by lia; exact Hn0). cbn [bind].
  rewrite auth_to_header_ok by (try lia; rewrite len_take_le; lia).
  cbn [bind outcome_of_res snd ipp_slice]. rewrite O_ret. cbn. lia.
Qed.

(* ---- version 6 ------------------------------------------------------------------- *)
Lemma ip_headers_v6 bs b0 :
  bytes_ok bs -> rd bs 0 = Some b0 -> N.shiftr b0 4 =? 6 = true ->
  announced_missing bs = false -> F15 bs = false ->
  same_reason (read_outcome HIpHeaders bs) (slice_outcome HIpHeaders bs).
Proof.
  intros Hb H0 Hv Ha HF.
  assert (L1 : 1 <= len bs) by (apply rd_Some_lt in H0; lia).
  assert (Hv4 : N.shiftr b0 4 =? 4 = false).
  { apply N.eqb_eq in Hv. apply N.eqb_neq. lia. }
  rewrite read_outcome_O by discriminate.
  unfold slice_outcome, read_prog, ip_headers_read, IpHeaders.from_slice.
  change (s_len (mk_slice bs)) with (len bs).
  is_false (len bs =? 0). cbn [mk_slice snd]. rewrite H0. cbn [bind]. rewrite Hv4, Hv.
  change (0, bs) with (mk_slice bs).
  unfold announced_missing in Ha. rewrite H0, Hv4, Hv in Ha.
  rd_step; [|lia].
  rewrite (at_some _ 0 b0) by (rewrite rd_take by lia; exact H0).
  rewrite <- shr4_div.
  destruct (N.shiftr b0 4 =? 4) eqn:X4; [ltb_tac; congruence|].
  destruct (N.shiftr b0 4 =? 6) eqn:X6; [|ltb_tac; congruence].
  unfold ipv6_read_without_version.
  rd_step.
  2:{ is_true (len bs <? 40). apply same_reason_eq; [reflexivity|discriminate]. }
  is_false (len bs <? 40).
  getb bs 4 p0 H4. getb bs 5 p1 H5. getb bs 6 nh H6. getb bs 3 b3 H3. getb bs 2 b2 H2.
  rewrite (at_some _ 3 p0) by (rewrite rd_take by lia; rewrite rd_drop; exact H4).
  rewrite (at_some _ 4 p1) by (rewrite rd_take by lia; rewrite rd_drop; exact H5).
  rewrite (at_some _ 5 nh) by (rewrite rd_take by lia; rewrite rd_drop; exact H6).
  change (p0 * 256 + p1) with (be16 p0 p1).
  assert (Ha' : len bs <? 40 + be16 p0 p1 = false).
  { rewrite H4, H5 in Ha. destruct (40 <=? len bs) eqn:EE; [exact Ha|ltb_tac; lia]. }
  clear Ha. ltb_tac.
  rewrite drop_drop. change (1 + 39) with 40. change (0 + 1 + 39) with 40.
  rewrite O_limit. unfold lr_new.
  rewrite subU_ok by (change (s_len (mk_slice bs)) with (len bs); lia).
  unfold mk_slice at 1. cbn [bind fst].
  unfold Ipv6HeaderSlice.payload_length.
  rewrite (rd16_some _ 4 p0 p1) by (apply hdr_rd; [lia|assumption]). cbn [bind].
  set (pl := be16 p0 p1) in *.
  destruct ((0 =? pl) && (40 <? len bs)) eqn:Ez.
  - (* payload length 0 read as "up to the end of the slice": outside F15 no extension header follows *)
    apply andb_prop in Ez. destruct Ez as [Ez1 Ez2]. ltb_tac.
    assert (Hp : p0 = 0 /\ p1 = 0) by (unfold pl, be16 in Ez1; lia). destruct Hp as [-> ->].
    rewrite (F15_rd bs b0 0 0 nh H0 H4 H5 H6) in HF. rewrite Hv in HF.
    change (0 =? 0) with true in HF. cbn [andb] in HF.
    apply orb_false_elim in HF. destruct HF as [HF E60].
    apply orb_false_elim in HF. destruct HF as [HF E51].
    apply orb_false_elim in HF. destruct HF as [HF E44].
    apply orb_false_elim in HF. destruct HF as [E0 E43].
    rewrite subN_ok' by lia. cbn [bind].
    rewrite subU_ok by (change (s_len (mk_slice bs)) with (len bs); lia). cbn [bind mk_slice fst snd].
    unfold IpHeaders.v6_exts, Ipv6HeaderSlice.next_header.
    rewrite (rdU_some _ 6 nh) by (apply hdr_rd; [lia|assumption]). cbn [bind].
    unfold Ipv6Extensions.from_slice, x6_read.
    change IPV6_HOP_BY_HOP with 0. change IPN_HOP_BY_HOP with 0.
    rewrite (N.eqb_sym 0 nh), E0. cbn [bind].
    unfold X6_READ_FUEL. change 7%nat with (S 6). generalize 6%nat. intros fr.
    cbn [x6_read_loop Ipv6Extensions.loop].
    change IPV6_HOP_BY_HOP with 0. change IPN_HOP_BY_HOP with 0.
    change IPV6_DEST_OPTIONS with 60. change IPN_DEST_OPTIONS with 60.
    change IPV6_ROUTE with 43. change IPN_ROUTE with 43.
    change IPV6_FRAG with 44. change IPN_FRAG with 44.
    change AUTH with 51. change IPN_AUTH with 51.
    rewrite E0, E60, E43, E44, E51.
    cbn [bind Ipv6Extensions.is_fragmenting_payload x_frag exts6_empty outcome_of_res snd ipp_slice].
    rewrite O_ret. cbn. reflexivity.
  - (* the payload is bounded by the length field *)
    is_false (len bs <? 40 + pl).
    rewrite subU_ok by (change (s_len (mk_slice bs)) with (len bs); lia). cbn [bind mk_slice fst snd].
    unfold IpHeaders.v6_exts, Ipv6HeaderSlice.next_header.
    rewrite (rdU_some _ 6 nh) by (apply hdr_rd; [lia|assumption]). cbn [bind].
    set (r := mk_limrd pl LS_IPV6_PAYLOAD L_IPV6H 40 0).
    set (d := drop 40 bs).
    set (hp := (0 + 40, take pl d)).
    assert (Hld : len d = len bs - 40) by (unfold d; apply len_drop).
    assert (R : rel (MLim r) d hp hp).
    { split.
      - unfold d. now apply bytes_ok_drop.
      - cbn [m_ok r lr_read lr_max]. lia.
      - cbn [hp snd avail r lr_max lr_read]. now rewrite N.sub_0_r.
      - lia.
      - cbn [lim_inv r lr_source lr_off lr_read]. split; [reflexivity|lia]. }
    pose proof (x6_rel (MLim r) d 40 hp nh R) as P. cbn [lim_of] in P. unfold post in P.
    destruct (Ipv6Extensions.from_slice nh hp) as [[[x' nh'] rest']|e|b].
    + destruct P as (P1 & P2 & P3 & P4). destruct (frag_flag_ok x' P2) as [fl Hfl].
      cbn [bind]. rewrite Hfl. cbn [bind outcome_of_res snd ipp_slice]. rewrite P1.
      cbn [same_reason]. cbn [hp s_off fst] in *. lia.
    + destruct e as [l|c]; cbn [bind outcome_of_res wrap6] in *; exact P.
    + elim P.
Qed.

(* ---- IpHeaders ------------------------------------------------------------------- *)
Theorem read_eq_slice_ip_headers bs : bytes_ok bs ->
  cut_fixed HIpHeaders bs = false -> announced_missing bs = false -> F15 bs = false ->
  same_reason (read_outcome HIpHeaders bs) (slice_outcome HIpHeaders bs).
Proof.
  intros Hb Hc Ha HF.
  destruct (rd bs 0) as [b0|] eqn:H0.
  - destruct (N.shiftr b0 4 =? 4) eqn:E4; [eapply ip_headers_v4; eauto|].
    destruct (N.shiftr b0 4 =? 6) eqn:E6; [eapply ip_headers_v6; eauto|].
    assert (L1 : 1 <= len bs) by (apply rd_Some_lt in H0; lia).
    rewrite read_outcome_O by discriminate.
    unfold slice_outcome, read_prog, ip_headers_read, IpHeaders.from_slice.
    change (s_len (mk_slice bs)) with (len bs).
    is_false (len bs =? 0). cbn [mk_slice snd]. rewrite H0. cbn [bind]. rewrite E4, E6.
    rd_step; [|lia].
    rewrite (at_some _ 0 b0) by (rewrite rd_take by lia; exact H0).
    rewrite <- shr4_div.
    destruct (N.shiftr b0 4 =? 4) eqn:X4; [ltb_tac; congruence|].
    destruct (N.shiftr b0 4 =? 6) eqn:X6; [ltb_tac; congruence|].
    apply same_reason_eq; [reflexivity|discriminate].
  - assert (L0 : len bs = 0).
    { destruct bs; [reflexivity|discriminate]. }
    rewrite read_outcome_O by discriminate.
    unfold slice_outcome, read_prog, ip_headers_read, IpHeaders.from_slice.
    change (s_len (mk_slice bs)) with (len bs).
    is_true (len bs =? 0). rd_step; [lia|]. apply same_reason_eq; [reflexivity|discriminate].
Qed.
