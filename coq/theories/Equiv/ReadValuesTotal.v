(* Equiv/ReadValuesTotal.v -- audit follow-up (C06): every decoder / reader model that the value theorems
   C06_read_value_* mention, collected: none of them returns one of its MODEL failure values on bytes
   (Roundtrip/DecodersTotal.v for the C08 models, Equiv/ReadValues6Total.v for the C15 Ipv6Header models,
   C12 / C16 for Ipv6Extensions).  Qualified names only: the three model families reuse constructor names. *)
From EP Require Import Base.Bytes.
From EP Require Roundtrip.Common Roundtrip.Eth Roundtrip.Vlan Roundtrip.Sll Roundtrip.Macsec Roundtrip.Arp Roundtrip.Ipv4
  Roundtrip.Auth Roundtrip.RawExt Roundtrip.Frag Roundtrip.Tcp Roundtrip.Udp Roundtrip.Icmp4 Roundtrip.Icmp6
  Roundtrip.Exts4 Roundtrip.IpHeaders Roundtrip.DecodersTotal BitFields.Model Equiv.ReadValues6Total
  ExtChain.Model ExtChain.ReadModel IoFault.Model.

Theorem read_value_models_total : forall bs, bytes_ok bs ->
  Roundtrip.DecodersTotal.proper (Roundtrip.Eth.eth_from_slice bs) /\ Roundtrip.DecodersTotal.proper (Roundtrip.Eth.eth_read bs) /\
  Roundtrip.DecodersTotal.proper (Roundtrip.Vlan.vl_from_slice bs) /\ Roundtrip.DecodersTotal.proper (Roundtrip.Vlan.vl_read bs) /\
  Roundtrip.DecodersTotal.proper (Roundtrip.Sll.sll_from_slice bs) /\ Roundtrip.DecodersTotal.proper (Roundtrip.Sll.sll_read bs) /\
  Roundtrip.DecodersTotal.proper (Roundtrip.Macsec.mac_from_slice bs) /\ Roundtrip.DecodersTotal.proper (Roundtrip.Macsec.mac_read bs) /\
  Roundtrip.DecodersTotal.proper (Roundtrip.Arp.arp_from_slice bs) /\ Roundtrip.DecodersTotal.proper (Roundtrip.Arp.arp_read bs) /\
  Roundtrip.DecodersTotal.proper (Roundtrip.Ipv4.ip4_from_slice bs) /\ Roundtrip.DecodersTotal.proper (Roundtrip.Ipv4.ip4_read bs) /\
  Roundtrip.DecodersTotal.proper (Roundtrip.Auth.ah_from_slice bs) /\ Roundtrip.DecodersTotal.proper (Roundtrip.Auth.ah_read bs) /\
  Roundtrip.DecodersTotal.proper (Roundtrip.RawExt.rx_from_slice bs) /\ Roundtrip.DecodersTotal.proper (Roundtrip.RawExt.rx_read bs) /\
  Roundtrip.DecodersTotal.proper (Roundtrip.Frag.frag_from_slice bs) /\ Roundtrip.DecodersTotal.proper (Roundtrip.Frag.frag_read bs) /\
  Roundtrip.DecodersTotal.proper (Roundtrip.Tcp.from_slice bs) /\ Roundtrip.DecodersTotal.proper (Roundtrip.Tcp.read bs) /\
  Roundtrip.DecodersTotal.proper (Roundtrip.Udp.udp_from_slice bs) /\ Roundtrip.DecodersTotal.proper (Roundtrip.Udp.udp_read bs) /\
  Roundtrip.DecodersTotal.proper (Roundtrip.Icmp4.icmp4_from_slice bs) /\ Roundtrip.DecodersTotal.proper (Roundtrip.Icmp4.icmp4_read bs) /\
  Roundtrip.DecodersTotal.proper (Roundtrip.Icmp6.icmp6_from_slice bs) /\ Roundtrip.DecodersTotal.proper (Roundtrip.Icmp6.icmp6_read bs) /\
  (forall start, Roundtrip.DecodersTotal.proper (Roundtrip.Exts4.x4_from_slice start bs) /\
                 Roundtrip.DecodersTotal.proper (Roundtrip.Exts4.x4_read bs start)) /\
  Roundtrip.DecodersTotal.proper (Roundtrip.IpHeaders.iph_from_slice bs) /\ Roundtrip.DecodersTotal.proper (Roundtrip.IpHeaders.iph_read bs) /\
  Equiv.ReadValues6Total.proper6 (BitFields.Model.Ipv6Header_from_slice bs) /\
  Equiv.ReadValues6Total.proper6 (BitFields.Model.Ipv6Header_read bs) /\
  (forall first, Roundtrip.DecodersTotal.x6_proper (ExtChain.Model.from_slice first bs)) /\
  (forall first, Roundtrip.DecodersTotal.qreg
     (fst (ExtChain.ReadModel.read6 false first (IoFault.Model.mk_rstate (ExtChain.ReadModel.cursor bs) None)))).
Proof.
  intros bs Hb.
  destruct (Roundtrip.DecodersTotal.decoders_total_any bs)
    as (E1 & E2 & V1 & V2 & S1 & S2 & M1 & M2 & _ & _ & F1 & F2 & U1 & U2 & I41 & I42 & I61 & I62 & _ & _ & _ & R6 & _).
  destruct (Roundtrip.DecodersTotal.decoders_total_bytes bs Hb)
    as (T1 & T2 & P41 & P42 & A1 & A2 & X1 & X2 & AR1 & AR2 & _ & X4 & X6 & H1 & _ & _ & H4).
  repeat match goal with |- _ /\ _ => split end; try assumption.
  - apply Equiv.ReadValues6Total.ip6_bitfields_from_slice_total, Hb.
  - apply Equiv.ReadValues6Total.ip6_bitfields_read_total, Hb.
Qed.
