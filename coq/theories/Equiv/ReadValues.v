(* Equiv/ReadValues.v -- C06 group 3, header VALUES: for the three header types
   that have a field-level decode model (C08: Roundtrip/Tcp.v, Ipv4.v, Frag.v --
   `read` decodes the fields a second time, independently of
   XHeaderSlice::to_header) the reader and the slice decoder return the same
   header struct and leave the same rest; a slice Len error corresponds to an
   UnexpectedEof of the reader. *)
From EP Require Import IoFault.Proofs.
From EP Require Import Base.Bytes Roundtrip.Common Roundtrip.Tcp Roundtrip.Ipv4 Roundtrip.Frag.
From Coq Require Import ZArith Lia ZifyN ZifyBool.

Local Open Scope N_scope.

(* from_slice says Len (data ends) where read says Io(UnexpectedEof) *)
Definition eof_of_len {A} (r : res A) : res A :=
  match r with Err ELen => Err EIo | r => r end.

Lemma split_n (n : nat) : forall bs : bytes, N.of_nat n <= len bs ->
  exists pre t, bs = pre ++ t /\ length pre = n.
Proof.
  intros bs H. exists (firstn n bs), (skipn n bs). split; [symmetry; apply firstn_skipn|].
  rewrite firstn_length. unfold len in H. lia.
Qed.

Fixpoint upto' (n : nat) : list N := match n with O => [] | S k => N.of_nat k :: upto' k end.
Lemma upto'_in n : forall v, v < N.of_nat n -> In v (upto' n).
Proof.
  induction n as [|n IH]; intros v H; [lia|]. cbn [upto'].
  destruct (N.eq_dec v (N.of_nat n)) as [E|E]; [left; auto|right; apply IH; lia].
Qed.
Lemma sweep256' (P : N -> bool) : forallb P (upto' 256) = true -> forall v, v < 256 -> P v = true.
Proof.
  intros H v Hv. rewrite forallb_forall in H. apply H. apply upto'_in.
  change (N.of_nat 256) with 256. exact Hv.
Qed.

Lemma take_pre {A} (pre t : list A) k : take (len pre + k) (pre ++ t) = pre ++ take k t.
Proof. rewrite take_app_r by lia. f_equal. f_equal. lia. Qed.

Lemma drop_pre {A} (pre t : list A) k : drop (len pre + k) (pre ++ t) = drop k t.
Proof. rewrite drop_app_r by lia. f_equal. lia. Qed.

(* ---- Ipv6FragmentHeader --------------------------------------------------------- *)
Lemma frag_to_header_err s e : frag_to_header s = Err e -> e = EOOB.
Proof.
  unfold frag_to_header.
  destruct s as [|b0 [|b1 [|b2 [|b3 [|b4 [|b5 [|b6 [|b7 t]]]]]]]]; intros H; try discriminate H;
    now injection H as <-.
Qed.

Theorem frag_read_eq_from_slice bs : frag_read bs = eof_of_len (frag_from_slice bs).
Proof.
  unfold frag_read, frag_from_slice, frag_slice_from_slice, read_exact, slice_from.
  destruct (len bs <? 8) eqn:E; [reflexivity|]. apply N.ltb_ge in E.
  replace (8 <=? len bs) with true by (symmetry; apply N.leb_le; lia).
  destruct (frag_to_header (take 8 bs)) as [h|e] eqn:Eh; [reflexivity|].
  rewrite (frag_to_header_err _ _ Eh). reflexivity.
Qed.

(* ---- TcpHeader -------------------------------------------------------------------- *)
Definition tcp_b12_ok (b : N) : bool :=
  let doff := shr (band b 240) 4 in
  let hl := shr (band b 240) 2 in
  let ol := shl8 (doff - 5) 2 in
  Bool.eqb (hl <? 20) (doff <? 5) && (as_u8 (shr hl 2) =? doff) &&
  ((doff <? 5) || ((hl =? 20 + ol) && (ol <=? 40) && (doff * 4 =? hl) && (as_u8 ol =? ol))).

Lemma tcp_b12_facts b : b < 256 ->
  let doff := shr (band b 240) 4 in
  let hl := shr (band b 240) 2 in
  let ol := shl8 (doff - 5) 2 in
  (hl <? 20) = (doff <? 5) /\ as_u8 (shr hl 2) = doff /\
  (5 <= doff -> hl = 20 + ol /\ ol <= 40 /\ doff * 4 = hl /\ as_u8 ol = ol).
Proof.
  intros Hb. pose proof (sweep256' tcp_b12_ok ltac:(vm_compute; reflexivity) b Hb) as H.
  unfold tcp_b12_ok in H. cbv zeta in *.
  apply andb_prop in H. destruct H as [H H3]. apply andb_prop in H. destruct H as [H1 H2].
  split; [now apply Bool.eqb_prop|]. split; [now apply N.eqb_eq|].
  intros H5. destruct (shr (band b 240) 4 <? 5) eqn:E; [apply N.ltb_lt in E; lia|].
  cbn [orb] in H3. apply andb_prop in H3. destruct H3 as [H3 H7].
  apply andb_prop in H3. destruct H3 as [H3 H6]. apply andb_prop in H3. destruct H3 as [H3 H4].
  repeat split; [now apply N.eqb_eq|now apply N.leb_le|now apply N.eqb_eq|now apply N.eqb_eq].
Qed.

Theorem tcp_read_eq_from_slice bs : bytes_ok bs -> Tcp.read bs = eof_of_len (Tcp.from_slice bs).
Proof.
  intros Hb. unfold Tcp.read, Tcp.from_slice, slice_from_slice, read_exact.
  destruct (len bs <? 20) eqn:E; [reflexivity|]. apply N.ltb_ge in E.
  destruct (split_n 20 bs E) as (pre & t & -> & Hpre).
  do 20 (destruct pre as [|? pre]; [discriminate Hpre|]). destruct pre; [|discriminate Hpre]. clear Hpre.
  set (pre := [n; n0; n1; n2; n3; n4; n5; n6; n7; n8; n9; n10; n11; n12; n13; n14; n15; n16; n17; n18]) in *.
  change (n :: n0 :: n1 :: n2 :: n3 :: n4 :: n5 :: n6 :: n7 :: n8 :: n9 :: n10 :: n11 :: n12 :: n13
            :: n14 :: n15 :: n16 :: n17 :: n18 :: t) with (pre ++ t) in *.
  assert (Lp : len pre = 20) by reflexivity.
  assert (H12 : rd (pre ++ t) 12 = Some n11) by reflexivity. rewrite H12.
  assert (Hb12 : n11 < 256) by (eapply rd_ok; eauto).
  destruct (tcp_b12_facts n11 Hb12) as (F1 & F2 & F3).
  replace (take 20 (pre ++ t)) with pre by reflexivity.
  replace (drop 20 (pre ++ t)) with t by reflexivity.
  unfold pre at 1. cbv iota.
  set (doff := shr (band n11 240) 4) in *. set (hl := shr (band n11 240) 2) in *.
  set (ol := shl8 (doff - 5) 2) in *.
  rewrite F1, F2. destruct (doff <? 5) eqn:E5; [reflexivity|]. apply N.ltb_ge in E5.
  destruct (F3 E5) as (G1 & G2 & G3 & G4).
  rewrite len_app, Lp.
  destruct (0 <? ol) eqn:Eo.
  - apply N.ltb_lt in Eo. replace (ol <=? 40) with true by (symmetry; apply N.leb_le; lia).
    destruct (len t <? ol) eqn:Et.
    + apply N.ltb_lt in Et. replace (20 + len t <? hl) with true by (symmetry; apply N.ltb_lt; lia).
      reflexivity.
    + apply N.ltb_ge in Et. replace (20 + len t <? hl) with false by (symmetry; apply N.ltb_ge; lia).
      rewrite G1.
      assert (T : take (20 + ol) (pre ++ t) = pre ++ take ol t)
        by (change (20 + ol) with (len pre + ol); apply take_pre).
      assert (D : drop (20 + ol) (pre ++ t) = drop ol t)
        by (change (20 + ol) with (len pre + ol); apply drop_pre).
      rewrite T. rewrite len_app, Lp, len_take. replace (N.min ol (len t)) with ol by lia.
      unfold to_header, pre at 1. cbn [app].
      change (n :: n0 :: n1 :: n2 :: n3 :: n4 :: n5 :: n6 :: n7 :: n8 :: n9 :: n10 :: n11 :: n12 :: n13
                :: n14 :: n15 :: n16 :: n17 :: n18 :: take ol t) with (pre ++ take ol t).
      fold doff. rewrite G3, G1. unfold slice_range.
      rewrite len_app, Lp, len_take. replace (N.min ol (len t)) with ol by lia.
      replace ((20 <=? 20 + ol) && (20 + ol <=? 20 + ol)) with true
        by (symmetry; apply andb_true_intro; split; apply N.leb_le; lia).
      replace (20 + ol - 20) with ol by lia.
      replace (drop 20 (pre ++ take ol t)) with (take ol t) by reflexivity.
      assert (TT : take ol (take ol t) = take ol t).
      { unfold take. rewrite firstn_firstn. f_equal. lia. }
      rewrite TT. rewrite len_take. replace (N.min ol (len t)) with ol by lia.
      replace (40 <? ol) with false by (symmetry; apply N.ltb_ge; lia).
      rewrite G4. unfold slice_from. rewrite !len_app, Lp.
      replace (20 + ol <=? 20 + len t) with true by (symmetry; apply N.leb_le; lia).
      rewrite D. reflexivity.
  - apply N.ltb_ge in Eo. assert (ol = 0) by lia.
    replace (20 + len t <? hl) with false by (symmetry; apply N.ltb_ge; lia).
    rewrite G1, H. change (20 + 0) with (len pre + 0). rewrite take_pre.
    change (take 0 t) with (@nil N). rewrite app_nil_r.
    unfold to_header, pre at 1. fold pre. fold doff. rewrite G3, G1, H.
    unfold slice_range. rewrite Lp. change ((20 <=? 20 + 0) && (20 + 0 <=? 20)) with true. cbv iota.
    change (take (20 + 0 - 20) (drop 20 pre)) with (@nil N).
    change (40 <? len (@nil N)) with false. cbv iota.
    unfold slice_from. rewrite len_app, Lp.
    replace (20 <=? 20 + len t) with true by (symmetry; apply N.leb_le; lia).
    replace (drop 20 (pre ++ t)) with t by reflexivity. reflexivity.
Qed.

(* ---- Ipv4Header ------------------------------------------------------------------- *)
Definition ip4_b0_ok (b : N) : bool :=
  let ihl := band b 15 in
  let ol := as_u8 ((ihl - 5) * 4) in
  (ihl <? 5) || ((ihl * 4 =? 20 + ol) && (ol <=? 40) && (as_u8 ol =? ol)).

Lemma ip4_b0_facts b : b < 256 ->
  let ihl := band b 15 in
  let ol := as_u8 ((ihl - 5) * 4) in
  5 <= ihl -> ihl * 4 = 20 + ol /\ ol <= 40 /\ as_u8 ol = ol.
Proof.
  intros Hb. pose proof (sweep256' ip4_b0_ok ltac:(vm_compute; reflexivity) b Hb) as H.
  unfold ip4_b0_ok in H. cbv zeta in *. intros H5.
  destruct (band b 15 <? 5) eqn:E; [apply N.ltb_lt in E; lia|]. cbn [orb] in H.
  apply andb_prop in H. destruct H as [H H3]. apply andb_prop in H. destruct H as [H1 H2].
  repeat split; [now apply N.eqb_eq|now apply N.leb_le|now apply N.eqb_eq].
Qed.

(* with the 20 fixed bytes present (shorter inputs: C06_read_cut_fixed_inside) *)
Theorem ip4_read_eq_from_slice bs : bytes_ok bs -> 20 <= len bs ->
  ip4_read bs = eof_of_len (ip4_from_slice bs).
Proof.
  intros Hb E. unfold ip4_read, ip4_from_slice, ip4_slice_from_slice, read_exact.
  replace (len bs <? 20) with false by (symmetry; apply N.ltb_ge; lia).
  replace (len bs <? 1) with false by (symmetry; apply N.ltb_ge; lia).
  destruct (split_n 20 bs E) as (pre & t & -> & Hpre).
  do 20 (destruct pre as [|? pre]; [discriminate Hpre|]). destruct pre; [|discriminate Hpre]. clear Hpre.
  set (pre := [n; n0; n1; n2; n3; n4; n5; n6; n7; n8; n9; n10; n11; n12; n13; n14; n15; n16; n17; n18]) in *.
  change (n :: n0 :: n1 :: n2 :: n3 :: n4 :: n5 :: n6 :: n7 :: n8 :: n9 :: n10 :: n11 :: n12 :: n13
            :: n14 :: n15 :: n16 :: n17 :: n18 :: t) with (pre ++ t) in *.
  assert (Lp : len pre = 20) by reflexivity.
  assert (H0 : rd (pre ++ t) 0 = Some n) by reflexivity. rewrite H0.
  assert (Hb0 : n < 256) by (eapply rd_ok; eauto).
  pose proof (ip4_b0_facts n Hb0) as F.
  replace (take 1 (pre ++ t)) with [n] by reflexivity.
  set (r1 := drop 1 (pre ++ t)).
  assert (L1 : len r1 = 19 + len t).
  { unfold r1. rewrite len_drop, len_app, Lp. lia. }
  destruct (negb (shr n 4 =? 4)); [reflexivity|].
  rewrite L1. replace (19 + len t <? 19) with false by (symmetry; apply N.ltb_ge; lia).
  replace (take 19 r1) with [n0; n1; n2; n3; n4; n5; n6; n7; n8; n9; n10; n11; n12; n13; n14; n15; n16; n17; n18]
    by reflexivity.
  replace (drop 19 r1) with t by reflexivity.
  set (ihl := band n 15) in *. set (ol := as_u8 ((ihl - 5) * 4)) in *.
  destruct (ihl <? 5) eqn:E5; [reflexivity|]. apply N.ltb_ge in E5.
  destruct (F E5) as (G1 & G2 & G4). change (as_u8 ((ihl - 5) * 4)) with ol in G1, G2, G4.
  rewrite len_app, Lp. rewrite G1.
  assert (T : take (20 + ol) (pre ++ t) = pre ++ take ol t)
    by (change (20 + ol) with (len pre + ol); apply take_pre).
  assert (D : drop (20 + ol) (pre ++ t) = drop ol t)
    by (change (20 + ol) with (len pre + ol); apply drop_pre).
  destruct (ol =? 0) eqn:Eo.
  - apply N.eqb_eq in Eo.
    replace (20 + len t <? 20 + ol) with false by (symmetry; apply N.ltb_ge; lia).
    rewrite T, Eo. change (take 0 t) with (@nil N). rewrite app_nil_r.
    unfold ip4_to_header, pre at 1.
    change (40 <? len (@nil N)) with false. cbv iota.
    unfold ip4_header_len. cbn [i4_options i4o_len].
    change (as_u8 (len (@nil N))) with 0. change (20 + 0) with 20.
    unfold slice_from. rewrite len_app, Lp.
    replace (20 <=? 20 + len t) with true by (symmetry; apply N.leb_le; lia).
    replace (drop 20 (pre ++ t)) with t by reflexivity.
    reflexivity.
  - apply N.eqb_neq in Eo. replace (ol <=? 40) with true by (symmetry; apply N.leb_le; lia).
    destruct (len t <? ol) eqn:Et.
    + apply N.ltb_lt in Et. replace (20 + len t <? 20 + ol) with true by (symmetry; apply N.ltb_lt; lia).
      reflexivity.
    + apply N.ltb_ge in Et. replace (20 + len t <? 20 + ol) with false by (symmetry; apply N.ltb_ge; lia).
      rewrite T. unfold ip4_to_header, pre at 1. cbn [app].
      rewrite len_take. replace (N.min ol (len t)) with ol by lia.
      replace (40 <? ol) with false by (symmetry; apply N.ltb_ge; lia).
      unfold ip4_header_len. cbn [i4_options i4o_len]. rewrite G4.
      unfold slice_from. rewrite len_app, Lp.
      replace (20 + ol <=? 20 + len t) with true by (symmetry; apply N.leb_le; lia).
      rewrite D. reflexivity.
Qed.
