(* Equiv/Ipv6SliceLaxProofs.v -- round 3 (v6lax): proofs about the model of
   `Ipv6Slice::from_slice_lax` (Parse/Ipv6SliceLax.v), the 13th copy of the IP boundary.

     * v6lax_nobug, v6lax_wf            never Bug on any slice value; the three stored windows are
                                        from_raw_parts-windows of the input, the invariant of
                                        Ipv6Slice (wf_ipv6) holds, hence every accessor / the
                                        extension iterator of the result is Bug-free (C01 / C02 shape)
     * v6lax_eq_lax6                    the copy agrees with LaxIpv6Slice::from_slice: same windows and
                                        numbers when the lax sibling has no stop error, otherwise the
                                        stop error as Err (the strict tail), first-header errors equal
     * v6lax_eq_lax_ip_arm              ... and with the IPv6 arm of LaxIpSlice::from_slice
     * v6lax_vs_strict                  extends Ipv6Slice::from_slice; differs exactly by the
                                        payload-length fallback (C05 (a) / (b) / (c) shape)
     * v6lax_len_source                 C05 (d) through the lax sibling: the slice is the length source
                                        and the payload ends at the slice end when more was announced
                                        than present *)
From EP Require Import Base.Bytes Parse.Types Parse.Slices Parse.Cursor Parse.View Parse.Repr
  Parse.Access Parse.AccessProofs Parse.CtorsTotal Parse.LaxSlices Parse.LaxAccess Parse.LaxAccessProofs
  Parse.LaxProofs Parse.LaxFacts Parse.LaxWireProofs Equiv.Model Equiv.Proofs Equiv.ShiftProofs
  Parse.Ipv6SliceLax.
From Coq Require Import ZArith Lia ZifyN ZifyBool List.
Import ListNotations.

Local Open Scope N_scope.

(* ---- the function is header ; payload selection ; STRICT tail --------------------------- *)
(* the payload selection of Ipv6Slice::from_slice_lax *)
Definition v6lax_select (s : slice) (pl : N) : res (slice * len_source) :=
  if (0 =? pl) && (40 <? s_len s) then
    let* n := subN (s_len s) 40 in
    let* p := subU s 40 n in
    Ok (p, LsSlice)
  else
    if s_len s <? 40 + pl then
      let* n := subN (s_len s) 40 in
      let* p := subU s 40 n in
      Ok (p, LsSlice)
    else
      let* p := subU s 40 pl in
      Ok (p, LsIpv6HeaderPayloadLen).

Lemma v6lax_unfold s :
  Ipv6SliceLax.from_slice_lax s =
  (let* header := Ipv6HeaderSlice.from_slice s in
   let* pl := Ipv6HeaderSlice.payload_length header in
   let* hp := v6lax_select s pl in
   strict_v6_tail header (fst hp) (snd hp)).
Proof.
  unfold Ipv6SliceLax.from_slice_lax, v6lax_select, strict_v6_tail.
  destruct (Ipv6HeaderSlice.from_slice s) as [h|e|b]; cbn [bind]; [|reflexivity|reflexivity].
  destruct (Ipv6HeaderSlice.payload_length h) as [pl|e|b]; cbn [bind]; [|reflexivity|reflexivity].
  match goal with |- bind ?X _ = bind ?X _ => destruct X as [[hp src]|e|b] end;
    cbn [bind fst snd]; reflexivity.
Qed.

(* on a slice that holds the 40 header bytes the selection succeeds: a window of s behind
   the header, with the source the function reports *)
Lemma v6lax_select_ok s pl :
  40 <= s_len s ->
  exists p, sub_of p s /\
    v6lax_select s pl =
      Ok (p, if ((0 =? pl) && (40 <? s_len s)) || (s_len s <? 40 + pl)
             then LsSlice else LsIpv6HeaderPayloadLen) /\
    subU s 40 (if ((0 =? pl) && (40 <? s_len s)) || (s_len s <? 40 + pl)
               then s_len s - 40 else pl) = Ok p.
Proof.
  intros L. unfold v6lax_select.
  destruct ((0 =? pl) && (40 <? s_len s)) eqn:Z; cbn [orb].
  - rewrite (subN_ok (s_len s) 40) by lia. cbn [bind].
    destruct (subU_ok s 40 (s_len s - 40)) as (p & E & _ & _); [lia|]. rewrite E. cbn [bind].
    exists p. split; [now exists 40, (s_len s - 40)|]. split; reflexivity.
  - destruct (s_len s <? 40 + pl) eqn:C.
    + rewrite (subN_ok (s_len s) 40) by lia. cbn [bind].
      destruct (subU_ok s 40 (s_len s - 40)) as (p & E & _ & _); [lia|]. rewrite E. cbn [bind].
      exists p. split; [now exists 40, (s_len s - 40)|]. split; reflexivity.
    + destruct (subU_ok s 40 pl) as (p & E & _ & _); [lia|]. rewrite E. cbn [bind].
      exists p. split; [now exists 40, pl|]. split; reflexivity.
Qed.

Lemma v6_header_facts s h :
  Ipv6HeaderSlice.from_slice s = Ok h ->
  s_len h = 40 /\ 40 <= s_len s /\ sub_of h s /\
  (exists pl, Ipv6HeaderSlice.payload_length h = Ok pl) /\
  (exists nh, Ipv6HeaderSlice.next_header h = Ok nh).
Proof.
  intros E. pose proof (ipv6h_wf _ _ E) as (W & S). unfold wf_ipv6h in W.
  split; [exact W|]. split.
  { destruct S as (k & n & Es). apply LaxProofs.subU_inv in Es. destruct Es as (Lk & ->).
    unfold s_len in W |- *. cbn [snd] in W. rewrite len_take, len_drop in W. lia. }
  split; [exact S|]. split.
  - unfold Ipv6HeaderSlice.payload_length. apply AccessProofs.rd16_ok. lia.
  - unfold Ipv6HeaderSlice.next_header. apply AccessProofs.rdU_ok. lia.
Qed.

(* ---- C01 / C02 shape: total, windows inside, invariant, accessors ------------------------ *)
Lemma strict_v6_tail_nobug header hp src : 40 <= s_len header -> nobug (strict_v6_tail header hp src).
Proof.
  intros L. unfold strict_v6_tail, Ipv6HeaderSlice.next_header. nb. apply nobug_bind.
  - pose proof (nb_exts x hp) as H.
    destruct (Ipv6ExtensionsSlice.from_slice x hp) as [a|[e|c]|b]; try nbfin. exact H.
  - intros ((exts, pn), payload) _. apply nobug_Ok.
Qed.

Theorem v6lax_nobug s : nobug (Ipv6SliceLax.from_slice_lax s).
Proof.
  rewrite v6lax_unfold. apply nobug_bind; [apply nb_ipv6h|]. intros h Eh.
  destruct (v6_header_facts _ _ Eh) as (Lh & Ls & _ & (pl & Epl) & _). rewrite Epl. cbn [bind].
  destruct (v6lax_select_ok s pl Ls) as (p & _ & -> & _). cbn [bind fst snd].
  apply strict_v6_tail_nobug. lia.
Qed.

Lemma strict_v6_tail_wf header hp src v :
  strict_v6_tail header hp src = Ok v ->
  v6_header v = header /\ exts_good (v6_exts v) /\ ipp_src (v6_payload v) = src /\
  sub_of (x6_slice (v6_exts v)) hp /\ sub_of (ipp_slice (v6_payload v)) hp.
Proof.
  unfold strict_v6_tail. intros H. binv H nh Enh. binv H x Ex. destruct x as ((exts, pn), payload).
  injection H as <-. cbn.
  assert (Ex' : Ipv6ExtensionsSlice.from_slice nh hp = Ok (exts, pn, payload)).
  { destruct (Ipv6ExtensionsSlice.from_slice nh hp) as [a|[e|c]|b]; try discriminate; exact Ex. }
  apply exts_good_from_slice in Ex'. destruct Ex' as (G & S1 & S2). tauto.
Qed.

Theorem v6lax_wf s v :
  Ipv6SliceLax.from_slice_lax s = Ok v -> wf_ipv6 v /\ ipv6_in v s.
Proof.
  rewrite v6lax_unfold. intros H. binv H h Eh. binv H pl Epl. binv H hp Ehp.
  destruct (v6_header_facts _ _ Eh) as (Lh & Ls & Sh & _ & _).
  destruct (v6lax_select_ok s pl Ls) as (p & Sp & E & _). rewrite E in Ehp. injection Ehp as <-.
  cbn [fst snd] in H. apply strict_v6_tail_wf in H. destruct H as (E1 & G & _ & S1 & S2).
  unfold wf_ipv6, ipv6_in, wf_ipv6h. rewrite E1.
  pose proof (sub_of_trans _ _ _ S1 Sp). pose proof (sub_of_trans _ _ _ S2 Sp). tauto.
Qed.

Theorem v6lax_accessors s v :
  Ipv6SliceLax.from_slice_lax s = Ok v -> bytes_ok (snd s) ->
  Forall nobug (Ipv6SliceA.accessors v) /\ Forall (win_ok s) (Ipv6SliceA.windows v).
Proof.
  intros H Hok. apply v6lax_wf in H. destruct H as (W & _ & Sx & _). split.
  - apply ipv6_accessors_ok; [exact W|]. eapply sub_of_bytes_ok; eauto.
  - eapply win_ok_mono; [exact Sx|now apply ipv6_windows_ok].
Qed.

(* ---- the copies agree: against LaxIpv6Slice::from_slice ---------------------------------- *)
(* what Ipv6Slice::from_slice_lax answers, read off the answer of LaxIpv6Slice::from_slice:
   no stop error -> the same header / extension window / payload record (the `incomplete`
   flag has no place in the strict result type); a stop error (a fault in the extension
   chain) -> that error as Err, the layer tag dropped; a first-header Err -> the same Err *)
Definition v6lax_of_lax6 (r : res (lax_ipv6_slice * option stop_error)) : res ipv6_slice :=
  match r with
  | Ok (lv, None) => Ok (strict_v6 lv)
  | Ok (_, Some (e, _)) => Err e
  | Err e => Err e
  | Bug b => Bug b
  end.

Lemma v6_tail_rel header hp src inc :
  40 <= s_len header ->
  match LaxIpv6Slice.finish header hp src inc with
  | Bug _ => True
  | r => strict_v6_tail header hp src = v6lax_of_lax6 r
  end.
Proof.
  intros L. unfold strict_v6_tail, LaxIpv6Slice.finish, Ipv6HeaderSlice.next_header.
  destruct (AccessProofs.rdU_ok header 6) as (nh & Enh); [lia|]. rewrite Enh. cbn [bind].
  pose proof (exts_sim nh hp) as X. pose proof (nb_exts nh hp) as NB.
  destruct (Ipv6ExtensionsSlice.from_slice nh hp) as [[[x n] r]|e|b].
  - rewrite X. cbn [bind v6lax_of_lax6]. reflexivity.
  - destruct (LaxIpv6Exts.from_slice_lax nh hp) as [[[[x n] r] st]|e0|b0]; cbn [bind].
    + destruct X as (ly & -> & _). destruct e as [l|c]; cbn [bind v6lax_of_lax6]; reflexivity.
    + destruct X.
    + exact I.
  - exfalso. now apply (NB b).
Qed.

Lemma v6lax_lax6_rel s :
  match LaxIpv6Slice.from_slice s with
  | Bug _ => True
  | r => Ipv6SliceLax.from_slice_lax s = v6lax_of_lax6 r
  end.
Proof.
  rewrite v6lax_unfold. unfold LaxIpv6Slice.from_slice.
  destruct (Ipv6HeaderSlice.from_slice s) as [h|e|b] eqn:Eh; cbn [bind v6lax_of_lax6];
    [|reflexivity|exact I].
  destruct (v6_header_facts _ _ Eh) as (Lh & Ls & _ & (pl & Epl) & _). rewrite Epl. cbn [bind].
  unfold v6lax_select.
  assert (T : forall p src inc,
    match (let '(header_payload, src0, incomplete) := (p, src, inc) in
           LaxIpv6Slice.finish h header_payload src0 incomplete) with
    | Bug _ => True
    | r => strict_v6_tail h (fst (p, src)) (snd (p, src)) = v6lax_of_lax6 r
    end).
  { intros p src inc. cbn [fst snd]. apply v6_tail_rel. lia. }
  destruct ((0 =? pl) && (40 <? s_len s)).
  - rewrite (subN_ok (s_len s) 40) by lia. cbn [bind].
    destruct (subU_ok s 40 (s_len s - 40)) as (p & E & _ & _); [lia|]. rewrite E. cbn [bind]. apply T.
  - destruct (s_len s <? 40 + pl) eqn:C.
    + rewrite (subN_ok (s_len s) 40) by lia. cbn [bind].
      destruct (subU_ok s 40 (s_len s - 40)) as (p & E & _ & _); [lia|]. rewrite E. cbn [bind]. apply T.
    + destruct (subU_ok s 40 pl) as (p & E & _ & _); [lia|]. rewrite E. cbn [bind]. apply T.
Qed.

Theorem v6lax_eq_lax6 s :
  nobug (LaxIpv6Slice.from_slice s) ->
  Ipv6SliceLax.from_slice_lax s = v6lax_of_lax6 (LaxIpv6Slice.from_slice s).
Proof.
  intros NB. pose proof (v6lax_lax6_rel s) as X.
  destruct (LaxIpv6Slice.from_slice s) as [r|e|b]; [exact X|exact X|exfalso; now apply (NB b)].
Qed.

(* every slice value whose contents are octets: the hypothesis of v6lax_eq_lax6 holds
   (C01_lax_single_no_oob / lax_single_never_bug, stated there for windows of a buffer) *)
Lemma repr_self (s : slice) :
  repr (repeat 0 (N.to_nat (fst s)) ++ snd s) s (fst s) (fst s + s_len s).
Proof.
  destruct s as (o, l). unfold repr, s_len. cbn [fst snd].
  assert (Lr : len (repeat 0 (N.to_nat o)) = o) by (unfold len; rewrite repeat_length; lia).
  split; [|split; [lia|unfold len in *; rewrite app_length, repeat_length; lia]].
  f_equal. unfold take, drop.
  assert (Sk : skipn (N.to_nat o) (repeat 0 (N.to_nat o) ++ l) = l).
  { rewrite skipn_app, repeat_length, Nat.sub_diag.
    rewrite skipn_all2 by (rewrite repeat_length; lia). reflexivity. }
  rewrite Sk.
  symmetry. apply firstn_all2. unfold len. lia.
Qed.

Lemma bytes_ok_pad o l : bytes_ok l -> bytes_ok (repeat 0 o ++ l).
Proof.
  intros H. unfold bytes_ok in *. apply Forall_app. split; [|exact H].
  apply Forall_forall. intros x Hx. apply repeat_spec in Hx. subst. unfold byte_ok. lia.
Qed.

Theorem v6lax_eq_lax6_octets s :
  bytes_ok (snd s) ->
  Ipv6SliceLax.from_slice_lax s = v6lax_of_lax6 (LaxIpv6Slice.from_slice s).
Proof.
  intros Hok. apply v6lax_eq_lax6.
  exact (nb_laxv6 _ s _ _ (bytes_ok_pad _ _ Hok) (repr_self s)).
Qed.

(* the Ok direction needs no hypothesis at all *)
Theorem v6lax_ok_iff s v :
  Ipv6SliceLax.from_slice_lax s = Ok v <->
  exists lv, LaxIpv6Slice.from_slice s = Ok (lv, None) /\ v = strict_v6 lv.
Proof.
  split.
  - rewrite v6lax_unfold. unfold LaxIpv6Slice.from_slice. intros H.
    binv H h Eh. binv H pl Epl. binv H hp Ehp. rewrite Eh. cbn [bind]. rewrite Epl. cbn [bind].
    destruct (v6_header_facts _ _ Eh) as (Lh & Ls & _ & _ & (nh & Enh)).
    assert (T : forall inc, exists lv,
              LaxIpv6Slice.finish h (fst hp) (snd hp) inc = Ok (lv, None) /\ v = strict_v6 lv).
    { intros inc. unfold strict_v6_tail in H. unfold LaxIpv6Slice.finish. rewrite Enh in H |- *.
      cbn [bind] in H |- *. pose proof (exts_sim nh (fst hp)) as X.
      destruct (Ipv6ExtensionsSlice.from_slice nh (fst hp)) as [[[x n] r]|[e|c]|b]; try discriminate.
      rewrite X. cbn [bind] in H |- *. injection H as <-. eexists. split; reflexivity. }
    unfold v6lax_select in Ehp.
    destruct ((0 =? pl) && (40 <? s_len s)).
    + binv Ehp n En. binv Ehp p Ep. injection Ehp as <-. rewrite En. cbn [bind]. rewrite Ep. cbn [bind].
      apply (T false).
    + destruct (s_len s <? 40 + pl).
      * binv Ehp n En. binv Ehp p Ep. injection Ehp as <-. rewrite En. cbn [bind]. rewrite Ep. cbn [bind].
        apply (T true).
      * binv Ehp p Ep. injection Ehp as <-. rewrite Ep. cbn [bind]. apply (T false).
  - intros (lv & E & ->). pose proof (v6lax_lax6_rel s) as X. rewrite E in X. exact X.
Qed.

(* ---- ... and against the IPv6 arm of LaxIpSlice::from_slice ------------------------------- *)
Definition v6lax_of_lax_ip (r : res (lax_ip_slice * option stop_error)) : res ipv6_slice :=
  match r with
  | Ok (LIpV6 lv, None) => Ok (strict_v6 lv)
  | Ok (LIpV6 _, Some (e, _)) => Err e
  | Ok (LIpV4 _, _) => Bug SITE_UNWRAP       (* does not occur with version nibble 6 *)
  | Err e => Err e
  | Bug b => Bug b
  end.

Lemma v6_header_err_nibble6 o b rest e :
  N.shiftr b 4 = 6 -> Ipv6HeaderSlice.from_slice (o, b :: rest) = Err e ->
  e = ELen (mkLenError 40 (s_len (o, b :: rest)) LsSlice LyIpv6Header 0).
Proof.
  intros N6. set (s := (o, b :: rest)). unfold Ipv6HeaderSlice.from_slice, lerr.
  destruct (s_len s <? 40) eqn:C; [intros H; injection H as <-; reflexivity|].
  change (rdU s 0) with (@Ok N b). cbn [bind]. rewrite N6. cbn [N.eqb Pos.eqb negb].
  intros H. exfalso. destruct (subU s 0 40) as [x|e'|b'] eqn:E; try discriminate.
  exact (subU_not_err _ _ _ _ E).
Qed.

Theorem v6lax_eq_lax_ip_arm o b rest :
  N.shiftr b 4 = 6 ->
  nobug (LaxIpSlice.from_slice (o, b :: rest)) ->
  Ipv6SliceLax.from_slice_lax (o, b :: rest) = v6lax_of_lax_ip (LaxIpSlice.from_slice (o, b :: rest)).
Proof.
  intros N6 NB. set (s := (o, b :: rest)) in *.
  assert (HF : F11 (b :: rest) = false).
  { unfold F11. destruct (N.shiftr b 4 =? 4) eqn:C; [lia|reflexivity]. }
  pose proof (lax_ip_dispatch o b rest HF) as D. fold s in D.
  unfold lax_ip_specific in D. rewrite N6 in D. cbn [N.eqb Pos.eqb] in D.
  pose proof (v6lax_lax6_rel s) as X.
  destruct (LaxIpSlice.from_slice s) as [[i st]|e|bg]; cbn [v6lax_of_lax_ip].
  - destruct (LaxIpv6Slice.from_slice s) as [[lv st']|e'|b']; cbn [rmap same_answer] in D; try contradiction.
    injection D as -> ->. cbn [fst snd]. exact X.
  - destruct (LaxIpv6Slice.from_slice s) as [[lv st']|e'|b'] eqn:E6; cbn [rmap same_answer] in D;
      try contradiction.
    cbn [v6lax_of_lax6] in X. rewrite X. f_equal.
    apply lax_ipv6_err_iff in E6. apply (v6_header_err_nibble6 o b rest e' N6) in E6. subst e'.
    destruct e as [l|c]; cbn [ip_err_canon] in D; [now injection D as ->|].
    destruct c; discriminate.
  - exfalso. now apply (NB bg).
Qed.

(* the nibble is not 6: the copy rejects like every IPv6-specific sibling *)
Theorem v6lax_mismatch o b rest :
  N.shiftr b 4 <> 6 ->
  Ipv6SliceLax.from_slice_lax (o, b :: rest) =
  if s_len (o, b :: rest) <? 40
  then Err (ELen (mkLenError 40 (s_len (o, b :: rest)) LsSlice LyIpv6Header 0))
  else Err (EContent (CeIpv6Version (N.shiftr b 4))).
Proof.
  intros N6. set (s := (o, b :: rest)). rewrite v6lax_unfold.
  unfold Ipv6HeaderSlice.from_slice, lerr.
  destruct (s_len s <? 40); [reflexivity|].
  change (rdU s 0) with (@Ok N b). cbn [bind].
  destruct (N.shiftr b 4 =? 6) eqn:C; [lia|]. reflexivity.
Qed.

Theorem v6lax_empty o :
  Ipv6SliceLax.from_slice_lax (o, []) = Err (ELen (mkLenError 40 0 LsSlice LyIpv6Header 0)).
Proof. reflexivity. Qed.

(* ---- C05 shape: against the strict Ipv6Slice::from_slice ---------------------------------- *)
Lemma v6_strict_unfold s :
  Ipv6Slice.from_slice s =
  (let* header := Ipv6HeaderSlice.from_slice s in
   let* pl := Ipv6HeaderSlice.payload_length header in
   let* hp :=
     (if (0 =? pl) && (40 <? s_len s) then
        let* n := subN (s_len s) 40 in let* p := subU s 40 n in Ok (p, LsSlice)
      else if s_len s <? 40 + pl then lerr (40 + pl) (s_len s) LsSlice LyIpv6Packet
      else let* p := subU s 40 pl in Ok (p, LsIpv6HeaderPayloadLen)) in
   strict_v6_tail header (fst hp) (snd hp)).
Proof.
  unfold Ipv6Slice.from_slice, Ipv6Slice.finish, strict_v6_tail.
  destruct (Ipv6HeaderSlice.from_slice s) as [h|e|b]; cbn [bind]; [|reflexivity|reflexivity].
  destruct (Ipv6HeaderSlice.payload_length h) as [pl|e|b]; cbn [bind]; [|reflexivity|reflexivity].
  match goal with |- bind ?X _ = bind ?X _ => destruct X as [[hp src]|e|b] end;
    cbn [bind fst snd]; reflexivity.
Qed.

(* (a) whatever Ipv6Slice::from_slice accepts, from_slice_lax returns unchanged (len_source
   included); (b)/(c) a rejection is kept, except the one the function is there to drop: more
   payload announced than present (`payload_length` not 0 or nothing behind the header), where
   it answers with the strict tail on the rest of the slice, the slice as length source *)
Theorem v6lax_vs_strict s :
  match Ipv6Slice.from_slice s with
  | Ok v => Ipv6SliceLax.from_slice_lax s = Ok v
  | Err e =>
      Ipv6SliceLax.from_slice_lax s = Err e \/
      exists h pl p,
        Ipv6HeaderSlice.from_slice s = Ok h /\ Ipv6HeaderSlice.payload_length h = Ok pl /\
        s_len s < 40 + pl /\
        e = ELen (mkLenError (40 + pl) (s_len s) LsSlice LyIpv6Packet 0) /\
        subU s 40 (s_len s - 40) = Ok p /\
        Ipv6SliceLax.from_slice_lax s = strict_v6_tail h p LsSlice
  | Bug _ => False
  end.
Proof.
  pose proof (nb_ipv6 s) as NB. rewrite v6_strict_unfold in *. rewrite v6lax_unfold.
  destruct (Ipv6HeaderSlice.from_slice s) as [h|e|b] eqn:Eh; cbn [bind] in *;
    [|left; reflexivity|now apply (NB b)].
  destruct (v6_header_facts _ _ Eh) as (Lh & Ls & _ & (pl & Epl) & _). rewrite Epl in *. cbn [bind] in *.
  unfold v6lax_select.
  destruct ((0 =? pl) && (40 <? s_len s)) eqn:Z.
  - match goal with |- match ?X with _ => _ end => destruct X as [v|e|b] eqn:E end;
      [reflexivity|left; reflexivity|now apply (NB b)].
  - destruct (s_len s <? 40 + pl) eqn:C.
    + unfold lerr. cbn [bind]. right.
      rewrite (subN_ok (s_len s) 40) by lia. cbn [bind].
      destruct (subU_ok s 40 (s_len s - 40)) as (p & E & _ & _); [lia|]. rewrite E. cbn [bind fst snd].
      exists h, pl, p. repeat split; try reflexivity; try assumption. lia.
    + match goal with |- match ?X with _ => _ end => destruct X as [v|e|b] eqn:E end;
        [reflexivity|left; reflexivity|now apply (NB b)].
Qed.

(* (c) Err only for an undecodable first header or a fault in the extension chain *)
Theorem v6lax_err_iff s e :
  Ipv6SliceLax.from_slice_lax s = Err e <->
  Ipv6HeaderSlice.from_slice s = Err e \/
  exists h pl hp,
    Ipv6HeaderSlice.from_slice s = Ok h /\ Ipv6HeaderSlice.payload_length h = Ok pl /\
    v6lax_select s pl = Ok hp /\ strict_v6_tail h (fst hp) (snd hp) = Err e.
Proof.
  rewrite v6lax_unfold.
  destruct (Ipv6HeaderSlice.from_slice s) as [h|e0|b] eqn:Eh; cbn [bind].
  - destruct (v6_header_facts _ _ Eh) as (Lh & Ls & _ & (pl & Epl) & _). rewrite Epl. cbn [bind].
    destruct (v6lax_select_ok s pl Ls) as (p & _ & E & _). rewrite E. cbn [bind fst snd]. split.
    + intros H. right. exists h, pl, (p, if ((0 =? pl) && (40 <? s_len s)) || (s_len s <? 40 + pl)
                                        then LsSlice else LsIpv6HeaderPayloadLen).
      repeat split; assumption.
    + intros [H|(h' & pl' & hp & H1 & H2 & H3 & H4)]; [discriminate|].
      injection H1 as <-. rewrite Epl in H2. injection H2 as <-. rewrite E in H3. injection H3 as <-.
      exact H4.
  - split; [intros H; left; injection H as <-; reflexivity|].
    intros [H|(h' & pl' & hp & H1 & _)]; [injection H as <-; reflexivity|discriminate].
  - split; [discriminate|]. intros [H|(h' & pl' & hp & H1 & _)]; discriminate.
Qed.

(* (d) the length source is honest.  Through the lax sibling (C05_incomplete_iff): the lax
   sibling marks the payload incomplete exactly when `payload_length` promised more than the
   slice holds; then from_slice_lax hands out the data up to the slice end with the slice as
   length source.  Stated directly as well: which source is reported, for every accepted input. *)
Theorem v6lax_len_source s v :
  Ipv6SliceLax.from_slice_lax s = Ok v ->
  exists lv h pl,
    LaxIpv6Slice.from_slice s = Ok (lv, None) /\ v = strict_v6 lv /\
    Ipv6HeaderSlice.from_slice s = Ok h /\ v6_header v = h /\
    Ipv6HeaderSlice.payload_length h = Ok pl /\
    lipp_incomplete (lv6_payload lv) = (s_len s <? 40 + pl) /\
    ipp_src (v6_payload v) =
      (if ((0 =? pl) && (40 <? s_len s)) || (s_len s <? 40 + pl)
       then LsSlice else LsIpv6HeaderPayloadLen) /\
    (s_len s < 40 + pl ->
     ipp_src (v6_payload v) = LsSlice /\ s_end (ipp_slice (v6_payload v)) = s_end s).
Proof.
  intros H. pose proof H as H0. apply v6lax_ok_iff in H. destruct H as (lv & El & ->).
  destruct (lax_ipv6_incomplete s lv None El) as (h & pl & Eh & Epl & Einc & Hinc).
  exists lv, h, pl. split; [exact El|]. split; [reflexivity|]. split; [exact Eh|].
  rewrite v6lax_unfold in H0. rewrite Eh in H0. cbn [bind] in H0. rewrite Epl in H0. cbn [bind] in H0.
  destruct (v6_header_facts _ _ Eh) as (_ & Ls & _ & _ & _).
  destruct (v6lax_select_ok s pl Ls) as (p & _ & E & _). rewrite E in H0. cbn [bind fst snd] in H0.
  apply strict_v6_tail_wf in H0. destruct H0 as (E1 & _ & E2 & _).
  split; [exact E1|]. split; [exact Epl|]. split; [exact Einc|]. split; [exact E2|].
  intros Lt. apply Hinc. rewrite Einc. lia.
Qed.

(* ---- C01 "depends only on the bytes of the slice": pointer-shift equivariance ------------- *)
Lemma strict_v6_tail_sh k h hp src :
  strict_v6_tail (sh k h) (sh k hp) src = rmap (sh_v6 k) (strict_v6_tail h hp src).
Proof.
  unfold strict_v6_tail.
  change (Ipv6HeaderSlice.next_header (sh k h)) with (Ipv6HeaderSlice.next_header h).
  destruct (Ipv6HeaderSlice.next_header h) as [nh|[?|?]|?]; cbn [bind rmap]; try reflexivity.
  rewrite x6_from_slice_sh.
  destruct (Ipv6ExtensionsSlice.from_slice nh hp) as [[[x n] p]|[?|?]|?]; cbn [bind rmap sh_x6r];
    reflexivity.
Qed.

Theorem v6lax_sh k s :
  Ipv6SliceLax.from_slice_lax (sh k s) = rmap (sh_v6 k) (Ipv6SliceLax.from_slice_lax s).
Proof.
  rewrite !v6lax_unfold. rewrite v6h_from_slice_sh.
  destruct (Ipv6HeaderSlice.from_slice s) as [h|[?|?]|?]; cbn [bind rmap]; try reflexivity.
  change (Ipv6HeaderSlice.payload_length (sh k h)) with (Ipv6HeaderSlice.payload_length h).
  destruct (Ipv6HeaderSlice.payload_length h) as [pl|[?|?]|?]; cbn [bind rmap]; try reflexivity.
  unfold v6lax_select. shrw.
  destruct ((0 =? pl) && (40 <? s_len s)).
  - destruct (subN (s_len s) 40) as [n|[?|?]|?]; cbn [bind rmap]; try reflexivity.
    shrw. destruct (subU s 40 n) as [p|[?|?]|?]; cbn [bind rmap fst snd]; try reflexivity.
    apply strict_v6_tail_sh.
  - destruct (s_len s <? 40 + pl).
    + destruct (subN (s_len s) 40) as [n|[?|?]|?]; cbn [bind rmap]; try reflexivity.
      shrw. destruct (subU s 40 n) as [p|[?|?]|?]; cbn [bind rmap fst snd]; try reflexivity.
      apply strict_v6_tail_sh.
    + destruct (subU s 40 pl) as [p|[?|?]|?]; cbn [bind rmap fst snd]; try reflexivity.
      apply strict_v6_tail_sh.
Qed.

(* a window [pos, lim) of a larger buffer: the answer is that of a standalone copy of the
   window's bytes, every stored slice moved by pos *)
Theorem v6lax_window bs s pos lim :
  repr bs s pos lim ->
  Ipv6SliceLax.from_slice_lax s =
  rmap (sh_v6 pos) (Ipv6SliceLax.from_slice_lax (mk_slice (take (lim - pos) (drop pos bs)))).
Proof.
  intros (-> & _ & _). rewrite <- v6lax_sh. unfold sh, mk_slice. cbn [fst snd].
  now rewrite N.add_0_l.
Qed.

(* ---- combined forms for Props/C06.v -------------------------------------------------------- *)
Theorem v6lax_total s :
  nobug (Ipv6SliceLax.from_slice_lax s) /\
  forall v, Ipv6SliceLax.from_slice_lax s = Ok v ->
    wf_ipv6 v /\ ipv6_in v s /\
    (bytes_ok (snd s) ->
     Forall nobug (Ipv6SliceA.accessors v) /\ Forall (win_ok s) (Ipv6SliceA.windows v)).
Proof.
  split; [apply v6lax_nobug|]. intros v H. destruct (v6lax_wf _ _ H) as (W & I).
  split; [exact W|]. split; [exact I|]. intros Hok. now apply v6lax_accessors.
Qed.

Theorem v6lax_eq_lax_ip_arm_octets o b rest :
  N.shiftr b 4 = 6 -> bytes_ok (b :: rest) ->
  Ipv6SliceLax.from_slice_lax (o, b :: rest) = v6lax_of_lax_ip (LaxIpSlice.from_slice (o, b :: rest)).
Proof.
  intros N6 Hok. apply v6lax_eq_lax_ip_arm; [exact N6|].
  exact (nb_laxip _ (o, b :: rest) _ _ (bytes_ok_pad _ _ Hok) (repr_self (o, b :: rest))).
Qed.

(* ---- example inputs of Props/C06.v (C06_ex_ipv6_slice_lax) ---------------------------------- *)
Definition v6lax_exA : bytes := [96;0;0;0; 0;100; 17; 64] ++ repeat 0 32 ++ [1;2;3;4;5;6;7;8].
Definition v6lax_exB : bytes := [96;0;0;0; 0;8; 60; 64] ++ repeat 0 32 ++ [43;0;0;0;0;0;0;0].
Definition v6lax_exC : bytes := [96;0;0;0; 0;16; 60; 64] ++ repeat 0 32 ++ [6;0;0;0;0;0;0;0] ++ [1;2;3;4;5;6;7;8;9].
Definition v6lax_exD : bytes := [96;0;0;0; 0;0; 44; 64] ++ repeat 0 32 ++ [17;0;0;9;0;0;0;1] ++ [1;2;3].
Definition v6lax_show (r : res ipv6_slice) :=
  match r with
  | Ok v => Some (win_of (v6_header v), x6_first (v6_exts v), win_of (x6_slice (v6_exts v)),
                  ipp_number (v6_payload v), ipp_fragmented (v6_payload v), ipp_src (v6_payload v),
                  win_of (ipp_slice (v6_payload v)))
  | _ => None
  end.

