(* Equiv/ModelRead.v -- C06 group 3: `T::read(&mut Cursor::new(bs))` against
   `T::from_slice(bs)` for the 17 header types that have both.

   read side : the read programs of IoFault/Model.v (transliterations of every
               `read`, written for C16) run against a std::io::Cursor over the
               byte string: a source that delivers whatever is asked for until
               the data ends and then reports end of file.  Only
               LinuxSllHeader::read is written here (C16 models it as a plain
               16 byte read; for C06 its validation through
               LinuxSllHeader::from_bytes matters).
   slice side: the from_slice models of Parse/Slices.v and Parse/HdrModel.v.

   Both are summarised by an `outcome`: header decoded from the first n bytes /
   data ended early / content rejection (kind) / a length error that is not
   about the end of the data.  A header value is a function of the bytes it was
   decoded from (C08/C15 cover the field decoders), so "same header" is "same
   n".  Content rejections are compared by kind (the read programs of C16 do
   not carry the offending value; the implementation-side oracle does). *)
From EP Require Import Base.Bytes Parse.Types Parse.Slices Parse.Cursor Parse.HdrModel Parse.HdrView
  IoFault.Spec IoFault.Model.

Local Open Scope N_scope.

(* std::io::Cursor<&[u8]> : everything that is left is delivered at once; the
   chunk bound of the C16 device is a constant >= 1 *)
Definition cursor_src (bs : bytes) : fsource := mk_fsource bs 65536 false 0.

Inductive hdr_type :=
| HEthernet2 | HSingleVlan | HLinuxSll | HMacsec | HIpv4 | HIpv6 | HIpAuth | HIpv6RawExt
| HIpv6Frag | HArp | HTcp | HUdp | HIcmpv4 | HIcmpv6
| HIpv4Exts (start : N) | HIpv6Exts (start : N) | HIpHeaders.

(* rejection kinds: those of C16 plus the two of linux_sll::HeaderError *)
Inductive ckind :=
| KC (c : cerr)
| KSllPacketType (v : N)
| KSllArpHardwareId (v : N).

Inductive outcome :=
| OOk (n : N)              (* decoded from the first n bytes *)
| OEof                     (* the data ends inside the announced header *)
| OContent (k : ckind)
| OLen (required l src layer off : N)   (* a length field contradicts another one *)
| OBad (site : N).

(* ---- read side -------------------------------------------------------------- *)
(* LinuxSllHeader::from_bytes: LinuxSllPacketType::try_from(be16 0..2)?,
   LinuxSllProtocolType::try_from((be16 2..4, be16 14..16))? *)
Definition sll_from_bytes (b : bytes) : outcome :=
  match rd b 0, rd b 1, rd b 2, rd b 3, rd b 14, rd b 15 with
  | Some b0, Some b1, Some b2, Some b3, Some b14, Some b15 =>
      match LinuxSll.packet_type_try_from (be16 b0 b1) with
      | Ok _ =>
          match LinuxSll.protocol_type_try_from (be16 b2 b3) (be16 b14 b15) with
          | Ok _ => OOk 16
          | Err (EContent (CeLinuxSllArpHardwareId v)) => OContent (KSllArpHardwareId v)
          | _ => OBad 2
          end
      | Err (EContent (CeLinuxSllPacketType v)) => OContent (KSllPacketType v)
      | _ => OBad 1
      end
  | _, _, _, _, _, _ => OBad 0
  end.

(* LinuxSllHeader::read: read_exact(16 bytes)?; Ok(LinuxSllHeader::from_bytes(buffer)?) *)
Definition sll_read (bs : bytes) : outcome :=
  match io_read_exact (cursor_src bs) 16 with
  | (XOk buffer, _) => sll_from_bytes buffer
  | (XIo KEof, _) => OEof
  | _ => OBad 3
  end.

Definition read_prog (t : hdr_type) : rprog :=
  match t with
  | HEthernet2 => read_fixed 14
  | HSingleVlan => read_fixed 4
  | HLinuxSll => read_fixed 16          (* not used: sll_read *)
  | HMacsec => macsec_header_read
  | HIpv4 => ipv4_header_read
  | HIpv6 => ipv6_header_read
  | HIpAuth => ip_auth_read false (fun nh => PRet [nh])
  | HIpv6RawExt => ipv6_raw_ext_read false (fun nh => PRet [nh])
  | HIpv6Frag => ipv6_frag_read false (fun nh => PRet [nh])
  | HArp => arp_packet_read
  | HTcp => tcp_header_read
  | HUdp => read_fixed 8
  | HIcmpv4 => icmpv4_header_read
  | HIcmpv6 => read_fixed 8
  | HIpv4Exts start => x4_read false start
  | HIpv6Exts start => x6_read false start
  | HIpHeaders => ip_headers_read
  end.

Definition outcome_of_run (r : qres (list N) * rstate) : outcome :=
  match r with
  | (QOk _, st) => OOk (src_pulled (rs_src st))
  | (QIo KEof, _) => OEof
  | (QIo _, _) => OBad 10
  | (QContent c, _) => OContent (KC c)
  | (QLen e, _) => OLen (le_required e) (le_len e) (le_source e) (IoFault.Model.le_layer e) (IoFault.Model.le_off e)
  | (QUnderflow, _) => OBad 11
  | (QBad, _) => OBad 12
  | (QFuel, _) => OBad 13
  end.

Definition read_outcome (t : hdr_type) (bs : bytes) : outcome :=
  match t with
  | HLinuxSll => sll_read bs
  | _ => outcome_of_run (run_r (read_prog t) (mk_rstate (cursor_src bs) None))
  end.

(* ---- slice side ------------------------------------------------------------- *)
Definition kind_of (c : content_error) : ckind :=
  match c with
  | CeLinuxSllPacketType v => KSllPacketType v
  | CeLinuxSllArpHardwareId v => KSllArpHardwareId v
  | CeMacsecVersion => KC CMacsecVersion
  | CeMacsecUnmodifiedShortLen => KC CMacsecShortLen
  | CeIpUnsupportedVersion _ => KC CVersion
  | CeIpIhl _ => KC CIhl
  | CeIpv4Version _ => KC CVersion
  | CeIpv4Ihl _ => KC CIhl
  | CeIpv6Version _ => KC CVersion
  | CeAuthZeroPayloadLen => KC CAuthZeroLen
  | CeIpv6AuthZeroPayloadLen => KC CAuthZeroLen
  | CeHopByHopNotAtStart => KC CHopNotAtStart
  | CeTcpDataOffset _ => KC CDataOffset
  end.

(* the codes of LenSource / Layer used by the C16 LimitedReader model *)
Definition src_code (s : len_source) : N :=
  match s with
  | LsSlice => LS_SLICE | LsIpv4HeaderTotalLen => LS_IPV4_TOTAL
  | LsIpv6HeaderPayloadLen => LS_IPV6_PAYLOAD | _ => 99
  end.
Definition layer_code (l : layer) : N :=
  match l with
  | LyIpv4Header => L_IPV4H | LyIpv4Packet => L_IPV4PKT | LyIpAuthHeader => L_AUTH
  | LyIpv6Header => L_IPV6H | LyIpv6ExtHeader => L_IPV6EXT | LyIpv6FragHeader => L_IPV6FRAG
  | _ => 99
  end.

(* a length error whose source is the slice says "the data ends here": for a
   reader that is end of file *)
Definition outcome_of_err (e : slice_error) : outcome :=
  match e with
  | EContent c => OContent (kind_of c)
  | ELen l =>
      match le_src l with
      | LsSlice => OEof
      | LsArpAddrLengths => OEof     (* ArpPacketSlice: data shorter than the announced addresses *)
      | s => OLen (Types.le_required l) (Types.le_len l) (src_code s) (layer_code (Types.le_layer l))
                  (Types.le_off l)
      end
  end.

Definition outcome_of_res {A} (f : A -> N) (r : res A) : outcome :=
  match r with
  | Ok a => OOk (f a)
  | Err e => outcome_of_err e
  | Bug b => OBad (100 + b)
  end.

(* rules that depend on the total slice length (ICMPv4 timestamp: exactly 20
   bytes) are compared on the slice that ends with the header the reader
   decoded *)
Definition ends_with_header (t : hdr_type) (bs : bytes) : bytes :=
  match read_outcome t bs with
  | OOk n => take n bs
  | _ => bs
  end.

Definition slice_outcome (t : hdr_type) (bs : bytes) : outcome :=
  let s := mk_slice bs in
  match t with
  | HEthernet2 => outcome_of_res (fun r => s_len (fst r)) (Ethernet2Header.from_slice s)
  | HSingleVlan => outcome_of_res (fun r => s_len (fst r)) (SingleVlanHeader.from_slice s)
  | HLinuxSll => outcome_of_res s_len (LinuxSll.header_from_slice s)
  | HMacsec => outcome_of_res s_len (Macsec.header_from_slice s)
  | HIpv4 => outcome_of_res (fun r => s_len (fst r)) (Ipv4Header.from_slice s)
  | HIpv6 => outcome_of_res (fun r => s_len (fst r)) (Ipv6Header.from_slice s)
  | HIpAuth => outcome_of_res s_len (IpAuthHeaderSlice.from_slice s)
  | HIpv6RawExt => outcome_of_res s_len (Ipv6RawExtHeaderSlice.from_slice s)
  | HIpv6Frag => outcome_of_res s_len (Ipv6FragmentHeaderSlice.from_slice s)
  | HArp => outcome_of_res s_len (ArpPacketSlice.from_slice s)
  | HTcp => outcome_of_res (fun r => s_len (fst r)) (TcpHeader.from_slice s)
  | HUdp => outcome_of_res s_len (UdpSlice.header_from_slice s)
  | HIcmpv4 =>
      let s' := mk_slice (ends_with_header HIcmpv4 bs) in
      outcome_of_res (fun n => n) (let* r := Icmpv4Slice.from_slice s' in Icmpv4Acc.header_len r)
  | HIcmpv6 =>
      let s' := mk_slice (ends_with_header HIcmpv6 bs) in
      outcome_of_res s_len (let* r := Icmpv6Slice.from_slice s' in Icmpv6Acc.header r)
  | HIpv4Exts start =>
      outcome_of_res (fun r => olen (fst (fst r))) (Ipv4Extensions.from_slice start s)
  | HIpv6Exts start =>
      outcome_of_res (fun r => exts6_len (fst (fst r))) (Ipv6Extensions.from_slice start s)
  | HIpHeaders =>
      outcome_of_res (fun r => s_off (ipp_slice (snd r))) (IpHeaders.from_slice s)
  end.
