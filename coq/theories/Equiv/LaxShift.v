(* Equiv/LaxShift.v -- C06 group 1 for the lax slicing family (LaxSlicedPacket):
   from_ethernet against from_ether_type on the bytes behind the Ethernet II
   header.  Pointer-shift equivariance of the lax slicers (Parse/LaxSlices.v) and
   of the lax cursor (Parse/LaxCursor.v); same technique as Equiv/ShiftProofs.v.
   Faults behind the first header are stop errors here: their layer_start_offset
   moves by 14 like the windows. *)
From EP Require Import Base.Bytes Parse.Types Parse.Slices Parse.Cursor Parse.View Parse.LaxSlices
  Parse.LaxCursor Equiv.Model Equiv.Proofs Equiv.ShiftProofs.
From Coq Require Import ZArith Lia ZifyN ZifyBool.
Import LaxSlicedPacketCursor.

Local Open Scope N_scope.

(* ---- shifted values of the lax model ------------------------------------------------ *)
Definition sh_lep k (e : lax_ether_payload) : lax_ether_payload :=
  mkLaxEp (lep_incomplete e) (lep_ether_type e) (lep_src e) (sh k (lep_slice e)).
Definition sh_lipp k (p : lax_ip_payload) : lax_ip_payload :=
  mkLaxIpp (lipp_incomplete p) (lipp_number p) (lipp_fragmented p) (lipp_src p) (sh k (lipp_slice p)).
Definition sh_lmp k (m : lax_macsec_payload) : lax_macsec_payload :=
  match m with
  | LMpUnmodified e => LMpUnmodified (sh_lep k e)
  | LMpModified i s => LMpModified i (sh k s)
  end.
Definition sh_lms k (m : lax_macsec_slice) : lax_macsec_slice :=
  mkLaxMacsec (sh k (lms_header m)) (sh_lmp k (lms_payload m)).
Definition sh_lv4 k (v : lax_ipv4_slice) : lax_ipv4_slice :=
  mkLaxIpv4 (sh k (lv4_header v)) (option_map (sh k) (lv4_auth v)) (sh_lipp k (lv4_payload v)).
Definition sh_lv6 k (v : lax_ipv6_slice) : lax_ipv6_slice :=
  mkLaxIpv6 (sh k (lv6_header v)) (sh_x6 k (lv6_exts v)) (sh_lipp k (lv6_payload v)).
Definition sh_lip k (i : lax_ip_slice) : lax_ip_slice :=
  match i with LIpV4 v => LIpV4 (sh_lv4 k v) | LIpV6 v => LIpV6 (sh_lv6 k v) end.
Definition sh_llext k (x : lax_link_ext_slice) : lax_link_ext_slice :=
  match x with LLeVlan s => LLeVlan (sh k s) | LLeMacsec m => LLeMacsec (sh_lms k m) end.
Definition sh_lnet k (n : lax_net_slice) : lax_net_slice :=
  match n with
  | LNtIpv4 v => LNtIpv4 (sh_lv4 k v) | LNtIpv6 v => LNtIpv6 (sh_lv6 k v) | LNtArp s => LNtArp (sh k s)
  end.
(* a stop error: the layer_start_offset of a length error moves *)
Definition sh_stop k (e : stop_error) : stop_error := (shift_err k (fst e), snd e).

(* ---- lax single-layer slicers -------------------------------------------------------- *)
Lemma lax_macsec_from_slice_sh k s :
  LaxMacsecSlice.from_slice (sh k s) = rmap (sh_lms k) (LaxMacsecSlice.from_slice s).
Proof.
  unfold LaxMacsecSlice.from_slice. rewrite macsec_header_sh.
  destruct (Macsec.header_from_slice s) as [h|[?|?]|?]; cbn [bind rmap]; try reflexivity.
  rewrite macsec_epl_sh, macsec_net_sh, macsec_hl_sh.
  destruct (Macsec.expected_payload_len h) as [[n|]|[?|?]|?]; cbn [bind rmap]; try reflexivity.
  - destruct (Macsec.header_len h) as [hl|[?|?]|?]; cbn [bind rmap]; try reflexivity.
    shrw. destruct (s_len s <? hl + n).
    + destruct (subN (s_len s) (s_len h)) as [m|[?|?]|?]; cbn [bind rmap]; try reflexivity.
      shrw. destruct (subU s (s_len h) m) as [p|[?|?]|?]; cbn [bind rmap]; try reflexivity.
      destruct (Macsec.next_ether_type h) as [[et|]|[?|?]|?]; reflexivity.
    + destruct (subU s (s_len h) n) as [p|[?|?]|?]; cbn [bind rmap]; try reflexivity.
      destruct (Macsec.next_ether_type h) as [[et|]|[?|?]|?]; reflexivity.
  - shrw. destruct (subN (s_len s) (s_len h)) as [m|[?|?]|?]; cbn [bind rmap]; try reflexivity.
    shrw. destruct (subU s (s_len h) m) as [p|[?|?]|?]; cbn [bind rmap]; try reflexivity.
    destruct (Macsec.next_ether_type h) as [[et|]|[?|?]|?]; reflexivity.
Qed.

Definition sh_sel k (t : slice * len_source * bool) : slice * len_source * bool :=
  (sh k (fst (fst t)), snd (fst t), snd t).

Lemma select_payload_sh k s hl tl :
  LaxIpv4Slice.select_payload (sh k s) hl tl = rmap (sh_sel k) (LaxIpv4Slice.select_payload s hl tl).
Proof. unfold LaxIpv4Slice.select_payload. steps. Qed.

Definition sh_fin4 k (r : lax_ipv4_slice * option slice_error) := (sh_lv4 k (fst r), snd r).

Lemma lv4_finish_sh k h hp src inc :
  LaxIpv4Slice.finish (sh k h) (sh k hp) src inc = rmap (sh_fin4 k) (LaxIpv4Slice.finish h hp src inc).
Proof.
  unfold LaxIpv4Slice.finish.
  change (Ipv4HeaderSlice.is_fragmenting_payload (sh k h)) with (Ipv4HeaderSlice.is_fragmenting_payload h).
  change (Ipv4HeaderSlice.protocol (sh k h)) with (Ipv4HeaderSlice.protocol h).
  destruct (Ipv4HeaderSlice.is_fragmenting_payload h) as [fr|[?|?]|?]; cbn [bind rmap]; try reflexivity.
  destruct (Ipv4HeaderSlice.protocol h) as [proto|[?|?]|?]; cbn [bind rmap]; try reflexivity.
  destruct (proto =? IPN_AUTH); [|reflexivity].
  rewrite auth_from_slice_sh, !s_len_sh.
  destruct (IpAuthHeaderSlice.from_slice hp) as [a|[l|c]|b]; cbn [rmap]; try reflexivity.
  rewrite s_len_sh.
  destruct (subN (s_len hp) (s_len a)) as [n|[?|?]|?]; cbn [bind rmap]; try reflexivity.
  rewrite subU_sh. destruct (subU hp (s_len a) n) as [p|[?|?]|?]; cbn [bind rmap]; try reflexivity.
  change (IpAuthHeaderSlice.next_header (sh k a)) with (IpAuthHeaderSlice.next_header a).
  destruct (IpAuthHeaderSlice.next_header a) as [ipn|[?|?]|?]; reflexivity.
Qed.

Definition sh_w k (r : slice * N * bool * option stop_error) : slice * N * bool * option stop_error :=
  (sh k (fst (fst (fst r))), snd (fst (fst r)), snd (fst r), snd r).

Lemma lax_walk_sh k fuel : forall start_len rest nh fr,
  LaxIpv6Exts.walk fuel start_len (sh k rest) nh fr = rmap (sh_w k) (LaxIpv6Exts.walk fuel start_len rest nh fr).
Proof.
  induction fuel as [|f IH]; intros start_len rest nh fr; [reflexivity|].
  cbn [LaxIpv6Exts.walk].
  destruct (nh =? IPN_HOP_BY_HOP); [reflexivity|].
  destruct ((nh =? IPN_DEST_OPTIONS) || (nh =? IPN_ROUTE)).
  { rewrite raw_from_slice_sh, !s_len_sh.
    destruct (Ipv6RawExtHeaderSlice.from_slice rest) as [sl|[l|c]|b]; cbn [rmap]; try reflexivity.
    - rewrite s_len_sh. destruct (subN (s_len rest) (s_len sl)) as [n|[?|?]|?]; cbn [bind rmap]; try reflexivity.
      rewrite subU_sh. destruct (subU rest (s_len sl) n) as [r'|[?|?]|?]; cbn [bind rmap]; try reflexivity.
      change (Ipv6RawExtHeaderSlice.next_header (sh k sl)) with (Ipv6RawExtHeaderSlice.next_header sl).
      destruct (Ipv6RawExtHeaderSlice.next_header sl) as [nh'|[?|?]|?]; cbn [bind rmap]; try reflexivity.
      apply IH.
    - destruct (subN start_len (s_len rest)) as [off|[?|?]|?]; reflexivity. }
  destruct (nh =? IPN_FRAG).
  { rewrite frag_from_slice_sh, !s_len_sh.
    destruct (Ipv6FragmentHeaderSlice.from_slice rest) as [sl|[l|c]|b]; cbn [rmap]; try reflexivity.
    - rewrite s_len_sh. destruct (subN (s_len rest) (s_len sl)) as [n|[?|?]|?]; cbn [bind rmap]; try reflexivity.
      rewrite subU_sh. destruct (subU rest (s_len sl) n) as [r'|[?|?]|?]; cbn [bind rmap]; try reflexivity.
      change (Ipv6FragmentHeaderSlice.next_header (sh k sl)) with (Ipv6FragmentHeaderSlice.next_header sl).
      change (Ipv6FragmentHeaderSlice.is_fragmenting_payload (sh k sl))
        with (Ipv6FragmentHeaderSlice.is_fragmenting_payload sl).
      destruct (Ipv6FragmentHeaderSlice.next_header sl) as [nh'|[?|?]|?]; cbn [bind rmap]; try reflexivity.
      destruct (Ipv6FragmentHeaderSlice.is_fragmenting_payload sl) as [f'|[?|?]|?]; cbn [bind rmap]; try reflexivity.
      apply IH.
    - destruct (subN start_len (s_len rest)) as [off|[?|?]|?]; reflexivity. }
  destruct (nh =? IPN_AUTH).
  { rewrite auth_from_slice_sh, !s_len_sh.
    destruct (IpAuthHeaderSlice.from_slice rest) as [sl|[l|c]|b]; cbn [rmap]; try reflexivity.
    - rewrite s_len_sh. destruct (subN (s_len rest) (s_len sl)) as [n|[?|?]|?]; cbn [bind rmap]; try reflexivity.
      rewrite subU_sh. destruct (subU rest (s_len sl) n) as [r'|[?|?]|?]; cbn [bind rmap]; try reflexivity.
      change (IpAuthHeaderSlice.next_header (sh k sl)) with (IpAuthHeaderSlice.next_header sl).
      destruct (IpAuthHeaderSlice.next_header sl) as [nh'|[?|?]|?]; cbn [bind rmap]; try reflexivity.
      apply IH.
    - destruct (subN start_len (s_len rest)) as [off|[?|?]|?]; reflexivity. }
  reflexivity.
Qed.

Definition sh_x6l k (r : ipv6_exts_slice * N * slice * option stop_error) :=
  (sh_x6 k (fst (fst (fst r))), snd (fst (fst r)), sh k (snd (fst r)), snd r).

Lemma lax_x6_from_slice_sh k nh s :
  LaxIpv6Exts.from_slice_lax nh (sh k s) = rmap (sh_x6l k) (LaxIpv6Exts.from_slice_lax nh s).
Proof.
  unfold LaxIpv6Exts.from_slice_lax. rewrite snd_sh, !s_len_sh.
  assert (TAIL : forall (w : res (slice * N * bool * option stop_error)),
    (let* w0 := rmap (sh_w k) w in
     let '(rest, next_header, fragmented, error) := w0 in
     let* used := subN (s_len s) (s_len rest) in
     let* sl := (if used <=? s_len s then Ok (fst (sh k s), take used (snd s)) else Bug SITE_INDEX) in
     Ok (mkIpv6Exts (if negb (s_len rest =? s_len s) then Some nh else None) fragmented sl,
         next_header, rest, error)) =
    rmap (sh_x6l k)
      (let* w0 := w in
       let '(rest, next_header, fragmented, error) := w0 in
       let* used := subN (s_len s) (s_len rest) in
       let* sl := (if used <=? s_len s then Ok (fst s, take used (snd s)) else Bug SITE_INDEX) in
       Ok (mkIpv6Exts (if negb (s_len rest =? s_len s) then Some nh else None) fragmented sl,
           next_header, rest, error))).
  { intros [[[[r n] f] e]|[?|?]|?]; cbn [bind rmap sh_w fst snd]; try reflexivity.
    rewrite s_len_sh. destruct (subN (s_len s) (s_len r)) as [used|[?|?]|?]; cbn [bind rmap]; try reflexivity.
    destruct (used <=? s_len s); reflexivity. }
  destruct (IPN_HOP_BY_HOP =? nh).
  - rewrite raw_from_slice_sh.
    destruct (Ipv6RawExtHeaderSlice.from_slice s) as [sl|[l|c]|b]; cbn [rmap bind]; try reflexivity.
    + rewrite s_len_sh. destruct (s_len sl <=? s_len s); cbn [bind rmap]; [|reflexivity].
      change (Ipv6RawExtHeaderSlice.next_header (sh k sl)) with (Ipv6RawExtHeaderSlice.next_header sl).
      destruct (Ipv6RawExtHeaderSlice.next_header sl) as [nh'|[?|?]|?]; cbn [bind rmap]; try reflexivity.
      replace (fst (sh k s) + s_len sl, drop (s_len sl) (snd s))
        with (sh k (fst s + s_len sl, drop (s_len sl) (snd s)))
        by (unfold sh; cbn [fst snd]; f_equal; lia).
      rewrite lax_walk_sh. apply TAIL.
    + apply (TAIL (Ok (s, nh, false, Some (ELen l, LyIpv6HopByHopHeader)))).
  - cbn [bind]. rewrite lax_walk_sh. apply TAIL.
Qed.

Definition sh_fin6 k (r : lax_ipv6_slice * option stop_error) := (sh_lv6 k (fst r), snd r).

Lemma lv6_finish_sh k h hp src inc :
  LaxIpv6Slice.finish (sh k h) (sh k hp) src inc = rmap (sh_fin6 k) (LaxIpv6Slice.finish h hp src inc).
Proof.
  unfold LaxIpv6Slice.finish.
  change (Ipv6HeaderSlice.next_header (sh k h)) with (Ipv6HeaderSlice.next_header h).
  destruct (Ipv6HeaderSlice.next_header h) as [nh|[?|?]|?]; cbn [bind rmap]; try reflexivity.
  rewrite lax_x6_from_slice_sh.
  destruct (LaxIpv6Exts.from_slice_lax nh hp) as [[[[x n] p] e]|[?|?]|?]; cbn [bind rmap sh_x6l fst snd];
    reflexivity.
Qed.

Definition sh_lipr k (r : lax_ip_slice * option stop_error) := (sh_lip k (fst r), snd r).

Lemma lax_ip_from_slice_sh k s :
  LaxIpSlice.from_slice (sh k s) = rmap (sh_lipr k) (LaxIpSlice.from_slice s).
Proof.
  unfold LaxIpSlice.from_slice. shrw.
  destruct (s_len s =? 0); [reflexivity|].
  destruct (rdU s 0) as [b0|[?|?]|?]; cbn [bind rmap]; try reflexivity.
  destruct (N.shiftr b0 4 =? 4).
  { destruct (N.land b0 15 <? 5); [reflexivity|].
    destruct (s_len s <? N.land b0 15 * 4); [reflexivity|].
    shrw. destruct (subU s 0 (N.land b0 15 * 4)) as [h|[?|?]|?]; cbn [bind rmap]; try reflexivity.
    change (Ipv4HeaderSlice.total_len (sh k h)) with (Ipv4HeaderSlice.total_len h).
    destruct (Ipv4HeaderSlice.total_len h) as [tl|[?|?]|?]; cbn [bind rmap]; try reflexivity.
    rewrite select_payload_sh.
    destruct (LaxIpv4Slice.select_payload s (N.land b0 15 * 4) tl) as [[[hp src] inc]|[?|?]|?];
      cbn [bind rmap sh_sel fst snd]; try reflexivity.
    rewrite lv4_finish_sh.
    destruct (LaxIpv4Slice.finish h hp src inc) as [[v st]|[?|?]|?]; cbn [bind rmap sh_fin4 fst snd];
      reflexivity. }
  destruct (N.shiftr b0 4 =? 6); [|reflexivity].
  destruct (s_len s <? 40); [reflexivity|].
  shrw. destruct (subU s 0 40) as [h|[?|?]|?]; cbn [bind rmap]; try reflexivity.
  change (Ipv6HeaderSlice.payload_length (sh k h)) with (Ipv6HeaderSlice.payload_length h).
  destruct (Ipv6HeaderSlice.payload_length h) as [pl|[?|?]|?]; cbn [bind rmap]; try reflexivity.
  assert (SEL :
    (if (0 =? pl) && (40 <? s_len s)
     then let* n := subN (s_len s) 40 in let* p := subU (sh k s) 40 n in Ok (p, LsSlice, false)
     else let* d := subN (s_len s) 40 in
          if d <? pl then let* n := subN (s_len s) 40 in let* p := subU (sh k s) 40 n in Ok (p, LsSlice, true)
          else let* p := subU (sh k s) 40 pl in Ok (p, LsIpv6HeaderPayloadLen, false)) =
    rmap (sh_sel k)
    (if (0 =? pl) && (40 <? s_len s)
     then let* n := subN (s_len s) 40 in let* p := subU s 40 n in Ok (p, LsSlice, false)
     else let* d := subN (s_len s) 40 in
          if d <? pl then let* n := subN (s_len s) 40 in let* p := subU s 40 n in Ok (p, LsSlice, true)
          else let* p := subU s 40 pl in Ok (p, LsIpv6HeaderPayloadLen, false))).
  { steps. }
  rewrite SEL.
  match goal with |- context [rmap (sh_sel k) ?t] => destruct t as [[[hp src] inc]|[?|?]|?] end;
    cbn [bind rmap sh_sel fst snd]; try reflexivity.
  rewrite lv6_finish_sh.
  destruct (LaxIpv6Slice.finish h hp src inc) as [[v st]|[?|?]|?]; cbn [bind rmap sh_fin6 fst snd]; reflexivity.
Qed.

Lemma udp_from_slice_lax_sh k s :
  UdpSlice.from_slice_lax (sh k s) = rmap (sh k) (UdpSlice.from_slice_lax s).
Proof.
  unfold UdpSlice.from_slice_lax, UdpSlice.header_from_slice. shrw.
  destruct (s_len s <? 8); [reflexivity|].
  destruct (subU s 0 8) as [h|[?|?]|?]; cbn [bind rmap]; try reflexivity.
  change (UdpSlice.length (sh k h)) with (UdpSlice.length h).
  destruct (UdpSlice.length h) as [l|[?|?]|?]; cbn [bind rmap]; try reflexivity.
  shrw. destruct ((s_len s <? l) || (l <? 8)); reflexivity.
Qed.

(* ---- the lax cursor -------------------------------------------------------------------- *)
Lemma ptr_diff_sh' k p s :
  LaxSlicedPacketCursor.ptr_diff (sh k p) (sh k s) = LaxSlicedPacketCursor.ptr_diff p s.
Proof.
  unfold LaxSlicedPacketCursor.ptr_diff, subN. rewrite !s_off_sh.
  destruct (s_off s + k <=? s_off p + k) eqn:E1, (s_off s <=? s_off p) eqn:E2; try lia; [|reflexivity].
  f_equal. lia.
Qed.

Definition lprel k (p1 p2 : lax_sliced_packet) : Prop :=
  lsp_exts p1 = map (sh_llext k) (lsp_exts p2) /\
  lsp_net p1 = option_map (sh_lnet k) (lsp_net p2) /\
  lsp_transport p1 = option_map (sh_tr k) (lsp_transport p2) /\
  lsp_stop_err p1 = option_map (sh_stop k) (lsp_stop_err p2).

Definition lcrel k (c1 c2 : lax_cursor) : Prop :=
  lc_offset c1 = lc_offset c2 + k /\ lc_src c1 = lc_src c2 /\ lprel k (lc_result c1) (lc_result c2).

(* results related up to the link layer; an Err can only be the `?` of the
   Ethernet II header (no second entry point) or of an accessor that never fails *)
Definition lrrel k (r1 r2 : res lax_sliced_packet) : Prop :=
  match r1, r2 with
  | Ok p1, Ok p2 => lprel k p1 p2
  | Err e1, Err e2 => e1 = e2
  | Bug a, Bug b => a = b
  | _, _ => False
  end.

Lemma fix_len_shift k e o1 o2 src : o1 = o2 + k ->
  fix_len e o1 src = le_add_offset (fix_len e o2 src) k.
Proof.
  intros ->. unfold fix_len, le_add_offset, le_set_src. cbn.
  destruct (is_slice_src (le_src e)); cbn; f_equal; lia.
Qed.

Lemma has_stop_rel k p1 p2 : lprel k p1 p2 -> has_stop p1 = has_stop p2.
Proof. intros (_ & _ & _ & E). unfold has_stop. rewrite E. destruct (lsp_stop_err p2); reflexivity. Qed.

Lemma lprel_with_stop k p1 p2 e1 e2 ly : lprel k p1 p2 -> e1 = shift_err k e2 ->
  lprel k (with_stop p1 (e1, ly)) (with_stop p2 (e2, ly)).
Proof.
  intros (E1 & E2 & E3 & E4) ->. unfold lprel, with_stop. cbn. rewrite E1, E2, E3. auto.
Qed.

Lemma lprel_with_transport k p1 p2 t : lprel k p1 p2 ->
  lprel k (with_transport p1 (sh_tr k t)) (with_transport p2 t).
Proof.
  intros (E1 & E2 & E3 & E4). unfold lprel, with_transport. cbn. rewrite E1, E2, E4. auto.
Qed.

Lemma slice_transport_sh k c1 c2 p :
  lcrel k c1 c2 -> lrrel k (slice_transport c1 (sh_lipp k p)) (slice_transport c2 p).
Proof.
  intros (Ho & Hs & P). unfold slice_transport.
  cbn [sh_lipp lipp_fragmented lipp_number lipp_slice lipp_src].
  rewrite (has_stop_rel k _ _ P).
  destruct (lipp_fragmented p || has_stop (lc_result c2)); [exact P|].
  destruct (lipp_number p =? IPN_ICMP).
  { rewrite icmp4_from_slice_sh.
    destruct (Icmpv4Slice.from_slice (lipp_slice p)) as [v|[l|c]|b]; cbn [rmap lrrel]; try reflexivity.
    - apply (lprel_with_transport k _ _ (TrIcmpv4 v) P).
    - apply lprel_with_stop; [exact P|]. cbn [shift_err]. f_equal. now apply fix_len_shift. }
  destruct (lipp_number p =? IPN_UDP).
  { rewrite udp_from_slice_lax_sh.
    destruct (UdpSlice.from_slice_lax (lipp_slice p)) as [v|[l|c]|b]; cbn [rmap lrrel]; try reflexivity.
    - apply (lprel_with_transport k _ _ (TrUdp v) P).
    - apply lprel_with_stop; [exact P|]. cbn [shift_err]. f_equal. now apply fix_len_shift. }
  destruct (lipp_number p =? IPN_TCP).
  { rewrite tcp_from_slice_sh.
    destruct (TcpSlice.from_slice (lipp_slice p)) as [[hl v]|[l|c]|b]; cbn [rmap lrrel sh_tcp fst snd];
      try reflexivity.
    - apply (lprel_with_transport k _ _ (TrTcp hl v) P).
    - apply lprel_with_stop; [exact P|]. cbn [shift_err]. f_equal. now apply fix_len_shift.
    - apply lprel_with_stop; [exact P|]. reflexivity. }
  destruct (lipp_number p =? IPN_ICMPV6).
  { rewrite icmp6_from_slice_sh.
    destruct (Icmpv6Slice.from_slice (lipp_slice p)) as [v|[l|c]|b]; cbn [rmap lrrel]; try reflexivity.
    - apply (lprel_with_transport k _ _ (TrIcmpv6 v) P).
    - apply lprel_with_stop; [exact P|]. cbn [shift_err]. f_equal. now apply fix_len_shift. }
  exact P.
Qed.

Lemma conv_ext_stop_shift k v4 o1 o2 src e : o1 = o2 + k ->
  conv_ext_stop v4 (fun l => fix_len l o1 src) e =
  sh_stop k (conv_ext_stop v4 (fun l => fix_len l o2 src) e).
Proof.
  intros H. destruct e as [[l|c] ly]; cbn [conv_ext_stop sh_stop fst snd shift_err].
  - unfold sh_stop. cbn [fst snd shift_err]. f_equal. f_equal. now apply fix_len_shift.
  - destruct c; reflexivity.
Qed.

Lemma slice_ip_sh k c1 c2 s :
  lcrel k c1 c2 -> lrrel k (slice_ip c1 (sh k s)) (slice_ip c2 s).
Proof.
  intros C. pose proof C as (Ho & Hs & P). unfold slice_ip. rewrite lax_ip_from_slice_sh.
  destruct (LaxIpSlice.from_slice s) as [[ip stop]|[l|c]|b]; cbn [rmap sh_lipr fst snd lrrel]; try reflexivity.
  - assert (Epl : LaxIpSlice.payload (sh_lip k ip) = sh_lipp k (LaxIpSlice.payload ip))
      by (destruct ip; reflexivity).
    rewrite Epl. cbn [sh_lipp lipp_slice lipp_src].
    rewrite ptr_diff_sh'.
    destruct (ptr_diff (lipp_slice (LaxIpSlice.payload ip)) s) as [d|[?|?]|?]; cbn [bind lrrel]; try reflexivity.
    apply slice_transport_sh. unfold lcrel. cbn [lc_offset lc_src lc_result].
    split; [lia|]. split; [now rewrite Hs|].
    destruct P as (E1 & E2 & E3 & E4).
    assert (Ev4 : is_v4 (sh_lip k ip) = is_v4 ip) by (destruct ip; reflexivity).
    assert (Enet : net_of_ip (sh_lip k ip) = sh_lnet k (net_of_ip ip)) by (destruct ip; reflexivity).
    rewrite Ev4, Enet, Hs.
    destruct stop as [e|]; cbn [option_map with_opt_stop].
    + rewrite (conv_ext_stop_shift k (is_v4 ip) (lc_offset c1) (lc_offset c2) (lc_src c2) e Ho).
      unfold lprel, with_stop, with_net. cbn. rewrite E1, E3. auto.
    + unfold lprel, with_net. cbn. rewrite E1, E3, E4. auto.
  - apply lprel_with_stop; [exact P|]. cbn [shift_err]. f_equal. rewrite Hs. now apply fix_len_shift.
  - apply lprel_with_stop; [exact P|]. reflexivity.
Qed.

Lemma slice_arp_lsh k c1 c2 s :
  lcrel k c1 c2 -> lrrel k (slice_arp c1 (sh k s)) (slice_arp c2 s).
Proof.
  intros (Ho & Hs & P). unfold slice_arp. rewrite arp_from_slice_sh.
  destruct (ArpPacketSlice.from_slice s) as [a|[l|c]|b]; cbn [rmap lrrel]; try reflexivity.
  - destruct P as (E1 & E2 & E3 & E4). unfold lprel, with_net. cbn. rewrite E1, E3, E4. auto.
  - apply lprel_with_stop; [exact P|]. cbn [shift_err]. f_equal. rewrite Hs. now apply fix_len_shift.
Qed.

Lemma lpush_ext_sh k p1 p2 x : lprel k p1 p2 ->
  match push_ext p1 (sh_llext k x), push_ext p2 x with
  | Ok a, Ok b => lprel k a b
  | Bug a, Bug b => a = b
  | _, _ => False
  end.
Proof.
  intros (E1 & E2 & E3 & E4). unfold push_ext. rewrite E1, len_map.
  destruct (len (lsp_exts p2) <? LINK_EXTS_CAP); [|reflexivity].
  unfold lprel. cbn. rewrite map_app. cbn. auto.
Qed.

Lemma lax_loop_sh k fuel : forall c1 c2 ep,
  lcrel k c1 c2 ->
  lrrel k (slice_ether_type_loop fuel c1 (sh_ep k ep)) (slice_ether_type_loop fuel c2 ep).
Proof.
  induction fuel as [|f IH]; intros c1 c2 ep C; [reflexivity|].
  cbn [slice_ether_type_loop]. cbn [sh_ep ep_ether_type ep_slice].
  pose proof C as (Ho & Hs & P). pose proof P as (E1 & E2 & E3 & E4).
  rewrite E1, len_map.
  destruct (is_vlan_type (ep_ether_type ep)).
  { destruct (LINK_EXTS_CAP <=? len (lsp_exts (lc_result c2))); [exact P|].
    rewrite vlan_from_slice_sh.
    destruct (SingleVlanSlice.from_slice (ep_slice ep)) as [vlan|[l|c]|b]; cbn [rmap lrrel]; try reflexivity.
    - rewrite vlan_payload_sh.
      destruct (SingleVlanSlice.payload vlan) as [vp|e|?]; cbn [rmap bind lrrel]; try reflexivity.
      pose proof (lpush_ext_sh k _ _ (LLeVlan vlan) P) as PP. cbn [sh_llext] in PP.
      destruct (push_ext (lc_result c1) _) as [a|?|?], (push_ext (lc_result c2) _) as [b|?|?];
        cbn [bind lrrel]; try contradiction; try exact PP.
      rewrite Hs.
      apply (IH (mkLaxCursor (lc_offset c1 + SingleVlanSlice.header_len) (lc_src c2) a)
                (mkLaxCursor (lc_offset c2 + SingleVlanSlice.header_len) (lc_src c2) b)
                (mkEtherPayload (ep_ether_type vp) (lc_src c2) (ep_slice vp))).
      unfold lcrel. cbn [lc_offset lc_src lc_result]. split; [lia|]. split; [reflexivity|exact PP].
    - apply lprel_with_stop; [exact P|]. cbn [shift_err]. f_equal. now apply add_offset_shift. }
  destruct (ep_ether_type ep =? ET_MACSEC).
  { destruct (LINK_EXTS_CAP <=? len (lsp_exts (lc_result c2))); [exact P|].
    rewrite lax_macsec_from_slice_sh.
    destruct (LaxMacsecSlice.from_slice (ep_slice ep)) as [m|[l|c]|b]; cbn [rmap lrrel]; try reflexivity.
    - change (lms_header (sh_lms k m)) with (sh k (lms_header m)). rewrite macsec_hl_sh.
      destruct (Macsec.header_len (lms_header m)) as [hl|e|?]; cbn [bind lrrel]; try reflexivity.
      pose proof (lpush_ext_sh k _ _ (LLeMacsec m) P) as PP. cbn [sh_llext] in PP.
      destruct (push_ext (lc_result c1) _) as [a|?|?], (push_ext (lc_result c2) _) as [b|?|?];
        cbn [bind lrrel]; try contradiction; try exact PP.
      change (lms_payload (sh_lms k m)) with (sh_lmp k (lms_payload m)).
      destruct (lms_payload m) as [e|i s]; cbn [sh_lmp sh_lep lep_src lep_ether_type lep_slice].
      + rewrite Hs.
        apply (IH (mkLaxCursor (lc_offset c1 + hl)
                     (if negb (is_slice_src (lep_src e)) then lep_src e else lc_src c2) a)
                  (mkLaxCursor (lc_offset c2 + hl)
                     (if negb (is_slice_src (lep_src e)) then lep_src e else lc_src c2) b)
                  (mkEtherPayload (lep_ether_type e)
                     (if negb (is_slice_src (lep_src e)) then lep_src e else lc_src c2) (lep_slice e))).
        unfold lcrel. cbn [lc_offset lc_src lc_result]. split; [lia|]. split; [reflexivity|exact PP].
      + exact PP.
    - apply lprel_with_stop; [exact P|]. cbn [shift_err]. f_equal. now apply add_offset_shift.
    - apply lprel_with_stop; [exact P|]. reflexivity. }
  destruct (ep_ether_type ep =? ET_ARP); [now apply slice_arp_lsh|].
  destruct (ep_ether_type ep =? ET_IPV4); [now apply slice_ip_sh|].
  destruct (ep_ether_type ep =? ET_IPV6); [now apply slice_ip_sh|].
  exact P.
Qed.

(* ---- the theorem ------------------------------------------------------------------------- *)
(* LaxSlicedPacket::from_ethernet against from_ether_type on the bytes behind the
   Ethernet II header: link extensions, net, transport slices 14 bytes later, the
   stop error's layer_start_offset 14 later (its layer tag, len, len_source,
   required_len equal), link layer aside *)
Theorem lax_ethernet_eq_ethertype bs a b :
  rd bs 12 = Some a -> rd bs 13 = Some b ->
  lrrel 14 (LaxSlicedPacket.from_ethernet bs) (LaxSlicedPacket.from_ether_type (be16 a b) (drop 14 bs)).
Proof.
  intros Ha Hb.
  pose proof (rd_Some_lt _ _ _ Hb) as L.
  unfold LaxSlicedPacket.from_ethernet, LaxSlicedPacket.from_ether_type, parse_from_ethernet2,
    parse_from_ether_type, slice_ether_type.
  unfold Ethernet2Slice.from_slice_without_fcs.
  change (s_len (mk_slice bs)) with (len bs).
  destruct (len bs <? 14) eqn:E14; [lia|]. cbn [bind].
  unfold Ethernet2Slice.payload, Ethernet2Slice.ether_type, Ethernet2Slice.payload_slice, rd16, rdU.
  cbn [snd mk_slice]. rewrite Ha. cbn [bind].
  change (12 + 1) with 13. rewrite Hb. cbn [bind].
  unfold subN, subU. change (s_len (mk_slice bs)) with (len bs).
  change (fst (mk_slice bs)) with 0. change (snd (mk_slice bs)) with bs.
  destruct (14 <=? len bs) eqn:E14'; [|lia]. cbn [bind].
  destruct (14 + (len bs - 14) <=? len bs) eqn:E14''; [|lia]. cbn [bind].
  rewrite take_all' by (rewrite len_drop; lia).
  change (0 + 14, drop 14 bs) with (sh 14 (mk_slice (drop 14 bs))).
  change (mkEtherPayload (be16 a b) LsSlice (sh 14 (mk_slice (drop 14 bs))))
    with (sh_ep 14 (mkEtherPayload (be16 a b) LsSlice (mk_slice (drop 14 bs)))).
  apply lax_loop_sh.
  unfold lcrel, lprel, with_link, empty. cbn. repeat split.
Qed.

Theorem lax_ethernet_short bs :
  len bs < 14 ->
  LaxSlicedPacket.from_ethernet bs = Err (ELen (mkLenError 14 (len bs) LsSlice LyEthernet2Header 0)).
Proof.
  intros H. unfold LaxSlicedPacket.from_ethernet, parse_from_ethernet2, Ethernet2Slice.from_slice_without_fcs.
  change (s_len (mk_slice bs)) with (len bs).
  destruct (len bs <? 14) eqn:E; [|lia]. reflexivity.
Qed.

(* ---- group 1b, lax family: from_ether_type(IPv4 | IPv6) against from_ip ----------------- *)
(* both go through the same version-dispatching LaxIpSlice::from_slice (F10: the
   ether type does not select the decoder); what differs is the packaging: from_ip
   returns the first header's error (`?`), from_ether_type stores it as stop error
   with layer IpHeader; from_ether_type records the ether payload as link layer. *)
Lemma fix_len_id l : fix_len l 0 LsSlice = l.
Proof.
  unfold fix_len, le_add_offset, le_set_src. destruct l as [r n s ly o]. cbn.
  rewrite N.add_0_r. destruct s; reflexivity.
Qed.

Lemma conv_ext_stop_id v4 e :
  conv_ext_stop v4 (fun l => fix_len l 0 LsSlice) e = conv_ext_stop v4 (fun l => l) e.
Proof. destruct e as [[l|c] ly]; cbn [conv_ext_stop]; [now rewrite fix_len_id|reflexivity]. Qed.

Definition lax_ip_as_ether_type (et : N) (bs : bytes) (r : res lax_sliced_packet) : res lax_sliced_packet :=
  let link := Some (LkEtherPayload (mkEtherPayload et LsSlice (mk_slice bs))) in
  match r with
  | Ok p => Ok (mkLaxSliced link (lsp_exts p) (lsp_net p) (lsp_transport p) (lsp_stop_err p))
  | Err e => Ok (mkLaxSliced link [] None None (Some (e, LyIpHeader)))
  | Bug b => Bug b
  end.

Lemma slice_transport_result c c' p :
  lc_offset c = lc_offset c' ->
  lsp_exts (lc_result c) = lsp_exts (lc_result c') -> lsp_net (lc_result c) = lsp_net (lc_result c') ->
  lsp_transport (lc_result c) = lsp_transport (lc_result c') ->
  lsp_stop_err (lc_result c) = lsp_stop_err (lc_result c') ->
  slice_transport c p =
  match slice_transport c' p with
  | Ok q => Ok (mkLaxSliced (lsp_link (lc_result c)) (lsp_exts q) (lsp_net q) (lsp_transport q) (lsp_stop_err q))
  | r => r
  end.
Proof.
  destruct c as [o s [l x n t e]], c' as [o' s' [l' x' n' t' e']]. cbn [lc_offset lc_result lsp_exts lsp_net
    lsp_transport lsp_stop_err lsp_link]. intros -> -> -> -> ->.
  unfold slice_transport, has_stop, with_transport, with_stop. cbn [lc_offset lc_result lsp_exts lsp_net
    lsp_transport lsp_stop_err lsp_link].
  repeat match goal with
  | |- context [if ?c then _ else _] => destruct c
  | |- context [match ?r with Ok _ => _ | Err _ => _ | Bug _ => _ end] => destruct r as [?|[?|?]|?]
  end; reflexivity.
Qed.

Lemma slice_transport_noerr c p e : slice_transport c p <> Err e.
Proof.
  unfold slice_transport.
  repeat match goal with
  | |- context [if ?c then _ else _] => destruct c
  | |- context [match ?r with Ok _ => _ | Err _ => _ | Bug _ => _ end] => destruct r as [?|[?|?]|?]
  end; discriminate.
Qed.

Theorem lax_ethertype_eq_ip et bs : et = ET_IPV4 \/ et = ET_IPV6 ->
  LaxSlicedPacket.from_ether_type et bs = lax_ip_as_ether_type et bs (LaxSlicedPacket.from_ip bs).
Proof.
  intros Het.
  unfold LaxSlicedPacket.from_ether_type, LaxSlicedPacket.from_ip, parse_from_ether_type, parse_from_ip,
    slice_ether_type.
  assert (L : slice_ether_type_loop 5
                (mkLaxCursor 0 LsSlice (with_link empty (LkEtherPayload (mkEtherPayload et LsSlice (mk_slice bs)))))
                (mkEtherPayload et LsSlice (mk_slice bs)) =
              slice_ip (mkLaxCursor 0 LsSlice (with_link empty (LkEtherPayload (mkEtherPayload et LsSlice (mk_slice bs)))))
                (mk_slice bs)).
  { destruct Het as [-> | ->]; reflexivity. }
  rewrite L. unfold slice_ip, lax_ip_as_ether_type. cbn [lc_result lc_offset lc_src].
  destruct (LaxIpSlice.from_slice (mk_slice bs)) as [[ip stop]|[l|c]|b]; cbn [bind].
  - unfold ptr_diff, subN.
    destruct (s_off (mk_slice bs) <=? s_off (lipp_slice (LaxIpSlice.payload ip))); cbn [bind];
      [|reflexivity].
    set (d := s_off (lipp_slice (LaxIpSlice.payload ip)) - s_off (mk_slice bs)).
    rewrite (slice_transport_result _
               (mkLaxCursor d LsSlice
                  (mkLaxSliced None [] (Some (net_of_ip ip)) None
                     (option_map (conv_ext_stop (is_v4 ip) (fun l => l)) stop))) (LaxIpSlice.payload ip)).
    + destruct (slice_transport _ (LaxIpSlice.payload ip)) as [q|e|?] eqn:Est; try reflexivity.
      * destruct stop; reflexivity.
      * exfalso. exact (slice_transport_noerr _ _ _ Est).
    + cbn [lc_offset]. lia.
    + destruct stop; reflexivity.
    + destruct stop; reflexivity.
    + destruct stop; reflexivity.
    + destruct stop as [e|]; cbn [option_map with_opt_stop lc_result lsp_stop_err with_stop with_net with_link empty];
        [now rewrite conv_ext_stop_id|reflexivity].
  - now rewrite fix_len_id.
  - reflexivity.
  - reflexivity.
Qed.
