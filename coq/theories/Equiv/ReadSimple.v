(* Equiv/ReadSimple.v -- C06 group 3: read(Cursor(bs)) against from_slice(bs) for
   the header types whose reader is a fixed part followed by a length-dependent
   rest (no loop, no LimitedReader). *)
From EP Require Import Base.Bytes Parse.Types Parse.Slices Parse.Cursor Parse.HdrModel Parse.HdrView
  IoFault.Spec IoFault.Model IoFault.Proofs Equiv.Model Equiv.ModelRead Equiv.Proofs Equiv.ReadProofs
  Equiv.ReadBase.
From Coq Require Import ZArith Lia ZifyN ZifyBool.

Local Open Scope N_scope.

Ltac getb bs i b H := destruct (rd_lt_Some bs i) as [b H]; [try lia|].
Ltac ltb_tac :=
  repeat match goal with
  | H : (_ <? _) = true |- _ => apply N.ltb_lt in H
  | H : (_ <? _) = false |- _ => apply N.ltb_ge in H
  | H : (_ <=? _) = true |- _ => apply N.leb_le in H
  | H : (_ <=? _) = false |- _ => apply N.leb_gt in H
  | H : (_ =? _) = true |- _ => apply N.eqb_eq in H
  | H : (_ =? _) = false |- _ => apply N.eqb_neq in H
  end.

Lemma rd_byte bs i v : bytes_ok bs -> rd bs i = Some v -> v < 256.
Proof. apply rd_ok. Qed.

(* the final step of a slice decoder that hands out the first n bytes *)
Lemma out_subU (bs : bytes) n : n <= len bs ->
  outcome_of_res s_len (subU (mk_slice bs) 0 n) = OOk n.
Proof.
  intros H. rewrite subU_ok by (change (s_len (mk_slice bs)) with (len bs); lia).
  cbn [outcome_of_res mk_slice fst snd]. f_equal. apply s_len_sub. lia.
Qed.

(* ---- LinuxSllHeader ------------------------------------------------------------ *)
Theorem read_eq_slice_linux_sll bs : read_outcome HLinuxSll bs = slice_outcome HLinuxSll bs.
Proof.
  unfold read_outcome, slice_outcome, sll_read, LinuxSll.header_from_slice.
  change (s_len (mk_slice bs)) with (len bs).
  destruct (len bs <? 16) eqn:E; ltb_tac.
  - rewrite io_read_exact_fail by (cbn; lia). reflexivity.
  - rewrite io_read_exact_ok by (cbn; lia). cbn [cursor_src src_data].
    getb bs 0 b0 H0. getb bs (0 + 1) b1 H1. getb bs 2 b2 H2. getb bs (2 + 1) b3 H3.
    getb bs 14 b14 H14. getb bs (14 + 1) b15 H15.
    unfold sll_from_bytes.
    rewrite !rd_take by lia.
    change 1 with (0 + 1) at 1. change 3 with (2 + 1) at 1. change 15 with (14 + 1) at 1.
    rewrite H0, H1, H2, H3, H14, H15.
    rewrite (rd16_some (mk_slice bs) 0 b0 b1) by assumption. cbn [bind].
    unfold LinuxSll.packet_type_try_from.
    destruct (be16 b0 b1 <=? 7); [|reflexivity]. cbn [bind].
    rewrite (rd16_some (mk_slice bs) 2 b2 b3) by assumption. cbn [bind].
    rewrite (rd16_some (mk_slice bs) 14 b14 b15) by assumption. cbn [bind].
    unfold LinuxSll.protocol_type_try_from.
    repeat match goal with |- context [if ?c then _ else _] => destruct c end;
      cbn [bind]; try reflexivity; now rewrite out_subU by lia.
Qed.

(* ---- MacsecHeader -------------------------------------------------------------- *)
Theorem read_eq_slice_macsec bs : bytes_ok bs ->
  read_outcome HMacsec bs = slice_outcome HMacsec bs.
Proof.
  intros Hb.
  unfold read_outcome, slice_outcome, read_prog, macsec_header_read, Macsec.header_from_slice.
  rewrite cursor_st. fold (O (PRead 6 (fun bytes => at_ bytes 0 (fun tci_an => at_ bytes 1 (fun b1 =>
    if N.testbit tci_an 7 then PFail CMacsecVersion
    else
      let unmodified := N.land tci_an 12 =? 0 in
      if unmodified && (b1 mod 64 =? 1) then PFail CMacsecShortLen
      else
        let required_len := 6 + (if unmodified then 2 else 0) + (if N.testbit tci_an 5 then 8 else 0) in
        if 6 <? required_len then PRead (required_len - 6) (fun _ => PRet [required_len])
        else PRet [required_len])))) (mk_st bs 0 MPlain)).
  rewrite O_read by exact I. cbn [avail]. change (s_len (mk_slice bs)) with (len bs).
  destruct (len bs <? 6) eqn:E; ltb_tac.
  - replace (6 <=? len bs) with false by (symmetry; apply N.leb_gt; lia). reflexivity.
  - replace (6 <=? len bs) with true by (symmetry; apply N.leb_le; lia).
    getb bs 0 t H0. getb bs 1 b1 H1.
    rewrite (at_some _ 0 t) by (rewrite rd_take by lia; exact H0).
    rewrite (at_some _ 1 b1) by (rewrite rd_take by lia; exact H1).
    rewrite (rdU_some (mk_slice bs) 0 t) by exact H0. cbn [bind].
    rewrite (bit7 t) by (eapply rd_byte; eauto).
    rewrite (bit5 t) by (eapply rd_byte; eauto).
    destruct (Macsec.bit t 128); [reflexivity|].
    destruct (N.land t 12 =? 0); cbn [andb bind].
    + rewrite (rdU_some (mk_slice bs) 1 b1) by exact H1. cbn [bind].
      rewrite land63_mod.
      destruct (b1 mod 64 =? 1); cbn [bind]; [reflexivity|].
      destruct (Macsec.bit t 32).
      * change (6 + 2 + 8) with 16. change (6 <? 16) with true. cbv iota.
        rewrite O_read by exact I. cbn [avail m_adv]. rewrite len_drop.
        change (16 - 6) with 10.
        destruct (len bs <? 16) eqn:E2; ltb_tac.
        -- replace (10 <=? len bs - 6) with false by (symmetry; apply N.leb_gt; lia). reflexivity.
        -- replace (10 <=? len bs - 6) with true by (symmetry; apply N.leb_le; lia).
           rewrite O_ret. now rewrite out_subU by lia.
      * change (6 + 2 + 0) with 8. change (6 <? 8) with true. cbv iota.
        rewrite O_read by exact I. cbn [avail m_adv]. rewrite len_drop.
        change (8 - 6) with 2.
        destruct (len bs <? 8) eqn:E2; ltb_tac.
        -- replace (2 <=? len bs - 6) with false by (symmetry; apply N.leb_gt; lia). reflexivity.
        -- replace (2 <=? len bs - 6) with true by (symmetry; apply N.leb_le; lia).
           rewrite O_ret. now rewrite out_subU by lia.
    + destruct (Macsec.bit t 32).
      * change (6 + 0 + 8) with 14. change (6 <? 14) with true. cbv iota.
        rewrite O_read by exact I. cbn [avail m_adv]. rewrite len_drop.
        change (14 - 6) with 8.
        destruct (len bs <? 14) eqn:E2; ltb_tac.
        -- replace (8 <=? len bs - 6) with false by (symmetry; apply N.leb_gt; lia). reflexivity.
        -- replace (8 <=? len bs - 6) with true by (symmetry; apply N.leb_le; lia).
           rewrite O_ret. now rewrite out_subU by lia.
      * change (6 + 0 + 0) with 6. change (6 <? 6) with false. cbv iota.
        rewrite O_ret. replace (len bs <? 6) with false by (symmetry; apply N.ltb_ge; lia).
        now rewrite out_subU by lia.
Qed.

(* ---- helpers ------------------------------------------------------------------- *)
Lemma read_outcome_O t bs : t <> HLinuxSll ->
  read_outcome t bs = O (read_prog t) (mk_st bs 0 MPlain).
Proof. intros H. destruct t; try reflexivity. now elim H. Qed.

(* `let h = XSlice::from_slice(slice)?; (h.to_header(), &slice[h.len()..])` *)
Lemma out_hdr_rest (bs : bytes) n :
  n <= len bs ->
  outcome_of_res (fun r : slice * slice => s_len (fst r))
    (let* h := subU (mk_slice bs) 0 n in let* rest := idx_from (mk_slice bs) (s_len h) in Ok (h, rest)) = OOk n.
Proof.
  intros H. rewrite subU_ok by (change (s_len (mk_slice bs)) with (len bs); lia).
  unfold mk_slice. cbn [bind fst snd]. rewrite s_len_sub by lia.
  rewrite idx_from_ok by (unfold s_len; cbn [snd]; lia). cbn [bind outcome_of_res fst].
  f_equal. apply s_len_sub. lia.
Qed.

Ltac rd_step :=
  rewrite O_read by exact I; cbn [avail m_adv]; rewrite ?len_drop;
  match goal with |- context [if ?a <=? ?b then _ else _] => destruct (a <=? b) eqn:? end; ltb_tac.
Ltac is_true c := replace c with true by (symmetry; first [apply N.leb_le|apply N.ltb_lt|apply N.eqb_eq]; lia).
Ltac is_false c := replace c with false by (symmetry; first [apply N.leb_gt|apply N.ltb_ge|apply N.eqb_neq]; lia).

(* the data ends inside the fixed part of the header and the reader already
   rejects what it has seen (it checks the version / IHL before it has the
   whole fixed part, from_slice checks the length first) *)
Definition cut_fixed (t : hdr_type) (bs : bytes) : bool :=
  match t, bs with
  | HIpv4, b0 :: _ => (len bs <? 20) && negb (N.shiftr b0 4 =? 4)
  | HIpv6, b0 :: _ => (len bs <? 40) && negb (N.shiftr b0 4 =? 6)
  | HIpHeaders, b0 :: _ => (len bs <? 20) && (N.shiftr b0 4 =? 4) && (N.land b0 15 <? 5)
  | _, _ => false
  end.

(* ---- Ipv4Header ---------------------------------------------------------------- *)
Theorem read_eq_slice_ipv4 bs : cut_fixed HIpv4 bs = false ->
  read_outcome HIpv4 bs = slice_outcome HIpv4 bs.
Proof.
  intros Hc. rewrite read_outcome_O by discriminate.
  unfold slice_outcome, read_prog, ipv4_header_read, Ipv4Header.from_slice, Ipv4HeaderSlice.from_slice.
  change (s_len (mk_slice bs)) with (len bs).
  destruct bs as [|b0 r].
  { rewrite O_read by exact I. reflexivity. }
  cbn [cut_fixed] in Hc. set (bs := b0 :: r) in *.
  assert (H0 : rd bs 0 = Some b0) by reflexivity.
  assert (L1 : 1 <= len bs) by (unfold bs; rewrite len_cons; lia).
  rd_step; [|lia].
  rewrite (at_some _ 0 b0) by (rewrite rd_take by lia; exact H0).
  rewrite <- shr4_div.
  destruct (len bs <? 20) eqn:E20; ltb_tac.
  - cbn [andb] in Hc. destruct (N.shiftr b0 4 =? 4); [|discriminate].
    unfold ipv4_read_without_version. rd_step; [lia|reflexivity].
  - rewrite (rdU_some (mk_slice bs) 0 b0) by exact H0. cbn [bind].
    destruct (N.shiftr b0 4 =? 4); cbn [negb]; [|reflexivity].
    unfold ipv4_read_without_version. rd_step; [|lia].
    rewrite land15_mod. destruct (b0 mod 16 <? 5) eqn:Ei; ltb_tac; [reflexivity|].
    destruct ((b0 mod 16 - 5) * 4 =? 0) eqn:Eo; ltb_tac.
    + rewrite O_ret. is_false (len bs <? b0 mod 16 * 4).
      replace (b0 mod 16 * 4) with 20 by lia. rewrite out_hdr_rest by lia. f_equal.
    + rd_step.
      * rewrite O_ret. is_false (len bs <? b0 mod 16 * 4). rewrite out_hdr_rest by lia. f_equal. lia.
      * is_true (len bs <? b0 mod 16 * 4). reflexivity.
Qed.

Lemma read_cut_fixed_ipv4 bs : cut_fixed HIpv4 bs = true ->
  read_outcome HIpv4 bs = OContent (KC CVersion) /\ slice_outcome HIpv4 bs = OEof.
Proof.
  intros Hc. rewrite read_outcome_O by discriminate.
  unfold slice_outcome, read_prog, ipv4_header_read, Ipv4Header.from_slice, Ipv4HeaderSlice.from_slice.
  change (s_len (mk_slice bs)) with (len bs).
  destruct bs as [|b0 r]; [discriminate|].
  cbn [cut_fixed] in Hc. set (bs := b0 :: r) in *.
  assert (H0 : rd bs 0 = Some b0) by reflexivity.
  assert (L1 : 1 <= len bs) by (unfold bs; rewrite len_cons; lia).
  apply andb_prop in Hc. destruct Hc as [Hl Hv]. rewrite Hl.
  split; [|reflexivity].
  rd_step; [|lia].
  rewrite (at_some _ 0 b0) by (rewrite rd_take by lia; exact H0).
  rewrite <- shr4_div. destruct (N.shiftr b0 4 =? 4); [discriminate|reflexivity].
Qed.

(* ---- Ipv6Header ---------------------------------------------------------------- *)
Theorem read_eq_slice_ipv6 bs : cut_fixed HIpv6 bs = false ->
  read_outcome HIpv6 bs = slice_outcome HIpv6 bs.
Proof.
  intros Hc. rewrite read_outcome_O by discriminate.
  unfold slice_outcome, read_prog, ipv6_header_read, Ipv6Header.from_slice, Ipv6HeaderSlice.from_slice.
  change (s_len (mk_slice bs)) with (len bs).
  destruct bs as [|b0 r].
  { rewrite O_read by exact I. reflexivity. }
  cbn [cut_fixed] in Hc. set (bs := b0 :: r) in *.
  assert (H0 : rd bs 0 = Some b0) by reflexivity.
  assert (L1 : 1 <= len bs) by (unfold bs; rewrite len_cons; lia).
  rd_step; [|lia].
  rewrite (at_some _ 0 b0) by (rewrite rd_take by lia; exact H0).
  rewrite <- shr4_div.
  destruct (len bs <? 40) eqn:E40; ltb_tac.
  - cbn [andb] in Hc. destruct (N.shiftr b0 4 =? 6); [|discriminate].
    unfold ipv6_read_without_version. rd_step; [lia|reflexivity].
  - rewrite (rdU_some (mk_slice bs) 0 b0) by exact H0. cbn [bind].
    destruct (N.shiftr b0 4 =? 6); cbn [negb]; [|reflexivity].
    unfold ipv6_read_without_version. rd_step; [|lia].
    rewrite O_ret.
    rewrite subU_ok by (change (s_len (mk_slice bs)) with (len bs); lia). cbn [bind].
    rewrite idx_from_ok by (change (s_len (mk_slice bs)) with (len bs); lia).
    cbn [bind outcome_of_res fst mk_slice snd]. f_equal. rewrite s_len_sub by lia. reflexivity.
Qed.

Lemma read_cut_fixed_ipv6 bs : cut_fixed HIpv6 bs = true ->
  read_outcome HIpv6 bs = OContent (KC CVersion) /\ slice_outcome HIpv6 bs = OEof.
Proof.
  intros Hc. rewrite read_outcome_O by discriminate.
  unfold slice_outcome, read_prog, ipv6_header_read, Ipv6Header.from_slice, Ipv6HeaderSlice.from_slice.
  change (s_len (mk_slice bs)) with (len bs).
  destruct bs as [|b0 r]; [discriminate|].
  cbn [cut_fixed] in Hc. set (bs := b0 :: r) in *.
  assert (H0 : rd bs 0 = Some b0) by reflexivity.
  assert (L1 : 1 <= len bs) by (unfold bs; rewrite len_cons; lia).
  apply andb_prop in Hc. destruct Hc as [Hl Hv]. rewrite Hl.
  split; [|reflexivity].
  rd_step; [|lia].
  rewrite (at_some _ 0 b0) by (rewrite rd_take by lia; exact H0).
  rewrite <- shr4_div. destruct (N.shiftr b0 4 =? 6); [discriminate|reflexivity].
Qed.

(* ---- IpAuthHeader -------------------------------------------------------------- *)
Theorem read_eq_slice_ip_auth bs : read_outcome HIpAuth bs = slice_outcome HIpAuth bs.
Proof.
  rewrite read_outcome_O by discriminate.
  unfold slice_outcome, read_prog, ip_auth_read, with_start, IpAuthHeaderSlice.from_slice.
  change (s_len (mk_slice bs)) with (len bs).
  rd_step.
  - is_false (len bs <? 12).
    getb bs 0 nh H0. getb bs 1 pl H1.
    rewrite (at_some _ 0 nh) by (rewrite rd_take by lia; exact H0).
    rewrite (at_some _ 1 pl) by (rewrite rd_take by lia; exact H1).
    rewrite (rdU_some (mk_slice bs) 1 pl) by exact H1. cbn [bind].
    destruct (pl <? 1) eqn:Ep; ltb_tac; [reflexivity|].
    rd_step.
    + rewrite O_ret. is_false (len bs <? (pl + 2) * 4). rewrite out_subU by lia. f_equal. lia.
    + is_true (len bs <? (pl + 2) * 4). reflexivity.
  - is_true (len bs <? 12). reflexivity.
Qed.

(* ---- Ipv6RawExtHeader ---------------------------------------------------------- *)
Theorem read_eq_slice_ipv6_raw_ext bs : read_outcome HIpv6RawExt bs = slice_outcome HIpv6RawExt bs.
Proof.
  rewrite read_outcome_O by discriminate.
  unfold slice_outcome, read_prog, ipv6_raw_ext_read, with_start, Ipv6RawExtHeaderSlice.from_slice.
  change (s_len (mk_slice bs)) with (len bs).
  rd_step.
  - getb bs 0 nh H0. getb bs 1 hl H1.
    rewrite (at_some _ 0 nh) by (rewrite rd_take by lia; exact H0).
    rewrite (at_some _ 1 hl) by (rewrite rd_take by lia; exact H1).
    cbn [mk_slice snd]. rewrite H1. cbn [bind].
    rd_step.
    + rewrite O_ret. is_false (len bs <? 8). is_false (len bs <? (hl + 1) * 8).
      change (0, bs) with (mk_slice bs). rewrite out_subU by lia. f_equal. lia.
    + destruct (len bs <? 8); [reflexivity|]. is_true (len bs <? (hl + 1) * 8). reflexivity.
  - is_true (len bs <? 8). reflexivity.
Qed.

(* ---- ArpPacket ----------------------------------------------------------------- *)
Theorem read_eq_slice_arp bs : read_outcome HArp bs = slice_outcome HArp bs.
Proof.
  rewrite read_outcome_O by discriminate.
  unfold slice_outcome, read_prog, arp_packet_read, ArpPacketSlice.from_slice.
  change (s_len (mk_slice bs)) with (len bs).
  rd_step.
  - is_false (len bs <? 8).
    getb bs 4 hw H4. getb bs 5 pr H5.
    rewrite (at_some _ 4 hw) by (rewrite rd_take by lia; exact H4).
    rewrite (at_some _ 5 pr) by (rewrite rd_take by lia; exact H5).
    rewrite (rdU_some (mk_slice bs) 4 hw) by exact H4.
    rewrite (rdU_some (mk_slice bs) 5 pr) by exact H5. cbn [bind].
    rd_step; [|is_true (len bs <? 8 + hw * 2 + pr * 2); reflexivity].
    rd_step; [|is_true (len bs <? 8 + hw * 2 + pr * 2); reflexivity].
    rd_step; [|is_true (len bs <? 8 + hw * 2 + pr * 2); reflexivity].
    rd_step; [|is_true (len bs <? 8 + hw * 2 + pr * 2); reflexivity].
    rewrite O_ret. is_false (len bs <? 8 + hw * 2 + pr * 2). rewrite out_subU by lia. f_equal. lia.
  - is_true (len bs <? 8). reflexivity.
Qed.

(* ---- TcpHeader ----------------------------------------------------------------- *)
Theorem read_eq_slice_tcp bs : bytes_ok bs -> read_outcome HTcp bs = slice_outcome HTcp bs.
Proof.
  intros Hb. rewrite read_outcome_O by discriminate.
  unfold slice_outcome, read_prog, tcp_header_read, TcpHeader.from_slice, TcpHeaderSlice.from_slice.
  change (s_len (mk_slice bs)) with (len bs).
  rd_step.
  - is_false (len bs <? 20).
    getb bs 12 v H12.
    rewrite (at_some _ 12 v) by (rewrite rd_take by lia; exact H12).
    rewrite (rdU_some (mk_slice bs) 12 v) by exact H12. cbn [bind].
    rewrite tcp_hl by (eapply rd_byte; eauto).
    destruct (v / 16 <? 5) eqn:Ed; ltb_tac.
    + is_true (v / 16 * 4 <? 20). reflexivity.
    + is_false (v / 16 * 4 <? 20).
      destruct (0 <? (v / 16 - 5) * 4) eqn:Eo; ltb_tac.
      * rd_step.
        -- rewrite O_ret. is_false (len bs <? v / 16 * 4). rewrite out_hdr_rest by lia. f_equal. lia.
        -- is_true (len bs <? v / 16 * 4). reflexivity.
      * rewrite O_ret. is_false (len bs <? v / 16 * 4). rewrite out_hdr_rest by lia. f_equal. lia.
  - is_true (len bs <? 20). reflexivity.
Qed.

(* ---- Icmpv6Header -------------------------------------------------------------- *)
Theorem read_eq_slice_icmpv6 bs : read_outcome HIcmpv6 bs = slice_outcome HIcmpv6 bs.
Proof.
  unfold slice_outcome, ends_with_header.
  assert (R : read_outcome HIcmpv6 bs = if 8 <=? len bs then OOk 8 else OEof).
  { unfold read_outcome, read_prog. apply read_fixed_outcome. }
  rewrite R. destruct (8 <=? len bs) eqn:E; ltb_tac.
  - unfold Icmpv6Slice.from_slice. change (s_len (mk_slice (take 8 bs))) with (len (take 8 bs)).
    rewrite len_take_le by lia. change (8 <? 8) with false. change (Icmpv6Slice.MAX_LEN <? 8) with false.
    cbv iota. cbn [bind]. unfold Icmpv6Acc.header.
    rewrite out_subU by (rewrite len_take_le; lia). reflexivity.
  - unfold Icmpv6Slice.from_slice. change (s_len (mk_slice bs)) with (len bs).
    is_true (len bs <? 8). reflexivity.
Qed.

(* ---- Icmpv4Header -------------------------------------------------------------- *)
Definition icmpv4_ts (ty code : N) : bool := ((ty =? 14) || (ty =? 13)) && (code =? 0).

Lemma icmpv4_read_form bs :
  read_outcome HIcmpv4 bs =
  if len bs <? 8 then OEof
  else match rd bs 0, rd bs 1 with
       | Some ty, Some code =>
           if icmpv4_ts ty code then (if len bs <? 20 then OEof else OOk 20) else OOk 8
       | _, _ => OBad 0
       end.
Proof.
  rewrite read_outcome_O by discriminate. unfold read_prog, icmpv4_header_read.
  rd_step.
  - is_false (len bs <? 8).
    getb bs 0 ty H0. getb bs 1 code H1. rewrite H0, H1.
    rewrite (at_some _ 0 ty) by (rewrite rd_take by lia; exact H0).
    rewrite (at_some _ 1 code) by (rewrite rd_take by lia; exact H1).
    unfold icmpv4_ts. destruct ((ty =? 14) || (ty =? 13)); cbn [andb]; [|reflexivity].
    destruct (code =? 0); [|reflexivity].
    rd_step.
    + is_false (len bs <? 20). rewrite O_ret. f_equal.
    + is_true (len bs <? 20). reflexivity.
  - is_true (len bs <? 8). reflexivity.
Qed.

Lemma icmpv4_slice_form bs' ty code : 8 <= len bs' -> rd bs' 0 = Some ty -> rd bs' 1 = Some code ->
  outcome_of_res (fun n => n)
    (let* r := Icmpv4Slice.from_slice (mk_slice bs') in Icmpv4Acc.header_len r) =
  if icmpv4_ts ty code then (if 20 =? len bs' then OOk 20 else OEof) else OOk 8.
Proof.
  intros L H0 H1. unfold Icmpv4Slice.from_slice, Icmpv4Acc.header_len, icmpv4_ts.
  change (s_len (mk_slice bs')) with (len bs'). is_false (len bs' <? 8).
  assert (HL : (let* t := rdU (mk_slice bs') 0 in let* c := rdU (mk_slice bs') 1 in
                Ok (if ((t =? 13) || (t =? 14)) && (0 =? c) then 20 else 8)) =
               Ok (if ((ty =? 13) || (ty =? 14)) && (code =? 0) then 20 else 8)).
  { rewrite (rdU_some (mk_slice bs') 0 ty) by exact H0.
    rewrite (rdU_some (mk_slice bs') 1 code) by exact H1. cbn [bind].
    now rewrite (N.eqb_sym 0 code). }
  rewrite (rdU_some (mk_slice bs') 0 ty) by exact H0.
  rewrite (rdU_some (mk_slice bs') 1 code) by exact H1. cbn [bind].
  rewrite (N.eqb_sym 0 code). revert HL.
  destruct (ty =? 13), (ty =? 14), (code =? 0), (20 =? len bs'); cbn [andb orb negb bind];
    intros HL; rewrite ?HL; reflexivity.
Qed.

Theorem read_eq_slice_icmpv4 bs : read_outcome HIcmpv4 bs = slice_outcome HIcmpv4 bs.
Proof.
  unfold slice_outcome, ends_with_header. rewrite icmpv4_read_form.
  destruct (len bs <? 8) eqn:E8; ltb_tac.
  { unfold Icmpv4Slice.from_slice. change (s_len (mk_slice bs)) with (len bs).
    is_true (len bs <? 8). reflexivity. }
  getb bs 0 ty H0. getb bs 1 code H1. rewrite H0, H1.
  destruct (icmpv4_ts ty code) eqn:Et.
  - destruct (len bs <? 20) eqn:E20; ltb_tac.
    + rewrite (icmpv4_slice_form bs ty code) by (try assumption; lia). rewrite Et.
      is_false (20 =? len bs). reflexivity.
    + rewrite (icmpv4_slice_form (take 20 bs) ty code)
        by (try (rewrite rd_take by lia; assumption); rewrite len_take_le by lia; lia).
      rewrite Et, len_take_le by lia. reflexivity.
  - rewrite (icmpv4_slice_form (take 8 bs) ty code)
      by (try (rewrite rd_take by lia; assumption); rewrite len_take_le by lia; lia).
    rewrite Et. reflexivity.
Qed.

(* ---- Ipv4Extensions ------------------------------------------------------------ *)
Theorem read_eq_slice_ipv4_exts start bs : bytes_ok bs ->
  read_outcome (HIpv4Exts start) bs = slice_outcome (HIpv4Exts start) bs.
Proof.
  intros Hb. rewrite read_outcome_O by discriminate.
  unfold slice_outcome, read_prog, x4_read, Ipv4Extensions.from_slice.
  change (IPN_AUTH =? start) with (AUTH =? start).
  destruct (AUTH =? start); [|reflexivity].
  unfold ip_auth_read, with_start, IpAuthHeaderSlice.from_slice.
  change (s_len (mk_slice bs)) with (len bs).
  rd_step.
  - is_false (len bs <? 12).
    getb bs 0 nh H0. getb bs 1 pl H1.
    rewrite (at_some _ 0 nh) by (rewrite rd_take by lia; exact H0).
    rewrite (at_some _ 1 pl) by (rewrite rd_take by lia; exact H1).
    rewrite (rdU_some (mk_slice bs) 1 pl) by exact H1. cbn [bind].
    assert (Hpl : pl < 256) by (eapply rd_byte; eauto).
    destruct (pl <? 1) eqn:Ep; ltb_tac; [reflexivity|].
    rd_step.
    + rewrite O_ret. is_false (len bs <? (pl + 2) * 4).
      rewrite subU_ok by (change (s_len (mk_slice bs)) with (len bs); lia).
      unfold mk_slice. cbn [bind fst snd]. rewrite s_len_sub by lia.
      rewrite idx_from_ok by (unfold s_len; cbn [snd]; lia). cbn [bind].
      unfold IpAuthHeaderSlice.next_header.
      rewrite (rdU_some _ 0 nh) by (cbn [snd]; rewrite rd_take by lia; exact H0). cbn [bind].
      unfold auth_to_header. rewrite s_len_sub by lia.
      rewrite subN_ok' by lia. cbn [bind].
      replace ((pl + 2) * 4 - 12) with ((pl - 1) * 4) by lia.
      is_false (1016 <? (pl - 1) * 4). rewrite N.mod_mul by lia. cbn [orb negb N.eqb].
      change (0 =? 0) with true. cbn [negb bind outcome_of_res fst olen]. rewrite s_len_sub by lia.
      f_equal. lia.
    + is_true (len bs <? (pl + 2) * 4). reflexivity.
  - is_true (len bs <? 12). reflexivity.
Qed.
