(* Equiv/ReadValuesIp.v -- C06 group 3, header VALUES, the composite type IpHeaders:
   on the model Roundtrip/IpHeaders.v (C08, extend-c08c) `IpHeaders::read` over a Cursor returns the
   SAME struct value and ip number as `IpHeaders::from_slice`, and leaves the cursor right behind the
   headers, whenever from_slice accepts -- outside the known class F15 (IPv6 payload_length 0 with an
   extension header following).  "The slice holds the announced packet" is implied by from_slice's Ok.
   Conversely, when read accepts and the slice holds the announced packet, from_slice accepts (with
   the same value): `iph_from_slice_of_read` for IPv4.  Uses C06's own value lemmas for the parts
   (Equiv/ReadValuesNet.v: ah_read = ah_from_slice), C08's round trips and C12's read6_eq_from_slice. *)
From EP Require Import Base.Bytes Roundtrip.Common Roundtrip.CommonProofs Roundtrip.LinkNetLemmas.
From EP Require Import Roundtrip.Ipv4 Roundtrip.Ipv4Proofs Roundtrip.Ipv6 Roundtrip.Ipv6Proofs.
From EP Require Import Roundtrip.Auth Roundtrip.AuthProofs Roundtrip.Exts4 Roundtrip.Exts4Proofs.
From EP Require Import Roundtrip.IpHeaders Roundtrip.IpHeadersProofs.
From EP Require Equiv.ReadValues Equiv.ReadValuesNet Equiv.ReadProofs.
From EP Require IoFault.Spec IoFault.Model ExtChain.Spec ExtChain.Model ExtChain.Proofs ExtChain.ReadModel
  ExtChain.ReadView ExtChain.ReadProofs Roundtrip.Exts6Proofs.
From Coq Require Import ZArith Lia ZifyN.
Local Open Scope N_scope.

(* the class F15 on the decoded value *)
Definition iph_zero_len_ext (h : IpHeaders) : bool :=
  match h with
  | IpV4 _ _ => false
  | IpV6 hd _ => (i6_payload_length hd =? 0) && ExtChain.Spec.is_ext_number (i6_next_header hd)
  end.

(* ---- the authentication header decoder only looks at the header's own bytes ---- *)
Lemma ah_from_slice_frame s t h r : ah_from_slice s = Ok (h, r) -> ah_from_slice (s ++ t) = Ok (h, r ++ t).
Proof.
  unfold ah_from_slice, ah_slice_from_slice.
  destruct (len s <? 12) eqn:L12; [discriminate|]. ltb_t L12.
  destruct (rd s 1) as [pl|] eqn:R1; [|discriminate].
  destruct (pl <? 1) eqn:Z; [discriminate|].
  destruct (len s <? (pl + 2) * 4) eqn:LL; [discriminate|]. ltb_t LL.
  rewrite len_app. rewrite (ltb_false (len s + len t) 12) by lia.
  rewrite Exts6Proofs.rd_app_lt by lia. rewrite R1, Z.
  rewrite (ltb_false (len s + len t) ((pl + 2) * 4)) by lia.
  rewrite Exts6Proofs.take_app_le by lia.
  unfold slice_from. rewrite len_take, len_app.
  rewrite (leb_true (N.min ((pl + 2) * 4) (len s)) (len s)) by lia.
  rewrite (leb_true (N.min ((pl + 2) * 4) (len s)) (len s + len t)) by lia.
  destruct (ah_to_header (take ((pl + 2) * 4) s)); [|discriminate].
  intros H. apply Ok_inj in H. injection H as <- <-. rewrite Exts6Proofs.drop_app_le by lia. reflexivity.
Qed.

Lemma x4_read_of_prefix start d k e n r' : bytes_ok d ->
  x4_from_slice start (take k d) = Ok (e, n, r') -> x4_read d start = Ok (e, n, r' ++ drop k d).
Proof.
  intros OK H. destruct (N.eqb_spec X4_AUTH start) as [E|E].
  - subst start. rewrite x4_from_slice_auth in H.
    destruct (ah_from_slice (take k d)) as [[h r]|] eqn:A; [|discriminate].
    apply Ok_inj in H. injection H as <- <- <-.
    pose proof (ah_from_slice_frame _ (drop k d) _ _ A) as F. rewrite take_drop in F.
    unfold x4_read. change (X4_AUTH =? X4_AUTH) with true. cbv iota.
    rewrite (Equiv.ReadValuesNet.ah_read_eq_from_slice d OK), F. reflexivity.
  - unfold x4_from_slice, x4_slice_from_slice in H. unfold x4_read.
    apply N.eqb_neq in E. rewrite E in *. apply Ok_inj in H. injection H as <- <- <-.
    rewrite take_drop. reflexivity.
Qed.

(* the header bytes the reader assembles are the ones the slice decoder looks at *)
Lemma first_cons_take (bs : bytes) b0 n : rd bs 0 = Some b0 -> 1 <= n -> b0 :: take (n - 1) (drop 1 bs) = take n bs.
Proof.
  intros R H. destruct bs as [|c r]; [discriminate|]. unfold rd in R. cbn in R. injection R as ->.
  change (drop 1 (b0 :: r)) with r. unfold take.
  replace (N.to_nat n) with (S (N.to_nat (n - 1))) by lia. reflexivity.
Qed.

(* ---- IPv4 ---- *)
Theorem iph_read_eq_from_slice_v4 bs h p : bytes_ok bs -> iph_from_ipv4_slice bs = Ok (h, p) ->
  iph_read bs = Ok (h, ipp_ip_number p, drop (iph_header_len h) bs).
Proof.
  intros OK H. unfold iph_from_ipv4_slice in H.
  destruct (ip4_from_slice bs) as [[hd hrest]|] eqn:D4; [|discriminate].
  destruct (ip4_from_slice_inv _ _ _ D4) as (b0 & R0 & V & I & L20 & LH & TH & HL & ->).
  cbv zeta in H. rewrite HL in H. set (hl := band b0 15 * 4) in *.
  destruct (hl <=? i4_total_len hd) eqn:T1; [|discriminate]. ltb_t T1.
  set (pl := i4_total_len hd - hl) in *.
  destruct (len (drop hl bs) <? pl) eqn:T2; [discriminate|]. ltb_t T2. rewrite len_drop in T2.
  rewrite slice_range_eq in H by (rewrite ?len_drop; lia). rewrite N.sub_0_r, drop_0 in H.
  unfold v4_tail in H.
  destruct (x4_from_slice (i4_protocol hd) (take pl (drop hl bs))) as [[[e nx] rest']|] eqn:DX; [|discriminate].
  apply Ok_inj in H. injection H as <- <-. cbn [ipp_ip_number].
  assert (OKD : bytes_ok (drop hl bs)) by (apply bytes_ok_drop; exact OK).
  pose proof (x4_read_of_prefix _ _ _ _ _ _ OKD DX) as XR.
  destruct (x4_enc_dec _ _ _ _ _ (bytes_ok_take _ _ OKD) DX) as (WX & _ & LK & _ & xb & EXB & SPX & AGX & _).
  assert (LXL : x4_header_len e <= pl).
  { assert (L := f_equal len SPX). rewrite len_app in L.
    assert (LX : len (take (x4_header_len e) (take pl (drop hl bs))) = x4_header_len e).
    { rewrite <- (agree_len _ _ _ AGX). destruct (x4_ser_agree e [] (i4_protocol hd) WX LK) as (b & EB & LB & _).
      cbn [app] in EB. rewrite EXB in EB. apply Ok_inj in EB. subst b. exact LB. }
    rewrite LX in L. rewrite len_take, len_drop in L. lia. }
  (* the reader *)
  pose proof (band15_lt b0) as B15. ltb_t I.
  unfold iph_read, read_exact at 1. rewrite (ltb_false (len bs) 1) by lia.
  assert (T1b : take 1 bs = [b0]).
  { destruct bs as [|c r]; [discriminate|]. unfold rd in R0. cbn in R0. injection R0 as ->. reflexivity. }
  rewrite T1b. cbv beta iota zeta. rewrite V. change (4 =? 4) with true. cbv iota.
  rewrite (ltb_false (band b0 15) 5) by lia. fold hl.
  rewrite (ltb_false 60 hl) by (subst hl; lia).
  unfold read_exact. rewrite len_drop. rewrite (ltb_false (len bs - 1) (hl - 1)) by lia.
  rewrite (first_cons_take bs b0 hl R0) by (subst hl; lia). rewrite TH.
  rewrite (ltb_false (i4_total_len hd) hl) by lia. fold pl.
  rewrite drop_drop. replace (1 + (hl - 1)) with hl by (subst hl; lia).
  rewrite limited_is_st.
  erewrite x4_read_limited_of_read;
    [ | lia | cbn; lia | exact XR | cbn [IoFault.Model.lr_new IoFault.Model.lr_max IoFault.Model.lr_read]; lia ].
  f_equal. f_equal.
  (* rest' ++ drop pl (drop hl bs) = drop (hl + xl) bs *)
  unfold iph_header_len. rewrite HL. fold hl.
  rewrite <- (drop_drop bs (x4_header_len e) hl).
  transitivity (drop (x4_header_len e) (take pl (drop hl bs) ++ drop pl (drop hl bs)));
    [|rewrite take_drop; reflexivity].
  rewrite SPX. rewrite <- app_assoc.
  rewrite drop_app_len; [reflexivity|].
  rewrite <- (agree_len _ _ _ AGX). destruct (x4_ser_agree e [] (i4_protocol hd) WX LK) as (b & EB & LB & _).
  cbn [app] in EB. rewrite EXB in EB. apply Ok_inj in EB. subst b. symmetry. exact LB.
Qed.

(* ---- IPv6 ---- *)
Module XM := EP.ExtChain.Model.
Module XV := EP.ExtChain.ReadView.
Module XRP := EP.ExtChain.ReadProofs.
Module IOM := EP.IoFault.Model.

Lemma not_ext_not_hop n : ExtChain.Spec.is_ext_number n = false -> (XM.IPV6_HOP_BY_HOP =? n) = false.
Proof.
  intros H. apply N.eqb_neq. intros <-. discriminate H.
Qed.

Theorem iph_read_eq_from_slice_v6 bs h p : bytes_ok bs -> iph_from_ipv6_slice bs = Ok (h, p) ->
  iph_zero_len_ext h = false -> iph_read bs = Ok (h, ipp_ip_number p, drop (iph_header_len h) bs).
Proof.
  intros OK H NF. unfold iph_from_ipv6_slice in H.
  destruct (ip6_from_slice bs) as [[hd hrest]|] eqn:D6; [|discriminate].
  destruct (ip6_enc_dec bs hd hrest OK D6) as (W & SPL & L40 & _).
  assert (OKH : bytes_ok hrest) by (rewrite SPL in OK; apply bytes_ok_app in OK; tauto).
  assert (LBS : len bs = 40 + len hrest) by (rewrite SPL at 1; rewrite len_app, L40; reflexivity).
  destruct (ip6_read_inv _ _ _ (proj2 (ip6_dec_enc hd hrest W))) as (v0 & r1 & RE & V6 & RW).
  rewrite <- SPL in RE.
  unfold iph_read. rewrite RE. cbv beta iota zeta.
  rewrite V6. change (6 =? 4) with false. change (6 =? 6) with true. cbv iota. rewrite RW.
  rewrite limited_is_st.
  assert (DROP : forall k, drop (40 + k) bs = drop k hrest).
  { intros k. rewrite SPL at 1. apply drop_app_more. rewrite L40. reflexivity. }
  destruct ((0 =? i6_payload_length hd) && (40 <? len bs)) eqn:Z.
  - (* payload_length 0, data behind the header: outside F15 no extension header follows *)
    apply andb_true_iff in Z. destruct Z as [Z0 _]. ltb_t Z0.
    unfold v6_tail in H.
    destruct (of_x6 (XM.from_slice (i6_next_header hd) hrest)) as [[[e n] rest']|] eqn:D; [|discriminate].
    apply of_x6_ok in D. apply Ok_inj in H. injection H as <- <-. cbn [ipp_ip_number].
    unfold iph_zero_len_ext in NF. rewrite <- Z0 in NF. cbn [andb N.eqb] in NF.
    pose proof (ExtChain.Proofs.arm_of_other _ NF) as ARM.
    unfold XM.from_slice in D. rewrite (not_ext_not_hop _ NF) in D.
    unfold XM.LOOP_FUEL in D. cbn [XM.from_slice_loop] in D. rewrite ARM in D.
    injection D as <- <- <-.
    unfold ExtChain.ReadModel.read6. rewrite (not_ext_not_hop _ NF).
    unfold XM.LOOP_FUEL. cbn [ExtChain.ReadModel.read6_loop]. rewrite ARM.
    unfold of_q, XV.mk_st. cbn [IOM.rs_src IoFault.Spec.src_data].
    unfold iph_header_len. change (XM.header_len XM.exts6_default) with 0. rewrite (DROP 0). reflexivity.
  - cbv zeta in H. destruct (len hrest <? i6_payload_length hd) eqn:T; [discriminate|]. ltb_t T.
    rewrite slice_range_eq in H by lia. rewrite N.sub_0_r, drop_0 in H.
    unfold v6_tail in H. set (pl := i6_payload_length hd) in *.
    destruct (of_x6 (XM.from_slice (i6_next_header hd) (take pl hrest))) as [[[e n] rest']|] eqn:D; [|discriminate].
    apply of_x6_ok in D. apply Ok_inj in H. injection H as <- <-. cbn [ipp_ip_number].
    set (r := IOM.lr_new pl IOM.LS_IPV6_PAYLOAD (ip6_header_len hd) IOM.L_IPV6H).
    assert (MOK : XV.m_ok hrest (XV.MLim r)).
    { cbn [XV.m_ok r IOM.lr_new IOM.lr_read IOM.lr_max]. lia. }
    assert (VW : XV.view hrest (XV.MLim r) = take pl hrest) by (unfold r; apply view_lim_new).
    rewrite <- VW in D.
    destruct (XRP.read6_eq_from_slice hrest 65536 0 (XV.MLim r) (i6_next_header hd) e n rest'
                ltac:(lia) OKH MOK D) as (m' & k & EV & KA & R6 & V' & MOK' & LM).
    cbn [XV.lim_of] in R6. rewrite R6. unfold of_q, XV.mk_st. cbn [IOM.rs_src IoFault.Spec.src_data].
    rewrite VW in D, EV.
    destruct (Exts6Proofs.exts6_enc_dec (i6_next_header hd) (take pl hrest) e n rest' (bytes_ok_take _ _ OKH) D)
      as (V & xb & cons' & EW & NH & SP & HE & LX & _).
    assert (K : k = XM.header_len e).
    { assert (L1 := f_equal len EV). assert (L2 := f_equal len SP).
      rewrite !len_app, !len_take in L1. rewrite !len_app, len_take in L2.
      rewrite <- (Exts6Proofs.hdr_eq_len _ _ HE), LX in L2.
      cbn [XV.avail r IOM.lr_new IOM.lr_max IOM.lr_read] in KA. lia. }
    unfold iph_header_len. rewrite DROP, K. reflexivity.
Qed.

(* ---- both versions ---- *)
Theorem iph_read_eq_from_slice bs h p : bytes_ok bs -> iph_from_slice bs = Ok (h, p) ->
  iph_zero_len_ext h = false -> iph_read bs = Ok (h, ipp_ip_number p, drop (iph_header_len h) bs).
Proof.
  intros OK H NF. destruct (iph_from_slice_version bs _ H) as (b0 & R0 & [[V D]|[V D]]).
  - apply iph_read_eq_from_slice_v4; assumption.
  - apply iph_read_eq_from_slice_v6; assumption.
Qed.

(* C06's class F15 (a predicate on the bytes) is this class *)
Lemma F15_is_zero_len_ext bs h p : iph_from_slice bs = Ok (h, p) ->
  Equiv.ReadProofs.F15 bs = iph_zero_len_ext h.
Proof.
  intros H. destruct (iph_from_slice_version bs _ H) as (b0 & R0 & [[V D]|[V D]]).
  - (* version 4: F15 is false *)
    assert (exists hd e, h = IpV4 hd e) as (hd & e & ->).
    { unfold iph_from_ipv4_slice, v4_tail in D. destruct (ip4_from_slice bs) as [[hd hr]|]; [|discriminate].
      cbv zeta in D. destruct (_ <=? _); [|discriminate]. destruct (_ <? _); [discriminate|].
      destruct (slice_range _ _ _); [|discriminate]. destruct (x4_from_slice _ _) as [[[e nx] r']|]; [|discriminate].
      apply Ok_inj in D. injection D as <- _. eauto. }
    cbn [iph_zero_len_ext]. unfold Equiv.ReadProofs.F15.
    destruct bs as [|c0 [|c1 [|c2 [|c3 [|c4 [|c5 [|c6 r]]]]]]]; try reflexivity.
    unfold rd in R0. cbn in R0. injection R0 as E0. subst. unfold shr in V.
    match goal with |- (?x =? 6) && _ && _ && _ = false => destruct (x =? 6) eqn:X end;
      [apply N.eqb_eq in X; rewrite V in X; discriminate X|reflexivity].
  - unfold iph_from_ipv6_slice in D.
    destruct (ip6_from_slice bs) as [[hd hrest]|] eqn:D6; [|discriminate].
    assert (exists e, h = IpV6 hd e) as (e & ->).
    { destruct (_ && _); [unfold v6_tail in D|cbv zeta in D; destruct (_ <? _); [discriminate|];
        destruct (slice_range _ _ _); [unfold v6_tail in D|discriminate]];
      destruct (of_x6 _) as [[[e ?] ?]|]; try discriminate; apply Ok_inj in D; injection D as <- _; eauto. }
    cbn [iph_zero_len_ext].
    (* the fields are the bytes at their offsets *)
    unfold ip6_from_slice, ip6_slice_from_slice in D6.
    destruct (len bs <? 40) eqn:L40; [discriminate|]. ltb_t L40.
    rewrite R0 in D6. destruct (negb (shr b0 4 =? 6)); [discriminate|].
    destruct (ip6_to_header (take 40 bs)) as [hd'|] eqn:TH; [|discriminate].
    destruct (slice_from bs 40); [|discriminate]. apply Ok_inj in D6. injection D6 as -> _.
    destruct bs as [|a0 [|a1 [|a2 [|a3 [|a4 [|a5 [|a6 [|a7 r]]]]]]]];
      try (rewrite ?len_cons, ?len_nil in L40; lia).
    unfold ip6_to_header in TH.
    change (take 40 (a0 :: a1 :: a2 :: a3 :: a4 :: a5 :: a6 :: a7 :: r))
      with (a0 :: a1 :: a2 :: a3 :: a4 :: a5 :: a6 :: a7 :: take 32 r) in TH.
    destruct (slice_range _ 8 24); [|discriminate]. destruct (slice_range _ 24 40); [|discriminate].
    apply Ok_inj in TH. subst hd. cbn [i6_payload_length i6_next_header].
    unfold rd in R0. cbn in R0. injection R0 as E0. subst.
    unfold Equiv.ReadProofs.F15. cbv beta iota. unfold shr in V. rewrite V.
    change (6 =? 6) with true. cbn [andb].
    unfold ExtChain.Spec.is_ext_number. cbn [map ExtChain.Spec.rfc8200_order ExtChain.Spec.ip_number_of existsb].
    unfold be16.
    destruct (a4 =? 0) eqn:E4; destruct (a5 =? 0) eqn:E5; cbn [andb]; ltb_t E4; ltb_t E5; subst;
      try (replace (_ * 256 + _ =? 0) with false by (symmetry; apply N.eqb_neq; lia); reflexivity).
    change (0 * 256 + 0 =? 0) with true. cbn [andb].
    rewrite (N.eqb_sym a6 0), (N.eqb_sym a6 60), (N.eqb_sym a6 43), (N.eqb_sym a6 44), (N.eqb_sym a6 51).
    destruct (0 =? a6), (60 =? a6), (43 =? a6), (44 =? a6), (51 =? a6); reflexivity.
Qed.
