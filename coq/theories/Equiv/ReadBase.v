(* Equiv/ReadBase.v -- C06 group 3, shared machinery for the read-vs-from_slice
   proofs: the "same reason" relation, one-step lemmas for a read program that
   runs on a std::io::Cursor (plain or through a LimitedReader), list and bit
   facts. *)
From EP Require Import Base.Bytes Parse.Types Parse.Slices Parse.Cursor Parse.HdrModel Parse.HdrView
  IoFault.Spec IoFault.Model IoFault.Proofs Equiv.Model Equiv.ModelRead Equiv.Proofs Equiv.ReadProofs.
From Coq Require Import ZArith Lia ZifyN ZifyBool.

Local Open Scope N_scope.

(* ---- the relation "same header, or a rejection for the same reason" ---------- *)
(* read side first, slice side second.  Everything is compared exactly except
   the required_len of a LimitedReader length error about a raw IPv6 extension
   header: the reader names what its current read_exact needs (2, or the full
   header once the length byte is known), the slice decoder names the minimum
   header size 8 while fewer than 8 bytes are left.  Both exceed the length that
   is available, which is what the error is about. *)
Definition same_reason (r s : outcome) : Prop :=
  match r, s with
  | OOk n, OOk m => n = m
  | OEof, OEof => True
  | OContent k, OContent k' => k = k'
  | OLen rq l src ly off, OLen rq' l' src' ly' off' =>
      l = l' /\ src = src' /\ ly = ly' /\ off = off' /\
      (rq = rq' \/ (ly = L_IPV6EXT /\ l < 8 /\ l < rq /\ rq' = 8))
  | _, _ => False
  end.

Lemma same_reason_eq r s : r = s -> (forall b, r <> OBad b) -> same_reason r s.
Proof.
  intros <- H. destruct r; cbn; auto.
  - repeat split; auto.
  - exfalso. now apply (H site).
Qed.

(* ---- lists ------------------------------------------------------------------- *)
Lemma nth_error_firstn' {A} (l : list A) : forall n i, (i < n)%nat ->
  nth_error (firstn n l) i = nth_error l i.
Proof.
  induction l as [|x l IH]; intros n i H.
  - now rewrite firstn_nil.
  - destruct n; [lia|]. destruct i; cbn [firstn nth_error]; [reflexivity|]. apply IH. lia.
Qed.

Lemma nth_error_skipn' {A} (l : list A) : forall k i,
  nth_error (skipn k l) i = nth_error l (k + i).
Proof.
  induction l as [|x l IH]; intros k i.
  - rewrite skipn_nil. destruct i, (k + 0)%nat, k; reflexivity.
  - destruct k; cbn [skipn plus nth_error]; [reflexivity|]. apply IH.
Qed.

Lemma rd_take i n (bs : bytes) : i < n -> rd (take n bs) i = rd bs i.
Proof. intros H. unfold rd, take. apply nth_error_firstn'. lia. Qed.

Lemma rd_drop k i (bs : bytes) : rd (drop k bs) i = rd bs (k + i).
Proof. unfold rd, drop. rewrite nth_error_skipn'. f_equal. lia. Qed.

Lemma len_take_le {A} n (l : list A) : n <= len l -> len (take n l) = n.
Proof. intros H. rewrite len_take. lia. Qed.

Lemma drop_take {A} n a (l : list A) : drop n (take a l) = take (a - n) (drop n l).
Proof.
  unfold drop, take. destruct (N.le_gt_cases n a) as [H|H].
  - replace (N.to_nat a) with (N.to_nat n + N.to_nat (a - n))%nat by lia.
    rewrite firstn_plus. rewrite skipn_app.
    rewrite skipn_all2 by (rewrite firstn_length; lia).
    replace (N.to_nat n - length (firstn (N.to_nat n) l))%nat with
      (N.to_nat n - Nat.min (N.to_nat n) (length l))%nat by (now rewrite firstn_length).
    cbn [app].
    destruct (Nat.le_gt_cases (N.to_nat n) (length l)) as [L|L].
    + replace (N.to_nat n - Nat.min (N.to_nat n) (length l))%nat with 0%nat by lia. reflexivity.
    + rewrite (skipn_all2 l) by lia. rewrite firstn_nil, skipn_nil. reflexivity.
  - replace (a - n) with 0 by lia. cbn [N.to_nat firstn].
    apply skipn_all2. rewrite firstn_length. lia.
Qed.

Lemma take_take {A} n m (l : list A) : n <= m -> take n (take m l) = take n l.
Proof.
  intros H. unfold take. rewrite firstn_firstn. f_equal. lia.
Qed.

Lemma take_drop_take {A} k n a (l : list A) : k + n <= a ->
  take n (drop k (take a l)) = take n (drop k l).
Proof. intros H. rewrite drop_take. apply take_take. lia. Qed.

(* ---- bytes: finite sweeps ------------------------------------------------------ *)
Fixpoint upto (n : nat) : list N :=
  match n with O => [] | S k => N.of_nat k :: upto k end.

Lemma upto_in n : forall v, v < N.of_nat n -> In v (upto n).
Proof.
  induction n as [|n IH]; intros v H; [lia|]. cbn [upto].
  destruct (N.eq_dec v (N.of_nat n)) as [E|E]; [left; auto|right; apply IH; lia].
Qed.

Lemma sweep256 (P : N -> bool) : forallb P (upto 256) = true -> forall v, v < 256 -> P v = true.
Proof.
  intros H v Hv. rewrite forallb_forall in H. apply H. apply upto_in.
  change (N.of_nat 256) with 256. exact Hv.
Qed.

Lemma shr4_div v : N.shiftr v 4 = v / 16.
Proof. rewrite N.shiftr_div_pow2. reflexivity. Qed.

Lemma land15_mod v : N.land v 15 = v mod 16.
Proof. change 15 with (N.ones 4). rewrite N.land_ones. reflexivity. Qed.

Lemma land63_mod v : N.land v 63 = v mod 64.
Proof. change 63 with (N.ones 6). rewrite N.land_ones. reflexivity. Qed.

Lemma bit7 v : v < 256 -> N.testbit v 7 = Macsec.bit v 128.
Proof.
  intros H. apply Bool.eqb_prop.
  apply (sweep256 (fun v => Bool.eqb (N.testbit v 7) (Macsec.bit v 128))); [vm_compute; reflexivity|exact H].
Qed.

Lemma bit5 v : v < 256 -> N.testbit v 5 = Macsec.bit v 32.
Proof.
  intros H. apply Bool.eqb_prop.
  apply (sweep256 (fun v => Bool.eqb (N.testbit v 5) (Macsec.bit v 32))); [vm_compute; reflexivity|exact H].
Qed.

Lemma tcp_hl v : v < 256 -> N.shiftr (N.land v 240) 2 = v / 16 * 4.
Proof.
  intros H. apply N.eqb_eq.
  apply (sweep256 (fun v => N.shiftr (N.land v 240) 2 =? v / 16 * 4)); [vm_compute; reflexivity|exact H].
Qed.

(* ---- slices -------------------------------------------------------------------- *)
Lemma rdU_some (s : slice) i v : rd (snd s) i = Some v -> rdU s i = Ok v.
Proof. intros H. unfold rdU. now rewrite H. Qed.

Lemma rd16_some (s : slice) i a b :
  rd (snd s) i = Some a -> rd (snd s) (i + 1) = Some b -> rd16 s i = Ok (be16 a b).
Proof. intros Ha Hb. unfold rd16. rewrite (rdU_some _ _ _ Ha), (rdU_some _ _ _ Hb). reflexivity. Qed.

Lemma subU_ok (s : slice) k n : k + n <= s_len s ->
  subU s k n = Ok (fst s + k, take n (drop k (snd s))).
Proof. intros H. unfold subU. destruct (k + n <=? s_len s) eqn:E; [reflexivity|lia]. Qed.

Lemma s_len_pair (o : N) (bs : bytes) : s_len (o, bs) = len bs.
Proof. reflexivity. Qed.

Lemma s_len_sub (bs : bytes) o k n : k + n <= len bs -> s_len (o, take n (drop k bs)) = n.
Proof. intros H. unfold s_len. cbn [snd]. rewrite len_take, len_drop. lia. Qed.

(* ---- a read program on a Cursor, plain or behind a LimitedReader --------------- *)
Definition O (p : rprog) (st : rstate) : outcome := outcome_of_run (run_r p st).

Inductive rmode := MPlain | MLim (r : limrd).

Definition mk_st (d : bytes) (p : N) (m : rmode) : rstate :=
  mk_rstate (mk_fsource d 65536 false p) (match m with MPlain => None | MLim r => Some r end).

(* what read_exact may still take *)
Definition avail (d : bytes) (m : rmode) : N :=
  match m with MPlain => len d | MLim r => lr_max r - lr_read r end.

(* the LimitedReader's budget never exceeds what the Cursor holds: "the slice
   holds the announced packet" *)
Definition m_ok (d : bytes) (m : rmode) : Prop :=
  match m with MPlain => True | MLim r => lr_read r <= lr_max r /\ lr_max r - lr_read r <= len d end.

Definition lim_of (m : rmode) : bool := match m with MPlain => false | MLim _ => true end.

Definition m_start (m : rmode) (layer : N) : rmode :=
  match m with
  | MPlain => MPlain
  | MLim r => MLim (mk_limrd (lr_max r - lr_read r) (lr_source r) layer (lr_off r + lr_read r) 0)
  end.

Definition m_adv (m : rmode) (n : N) : rmode :=
  match m with
  | MPlain => MPlain
  | MLim r => MLim (mk_limrd (lr_max r) (lr_source r) (lr_layer r) (lr_off r) (lr_read r + n))
  end.

Definition m_fail (m : rmode) (n : N) : outcome :=
  match m with
  | MPlain => OEof
  | MLim r => OLen (lr_read r + n) (lr_max r) (lr_source r) (lr_layer r) (lr_off r)
  end.

Lemma O_start d p m layer k : m_ok d m ->
  O (with_start (lim_of m) layer k) (mk_st d p m) = O k (mk_st d p (m_start m layer)).
Proof.
  intros Hok. destruct m as [|r]; cbn [lim_of with_start m_start]; [reflexivity|].
  unfold O, mk_st. cbn [run_r rs_lim rs_src]. unfold lr_start_layer, checked_sub.
  destruct Hok as [H1 _].
  replace (lr_read r <=? lr_max r) with true by (symmetry; apply N.leb_le; lia).
  reflexivity.
Qed.

Lemma O_read d p m n k : m_ok d m ->
  O (PRead n k) (mk_st d p m) =
  if n <=? avail d m then O (k (take n d)) (mk_st (drop n d) (p + n) (m_adv m n))
  else m_fail m n.
Proof.
  intros Hok. destruct m as [|r]; cbn [avail m_adv m_fail].
  - unfold O, mk_st. rewrite run_PRead by (cbn; lia).
    cbn [src_data src_chunk src_err src_pulled]. destruct (n <=? len d); reflexivity.
  - destruct Hok as [H1 H2]. unfold O, mk_st. cbn [run_r rs_lim rs_src].
    destruct (n <=? lr_max r - lr_read r) eqn:E.
    + rewrite lr_read_exact_within by (cbn [src_chunk src_data]; lia).
      cbn [src_data src_chunk src_err src_pulled].
      replace (n <=? len d) with true by (symmetry; apply N.leb_le; lia). reflexivity.
    + rewrite lr_read_exact_len by lia. reflexivity.
Qed.

Lemma m_ok_start d m layer : m_ok d m -> m_ok d (m_start m layer).
Proof. destruct m as [|r]; cbn; [auto|]. intros [H1 H2]. lia. Qed.

Lemma m_ok_adv d m n : m_ok d m -> n <= avail d m -> m_ok (drop n d) (m_adv m n).
Proof.
  destruct m as [|r]; cbn [m_ok m_adv avail lr_max lr_read]; [auto|].
  intros [H1 H2] H. rewrite len_drop. lia.
Qed.

Lemma avail_start d m layer : m_ok d m -> avail d (m_start m layer) = avail d m.
Proof. destruct m as [|r]; cbn; [reflexivity|]. intros [H1 H2]. lia. Qed.

Lemma avail_adv d m n : n <= avail d m -> avail (drop n d) (m_adv m n) = avail d m - n.
Proof.
  destruct m as [|r]; cbn [m_adv avail lr_max lr_read]; intros H.
  - apply len_drop.
  - lia.
Qed.

Lemma avail_le d m : m_ok d m -> avail d m <= len d.
Proof. destruct m as [|r]; cbn; [lia|]. intros [H1 H2]. lia. Qed.

Lemma at_some b i v k : rd b i = Some v -> at_ b i k = k v.
Proof. intros H. unfold at_. now rewrite H. Qed.

Lemma cursor_st bs : mk_rstate (cursor_src bs) None = mk_st bs 0 MPlain.
Proof. reflexivity. Qed.

Lemma O_ret a d p m : O (PRet a) (mk_st d p m) = OOk p.
Proof. reflexivity. Qed.

Lemma O_fail c d p m : O (PFail c) (mk_st d p m) = OContent (KC c).
Proof. reflexivity. Qed.
