(* Equiv/ReadLinkIp.v -- C06 group 3 (round 3, c06rd): IpHeaders::read, the read program of
   IoFault/Model.v (`ip_headers_read`) against the value reader of Roundtrip/IpHeaders.v (`iph_read`).
   See Equiv/ReadLink.v for the statement format.  The value reader keeps no LenError record
   (`Err ELen`), so the LimitedReader length errors are compared after `erase_len`.  No hypothesis
   on the announced length: the LimitedReader may have a larger budget than the data. *)
From EP Require Import Base.Bytes Parse.Types Parse.Slices Parse.Cursor Parse.HdrModel Parse.HdrView
  IoFault.Spec IoFault.Model IoFault.Proofs Equiv.Model Equiv.ModelRead Equiv.Proofs Equiv.ReadProofs
  Equiv.ReadBase Equiv.ReadSimple Equiv.ReadTotal Equiv.ReadNeverBad.
From EP Require Roundtrip.Common Roundtrip.CommonProofs Roundtrip.Ipv4 Roundtrip.Ipv6 Roundtrip.Auth Roundtrip.Exts4
  Roundtrip.IpHeaders Roundtrip.IpHeadersProofs Roundtrip.DecodersTotal
  ExtChain.Model ExtChain.ReadModel ExtChain.ReadView ExtChain.ReadErase Equiv.ReadValues.
From EP Require Import Equiv.ReadLink.
From Coq Require Import ZArith Lia ZifyN ZifyBool.

Local Open Scope N_scope.
Module RC := EP.Roundtrip.Common.
Module RI := EP.Roundtrip.IpHeaders.
Module XR := EP.ExtChain.ReadModel.
Module XE := EP.ExtChain.ReadErase.
Module DT := EP.Roundtrip.DecodersTotal.

(* ---- a read program sees its source only through the data: the position counter is threaded ---- *)
Definition lim_ok (lim : option limrd) : Prop :=
  match lim with Some r => lr_read r <= lr_max r | None => True end.

Lemma run_r_pulled p : forall d c e lim, 1 <= c -> lim_ok lim ->
  exists res n lim', n <= len d /\
    forall q, run_r p (mk_rstate (mk_fsource d c e q) lim) =
              (res, mk_rstate (mk_fsource (drop n d) c e (q + n)) lim').
Proof.
  induction p as [a|cc|ee| | |n k IH|layer k IH|m ls off layer k IH]; intros d c e lim Hc Hl.
  1-5: eexists _, 0, lim; (split; [lia|]); intros q; cbn [run_r]; rewrite drop_0, N.add_0_r; reflexivity.
  - (* PRead *)
    destruct lim as [r|].
    + cbn [lim_ok] in Hl.
      destruct (N.lt_ge_cases (lr_max r - lr_read r) n) as [Hn|Hn].
      * eexists _, 0, (Some r). split; [lia|]. intros q. cbn [run_r rs_lim rs_src].
        rewrite lr_read_exact_len by assumption. rewrite drop_0, N.add_0_r. reflexivity.
      * destruct (n <=? len d) eqn:E; ltb_tac.
        -- destruct (IH (take n d) (drop n d) c e
                        (Some (mk_limrd (lr_max r) (lr_source r) (lr_layer r) (lr_off r) (lr_read r + n))) Hc)
             as (res & n' & lim' & Hn' & R).
           { cbn [lim_ok lr_read lr_max]. lia. }
           exists res, (n + n'), lim'. rewrite len_drop in Hn'. split; [lia|]. intros q.
           cbn [run_r rs_lim rs_src]. rewrite lr_read_exact_within by (cbn [src_chunk]; assumption).
           cbn [src_data src_chunk src_err src_pulled].
           replace (n <=? len d) with true by (symmetry; apply N.leb_le; lia).
           rewrite R. rewrite drop_drop, N.add_assoc. reflexivity.
        -- exists (QIo (if e then KOther else KEof)), (len d), (Some r). split; [lia|]. intros q.
           cbn [run_r rs_lim rs_src]. rewrite lr_read_exact_within by (cbn [src_chunk]; assumption).
           cbn [src_data src_chunk src_err src_pulled].
           replace (n <=? len d) with false by (symmetry; apply N.leb_gt; lia).
           rewrite drop_all by lia. reflexivity.
    + destruct (n <=? len d) eqn:E; ltb_tac.
      * destruct (IH (take n d) (drop n d) c e None Hc I) as (res & n' & lim' & Hn' & R).
        exists res, (n + n'), lim'. rewrite len_drop in Hn'. split; [lia|]. intros q.
        rewrite run_PRead by (cbn [src_chunk]; exact Hc). cbn [src_data src_chunk src_err src_pulled].
        replace (n <=? len d) with true by (symmetry; apply N.leb_le; lia).
        rewrite R. rewrite drop_drop, N.add_assoc. reflexivity.
      * exists (QIo (if e then KOther else KEof)), (len d), None. split; [lia|]. intros q.
        rewrite run_PRead by (cbn [src_chunk]; exact Hc). cbn [src_data src_chunk src_err src_pulled].
        replace (n <=? len d) with false by (symmetry; apply N.leb_gt; lia).
        rewrite drop_all by lia. reflexivity.
  - (* PStart *)
    destruct lim as [r|].
    + cbn [lim_ok] in Hl.
      destruct (IH d c e (Some (mk_limrd (lr_max r - lr_read r) (lr_source r) layer (lr_off r + lr_read r) 0)) Hc)
        as (res & n' & lim' & Hn' & R).
      { cbn [lim_ok lr_read lr_max]. lia. }
      exists res, n', lim'. split; [exact Hn'|]. intros q.
      cbn [run_r rs_lim rs_src]. unfold lr_start_layer, checked_sub.
      replace (lr_read r <=? lr_max r) with true by (symmetry; apply N.leb_le; lia).
      apply R.
    + eexists _, 0, None. split; [lia|]. intros q. cbn [run_r rs_lim]. rewrite drop_0, N.add_0_r. reflexivity.
  - (* PLimit *)
    destruct lim as [r|].
    + eexists _, 0, (Some r). split; [lia|]. intros q. cbn [run_r rs_lim]. rewrite drop_0, N.add_0_r. reflexivity.
    + destruct (IH d c e (Some (lr_new m ls off layer)) Hc) as (res & n' & lim' & Hn' & R).
      { cbn [lim_ok lr_new lr_read lr_max]. lia. }
      exists res, n', lim'. split; [exact Hn'|]. intros q. cbn [run_r rs_lim rs_src]. apply R.
Qed.

(* ---- IpAuthHeader::read_limited / Ipv4Extensions::read_limited of Roundtrip/IpHeaders.v are the
   read programs (the same erasure C12 has for its own readers: ExtChain/ReadErase.v) ---- *)
Lemma ah_lim_erase k st : DT.st_ok st -> rs_lim st <> None ->
  run_r (ip_auth_read true k) st =
  XR.qbind (RI.ah_read_limited st) (fun h st' => run_r (k (Roundtrip.Auth.ah_next_header h)) st').
Proof.
  intros Hs HL. unfold ip_auth_read, RI.ah_read_limited. rewrite XE.run_start_cps.
  destruct (DT.start_layer_cases true L_AUTH st Hs (fun _ => HL)) as (st1 & -> & Hs1 & _). cbn [XR.qbind].
  rewrite XE.run_PRead_cps.
  pose proof (DT.rd_exact_cases st1 12 Hs1) as C.
  destruct (XR.rd_exact st1 12) as [[start|kk|e|c| | |] st2]; try contradiction; try reflexivity. cbn [XR.qbind].
  destruct C as (L & Hb & Hs2 & _).
  destruct start as [|b0 [|b1 [|b2 [|b3 [|b4 [|b5 [|b6 [|b7 [|b8 [|b9 [|b10 [|b11 [|x t]]]]]]]]]]]]];
    try (exfalso; unfold len in L; cbn [length] in L; lia).
  unfold at_. rd_red.
  destruct (b1 <? 1) eqn:Z; [reflexivity|]. ltb_tac.
  assert (H1 : b1 < 256).
  { apply bytes_ok_cons in Hb. destruct Hb as [_ Hb]. apply bytes_ok_cons in Hb. destruct Hb as [Hb _]. exact Hb. }
  unfold Roundtrip.Auth.AH_MAX_ICV_LEN. is_false (1016 <? (b1 - 1) * 4).
  rewrite XE.run_PRead_cps.
  destruct (XR.rd_exact st2 ((b1 - 1) * 4)) as [[icv|kk|e|c| | |] st3]; reflexivity.
Qed.

Lemma x4_lim_erase start st : DT.st_ok st -> rs_lim st <> None ->
  run_r (x4_read true start) st =
  XE.qmap_pair (fun a : Roundtrip.Exts4.Ipv4Extensions * N =>
                  [snd a; match Roundtrip.Exts4.x4_auth (fst a) with Some _ => 1 | None => 0 end])
               (RI.x4_read_limited st start).
Proof.
  intros Hs HL. unfold x4_read, RI.x4_read_limited.
  change Roundtrip.Exts4.X4_AUTH with AUTH. destruct (AUTH =? start); [|reflexivity].
  rewrite ah_lim_erase by assumption.
  destruct (RI.ah_read_limited st) as [[h|kk|e|c| | |] st1]; reflexivity.
Qed.

(* ---- the tail behind the LimitedReader ---- *)
Lemma tail_link {A} (prog : rprog) (rdr : rstate -> qres A * rstate) (f : A -> list N)
      (kind : N -> outcome) bs r2 hl m ls off ly :
  len bs = hl + len r2 ->
  run_r prog (RI.limited r2 m ls off ly) = XE.qmap_pair f (rdr (RI.limited r2 m ls off ly)) ->
  DT.qreg (fst (rdr (RI.limited r2 m ls off ly))) ->
  (fst (rdr (RI.limited r2 m ls off ly)) = QContent CHopNotAtStart -> kind 1 = OContent (KC CHopNotAtStart)) ->
  (fst (rdr (RI.limited r2 m ls off ly)) = QContent CAuthZeroLen -> kind 0 = OContent (KC CAuthZeroLen)) ->
  erase_len (outcome_of_run (run_r prog (mk_rstate (mk_fsource r2 65536 false hl) (Some (lr_new m ls off ly))))) =
  rt_outcome kind bs snd (RI.of_q (rdr (RI.limited r2 m ls off ly))).
Proof.
  intros L E G K1 K0.
  destruct (run_r_pulled prog r2 65536 false (Some (lr_new m ls off ly))) as (res & n & lim' & Hn & R);
    [lia|cbn; lia|].
  pose proof (run_r_eof prog (RI.limited r2 m ls off ly)) as EOF.
  unfold RI.limited, XR.cursor in *. rewrite (R 0) in E. rewrite (R hl). rewrite (R 0) in EOF.
  destruct (rdr _) as [q st']. unfold XE.qmap_pair in E. cbn [fst snd] in *.
  injection E as -> <-.
  destruct q as [a|k|e|c| | |]; cbn [DT.qreg] in G; try contradiction; cbn [EP.ExtChain.ReadView.qmap outcome_of_run RI.of_q].
  - cbn [rt_outcome erase_len snd rs_src src_pulled src_data]. rewrite len_drop. f_equal. lia.
  - rewrite (EOF ltac:(split; cbn; lia) eq_refl k eq_refl). reflexivity.
  - reflexivity.
  - destruct c; try contradiction; cbn [rt_outcome erase_len].
    + symmetry. apply K1. reflexivity.
    + symmetry. apply K0. reflexivity.
Qed.

Lemma ah_lim_content st c : fst (RI.ah_read_limited st) = QContent c -> c = CAuthZeroLen.
Proof.
  unfold RI.ah_read_limited. intros H.
  apply DT.qbind_content in H. destruct H as [H|(u & st1 & _ & H)]; [destruct (DT.start_layer_no_content _ _ _ _ H)|].
  apply DT.qbind_content in H. destruct H as [H|(d & st2 & _ & H)]; [destruct (DT.rd_exact_no_content _ _ _ H)|].
  destruct d as [|b0 [|b1 [|b2 [|b3 [|b4 [|b5 [|b6 [|b7 [|b8 [|b9 [|b10 [|b11 [|x t]]]]]]]]]]]]]; try discriminate.
  destruct (b1 <? 1); [injection H as <-; reflexivity|].
  destruct (_ <? _); [discriminate|].
  apply DT.qbind_content in H. destruct H as [H|(p & st3 & _ & H)]; [destruct (DT.rd_exact_no_content _ _ _ H)|discriminate].
Qed.

Lemma x4_lim_content st start c : fst (RI.x4_read_limited st start) = QContent c -> c = CAuthZeroLen.
Proof.
  unfold RI.x4_read_limited. destruct (_ =? start); [|discriminate]. intros H.
  apply DT.qbind_content in H. destruct H as [H|(p & st3 & _ & H)]; [exact (ah_lim_content _ _ H)|discriminate].
Qed.

(* ---- IpHeaders ---- *)
(* codes of the value reader: IHL (0..4) when the version nibble is 4 and the IHL is below 5;
   1000 + version for an unsupported version; behind the IP header 0 = zero AH payload length,
   1 = hop-by-hop header not at the start.  The first byte tells which. *)
Definition iph_kind (bs : bytes) (c : N) : outcome :=
  match bs with
  | b0 :: _ =>
      if N.shiftr b0 4 =? 4 then
        if N.land b0 15 <? 5 then OContent (KC CIhl) else OContent (KC CAuthZeroLen)
      else if N.shiftr b0 4 =? 6 then
        if c =? 1 then OContent (KC CHopNotAtStart) else OContent (KC CAuthZeroLen)
      else OContent (KC CVersion)
  | [] => OBad 213
  end.

Lemma O_limit m ls off ly k d p :
  O (PLimit m ls off ly k) (mk_st d p MPlain) =
  outcome_of_run (run_r k (mk_rstate (mk_fsource d 65536 false p) (Some (lr_new m ls off ly)))).
Proof. reflexivity. Qed.

Lemma rt_outcome_map {A B} kind bs (g : A -> B) (r : RC.res (A * bytes)) :
  rt_outcome kind bs snd (match r with RC.Err e => RC.Err e | RC.Ok (a, r3) => RC.Ok (g a, r3) end) =
  rt_outcome kind bs snd r.
Proof. destruct r as [[a r3]|[]]; reflexivity. Qed.

Theorem link_ip_headers bs : bytes_ok bs ->
  erase_len (read_outcome HIpHeaders bs) = rt_outcome (iph_kind bs) bs snd (RI.iph_read bs).
Proof.
  intros Hb. rewrite read_outcome_O by discriminate.
  unfold read_prog, ip_headers_read, RI.iph_read. unfold RC.read_exact at 1.
  destruct (len bs <? 1) eqn:E; ltb_tac.
  { rd_step; [lia|reflexivity]. }
  rd_step; [|lia].
  split_pre bs 1%nat E. rewrite take_pre, drop_pre by reflexivity.
  apply bytes_ok_app in Hb. destruct Hb as [_ Ht].
  unfold at_. change (rd [n] 0) with (Some n). cbv iota beta zeta.
  change (RC.shr n 4) with (N.shiftr n 4). change (RC.band n 15) with (N.land n 15).
  unfold iph_kind. cbn [app]. rewrite <- shr4_div, <- land15_mod.
  assert (M : N.land n 15 < 16) by (rewrite land15_mod; apply N.mod_lt; discriminate).
  destruct (N.shiftr n 4 =? 4).
  - (* IPv4 *)
    destruct (N.land n 15 <? 5) eqn:Ei; ltb_tac; [reflexivity|].
    is_false (60 <? N.land n 15 * 4). unfold RC.read_exact.
    rd_step; [rt_settle|rt_settle; reflexivity].
    set (hl := N.land n 15 * 4) in *.
    set (more := take (hl - 1) t). set (r2 := drop (hl - 1) t).
    assert (Lm : len more = hl - 1) by (unfold more; rewrite len_take; lia).
    assert (L2 : len ([n] ++ t) = 0 + 1 + (hl - 1) + len r2).
    { unfold r2. rewrite len_app', len_drop. change (len [n]) with 1. lia. }
    assert (Hr2 : bytes_ok r2) by (apply bytes_ok_drop, Ht).
    clearbody more r2.
    do 19 (destruct more as [|? more]; [exfalso; unfold len in *; cbn [length] in *; lia|]).
    assert (Los : len more = hl - 20) by (unfold len in *; cbn [length] in *; lia).
    rd_red. unfold Roundtrip.Ipv4.ip4_to_header. is_false (40 <? len more). cbv iota beta zeta.
    cbn [Roundtrip.Ipv4.i4_total_len Roundtrip.Ipv4.i4_protocol].
    change (be16 n1 n2) with (n1 * 256 + n2).
    destruct (n1 * 256 + n2 <? hl) eqn:Et; [reflexivity|].
    rewrite O_limit.
    match goal with |- _ = rt_outcome ?k ?b snd (match ?r with RC.Ok _ => _ | RC.Err _ => _ end) =>
      transitivity (rt_outcome k b snd r); [|destruct r as [[[ext next] r3]|[]]; reflexivity] end.
    eapply (tail_link (x4_read true n8) (fun st => RI.x4_read_limited st n8)).
    + exact L2.
    + apply x4_lim_erase; [|cbn; discriminate].
      split; [cbn; lia|]. split; [cbn; lia|]. exact Hr2.
    + apply DT.x4_read_limited_reg; [|cbn; discriminate].
      split; [cbn; lia|]. split; [cbn; lia|]. exact Hr2.
    + intros H. apply x4_lim_content in H. discriminate.
    + intros _. reflexivity.
  - destruct (N.shiftr n 4 =? 6); [|reflexivity].
    (* IPv6 *)
    unfold ipv6_read_without_version, Roundtrip.Ipv6.ip6_read_without_version, RC.read_exact.
    rd_step; [rt_settle|rt_settle; reflexivity].
    assert (E39 : N.of_nat 39 <= len t) by (change (N.of_nat 39) with 39; lia).
    split_pre t 39%nat E39. rewrite take_pre, drop_pre by reflexivity. cbv iota beta.
    rd_red.
    match goal with |- context [RC.slice_range ?l 7 23] =>
      assert (exists a, RC.slice_range l 7 23 = Some a) as [a ->] by (eexists; reflexivity);
      assert (exists b, RC.slice_range l 23 39 = Some b) as [b ->] by (eexists; reflexivity) end.
    cbn [Roundtrip.Ipv6.i6_next_header Roundtrip.Ipv6.i6_payload_length].
    unfold Roundtrip.Ipv6.ip6_header_len. change (be16 n3 n4) with (n3 * 256 + n4).
    rewrite O_limit.
    match goal with |- _ = rt_outcome ?k ?b snd (match ?r with RC.Ok _ => _ | RC.Err _ => _ end) =>
      transitivity (rt_outcome k b snd r); [|destruct r as [[[ext next] r3]|[]]; reflexivity] end.
    apply bytes_ok_app in Ht. destruct Ht as [_ Ht0].
    eapply (tail_link (x6_read true n5) (XR.read6 true n5)).
    + lens. lia.
    + apply XE.read6_erase. unfold XE.chunk_ok. cbn. lia.
    + apply (DT.read6_reg true n5 (XR.cursor t0)); cbn; lia.
    + intros _. reflexivity.
    + intros _. reflexivity.
Qed.

(* ---- Ipv6Extensions: C12's value reader read6 (the reader of C06_read_value_ipv6_exts) ---- *)
Definition x6_kind (c : N) : outcome :=
  if c =? 1 then OContent (KC CHopNotAtStart) else OContent (KC CAuthZeroLen).

Theorem link_ipv6_exts start bs :
  erase_len (read_outcome (HIpv6Exts start) bs) =
  rt_outcome x6_kind bs snd (RI.of_q (XR.read6 false start (mk_rstate (XR.cursor bs) None))).
Proof.
  rewrite read_outcome_O by discriminate. unfold O, read_prog.
  change (mk_st bs 0 MPlain) with (mk_rstate (XR.cursor bs) None).
  pose proof (XE.read6_erase false start (mk_rstate (XR.cursor bs) None)) as E.
  pose proof (DT.exts6_read_total start bs) as G.
  destruct (run_r_pulled (x6_read false start) bs 65536 false None) as (res & n & lim' & Hn & R); [lia|exact I|].
  pose proof (run_r_eof (x6_read false start) (mk_rstate (XR.cursor bs) None)) as EOF.
  unfold XR.cursor in *. rewrite (R 0) in E, EOF. rewrite (R 0).
  specialize (E ltac:(unfold XE.chunk_ok; cbn; lia)).
  destruct (XR.read6 false start _) as [q st']. unfold XE.qmap_pair in E. cbn [fst snd] in *.
  injection E as -> <-.
  destruct q as [a|k|e|c| | |]; cbn [DT.qreg] in G; try contradiction;
    cbn [EP.ExtChain.ReadView.qmap outcome_of_run RI.of_q].
  - cbn [rt_outcome erase_len snd rs_src src_pulled src_data]. rewrite len_drop. f_equal. lia.
  - rewrite (EOF ltac:(split; cbn; [lia|exact I]) eq_refl k eq_refl). reflexivity.
  - reflexivity.
  - destruct c; try contradiction; reflexivity.
Qed.

(* ---- all 17 header types: one reader ----------------------------------------------- *)
(* the outcome of the VALUE reader of each header type (the readers of the C06_read_value theorems) *)
Definition rt_read_outcome (t : hdr_type) (bs : bytes) : outcome :=
  match t with
  | HEthernet2 => rt_outcome no_kind bs snd (Roundtrip.Eth.eth_read bs)
  | HSingleVlan => rt_outcome no_kind bs snd (Roundtrip.Vlan.vl_read bs)
  | HLinuxSll => rt_outcome (sll_kind bs) bs snd (Roundtrip.Sll.sll_read bs)
  | HMacsec => rt_outcome macsec_kind bs snd (Roundtrip.Macsec.mac_read bs)
  | HIpv4 => rt_outcome (ipv4_kind bs) bs snd (Roundtrip.Ipv4.ip4_read bs)
  | HIpv6 => rt_outcome ipv6_kind bs snd (Roundtrip.Ipv6.ip6_read bs)
  | HIpAuth => rt_outcome auth_kind bs snd (Roundtrip.Auth.ah_read bs)
  | HIpv6RawExt => rt_outcome no_kind bs snd (Roundtrip.RawExt.rx_read bs)
  | HIpv6Frag => rt_outcome no_kind bs snd (Roundtrip.Frag.frag_read bs)
  | HArp => rt_outcome no_kind bs snd (Roundtrip.Arp.arp_read bs)
  | HTcp => rt_outcome tcp_kind bs snd (Roundtrip.Tcp.read bs)
  | HUdp => rt_outcome no_kind bs snd (Roundtrip.Udp.udp_read bs)
  | HIcmpv4 => rt_outcome no_kind bs snd (Roundtrip.Icmp4.icmp4_read bs)
  | HIcmpv6 => rt_outcome no_kind bs snd (Roundtrip.Icmp6.icmp6_read bs)
  | HIpv4Exts start => rt_outcome auth_kind bs snd (Roundtrip.Exts4.x4_read bs start)
  | HIpv6Exts start =>
      rt_outcome x6_kind bs snd (RI.of_q (XR.read6 false start (mk_rstate (XR.cursor bs) None)))
  | HIpHeaders => rt_outcome (iph_kind bs) bs snd (RI.iph_read bs)
  end.

(* the types whose reader has no LimitedReader and no loop: plain equality *)
Definition plain_reader (t : hdr_type) : bool :=
  match t with HIpv6Exts _ | HIpHeaders => false | _ => true end.

Theorem read_link_exact t bs : bytes_ok bs -> plain_reader t = true ->
  read_outcome t bs = rt_read_outcome t bs.
Proof.
  intros Hb Hp. destruct t; try discriminate; unfold rt_read_outcome.
  - apply link_ethernet2.
  - apply link_single_vlan.
  - apply link_linux_sll.
  - apply link_macsec, Hb.
  - apply link_ipv4.
  - apply link_ipv6.
  - apply link_ip_auth, Hb.
  - apply link_ipv6_raw_ext, Hb.
  - apply link_ipv6_frag.
  - apply link_arp, Hb.
  - apply link_tcp, Hb.
  - apply link_udp.
  - apply link_icmpv4.
  - apply link_icmpv6.
  - apply link_ipv4_exts, Hb.
Qed.

Lemma erase_len_idem o : erase_len (erase_len o) = erase_len o.
Proof. destruct o; reflexivity. Qed.

Lemma erase_rt {A} kind bs (rest : A -> bytes) (r : RC.res A) :
  (forall c, erase_len (kind c) = kind c) ->
  erase_len (rt_outcome kind bs rest r) = rt_outcome kind bs rest r.
Proof. intros K. destruct r as [a|[]]; cbn [rt_outcome erase_len]; auto. Qed.

Theorem read_link t bs : bytes_ok bs -> erase_len (read_outcome t bs) = rt_read_outcome t bs.
Proof.
  intros Hb. destruct (plain_reader t) eqn:P.
  - (* a plain reader never answers with a length error: nothing to erase *)
    rewrite (read_link_exact t bs Hb P).
    destruct t; try discriminate; unfold rt_read_outcome; apply erase_rt; intros c;
      unfold no_kind, sll_kind, macsec_kind, ipv4_kind, ipv6_kind, auth_kind, tcp_kind;
      repeat match goal with |- context [match ?x with _ => _ end] => destruct x end; reflexivity.
  - destruct t; try discriminate.
    + apply link_ipv6_exts.
    + apply link_ip_headers, Hb.
Qed.

(* what the link says, spelled out for a reader that returns (header, rest) *)
Corollary read_link_ok {A} kind bs (r : RC.res (A * bytes)) o : o = rt_outcome kind bs snd r ->
  forall h rest, r = RC.Ok (h, rest) -> o = OOk (len bs - len rest).
Proof. intros -> h rest ->. reflexivity. Qed.
