(* Equiv/ReadChain.v -- C06 group 3: the IPv6 extension header chain.
   Ipv6Extensions::read / read_limited (a loop over read programs, on a plain
   Cursor or behind the LimitedReader of IpHeaders::read) against
   Ipv6Extensions::from_slice (a loop over slice decoders).  One induction covers
   both reader modes. *)
From EP Require Import Base.Bytes Parse.Types Parse.Slices Parse.Cursor Parse.HdrModel Parse.HdrView
  IoFault.Spec IoFault.Model IoFault.Proofs Equiv.Model Equiv.ModelRead Equiv.Proofs Equiv.ReadProofs
  Equiv.ReadBase Equiv.ReadSimple.
From Coq Require Import ZArith Lia ZifyN ZifyBool.

Local Open Scope N_scope.

(* ---- reader mode after a complete header of n bytes in layer `layer` ----------- *)
Definition m_done (m : rmode) (layer n : N) : rmode :=
  match m with
  | MPlain => MPlain
  | MLim r => MLim (mk_limrd (lr_max r - lr_read r) (lr_source r) layer (lr_off r + lr_read r) n)
  end.

Lemma m_done_ok d m layer n : m_ok d m -> n <= avail d m -> m_ok (drop n d) (m_done m layer n).
Proof.
  destruct m as [|r]; cbn [m_ok m_done avail lr_max lr_read]; [auto|].
  intros [H1 H2] H. rewrite len_drop. lia.
Qed.

Lemma avail_done d m layer n : n <= avail d m -> avail (drop n d) (m_done m layer n) = avail d m - n.
Proof.
  destruct m as [|r]; cbn [m_done avail lr_max lr_read]; intros H; [apply len_drop|reflexivity].
Qed.

Lemma lim_of_done m layer n : lim_of (m_done m layer n) = lim_of m.
Proof. destruct m; reflexivity. Qed.

Lemma m_adv_start1 m layer n : m_adv (m_start m layer) n = m_done m layer n.
Proof. destruct m; reflexivity. Qed.

Lemma m_adv_done m layer a n : m_adv (m_done m layer a) n = m_done m layer (a + n).
Proof. destruct m; reflexivity. Qed.

Lemma m_done_eq m layer a b : a = b -> m_done m layer a = m_done m layer b.
Proof. now intros ->. Qed.

(* the failure of a read_exact that asks for more than is available: end of file
   on a plain reader, LenError of the LimitedReader otherwise *)
Definition fail_out (m : rmode) (layer rq : N) : outcome :=
  match m with
  | MPlain => OEof
  | MLim r => OLen rq (lr_max r - lr_read r) (lr_source r) layer (lr_off r + lr_read r)
  end.

Lemma m_fail_start m layer n : m_fail (m_start m layer) n = fail_out m layer n.
Proof. destruct m; reflexivity. Qed.

Lemma m_fail_done m layer a n : m_fail (m_done m layer a) n = fail_out m layer (a + n).
Proof. destruct m; reflexivity. Qed.

(* ---- what IpHeaders::from_slice does to a length error of the chain ------------ *)
Definition wrap6 (lim : bool) (e : slice_error) : slice_error :=
  match lim, e with
  | true, ELen l => ELen (le_add_offset (le_set_src l LsIpv6HeaderPayloadLen) 40)
  | _, _ => e
  end.

(* LimitedReader of IpHeaders::read (IPv6 arm) against the payload slice *)
Definition lim_inv (m : rmode) (slice rest : Types.slice) : Prop :=
  match m with
  | MPlain => True
  | MLim r => lr_source r = LS_IPV6_PAYLOAD /\ lr_off r + lr_read r + s_len rest = 40 + s_len slice
  end.

Lemma fail_rel m d slice rest layer ly rq rq' :
  s_len rest = avail d m -> s_len rest <= s_len slice -> lim_inv m slice rest ->
  layer = layer_code ly ->
  (rq = rq' \/ (layer = L_IPV6EXT /\ avail d m < 8 /\ avail d m < rq /\ rq' = 8)) ->
  same_reason (fail_out m layer rq)
    (outcome_of_err (wrap6 (lim_of m)
       (ELen (mkLenError rq' (s_len rest) LsSlice ly (0 + (s_len slice - s_len rest)))))).
Proof.
  intros Ha Hle Hinv Hl Hrq. destruct m as [|r]; cbn [fail_out lim_of wrap6].
  - cbn. exact I.
  - cbn [avail] in *. destruct Hinv as [Hs Ho].
    cbn [outcome_of_err le_add_offset le_set_src Types.le_src Types.le_required Types.le_len
         Types.le_layer Types.le_off src_code].
    cbn [same_reason]. repeat split; try lia; try assumption.
Qed.

(* ---- bookkeeping carried through the chain -------------------------------------- *)
Definition x_inv (x : HdrModel.exts6) : Prop :=
  (x_route x = None -> x_fdest x = None) /\
  (forall f, x_frag x = Some f -> s_len f = 8).

(* read outcome `ro` against the slice decoder's answer `sr`: p bytes were
   consumed and xl bytes of extension headers recorded when the decoder stood at
   pointer offset o *)
Definition post (lim : bool) (p o xl : N) (ro : outcome) (sr : res (HdrModel.exts6 * N * Types.slice)) : Prop :=
  match sr with
  | Ok (x', _, rest') =>
      ro = OOk (p + (s_off rest' - o)) /\ x_inv x' /\ exts6_len x' = xl + (s_off rest' - o) /\ o <= s_off rest'
  | Err e => same_reason ro (outcome_of_err (wrap6 lim e))
  | Bug _ => False
  end.

Lemma post_shift lim p o xl n ro sr : post lim (p + n) (o + n) (xl + n) ro sr -> post lim p o xl ro sr.
Proof.
  unfold post. destruct sr as [[[x' nh'] rest']| |]; auto.
  intros (H1 & H2 & H3 & H4).
  split; [rewrite H1; f_equal; lia|]. split; [exact H2|]. split; lia.
Qed.

(* state of the two walkers *)
Record rel (m : rmode) (d : bytes) (slice rest : Types.slice) : Prop := mk_rel {
  r_bytes : bytes_ok d;
  r_ok : m_ok d m;
  r_data : snd rest = take (avail d m) d;
  r_le : s_len rest <= s_len slice;
  r_lim : lim_inv m slice rest }.

Lemma rel_len m d slice rest : rel m d slice rest -> s_len rest = avail d m.
Proof.
  intros [Hb Hok Hd Hle Hl]. unfold s_len. rewrite Hd. apply len_take_le. now apply avail_le.
Qed.

Lemma rel_rd m d slice rest i : rel m d slice rest -> i < avail d m -> rd (snd rest) i = rd d i.
Proof. intros [Hb Hok Hd Hle Hl] H. rewrite Hd. now apply rd_take. Qed.

(* after a complete header of n bytes *)
Lemma rel_step m d slice rest layer n :
  rel m d slice rest -> n <= avail d m ->
  rel (m_done m layer n) (drop n d) slice (fst rest + n, drop n (snd rest)).
Proof.
  intros R Hn. pose proof (rel_len _ _ _ _ R) as Hl. destruct R as [Hb Hok Hd Hle Hlim].
  split.
  - now apply bytes_ok_drop.
  - now apply m_done_ok.
  - cbn [snd]. rewrite Hd, avail_done by exact Hn. apply drop_take.
  - unfold s_len in *. cbn [snd]. rewrite len_drop. lia.
  - destruct m as [|r]; cbn [lim_inv m_done lr_source lr_off lr_read] in *; [exact I|].
    destruct Hlim as [Hs Ho]. split; [exact Hs|]. unfold s_len in *. cbn [snd]. rewrite len_drop.
    cbn [avail] in *. lia.
Qed.

(* ---- one raw extension header ---------------------------------------------------- *)
Lemma raw_read_form d p m k : m_ok d m ->
  O (ipv6_raw_ext_read (lim_of m) k) (mk_st d p m) =
  if avail d m <? 2 then fail_out m L_IPV6EXT 2
  else match rd d 0, rd d 1 with
       | Some nh, Some hl =>
           if avail d m <? (hl + 1) * 8 then fail_out m L_IPV6EXT (2 + (hl * 8 + 6))
           else O (k nh) (mk_st (drop ((hl + 1) * 8) d) (p + (hl + 1) * 8) (m_done m L_IPV6EXT ((hl + 1) * 8)))
       | _, _ => OBad 0
       end.
Proof.
  intros Hok. unfold ipv6_raw_ext_read. rewrite O_start by exact Hok.
  assert (Hok1 : m_ok d (m_start m L_IPV6EXT)) by (apply m_ok_start; exact Hok).
  assert (Ha1 : avail d (m_start m L_IPV6EXT) = avail d m) by (apply avail_start; exact Hok).
  pose proof (avail_le d m Hok) as Hle.
  rewrite O_read by exact Hok1. rewrite Ha1.
  destruct (avail d m <? 2) eqn:E2; ltb_tac.
  - is_false (2 <=? avail d m). apply m_fail_start.
  - is_true (2 <=? avail d m).
    getb d 0 nh H0. getb d 1 hl H1. rewrite H0, H1.
    rewrite (at_some _ 0 nh) by (rewrite rd_take by lia; exact H0).
    rewrite (at_some _ 1 hl) by (rewrite rd_take by lia; exact H1).
    rewrite m_adv_start1.
    rewrite O_read by (apply m_done_ok; [exact Hok|lia]).
    rewrite avail_done by lia.
    destruct (avail d m <? (hl + 1) * 8) eqn:E; ltb_tac.
    + is_false (hl * 8 + 6 <=? avail d m - 2). apply m_fail_done.
    + is_true (hl * 8 + 6 <=? avail d m - 2). rewrite drop_drop, m_adv_done.
      replace (2 + (hl * 8 + 6)) with ((hl + 1) * 8) by lia.
      replace (p + 2 + (hl * 8 + 6)) with (p + (hl + 1) * 8) by lia.
      reflexivity.
Qed.

Lemma raw_to_header_ok (o : N) (bs : bytes) hl : hl < 256 -> (hl + 1) * 8 <= len bs ->
  raw_ext_to_header (o, take ((hl + 1) * 8) bs) = Ok (o, take ((hl + 1) * 8) bs).
Proof.
  intros Hh Hl. unfold raw_ext_to_header. unfold s_len. cbn [snd]. rewrite len_take_le by lia.
  rewrite subN_ok' by lia. cbn [bind].
  is_false ((hl + 1) * 8 - 2 <? 6). is_false (2046 <? (hl + 1) * 8 - 2).
  replace ((hl + 1) * 8 - 2 + 2) with ((hl + 1) * 8) by lia. rewrite N.mod_mul by lia.
  reflexivity.
Qed.

Lemma raw_step_rel m d p slice rest xl K_r K_s :
  rel m d slice rest ->
  (forall n nh, 8 <= n -> n <= avail d m ->
     post (lim_of m) (p + n) (s_off rest + n) (xl + n)
       (O (K_r nh) (mk_st (drop n d) (p + n) (m_done m L_IPV6EXT n)))
       (K_s (fst rest, take n (snd rest)) (fst rest + n, drop n (snd rest)) nh)) ->
  post (lim_of m) p (s_off rest) xl
    (O (ipv6_raw_ext_read (lim_of m) K_r) (mk_st d p m))
    (let* r := Ipv6Extensions.raw_step slice rest in let '(h, rest', nh) := r in K_s h rest' nh).
Proof.
  intros R HK. pose proof (rel_len _ _ _ _ R) as Hl.
  pose proof R as [Hb Hok Hd Hle Hlim].
  rewrite raw_read_form by exact Hok.
  unfold Ipv6Extensions.raw_step. rewrite subN_ok' by exact Hle. cbn [bind].
  unfold Ipv6RawExtHeaderSlice.from_slice. rewrite Hl.
  destruct (avail d m <? 2) eqn:E2; ltb_tac.
  { is_true (avail d m <? 8). cbn [lerr map_len_err bind le_add_offset Types.le_required Types.le_len
      Types.le_src Types.le_layer Types.le_off post]. rewrite <- Hl.
    eapply fail_rel; eauto; right; cbn [Types.le_required]; repeat split; lia. }
  pose proof (avail_le d m Hok) as Hav.
  getb d 0 nh H0. getb d 1 hl H1. rewrite H0, H1.
  assert (Hhl : hl < 256) by (eapply rd_byte; eauto).
  destruct (avail d m <? 8) eqn:E8; ltb_tac.
  { is_true (avail d m <? (hl + 1) * 8).
    cbn [lerr map_len_err bind le_add_offset Types.le_required Types.le_len
      Types.le_src Types.le_layer Types.le_off post]. rewrite <- Hl.
    eapply fail_rel; eauto; right; cbn [Types.le_required]; repeat split; lia. }
  rewrite (rel_rd _ _ _ _ 1 R) by lia. rewrite H1. cbn [bind].
  destruct (avail d m <? (hl + 1) * 8) eqn:El; ltb_tac.
  { cbn [lerr map_len_err bind le_add_offset Types.le_required Types.le_len
      Types.le_src Types.le_layer Types.le_off post]. rewrite <- Hl.
    eapply fail_rel; eauto; left; cbn [Types.le_required]; lia. }
  rewrite subU_ok by lia. cbn [map_len_err bind]. rewrite drop_0'.
  replace (s_len (fst rest + 0, take ((hl + 1) * 8) (snd rest))) with ((hl + 1) * 8)
    by (unfold s_len in *; cbn [snd]; rewrite len_take_le; lia).
  rewrite idx_from_ok by lia. cbn [bind].
  unfold Ipv6RawExtHeaderSlice.next_header.
  rewrite (rdU_some _ 0 nh) by (cbn [snd]; rewrite rd_take by lia; rewrite (rel_rd _ _ _ _ 0 R) by lia; exact H0).
  cbn [bind]. rewrite raw_to_header_ok by (unfold s_len in *; lia). cbn [bind].
  rewrite N.add_0_r.
  apply post_shift with (n := (hl + 1) * 8). apply HK; lia.
Qed.

(* ---- the fragment header --------------------------------------------------------- *)
Lemma frag_read_form d p m k : m_ok d m ->
  O (ipv6_frag_read (lim_of m) k) (mk_st d p m) =
  if avail d m <? 8 then fail_out m L_IPV6FRAG 8
  else match rd d 0 with
       | Some nh => O (k nh) (mk_st (drop 8 d) (p + 8) (m_done m L_IPV6FRAG 8))
       | None => OBad 0
       end.
Proof.
  intros Hok. unfold ipv6_frag_read. rewrite O_start by exact Hok.
  assert (Hok1 : m_ok d (m_start m L_IPV6FRAG)) by (apply m_ok_start; exact Hok).
  assert (Ha1 : avail d (m_start m L_IPV6FRAG) = avail d m) by (apply avail_start; exact Hok).
  pose proof (avail_le d m Hok) as Hle.
  rewrite O_read by exact Hok1. rewrite Ha1.
  destruct (avail d m <? 8) eqn:E2; ltb_tac.
  - is_false (8 <=? avail d m). apply m_fail_start.
  - is_true (8 <=? avail d m).
    getb d 0 nh H0. rewrite H0.
    rewrite (at_some _ 0 nh) by (rewrite rd_take by lia; exact H0).
    rewrite m_adv_start1. reflexivity.
Qed.

Lemma frag_step_rel m d p slice rest xl K_r K_s :
  rel m d slice rest ->
  (forall nh, 8 <= avail d m ->
     post (lim_of m) (p + 8) (s_off rest + 8) (xl + 8)
       (O (K_r nh) (mk_st (drop 8 d) (p + 8) (m_done m L_IPV6FRAG 8)))
       (K_s (fst rest, take 8 (snd rest)) (fst rest + 8, drop 8 (snd rest)) nh)) ->
  post (lim_of m) p (s_off rest) xl
    (O (ipv6_frag_read (lim_of m) K_r) (mk_st d p m))
    (let* off := subN (s_len slice) (s_len rest) in
     let* sl := map_len_err (fun e => le_add_offset e off) (Ipv6FragmentHeaderSlice.from_slice rest) in
     let* rest' := idx_from rest (s_len sl) in
     let* nh := Ipv6FragmentHeaderSlice.next_header sl in
     K_s sl rest' nh).
Proof.
  intros R HK. pose proof (rel_len _ _ _ _ R) as Hl.
  pose proof R as [Hb Hok Hd Hle Hlim].
  rewrite frag_read_form by exact Hok.
  rewrite subN_ok' by exact Hle. cbn [bind].
  unfold Ipv6FragmentHeaderSlice.from_slice. rewrite Hl.
  destruct (avail d m <? 8) eqn:E8; ltb_tac.
  { cbn [lerr map_len_err bind le_add_offset Types.le_required Types.le_len
      Types.le_src Types.le_layer Types.le_off post]. rewrite <- Hl.
    eapply fail_rel; eauto; left; cbn [Types.le_required]; lia. }
  pose proof (avail_le d m Hok) as Hav.
  getb d 0 nh H0. rewrite H0.
  rewrite subU_ok by lia. cbn [map_len_err bind]. rewrite drop_0'.
  replace (s_len (fst rest + 0, take 8 (snd rest))) with 8
    by (unfold s_len in *; cbn [snd]; rewrite len_take_le; lia).
  rewrite idx_from_ok by lia. cbn [bind].
  unfold Ipv6FragmentHeaderSlice.next_header.
  rewrite (rdU_some _ 0 nh) by (cbn [snd]; rewrite rd_take by lia; rewrite (rel_rd _ _ _ _ 0 R) by lia; exact H0).
  cbn [bind]. rewrite N.add_0_r.
  apply post_shift with (n := 8). apply HK; lia.
Qed.

(* ---- the authentication header ---------------------------------------------------- *)
Lemma auth_read_form d p m k : m_ok d m ->
  O (ip_auth_read (lim_of m) k) (mk_st d p m) =
  if avail d m <? 12 then fail_out m L_AUTH 12
  else match rd d 0, rd d 1 with
       | Some nh, Some pl =>
           if pl <? 1 then OContent (KC CAuthZeroLen)
           else if avail d m <? (pl + 2) * 4 then fail_out m L_AUTH (12 + (pl - 1) * 4)
           else O (k nh) (mk_st (drop ((pl + 2) * 4) d) (p + (pl + 2) * 4) (m_done m L_AUTH ((pl + 2) * 4)))
       | _, _ => OBad 0
       end.
Proof.
  intros Hok. unfold ip_auth_read. rewrite O_start by exact Hok.
  assert (Hok1 : m_ok d (m_start m L_AUTH)) by (apply m_ok_start; exact Hok).
  assert (Ha1 : avail d (m_start m L_AUTH) = avail d m) by (apply avail_start; exact Hok).
  pose proof (avail_le d m Hok) as Hle.
  rewrite O_read by exact Hok1. rewrite Ha1.
  destruct (avail d m <? 12) eqn:E2; ltb_tac.
  - is_false (12 <=? avail d m). apply m_fail_start.
  - is_true (12 <=? avail d m).
    getb d 0 nh H0. getb d 1 pl H1. rewrite H0, H1.
    rewrite (at_some _ 0 nh) by (rewrite rd_take by lia; exact H0).
    rewrite (at_some _ 1 pl) by (rewrite rd_take by lia; exact H1).
    destruct (pl <? 1) eqn:Ep; ltb_tac; [reflexivity|].
    rewrite m_adv_start1.
    rewrite O_read by (apply m_done_ok; [exact Hok|lia]).
    rewrite avail_done by lia.
    destruct (avail d m <? (pl + 2) * 4) eqn:E; ltb_tac.
    + is_false ((pl - 1) * 4 <=? avail d m - 12). apply m_fail_done.
    + is_true ((pl - 1) * 4 <=? avail d m - 12). rewrite drop_drop, m_adv_done.
      replace (12 + (pl - 1) * 4) with ((pl + 2) * 4) by lia.
      replace (p + 12 + (pl - 1) * 4) with (p + (pl + 2) * 4) by lia.
      reflexivity.
Qed.

Lemma auth_to_header_ok (o : N) (bs : bytes) pl : 1 <= pl -> pl < 256 -> (pl + 2) * 4 <= len bs ->
  auth_to_header (o, take ((pl + 2) * 4) bs) = Ok (o, take ((pl + 2) * 4) bs).
Proof.
  intros H1 Hh Hl. unfold auth_to_header. unfold s_len. cbn [snd]. rewrite len_take_le by lia.
  rewrite subN_ok' by lia. cbn [bind].
  replace ((pl + 2) * 4 - 12) with ((pl - 1) * 4) by lia.
  is_false (1016 <? (pl - 1) * 4). rewrite N.mod_mul by lia. reflexivity.
Qed.

Lemma auth_step_rel m d p slice rest xl K_r K_s :
  rel m d slice rest ->
  (forall n nh, 12 <= n -> n <= avail d m ->
     post (lim_of m) (p + n) (s_off rest + n) (xl + n)
       (O (K_r nh) (mk_st (drop n d) (p + n) (m_done m L_AUTH n)))
       (K_s (fst rest, take n (snd rest)) (fst rest + n, drop n (snd rest)) nh)) ->
  post (lim_of m) p (s_off rest) xl
    (O (ip_auth_read (lim_of m) K_r) (mk_st d p m))
    (let* off := subN (s_len slice) (s_len rest) in
     let* sl :=
       match IpAuthHeaderSlice.from_slice rest with
       | Err (ELen e) => Err (ELen (le_add_offset e off))
       | Err (EContent _) => Err (EContent CeIpv6AuthZeroPayloadLen)
       | r => r
       end in
     let* rest' := idx_from rest (s_len sl) in
     let* nh := IpAuthHeaderSlice.next_header sl in
     let* h := auth_to_header sl in
     K_s h rest' nh).
Proof.
  intros R HK. pose proof (rel_len _ _ _ _ R) as Hl.
  pose proof R as [Hb Hok Hd Hle Hlim].
  rewrite auth_read_form by exact Hok.
  rewrite subN_ok' by exact Hle. cbn [bind].
  unfold IpAuthHeaderSlice.from_slice. rewrite Hl.
  destruct (avail d m <? 12) eqn:E8; ltb_tac.
  { cbn [lerr bind le_add_offset Types.le_required Types.le_len
      Types.le_src Types.le_layer Types.le_off post]. rewrite <- Hl.
    eapply fail_rel; eauto; left; cbn [Types.le_required]; lia. }
  pose proof (avail_le d m Hok) as Hav.
  getb d 0 nh H0. getb d 1 pl H1. rewrite H0, H1.
  assert (Hpl : pl < 256) by (eapply rd_byte; eauto).
  rewrite (rdU_some rest 1 pl) by (rewrite (rel_rd _ _ _ _ 1 R) by lia; exact H1). cbn [bind].
  destruct (pl <? 1) eqn:Ep; ltb_tac.
  { cbn [bind post]. destruct (lim_of m); cbn; reflexivity. }
  destruct (avail d m <? (pl + 2) * 4) eqn:El; ltb_tac.
  { cbn [lerr bind le_add_offset Types.le_required Types.le_len
      Types.le_src Types.le_layer Types.le_off post]. rewrite <- Hl.
    eapply fail_rel; eauto; left; cbn [Types.le_required]; lia. }
  rewrite subU_ok by lia. cbn [bind]. rewrite drop_0'.
  replace (s_len (fst rest + 0, take ((pl + 2) * 4) (snd rest))) with ((pl + 2) * 4)
    by (unfold s_len in *; cbn [snd]; rewrite len_take_le; lia).
  rewrite idx_from_ok by lia. cbn [bind].
  unfold IpAuthHeaderSlice.next_header.
  rewrite (rdU_some _ 0 nh) by (cbn [snd]; rewrite rd_take by lia; rewrite (rel_rd _ _ _ _ 0 R) by lia; exact H0).
  cbn [bind]. rewrite auth_to_header_ok by (unfold s_len in *; lia). cbn [bind].
  rewrite N.add_0_r.
  apply post_shift with (n := (pl + 2) * 4). apply HK; lia.
Qed.

(* ---- the loop --------------------------------------------------------------------- *)
Definition slots_of (x : HdrModel.exts6) : slots :=
  mk_slots (HdrModel.is_some (x_hbh x)) (HdrModel.is_some (x_dest x)) (HdrModel.is_some (x_route x))
           (HdrModel.is_some (x_fdest x)) (HdrModel.is_some (x_frag x)) (HdrModel.is_some (x_auth x)).

Definition bn (b : bool) : nat := if b then 0%nat else 1%nat.
Definition free_slots (s : slots) : nat :=
  (bn (s_dest s) + bn (s_route s) + bn (s_final s) + bn (s_frag s) + bn (s_auth s))%nat.

Lemma post_done lim p (rest : Types.slice) x nh d m a :
  x_inv x ->
  post lim p (s_off rest) (exts6_len x) (O (PRet a) (mk_st d p m)) (Ok (x, nh, rest)).
Proof.
  intros Hx. cbn [post]. rewrite O_ret. split; [f_equal; lia|]. split; [exact Hx|]. split; lia.
Qed.

Lemma len_sub_take (o : N) (bs : bytes) n : n <= len bs -> s_len (o, take n bs) = n.
Proof. intros H. unfold s_len. cbn [snd]. now apply len_take_le. Qed.

Lemma length_drop_lt (bs : bytes) n fs : 1 <= n -> n <= len bs -> (length bs < S fs)%nat ->
  (length (drop n bs) < fs)%nat.
Proof. intros H1 H2 H3. unfold drop. rewrite skipn_length. unfold len in *. lia. Qed.

Ltac slots_tac :=
  unfold free_slots, slots_of in *;
  cbn [bn s_hop s_dest s_route s_final s_frag s_auth
       x_hbh x_dest x_route x_fdest x_frag x_auth HdrModel.is_some] in *.

Lemma loop_rel : forall fuel_r fuel_s m d p slice x rest nh,
  rel m d slice rest -> x_inv x ->
  (free_slots (slots_of x) < fuel_r)%nat -> (length (snd rest) < fuel_s)%nat ->
  post (lim_of m) p (s_off rest) (exts6_len x)
    (O (x6_read_loop fuel_r (lim_of m) (slots_of x) nh) (mk_st d p m))
    (Ipv6Extensions.loop fuel_s slice x rest nh).
Proof.
  induction fuel_r as [|fr IH]; intros fuel_s m d p slice x rest nh R Hx Hfr Hfs; [lia|].
  destruct fuel_s as [|fs]; [lia|].
  pose proof (rel_len _ _ _ _ R) as Hl.
  cbn [x6_read_loop Ipv6Extensions.loop].
  change IPV6_HOP_BY_HOP with IPN_HOP_BY_HOP. change IPV6_DEST_OPTIONS with IPN_DEST_OPTIONS.
  change IPV6_ROUTE with IPN_ROUTE. change IPV6_FRAG with IPN_FRAG. change AUTH with IPN_AUTH.
  destruct (nh =? IPN_HOP_BY_HOP).
  { rewrite O_fail. cbn [post]. destruct (lim_of m); cbn; reflexivity. }
  destruct x as [hbh dest route fdest frag auth]. destruct Hx as [Hx1 Hx2]. slots_tac.
  cbn [x_route x_fdest x_frag] in Hx1, Hx2.
  assert (STEP : forall layer n x' nh',
    1 <= n -> n <= avail d m -> x_inv x' ->
    exts6_len x' = exts6_len (mkExts6 hbh dest route fdest frag auth) + n ->
    (free_slots (slots_of x') < fr)%nat ->
    post (lim_of m) (p + n) (s_off rest + n) (exts6_len (mkExts6 hbh dest route fdest frag auth) + n)
      (O (x6_read_loop fr (lim_of m) (slots_of x') nh') (mk_st (drop n d) (p + n) (m_done m layer n)))
      (Ipv6Extensions.loop fs slice x' (fst rest + n, drop n (snd rest)) nh')).
  { intros layer n x' nh' Hn1 Hn2 Hx' Hlen Hfree.
    rewrite <- (lim_of_done m layer n). rewrite <- Hlen.
    apply (IH fs (m_done m layer n) (drop n d) (p + n) slice x' (fst rest + n, drop n (snd rest)) nh').
    - apply rel_step; assumption.
    - exact Hx'.
    - exact Hfree.
    - cbn [snd]. apply length_drop_lt; [exact Hn1| |exact Hfs]. unfold s_len in Hl. lia. }
  destruct (nh =? IPN_DEST_OPTIONS).
  { destruct route as [rt|]; slots_tac.
    - destruct fdest as [fd|]; slots_tac.
      + apply post_done. split; cbn [x_route x_fdest x_frag]; [discriminate|exact Hx2].
      + apply (raw_step_rel m d p slice rest _ _
                 (fun h rest' nh' => Ipv6Extensions.loop fs slice (mkExts6 hbh dest (Some rt) (Some h) frag auth) rest' nh')).
        { exact R. }
        intros n nh' Hn1 Hn2.
        apply (STEP L_IPV6EXT n (mkExts6 hbh dest (Some rt) (Some (fst rest, take n (snd rest))) frag auth) nh');
          try lia.
        * split; cbn [x_route x_fdest x_frag]; [discriminate|exact Hx2].
        * unfold exts6_len. cbn [olen x_hbh x_dest x_route x_fdest x_frag x_auth].
          rewrite len_sub_take by (unfold s_len in Hl; lia). lia.
        * slots_tac. lia.
    - destruct dest as [de|]; slots_tac.
      + apply post_done. split; cbn [x_route x_fdest x_frag]; [exact Hx1|exact Hx2].
      + apply (raw_step_rel m d p slice rest _ _
                 (fun h rest' nh' => Ipv6Extensions.loop fs slice (mkExts6 hbh (Some h) None fdest frag auth) rest' nh')).
        { exact R. }
        intros n nh' Hn1 Hn2.
        apply (STEP L_IPV6EXT n (mkExts6 hbh (Some (fst rest, take n (snd rest))) None fdest frag auth) nh');
          try lia.
        * split; cbn [x_route x_fdest x_frag]; [exact Hx1|exact Hx2].
        * unfold exts6_len. cbn [olen x_hbh x_dest x_route x_fdest x_frag x_auth].
          rewrite len_sub_take by (unfold s_len in Hl; lia). lia.
        * slots_tac. lia. }
  destruct (nh =? IPN_ROUTE).
  { destruct route as [rt|]; slots_tac.
    - apply post_done. split; cbn [x_route x_fdest x_frag]; [discriminate|exact Hx2].
    - rewrite (Hx1 eq_refl) in *. slots_tac.
      apply (raw_step_rel m d p slice rest _ _
               (fun h rest' nh' => Ipv6Extensions.loop fs slice (mkExts6 hbh dest (Some h) None frag auth) rest' nh')).
      { exact R. }
      intros n nh' Hn1 Hn2.
      apply (STEP L_IPV6EXT n (mkExts6 hbh dest (Some (fst rest, take n (snd rest))) None frag auth) nh');
        try lia.
      * split; cbn [x_route x_fdest x_frag]; [discriminate|exact Hx2].
      * unfold exts6_len. cbn [olen x_hbh x_dest x_route x_fdest x_frag x_auth].
        rewrite len_sub_take by (unfold s_len in Hl; lia). lia.
      * slots_tac. lia. }
  destruct (nh =? IPN_FRAG).
  { destruct frag as [fg|]; slots_tac.
    - apply post_done. split; cbn [x_route x_fdest x_frag]; [exact Hx1|exact Hx2].
    - apply (frag_step_rel m d p slice rest _ _
               (fun sl rest' nh' => Ipv6Extensions.loop fs slice (mkExts6 hbh dest route fdest (Some sl) auth) rest' nh')).
      { exact R. }
      intros nh' Hn2.
      apply (STEP L_IPV6FRAG 8 (mkExts6 hbh dest route fdest (Some (fst rest, take 8 (snd rest))) auth) nh');
        try lia.
      * split; cbn [x_route x_fdest x_frag]; [exact Hx1|]. intros f Hf. injection Hf as <-.
        apply len_sub_take. unfold s_len in Hl. lia.
      * unfold exts6_len. cbn [olen x_hbh x_dest x_route x_fdest x_frag x_auth].
        rewrite len_sub_take by (unfold s_len in Hl; lia). lia.
      * slots_tac. lia. }
  destruct (nh =? IPN_AUTH).
  { destruct auth as [au|]; slots_tac.
    - apply post_done. split; cbn [x_route x_fdest x_frag]; [exact Hx1|exact Hx2].
    - apply (auth_step_rel m d p slice rest _ _
               (fun h rest' nh' => Ipv6Extensions.loop fs slice (mkExts6 hbh dest route fdest frag (Some h)) rest' nh')).
      { exact R. }
      intros n nh' Hn1 Hn2.
      apply (STEP L_AUTH n (mkExts6 hbh dest route fdest frag (Some (fst rest, take n (snd rest)))) nh');
        try lia.
      * split; cbn [x_route x_fdest x_frag]; [exact Hx1|exact Hx2].
      * unfold exts6_len. cbn [olen x_hbh x_dest x_route x_fdest x_frag x_auth].
        rewrite len_sub_take by (unfold s_len in Hl; lia). lia.
      * slots_tac. lia. }
  apply post_done. split; cbn [x_route x_fdest x_frag]; [exact Hx1|exact Hx2].
Qed.

(* ---- Ipv6Extensions::read / read_limited against Ipv6Extensions::from_slice ------ *)
Lemma prelude_eq slice (K : HdrModel.exts6 -> Types.slice -> N -> res (HdrModel.exts6 * N * Types.slice)) :
  (let* st := (let* sl := Ipv6RawExtHeaderSlice.from_slice slice in
               let* rest := idx_from slice (s_len sl) in
               let* nh := Ipv6RawExtHeaderSlice.next_header sl in
               let* h := raw_ext_to_header sl in
               Ok (mkExts6 (Some h) None None None None None, rest, nh)) in
   let '(result, rest, nh) := st in K result rest nh) =
  (let* r := Ipv6Extensions.raw_step slice slice in
   let '(h, rest', nh) := r in K (mkExts6 (Some h) None None None None None) rest' nh).
Proof.
  unfold Ipv6Extensions.raw_step. rewrite subN_ok' by lia. cbn [bind]. rewrite N.sub_diag.
  destruct (Ipv6RawExtHeaderSlice.from_slice slice) as [sl|[l|c]|b]; cbn [map_len_err bind]; try reflexivity.
  - destruct (idx_from slice (s_len sl)); cbn [bind]; try reflexivity.
    destruct (Ipv6RawExtHeaderSlice.next_header sl); cbn [bind]; try reflexivity.
    destruct (raw_ext_to_header sl); cbn [bind]; reflexivity.
  - destruct l as [a b c d e]. unfold le_add_offset.
    cbn [Types.le_required Types.le_len Types.le_src Types.le_layer Types.le_off].
    now rewrite N.add_0_r.
Qed.

Lemma x6_rel m d p slice start :
  rel m d slice slice ->
  post (lim_of m) p (s_off slice) 0
    (O (x6_read (lim_of m) start) (mk_st d p m))
    (Ipv6Extensions.from_slice start slice).
Proof.
  intros R. pose proof (rel_len _ _ _ _ R) as Hl.
  unfold x6_read, Ipv6Extensions.from_slice.
  change IPV6_HOP_BY_HOP with IPN_HOP_BY_HOP.
  destruct (IPN_HOP_BY_HOP =? start).
  - rewrite (prelude_eq slice (fun result rest nh =>
               Ipv6Extensions.loop (S (length (snd slice))) slice result rest nh)).
    apply (raw_step_rel m d p slice slice 0 _
             (fun h rest' nh' => Ipv6Extensions.loop (S (length (snd slice))) slice
                                   (mkExts6 (Some h) None None None None None) rest' nh')).
    { exact R. }
    intros n nh' Hn1 Hn2.
    rewrite <- (lim_of_done m L_IPV6EXT n).
    replace (0 + n) with (exts6_len (mkExts6 (Some (fst slice, take n (snd slice))) None None None None None)).
    2:{ unfold exts6_len. cbn [olen x_hbh x_dest x_route x_fdest x_frag x_auth].
        rewrite len_sub_take by (unfold s_len in Hl; lia). lia. }
    apply (loop_rel X6_READ_FUEL (S (length (snd slice))) (m_done m L_IPV6EXT n) (drop n d) (p + n) slice
             (mkExts6 (Some (fst slice, take n (snd slice))) None None None None None)
             (fst slice + n, drop n (snd slice)) nh').
    + apply rel_step; assumption.
    + split; cbn [x_route x_fdest x_frag]; [reflexivity|discriminate].
    + unfold X6_READ_FUEL, exts6_empty. slots_tac. lia.
    + cbn [snd]. apply length_drop_lt; [lia| |lia]. unfold s_len in Hl. lia.
  - cbn [bind].
    apply (loop_rel X6_READ_FUEL (S (length (snd slice))) m d p slice exts6_empty slice start).
    + exact R.
    + split; cbn [x_route x_fdest x_frag exts6_empty]; [reflexivity|discriminate].
    + unfold X6_READ_FUEL, exts6_empty. slots_tac. lia.
    + lia.
Qed.

Lemma rel_plain bs : bytes_ok bs -> rel MPlain bs (mk_slice bs) (mk_slice bs).
Proof.
  intros Hb. split; cbn [m_ok avail lim_inv mk_slice snd]; auto.
  - symmetry. apply take_all. lia.
  - lia.
Qed.

Theorem read_eq_slice_ipv6_exts start bs : bytes_ok bs ->
  same_reason (read_outcome (HIpv6Exts start) bs) (slice_outcome (HIpv6Exts start) bs).
Proof.
  intros Hb. rewrite read_outcome_O by discriminate. unfold slice_outcome, read_prog.
  pose proof (x6_rel MPlain bs 0 (mk_slice bs) start (rel_plain bs Hb)) as H.
  cbn [lim_of] in H. unfold post in H.
  destruct (Ipv6Extensions.from_slice start (mk_slice bs)) as [[[x' nh'] rest']|e|b].
  - destruct H as (H1 & _ & H3 & _). rewrite H1. cbn [outcome_of_res fst same_reason].
    rewrite H3. reflexivity.
  - cbn [outcome_of_res]. destruct e; exact H.
  - elim H.
Qed.
