(* Equiv/HdrMismatch.v -- audit follow-up (C06), group 1, struct family: what PacketHeaders::from_ether_type
   answers when the ether type says IPv4 / IPv6 and the data are too short for the fixed header or carry
   another version nibble (the counterpart of Equiv/Proofs.ethertype_mismatch, which is about SlicedPacket):
   the same four answers, so C06_headers_ethertype_eq_ip (matching nibble) and this cover every input. *)
From EP Require Import Base.Bytes Parse.Types Parse.Slices Parse.Cursor Parse.View Parse.HdrModel
  Equiv.Model Equiv.Proofs Equiv.ShiftProofs Equiv.HdrShift.
From Coq Require Import ZArith Lia ZifyN ZifyBool.
Import SlicedPacketCursor.
Local Open Scope N_scope.

Theorem headers_ethertype_mismatch bs :
  (len bs < 20 ->
   PacketHeaders.from_ether_type ET_IPV4 bs =
   Err (ELen (mkLenError 20 (len bs) LsSlice LyIpv4Header 0))) /\
  (len bs < 40 ->
   PacketHeaders.from_ether_type ET_IPV6 bs =
   Err (ELen (mkLenError 40 (len bs) LsSlice LyIpv6Header 0))) /\
  (forall b rest, bs = b :: rest -> 20 <= len bs -> N.shiftr b 4 <> 4 ->
   PacketHeaders.from_ether_type ET_IPV4 bs = Err (EContent (CeIpv4Version (N.shiftr b 4)))) /\
  (forall b rest, bs = b :: rest -> 40 <= len bs -> N.shiftr b 4 <> 6 ->
   PacketHeaders.from_ether_type ET_IPV6 bs = Err (EContent (CeIpv6Version (N.shiftr b 4)))).
Proof.
  repeat split.
  - intros H. rewrite from_ether_type_v4_tail.
    unfold IpHeaders.from_ipv4_slice, Ipv4Header.from_slice, Ipv4HeaderSlice.from_slice.
    change (s_len (mk_slice bs)) with (len bs).
    destruct (len bs <? 20) eqn:E; [|apply N.ltb_ge in E; lia]. cbn [bind lerr ip_tail].
    apply add_offset_self.
  - intros H. rewrite from_ether_type_v6_tail.
    unfold IpHeaders.from_ipv6_slice, Ipv6Header.from_slice, Ipv6HeaderSlice.from_slice.
    change (s_len (mk_slice bs)) with (len bs).
    destruct (len bs <? 40) eqn:E; [|apply N.ltb_ge in E; lia]. cbn [bind lerr ip_tail].
    apply add_offset_self.
  - intros b rest -> H Hv. rewrite from_ether_type_v4_tail.
    unfold IpHeaders.from_ipv4_slice, Ipv4Header.from_slice, Ipv4HeaderSlice.from_slice.
    change (s_len (mk_slice (b :: rest))) with (len (b :: rest)).
    destruct (len (b :: rest) <? 20) eqn:E; [apply N.ltb_lt in E; lia|].
    change (rdU (mk_slice (b :: rest)) 0) with (@Ok N b). cbn [bind].
    destruct (N.shiftr b 4 =? 4) eqn:E4; [apply N.eqb_eq in E4; lia|]. reflexivity.
  - intros b rest -> H Hv. rewrite from_ether_type_v6_tail.
    unfold IpHeaders.from_ipv6_slice, Ipv6Header.from_slice, Ipv6HeaderSlice.from_slice.
    change (s_len (mk_slice (b :: rest))) with (len (b :: rest)).
    destruct (len (b :: rest) <? 40) eqn:E; [apply N.ltb_lt in E; lia|].
    change (rdU (mk_slice (b :: rest)) 0) with (@Ok N b). cbn [bind].
    destruct (N.shiftr b 4 =? 6) eqn:E6; [apply N.eqb_eq in E6; lia|]. reflexivity.
Qed.
