(* Equiv/ReadAll.v -- C06 group 3, all 17 header types: read(Cursor(bs)) and
   from_slice(bs) give the same header (decoded from the same n bytes, cursor
   advanced by exactly n) or reject for the same reason; the three decidable
   classes outside of which this holds, each with a witness. *)
From EP Require Import Base.Bytes Parse.Types Parse.Slices Parse.Cursor Parse.HdrModel Parse.HdrView
  IoFault.Spec IoFault.Model IoFault.Proofs Equiv.Model Equiv.ModelRead Equiv.Proofs Equiv.ReadProofs
  Equiv.ReadBase Equiv.ReadSimple Equiv.ReadChain Equiv.ReadIpHeaders Equiv.ReadTotal.
From Coq Require Import ZArith Lia ZifyN ZifyBool.

Local Open Scope N_scope.

Theorem read_eq_slice_all t bs : bytes_ok bs -> cut_fixed t bs = false ->
  (t = HIpHeaders -> announced_missing bs = false /\ F15 bs = false) ->
  same_reason (read_outcome t bs) (slice_outcome t bs).
Proof.
  intros Hb Hc Hi. destruct t.
  - apply eq_same_reason, read_eq_slice_ethernet2.
  - apply eq_same_reason, read_eq_slice_single_vlan.
  - apply eq_same_reason, read_eq_slice_linux_sll.
  - apply eq_same_reason, read_eq_slice_macsec, Hb.
  - apply eq_same_reason, read_eq_slice_ipv4, Hc.
  - apply eq_same_reason, read_eq_slice_ipv6, Hc.
  - apply eq_same_reason, read_eq_slice_ip_auth.
  - apply eq_same_reason, read_eq_slice_ipv6_raw_ext.
  - apply eq_same_reason, read_eq_slice_ipv6_frag.
  - apply eq_same_reason, read_eq_slice_arp.
  - apply eq_same_reason, read_eq_slice_tcp, Hb.
  - apply eq_same_reason, read_eq_slice_udp.
  - apply eq_same_reason, read_eq_slice_icmpv4.
  - apply eq_same_reason, read_eq_slice_icmpv6.
  - apply eq_same_reason, read_eq_slice_ipv4_exts, Hb.
  - apply read_eq_slice_ipv6_exts, Hb.
  - destruct (Hi eq_refl) as [Ha HF]. now apply read_eq_slice_ip_headers.
Qed.

(* exact equality of the outcomes for the 15 types without a LimitedReader / loop *)
Theorem read_eq_slice_exact t bs : bytes_ok bs -> cut_fixed t bs = false ->
  match t with HIpv6Exts _ | HIpHeaders => True | _ => read_outcome t bs = slice_outcome t bs end.
Proof.
  intros Hb Hc. destruct t; try exact I.
  - apply read_eq_slice_ethernet2.
  - apply read_eq_slice_single_vlan.
  - apply read_eq_slice_linux_sll.
  - apply read_eq_slice_macsec, Hb.
  - apply read_eq_slice_ipv4, Hc.
  - apply read_eq_slice_ipv6, Hc.
  - apply read_eq_slice_ip_auth.
  - apply read_eq_slice_ipv6_raw_ext.
  - apply read_eq_slice_ipv6_frag.
  - apply read_eq_slice_arp.
  - apply read_eq_slice_tcp, Hb.
  - apply read_eq_slice_udp.
  - apply read_eq_slice_icmpv4.
  - apply read_eq_slice_icmpv6.
  - apply read_eq_slice_ipv4_exts, Hb.
Qed.

(* a successful read consumed exactly the header: the Cursor stands behind the
   n bytes from_slice decoded the header from *)
Corollary read_ok_consumes t bs n : bytes_ok bs -> cut_fixed t bs = false ->
  (t = HIpHeaders -> announced_missing bs = false /\ F15 bs = false) ->
  read_outcome t bs = OOk n -> slice_outcome t bs = OOk n.
Proof.
  intros Hb Hc Hi E. pose proof (read_eq_slice_all t bs Hb Hc Hi) as H. rewrite E in H.
  destruct (slice_outcome t bs); cbn in H; try contradiction. now subst.
Qed.

(* ---- the classes are needed --------------------------------------------------- *)
(* inside cut_fixed: the reader has already rejected, from_slice says "too short" *)
Lemma read_cut_fixed_refuted :
  (cut_fixed HIpv4 [48] = true /\ read_outcome HIpv4 [48] = OContent (KC CVersion) /\
   slice_outcome HIpv4 [48] = OEof) /\
  (cut_fixed HIpv6 [64] = true /\ read_outcome HIpv6 [64] = OContent (KC CVersion) /\
   slice_outcome HIpv6 [64] = OEof) /\
  (cut_fixed HIpHeaders [64] = true /\ read_outcome HIpHeaders [64] = OContent (KC CIhl) /\
   slice_outcome HIpHeaders [64] = OEof).
Proof. repeat split; vm_compute; reflexivity. Qed.

(* IPv4 header announcing 28 bytes, 20 present: read decodes the header,
   from_slice wants the announced packet *)
Definition missing_witness : bytes := [69;0;0;28; 0;0;0;0; 64;17;0;0; 1;2;3;4; 5;6;7;8].
Lemma read_announced_missing_refuted :
  bytes_ok missing_witness /\ cut_fixed HIpHeaders missing_witness = false /\
  F15 missing_witness = false /\ announced_missing missing_witness = true /\
  read_outcome HIpHeaders missing_witness = OOk 20 /\ slice_outcome HIpHeaders missing_witness = OEof.
Proof.
  split; [apply bytes_okb_spec; vm_compute; reflexivity|]. repeat split; vm_compute; reflexivity.
Qed.

(* the one place where same_reason is weaker than equality: a raw extension header
   cut by the IPv6 payload length (6 bytes left): the LimitedReader asks for 2+6,
   then reports required_len 8 = 2 + 6 -- here equal; with 1 byte left the reader
   says required_len 2, the slice decoder 8 *)
Definition req_witness : bytes :=
  [96;0;0;0;0;1;60;64] ++ repeat 0 32 ++ [17].
Lemma read_required_len_differs :
  read_outcome HIpHeaders req_witness = OLen 2 1 LS_IPV6_PAYLOAD L_IPV6EXT 40 /\
  slice_outcome HIpHeaders req_witness = OLen 8 1 LS_IPV6_PAYLOAD L_IPV6EXT 40.
Proof. split; vm_compute; reflexivity. Qed.
