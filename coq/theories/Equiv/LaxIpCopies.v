(* Equiv/LaxIpCopies.v -- C06 group 2, the lax struct trio: the version-dispatching
   IpHeaders::from_slice_lax (Parse/HdrLaxModel.v) against the version-specific copies
   IpHeaders::from_ipv4_slice_lax / from_ipv6_slice_lax (Equiv/ModelLaxIp.v).
   Plain equality, every non-empty byte string, NO exclusion: the dispatching copy checks
   the 20 fixed bytes before it looks at the IHL (the F11 order difference is between the
   slice trios IpSlice / LaxIpSlice and their siblings, not here). *)
From EP Require Import Base.Bytes Parse.Types Parse.Slices Parse.Cursor Parse.View Parse.LaxSlices
  Parse.HdrModel Parse.HdrLaxModel Equiv.Model Equiv.Proofs Equiv.ModelLaxIp.
From Coq Require Import ZArith Lia ZifyN ZifyBool.

Local Open Scope N_scope.

(* from_ipv4_slice_lax hands back a bare ip_auth::HeaderSliceError; from_slice_lax the same
   error embedded into ip_exts::HeadersSliceError together with Layer::IpAuthHeader *)
Definition lax_hstop4 (o : option slice_error) : option stop_error :=
  option_map (fun e => (e, LyIpAuthHeader)) o.

Definition lax_ip_headers_specific (s : slice) (b : N)
  : res (ip_headers * lax_ip_payload * option stop_error) :=
  if N.shiftr b 4 =? 4 then
    rmap (fun r => (fst (fst r), snd (fst r), lax_hstop4 (snd r)))
         (LaxIpHeadersSpecific.from_ipv4_slice_lax s)
  else if N.shiftr b 4 =? 6 then LaxIpHeadersSpecific.from_ipv6_slice_lax s
  else Err (EContent (CeIpUnsupportedVersion (N.shiftr b 4))).

Lemma v4_tail_eq header hl (t : res (len_source * slice * bool)) :
  (let* t0 := t in
   let '(src, rest, incomplete) := t0 in
   let* proto := Ipv4HeaderSlice.protocol header in
   let* x := LaxIpv4Extensions.from_slice_lax proto rest in
   let '(auth, next_protocol, rest', stop) := x in
   let stop' :=
     match stop with
     | Some (ELen l) => Some (ELen (le_set_src (le_add_offset l hl) src), LyIpAuthHeader)
     | Some (EContent c) => Some (EContent c, LyIpAuthHeader)
     | None => None
     end in
   let* fragmented := Ipv4HeaderSlice.is_fragmenting_payload header in
   Ok (IhV4 header auth, mkLaxIpp incomplete next_protocol fragmented src rest', stop')) =
  rmap (fun r : ip_headers * lax_ip_payload * option slice_error =>
          (fst (fst r), snd (fst r), lax_hstop4 (snd r)))
  (let* t0 := t in
   let '(src, rest, incomplete) := t0 in
   let* proto := Ipv4HeaderSlice.protocol header in
   let* x := LaxIpv4Extensions.from_slice_lax proto rest in
   let '(auth, next_protocol, payload, stop) := x in
   let stop' :=
     match stop with
     | Some (ELen l) => Some (ELen (le_set_src (le_add_offset l hl) src))
     | o => o
     end in
   let* fragmented := Ipv4HeaderSlice.is_fragmenting_payload header in
   Ok (IhV4 header auth, mkLaxIpp incomplete next_protocol fragmented src payload, stop')).
Proof.
  destruct t as [[[src rest'] inc]|e|bg]; cbn [bind rmap]; [|reflexivity|reflexivity].
  destruct (Ipv4HeaderSlice.protocol header) as [proto|e|bg]; cbn [bind rmap]; [|reflexivity|reflexivity].
  destruct (LaxIpv4Extensions.from_slice_lax proto rest') as [[[[a nh] r'] st]|e|bg]; cbn [bind rmap];
    [|reflexivity|reflexivity].
  destruct (Ipv4HeaderSlice.is_fragmenting_payload header) as [fr|e|bg]; cbn [bind rmap fst snd];
    [|reflexivity|reflexivity].
  destruct st as [[l|c]|]; reflexivity.
Qed.

Theorem lax_ip_headers_dispatch o b rest :
  LaxIpHeaders.from_slice_lax (o, b :: rest) = lax_ip_headers_specific (o, b :: rest) b.
Proof.
  set (s := (o, b :: rest)).
  unfold LaxIpHeaders.from_slice_lax, lax_ip_headers_specific. fold s.
  unfold s at 1. rewrite s_len_cons_nz. fold s.
  change (rd (snd s) 0) with (Some b). cbn [bind].
  destruct (N.shiftr b 4 =? 4) eqn:E4.
  - unfold LaxIpHeadersSpecific.from_ipv4_slice_lax, Ipv4Header.from_slice, Ipv4HeaderSlice.from_slice.
    destruct (s_len s <? 20) eqn:E20; [reflexivity|].
    change (rdU s 0) with (@Ok N b). cbn [bind]. rewrite E4. cbn [negb].
    destruct (N.land b 15 <? 5) eqn:Eihl; [reflexivity|].
    set (hl := N.land b 15 * 4) in *.
    destruct (s_len s <? hl) eqn:Ehl; [reflexivity|].
    assert (Eh : exists header, subU s 0 hl = Ok header)
      by (unfold subU; destruct (0 + hl <=? s_len s) eqn:X; [eauto|lia]).
    destruct Eh as (header & Eh). rewrite Eh. cbn [bind rmap].
    pose proof (subU_len _ _ _ _ Eh) as Lh. rewrite Lh.
    rewrite idx_from_ok by lia. cbn [bind].
    destruct (Ipv4HeaderSlice.total_len header) as [tl|e|bg]; cbn [bind rmap]; [|reflexivity|reflexivity].
    cbv zeta. rewrite ?Lh.
    match goal with |- context [subU ?h 0 _] => set (hr := h) end.
    assert (Lr : s_len hr = s_len s - hl) by (unfold hr, s_len; cbn [snd]; now rewrite len_drop).
    assert (SEL :
      (if tl <? hl then let* n := subN (s_len s) hl in let* p := subU s hl n in Ok (LsSlice, p, false)
       else if s_len s <? tl
            then let* n := subN (s_len s) hl in let* p := subU s hl n in Ok (LsSlice, p, true)
            else let* n := subN tl hl in let* p := subU s hl n in Ok (LsIpv4HeaderTotalLen, p, false)) =
      (if tl <? hl then Ok (LsSlice, hr, false)
       else let* d := subN tl hl in
            if s_len hr <? d then Ok (LsSlice, hr, true)
            else let* p := subU hr 0 d in Ok (LsIpv4HeaderTotalLen, p, false))).
    { rewrite Lr.
      destruct (tl <? hl) eqn:Etl.
      - rewrite subN_ok' by lia. cbn [bind]. rewrite subU_all by lia. reflexivity.
      - rewrite (subN_ok' tl hl) by lia. cbn [bind].
        destruct (s_len s <? tl) eqn:Es.
        + destruct (s_len s - hl <? tl - hl) eqn:Es'; [|lia].
          rewrite subN_ok' by lia. cbn [bind]. rewrite subU_all by lia. reflexivity.
        + destruct (s_len s - hl <? tl - hl) eqn:Es'; [lia|].
          unfold hr. rewrite subU_rest_eq by lia. reflexivity. }
    rewrite SEL. apply v4_tail_eq.
  - destruct (N.shiftr b 4 =? 6) eqn:E6; [|reflexivity].
    unfold LaxIpHeadersSpecific.from_ipv6_slice_lax, Ipv6Header.from_slice, Ipv6HeaderSlice.from_slice.
    destruct (s_len s <? 40) eqn:E40; [reflexivity|].
    change (rdU s 0) with (@Ok N b). cbn [bind]. rewrite E6. cbn [negb].
    assert (Eh : exists header, subU s 0 40 = Ok header)
      by (unfold subU; destruct (0 + 40 <=? s_len s) eqn:X; [eauto|lia]).
    destruct Eh as (header & Eh). rewrite Eh. cbn [bind].
    rewrite idx_from_ok by lia. cbn [bind].
    destruct (Ipv6HeaderSlice.payload_length header) as [pl|e|bg]; cbn [bind]; [|reflexivity|reflexivity].
    match goal with |- context [subU ?h 0 pl] => set (hr := h) end.
    assert (Lr : s_len hr = s_len s - 40) by (unfold hr, s_len; cbn [snd]; now rewrite len_drop).
    assert (SEL :
      (if (0 =? pl) && (40 <? s_len s)
       then let* n := subN (s_len s) 40 in let* p := subU s 40 n in Ok (p, LsSlice, false)
       else let* d := subN (s_len s) 40 in
            if d <? pl then let* n := subN (s_len s) 40 in let* p := subU s 40 n in Ok (p, LsSlice, true)
            else let* p := subU s 40 pl in Ok (p, LsIpv6HeaderPayloadLen, false)) =
      (if (pl =? 0) && negb (s_len hr =? 0) then Ok (hr, LsSlice, false)
       else if s_len hr <? pl then Ok (hr, LsSlice, true)
       else let* p := subU hr 0 pl in Ok (p, LsIpv6HeaderPayloadLen, false))).
    { rewrite Lr. rewrite (subN_ok' (s_len s) 40) by lia. cbn [bind].
      rewrite subU_all by lia.
      destruct ((0 =? pl) && (40 <? s_len s)) eqn:Z.
      - destruct ((pl =? 0) && negb (s_len s - 40 =? 0)) eqn:Z'; [reflexivity|lia].
      - destruct ((pl =? 0) && negb (s_len s - 40 =? 0)) eqn:Z'; [lia|].
        destruct (s_len s - 40 <? pl) eqn:Es; [reflexivity|].
        unfold hr. rewrite subU_rest_eq by lia. reflexivity. }
    rewrite SEL. reflexivity.
Qed.

(* an empty slice: nothing selects a copy; the dispatching copy says (1, 0, IpHeader) *)
Lemma lax_ip_headers_empty o :
  LaxIpHeaders.from_slice_lax (o, []) = Err (ELen (mkLenError 1 0 LsSlice LyIpHeader 0)).
Proof. reflexivity. Qed.

(* the Bug arm of the error conversion in from_ipv4_slice_lax is dead *)
Lemma v4_header_err_shape s c :
  Ipv4Header.from_slice s = Err (EContent c) -> (exists v, c = CeIpv4Version v) \/ (exists v, c = CeIpv4Ihl v).
Proof.
  unfold Ipv4Header.from_slice, Ipv4HeaderSlice.from_slice, lerr, idx_from, rdU, subU.
  destruct (s_len s <? 20); [discriminate|].
  destruct (rd (snd s) 0) as [v|]; cbn [bind]; [|discriminate].
  destruct (negb (N.shiftr v 4 =? 4)); [intros H; injection H as <-; eauto|].
  destruct (N.land v 15 <? 5); [intros H; injection H as <-; eauto|].
  destruct (s_len s <? N.land v 15 * 4); [discriminate|].
  destruct (0 + N.land v 15 * 4 <=? s_len s); cbn [bind]; [|discriminate].
  match goal with |- context [if ?c then _ else _] => destruct c end; discriminate.
Qed.
