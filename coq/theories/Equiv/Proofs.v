(* Equiv/Proofs.v -- C06, groups 1b and 2: the version-dispatching IP decoders
   against the version-specific ones (three families), and
   SlicedPacket::from_ether_type(IPv4 | IPv6) against SlicedPacket::from_ip. *)
From EP Require Import Base.Bytes Parse.Types Parse.Slices Parse.Cursor Parse.View
  Parse.HdrModel Parse.LaxSlices Equiv.Model.
From Coq Require Import ZArith Lia ZifyN ZifyBool.
Import SlicedPacketCursor.

Local Open Scope N_scope.

(* ---- basic facts ---------------------------------------------------------- *)
Lemma subU_len s k n h : subU s k n = Ok h -> s_len h = n.
Proof.
  unfold subU. destruct (k + n <=? s_len s) eqn:E; [|discriminate].
  intros H. injection H as <-. unfold s_len in *. cbn [snd].
  rewrite len_take, len_drop. apply N.min_l. lia.
Qed.

Lemma subU_off s k n h : subU s k n = Ok h -> s_off h = s_off s + k.
Proof.
  unfold subU. destruct (k + n <=? s_len s); [|discriminate].
  intros H. injection H as <-. reflexivity.
Qed.

Lemma same_answer_refl {A} (r : res A) : same_answer r r.
Proof. destruct r; cbn; reflexivity. Qed.

Lemma same_answer_rmap {A B} (f : A -> B) (r : res A) :
  same_answer (let* v := r in Ok (f v)) (rmap f r).
Proof. destruct r; cbn; reflexivity. Qed.

Lemma F11_false_v4 o b rest :
  F11 (b :: rest) = false -> N.shiftr b 4 =? 4 = true -> 20 <= s_len (o, b :: rest).
Proof.
  unfold F11, s_len. cbn [snd]. intros H E. rewrite E in H. cbn [andb] in H. lia.
Qed.

Lemma s_len_cons_nz o (b : N) rest : (s_len (o, b :: rest) =? 0) = false.
Proof. unfold s_len. cbn [snd]. rewrite len_cons. lia. Qed.

Lemma rdU_head o b rest : rdU (o, b :: rest) 0 = Ok b.
Proof. reflexivity. Qed.

(* ---- group 2, strict slice trio ------------------------------------------ *)
(* IpSlice::from_slice = the decoder its first nibble selects *)
Definition ip_slice_specific (s : slice) (b : N) : res ip_slice :=
  if N.shiftr b 4 =? 4 then rmap IpV4 (Ipv4Slice.from_slice s)
  else if N.shiftr b 4 =? 6 then rmap IpV6 (Ipv6Slice.from_slice s)
  else Err (EContent (CeIpUnsupportedVersion (N.shiftr b 4))).

Lemma ip_slice_dispatch o b rest :
  F11 (b :: rest) = false ->
  same_answer (IpSlice.from_slice (o, b :: rest)) (ip_slice_specific (o, b :: rest) b).
Proof.
  intros HF. set (s := (o, b :: rest)).
  unfold IpSlice.from_slice, ip_slice_specific. fold s.
  unfold s at 1. rewrite s_len_cons_nz. fold s.
  change (rdU s 0) with (@Ok N b). cbn [bind].
  destruct (N.shiftr b 4 =? 4) eqn:E4.
  - pose proof (F11_false_v4 o b rest HF E4) as L20. fold s in L20.
    unfold Ipv4Slice.from_slice, Ipv4HeaderSlice.from_slice.
    destruct (s_len s <? 20) eqn:E20; [lia|].
    change (rdU s 0) with (@Ok N b). cbn [bind]. rewrite E4. cbn [negb].
    destruct (N.land b 15 <? 5) eqn:Eihl; [cbn; reflexivity|].
    destruct (s_len s <? N.land b 15 * 4) eqn:Ehl; [cbn; reflexivity|].
    destruct (subU s 0 (N.land b 15 * 4)) as [header| |] eqn:Eh; cbn [bind rmap]; [|reflexivity|reflexivity].
    rewrite (subU_len _ _ _ _ Eh).
    destruct (Ipv4HeaderSlice.total_len header) as [tl| |]; cbn [bind rmap]; [|apply same_answer_refl|reflexivity].
    destruct (tl <? N.land b 15 * 4); [cbn; reflexivity|].
    destruct (s_len s <? tl); [cbn; reflexivity|].
    destruct (subN tl (N.land b 15 * 4)); cbn [bind rmap]; [|apply same_answer_refl|reflexivity].
    destruct (subU s (N.land b 15 * 4) a); cbn [bind rmap]; [|apply same_answer_refl|reflexivity].
    apply same_answer_rmap.
  - destruct (N.shiftr b 4 =? 6) eqn:E6; [|cbn; reflexivity].
    unfold Ipv6Slice.from_slice, Ipv6HeaderSlice.from_slice.
    destruct (s_len s <? 40) eqn:E40; [cbn; reflexivity|].
    change (rdU s 0) with (@Ok N b). cbn [bind]. rewrite E6. cbn [negb].
    destruct (subU s 0 40); cbn [bind rmap]; [|reflexivity|reflexivity].
    apply same_answer_rmap.
Qed.

(* the class is needed: inside it the two answers differ *)
Lemma ip_slice_dispatch_refuted :
  exists bs, F11 bs = true /\
    match bs with
    | b :: _ => ~ same_answer (IpSlice.from_slice (0, bs)) (ip_slice_specific (0, bs) b)
    | [] => False
    end.
Proof.
  exists [71; 0; 0; 0; 0; 0]. split; [vm_compute; reflexivity|].
  vm_compute. intros H. discriminate H.
Qed.

(* ---- group 2, struct ("headers") trio ------------------------------------- *)
Definition ip_headers_specific (s : slice) (b : N) : res (ip_headers * ip_payload) :=
  if N.shiftr b 4 =? 4 then IpHeaders.from_ipv4_slice s
  else if N.shiftr b 4 =? 6 then IpHeaders.from_ipv6_slice s
  else Err (EContent (CeIpUnsupportedVersion (N.shiftr b 4))).

Lemma idx_from_ok s k : k <= s_len s -> idx_from s k = Ok (fst s + k, drop k (snd s)).
Proof. intros H. unfold idx_from. destruct (k <=? s_len s) eqn:E; [reflexivity|lia]. Qed.

Lemma subN_ok' a b : b <= a -> subN a b = Ok (a - b).
Proof. intros H. unfold subN. destruct (b <=? a) eqn:E; [reflexivity|lia]. Qed.

Lemma drop_0' {A} (l : list A) : drop 0 l = l.
Proof. reflexivity. Qed.

(* the rest behind a prefix, taken as a sub-slice of `&slice[k..]` or of the slice *)
Lemma subU_rest_eq s k n :
  k + n <= s_len s ->
  subU (fst s + k, drop k (snd s)) 0 n = subU s k n.
Proof.
  intros H. unfold subU, s_len in *. cbn [fst snd]. rewrite len_drop.
  destruct (0 + n <=? len (snd s) - k) eqn:E1; [|lia].
  destruct (k + n <=? len (snd s)) eqn:E2; [|lia].
  rewrite N.add_0_r. reflexivity.
Qed.

Lemma subU_all (s : slice) k : k <= s_len s -> subU s k (s_len s - k) = Ok (fst s + k, drop k (snd s)).
Proof.
  intros H. unfold subU. destruct (k + (s_len s - k) <=? s_len s) eqn:E; [|lia].
  f_equal. f_equal. unfold take. apply firstn_all2.
  pose proof (len_drop k (snd s)) as Ld. unfold s_len, len in *. lia.
Qed.

Lemma ip_headers_dispatch o b rest :
  same_answer (IpHeaders.from_slice (o, b :: rest)) (ip_headers_specific (o, b :: rest) b).
Proof.
  set (s := (o, b :: rest)).
  unfold IpHeaders.from_slice, ip_headers_specific. fold s.
  unfold s at 1. rewrite s_len_cons_nz. fold s.
  change (rd (snd s) 0) with (Some b). cbn [bind].
  destruct (N.shiftr b 4 =? 4) eqn:E4.
  - unfold IpHeaders.from_ipv4_slice, Ipv4Header.from_slice, Ipv4HeaderSlice.from_slice.
    destruct (s_len s <? 20) eqn:E20; [cbn; reflexivity|].
    change (rdU s 0) with (@Ok N b). cbn [bind]. rewrite E4. cbn [negb].
    destruct (N.land b 15 <? 5) eqn:Eihl; [cbn; reflexivity|].
    destruct (s_len s <? N.land b 15 * 4) eqn:Ehl; [cbn; reflexivity|].
    set (hl := N.land b 15 * 4) in *.
    destruct (subU s 0 hl) as [header| |] eqn:Eh; cbn [bind]; [|reflexivity|reflexivity].
    pose proof (subU_len _ _ _ _ Eh) as Lh. rewrite Lh.
    rewrite idx_from_ok by lia. cbn [bind].
    destruct (Ipv4HeaderSlice.total_len header) as [tl| |]; cbn [bind]; [|apply same_answer_refl|reflexivity].
    rewrite Lh.
    destruct (tl <? hl) eqn:Etl.
    + destruct (hl <=? tl) eqn:Etl'; [lia|]. cbn. reflexivity.
    + destruct (hl <=? tl) eqn:Etl'; [|lia].
      rewrite subN_ok' by lia. cbn [bind].
      match goal with |- context [s_len ?x <? tl - hl] =>
        assert (Lr : s_len x = s_len s - hl) by (unfold s_len; cbn [snd]; now rewrite len_drop);
        rewrite Lr end.
      destruct (s_len s <? tl) eqn:Es.
      * destruct (s_len s - hl <? tl - hl) eqn:Es'; [|lia]. cbn. reflexivity.
      * destruct (s_len s - hl <? tl - hl) eqn:Es'; [lia|].
        rewrite subU_rest_eq by lia.
        destruct (subU s hl (tl - hl)); cbn [bind]; [apply same_answer_refl|apply same_answer_refl|reflexivity].
  - destruct (N.shiftr b 4 =? 6) eqn:E6; [|cbn; reflexivity].
    unfold IpHeaders.from_ipv6_slice, Ipv6Header.from_slice, Ipv6HeaderSlice.from_slice.
    destruct (s_len s <? 40) eqn:E40; [cbn; reflexivity|].
    change (rdU s 0) with (@Ok N b). cbn [bind]. rewrite E6. cbn [negb].
    destruct (subU s 0 40) as [header| |] eqn:Eh; cbn [bind]; [|reflexivity|reflexivity].
    rewrite idx_from_ok by lia. cbn [bind].
    destruct (Ipv6HeaderSlice.payload_length header) as [pl| |]; cbn [bind]; [|apply same_answer_refl|reflexivity].
    destruct ((0 =? pl) && (40 <? s_len s)) eqn:Ez.
    + rewrite subN_ok' by lia. cbn [bind].
      rewrite subU_all by lia. cbn [bind]. apply same_answer_refl.
    + match goal with |- context [s_len ?x <? pl] =>
        assert (Lr : s_len x = s_len s - 40) by (unfold s_len; cbn [snd]; now rewrite len_drop);
        rewrite Lr end.
      destruct (s_len s <? 40 + pl) eqn:Es.
      * destruct (s_len s - 40 <? pl) eqn:Es'; [|lia].
        cbn. replace (pl + 40) with (40 + pl) by lia. reflexivity.
      * destruct (s_len s - 40 <? pl) eqn:Es'; [lia|].
        rewrite subU_rest_eq by lia.
        destruct (subU s 40 pl); cbn [bind]; [apply same_answer_refl|apply same_answer_refl|reflexivity].
Qed.

(* ---- group 2, lax slice trio ---------------------------------------------- *)
(* LaxIpv4Slice hands back an ip_auth::HeaderSliceError, LaxIpSlice the same
   error embedded into ipv6_exts::HeaderSliceError with Layer::IpAuthHeader *)
Definition lax_stop4 (o : option slice_error) : option stop_error :=
  match o with
  | Some (ELen l) => Some (ELen l, LyIpAuthHeader)
  | Some (EContent _) => Some (EContent CeIpv6AuthZeroPayloadLen, LyIpAuthHeader)
  | None => None
  end.

Definition lax_ip_specific (s : slice) (b : N) : res (lax_ip_slice * option stop_error) :=
  if N.shiftr b 4 =? 4 then
    rmap (fun r => (LIpV4 (fst r), lax_stop4 (snd r))) (LaxIpv4Slice.from_slice s)
  else if N.shiftr b 4 =? 6 then
    rmap (fun r => (LIpV6 (fst r), snd r)) (LaxIpv6Slice.from_slice s)
  else Err (EContent (CeIpUnsupportedVersion (N.shiftr b 4))).

Lemma lax_ip_dispatch o b rest :
  F11 (b :: rest) = false ->
  same_answer (LaxIpSlice.from_slice (o, b :: rest)) (lax_ip_specific (o, b :: rest) b).
Proof.
  intros HF. set (s := (o, b :: rest)).
  unfold LaxIpSlice.from_slice, lax_ip_specific. fold s.
  unfold s at 1. rewrite s_len_cons_nz. fold s.
  change (rdU s 0) with (@Ok N b). cbn [bind].
  destruct (N.shiftr b 4 =? 4) eqn:E4.
  - pose proof (F11_false_v4 o b rest HF E4) as L20. fold s in L20.
    unfold LaxIpv4Slice.from_slice, Ipv4HeaderSlice.from_slice.
    destruct (s_len s <? 20) eqn:E20; [lia|].
    change (rdU s 0) with (@Ok N b). cbn [bind]. rewrite E4. cbn [negb].
    destruct (N.land b 15 <? 5) eqn:Eihl; [cbn; reflexivity|].
    destruct (s_len s <? N.land b 15 * 4) eqn:Ehl; [cbn; reflexivity|].
    destruct (subU s 0 (N.land b 15 * 4)) as [header| |] eqn:Eh; cbn [bind rmap]; [|reflexivity|reflexivity].
    rewrite (subU_len _ _ _ _ Eh).
    destruct (Ipv4HeaderSlice.total_len header) as [tl| |]; cbn [bind rmap]; [|apply same_answer_refl|reflexivity].
    destruct (LaxIpv4Slice.select_payload s (N.land b 15 * 4) tl) as [[[hp src] inc]| |];
      cbn [bind rmap]; [|apply same_answer_refl|reflexivity].
    destruct (LaxIpv4Slice.finish header hp src inc) as [[v st]| |];
      cbn [bind rmap fst snd]; [|apply same_answer_refl|reflexivity].
    destruct st as [[l|c]|]; reflexivity.
  - destruct (N.shiftr b 4 =? 6) eqn:E6; [|cbn; reflexivity].
    unfold LaxIpv6Slice.from_slice, Ipv6HeaderSlice.from_slice.
    destruct (s_len s <? 40) eqn:E40; [cbn; reflexivity|].
    change (rdU s 0) with (@Ok N b). cbn [bind]. rewrite E6. cbn [negb].
    destruct (subU s 0 40) as [header| |]; cbn [bind rmap]; [|reflexivity|reflexivity].
    destruct (Ipv6HeaderSlice.payload_length header) as [pl| |]; cbn [bind rmap]; [|apply same_answer_refl|reflexivity].
    assert (Hsel :
      (if (0 =? pl) && (40 <? s_len s)
       then let* n := subN (s_len s) 40 in let* p := subU s 40 n in Ok (p, LsSlice, false)
       else let* d := subN (s_len s) 40 in
            if d <? pl
            then let* n := subN (s_len s) 40 in let* p := subU s 40 n in Ok (p, LsSlice, true)
            else let* p := subU s 40 pl in Ok (p, LsIpv6HeaderPayloadLen, false)) =
      (if (0 =? pl) && (40 <? s_len s)
       then let* n := subN (s_len s) 40 in let* p := subU s 40 n in Ok (p, LsSlice, false)
       else if s_len s <? 40 + pl
            then let* n := subN (s_len s) 40 in let* p := subU s 40 n in Ok (p, LsSlice, true)
            else let* p := subU s 40 pl in Ok (p, LsIpv6HeaderPayloadLen, false))).
    { destruct ((0 =? pl) && (40 <? s_len s)); [reflexivity|].
      rewrite subN_ok' by lia. cbn [bind].
      destruct (s_len s - 40 <? pl) eqn:Ea, (s_len s <? 40 + pl) eqn:Eb; try lia; reflexivity. }
    rewrite Hsel.
    match goal with |- same_answer (bind ?t _) _ => destruct t as [[[hp src] inc]| |] end;
      cbn [bind rmap]; [|apply same_answer_refl|reflexivity].
    destruct (LaxIpv6Slice.finish header hp src inc) as [[v st]| |];
      cbn [bind rmap fst snd]; [reflexivity|apply same_answer_refl|reflexivity].
Qed.

(* ---- group 1b: SlicedPacket::from_ether_type(IPv4|IPv6) vs from_ip -------- *)
Lemma same_answer_map_len_err {A} f (r1 r2 : res A) :
  same_answer r1 r2 -> same_answer (map_len_err f r1) (map_len_err f r2).
Proof.
  destruct r1 as [a|[l1|c1]|b1], r2 as [a'|[l2|c2]|b2]; cbn; auto.
  - intros H. injection H as ->. reflexivity.
  - destruct c2; intros H; discriminate H.
  - destruct c1; intros H; discriminate H.
Qed.

Lemma same_answer_bind {A B} (r1 r2 : res A) (f g : A -> res B) :
  same_answer r1 r2 -> (forall a, same_answer (f a) (g a)) ->
  same_answer (bind r1 f) (bind r2 g).
Proof.
  destruct r1, r2; cbn; intros H K; try contradiction; auto. subst. apply K.
Qed.

Definition with_link (l : option link_slice) (p : sliced_packet) : sliced_packet :=
  mkSliced l (sp_exts p) (sp_net p) (sp_transport p).
Definition relink (l : option link_slice) (c : cursor) : cursor :=
  mkCursor (c_offset c) (c_src c) (with_link l (c_result c)).

Lemma transport_dispatch_relink l c p :
  transport_dispatch (relink l c) p = rmap (with_link l) (transport_dispatch c p).
Proof.
  unfold transport_dispatch, slice_icmp4, slice_udp, slice_tcp, slice_icmp6.
  destruct (ipp_fragmented p); [reflexivity|].
  repeat match goal with |- context [if ?c then _ else _] => destruct c end; try reflexivity.
  all: match goal with |- context [map_len_err _ ?r] => destruct r as [?|[?|?]|?] end; reflexivity.
Qed.

Lemma slice_ipv4_relink l c s :
  slice_ipv4 (relink l c) s = rmap (with_link l) (slice_ipv4 c s).
Proof.
  unfold slice_ipv4. change (c_offset (relink l c)) with (c_offset c).
  destruct (Ipv4Slice.from_slice s) as [ip|[e|e]|b]; cbn [map_len_err bind rmap]; try reflexivity.
  destruct (ptr_diff (ipp_slice (v4_payload ip)) s) as [d| |]; cbn [bind rmap]; try reflexivity.
  change (set_net (relink l c) (c_offset c + d) (ipp_src (v4_payload ip)) (NtIpv4 ip))
    with (relink l (set_net c (c_offset c + d) (ipp_src (v4_payload ip)) (NtIpv4 ip))).
  apply (transport_dispatch_relink l).
Qed.

Lemma slice_ipv6_relink l c s :
  slice_ipv6 (relink l c) s = rmap (with_link l) (slice_ipv6 c s).
Proof.
  unfold slice_ipv6. change (c_offset (relink l c)) with (c_offset c).
  destruct (Ipv6Slice.from_slice s) as [ip|[e|e]|b]; cbn [map_len_err bind rmap]; try reflexivity.
  destruct (ptr_diff (ipp_slice (v6_payload ip)) s) as [d| |]; cbn [bind rmap]; try reflexivity.
  change (set_net (relink l c) (c_offset c + d) (ipp_src (v6_payload ip)) (NtIpv6 ip))
    with (relink l (set_net c (c_offset c + d) (ipp_src (v6_payload ip)) (NtIpv6 ip))).
  apply (transport_dispatch_relink l).
Qed.

Lemma slice_ip_specific c o b rest :
  F11 (b :: rest) = false ->
  same_answer (slice_ip c (o, b :: rest))
    (if N.shiftr b 4 =? 4 then slice_ipv4 c (o, b :: rest)
     else if N.shiftr b 4 =? 6 then slice_ipv6 c (o, b :: rest)
     else Err (EContent (CeIpUnsupportedVersion (N.shiftr b 4)))).
Proof.
  intros HF. pose proof (ip_slice_dispatch o b rest HF) as D.
  set (s := (o, b :: rest)) in *. unfold ip_slice_specific in D.
  apply (same_answer_map_len_err (fun e => le_add_offset e (c_offset c))) in D.
  set (K := fun ip : ip_slice =>
    let* d := ptr_diff (ipp_slice (IpSlice.payload ip)) s in
    transport_dispatch
      (set_net c (c_offset c + d) (ipp_src (IpSlice.payload ip))
         (match ip with IpV4 v => NtIpv4 v | IpV6 v => NtIpv6 v end)) (IpSlice.payload ip)).
  change (slice_ip c s) with
    (bind (map_len_err (fun e => le_add_offset e (c_offset c)) (IpSlice.from_slice s)) K).
  destruct (N.shiftr b 4 =? 4).
  - assert (E : slice_ipv4 c s =
      bind (map_len_err (fun e => le_add_offset e (c_offset c)) (rmap IpV4 (Ipv4Slice.from_slice s))) K).
    { unfold slice_ipv4. destruct (Ipv4Slice.from_slice s) as [v|[l|cc]|bb]; reflexivity. }
    rewrite E. apply same_answer_bind; [exact D|]. intros a. apply same_answer_refl.
  - destruct (N.shiftr b 4 =? 6).
    + assert (E : slice_ipv6 c s =
        bind (map_len_err (fun e => le_add_offset e (c_offset c)) (rmap IpV6 (Ipv6Slice.from_slice s))) K).
      { unfold slice_ipv6. destruct (Ipv6Slice.from_slice s) as [v|[l|cc]|bb]; reflexivity. }
      rewrite E. apply same_answer_bind; [exact D|]. intros a. apply same_answer_refl.
    + change (Err (EContent (CeIpUnsupportedVersion (N.shiftr b 4)))) with
        (bind (map_len_err (fun e => le_add_offset e (c_offset c))
                 (@Err ip_slice (EContent (CeIpUnsupportedVersion (N.shiftr b 4))))) K).
      apply same_answer_bind; [exact D|]. intros a. apply same_answer_refl.
Qed.

Definition ep_whole (et : N) (bs : bytes) : ether_payload :=
  mkEtherPayload et LsSlice (mk_slice bs).

Lemma from_ether_type_v4 bs :
  SlicedPacket.from_ether_type ET_IPV4 bs =
  slice_ipv4 (relink (Some (LkEtherPayload (ep_whole ET_IPV4 bs))) new) (mk_slice bs).
Proof. reflexivity. Qed.

Lemma from_ether_type_v6 bs :
  SlicedPacket.from_ether_type ET_IPV6 bs =
  slice_ipv6 (relink (Some (LkEtherPayload (ep_whole ET_IPV6 bs))) new) (mk_slice bs).
Proof. reflexivity. Qed.

Lemma canon_with_link l (r1 r2 : res sliced_packet) :
  same_answer r1 r2 -> canon_vres (vres_of (rmap (with_link l) r2)) = canon_vres (vres_of r1).
Proof.
  destruct r1 as [a|e|b], r2 as [a'|e'|b']; cbn; try contradiction.
  - intros ->. reflexivity.
  - intros H. now rewrite H.
  - intros ->. reflexivity.
Qed.

Theorem ethertype_eq_ip b rest :
  F11 (b :: rest) = false ->
  (N.shiftr b 4 = 4 ->
   canon_vres (vres_of (SlicedPacket.from_ether_type ET_IPV4 (b :: rest))) =
   canon_vres (vres_of (SlicedPacket.from_ip (b :: rest)))) /\
  (N.shiftr b 4 = 6 ->
   canon_vres (vres_of (SlicedPacket.from_ether_type ET_IPV6 (b :: rest))) =
   canon_vres (vres_of (SlicedPacket.from_ip (b :: rest)))).
Proof.
  intros HF. pose proof (slice_ip_specific new 0 b rest HF) as D.
  split; intros Hv; rewrite Hv in D.
  - rewrite from_ether_type_v4, slice_ipv4_relink. apply canon_with_link. exact D.
  - rewrite from_ether_type_v6, slice_ipv6_relink. apply canon_with_link. exact D.
Qed.

(* what happens when the ether type and the version nibble disagree (or the
   data is shorter than the fixed header): the ether type's decoder rejects,
   from_ip follows the nibble *)
Theorem ethertype_mismatch bs :
  (len bs < 20 ->
   SlicedPacket.from_ether_type ET_IPV4 bs =
   Err (ELen (mkLenError 20 (len bs) LsSlice LyIpv4Header 0))) /\
  (len bs < 40 ->
   SlicedPacket.from_ether_type ET_IPV6 bs =
   Err (ELen (mkLenError 40 (len bs) LsSlice LyIpv6Header 0))) /\
  (forall b rest, bs = b :: rest -> 20 <= len bs -> N.shiftr b 4 <> 4 ->
   SlicedPacket.from_ether_type ET_IPV4 bs = Err (EContent (CeIpv4Version (N.shiftr b 4)))) /\
  (forall b rest, bs = b :: rest -> 40 <= len bs -> N.shiftr b 4 <> 6 ->
   SlicedPacket.from_ether_type ET_IPV6 bs = Err (EContent (CeIpv6Version (N.shiftr b 4)))).
Proof.
  repeat split.
  - intros H. rewrite from_ether_type_v4.
    unfold slice_ipv4, Ipv4Slice.from_slice, Ipv4HeaderSlice.from_slice.
    change (s_len (mk_slice bs)) with (len bs).
    destruct (len bs <? 20) eqn:E; [|lia]. reflexivity.
  - intros H. rewrite from_ether_type_v6.
    unfold slice_ipv6, Ipv6Slice.from_slice, Ipv6HeaderSlice.from_slice.
    change (s_len (mk_slice bs)) with (len bs).
    destruct (len bs <? 40) eqn:E; [|lia]. reflexivity.
  - intros b rest -> H Hv. rewrite from_ether_type_v4.
    unfold slice_ipv4, Ipv4Slice.from_slice, Ipv4HeaderSlice.from_slice.
    change (s_len (mk_slice (b :: rest))) with (len (b :: rest)).
    destruct (len (b :: rest) <? 20) eqn:E; [lia|].
    change (rdU (mk_slice (b :: rest)) 0) with (@Ok N b). cbn [bind].
    destruct (N.shiftr b 4 =? 4) eqn:E4; [lia|]. reflexivity.
  - intros b rest -> H Hv. rewrite from_ether_type_v6.
    unfold slice_ipv6, Ipv6Slice.from_slice, Ipv6HeaderSlice.from_slice.
    change (s_len (mk_slice (b :: rest))) with (len (b :: rest)).
    destruct (len (b :: rest) <? 40) eqn:E; [lia|].
    change (rdU (mk_slice (b :: rest)) 0) with (@Ok N b). cbn [bind].
    destruct (N.shiftr b 4 =? 6) eqn:E6; [lia|]. reflexivity.
Qed.

Lemma ethertype_eq_ip_refuted :
  exists bs, F11 bs = true /\
    canon_vres (vres_of (SlicedPacket.from_ether_type ET_IPV4 bs)) <>
    canon_vres (vres_of (SlicedPacket.from_ip bs)).
Proof.
  exists [71; 0; 0; 0; 0; 0]. split; [reflexivity|]. vm_compute. intros H. discriminate H.
Qed.
