(* Equiv/HdrLaxShift.v -- C06 group 1 for the lax struct family (LaxPacketHeaders):
   from_ethernet against from_ether_type on the bytes behind the Ethernet II header,
   from_linux_sll against from_ether_type behind the SLL header, and
   from_ether_type(IPv4 | IPv6) against from_ip.

   Pointer-shift equivariance of every decoder of Parse/HdrLaxModel.v (same
   technique as Equiv/HdrShift.v / Equiv/LaxShift.v).  LaxPacketHeaders keeps no
   cursor: from_ether_type counts its `offset` from the slice it is given, and
   from_ethernet / from_linux_sll add 14 / 16 to the layer_start_offset of a Len
   stop error afterwards.  So the equivariance is an EQUATION between model values
   (every decoded header / payload slice moved by k, the stop error untouched), and
   the entry-point theorems add the explicit +14 / +16. *)
From EP Require Import Base.Bytes Parse.Types Parse.Slices Parse.Cursor Parse.View Parse.LaxSlices
  Parse.HdrModel Parse.HdrLaxModel Equiv.Model Equiv.Proofs Equiv.ShiftProofs Equiv.HdrShift Equiv.LaxShift.
From Coq Require Import ZArith Lia ZifyN ZifyBool.

Local Open Scope N_scope.

(* ---- shifted values of the lax struct model ----------------------------------------- *)
Definition sh_hl k (l : hlink) : hlink :=
  match l with HlEthernet2 h => HlEthernet2 (sh k h) | HlLinuxSll h => HlLinuxSll (sh k h) end.
Definition sh_lhpl k (p : lhpayload) : lhpayload :=
  match p with
  | LHpEmpty => LHpEmpty
  | LHpEther e => LHpEther (sh_lep k e)
  | LHpMacsecMod i s => LHpMacsecMod i (sh k s)
  | LHpIp i => LHpIp (sh_lipp k i)
  | LHpUdp i s => LHpUdp i (sh k s) | LHpTcp i s => LHpTcp i (sh k s)
  | LHpIcmpv4 i s => LHpIcmpv4 i (sh k s) | LHpIcmpv6 i s => LHpIcmpv6 i (sh k s)
  | LHpLinuxSll pt s => LHpLinuxSll pt (sh k s)
  end.
(* the stop error is NOT touched: its offsets count from the start of the slice *)
Definition sh_lh k (p : lhpacket) : lhpacket :=
  mkLH (option_map (sh_hl k) (lh_link p)) (map (sh_hx k) (lh_exts p)) (option_map (sh_hnet k) (lh_net p))
       (option_map (sh_htr k) (lh_transport p)) (sh_lhpl k (lh_payload p)) (lh_stop p).

(* ---- Ipv4Extensions::from_slice_lax ---------------------------------------------------- *)
Definition sh_x4l k (r : option slice * N * slice * option slice_error) :=
  (option_map (sh k) (fst (fst (fst r))), snd (fst (fst r)), sh k (snd (fst r)), snd r).

Lemma lax4x_slice_sh k start s :
  LaxIpv4Exts.from_slice_lax start (sh k s) = rmap (sh_x4l k) (LaxIpv4Exts.from_slice_lax start s).
Proof.
  unfold LaxIpv4Exts.from_slice_lax. destruct (IPN_AUTH =? start); [|reflexivity].
  rewrite auth_from_slice_sh.
  destruct (IpAuthHeaderSlice.from_slice s) as [h|e|b]; cbn [rmap]; try reflexivity.
  rewrite !s_len_sh.
  destruct (subN (s_len s) (s_len h)) as [n|[?|?]|?]; cbn [bind rmap]; try reflexivity.
  rewrite subU_sh. destruct (subU s (s_len h) n) as [r|[?|?]|?]; cbn [bind rmap]; try reflexivity.
  change (IpAuthHeaderSlice.next_header (sh k h)) with (IpAuthHeaderSlice.next_header h).
  destruct (IpAuthHeaderSlice.next_header h) as [nh|[?|?]|?]; cbn [bind rmap]; reflexivity.
Qed.

Lemma lax4x_sh k start s :
  LaxIpv4Extensions.from_slice_lax start (sh k s) =
  rmap (sh_x4l k) (LaxIpv4Extensions.from_slice_lax start s).
Proof.
  unfold LaxIpv4Extensions.from_slice_lax. rewrite lax4x_slice_sh.
  destruct (LaxIpv4Exts.from_slice_lax start s) as [[[[a nh] r] e]|[?|?]|?]; cbn [bind rmap sh_x4l fst snd];
    try reflexivity.
  destruct a as [h|]; cbn [option_map bind]; [|reflexivity].
  rewrite auth_to_header_sh.
  destruct (auth_to_header h) as [h'|[?|?]|?]; cbn [bind rmap]; reflexivity.
Qed.

(* ---- Ipv6Extensions::from_slice_lax ---------------------------------------------------- *)
Lemma len_stop_sh k slice rest e ly :
  LaxIpv6Extensions.len_stop (sh k slice) (sh k rest) e ly = LaxIpv6Extensions.len_stop slice rest e ly.
Proof. reflexivity. Qed.

Lemma raw_ok_sh k rest sl :
  LaxIpv6Extensions.raw_ok (sh k rest) (sh k sl) = rmap (sh_step k) (LaxIpv6Extensions.raw_ok rest sl).
Proof.
  unfold LaxIpv6Extensions.raw_ok. rewrite s_len_sh, idx_from_sh.
  destruct (idx_from rest (s_len sl)) as [r|[?|?]|?]; cbn [bind rmap]; try reflexivity.
  change (Ipv6RawExtHeaderSlice.next_header (sh k sl)) with (Ipv6RawExtHeaderSlice.next_header sl).
  destruct (Ipv6RawExtHeaderSlice.next_header sl) as [nh|[?|?]|?]; cbn [bind rmap]; try reflexivity.
  rewrite raw_to_header_sh.
  destruct (raw_ext_to_header sl) as [a|[?|?]|?]; cbn [bind rmap]; reflexivity.
Qed.

Definition sh_x6l' k (r : exts6 * N * slice * option stop_error) :=
  (sh_x k (fst (fst (fst r))), snd (fst (fst r)), sh k (snd (fst r)), snd r).

(* one raw-extension-header block of the loop, parametrised by the slot it fills *)
Lemma lax6_raw_block k (slice rest : Types.slice) ly (x : exts6) nh
      (cont cont' : Types.slice * Types.slice * N -> res (exts6 * N * Types.slice * option stop_error)) :
  (forall h r' n', cont' (sh k h, sh k r', n') = rmap (sh_x6l' k) (cont (h, r', n'))) ->
  match Ipv6RawExtHeaderSlice.from_slice (sh k rest) with
  | Ok sl => let* r := LaxIpv6Extensions.raw_ok (sh k rest) sl in cont' r
  | Err (ELen e) =>
      let* st := LaxIpv6Extensions.len_stop (sh k slice) (sh k rest) e ly in
      Ok (sh_x k x, nh, sh k rest, Some st)
  | Err (EContent _) => Bug SITE_UNWRAP
  | Bug b => Bug b
  end =
  rmap (sh_x6l' k)
  match Ipv6RawExtHeaderSlice.from_slice rest with
  | Ok sl => let* r := LaxIpv6Extensions.raw_ok rest sl in cont r
  | Err (ELen e) =>
      let* st := LaxIpv6Extensions.len_stop slice rest e ly in
      Ok (x, nh, rest, Some st)
  | Err (EContent _) => Bug SITE_UNWRAP
  | Bug b => Bug b
  end.
Proof.
  intros HC. rewrite raw_from_slice_sh.
  destruct (Ipv6RawExtHeaderSlice.from_slice rest) as [sl|[e|c]|b]; cbn [rmap]; try reflexivity.
  - rewrite raw_ok_sh.
    destruct (LaxIpv6Extensions.raw_ok rest sl) as [[[h r'] n']|[?|?]|?]; cbn [bind rmap sh_step fst snd];
      try reflexivity.
    apply HC.
  - rewrite len_stop_sh.
    destruct (LaxIpv6Extensions.len_stop slice rest e ly) as [st|[?|?]|?]; cbn [bind rmap]; reflexivity.
Qed.

Lemma lax6_loop_sh k fuel : forall slice x rest nh,
  LaxIpv6Extensions.loop fuel (sh k slice) (sh_x k x) (sh k rest) nh =
  rmap (sh_x6l' k) (LaxIpv6Extensions.loop fuel slice x rest nh).
Proof.
  induction fuel as [|f IH]; intros slice x rest nh; [reflexivity|].
  cbn [LaxIpv6Extensions.loop]. destruct x as [hbh dest route fdest frag auth].
  cbn [sh_x x_hbh x_dest x_route x_fdest x_frag x_auth]. rewrite !is_some_map.
  destruct (nh =? IPN_HOP_BY_HOP); [reflexivity|].
  destruct (nh =? IPN_DEST_OPTIONS).
  { destruct route as [rt|]; cbn [option_map].
    - destruct (is_some fdest); [reflexivity|].
      apply (lax6_raw_block k slice rest LyIpv6DestOptionsHeader (mkExts6 hbh dest (Some rt) fdest frag auth) nh
               (fun r => let '(h, rest', nh') := r in
                  LaxIpv6Extensions.loop f slice (mkExts6 hbh dest (Some rt) (Some h) frag auth) rest' nh')).
      intros h r' n'. apply (IH slice (mkExts6 hbh dest (Some rt) (Some h) frag auth) r' n').
    - destruct (is_some dest); [reflexivity|].
      apply (lax6_raw_block k slice rest LyIpv6DestOptionsHeader (mkExts6 hbh dest None fdest frag auth) nh
               (fun r => let '(h, rest', nh') := r in
                  LaxIpv6Extensions.loop f slice (mkExts6 hbh (Some h) None fdest frag auth) rest' nh')).
      intros h r' n'. apply (IH slice (mkExts6 hbh (Some h) None fdest frag auth) r' n'). }
  destruct (nh =? IPN_ROUTE).
  { destruct (is_some route); [reflexivity|].
    apply (lax6_raw_block k slice rest LyIpv6RouteHeader (mkExts6 hbh dest route fdest frag auth) nh
             (fun r => let '(h, rest', nh') := r in
                LaxIpv6Extensions.loop f slice (mkExts6 hbh dest (Some h) None frag auth) rest' nh')).
    intros h r' n'. apply (IH slice (mkExts6 hbh dest (Some h) None frag auth) r' n'). }
  destruct (nh =? IPN_FRAG).
  { destruct (is_some frag); [reflexivity|].
    rewrite frag_from_slice_sh.
    destruct (Ipv6FragmentHeaderSlice.from_slice rest) as [sl|[e|c]|b]; cbn [rmap]; try reflexivity.
    - rewrite s_len_sh, idx_from_sh.
      destruct (idx_from rest (s_len sl)) as [r'|[?|?]|?]; cbn [bind rmap]; try reflexivity.
      change (Ipv6FragmentHeaderSlice.next_header (sh k sl)) with (Ipv6FragmentHeaderSlice.next_header sl).
      destruct (Ipv6FragmentHeaderSlice.next_header sl) as [nh'|[?|?]|?]; cbn [bind rmap]; try reflexivity.
      apply (IH slice (mkExts6 hbh dest route fdest (Some sl) auth) r' nh').
    - rewrite len_stop_sh.
      destruct (LaxIpv6Extensions.len_stop slice rest e LyIpv6FragHeader) as [st|[?|?]|?]; reflexivity. }
  destruct (nh =? IPN_AUTH).
  { destruct (is_some auth); [reflexivity|].
    rewrite auth_from_slice_sh.
    destruct (IpAuthHeaderSlice.from_slice rest) as [sl|[e|c]|b]; cbn [rmap]; try reflexivity.
    - rewrite s_len_sh, idx_from_sh.
      destruct (idx_from rest (s_len sl)) as [r'|[?|?]|?]; cbn [bind rmap]; try reflexivity.
      change (IpAuthHeaderSlice.next_header (sh k sl)) with (IpAuthHeaderSlice.next_header sl).
      destruct (IpAuthHeaderSlice.next_header sl) as [nh'|[?|?]|?]; cbn [bind rmap]; try reflexivity.
      rewrite auth_to_header_sh.
      destruct (auth_to_header sl) as [a|[?|?]|?]; cbn [bind rmap]; try reflexivity.
      apply (IH slice (mkExts6 hbh dest route fdest frag (Some a)) r' nh').
    - rewrite len_stop_sh.
      destruct (LaxIpv6Extensions.len_stop slice rest e LyIpAuthHeader) as [st|[?|?]|?]; reflexivity. }
  reflexivity.
Qed.

Lemma lax6x_sh k start s :
  LaxIpv6Extensions.from_slice_lax start (sh k s) =
  rmap (sh_x6l' k) (LaxIpv6Extensions.from_slice_lax start s).
Proof.
  unfold LaxIpv6Extensions.from_slice_lax. rewrite snd_sh.
  destruct (IPN_HOP_BY_HOP =? start).
  - rewrite raw_from_slice_sh.
    destruct (Ipv6RawExtHeaderSlice.from_slice s) as [sl|[e|c]|b]; cbn [rmap]; try reflexivity.
    rewrite raw_ok_sh.
    destruct (LaxIpv6Extensions.raw_ok s sl) as [[[h r'] n']|[?|?]|?]; cbn [bind rmap sh_step fst snd];
      try reflexivity.
    apply (lax6_loop_sh k _ s (mkExts6 (Some h) None None None None None) r' n').
  - apply (lax6_loop_sh k _ s exts6_empty s start).
Qed.

(* ---- IpHeaders::from_slice_lax ---------------------------------------------------------- *)
Definition sh_lihp k (r : ip_headers * lax_ip_payload * option stop_error) :=
  (sh_ih k (fst (fst r)), sh_lipp k (snd (fst r)), snd r).

Definition sh_sel3 k (t : len_source * slice * bool) : len_source * slice * bool :=
  (fst (fst t), sh k (snd (fst t)), snd t).

Lemma lax_iph_sh k s :
  LaxIpHeaders.from_slice_lax (sh k s) = rmap (sh_lihp k) (LaxIpHeaders.from_slice_lax s).
Proof.
  unfold LaxIpHeaders.from_slice_lax. rewrite !s_len_sh, snd_sh.
  destruct (s_len s =? 0); [reflexivity|].
  destruct (rd (snd s) 0) as [b0|]; cbn [bind rmap]; [|reflexivity].
  destruct (N.shiftr b0 4 =? 4).
  { destruct (s_len s <? 20); [reflexivity|]. rewrite rdU_sh.
    destruct (rdU s 0) as [b0'|[?|?]|?]; cbn [bind rmap]; try reflexivity.
    destruct (N.land b0' 15 <? 5); [reflexivity|].
    set (hl := N.land b0' 15 * 4).
    destruct (s_len s <? hl); [reflexivity|].
    rewrite subU_sh. destruct (subU s 0 hl) as [h|[?|?]|?]; cbn [bind rmap]; try reflexivity.
    change (Ipv4HeaderSlice.total_len (sh k h)) with (Ipv4HeaderSlice.total_len h).
    destruct (Ipv4HeaderSlice.total_len h) as [tl|[?|?]|?]; cbn [bind rmap]; try reflexivity.
    assert (SEL :
      (if tl <? hl then let* n := subN (s_len s) hl in let* p := subU (sh k s) hl n in Ok (LsSlice, p, false)
       else if s_len s <? tl
            then let* n := subN (s_len s) hl in let* p := subU (sh k s) hl n in Ok (LsSlice, p, true)
            else let* n := subN tl hl in let* p := subU (sh k s) hl n in Ok (LsIpv4HeaderTotalLen, p, false)) =
      rmap (sh_sel3 k)
      (if tl <? hl then let* n := subN (s_len s) hl in let* p := subU s hl n in Ok (LsSlice, p, false)
       else if s_len s <? tl
            then let* n := subN (s_len s) hl in let* p := subU s hl n in Ok (LsSlice, p, true)
            else let* n := subN tl hl in let* p := subU s hl n in Ok (LsIpv4HeaderTotalLen, p, false))).
    { steps. }
    rewrite SEL.
    match goal with |- context [rmap (sh_sel3 k) ?t] => destruct t as [[[src rest] inc]|[?|?]|?] end;
      cbn [bind rmap sh_sel3 fst snd]; try reflexivity.
    change (Ipv4HeaderSlice.protocol (sh k h)) with (Ipv4HeaderSlice.protocol h).
    destruct (Ipv4HeaderSlice.protocol h) as [proto|[?|?]|?]; cbn [bind rmap]; try reflexivity.
    rewrite lax4x_sh.
    destruct (LaxIpv4Extensions.from_slice_lax proto rest) as [[[[a nh] r'] st]|[?|?]|?];
      cbn [bind rmap sh_x4l fst snd]; try reflexivity.
    change (Ipv4HeaderSlice.is_fragmenting_payload (sh k h)) with (Ipv4HeaderSlice.is_fragmenting_payload h).
    destruct (Ipv4HeaderSlice.is_fragmenting_payload h) as [fr|[?|?]|?]; cbn [bind rmap]; reflexivity. }
  destruct (N.shiftr b0 4 =? 6); [|reflexivity].
  destruct (s_len s <? 40); [reflexivity|].
  rewrite subU_sh. destruct (subU s 0 40) as [h|[?|?]|?]; cbn [bind rmap]; try reflexivity.
  change (Ipv6HeaderSlice.payload_length (sh k h)) with (Ipv6HeaderSlice.payload_length h).
  destruct (Ipv6HeaderSlice.payload_length h) as [pl|[?|?]|?]; cbn [bind rmap]; try reflexivity.
  assert (SEL :
    (if (0 =? pl) && (40 <? s_len s)
     then let* n := subN (s_len s) 40 in let* p := subU (sh k s) 40 n in Ok (p, LsSlice, false)
     else let* d := subN (s_len s) 40 in
          if d <? pl then let* n := subN (s_len s) 40 in let* p := subU (sh k s) 40 n in Ok (p, LsSlice, true)
          else let* p := subU (sh k s) 40 pl in Ok (p, LsIpv6HeaderPayloadLen, false)) =
    rmap (sh_sel k)
    (if (0 =? pl) && (40 <? s_len s)
     then let* n := subN (s_len s) 40 in let* p := subU s 40 n in Ok (p, LsSlice, false)
     else let* d := subN (s_len s) 40 in
          if d <? pl then let* n := subN (s_len s) 40 in let* p := subU s 40 n in Ok (p, LsSlice, true)
          else let* p := subU s 40 pl in Ok (p, LsIpv6HeaderPayloadLen, false))).
  { steps. }
  rewrite SEL.
  match goal with |- context [rmap (sh_sel k) ?t] => destruct t as [[[hp src] inc]|[?|?]|?] end;
    cbn [bind rmap sh_sel fst snd]; try reflexivity.
  change (Ipv6HeaderSlice.next_header (sh k h)) with (Ipv6HeaderSlice.next_header h).
  destruct (Ipv6HeaderSlice.next_header h) as [nh0|[?|?]|?]; cbn [bind rmap]; try reflexivity.
  rewrite lax6x_sh.
  destruct (LaxIpv6Extensions.from_slice_lax nh0 hp) as [[[[x nh] r'] st]|[?|?]|?];
    cbn [bind rmap sh_x6l' fst snd]; try reflexivity.
  rewrite frag_flag_sh.
  destruct (Ipv6Extensions.is_fragmenting_payload x) as [fr|[?|?]|?]; cbn [bind rmap]; reflexivity.
Qed.

(* ---- accessors of the transport slices --------------------------------------------------- *)
Lemma icmp4_header_sh k v : Icmpv4Acc.header (sh k v) = rmap (sh k) (Icmpv4Acc.header v).
Proof. unfold Icmpv4Acc.header, Icmpv4Acc.header_len. steps2. Qed.
Lemma icmp4_payload_sh k v : Icmpv4Acc.payload (sh k v) = rmap (sh k) (Icmpv4Acc.payload v).
Proof. unfold Icmpv4Acc.payload, Icmpv4Acc.header_len. steps2. Qed.
Lemma icmp6_header_sh k v : Icmpv6Acc.header (sh k v) = rmap (sh k) (Icmpv6Acc.header v).
Proof. unfold Icmpv6Acc.header. steps2. Qed.
Lemma icmp6_payload_sh k v : Icmpv6Acc.payload (sh k v) = rmap (sh k) (Icmpv6Acc.payload v).
Proof. unfold Icmpv6Acc.payload. steps2. Qed.
Lemma udp_to_header_sh k v : UdpAcc.to_header (sh k v) = rmap (sh k) (UdpAcc.to_header v).
Proof. unfold UdpAcc.to_header. steps2. Qed.
Lemma udp_payload_sh k v : UdpAcc.payload (sh k v) = rmap (sh k) (UdpAcc.payload v).
Proof. unfold UdpAcc.payload. steps2. Qed.

(* ---- LaxPacketHeaders ---------------------------------------------------------------------- *)
Import SlicedPacketCursor.
Import LaxPacketHeaders.

Lemma sh_lh_with_stop k r e :
  LaxPacketHeaders.with_stop (sh_lh k r) e = sh_lh k (LaxPacketHeaders.with_stop r e).
Proof. reflexivity. Qed.

Lemma sh_lh_with_transport k r t p :
  LaxPacketHeaders.with_transport (sh_lh k r) (sh_htr k t) (sh_lhpl k p) =
  sh_lh k (LaxPacketHeaders.with_transport r t p).
Proof. reflexivity. Qed.

Lemma add_len_source_sh k p off e :
  add_len_source (sh_lipp k p) off e = add_len_source p off e.
Proof. reflexivity. Qed.

Lemma add_transport_sh k self1 p off :
  add_transport (sh_lh k self1) (sh_lipp k p) off = rmap (sh_lh k) (add_transport self1 p off).
Proof.
  unfold add_transport. cbn [sh_lipp lipp_incomplete lipp_fragmented lipp_number lipp_slice].
  destruct (lipp_fragmented p); [reflexivity|].
  destruct (lipp_number p =? IPN_ICMP).
  { rewrite icmp4_from_slice_sh.
    destruct (Icmpv4Slice.from_slice (lipp_slice p)) as [v|[e|c]|b]; cbn [rmap]; try reflexivity.
    rewrite icmp4_header_sh, icmp4_payload_sh.
    destruct (Icmpv4Acc.header v) as [h|[?|?]|?]; cbn [bind rmap]; try reflexivity.
    destruct (Icmpv4Acc.payload v) as [pl|[?|?]|?]; cbn [bind rmap]; reflexivity. }
  destruct (lipp_number p =? IPN_ICMPV6).
  { rewrite icmp6_from_slice_sh.
    destruct (Icmpv6Slice.from_slice (lipp_slice p)) as [v|[e|c]|b]; cbn [rmap]; try reflexivity.
    rewrite icmp6_header_sh, icmp6_payload_sh.
    destruct (Icmpv6Acc.header v) as [h|[?|?]|?]; cbn [bind rmap]; try reflexivity.
    destruct (Icmpv6Acc.payload v) as [pl|[?|?]|?]; cbn [bind rmap]; reflexivity. }
  destruct (lipp_number p =? IPN_UDP).
  { rewrite udp_from_slice_lax_sh.
    destruct (UdpSlice.from_slice_lax (lipp_slice p)) as [v|[e|c]|b]; cbn [rmap]; try reflexivity.
    rewrite udp_to_header_sh, udp_payload_sh.
    destruct (UdpAcc.to_header v) as [h|[?|?]|?]; cbn [bind rmap]; try reflexivity.
    destruct (UdpAcc.payload v) as [pl|[?|?]|?]; cbn [bind rmap]; reflexivity. }
  destruct (lipp_number p =? IPN_TCP).
  { rewrite tcph_from_slice_sh.
    destruct (TcpHeader.from_slice (lipp_slice p)) as [[h r]|[e|c]|b]; cbn [rmap]; reflexivity. }
  reflexivity.
Qed.

Lemma add_ip_sh k self off s :
  add_ip (sh_lh k self) off (sh k s) = rmap (sh_lh k) (add_ip self off s).
Proof.
  unfold add_ip. rewrite lax_iph_sh.
  destruct (LaxIpHeaders.from_slice_lax s) as [[[ip ipp] st]|[?|?]|?]; cbn [bind rmap sh_lihp fst snd];
    try reflexivity.
  destruct st as [e|]; [reflexivity|].
  change (s_off (lipp_slice (sh_lipp k ipp))) with (s_off (lipp_slice ipp) + k).
  rewrite s_off_sh.
  assert (D : subN (s_off (lipp_slice ipp) + k) (s_off s + k) = subN (s_off (lipp_slice ipp)) (s_off s)).
  { unfold subN.
    destruct (s_off s + k <=? s_off (lipp_slice ipp) + k) eqn:E1, (s_off s <=? s_off (lipp_slice ipp)) eqn:E2;
      try lia; [|reflexivity].
    f_equal. lia. }
  rewrite D.
  destruct (subN (s_off (lipp_slice ipp)) (s_off s)) as [d|[?|?]|?]; cbn [bind rmap]; try reflexivity.
  apply (add_transport_sh k (mkLH (lh_link self) (lh_exts self) (Some (HnIp ip)) (lh_transport self)
                                  (LHpIp ipp) (lh_stop self)) ipp (off + d)).
Qed.

Definition sh_ls k (st : lstate) : lstate :=
  mkLs (sh_lh k (ls_result st)) (sh k (ls_rest st)) (ls_offset st) (ls_et st) (ls_src st).
Definition sh_llo k (o : lloop_out) : lloop_out :=
  match o with LLReturn p => LLReturn (sh_lh k p) | LLBreak st => LLBreak (sh_ls k st) end.

Lemma lh_push_ext_sh k r x :
  LaxPacketHeaders.push_ext (sh_lh k r) (sh_hx k x) = rmap (sh_lh k) (LaxPacketHeaders.push_ext r x).
Proof.
  unfold LaxPacketHeaders.push_ext. cbn [sh_lh lh_exts]. rewrite len_map.
  destruct (len (lh_exts r) <? LINK_EXTS_CAP); [|reflexivity].
  cbn [rmap]. unfold sh_lh. cbn [lh_link lh_exts lh_net lh_transport lh_payload lh_stop].
  rewrite map_app. reflexivity.
Qed.

Lemma lh_link_loop_sh k fuel : forall st,
  link_loop fuel (sh_ls k st) = rmap (sh_llo k) (link_loop fuel st).
Proof.
  induction fuel as [|f IH]; intros st; [reflexivity|].
  cbn [link_loop]. destruct st as [result rest off et src].
  cbn [sh_ls ls_result ls_rest ls_offset ls_et ls_src].
  change (lh_exts (sh_lh k result)) with (map (sh_hx k) (lh_exts result)). rewrite !len_map.
  destruct (is_vlan_type et).
  { destruct (LINK_EXTS_CAP <=? len (lh_exts result)); [reflexivity|].
    rewrite vlan_hdr_sh.
    destruct (SingleVlanHeader.from_slice rest) as [[vl vr]|[e|c]|b]; cbn [rmap sh_pair fst snd];
      try reflexivity.
    change (SingleVlanHeader.ether_type (sh k vl)) with (SingleVlanHeader.ether_type vl).
    destruct (SingleVlanHeader.ether_type vl) as [et'|[?|?]|?]; cbn [bind rmap]; try reflexivity.
    change (LaxPacketHeaders.with_payload (sh_lh k result) (LHpEther (mkLaxEp false et' src (sh k vr))))
      with (sh_lh k (LaxPacketHeaders.with_payload result (LHpEther (mkLaxEp false et' src vr)))).
    change (HxVlan (sh k vl)) with (sh_hx k (HxVlan vl)). rewrite lh_push_ext_sh.
    destruct (LaxPacketHeaders.push_ext _ (HxVlan vl)) as [r2|[?|?]|?]; cbn [bind rmap]; try reflexivity.
    apply (IH (mkLs r2 vr (off + 4) et' src)). }
  destruct (et =? ET_MACSEC); [|reflexivity].
  destruct (LINK_EXTS_CAP <=? len (lh_exts result)); [reflexivity|].
  rewrite lax_macsec_from_slice_sh.
  destruct (LaxMacsecSlice.from_slice rest) as [m|[e|c]|b]; cbn [rmap]; try reflexivity.
  change (lms_header (sh_lms k m)) with (sh k (lms_header m)).
  change (HxMacsec (sh k (lms_header m))) with (sh_hx k (HxMacsec (lms_header m))).
  rewrite lh_push_ext_sh.
  destruct (LaxPacketHeaders.push_ext result (HxMacsec (lms_header m))) as [r1|[?|?]|?]; cbn [bind rmap];
    try reflexivity.
  change (lms_payload (sh_lms k m)) with (sh_lmp k (lms_payload m)).
  destruct (lms_payload m) as [l|inc pl]; cbn [sh_lmp].
  - rewrite macsec_hl_sh.
    destruct (Macsec.header_len (lms_header m)) as [hl|[?|?]|?]; cbn [bind rmap]; try reflexivity.
    cbn [sh_lep lep_src lep_incomplete lep_ether_type lep_slice].
    match goal with |- _ = rmap _ (link_loop f ?st0) => apply (IH st0) end.
  - reflexivity.
Qed.

Lemma lh_net_part_sh k st : net_part (sh_ls k st) = rmap (sh_lh k) (net_part st).
Proof.
  unfold net_part. destruct st as [result rest off et src].
  cbn [sh_ls ls_result ls_rest ls_offset ls_et ls_src].
  destruct ((et =? ET_IPV4) || (et =? ET_IPV6)).
  { rewrite add_ip_sh.
    destruct (add_ip result off rest) as [r|[e|c]|b]; cbn [rmap]; reflexivity. }
  destruct (et =? ET_ARP); [|reflexivity].
  rewrite arp_from_slice_sh.
  destruct (ArpPacketSlice.from_slice rest) as [a|[e|c]|b]; cbn [rmap]; reflexivity.
Qed.

Theorem lh_from_ether_type_slice_sh k et s :
  from_ether_type_slice et (sh k s) = rmap (sh_lh k) (from_ether_type_slice et s).
Proof.
  unfold from_ether_type_slice.
  change (mkLs (mkLH None [] None None (LHpEther (mkLaxEp false et LsSlice (sh k s))) None) (sh k s) 0 et LsSlice)
    with (sh_ls k (mkLs (mkLH None [] None None (LHpEther (mkLaxEp false et LsSlice s)) None) s 0 et LsSlice)).
  rewrite lh_link_loop_sh.
  destruct (link_loop 5 _) as [[p|st]|[?|?]|?]; cbn [bind rmap sh_llo]; try reflexivity.
  apply lh_net_part_sh.
Qed.

(* ---- group 1a: from_ethernet against from_ether_type --------------------------------------- *)
(* what the first entry point's answer is, given the second's on the bytes behind the
   k-byte link header `link`: every decoded header and payload slice k bytes later, the
   layer_start_offset of a Len stop error k later (LaxShift.sh_stop; layer tag,
   required_len, len, len_source and content errors equal), the link header in front *)
Definition lh_behind (k : N) (link : hlink) (r : res lhpacket) : res lhpacket :=
  match r with
  | Ok p => Ok (mkLH (Some link) (map (sh_hx k) (lh_exts p)) (option_map (sh_hnet k) (lh_net p))
                     (option_map (sh_htr k) (lh_transport p)) (sh_lhpl k (lh_payload p))
                     (option_map (sh_stop k) (lh_stop p)))
  | r => r
  end.

Lemma shift_stop_spec k r l :
  shift_stop (LaxPacketHeaders.with_link (sh_lh k r) l) k =
  mkLH (Some l) (map (sh_hx k) (lh_exts r)) (option_map (sh_hnet k) (lh_net r))
       (option_map (sh_htr k) (lh_transport r)) (sh_lhpl k (lh_payload r))
       (option_map (sh_stop k) (lh_stop r)).
Proof.
  unfold shift_stop, LaxPacketHeaders.with_link, sh_lh. cbn [lh_link lh_exts lh_net lh_transport lh_payload lh_stop].
  destruct (lh_stop r) as [[[e|c] ly]|]; reflexivity.
Qed.

Lemma with_link_shift_stop k r l :
  LaxPacketHeaders.with_link (shift_stop r k) l = shift_stop (LaxPacketHeaders.with_link r l) k.
Proof.
  unfold shift_stop, LaxPacketHeaders.with_link. destruct (lh_stop r) as [[[e|c] ly]|] eqn:E; cbn; rewrite ?E; reflexivity.
Qed.

Theorem laxheaders_ethernet_eq_ethertype bs a b :
  rd bs 12 = Some a -> rd bs 13 = Some b ->
  from_ethernet bs = lh_behind 14 (HlEthernet2 (0, take 14 bs)) (from_ether_type (be16 a b) (drop 14 bs)).
Proof.
  intros Ha Hb.
  assert (L : 14 <= len bs) by (apply rd_Some_lt in Hb; lia).
  unfold from_ethernet, from_ether_type, Ethernet2Header.from_slice.
  change (s_len (mk_slice bs)) with (len bs).
  destruct (len bs <? 14) eqn:E; [apply N.ltb_lt in E; lia|].
  unfold subU. change (s_len (mk_slice bs)) with (len bs).
  destruct (0 + 14 <=? len bs) eqn:E2; [|apply N.leb_gt in E2; lia]. cbn [bind].
  rewrite idx_from_ok by (change (s_len (mk_slice bs)) with (len bs); lia). cbn [bind].
  unfold Ethernet2Header.ether_type, rd16, rdU. cbn [mk_slice fst snd].
  change (drop 0 bs) with bs.
  rewrite !rd_take_l by lia.
  change (12 + 1) with 13. rewrite Ha, Hb. cbn [bind].
  change (0 + 14, drop 14 bs) with (sh 14 (mk_slice (drop 14 bs))).
  rewrite lh_from_ether_type_slice_sh.
  destruct (from_ether_type_slice (be16 a b) (mk_slice (drop 14 bs))) as [r|[e|c]|bg]; cbn [rmap bind lh_behind];
    try reflexivity.
  now rewrite shift_stop_spec.
Qed.

Theorem laxheaders_ethernet_short bs : len bs < 14 ->
  from_ethernet bs = Err (ELen (mkLenError 14 (len bs) LsSlice LyEthernet2Header 0)).
Proof.
  intros H. unfold from_ethernet, Ethernet2Header.from_slice.
  change (s_len (mk_slice bs)) with (len bs).
  destruct (len bs <? 14) eqn:E; [reflexivity|apply N.ltb_ge in E; lia].
Qed.

(* ---- group 1b: from_ether_type(IPv4 | IPv6) against from_ip -------------------------------- *)
(* both call the same add_ip (-> IpHeaders::from_slice_lax, version-dispatching: the
   ether type does not select the decoder, F10).  What differs: from_ip returns the
   first header's error (`?`), from_ether_type keeps it as stop error with layer
   IpHeader and the ether payload it started from as payload. *)
Definition lh_ip_as_ether_type (et : N) (bs : bytes) (r : res lhpacket) : res lhpacket :=
  match r with
  | Ok p => Ok p
  | Err e => Ok (mkLH None [] None None (LHpEther (mkLaxEp false et LsSlice (mk_slice bs))) (Some (e, LyIpHeader)))
  | Bug b => Bug b
  end.

Lemma add_ip_payload_irrelevant self self' off s :
  lh_link self = lh_link self' -> lh_exts self = lh_exts self' -> lh_transport self = lh_transport self' ->
  lh_stop self = lh_stop self' ->
  match add_ip self off s, add_ip self' off s with
  | Ok a, Ok b => a = b
  | Err a, Err b => a = b
  | Bug a, Bug b => a = b
  | _, _ => False
  end.
Proof.
  destruct self as [l x n t p st], self' as [l' x' n' t' p' st']. cbn [lh_link lh_exts lh_transport lh_stop].
  intros -> -> -> ->. unfold add_ip.
  destruct (LaxIpHeaders.from_slice_lax s) as [[[ip ipp] stop]|e|b]; cbn [bind]; try reflexivity.
  cbn [lh_link lh_exts lh_transport lh_stop].
  destruct (match stop with Some e => _ | None => _ end); reflexivity.
Qed.

Theorem laxheaders_ethertype_eq_ip et bs : et = ET_IPV4 \/ et = ET_IPV6 ->
  from_ether_type et bs = lh_ip_as_ether_type et bs (from_ip bs).
Proof.
  intros Het. unfold from_ether_type, from_ether_type_slice, from_ip.
  set (r0 := mkLH None [] None None (LHpEther (mkLaxEp false et LsSlice (mk_slice bs))) None).
  assert (L : link_loop 5 (mkLs r0 (mk_slice bs) 0 et LsSlice) = Ok (LLBreak (mkLs r0 (mk_slice bs) 0 et LsSlice))).
  { destruct Het as [-> | ->]; reflexivity. }
  rewrite L. cbn [bind]. unfold net_part. cbn [ls_result ls_rest ls_offset ls_et].
  assert (E : (et =? ET_IPV4) || (et =? ET_IPV6) = true) by (destruct Het as [-> | ->]; reflexivity).
  rewrite E.
  pose proof (add_ip_payload_irrelevant r0 (mkLH None [] None None (LHpUdp true (0, [])) None) 0 (mk_slice bs)
                eq_refl eq_refl eq_refl eq_refl) as P.
  destruct (add_ip r0 0 (mk_slice bs)) as [a|[l|c]|b], (add_ip _ 0 (mk_slice bs)) as [a'|e'|b'];
    try contradiction; cbn [lh_ip_as_ether_type].
  - now subst.
  - subst e'. unfold LaxPacketHeaders.with_stop. cbn. now rewrite le_add_offset_0.
  - subst e'. reflexivity.
  - now subst.
Qed.
