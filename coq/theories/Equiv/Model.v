(* Equiv/Model.v -- property C06: the vocabulary in which "two entry points
   give the same answer" is stated.  No transliteration of crate code lives
   here (the entry points themselves are the models of Parse/Slices.v,
   Parse/Cursor.v, Parse/HdrModel.v, Parse/LaxSlices.v; the readers are in
   Equiv/ModelRead.v); only

     * the canonicalisation the property prescribes: windows and
       layer_start_offsets shifted by the bytes in front of the second entry
       point, the link layer set aside, and the three error enums of the IP
       decoders (err::ip / err::ipv4 / err::ipv6 HeaderError) read as the facts
       they name (IHL too small, version not the expected one);
     * the known class F11 (decidable). *)
From EP Require Import Base.Bytes Parse.Types Parse.Slices Parse.Cursor Parse.View.

Local Open Scope N_scope.

Definition rmap {A B} (f : A -> B) (r : res A) : res B :=
  match r with Ok a => Ok (f a) | Err e => Err e | Bug s => Bug s end.

(* ---- the rejection reason behind the three header error enums ------------ *)
(* ipv4::HeaderError::HeaderLengthSmallerThanHeader{ihl} and
   ip::HeaderError::Ipv4HeaderLengthSmallerThanHeader{ihl} are the same fact;
   ipv4/ipv6::HeaderError::UnexpectedVersion{v} and
   ip::HeaderError::UnsupportedIpVersion{v} are the same fact (this is also the
   mapping IpHeaders::from_ipv4_slice_lax applies itself). *)
Definition ip_err_canon (e : slice_error) : slice_error :=
  match e with
  | EContent (CeIpv4Ihl v) => EContent (CeIpIhl v)
  | EContent (CeIpv4Version v) => EContent (CeIpUnsupportedVersion v)
  | EContent (CeIpv6Version v) => EContent (CeIpUnsupportedVersion v)
  | e => e
  end.

(* same answer: equal values, equal rejection reasons *)
Definition same_answer {A} (r1 r2 : res A) : Prop :=
  match r1, r2 with
  | Ok a, Ok b => a = b
  | Err e1, Err e2 => ip_err_canon e1 = ip_err_canon e2
  | Bug a, Bug b => a = b
  | _, _ => False
  end.

(* ---- known finding F11 --------------------------------------------------- *)
(* the input ends inside the fixed part of the IPv4 header its first byte
   announces (or is empty: nothing is announced).  Cut-short IPv6 headers are
   NOT in the class: all entry points describe them alike (40, len, Ipv6Header). *)
Definition F11 (bs : bytes) : bool :=
  match bs with
  | [] => true
  | b :: _ => (N.shiftr b 4 =? 4) && (len bs <? 20)
  end.

(* ---- shifting observations by k bytes ------------------------------------ *)
Definition shw (k : N) (w : window) : window := (fst w + k, snd w).

Definition shift_vep (k : N) (e : vether_payload) : vether_payload :=
  mkVEp (vep_type e) (vep_src e) (shw k (vep_win e)).
Definition shift_vip (k : N) (p : vip_payload) : vip_payload :=
  mkVIp (vip_number p) (vip_frag p) (vip_src p) (shw k (vip_win p)).
Definition shift_vext (k : N) (x : vlink_ext) : vlink_ext :=
  match x with
  | VVlan w => VVlan (shw k w)
  | VMacsec h (VMpUnmodified e) => VMacsec (shw k h) (VMpUnmodified (shift_vep k e))
  | VMacsec h (VMpModified w) => VMacsec (shw k h) (VMpModified (shw k w))
  end.
Definition shift_vnet (k : N) (n : vnet) : vnet :=
  match n with
  | VIpv4 h a p => VIpv4 (shw k h) (option_map (shw k) a) (shift_vip k p)
  | VIpv6 h f fr x p => VIpv6 (shw k h) f fr (shw k x) (shift_vip k p)
  | VArp w => VArp (shw k w)
  end.
Definition shift_vtr (k : N) (t : vtransport) : vtransport :=
  match t with
  | VUdp w => VUdp (shw k w)
  | VTcp hl w => VTcp hl (shw k w)
  | VIcmpv4 w => VIcmpv4 (shw k w)
  | VIcmpv6 w => VIcmpv6 (shw k w)
  end.

(* the link layer is set aside: the two entry points see different ones *)
Definition shift_vpacket (k : N) (p : vpacket) : vpacket :=
  mkVPacket None (map (shift_vext k) (v_exts p)) (option_map (shift_vnet k) (v_net p))
            (option_map (shift_vtr k) (v_transport p)).

Definition shift_err (k : N) (e : slice_error) : slice_error :=
  match e with
  | ELen l => ELen (le_add_offset l k)
  | EContent c => EContent c
  end.

Definition shift_vres (k : N) (r : vres) : vres :=
  match r with
  | VOk p => VOk (shift_vpacket k p)
  | VErr e => VErr (shift_err k e)
  | VBug b => VBug b
  end.

(* link layer aside, nothing shifted *)
Definition nolink (r : vres) : vres :=
  match r with
  | VOk p => VOk (mkVPacket None (v_exts p) (v_net p) (v_transport p))
  | r => r
  end.

(* link layer aside and the IP error enums read as reasons *)
Definition canon_vres (r : vres) : vres :=
  match r with
  | VOk p => VOk (mkVPacket None (v_exts p) (v_net p) (v_transport p))
  | VErr e => VErr (ip_err_canon e)
  | VBug b => VBug b
  end.

(* ---- canonical record of an IP boundary result (group 2) ------------------ *)
(* what all twelve boundary implementations determine: the version, the header
   window, where the payload starts and ends, its protocol number,
   fragmentation flag and length source; for the lax ones additionally the
   `incomplete` flag and the stop error. *)
Record ip_boundary := mkIpB {
  ib_version : N;
  ib_header : window;
  ib_payload : vip_payload;
}.

Definition ib_of_ip_slice (i : ip_slice) : ip_boundary :=
  match i with
  | IpV4 v => mkIpB 4 (win_of (v4_header v)) (view_ipp (v4_payload v))
  | IpV6 v => mkIpB 6 (win_of (v6_header v)) (view_ipp (v6_payload v))
  end.
