(* Equiv/ReadValues6.v -- C06 group 3, header VALUE of Ipv6Header: the field-level
   decode models of C15 (BitFields/Model.v: Ipv6Header::read decodes the fields by
   hand from its 1 + 39 byte buffers, Ipv6Header::from_slice goes through
   Ipv6HeaderSlice::to_header) return the same struct. *)
From EP Require Import Base.Bytes BitFields.Model.
From Coq Require Import ZArith Lia ZifyN ZifyBool.

Local Open Scope N_scope.

Definition eof_of_len6 {A} (r : res A) : res A :=
  match r with Fail ErrLen => Fail ErrIo | r => r end.

Fixpoint upto6 (n : nat) : list N := match n with O => [] | S k => N.of_nat k :: upto6 k end.
Lemma upto6_in n : forall v, v < N.of_nat n -> In v (upto6 n).
Proof.
  induction n as [|n IH]; intros v H; [lia|]. cbn [upto6].
  destruct (N.eq_dec v (N.of_nat n)) as [E|E]; [left; auto|right; apply IH; lia].
Qed.

Lemma shl8_low b : b < 256 -> shl8 (N.land b 15) 4 = shl8 b 4.
Proof.
  intros Hb. apply N.eqb_eq.
  assert (H : forallb (fun b => shl8 (N.land b 15) 4 =? shl8 b 4) (upto6 256) = true) by (vm_compute; reflexivity).
  rewrite forallb_forall in H. apply H. apply upto6_in. change (N.of_nat 256) with 256. exact Hb.
Qed.

Lemma split40 (bs : bytes) : 40 <= len bs -> exists pre t, bs = pre ++ t /\ length pre = 40%nat.
Proof.
  intros H. exists (firstn 40 bs), (skipn 40 bs). split; [symmetry; apply firstn_skipn|].
  rewrite firstn_length. unfold len in H. lia.
Qed.

(* with the 40 fixed bytes present (shorter inputs: C06_read_cut_fixed_inside) *)
Theorem ip6_read_eq_from_slice bs : bytes_ok bs -> 40 <= len bs ->
  Ipv6Header_read bs = eof_of_len6 (Ipv6Header_from_slice bs).
Proof.
  intros Hb E.
  destruct (split40 bs E) as (pre & t & -> & Hpre).
  do 40 (destruct pre as [|? pre]; [discriminate Hpre|]). destruct pre; [|discriminate Hpre]. clear Hpre.
  assert (Hb0 : n < 256).
  { apply bytes_ok_app in Hb. destruct Hb as [Hb _]. apply bytes_ok_cons in Hb. exact (proj1 Hb). }
  unfold Ipv6Header_from_slice, Ipv6HeaderSlice_from_slice.
  replace (len _ <? 40) with false by (symmetry; apply N.ltb_ge; exact E).
  cbn [app Ipv6Header_read].
  unfold Ipv6Header_read_without_version.
  match goal with |- context [len ?l <? 39] => replace (len l <? 39) with false end.
  2:{ symmetry. apply N.ltb_ge. rewrite !len_cons. lia. }
  unfold V6S_to_header, V6S_traffic_class, V6S_flow_label, V6S_payload_length, V6S_next_header,
    V6S_hop_limit, V6S_source, V6S_destination, getu, getu_n.
  unfold take, drop, rd.
  change (N.to_nat 0) with 0%nat. change (N.to_nat 1) with 1%nat. change (N.to_nat 2) with 2%nat.
  change (N.to_nat 3) with 3%nat. change (N.to_nat 4) with 4%nat. change (N.to_nat 5) with 5%nat.
  change (N.to_nat 6) with 6%nat. change (N.to_nat 7) with 7%nat. change (N.to_nat 8) with 8%nat.
  change (N.to_nat 16) with 16%nat. change (N.to_nat 23) with 23%nat. change (N.to_nat 24) with 24%nat.
  change (N.to_nat 39) with 39%nat. change (N.to_nat 40) with 40%nat.
  cbn [firstn skipn nth_error bind].
  destruct (negb (N.shiftr n 4 =? 6)); [reflexivity|]. cbn [bind eof_of_len6].
  rewrite shl8_low by exact Hb0.
  unfold Ipv6FlowLabel_new_unchecked.
  destruct (be32 0 (N.land n0 15) n1 n2 <=? Ipv6FlowLabel_MAX_U32); cbn [bind]; [|reflexivity].
  unfold len. cbn [length]. reflexivity.
Qed.
