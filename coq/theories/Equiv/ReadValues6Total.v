(* Equiv/ReadValues6Total.v -- audit follow-up (C06): the C15 field-level models of Ipv6Header::from_slice /
   Ipv6Header::read (BitFields/Model.v), on which C06_read_value_ipv6 is stated, never return one of their
   model failures (OOB, UBRange, Panic, Other) on bytes: the value theorem does not hold "because both
   sides failed the same way". *)
From EP Require Import Base.Bytes BitFields.Model Equiv.ReadValues6.
From Coq Require Import ZArith Lia ZifyN ZifyBool.
Local Open Scope N_scope.

Definition proper6 {A} (r : res A) : Prop :=
  match r with
  | Val _ | Fail ErrLen | Fail ErrContent | Fail ErrIo => True
  | _ => False
  end.

Lemma land15_le b : N.land b 15 <= 15.
Proof. change 15 with (N.ones 4). rewrite N.land_ones. pose proof (N.mod_lt b (2 ^ 4) ltac:(discriminate)). change (N.ones 4) with 15. change (2^4) with 16 in H. lia. Qed.

Lemma flow_label_ok a b c : b < 256 -> c < 256 -> (be32 0 (N.land a 15) b c <=? Ipv6FlowLabel_MAX_U32) = true.
Proof.
  intros Hb Hc. apply N.leb_le. pose proof (land15_le a). unfold be32.
  change Ipv6FlowLabel_MAX_U32 with 1048575. lia.
Qed.

Lemma ip6_bitfields_from_slice_total bs : bytes_ok bs -> proper6 (Ipv6Header_from_slice bs).
Proof.
  intros Hb. unfold Ipv6Header_from_slice, Ipv6HeaderSlice_from_slice.
  destruct (len bs <? 40) eqn:E; [exact I|]. apply N.ltb_ge in E.
  destruct (split40 bs E) as (pre & t & -> & Hpre).
  do 40 (destruct pre as [|? pre]; [discriminate Hpre|]). destruct pre; [|discriminate Hpre]. clear Hpre.
  assert (B : n1 < 256 /\ n2 < 256).
  { apply bytes_ok_app in Hb. destruct Hb as [Hb _].
    repeat (apply bytes_ok_cons in Hb; let x := fresh in destruct Hb as [x Hb]). split; assumption. }
  destruct B as [B1 B2].
  unfold V6S_to_header, V6S_traffic_class, V6S_flow_label, V6S_payload_length, V6S_next_header,
    V6S_hop_limit, V6S_source, V6S_destination, getu, getu_n.
  unfold take, drop, rd.
  change (N.to_nat 0) with 0%nat. change (N.to_nat 1) with 1%nat. change (N.to_nat 2) with 2%nat.
  change (N.to_nat 3) with 3%nat. change (N.to_nat 4) with 4%nat. change (N.to_nat 5) with 5%nat.
  change (N.to_nat 6) with 6%nat. change (N.to_nat 7) with 7%nat. change (N.to_nat 8) with 8%nat.
  change (N.to_nat 16) with 16%nat. change (N.to_nat 24) with 24%nat. change (N.to_nat 40) with 40%nat.
  cbn [app firstn skipn nth_error bind].
  destruct (negb (N.shiftr n 4 =? 6)); [exact I|]. cbn [bind firstn skipn nth_error].
  unfold Ipv6FlowLabel_new_unchecked. rewrite (flow_label_ok n0 n1 n2 B1 B2). cbn [bind].
  unfold len. cbn [length]. exact I.
Qed.

Lemma ip6_bitfields_read_total bs : bytes_ok bs -> proper6 (Ipv6Header_read bs).
Proof.
  intros Hb. destruct (N.lt_ge_cases (len bs) 40) as [L|L].
  - unfold Ipv6Header_read. destruct bs as [|v r]; [exact I|].
    destruct (negb (N.shiftr v 4 =? 6)); [exact I|].
    unfold Ipv6Header_read_without_version. rewrite len_cons in L.
    replace (len r <? 39) with true by (symmetry; apply N.ltb_lt; lia). exact I.
  - rewrite (ip6_read_eq_from_slice bs Hb L).
    pose proof (ip6_bitfields_from_slice_total bs Hb) as P.
    destruct (Ipv6Header_from_slice bs) as [h|[]]; try contradiction; exact I.
Qed.
