(* Equiv/ReadValuesLink.v -- C06 group 3, header VALUES, link layer + ARP:
   for Ethernet2Header, SingleVlanHeader, LinuxSllHeader, MacsecHeader and
   ArpPacket the field-level decode model of `T::read` and of `T::from_slice`
   (the C08 models Roundtrip/{Eth,Vlan,Sll,Macsec,Arp}.v) return the SAME
   decoded struct and the same unread rest on EVERY byte string; a slice Len
   error corresponds to the reader's UnexpectedEof (`eof_of_len`, from
   Equiv/ReadValues.v).  Plain `=` of Roundtrip.Common.res values: struct,
   rest and error kind.  The EOOB / EPanic branches of the models need no
   hypothesis: either both sides run into the same one (never, see the
   *_err lemmas: a to_header failure is never a Len error) or the branch is
   shown unreachable inside the proof.

   MacsecHeader::from_slice and ArpPacket::from_slice return the header only
   (no rest); `read` leaves the reader behind the header.  For these two the
   right-hand side pairs the header with `drop (header_len h) bs`, the model's
   own header length function (mac_header_len / arp_packet_len). *)
From EP Require Import IoFault.Proofs.
From EP Require Import Base.Bytes Roundtrip.CommonProofs Roundtrip.LinkNetLemmas.
From EP Require Import Roundtrip.Eth Roundtrip.Vlan Roundtrip.Sll Roundtrip.Macsec Roundtrip.Arp
                       Roundtrip.ArpProofs.
From EP Require Import Equiv.ReadValues.
From EP Require Import Roundtrip.Common.
From Coq Require Import ZArith Lia ZifyN ZifyBool.

Local Open Scope N_scope.

(* ---- Ethernet2Header ---------------------------------------------------------------- *)
Lemma eth_to_header_err s e : eth_to_header s = Err e -> e = EOOB.
Proof.
  unfold eth_to_header.
  destruct (slice_range s 0 6), (slice_range s 6 12), (slice_range s 12 14) as [[|? [|? [|? ?]]]|];
    intros H; try discriminate H; now injection H as <-.
Qed.

Theorem eth_read_eq_from_slice bs : eth_read bs = eof_of_len (eth_from_slice bs).
Proof.
  unfold eth_read, eth_from_slice, eth_slice_from_slice, read_exact, slice_from.
  destruct (len bs <? 14) eqn:E; [reflexivity|]. apply N.ltb_ge in E.
  replace (14 <=? len bs) with true by (symmetry; apply N.leb_le; lia).
  destruct (eth_to_header (take 14 bs)) as [h|e] eqn:Eh; [reflexivity|].
  rewrite (eth_to_header_err _ _ Eh). reflexivity.
Qed.

(* the EOOB branch of to_header is dead behind the length check *)
Lemma eth_to_header_ok bs : 14 <= len bs -> exists h, eth_to_header (take 14 bs) = Ok h.
Proof.
  intros E. destruct (split_n 14 bs E) as (pre & t & -> & Hpre).
  do 14 (destruct pre as [|? pre]; [discriminate Hpre|]). destruct pre; [|discriminate Hpre].
  eexists. reflexivity.
Qed.

Example eth_read_eq_from_slice_ex :
  let bs := [1;2;3;4;5;6; 7;8;9;10;11;12; 8;0; 69;0] in
  eth_read bs = Ok ({| eth_source := [7;8;9;10;11;12]; eth_destination := [1;2;3;4;5;6];
                       eth_ether_type := 2048 |}, [69;0])
  /\ eth_from_slice bs = eth_read bs.
Proof. vm_compute. split; reflexivity. Qed.

(* ---- SingleVlanHeader --------------------------------------------------------------- *)
Lemma vl_to_header_err s e : vl_to_header s = Err e -> e = EOOB.
Proof.
  unfold vl_to_header. destruct s as [|b0 [|b1 [|b2 [|b3 t]]]]; intros H; try discriminate H;
    now injection H as <-.
Qed.

Theorem vl_read_eq_from_slice bs : vl_read bs = eof_of_len (vl_from_slice bs).
Proof.
  unfold vl_read, vl_from_slice, vl_slice_from_slice, read_exact, slice_from.
  destruct (len bs <? 4) eqn:E; [reflexivity|]. apply N.ltb_ge in E.
  replace (4 <=? len bs) with true by (symmetry; apply N.leb_le; lia).
  destruct (vl_to_header (take 4 bs)) as [h|e] eqn:Eh; [reflexivity|].
  rewrite (vl_to_header_err _ _ Eh). reflexivity.
Qed.

Lemma vl_to_header_ok bs : 4 <= len bs -> exists h, vl_to_header (take 4 bs) = Ok h.
Proof.
  intros E. destruct (split_n 4 bs E) as (pre & t & -> & Hpre).
  do 4 (destruct pre as [|? pre]; [discriminate Hpre|]). destruct pre; [|discriminate Hpre].
  eexists. reflexivity.
Qed.

Example vl_read_eq_from_slice_ex :
  let bs := [177; 35; 134; 221; 96] in
  vl_read bs = Ok ({| vl_pcp := 5; vl_drop_eligible_indicator := true; vl_vlan_id := 291;
                      vl_ether_type := 34525 |}, [96])
  /\ vl_from_slice bs = vl_read bs.
Proof. vm_compute. split; reflexivity. Qed.

(* ---- LinuxSllHeader ----------------------------------------------------------------- *)
(* read decodes with from_bytes (content checks inside), from_slice checks the content in
   LinuxSllHeaderSlice::from_slice and decodes a second time in to_header
   (try_from(..).unwrap_unchecked()): same value, same content error, in the same order
   (packet type before ARP hardware id), both behind the length check. *)
Theorem sll_read_eq_from_slice bs : sll_read bs = eof_of_len (sll_from_slice bs).
Proof.
  unfold sll_read, sll_from_slice, sll_slice_from_slice, read_exact, slice_from.
  destruct (len bs <? 16) eqn:E; [reflexivity|]. apply N.ltb_ge in E.
  replace (16 <=? len bs) with true by (symmetry; apply N.leb_le; lia).
  destruct (split_n 16 bs E) as (pre & t & -> & Hpre).
  do 16 (destruct pre as [|? pre]; [discriminate Hpre|]). destruct pre; [|discriminate Hpre]. clear Hpre E.
  cbv -[be16 sll_packet_type_try_from sll_protocol_try_from].
  destruct (sll_packet_type_try_from (be16 n n0)) as [pt|] eqn:E1; [|reflexivity].
  destruct (sll_protocol_try_from (be16 n1 n2) (be16 n13 n14)) as [p|] eqn:E2; [|reflexivity].
  cbv -[be16 sll_packet_type_try_from sll_protocol_try_from]. rewrite E1, E2. reflexivity.
Qed.

Example sll_read_eq_from_slice_ex :
  let bs := [0;4; 0;1; 0;6; 1;2;3;4;5;6;0;0; 8;0; 69] in
  sll_read bs = Ok ({| sll_packet_type := 4; sll_arp_hrd_type := 1;
                       sll_sender_address_valid_length := 6;
                       sll_sender_address := [1;2;3;4;5;6;0;0];
                       sll_protocol_type := SllEtherType 2048 |}, [69])
  /\ sll_from_slice bs = sll_read bs.
Proof. vm_compute. split; reflexivity. Qed.

(* ---- MacsecHeader --------------------------------------------------------------------- *)
(* read: read_exact(6), version / short-length checks, read_exact(required_len - 6) into a
   zeroed [u8;16], to_header of &bytes[..required_len]; from_slice: the same checks in the same
   order on the slice, to_header of &slice[..required_len].  The `required_len <= 16` EPanic
   branch of read and the slice_range EPanic branch are shown dead in mac_tail. *)
Lemma mac_unmod_bits tci : (band tci 12 =? 0) = negb (nz (band tci 8)) && negb (nz (band tci 4)).
Proof.
  unfold band, nz. change 12 with (N.lor 8 4). rewrite N.land_lor_distr_r.
  destruct (N.eqb_spec (N.land tci 8) 0) as [A|A], (N.eqb_spec (N.land tci 4) 0) as [B|B]; cbn [negb andb].
  - apply N.eqb_eq. rewrite A, B. reflexivity.
  - apply N.eqb_neq. intros H. apply N.lor_eq_0_iff in H. tauto.
  - apply N.eqb_neq. intros H. apply N.lor_eq_0_iff in H. tauto.
  - apply N.eqb_neq. intros H. apply N.lor_eq_0_iff in H. tauto.
Qed.

Lemma mac_rd16_err s i j e : mac_rd16 s i j = Err e -> e = EOOB.
Proof. unfold mac_rd16. destruct (rd s i), (rd s j); intros H; try discriminate H; now injection H as <-. Qed.

Lemma mac_sl_ptype_err s tci e : mac_sl_ptype s tci = Err e -> e = EOOB.
Proof.
  unfold mac_sl_ptype. destruct (nz (band tci 8)), (nz (band tci 4)), (nz (band tci 32)); try discriminate.
  - destruct (mac_rd16 s 14 15) eqn:R; [discriminate|]. intros H. injection H as <-. eapply mac_rd16_err; eauto.
  - destruct (mac_rd16 s 6 7) eqn:R; [discriminate|]. intros H. injection H as <-. eapply mac_rd16_err; eauto.
Qed.

Lemma mac_sl_sci_err s tci e : mac_sl_sci s tci = Err e -> e = EOOB.
Proof.
  unfold mac_sl_sci. destruct (nz (band tci 32)); [|discriminate].
  destruct (rd s 6), (rd s 7), (rd s 8), (rd s 9), (rd s 10), (rd s 11), (rd s 12), (rd s 13);
    intros H; try discriminate H; now injection H as <-.
Qed.

Lemma mac_to_header_err s e : mac_to_header s = Err e -> e = EOOB.
Proof.
  unfold mac_to_header.
  destruct (rd s 0) as [tci|], (rd s 1), (rd s 2), (rd s 3), (rd s 4), (rd s 5);
    try (intros H; now injection H as <-).
  destruct (mac_sl_ptype s tci) eqn:P.
  - destruct (mac_sl_sci s tci) eqn:S; [discriminate|]. intros H. injection H as <-. eapply mac_sl_sci_err; eauto.
  - intros H. injection H as <-. eapply mac_sl_ptype_err; eauto.
Qed.

Lemma mac_to_header_len s tci h :
  rd s 0 = Some tci -> mac_to_header s = Ok h -> mac_header_len h = mac_required_len tci.
Proof.
  intros R H. unfold mac_to_header in H. rewrite R in H.
  destruct (rd s 1), (rd s 2), (rd s 3), (rd s 4), (rd s 5); try discriminate H.
  destruct (mac_sl_ptype s tci) as [p|] eqn:P; [|discriminate H].
  destruct (mac_sl_sci s tci) as [sci|] eqn:S; [|discriminate H].
  injection H as <-. unfold mac_header_len, mac_required_len. cbn [mac_sci mac_ptype].
  assert (A : mac_sci_some sci = nz (band tci 32)).
  { unfold mac_sl_sci in S. destruct (nz (band tci 32)); [|now injection S as <-].
    destruct (rd s 6), (rd s 7), (rd s 8), (rd s 9), (rd s 10), (rd s 11), (rd s 12), (rd s 13);
      try discriminate S. now injection S as <-. }
  assert (B : mac_is_unmod p = (band tci 12 =? 0)).
  { rewrite mac_unmod_bits. unfold mac_sl_ptype in P.
    destruct (nz (band tci 8)), (nz (band tci 4)); cbn [negb andb]; try (now injection P as <-).
    destruct (nz (band tci 32)).
    - destruct (mac_rd16 s 14 15); [|discriminate P]. now injection P as <-.
    - destruct (mac_rd16 s 6 7); [|discriminate P]. now injection P as <-. }
  rewrite A, B. destruct (nz (band tci 32)), (band tci 12 =? 0); reflexivity.
Qed.

Lemma mac_required_len_bounds tci : 6 <= mac_required_len tci <= 16.
Proof. unfold mac_required_len. destruct (band tci 12 =? 0), (nz (band tci 32)); lia. Qed.


Lemma mac_tail bs tci req : 6 <= len bs -> rd bs 0 = Some tci -> req = mac_required_len tci ->
  match (if 6 <? req
         then if req <=? 16 then read_exact (drop 6 bs) (req - 6) else Err EPanic
         else Ok ([], drop 6 bs)) with
  | Ok (more, r2) =>
      match slice_range (take 6 bs ++ more ++ zeros (16 - 6 - len more)) 0 req with
      | Some hs => match mac_to_header hs with Ok h => Ok (h, r2) | Err e => Err e end
      | None => Err EPanic
      end
  | Err e => Err e
  end
  = eof_of_len
      match (match (if len bs <? req then Err ELen else Ok (take req bs)) with
             | Ok hs => mac_to_header hs
             | Err e => Err e
             end) with
      | Ok h => Ok (h, drop (mac_header_len h) bs)
      | Err e => Err e
      end.
Proof.
  intros E6 R0 Hreq. pose proof (mac_required_len_bounds tci) as RB. rewrite <- Hreq in RB.
  assert (X : (if 6 <? req
               then if req <=? 16 then read_exact (drop 6 bs) (req - 6) else Err EPanic
               else Ok ([], drop 6 bs)) = read_exact (drop 6 bs) (req - 6)).
  { destruct (6 <? req) eqn:L.
    - rewrite (leb_true req 16) by lia. reflexivity.
    - apply N.ltb_ge in L. replace (req - 6) with 0 by lia. unfold read_exact.
      rewrite (ltb_false _ 0) by lia. reflexivity. }
  rewrite X. unfold read_exact. rewrite len_drop.
  destruct (len bs <? req) eqn:Er.
  - apply N.ltb_lt in Er. replace (len bs - 6 <? req - 6) with true by (symmetry; apply N.ltb_lt; lia).
    reflexivity.
  - apply N.ltb_ge in Er. rewrite (ltb_false (len bs - 6) (req - 6)) by lia.
    set (more := take (req - 6) (drop 6 bs)).
    assert (TB : take 6 bs ++ more = take req bs).
    { unfold more. replace req with (6 + (req - 6)) at 2 by lia. symmetry. apply take_drop_split. }
    assert (LT : len (take req bs) = req) by (rewrite len_take; lia).
    assert (SR : slice_range (take 6 bs ++ more ++ zeros (16 - 6 - len more)) 0 req = Some (take req bs)).
    { rewrite app_assoc, TB. unfold slice_range. rewrite len_app, LT.
      replace ((0 <=? req) && (req <=? req + len (zeros (16 - 6 - len more)))) with true
        by (symmetry; apply andb_true_intro; split; apply N.leb_le; lia).
      rewrite drop_0, N.sub_0_r. f_equal. apply take_app_len. symmetry. exact LT. }
    rewrite SR. rewrite drop_drop. replace (6 + (req - 6)) with req by lia.
    destruct (mac_to_header (take req bs)) as [h|e] eqn:H.
    + assert (R0' : rd (take req bs) 0 = Some tci) by (rewrite rd_take_lt by lia; exact R0).
      rewrite (mac_to_header_len _ tci h R0' H), <- Hreq. reflexivity.
    + rewrite (mac_to_header_err _ _ H). reflexivity.
Qed.

(* MacsecHeader::from_slice returns the header only: the rest of the reader is compared with
   the slice behind header_len().  No hypothesis: tci / short length are arbitrary N. *)
Theorem mac_read_eq_from_slice bs :
  mac_read bs = eof_of_len (match mac_from_slice bs with
                            | Ok h => Ok (h, drop (mac_header_len h) bs)
                            | Err e => Err e
                            end).
Proof.
  unfold mac_read, mac_from_slice, mac_slice_from_slice. unfold read_exact at 1.
  destruct (len bs <? 6) eqn:E6; [reflexivity|]. apply N.ltb_ge in E6.
  rewrite !rd_take_lt by lia.
  destruct (rd_lt_Some bs 0 ltac:(lia)) as [tci R0]. destruct (rd_lt_Some bs 1 ltac:(lia)) as [b1 R1].
  rewrite R0, R1.
  destruct (nz (band tci 128)); [reflexivity|].
  cbv zeta. set (req := mac_required_len tci) in *.
  destruct (band tci 12 =? 0) eqn:U, (band b1 63 =? 1) eqn:B; cbn [andb]; try reflexivity;
    apply (mac_tail bs tci req E6 R0 eq_refl).
Qed.

Example mac_read_eq_from_slice_ex :
  let bs := [32+3; 5; 0;0;1;2; 1;2;3;4;5;6;7;8; 8;0; 69;0] in
  mac_read bs = Ok ({| mac_ptype := MacUnmodified 2048; mac_endstation_id := false; mac_scb := false;
                       mac_an := 3; mac_short_len := 5; mac_packet_nr := 258;
                       mac_sci := Some 72623859790382856 |}, [69;0])
  /\ mac_from_slice bs = Ok {| mac_ptype := MacUnmodified 2048; mac_endstation_id := false; mac_scb := false;
                       mac_an := 3; mac_short_len := 5; mac_packet_nr := 258;
                       mac_sci := Some 72623859790382856 |}.
Proof. vm_compute. split; reflexivity. Qed.

(* ---- ArpPacket ------------------------------------------------------------------------ *)
Lemma split_len (k : N) (bs : bytes) : k <= len bs -> exists pre t, bs = pre ++ t /\ len pre = k.
Proof.
  intros H. destruct (split_n (N.to_nat k) bs) as (pre & t & E & L); [lia|].
  exists pre, t. split; [exact E|]. unfold len. lia.
Qed.

(* ArpPacket::from_slice returns the packet only: the rest of the reader is compared with the
   slice behind packet_len().  bytes_ok: the two size octets are < 256 (for larger "bytes" the
   model of read runs into the from_raw_parts_mut EPanic branch, which a real u8 cannot reach). *)
Theorem arp_read_eq_from_slice bs : bytes_ok bs ->
  arp_read bs = eof_of_len (match arp_from_slice bs with
                            | Ok h => Ok (h, drop (arp_packet_len h) bs)
                            | Err e => Err e
                            end).
Proof.
  intros Hb. unfold arp_read, arp_from_slice, arp_slice_from_slice. unfold read_exact at 1.
  destruct (len bs <? 8) eqn:E; [reflexivity|]. apply N.ltb_ge in E.
  destruct (split_n 8 bs E) as (pre & t & -> & Hpre).
  do 8 (destruct pre as [|? pre]; [discriminate Hpre|]). destruct pre; [|discriminate Hpre]. clear Hpre E.
  rename n3 into hs, n4 into ps.
  set (F := [n; n0; n1; n2; hs; ps; n5; n6]) in *.
  change (n :: n0 :: n1 :: n2 :: hs :: ps :: n5 :: n6 :: t) with (F ++ t) in *.
  assert (LF : len F = 8) by reflexivity.
  assert (R4 : rd (F ++ t) 4 = Some hs) by reflexivity.
  assert (R5 : rd (F ++ t) 5 = Some ps) by reflexivity.
  rewrite R4, R5.
  assert (Hhs : hs < 256) by (eapply rd_ok; eauto).
  assert (Hps : ps < 256) by (eapply rd_ok; eauto).
  replace (take 8 (F ++ t)) with F by reflexivity.
  replace (drop 8 (F ++ t)) with t by reflexivity.
  unfold F at 1. cbv iota.
  replace ((255 <? hs) || (255 <? ps)) with false
    by (symmetry; apply orb_false_intro; apply N.ltb_ge; lia).
  rewrite len_app, LF.
  destruct (8 + len t <? 8 + hs * 2 + ps * 2) eqn:EL.
  - apply N.ltb_lt in EL. unfold read_exact.
    destruct (len t <? hs) eqn:A1; [reflexivity|]. apply N.ltb_ge in A1. cbv iota beta. rewrite !len_drop.
    destruct (len t - hs <? ps) eqn:A2; [reflexivity|]. apply N.ltb_ge in A2. cbv iota beta. rewrite !len_drop.
    destruct (len t - hs - ps <? hs) eqn:A3; [reflexivity|]. apply N.ltb_ge in A3. cbv iota beta. rewrite !len_drop.
    destruct (len t - hs - ps - hs <? ps) eqn:A4; [reflexivity|]. apply N.ltb_ge in A4.
    exfalso. lia.
  - apply N.ltb_ge in EL.
    destruct (split_len hs t ltac:(lia)) as (A & t1 & -> & LA). rewrite len_app in EL.
    destruct (split_len ps t1 ltac:(lia)) as (B & t2 & -> & LB). rewrite len_app in EL.
    destruct (split_len hs t2 ltac:(lia)) as (C & t3 & -> & LC). rewrite len_app in EL.
    destruct (split_len ps t3 ltac:(lia)) as (D & rest & -> & LD).
    rewrite (read_exact_app' A _ hs LA), (read_exact_app' B _ ps LB),
            (read_exact_app' C _ hs LC), (read_exact_app' D _ ps LD).
    replace (F ++ A ++ B ++ C ++ D ++ rest) with ((F ++ A ++ B ++ C ++ D) ++ rest)
      by (rewrite <- !app_assoc; reflexivity).
    assert (LP : len (F ++ A ++ B ++ C ++ D) = 8 + hs * 2 + ps * 2)
      by (rewrite !len_app, LF, LA, LB, LC, LD; lia).
    rewrite (take_app_len (F ++ A ++ B ++ C ++ D) rest) by (symmetry; exact LP).
    unfold F at 1. rewrite (arp_to_packet_windows n n0 n1 n2 hs ps n5 n6 A B C D LA LB LC LD Hhs Hps).
    unfold arp_packet_len. cbn [arp_hw_addr_size arp_proto_addr_size].
    rewrite (drop_app_len (F ++ A ++ B ++ C ++ D) rest) by (symmetry; exact LP).
    reflexivity.
Qed.

Example arp_read_eq_from_slice_ex :
  let bs := [0;1; 8;0; 2; 1; 0;1;  10;11; 20; 12;13; 21; 99] in
  arp_read bs = Ok ({| arp_hw_addr_type := 1; arp_proto_addr_type := 2048; arp_hw_addr_size := 2;
                       arp_proto_addr_size := 1; arp_operation := 1;
                       arp_sender_hw_addr_buf := [10;11]; arp_sender_protocol_addr_buf := [20];
                       arp_target_hw_addr_buf := [12;13]; arp_target_protocol_addr_buf := [21] |}, [99])
  /\ arp_from_slice bs = Ok {| arp_hw_addr_type := 1; arp_proto_addr_type := 2048; arp_hw_addr_size := 2;
                       arp_proto_addr_size := 1; arp_operation := 1;
                       arp_sender_hw_addr_buf := [10;11]; arp_sender_protocol_addr_buf := [20];
                       arp_target_hw_addr_buf := [12;13]; arp_target_protocol_addr_buf := [21] |}
  /\ bytes_ok bs.
Proof. split; [vm_compute; reflexivity|]. split; [vm_compute; reflexivity|]. apply bytes_okb_spec. vm_compute. reflexivity. Qed.
