(* Equiv/ReadTotal.v -- C06 group 3: on a std::io::Cursor no reader of the crate
   ends in an outcome the model calls impossible (OBad): with C16's totality
   theorems the only I/O failure is the end of the data. *)
From EP Require Import Base.Bytes Parse.Types Parse.Slices Parse.Cursor Parse.HdrModel Parse.HdrView
  IoFault.Spec IoFault.Model IoFault.Proofs Equiv.Model Equiv.ModelRead Equiv.Proofs Equiv.ReadProofs
  Equiv.ReadBase Equiv.ReadSimple.
From Coq Require Import ZArith Lia ZifyN ZifyBool.

Local Open Scope N_scope.

Definition outcome_ok (o : outcome) : Prop := forall b, o <> OBad b.

Lemma run_r_eof p : forall st, st_inv st -> src_err (rs_src st) = false ->
  forall k, fst (run_r p st) = QIo k -> k = KEof.
Proof.
  induction p as [a|c|e| | |n k IH|layer k IH|m ls off layer k IH]; intros st Hinv He kk.
  1-5: cbn [run_r fst]; discriminate.
  - destruct st as [s lim]. destruct Hinv as [Hc Hl]. cbn [rs_src rs_lim] in *.
    cbn [run_r rs_lim rs_src]. destruct lim as [r|].
    + destruct (N.lt_ge_cases (lr_max r - lr_read r) n) as [Hn|Hn].
      * rewrite lr_read_exact_len by assumption. cbn [fst]. discriminate.
      * rewrite lr_read_exact_within by assumption.
        destruct (n <=? len (src_data s)) eqn:E.
        -- apply N.leb_le in E. apply IH.
           ++ split; cbn [rs_src rs_lim src_chunk lr_read lr_max]; [exact Hc|lia].
           ++ cbn [rs_src src_err]. exact He.
        -- cbn [fst]. unfold src_kind. rewrite He. intros H. now injection H as <-.
    + destruct (N.le_gt_cases n (len (src_data s))) as [E|E].
      * rewrite io_read_exact_ok by assumption. apply IH.
        -- split; cbn [rs_src rs_lim src_chunk]; [exact Hc|exact I].
        -- cbn [rs_src src_err]. exact He.
      * rewrite io_read_exact_fail by assumption. cbn [fst]. unfold src_kind. rewrite He.
        intros H. now injection H as <-.
  - destruct st as [s lim]. destruct Hinv as [Hc Hl]. cbn [rs_src rs_lim] in *.
    cbn [run_r rs_lim rs_src]. destruct lim as [r|]; [|cbn [fst]; discriminate].
    unfold lr_start_layer, checked_sub.
    replace (lr_read r <=? lr_max r) with true by (symmetry; apply N.leb_le; lia).
    apply IH.
    + split; cbn [rs_src rs_lim src_chunk lr_read lr_max]; [exact Hc|lia].
    + exact He.
  - destruct st as [s lim]. destruct Hinv as [Hc Hl]. cbn [rs_src rs_lim] in *.
    cbn [run_r rs_lim rs_src]. destruct lim as [r|]; [cbn [fst]; discriminate|].
    apply IH.
    + split; cbn [rs_src rs_lim src_chunk lr_read lr_max lr_new]; [exact Hc|lia].
    + exact He.
Qed.

Lemma good_outcome_ok p bs :
  good (fst (run_r p (mk_rstate (cursor_src bs) None))) ->
  outcome_ok (outcome_of_run (run_r p (mk_rstate (cursor_src bs) None))).
Proof.
  intros Hg b.
  pose proof (run_r_eof p (mk_rstate (cursor_src bs) None)) as He.
  destruct (run_r p (mk_rstate (cursor_src bs) None)) as [q st]. cbn [fst] in *.
  destruct q as [a|k|e|c| | |]; cbn [outcome_of_run good] in *; try discriminate; try contradiction.
  rewrite (He ltac:(split; cbn; [lia|exact I]) eq_refl k eq_refl). discriminate.
Qed.

Lemma read_outcome_ok t bs : t <> HLinuxSll -> outcome_ok (read_outcome t bs).
Proof.
  intros Ht.
  assert (E : read_outcome t bs = outcome_of_run (run_r (read_prog t) (mk_rstate (cursor_src bs) None))).
  { destruct t; try reflexivity. now elim Ht. }
  rewrite E. apply good_outcome_ok.
  destruct t; try (apply plain_readers_good; [unfold plain_readers, read_prog; cbn [In]; tauto|cbn; lia]).
  - apply (proj2 (ext_readers_good false start (cursor_src bs) (mk_limrd 0 0 0 0 0) ltac:(cbn; lia) ltac:(cbn; lia))).
  - apply (proj1 (ext_readers_good false start (cursor_src bs) (mk_limrd 0 0 0 0 0) ltac:(cbn; lia) ltac:(cbn; lia))).
Qed.

Lemma sll_read_ok bs : outcome_ok (read_outcome HLinuxSll bs).
Proof.
  intros b. unfold read_outcome, sll_read.
  destruct (len bs <? 16) eqn:E; ltb_tac.
  - rewrite io_read_exact_fail by (cbn; lia). discriminate.
  - rewrite io_read_exact_ok by (cbn; lia). cbn [cursor_src src_data].
    getb bs 0 b0 H0. getb bs 1 b1 H1. getb bs 2 b2 H2. getb bs 3 b3 H3.
    getb bs 14 b14 H14. getb bs 15 b15 H15.
    unfold sll_from_bytes. rewrite !rd_take by lia. rewrite H0, H1, H2, H3, H14, H15.
    unfold LinuxSll.packet_type_try_from.
    destruct (be16 b0 b1 <=? 7); [|discriminate].
    unfold LinuxSll.protocol_type_try_from.
    repeat match goal with |- context [if ?c then _ else _] => destruct c end; discriminate.
Qed.

Lemma eq_same_reason t bs :
  read_outcome t bs = slice_outcome t bs -> same_reason (read_outcome t bs) (slice_outcome t bs).
Proof.
  intros E. apply same_reason_eq; [exact E|].
  destruct t; try (apply read_outcome_ok; discriminate). apply sll_read_ok.
Qed.
