(* Equiv/ReadValuesNet.v -- C06 group 3, header VALUES, network / transport layer:
   for UdpHeader, Ipv6RawExtHeader, IpAuthHeader, Ipv4Extensions, Icmpv4Header and
   Icmpv6Header the field-level decode model of `T::read` and of `T::from_slice`
   (the C08 models Roundtrip/{Udp,RawExt,Auth,Exts4,Icmp4,Icmp6}.v) return the SAME
   decoded struct and the same unread rest; a slice Len error corresponds to the
   reader's UnexpectedEof (`eof_of_len`, from Equiv/ReadValues.v).  Plain `=` of
   Roundtrip.Common.res values: struct, rest and error kind.

   Hypotheses, all necessary:
   * `bytes_ok bs` (RawExt, Auth, Exts4): the length octet is a u8.  For a "byte" >= 256 the
     model of read runs into its `&mut buffer[..n]` EPanic branch, which a real u8 cannot
     reach; under bytes_ok the EPanic / EOOB branches are shown dead inside the proofs.
   * Icmpv4: NOT (timestamp | timestamp reply with code 0, followed by more data).
     Icmpv4Slice::from_slice wants the slice to END with the 20 byte message (Len error
     otherwise), read takes the first 20 bytes: `icmp4_ts_trailing_differs` is the witness,
     `icmp4_read_eq_from_slice_ts` the exact relation inside the class.
   * Icmpv6: `len bs <= u32::MAX`.  Icmpv6Slice::from_slice rejects longer slices, read has
     no limit: `icmp6_read_long`; `icmp6_read_eq_from_slice_prefix` is the unconditional form.
   No type of this file needs a `cut_fixed`-style exclusion: every content check of these
   readers sits behind the read_exact of the bytes it looks at, in the order of from_slice. *)
From EP Require Import IoFault.Proofs.
From EP Require Import Base.Bytes.
From EP Require Import CtlMsg.Spec CtlMsg.Model CtlMsg.Proofs.
From EP Require Import Roundtrip.CommonProofs Roundtrip.LinkNetLemmas.
From EP Require Import Roundtrip.Auth Roundtrip.RawExt Roundtrip.Udp Roundtrip.Exts4.
From EP Require Import Roundtrip.Icmp4 Roundtrip.Icmp4Proofs Roundtrip.Icmp6 Roundtrip.Icmp6Proofs.
From EP Require Import Equiv.ReadValues.
From EP Require Import Roundtrip.Common.
From Coq Require Import ZArith Lia ZifyN ZifyBool.

Local Open Scope N_scope.

Lemma split_len' (k : N) (bs : bytes) : k <= len bs -> exists pre t, bs = pre ++ t /\ len pre = k.
Proof.
  intros H. destruct (split_n (N.to_nat k) bs) as (pre & t & E & L); [lia|].
  exists pre, t. split; [exact E|]. unfold len. lia.
Qed.

(* ---- UdpHeader ------------------------------------------------------------------------ *)
Theorem udp_read_eq_from_slice bs : udp_read bs = eof_of_len (udp_from_slice bs).
Proof.
  unfold udp_read, udp_from_slice, udp_slice_from_slice, read_exact, slice_from.
  destruct (len bs <? 8) eqn:E; [reflexivity|]. apply N.ltb_ge in E.
  replace (8 <=? len bs) with true by (symmetry; apply N.leb_le; lia).
  destruct (split_n 8 bs E) as (pre & t & -> & Hpre).
  do 8 (destruct pre as [|? pre]; [discriminate Hpre|]). destruct pre; [|discriminate Hpre].
  reflexivity.
Qed.

Example udp_read_eq_from_slice_ex :
  let bs := [0;53; 4;0; 0;9; 171;205; 7] in
  udp_read bs = Ok ({| udp_source_port := 53; udp_destination_port := 1024; udp_length := 9;
                       udp_checksum := 43981 |}, [7])
  /\ udp_from_slice bs = udp_read bs.
Proof. vm_compute. split; reflexivity. Qed.

(* ---- Ipv6RawExtHeader ----------------------------------------------------------------- *)
Theorem rx_read_eq_from_slice bs : bytes_ok bs -> rx_read bs = eof_of_len (rx_from_slice bs).
Proof.
  intros Hb. unfold rx_read, rx_from_slice, rx_slice_from_slice. unfold read_exact at 1.
  destruct (len bs <? 2) eqn:E2.
  { apply N.ltb_lt in E2. replace (len bs <? 8) with true by (symmetry; apply N.ltb_lt; lia). reflexivity. }
  apply N.ltb_ge in E2.
  destruct (split_n 2 bs E2) as (pre & t & -> & Hpre).
  do 2 (destruct pre as [|? pre]; [discriminate Hpre|]). destruct pre; [|discriminate Hpre]. clear Hpre E2.
  rename n into b0, n0 into b1.
  set (F := [b0; b1]) in *. change (b0 :: b1 :: t) with (F ++ t) in *.
  assert (LF : len F = 2) by reflexivity.
  assert (R1 : rd (F ++ t) 1 = Some b1) by reflexivity. rewrite R1.
  assert (Hb1 : b1 < 256) by (eapply rd_ok; eauto).
  replace (take 2 (F ++ t)) with F by reflexivity.
  replace (drop 2 (F ++ t)) with t by reflexivity.
  unfold F at 1. cbv iota zeta.
  unfold RX_MAX_PAYLOAD_LEN.
  replace (2046 <? b1 * 8 + 6) with false by (symmetry; apply N.ltb_ge; lia).
  rewrite len_app, LF. unfold read_exact.
  destruct (len t <? b1 * 8 + 6) eqn:EL.
  - apply N.ltb_lt in EL. destruct (2 + len t <? 8); [reflexivity|].
    replace (2 + len t <? (b1 + 1) * 8) with true by (symmetry; apply N.ltb_lt; lia). reflexivity.
  - apply N.ltb_ge in EL.
    replace (2 + len t <? 8) with false by (symmetry; apply N.ltb_ge; lia).
    replace (2 + len t <? (b1 + 1) * 8) with false by (symmetry; apply N.ltb_ge; lia).
    destruct (split_len' (b1 * 8 + 6) t EL) as (P & rest & -> & LP).
    rewrite (take_app_len P rest) by (symmetry; exact LP).
    rewrite (drop_app_len P rest) by (symmetry; exact LP).
    assert (LH : len (F ++ P) = (b1 + 1) * 8) by (rewrite len_app, LF, LP; lia).
    replace (F ++ P ++ rest) with ((F ++ P) ++ rest) by (rewrite <- app_assoc; reflexivity).
    rewrite (take_app_len (F ++ P) rest) by (symmetry; exact LH).
    unfold slice_from. rewrite LH, len_app, LH.
    replace ((b1 + 1) * 8 <=? (b1 + 1) * 8 + len rest) with true by (symmetry; apply N.leb_le; lia).
    rewrite (drop_app_len (F ++ P) rest) by (symmetry; exact LH).
    unfold rx_to_header. replace (rd (F ++ P) 0) with (Some b0) by reflexivity.
    rewrite LH. replace ((b1 + 1) * 8 <? 2) with false by (symmetry; apply N.ltb_ge; lia).
    replace (drop 2 (F ++ P)) with P by reflexivity.
    unfold rx_new_raw, RX_MAX_PAYLOAD_LEN. rewrite LP.
    replace (b1 * 8 + 6 <? 6) with false by (symmetry; apply N.ltb_ge; lia).
    replace (2046 <? b1 * 8 + 6) with false by (symmetry; apply N.ltb_ge; lia).
    replace ((b1 * 8 + 6 + 2) mod 8 =? 0) with true by (symmetry; apply N.eqb_eq; dmlia).
    cbn [negb]. unfold as_u8.
    replace ((b1 * 8 + 6 - 6) / 8 mod 256) with b1 by dmlia.
    reflexivity.
Qed.

Example rx_read_eq_from_slice_ex :
  let bs := [6; 1; 1;2;3;4;5;6; 7;8;9;10;11;12;13;14; 99] in
  (exists h, rx_read bs = Ok (h, [99]) /\ rx_next_header h = 6 /\ rx_header_length h = 1
             /\ take 14 (rx_payload_buffer h) = [1;2;3;4;5;6;7;8;9;10;11;12;13;14]
             /\ rx_from_slice bs = Ok (h, [99]))
  /\ bytes_ok bs.
Proof.
  split; [|apply bytes_okb_spec; vm_compute; reflexivity].
  eexists. split; [vm_compute; reflexivity|]. vm_compute. repeat split; reflexivity.
Qed.

(* ---- IpAuthHeader --------------------------------------------------------------------- *)
Theorem ah_read_eq_from_slice bs : bytes_ok bs -> ah_read bs = eof_of_len (ah_from_slice bs).
Proof.
  intros Hb. unfold ah_read, ah_from_slice, ah_slice_from_slice. unfold read_exact at 1.
  destruct (len bs <? 12) eqn:E; [reflexivity|]. apply N.ltb_ge in E.
  destruct (split_n 12 bs E) as (pre & t & -> & Hpre).
  do 12 (destruct pre as [|? pre]; [discriminate Hpre|]). destruct pre; [|discriminate Hpre]. clear Hpre E.
  rename n0 into pl.
  set (F := [n; pl; n1; n2; n3; n4; n5; n6; n7; n8; n9; n10]) in *.
  change (n :: pl :: n1 :: n2 :: n3 :: n4 :: n5 :: n6 :: n7 :: n8 :: n9 :: n10 :: t) with (F ++ t) in *.
  assert (LF : len F = 12) by reflexivity.
  assert (R1 : rd (F ++ t) 1 = Some pl) by reflexivity. rewrite R1.
  assert (Hpl : pl < 256) by (eapply rd_ok; eauto).
  replace (take 12 (F ++ t)) with F by reflexivity.
  replace (drop 12 (F ++ t)) with t by reflexivity.
  unfold F at 1. cbv iota zeta.
  destruct (pl <? 1) eqn:E1; [reflexivity|]. apply N.ltb_ge in E1.
  unfold AH_MAX_ICV_LEN.
  replace (1016 <? (pl - 1) * 4) with false by (symmetry; apply N.ltb_ge; lia).
  rewrite len_app, LF. unfold read_exact.
  destruct (len t <? (pl - 1) * 4) eqn:EL.
  - apply N.ltb_lt in EL.
    replace (12 + len t <? (pl + 2) * 4) with true by (symmetry; apply N.ltb_lt; lia). reflexivity.
  - apply N.ltb_ge in EL.
    replace (12 + len t <? (pl + 2) * 4) with false by (symmetry; apply N.ltb_ge; lia).
    destruct (split_len' ((pl - 1) * 4) t EL) as (P & rest & -> & LP).
    rewrite (take_app_len P rest) by (symmetry; exact LP).
    rewrite (drop_app_len P rest) by (symmetry; exact LP).
    assert (LH : len (F ++ P) = (pl + 2) * 4) by (rewrite len_app, LF, LP; lia).
    replace (F ++ P ++ rest) with ((F ++ P) ++ rest) by (rewrite <- app_assoc; reflexivity).
    rewrite (take_app_len (F ++ P) rest) by (symmetry; exact LH).
    unfold slice_from at 1. rewrite LH, len_app, LH.
    replace ((pl + 2) * 4 <=? (pl + 2) * 4 + len rest) with true by (symmetry; apply N.leb_le; lia).
    rewrite (drop_app_len (F ++ P) rest) by (symmetry; exact LH).
    unfold ah_to_header, F at 1. cbn [app]. fold F.
    change (n :: pl :: n1 :: n2 :: n3 :: n4 :: n5 :: n6 :: n7 :: n8 :: n9 :: n10 :: P) with (F ++ P).
    unfold slice_from. rewrite LH.
    replace (12 <=? (pl + 2) * 4) with true by (symmetry; apply N.leb_le; lia).
    replace (drop 12 (F ++ P)) with P by reflexivity.
    unfold ah_new, AH_MAX_ICV_LEN. rewrite LP.
    replace (1016 <? (pl - 1) * 4) with false by (symmetry; apply N.ltb_ge; lia).
    replace ((pl - 1) * 4 mod 4 =? 0) with true by (symmetry; apply N.eqb_eq; dmlia).
    cbn [negb]. unfold as_u8.
    replace ((pl - 1) * 4 / 4 mod 256) with (pl - 1) by dmlia.
    reflexivity.
Qed.

Example ah_read_eq_from_slice_ex :
  let bs := [17; 2; 0;0; 0;0;1;0; 0;0;0;5; 9;8;7;6; 99] in
  (exists h, ah_read bs = Ok (h, [99]) /\ ah_next_header h = 17 /\ ah_spi h = 256
             /\ ah_sequence_number h = 5 /\ ah_raw_icv h = Some [9;8;7;6]
             /\ ah_from_slice bs = Ok (h, [99]))
  /\ bytes_ok bs.
Proof.
  split; [|apply bytes_okb_spec; vm_compute; reflexivity].
  eexists. split; [vm_compute; reflexivity|]. vm_compute. repeat split; reflexivity.
Qed.

(* ---- Ipv4Extensions ------------------------------------------------------------------- *)
Lemma ah_to_header_nh s h : ah_to_header s = Ok h -> rd s 0 = Some (ah_next_header h).
Proof.
  unfold ah_to_header.
  destruct s as [|b0 [|? [|? [|? [|b4 [|b5 [|b6 [|b7 [|b8 [|b9 [|b10 [|b11 t]]]]]]]]]]]]; try discriminate.
  destruct (slice_from _ 12) as [icv|]; [|discriminate].
  unfold ah_new. destruct (AH_MAX_ICV_LEN <? len icv); [discriminate|].
  destruct (negb (len icv mod 4 =? 0)); [discriminate|].
  intros H. injection H as <-. reflexivity.
Qed.

Lemma ah_to_header_nil_rd s : rd s 0 = None -> ah_to_header s = Err EOOB.
Proof. destruct s; [reflexivity|discriminate]. Qed.

(* both take the protocol number that announces the extensions as an argument *)
Theorem x4_read_eq_from_slice sn bs : bytes_ok bs -> x4_read bs sn = eof_of_len (x4_from_slice sn bs).
Proof.
  intros Hb. unfold x4_read, x4_from_slice, x4_slice_from_slice.
  destruct (X4_AUTH =? sn); [|reflexivity].
  rewrite (ah_read_eq_from_slice bs Hb). unfold ah_from_slice.
  destruct (ah_slice_from_slice bs) as [hs|e]; [|destruct e; reflexivity].
  destruct (slice_from bs (len hs)) as [rest|]; [|reflexivity].
  destruct (ah_to_header hs) as [h|e] eqn:H.
  - rewrite (ah_to_header_nh _ _ H). cbv iota beta. rewrite H. reflexivity.
  - destruct (rd hs 0) eqn:R.
    + cbv iota beta. rewrite H. destruct e; reflexivity.
    + rewrite (ah_to_header_nil_rd _ R) in H. injection H as <-. reflexivity.
Qed.

Example x4_read_eq_from_slice_ex :
  let bs := [17; 2; 0;0; 0;0;1;0; 0;0;0;5; 9;8;7;6; 99] in
  (exists h, x4_read bs 51 = Ok ({| x4_auth := Some h |}, 17, [99]) /\ ah_raw_icv h = Some [9;8;7;6]
             /\ x4_from_slice 51 bs = Ok ({| x4_auth := Some h |}, 17, [99]))
  /\ x4_read bs 6 = Ok ({| x4_auth := None |}, 6, bs) /\ bytes_ok bs.
Proof.
  split; [|split; [vm_compute; reflexivity|apply bytes_okb_spec; vm_compute; reflexivity]].
  eexists. split; [vm_compute; reflexivity|]. vm_compute. repeat split; reflexivity.
Qed.

(* ---- Icmpv4Header --------------------------------------------------------------------- *)
(* timestamp / timestamp reply (type 13 | 14, code 0): the 20 byte messages *)
Definition icmp4_is_ts (bs : bytes) : bool :=
  match bs with
  | t :: c :: _ => ((t =? 13) || (t =? 14)) && (c =? 0)
  | _ => false
  end.
(* ... followed by more data: Icmpv4Slice::from_slice wants the slice to END with the message *)
Definition icmp4_ts_trailing (bs : bytes) : bool := icmp4_is_ts bs && (20 <? len bs).

Lemma icmp4_is_ts_fixed t c r :
  icmp4_is_ts (t :: c :: r) = match lookup t c icmp4_fixed_table with Some _ => true | None => false end.
Proof.
  cbn [icmp4_is_ts]. rewrite <- icmp4_read_test. rewrite (N.eqb_sym c 0).
  destruct (t =? 13), (t =? 14); reflexivity.
Qed.

Theorem icmp4_read_eq_from_slice bs : icmp4_ts_trailing bs = false ->
  icmp4_read bs = eof_of_len (icmp4_from_slice bs).
Proof.
  intros NT.
  destruct (len bs <? 8) eqn:E8.
  { unfold icmp4_read, icmp4_from_slice, Icmpv4Slice.from_slice, Icmpv4Slice.MIN_LEN, read_exact.
    rewrite E8. reflexivity. }
  destruct (len_ge_cons8 bs E8) as (t & c & k0 & k1 & b4 & b5 & b6 & b7 & rest & ->).
  unfold icmp4_ts_trailing in NT. rewrite icmp4_is_ts_fixed in NT.
  destruct (lookup t c icmp4_fixed_table) as [[[n lay] mk]|] eqn:LF.
  - destruct (fixed_table_cases _ _ _ LF) as [T ->].
    cbn [andb] in NT. apply N.ltb_ge in NT. rewrite Icmp4Proofs.len8 in NT.
    pose proof (icmp4_cases t 0 k0 k1 b4 b5 b6 b7 rest) as C. cbv zeta in C. rewrite LF in C.
    destruct C as (_ & _ & Hf & _).
    destruct (len rest <? 12) eqn:E12.
    + apply N.ltb_lt in E12.
      unfold icmp4_from_slice. rewrite Hf, Icmp4Proofs.len8.
      replace (8 + len rest <? 8) with false by (symmetry; apply N.ltb_ge; lia).
      replace (8 + len rest =? 20) with false by (symmetry; apply N.eqb_neq; lia).
      unfold icmp4_read.
      change (t :: 0 :: k0 :: k1 :: b4 :: b5 :: b6 :: b7 :: rest) with ([t; 0; k0; k1; b4; b5; b6; b7] ++ rest).
      rewrite Icmp4Proofs.read_exact_app by reflexivity.
      change (rd [t; 0; k0; k1; b4; b5; b6; b7] 0) with (Some t).
      change (rd [t; 0; k0; k1; b4; b5; b6; b7] 1) with (Some 0). cbv iota beta.
      rewrite icmp4_read_test, LF. unfold read_exact.
      replace (len rest <? 12) with true by (symmetry; apply N.ltb_lt; lia). reflexivity.
    + apply N.ltb_ge in E12. assert (L12 : len rest = 12) by lia.
      destruct (len_ge_cons12 rest L12) as (o0 & o1 & o2 & o3 & r0 & r1 & r2 & r3 & t0 & t1 & t2 & t3 & ->).
      pose proof (icmp4_read_20 t k0 k1 b4 b5 b6 b7 o0 o1 o2 o3 r0 r1 r2 r3 t0 t1 t2 t3 [] T) as R.
      rewrite app_nil_r in R. rewrite R.
      rewrite (icmp4_from_slice_20 t k0 k1 b4 b5 b6 b7 o0 o1 o2 o3 r0 r1 r2 r3 t0 t1 t2 t3 T).
      reflexivity.
  - rewrite (icmp4_read_8 _ _ _ _ _ _ _ _ _ LF), (icmp4_from_slice_8 _ _ _ _ _ _ _ _ _ LF). reflexivity.
Qed.

(* inside the excluded class: read = from_slice of the slice that ENDS with the message *)
Theorem icmp4_read_eq_from_slice_ts bs : icmp4_is_ts bs = true -> 20 <= len bs ->
  icmp4_read bs = match icmp4_from_slice (take 20 bs) with
                  | Ok (h, _) => Ok (h, drop 20 bs)
                  | Err e => Err e
                  end.
Proof.
  intros TS E.
  destruct (split_n 20 bs E) as (pre & t' & -> & Hpre).
  do 20 (destruct pre as [|? pre]; [discriminate Hpre|]). destruct pre; [|discriminate Hpre]. clear Hpre E.
  cbn [app icmp4_is_ts] in TS. apply andb_true_iff in TS. destruct TS as [T C0].
  apply N.eqb_eq in C0. subst n0.
  assert (T' : n = 13 \/ n = 14).
  { apply orb_true_iff in T. destruct T as [T|T]; apply N.eqb_eq in T; auto. }
  rewrite (icmp4_read_20 n n1 n2 n3 n4 n5 n6 n7 n8 n9 n10 n11 n12 n13 n14 n15 n16 n17 n18 t' T').
  replace (take 20 ([n; 0; n1; n2; n3; n4; n5; n6; n7; n8; n9; n10; n11; n12; n13; n14; n15; n16; n17; n18] ++ t'))
    with [n; 0; n1; n2; n3; n4; n5; n6; n7; n8; n9; n10; n11; n12; n13; n14; n15; n16; n17; n18] by reflexivity.
  rewrite (icmp4_from_slice_20 n n1 n2 n3 n4 n5 n6 n7 n8 n9 n10 n11 n12 n13 n14 n15 n16 n17 n18 T').
  reflexivity.
Qed.

(* the exclusion is needed: a timestamp message followed by one more byte *)
Example icmp4_ts_trailing_differs :
  let bs := [13;0; 1;2; 0;7; 0;9; 0;0;0;1; 0;0;0;2; 0;0;0;3; 99] in
  icmp4_ts_trailing bs = true
  /\ icmp4_from_slice bs = Err ELen
  /\ icmp4_read bs = Ok ({| icmp4_type := V4TimestampRequest (mkTimestamp 7 9 1 2 3);
                            icmp4_checksum := 258 |}, [99]).
Proof. vm_compute. repeat split; reflexivity. Qed.

Example icmp4_read_eq_from_slice_ex :
  let bs := [8;0; 1;2; 0;7; 0;9; 99] in
  icmp4_ts_trailing bs = false
  /\ icmp4_read bs = Ok ({| icmp4_type := V4EchoRequest 7 9; icmp4_checksum := 258 |}, [99])
  /\ icmp4_from_slice bs = icmp4_read bs.
Proof. vm_compute. repeat split; reflexivity. Qed.

Example icmp4_read_eq_from_slice_ex_ts :
  let bs := [14;0; 1;2; 0;7; 0;9; 0;0;0;1; 0;0;0;2; 0;0;0;3] in
  icmp4_ts_trailing bs = false
  /\ icmp4_read bs = Ok ({| icmp4_type := V4TimestampReply (mkTimestamp 7 9 1 2 3);
                            icmp4_checksum := 258 |}, [])
  /\ icmp4_from_slice bs = icmp4_read bs.
Proof. vm_compute. repeat split; reflexivity. Qed.

(* ---- Icmpv6Header --------------------------------------------------------------------- *)
(* Icmpv6Slice::from_slice rejects slices longer than u32::MAX (Len error), read has no such
   limit (lengths are unbounded N in the model): hypothesis on the length *)
Theorem icmp6_read_eq_from_slice bs : len bs <= 4294967295 ->
  icmp6_read bs = eof_of_len (icmp6_from_slice bs).
Proof.
  intros LM.
  destruct (len bs <? 8) eqn:E8.
  { unfold icmp6_read, icmp6_from_slice, Icmpv6Slice.from_slice, Icmpv6Slice.MIN_LEN, read_exact.
    rewrite E8. reflexivity. }
  destruct (len_ge_cons8 bs E8) as (t & c & k0 & k1 & b4 & b5 & b6 & b7 & rest & ->).
  rewrite Icmp6Proofs.len8 in LM.
  rewrite icmp6_read_8, (icmp6_from_slice_8 _ _ _ _ _ _ _ _ _ LM). reflexivity.
Qed.

(* without the bound: read = from_slice of the first 8 bytes, every byte string *)
Theorem icmp6_read_eq_from_slice_prefix bs :
  icmp6_read bs = eof_of_len (match icmp6_from_slice (take 8 bs) with
                              | Ok (h, _) => Ok (h, drop 8 bs)
                              | Err e => Err e
                              end).
Proof.
  destruct (len bs <? 8) eqn:E8.
  { unfold icmp6_read, icmp6_from_slice, Icmpv6Slice.from_slice, Icmpv6Slice.MIN_LEN, read_exact.
    rewrite E8, len_take. apply N.ltb_lt in E8.
    replace (N.min 8 (len bs) <? 8) with true by (symmetry; apply N.ltb_lt; lia). reflexivity. }
  destruct (len_ge_cons8 bs E8) as (t & c & k0 & k1 & b4 & b5 & b6 & b7 & rest & ->).
  replace (take 8 (t :: c :: k0 :: k1 :: b4 :: b5 :: b6 :: b7 :: rest)) with [t; c; k0; k1; b4; b5; b6; b7]
    by reflexivity.
  rewrite icmp6_read_8, (icmp6_from_slice_8 t c k0 k1 b4 b5 b6 b7 []) by (change (len (@nil N)) with 0; lia).
  reflexivity.
Qed.

(* beyond the bound the two differ (no concrete witness: > 4 GiB of data) *)
Lemma icmp6_read_long bs : 4294967295 < len bs ->
  icmp6_from_slice bs = Err ELen /\ exists h, icmp6_read bs = Ok (h, drop 8 bs).
Proof.
  intros H. split; [apply icmp6_from_slice_too_long; exact H|].
  assert (E8 : (len bs <? 8) = false) by (apply N.ltb_ge; lia).
  destruct (len_ge_cons8 bs E8) as (t & c & k0 & k1 & b4 & b5 & b6 & b7 & rest & ->).
  rewrite icmp6_read_8. eexists. reflexivity.
Qed.

Example icmp6_read_eq_from_slice_ex :
  let bs := [134;0; 1;2; 64;128; 0;30; 99] in
  len bs <= 4294967295
  /\ icmp6_read bs = Ok ({| icmp6_type := V6RouterAdvertisement 64 true false 30;
                            icmp6_checksum := 258 |}, [99])
  /\ icmp6_from_slice bs = icmp6_read bs.
Proof. vm_compute. split; [discriminate|]. split; reflexivity. Qed.
