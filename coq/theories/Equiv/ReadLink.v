(* Equiv/ReadLink.v -- C06 group 3 (round 3, c06rd): the two families of `read`
   transliterations are the same reader.

   IoFault/Model.v (C16) has every `T::read` as a read PROGRAM (the sequence of
   read_exact calls with the length fields they parse; no header value), run
   against a Cursor by Equiv/ModelRead.v `read_outcome` -- the reader of the
   outcome-level theorems C06_read_eq_slice / C06_read_ok_consumes.
   Roundtrip/*.v (C08) has every `T::read` as a VALUE reader over a byte list
   (returns the struct and the unread rest) -- the reader of C06_read_value_*.

   Here: for every byte string the outcome of the read program is the outcome of
   the value reader:
     Ok (h, rest)       <->  OOk (len bs - len rest)   (cursor position = bytes consumed)
     Err EIo            <->  OEof
     Err (EContent c)   <->  OContent (kind of code c)
     Err ELen           <->  a LimitedReader length error (IpHeaders only; the value
                             reader does not keep the record: `erase_len`)
     Err EOOB / EPanic  <->  never (OBad on the right would contradict C06_read_never_bad)
   Nothing is modelled anew: both sides are existing transliterations. *)
From EP Require Import Base.Bytes Parse.Types Parse.Slices Parse.Cursor Parse.HdrModel Parse.HdrView
  IoFault.Spec IoFault.Model IoFault.Proofs Equiv.Model Equiv.ModelRead Equiv.Proofs Equiv.ReadProofs
  Equiv.ReadBase Equiv.ReadSimple.
From EP Require Roundtrip.Common Roundtrip.CommonProofs Roundtrip.Eth Roundtrip.Vlan Roundtrip.Sll Roundtrip.Macsec
  Roundtrip.Ipv4 Roundtrip.Ipv6 Roundtrip.Auth Roundtrip.RawExt Roundtrip.Frag Roundtrip.Arp Roundtrip.Tcp
  Roundtrip.Udp Roundtrip.Icmp4 Roundtrip.Icmp6 Roundtrip.Exts4 Equiv.ReadValues Roundtrip.DecodersTotal
  Roundtrip.Icmp4Proofs Roundtrip.Icmp6Proofs CtlMsg.Spec CtlMsg.Proofs.
From Coq Require Import ZArith Lia ZifyN ZifyBool.

Local Open Scope N_scope.
Module RC := EP.Roundtrip.Common.

(* ---- the outcome of a value reader ------------------------------------------------ *)
Definition rt_outcome {A} (kind : N -> outcome) (bs : bytes) (rest : A -> bytes) (r : RC.res A) : outcome :=
  match r with
  | RC.Ok a => OOk (len bs - len (rest a))
  | RC.Err RC.EIo => OEof
  | RC.Err (RC.EContent c) => kind c
  | RC.Err RC.ELen => OLen 0 0 0 0 0
  | RC.Err RC.EOOB => OBad 200
  | RC.Err RC.EPanic => OBad 201
  end.

(* a LimitedReader length error without its record *)
Definition erase_len (o : outcome) : outcome :=
  match o with OLen _ _ _ _ _ => OLen 0 0 0 0 0 | o => o end.

Definition no_kind (c : N) : outcome := OBad 210.

Lemma take_pre (pre t : bytes) n : len pre = n -> take n (pre ++ t) = pre.
Proof. intros <-. apply take_len_app. Qed.
Lemma drop_pre (pre t : bytes) n : len pre = n -> drop n (pre ++ t) = t.
Proof.
  intros <-. unfold drop, len. rewrite Nat2N.id. rewrite skipn_app, skipn_all, Nat.sub_diag. reflexivity.
Qed.

Ltac split_pre bs k E :=
  let pre := fresh "pre" in let t := fresh "t" in let Hpre := fresh "Hpre" in
  destruct (Equiv.ReadValues.split_n k bs E) as (pre & t & -> & Hpre);
  repeat (destruct pre as [|? pre]; [discriminate Hpre|]); destruct pre; [|discriminate Hpre]; clear Hpre.

Lemma len_app' (a b : bytes) : len (a ++ b) = len a + len b.
Proof. unfold len. rewrite app_length. lia. Qed.

Ltac eval_dec f :=
  match goal with |- context [f ?l] =>
    let h := fresh "h" in let Eh := fresh "Eh" in
    assert (exists h, f l = RC.Ok h) as [h Eh] by (eexists; vm_compute; reflexivity); rewrite Eh; clear Eh
  end.
Ltac fin_len := cbn [rt_outcome snd fst]; rewrite ?len_app'; f_equal;
  unfold len; cbn [length]; lia.

Ltac lens := repeat (rewrite len_cons in * || rewrite len_app' in * || rewrite len_drop in * || rewrite (@len_nil N) in * ).
Ltac fin := cbn [rt_outcome snd fst]; f_equal; lens; lia.
Ltac rt_settle :=
  match goal with |- context [if ?a <? ?b then RC.Err RC.EIo else _] =>
    first [is_true (a <? b) | is_false (a <? b)] end.
Ltac rd_red := lazy beta iota zeta delta [rd nth_error N.to_nat Pos.to_nat Pos.iter_op Nat.add app].

(* ---- Ethernet2Header ---- *)
Lemma link_ethernet2 bs :
  read_outcome HEthernet2 bs = rt_outcome no_kind bs snd (Roundtrip.Eth.eth_read bs).
Proof.
  unfold read_outcome, read_prog. rewrite read_fixed_outcome.
  unfold Roundtrip.Eth.eth_read, RC.read_exact.
  destruct (len bs <? 14) eqn:E; ltb_tac.
  - is_false (14 <=? len bs). reflexivity.
  - is_true (14 <=? len bs). split_pre bs 14%nat E.
    rewrite take_pre, drop_pre by reflexivity.
    eval_dec Roundtrip.Eth.eth_to_header. fin_len.
Qed.

(* ---- SingleVlanHeader ---- *)
Lemma link_single_vlan bs :
  read_outcome HSingleVlan bs = rt_outcome no_kind bs snd (Roundtrip.Vlan.vl_read bs).
Proof.
  unfold read_outcome, read_prog. rewrite read_fixed_outcome.
  unfold Roundtrip.Vlan.vl_read, RC.read_exact.
  destruct (len bs <? 4) eqn:E; ltb_tac.
  - is_false (4 <=? len bs). reflexivity.
  - is_true (4 <=? len bs). split_pre bs 4%nat E.
    rewrite take_pre, drop_pre by reflexivity.
    eval_dec Roundtrip.Vlan.vl_to_header. fin_len.
Qed.

(* ---- UdpHeader ---- *)
Lemma link_udp bs :
  read_outcome HUdp bs = rt_outcome no_kind bs snd (Roundtrip.Udp.udp_read bs).
Proof.
  unfold read_outcome, read_prog. rewrite read_fixed_outcome.
  unfold Roundtrip.Udp.udp_read, RC.read_exact.
  destruct (len bs <? 8) eqn:E; ltb_tac.
  - is_false (8 <=? len bs). reflexivity.
  - is_true (8 <=? len bs). split_pre bs 8%nat E.
    rewrite take_pre, drop_pre by reflexivity.
    eval_dec Roundtrip.Udp.udp_from_bytes. fin_len.
Qed.

(* ---- Ipv6FragmentHeader ---- *)
Lemma link_ipv6_frag bs :
  read_outcome HIpv6Frag bs = rt_outcome no_kind bs snd (Roundtrip.Frag.frag_read bs).
Proof.
  rewrite read_outcome_O by discriminate. unfold read_prog, ipv6_frag_read, with_start.
  unfold Roundtrip.Frag.frag_read, RC.read_exact.
  destruct (len bs <? 8) eqn:E; ltb_tac.
  - rd_step; [lia|reflexivity].
  - rd_step; [|lia]. split_pre bs 8%nat E.
    rewrite take_pre, drop_pre by reflexivity. cbn [at_ rd nth_error N.to_nat].
    eval_dec Roundtrip.Frag.frag_to_header. rewrite O_ret. fin_len.
Qed.

(* ---- LinuxSllHeader ---- *)
(* the value reader's content codes: 0 = packet type, 1 = ARP hardware id; the offending
   values are the two big-endian fields *)
Definition sll_kind (bs : bytes) (c : N) : outcome :=
  match rd bs 0, rd bs 1, rd bs 2, rd bs 3 with
  | Some b0, Some b1, Some b2, Some b3 =>
      if c =? 0 then OContent (KSllPacketType (be16 b0 b1)) else OContent (KSllArpHardwareId (be16 b2 b3))
  | _, _, _, _ => OBad 211
  end.

Lemma link_linux_sll bs :
  read_outcome HLinuxSll bs = rt_outcome (sll_kind bs) bs snd (Roundtrip.Sll.sll_read bs).
Proof.
  unfold read_outcome, sll_read, Roundtrip.Sll.sll_read, RC.read_exact.
  destruct (len bs <? 16) eqn:E; ltb_tac.
  - rewrite io_read_exact_fail by (cbn; lia). reflexivity.
  - rewrite io_read_exact_ok by (cbn; lia). cbn [cursor_src src_data].
    split_pre bs 16%nat E. rewrite take_pre, drop_pre by reflexivity.
    unfold sll_from_bytes, Roundtrip.Sll.sll_from_bytes, sll_kind.
    rd_red.
    unfold LinuxSll.packet_type_try_from, Roundtrip.Sll.sll_packet_type_try_from.
    destruct (be16 n n0 <=? 7); [|reflexivity].
    unfold LinuxSll.protocol_type_try_from, Roundtrip.Sll.sll_protocol_try_from.
    change LinuxSll.ARPHRD_NETLINK with 824. change LinuxSll.ARPHRD_IPGRE with 778.
    change LinuxSll.ARPHRD_RADIOTAP with 803. change LinuxSll.ARPHRD_FRAD with 770.
    change LinuxSll.ARPHRD_ETHERNET with 1.
    destruct (be16 n1 n2 =? 824); [fin_len|].
    destruct (be16 n1 n2 =? 778); [fin_len|].
    destruct (be16 n1 n2 =? 803); [fin_len|].
    destruct (be16 n1 n2 =? 770); [fin_len|].
    destruct (be16 n1 n2 =? 1); [|reflexivity].
    destruct (LinuxSll.nonstandard (be16 n13 n14)), (Roundtrip.Sll.sll_nonstd_try_from (be16 n13 n14)); fin_len.
Qed.

(* ---- MacsecHeader ---- *)
(* codes of the value reader: 0 = UnexpectedVersion, 1 = InvalidUnmodifiedShortLen *)
Definition macsec_kind (c : N) : outcome :=
  if c =? 0 then OContent (KC CMacsecVersion) else OContent (KC CMacsecShortLen).

Lemma mac_finish (first more r2 : bytes) tci rl :
  rd first 0 = Some tci -> len first = 6 -> rl = Roundtrip.Macsec.mac_required_len tci ->
  len more = rl - 6 -> 6 <= rl -> rl <= 16 ->
  exists h,
    match RC.slice_range (first ++ more ++ RC.zeros (16 - 6 - len more)) 0 rl with
    | None => RC.Err RC.EPanic
    | Some hs => match Roundtrip.Macsec.mac_to_header hs with
                 | RC.Err e => RC.Err e
                 | RC.Ok h => RC.Ok (h, r2)
                 end
    end = RC.Ok (h, r2).
Proof.
  intros R L Hrl Lm G6 G16. unfold RC.slice_range.
  assert (LB : len (first ++ more ++ RC.zeros (16 - 6 - len more)) = 16).
  { rewrite !len_app', Roundtrip.CommonProofs.len_zeros. lia. }
  rewrite LB. is_true (0 <=? rl). is_true (rl <=? 16). cbn [andb].
  rewrite N.sub_0_r, Roundtrip.CommonProofs.drop_0.
  destruct (Roundtrip.DecodersTotal.mac_to_header_ok
              (take rl (first ++ more ++ RC.zeros (16 - 6 - len more))) tci) as [h ->].
  - rewrite rd_take by lia. destruct first as [|x f]; [discriminate|]. exact R.
  - rewrite len_take, LB. lia.
  - exists h. reflexivity.
Qed.

Lemma nz_band_bit v m : RC.nz (RC.band v m) = Macsec.bit v m.
Proof. reflexivity. Qed.

Lemma link_macsec bs : bytes_ok bs ->
  read_outcome HMacsec bs = rt_outcome macsec_kind bs snd (Roundtrip.Macsec.mac_read bs).
Proof.
  intros Hb. rewrite read_outcome_O by discriminate.
  unfold read_prog, macsec_header_read, Roundtrip.Macsec.mac_read. unfold RC.read_exact at 1.
  destruct (len bs <? 6) eqn:E; ltb_tac.
  { rd_step; [lia|reflexivity]. }
  rd_step; [|lia].
  split_pre bs 6%nat E. rewrite take_pre, drop_pre by reflexivity.
  apply bytes_ok_app in Hb. destruct Hb as [Hb _].
  assert (Hn : n < 256) by (inversion Hb; assumption).
  set (first := [n; n0; n1; n2; n3; n4]).
  change (rd first 0) with (Some n). change (rd first 1) with (Some n0). cbv iota beta.
  unfold at_. change (rd first 0) with (Some n). change (rd first 1) with (Some n0). cbv iota beta.
  rewrite (bit7 n Hn), (bit5 n Hn), nz_band_bit.
  destruct (Macsec.bit n 128); [reflexivity|].
  change (RC.band n 12) with (N.land n 12). change (RC.band n0 63) with (N.land n0 63).
  rewrite land63_mod. cbv zeta.
  assert (RL : 6 + (if N.land n 12 =? 0 then 2 else 0) + (if Macsec.bit n 32 then 8 else 0)
               = Roundtrip.Macsec.mac_required_len n) by reflexivity.
  rewrite RL.
  assert (B : 6 <= Roundtrip.Macsec.mac_required_len n <= 16).
  { rewrite <- RL. destruct (N.land n 12 =? 0), (Macsec.bit n 32); lia. }
  set (rl := Roundtrip.Macsec.mac_required_len n) in *.
  destruct ((N.land n 12 =? 0) && (n0 mod 64 =? 1)); [reflexivity|].
  destruct (6 <? rl) eqn:E6; ltb_tac.
  - is_true (rl <=? 16). unfold RC.read_exact.
    rd_step.
    + is_false (len t <? rl - 6). rewrite O_ret.
      destruct (mac_finish first (take (rl - 6) t) (drop (rl - 6) t) n rl) as [h Eh];
        try reflexivity; try lia.
      { rewrite len_take. lia. }
      rewrite Eh. cbn [rt_outcome snd]. rewrite len_app', len_drop. f_equal.
      change (len first) with 6. lia.
    + is_true (len t <? rl - 6). reflexivity.
  - rewrite O_ret.
    destruct (mac_finish first [] t n rl) as [h Eh]; try reflexivity; try lia.
    { change (len (@nil N)) with 0. lia. }
    rewrite Eh. cbn [rt_outcome snd]. rewrite len_app'. f_equal. change (len first) with 6. lia.
Qed.

(* ---- Ipv4Header ---- *)
(* the value reader's code is the offending value itself (version number, or IHL when the
   version is 4); the kind is told by the version nibble *)
Definition ipv4_kind (bs : bytes) (c : N) : outcome :=
  match bs with
  | b0 :: _ => if N.shiftr b0 4 =? 4 then OContent (KC CIhl) else OContent (KC CVersion)
  | [] => OBad 212
  end.

Lemma link_ipv4 bs :
  read_outcome HIpv4 bs = rt_outcome (ipv4_kind bs) bs snd (Roundtrip.Ipv4.ip4_read bs).
Proof.
  rewrite read_outcome_O by discriminate.
  unfold read_prog, ipv4_header_read, Roundtrip.Ipv4.ip4_read. unfold RC.read_exact at 1.
  destruct (len bs <? 1) eqn:E; ltb_tac.
  { rd_step; [lia|reflexivity]. }
  rd_step; [|lia].
  split_pre bs 1%nat E. rewrite take_pre, drop_pre by reflexivity.
  unfold at_. change (rd [n] 0) with (Some n). cbv iota beta zeta.
  unfold ipv4_kind. cbn [app]. change (RC.shr n 4) with (N.shiftr n 4). rewrite <- shr4_div.
  destruct (N.shiftr n 4 =? 4); cbn [negb]; [|reflexivity].
  unfold ipv4_read_without_version. unfold RC.read_exact at 1.
  rd_step.
  2:{ is_true (len t <? 19). reflexivity. }
  is_false (len t <? 19).
  assert (E19 : N.of_nat 19 <= len t) by (change (N.of_nat 19) with 19; lia).
  split_pre t 19%nat E19. rewrite take_pre, drop_pre by reflexivity. cbv iota beta.
  change (RC.band n 15) with (N.land n 15). rewrite land15_mod.
  assert (M : n mod 16 < 16) by (apply N.mod_lt; discriminate).
  destruct (n mod 16 <? 5) eqn:Ei; ltb_tac; [reflexivity|].
  unfold RC.as_u8. rewrite (N.mod_small ((n mod 16 - 5) * 4) 256) by lia.
  destruct ((n mod 16 - 5) * 4 =? 0) eqn:Eo; ltb_tac.
  - rewrite O_ret. fin.
  - is_true ((n mod 16 - 5) * 4 <=? 40). unfold RC.read_exact.
    rd_step.
    + is_false (len t0 <? (n mod 16 - 5) * 4). rewrite O_ret. fin.
    + is_true (len t0 <? (n mod 16 - 5) * 4). reflexivity.
Qed.

(* ---- Ipv6Header ---- *)
Definition ipv6_kind (c : N) : outcome := OContent (KC CVersion).

Lemma link_ipv6 bs :
  read_outcome HIpv6 bs = rt_outcome ipv6_kind bs snd (Roundtrip.Ipv6.ip6_read bs).
Proof.
  rewrite read_outcome_O by discriminate.
  unfold read_prog, ipv6_header_read, Roundtrip.Ipv6.ip6_read. unfold RC.read_exact at 1.
  destruct (len bs <? 1) eqn:E; ltb_tac.
  { rd_step; [lia|reflexivity]. }
  rd_step; [|lia].
  split_pre bs 1%nat E. rewrite take_pre, drop_pre by reflexivity.
  unfold at_. change (rd [n] 0) with (Some n). cbv iota beta zeta.
  change (RC.shr n 4) with (N.shiftr n 4). rewrite <- shr4_div.
  destruct (N.shiftr n 4 =? 6); cbn [negb]; [|reflexivity].
  unfold ipv6_read_without_version, Roundtrip.Ipv6.ip6_read_without_version, RC.read_exact.
  rd_step.
  2:{ is_true (len t <? 39). reflexivity. }
  is_false (len t <? 39).
  assert (E39 : N.of_nat 39 <= len t) by (change (N.of_nat 39) with 39; lia).
  split_pre t 39%nat E39. rewrite take_pre, drop_pre by reflexivity. cbv iota beta.
  rewrite O_ret.
  match goal with |- context [RC.slice_range ?l 7 23] =>
    assert (exists a, RC.slice_range l 7 23 = Some a) as [a ->] by (eexists; reflexivity);
    assert (exists b, RC.slice_range l 23 39 = Some b) as [b ->] by (eexists; reflexivity) end.
  fin.
Qed.

(* ---- IpAuthHeader ---- *)
Definition auth_kind (c : N) : outcome := OContent (KC CAuthZeroLen).

Lemma link_auth_gen (summary : N -> list N) bs : bytes_ok bs ->
  O (ip_auth_read false (fun nh => PRet (summary nh))) (mk_st bs 0 MPlain) =
  rt_outcome auth_kind bs snd (Roundtrip.Auth.ah_read bs).
Proof.
  intros Hb.
  unfold ip_auth_read, with_start, Roundtrip.Auth.ah_read. unfold RC.read_exact at 1.
  destruct (len bs <? 12) eqn:E; ltb_tac.
  { rd_step; [lia|reflexivity]. }
  rd_step; [|lia].
  split_pre bs 12%nat E. rewrite take_pre, drop_pre by reflexivity.
  apply bytes_ok_app in Hb. destruct Hb as [Hb _].
  assert (Hn : n0 < 256) by (inversion Hb as [|? ? _ Hb']; inversion Hb'; assumption).
  unfold at_. rd_red.
  destruct (n0 <? 1) eqn:Ep; ltb_tac; [reflexivity|].
  unfold Roundtrip.Auth.AH_MAX_ICV_LEN. is_false (1016 <? (n0 - 1) * 4).
  unfold RC.read_exact.
  rd_step.
  - is_false (len t <? (n0 - 1) * 4). rewrite O_ret. fin.
  - is_true (len t <? (n0 - 1) * 4). reflexivity.
Qed.

Lemma link_ip_auth bs : bytes_ok bs ->
  read_outcome HIpAuth bs = rt_outcome auth_kind bs snd (Roundtrip.Auth.ah_read bs).
Proof.
  intros Hb. rewrite read_outcome_O by discriminate. exact (link_auth_gen (fun nh => [nh]) bs Hb).
Qed.

(* ---- Ipv4Extensions ---- *)
Lemma link_ipv4_exts start bs : bytes_ok bs ->
  read_outcome (HIpv4Exts start) bs =
  rt_outcome auth_kind bs snd (Roundtrip.Exts4.x4_read bs start).
Proof.
  intros Hb. rewrite read_outcome_O by discriminate.
  unfold read_prog, x4_read, Roundtrip.Exts4.x4_read.
  change Roundtrip.Exts4.X4_AUTH with AUTH.
  destruct (AUTH =? start).
  - rewrite (link_auth_gen (fun nh => [nh; 1]) bs Hb).
    destruct (Roundtrip.Auth.ah_read bs) as [[h r1]|e]; reflexivity.
  - rewrite O_ret. cbn [rt_outcome snd]. f_equal. lia.
Qed.

(* ---- Ipv6RawExtHeader ---- *)
Lemma link_ipv6_raw_ext bs : bytes_ok bs ->
  read_outcome HIpv6RawExt bs = rt_outcome no_kind bs snd (Roundtrip.RawExt.rx_read bs).
Proof.
  intros Hb. rewrite read_outcome_O by discriminate.
  unfold read_prog, ipv6_raw_ext_read, with_start, Roundtrip.RawExt.rx_read. unfold RC.read_exact at 1.
  destruct (len bs <? 2) eqn:E; ltb_tac.
  { rd_step; [lia|reflexivity]. }
  rd_step; [|lia].
  split_pre bs 2%nat E. rewrite take_pre, drop_pre by reflexivity.
  apply bytes_ok_app in Hb. destruct Hb as [Hb _].
  assert (Hn : n0 < 256) by (inversion Hb as [|? ? _ Hb']; inversion Hb'; assumption).
  unfold at_. rd_red.
  unfold Roundtrip.RawExt.RX_MAX_PAYLOAD_LEN. is_false (2046 <? n0 * 8 + 6).
  unfold RC.read_exact.
  rd_step.
  - is_false (len t <? n0 * 8 + 6). rewrite O_ret. fin.
  - is_true (len t <? n0 * 8 + 6). reflexivity.
Qed.

(* ---- ArpPacket ---- *)
Lemma link_arp bs : bytes_ok bs ->
  read_outcome HArp bs = rt_outcome no_kind bs snd (Roundtrip.Arp.arp_read bs).
Proof.
  intros Hb. rewrite read_outcome_O by discriminate.
  unfold read_prog, arp_packet_read, Roundtrip.Arp.arp_read. unfold RC.read_exact at 1.
  destruct (len bs <? 8) eqn:E; ltb_tac.
  { rd_step; [lia|reflexivity]. }
  rd_step; [|lia].
  split_pre bs 8%nat E. rewrite take_pre, drop_pre by reflexivity.
  apply bytes_ok_app in Hb. destruct Hb as [Hb _].
  assert (H4 : n3 < 256 /\ n4 < 256).
  { apply bytes_okb_spec in Hb. cbn [bytes_okb forallb] in Hb. unfold byte_okb in Hb. lia. }
  unfold at_. rd_red.
  is_false (255 <? n3). is_false (255 <? n4). cbn [orb].
  unfold RC.read_exact.
  do 4 (rd_step; rewrite ?len_drop; [rt_settle|rt_settle; reflexivity]).
  rewrite O_ret. fin.
Qed.

(* ---- TcpHeader ---- *)
Definition tcp_kind (c : N) : outcome := OContent (KC CDataOffset).

Lemma tcp_b12_link v : v < 256 ->
  RC.shr (RC.band v 240) 4 = v / 16 /\ RC.shl8 (v / 16 - 5) 2 = (v / 16 - 5) * 4 /\ v / 16 < 16.
Proof.
  intros H.
  pose proof (sweep256 (fun v => (RC.shr (RC.band v 240) 4 =? v / 16) && (RC.shl8 (v / 16 - 5) 2 =? (v / 16 - 5) * 4)
                        && (v / 16 <? 16)) ltac:(vm_compute; reflexivity) v H) as S.
  cbv beta in S. apply andb_prop in S. destruct S as [S S3]. apply andb_prop in S. destruct S as [S1 S2].
  ltb_tac. auto.
Qed.

Lemma link_tcp bs : bytes_ok bs ->
  read_outcome HTcp bs = rt_outcome tcp_kind bs snd (Roundtrip.Tcp.read bs).
Proof.
  intros Hb. rewrite read_outcome_O by discriminate.
  unfold read_prog, tcp_header_read, Roundtrip.Tcp.read. unfold RC.read_exact at 1.
  destruct (len bs <? 20) eqn:E; ltb_tac.
  { rd_step; [lia|reflexivity]. }
  rd_step; [|lia].
  split_pre bs 20%nat E. rewrite take_pre, drop_pre by reflexivity.
  apply bytes_ok_app in Hb. destruct Hb as [Hb _].
  assert (Hn : n11 < 256).
  { apply bytes_okb_spec in Hb. cbn [bytes_okb forallb] in Hb. unfold byte_okb in Hb. lia. }
  unfold at_. rd_red.
  destruct (tcp_b12_link n11 Hn) as (T1 & T2 & T3). rewrite T1.
  destruct (n11 / 16 <? 5) eqn:Ed; ltb_tac; [reflexivity|].
  rewrite T2.
  destruct (0 <? (n11 / 16 - 5) * 4) eqn:Eo; ltb_tac.
  - is_true ((n11 / 16 - 5) * 4 <=? 40). unfold RC.read_exact.
    rd_step; [rt_settle|rt_settle; reflexivity].
    rewrite O_ret. fin.
  - rewrite O_ret. fin.
Qed.

(* ---- Icmpv6Header ---- *)
Lemma link_icmpv6 bs :
  read_outcome HIcmpv6 bs = rt_outcome no_kind bs snd (Roundtrip.Icmp6.icmp6_read bs).
Proof.
  unfold read_outcome, read_prog. rewrite read_fixed_outcome.
  destruct (len bs <? 8) eqn:E.
  - unfold Roundtrip.Icmp6.icmp6_read, RC.read_exact. rewrite E. ltb_tac. is_false (8 <=? len bs). reflexivity.
  - destruct (CtlMsg.Proofs.len_ge_cons8 bs E) as (t & c & k0 & k1 & b4 & b5 & b6 & b7 & rest & ->).
    rewrite Roundtrip.Icmp6Proofs.icmp6_read_8. ltb_tac.
    match goal with |- context [8 <=? ?x] => is_true (8 <=? x) end. fin.
Qed.

(* ---- Icmpv4Header ---- *)
Lemma link_icmpv4 bs :
  read_outcome HIcmpv4 bs = rt_outcome no_kind bs snd (Roundtrip.Icmp4.icmp4_read bs).
Proof.
  rewrite icmpv4_read_form.
  destruct (len bs <? 8) eqn:E.
  { unfold Roundtrip.Icmp4.icmp4_read, RC.read_exact. rewrite E. reflexivity. }
  destruct (CtlMsg.Proofs.len_ge_cons8 bs E) as (t & c & k0 & k1 & b4 & b5 & b6 & b7 & rest & ->).
  change (rd (t :: c :: k0 :: k1 :: b4 :: b5 :: b6 :: b7 :: rest) 0) with (Some t).
  change (rd (t :: c :: k0 :: k1 :: b4 :: b5 :: b6 :: b7 :: rest) 1) with (Some c). cbv iota.
  unfold icmpv4_ts. rewrite (N.eqb_sym c 0), Roundtrip.Icmp4Proofs.icmp4_read_test.
  destruct (CtlMsg.Spec.lookup t c CtlMsg.Spec.icmp4_fixed_table) as [v|] eqn:LF.
  - destruct (Roundtrip.Icmp4Proofs.fixed_table_cases t c v LF) as [T ->].
    rewrite Roundtrip.Icmp4Proofs.len8.
    destruct (8 + len rest <? 20) eqn:E20; ltb_tac.
    + unfold Roundtrip.Icmp4.icmp4_read.
      change (t :: 0 :: k0 :: k1 :: b4 :: b5 :: b6 :: b7 :: rest) with ([t; 0; k0; k1; b4; b5; b6; b7] ++ rest).
      rewrite Roundtrip.Icmp4Proofs.read_exact_app by reflexivity.
      change (rd [t; 0; k0; k1; b4; b5; b6; b7] 0) with (Some t).
      change (rd [t; 0; k0; k1; b4; b5; b6; b7] 1) with (Some 0). cbv iota beta.
      rewrite Roundtrip.Icmp4Proofs.icmp4_read_test, LF.
      unfold RC.read_exact. is_true (len rest <? 12). reflexivity.
    + assert (E12 : N.of_nat 12 <= len rest) by (change (N.of_nat 12) with 12; lia).
      split_pre rest 12%nat E12.
      change (t :: 0 :: k0 :: k1 :: b4 :: b5 :: b6 :: b7 :: [n; n0; n1; n2; n3; n4; n5; n6; n7; n8; n9; n10] ++ t0)
        with ([t; 0; k0; k1; b4; b5; b6; b7; n; n0; n1; n2; n3; n4; n5; n6; n7; n8; n9; n10] ++ t0).
      rewrite Roundtrip.Icmp4Proofs.icmp4_read_20 by exact T. fin.
  - rewrite (Roundtrip.Icmp4Proofs.icmp4_read_8 _ _ _ _ _ _ _ _ _ LF). fin.
Qed.
