(* Equiv/ReadNeverBad.v -- audit follow-up (C06), group 3:
   * no reader reaches an outcome the model calls impossible (OBad: Io error other than the end of the data,
     usize underflow of the LimitedReader, impossible index, fuel exhausted), for EVERY input and all 17
     header types -- Equiv/ReadTotal.v had this per type; it was only used outside the exclusion classes;
   * inside the class cut_fixed for IpHeaders (the third conjunct missing from C06_read_cut_fixed_inside);
   * what `same_reason` compares, spelled out: a Len error on either side is the same record on the other
     (len, len_source, layer, layer_start_offset equal; required_len equal except for the documented
     raw-extension-header case), a content rejection the same kind, end of data end of data. *)
From EP Require Import Base.Bytes Parse.Types Parse.Slices Parse.Cursor Parse.HdrModel Parse.HdrView
  IoFault.Spec IoFault.Model IoFault.Proofs Equiv.Model Equiv.ModelRead Equiv.Proofs Equiv.ReadProofs
  Equiv.ReadBase Equiv.ReadSimple Equiv.ReadChain Equiv.ReadIpHeaders Equiv.ReadTotal Equiv.ReadAll.
From Coq Require Import ZArith Lia ZifyN ZifyBool.
Local Open Scope N_scope.

Theorem read_never_bad t bs b : read_outcome t bs <> OBad b.
Proof.
  destruct t; try (apply read_outcome_ok; discriminate). apply sll_read_ok.
Qed.

Lemma read_cut_fixed_ip_headers bs : cut_fixed HIpHeaders bs = true ->
  read_outcome HIpHeaders bs = OContent (KC CIhl) /\ slice_outcome HIpHeaders bs = OEof.
Proof.
  intros Hc. destruct bs as [|b0 r]; [discriminate|]. cbn [cut_fixed] in Hc. set (bs := b0 :: r) in *.
  apply andb_prop in Hc. destruct Hc as [Hc Hi]. apply andb_prop in Hc. destruct Hc as [Hl Hv].
  assert (H0 : rd bs 0 = Some b0) by reflexivity.
  assert (L1 : 1 <= len bs) by (unfold bs; rewrite len_cons; lia).
  rewrite read_outcome_O by discriminate.
  unfold slice_outcome, read_prog, ip_headers_read, IpHeaders.from_slice.
  change (s_len (mk_slice bs)) with (len bs).
  is_false (len bs =? 0). cbn [mk_slice snd]. rewrite H0. cbn [bind]. rewrite Hv.
  change (0, bs) with (mk_slice bs).
  split.
  - rd_step; [|lia].
    rewrite (at_some _ 0 b0) by (rewrite rd_take by lia; exact H0).
    rewrite <- shr4_div. rewrite Hv. rewrite <- land15_mod. change (4 =? 4) with true. cbv iota.
    is_true (N.land b0 15 <? 5). reflexivity.
  - change (s_len (mk_slice bs)) with (len bs). ltb_tac. is_true (len bs <? 20). reflexivity.
Qed.

Theorem read_len_error_full t bs : bytes_ok bs -> cut_fixed t bs = false ->
  (t = HIpHeaders -> announced_missing bs = false /\ F15 bs = false) ->
  forall rq l src ly off,
  (read_outcome t bs = OLen rq l src ly off ->
   exists rq', slice_outcome t bs = OLen rq' l src ly off /\
               (rq = rq' \/ (ly = L_IPV6EXT /\ l < 8 /\ l < rq /\ rq' = 8))) /\
  (slice_outcome t bs = OLen rq l src ly off ->
   exists rq', read_outcome t bs = OLen rq' l src ly off /\
               (rq' = rq \/ (ly = L_IPV6EXT /\ l < 8 /\ l < rq' /\ rq = 8))).
Proof.
  intros Hb Hc Hi rq l src ly off. pose proof (read_eq_slice_all t bs Hb Hc Hi) as H.
  split; intros E; rewrite E in H.
  - destruct (slice_outcome t bs); cbn [same_reason] in H; try contradiction.
    destruct H as (-> & -> & -> & -> & D). eexists. split; [reflexivity|exact D].
  - destruct (read_outcome t bs); cbn [same_reason] in H; try contradiction.
    destruct H as (<- & <- & <- & <- & D). eexists. split; [reflexivity|exact D].
Qed.

(* the same for the two other rejection classes: a content rejection / an end-of-data answer on one side is
   the same answer on the other *)
Theorem read_rejection_iff t bs : bytes_ok bs -> cut_fixed t bs = false ->
  (t = HIpHeaders -> announced_missing bs = false /\ F15 bs = false) ->
  (forall k, read_outcome t bs = OContent k <-> slice_outcome t bs = OContent k) /\
  (read_outcome t bs = OEof <-> slice_outcome t bs = OEof).
Proof.
  intros Hb Hc Hi. pose proof (read_eq_slice_all t bs Hb Hc Hi) as H.
  split; [intros k|]; split; intros E; rewrite E in H.
  - destruct (slice_outcome t bs); cbn [same_reason] in H; try contradiction. now subst.
  - destruct (read_outcome t bs); cbn [same_reason] in H; try contradiction. now subst.
  - destruct (slice_outcome t bs); cbn [same_reason] in H; try contradiction. reflexivity.
  - destruct (read_outcome t bs); cbn [same_reason] in H; try contradiction. reflexivity.
Qed.
