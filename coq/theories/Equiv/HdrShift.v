(* Equiv/HdrShift.v -- C06 group 1 for the struct family (PacketHeaders):
   from_ethernet_slice against from_ether_type on the bytes behind the Ethernet II
   header (pointer-shift equivariance of every struct decoder of Parse/HdrModel.v,
   same technique as Equiv/ShiftProofs.v), and from_ether_type(IPv4 | IPv6)
   against from_ip_slice. *)
From EP Require Import Base.Bytes Parse.Types Parse.Slices Parse.Cursor Parse.View Parse.HdrModel
  Equiv.Model Equiv.Proofs Equiv.ShiftProofs.
From Coq Require Import ZArith Lia ZifyN ZifyBool.
Import SlicedPacketCursor.

Local Open Scope N_scope.

(* ---- shifted values of the struct model ------------------------------------------- *)
Definition sh_pair k (p : slice * slice) : slice * slice := (sh k (fst p), sh k (snd p)).
Definition sh_x k (x : exts6) : exts6 :=
  mkExts6 (option_map (sh k) (x_hbh x)) (option_map (sh k) (x_dest x)) (option_map (sh k) (x_route x))
          (option_map (sh k) (x_fdest x)) (option_map (sh k) (x_frag x)) (option_map (sh k) (x_auth x)).
Definition sh_ih k (i : ip_headers) : ip_headers :=
  match i with
  | IhV4 h a => IhV4 (sh k h) (option_map (sh k) a)
  | IhV6 h x => IhV6 (sh k h) (sh_x k x)
  end.
Definition sh_htr k (t : htransport) : htransport :=
  match t with
  | HtUdp h => HtUdp (sh k h) | HtTcp h => HtTcp (sh k h)
  | HtIcmpv4 h => HtIcmpv4 (sh k h) | HtIcmpv6 h => HtIcmpv6 (sh k h)
  end.
Definition sh_hpl k (p : hpayload) : hpayload :=
  match p with
  | HpEmpty => HpEmpty
  | HpEther e => HpEther (sh_ep k e)
  | HpMacsecMod s => HpMacsecMod (sh k s)
  | HpIp i => HpIp (sh_ipp k i)
  | HpUdp s => HpUdp (sh k s) | HpTcp s => HpTcp (sh k s)
  | HpIcmpv4 s => HpIcmpv4 (sh k s) | HpIcmpv6 s => HpIcmpv6 (sh k s)
  end.
Definition sh_hx k (x : hlink_ext) : hlink_ext :=
  match x with HxVlan h => HxVlan (sh k h) | HxMacsec h => HxMacsec (sh k h) end.
Definition sh_hnet k (n : hnet) : hnet :=
  match n with HnIp i => HnIp (sh_ih k i) | HnArp s => HnArp (sh k s) end.
Definition sh_hp k (p : hpacket) : hpacket :=
  mkH (option_map (sh k) (h_link p)) (map (sh_hx k) (h_exts p)) (option_map (sh_hnet k) (h_net p))
      (option_map (sh_htr k) (h_transport p)) (sh_hpl k (h_payload p)).
Definition sh_hs k (st : hstate) : hstate :=
  mkHs (map (sh_hx k) (hs_exts st)) (sh_hpl k (hs_payload st)) (sh k (hs_rest st)) (hs_et st) (hs_src st).
Definition sh_lo k (o : loop_out) : loop_out :=
  match o with LDone p => LDone (sh_hp k p) | LBreak st => LBreak (sh_hs k st) end.
Definition sh_ihp k (r : ip_headers * ip_payload) : ip_headers * ip_payload :=
  (sh_ih k (fst r), sh_ipp k (snd r)).

(* ---- primitives --------------------------------------------------------------------- *)
Lemma nth_error_firstn_l {A} (l : list A) : forall n i, (i < n)%nat ->
  nth_error (firstn n l) i = nth_error l i.
Proof.
  induction l as [|x l IH]; intros n i H.
  - now rewrite firstn_nil.
  - destruct n; [lia|]. destruct i; cbn [firstn nth_error]; [reflexivity|]. apply IH. lia.
Qed.

Lemma rd_take_l i n (bs : bytes) : i < n -> rd (take n bs) i = rd bs i.
Proof. intros H. unfold rd, take. apply nth_error_firstn_l. lia. Qed.

Lemma idx_from_sh k s a : idx_from (sh k s) a = rmap (sh k) (idx_from s a).
Proof.
  unfold idx_from. rewrite s_len_sh. destruct (a <=? s_len s); [|reflexivity].
  cbn [rmap]. unfold sh. cbn [fst snd]. f_equal. f_equal. lia.
Qed.

Lemma ptr_off_sh k rest base : ptr_off (sh k rest) (sh k base) = ptr_off rest base.
Proof.
  unfold ptr_off, subN. rewrite !s_off_sh.
  destruct (s_off base + k <=? s_off rest + k) eqn:E1, (s_off base <=? s_off rest) eqn:E2; try lia;
    [|reflexivity].
  f_equal. lia.
Qed.

Ltac shrw2 := rewrite ?s_len_sh, ?rdU_sh, ?rd16_sh, ?snd_sh, ?subU_sh, ?idx_from_sh.
Ltac steps2 := unfold lerr; cbn [bind rmap map_len_err]; shrw2; repeat (step; shrw2); try reflexivity.

Lemma eth_hdr_sh k s : Ethernet2Header.from_slice (sh k s) = rmap (sh_pair k) (Ethernet2Header.from_slice s).
Proof. unfold Ethernet2Header.from_slice. steps2. Qed.

Lemma vlan_hdr_sh k s : SingleVlanHeader.from_slice (sh k s) = rmap (sh_pair k) (SingleVlanHeader.from_slice s).
Proof. unfold SingleVlanHeader.from_slice. steps2. Qed.

Lemma raw_to_header_sh k s : raw_ext_to_header (sh k s) = rmap (sh k) (raw_ext_to_header s).
Proof. unfold raw_ext_to_header. steps2. Qed.

Lemma auth_to_header_sh k s : auth_to_header (sh k s) = rmap (sh k) (auth_to_header s).
Proof. unfold auth_to_header. steps2. Qed.

Lemma v4hdr_sh k s : Ipv4Header.from_slice (sh k s) = rmap (sh_pair k) (Ipv4Header.from_slice s).
Proof.
  unfold Ipv4Header.from_slice. rewrite v4h_from_slice_sh.
  destruct (Ipv4HeaderSlice.from_slice s) as [h|[?|?]|?]; cbn [bind rmap]; try reflexivity.
  steps2.
Qed.

Lemma v6hdr_sh k s : Ipv6Header.from_slice (sh k s) = rmap (sh_pair k) (Ipv6Header.from_slice s).
Proof.
  unfold Ipv6Header.from_slice. rewrite v6h_from_slice_sh.
  destruct (Ipv6HeaderSlice.from_slice s) as [h|[?|?]|?]; cbn [bind rmap]; try reflexivity.
  steps2.
Qed.

Definition sh_x4r k (r : option slice * N * slice) : option slice * N * slice :=
  (option_map (sh k) (fst (fst r)), snd (fst r), sh k (snd r)).

Lemma x4_from_slice_sh k start s :
  Ipv4Extensions.from_slice start (sh k s) = rmap (sh_x4r k) (Ipv4Extensions.from_slice start s).
Proof.
  unfold Ipv4Extensions.from_slice. destruct (IPN_AUTH =? start); [|reflexivity].
  rewrite auth_from_slice_sh.
  destruct (IpAuthHeaderSlice.from_slice s) as [h|[?|?]|?]; cbn [bind rmap]; try reflexivity.
  shrw2. destruct (idx_from s (s_len h)) as [r|[?|?]|?]; cbn [bind rmap]; try reflexivity.
  change (IpAuthHeaderSlice.next_header (sh k h)) with (IpAuthHeaderSlice.next_header h).
  destruct (IpAuthHeaderSlice.next_header h) as [nh|[?|?]|?]; cbn [bind rmap]; try reflexivity.
  rewrite auth_to_header_sh.
  destruct (auth_to_header h) as [a|[?|?]|?]; cbn [bind rmap]; reflexivity.
Qed.

(* ---- the IPv6 extension chain ------------------------------------------------------- *)
Definition sh_step k (r : slice * slice * N) : slice * slice * N :=
  (sh k (fst (fst r)), sh k (snd (fst r)), snd r).

Lemma raw_step_sh k slice rest :
  Ipv6Extensions.raw_step (sh k slice) (sh k rest) = rmap (sh_step k) (Ipv6Extensions.raw_step slice rest).
Proof.
  unfold Ipv6Extensions.raw_step. rewrite !s_len_sh.
  destruct (subN (s_len slice) (s_len rest)) as [off|[?|?]|?]; cbn [bind rmap]; try reflexivity.
  rewrite raw_from_slice_sh.
  destruct (Ipv6RawExtHeaderSlice.from_slice rest) as [sl|[?|?]|?]; cbn [bind rmap map_len_err]; try reflexivity.
  shrw2. destruct (idx_from rest (s_len sl)) as [r|[?|?]|?]; cbn [bind rmap]; try reflexivity.
  change (Ipv6RawExtHeaderSlice.next_header (sh k sl)) with (Ipv6RawExtHeaderSlice.next_header sl).
  destruct (Ipv6RawExtHeaderSlice.next_header sl) as [nh|[?|?]|?]; cbn [bind rmap]; try reflexivity.
  rewrite raw_to_header_sh.
  destruct (raw_ext_to_header sl) as [a|[?|?]|?]; cbn [bind rmap]; reflexivity.
Qed.

Definition sh_x6r' k (r : exts6 * N * slice) : exts6 * N * slice :=
  (sh_x k (fst (fst r)), snd (fst r), sh k (snd r)).

Lemma is_some_map {A B} (f : A -> B) (o : option A) : is_some (option_map f o) = is_some o.
Proof. destruct o; reflexivity. Qed.

Lemma x6_loop_sh k fuel : forall slice x rest nh,
  Ipv6Extensions.loop fuel (sh k slice) (sh_x k x) (sh k rest) nh =
  rmap (sh_x6r' k) (Ipv6Extensions.loop fuel slice x rest nh).
Proof.
  induction fuel as [|f IH]; intros slice x rest nh; [reflexivity|].
  cbn [Ipv6Extensions.loop]. destruct x as [hbh dest route fdest frag auth].
  cbn [sh_x x_hbh x_dest x_route x_fdest x_frag x_auth]. rewrite !is_some_map.
  destruct (nh =? IPN_HOP_BY_HOP); [reflexivity|].
  destruct (nh =? IPN_DEST_OPTIONS).
  { destruct route as [rt|]; cbn [option_map].
    - destruct (is_some fdest); [reflexivity|]. rewrite raw_step_sh.
      destruct (Ipv6Extensions.raw_step slice rest) as [[[h r'] nh']|[?|?]|?]; cbn [bind rmap sh_step fst snd];
        try reflexivity.
      apply (IH slice (mkExts6 hbh dest (Some rt) (Some h) frag auth) r' nh').
    - destruct (is_some dest); [reflexivity|]. rewrite raw_step_sh.
      destruct (Ipv6Extensions.raw_step slice rest) as [[[h r'] nh']|[?|?]|?]; cbn [bind rmap sh_step fst snd];
        try reflexivity.
      apply (IH slice (mkExts6 hbh (Some h) None fdest frag auth) r' nh'). }
  destruct (nh =? IPN_ROUTE).
  { destruct (is_some route); [reflexivity|]. rewrite raw_step_sh.
    destruct (Ipv6Extensions.raw_step slice rest) as [[[h r'] nh']|[?|?]|?]; cbn [bind rmap sh_step fst snd];
      try reflexivity.
    apply (IH slice (mkExts6 hbh dest (Some h) None frag auth) r' nh'). }
  destruct (nh =? IPN_FRAG).
  { destruct (is_some frag); [reflexivity|]. rewrite !s_len_sh.
    destruct (subN (s_len slice) (s_len rest)) as [off|[?|?]|?]; cbn [bind rmap]; try reflexivity.
    rewrite frag_from_slice_sh.
    destruct (Ipv6FragmentHeaderSlice.from_slice rest) as [sl|[?|?]|?]; cbn [bind rmap map_len_err]; try reflexivity.
    shrw2. destruct (idx_from rest (s_len sl)) as [r'|[?|?]|?]; cbn [bind rmap]; try reflexivity.
    change (Ipv6FragmentHeaderSlice.next_header (sh k sl)) with (Ipv6FragmentHeaderSlice.next_header sl).
    destruct (Ipv6FragmentHeaderSlice.next_header sl) as [nh'|[?|?]|?]; cbn [bind rmap]; try reflexivity.
    apply (IH slice (mkExts6 hbh dest route fdest (Some sl) auth) r' nh'). }
  destruct (nh =? IPN_AUTH).
  { destruct (is_some auth); [reflexivity|]. rewrite !s_len_sh.
    destruct (subN (s_len slice) (s_len rest)) as [off|[?|?]|?]; cbn [bind rmap]; try reflexivity.
    rewrite auth_from_slice_sh.
    destruct (IpAuthHeaderSlice.from_slice rest) as [sl|[?|?]|?]; cbn [bind rmap]; try reflexivity.
    shrw2. destruct (idx_from rest (s_len sl)) as [r'|[?|?]|?]; cbn [bind rmap]; try reflexivity.
    change (IpAuthHeaderSlice.next_header (sh k sl)) with (IpAuthHeaderSlice.next_header sl).
    destruct (IpAuthHeaderSlice.next_header sl) as [nh'|[?|?]|?]; cbn [bind rmap]; try reflexivity.
    rewrite auth_to_header_sh.
    destruct (auth_to_header sl) as [a|[?|?]|?]; cbn [bind rmap]; try reflexivity.
    apply (IH slice (mkExts6 hbh dest route fdest frag (Some a)) r' nh'). }
  reflexivity.
Qed.

Lemma x6h_from_slice_sh k start s :
  Ipv6Extensions.from_slice start (sh k s) = rmap (sh_x6r' k) (Ipv6Extensions.from_slice start s).
Proof.
  unfold Ipv6Extensions.from_slice. rewrite snd_sh.
  destruct (IPN_HOP_BY_HOP =? start).
  - rewrite raw_from_slice_sh.
    destruct (Ipv6RawExtHeaderSlice.from_slice s) as [sl|[?|?]|?]; cbn [bind rmap]; try reflexivity.
    shrw2. destruct (idx_from s (s_len sl)) as [r'|[?|?]|?]; cbn [bind rmap]; try reflexivity.
    change (Ipv6RawExtHeaderSlice.next_header (sh k sl)) with (Ipv6RawExtHeaderSlice.next_header sl).
    destruct (Ipv6RawExtHeaderSlice.next_header sl) as [nh'|[?|?]|?]; cbn [bind rmap]; try reflexivity.
    rewrite raw_to_header_sh.
    destruct (raw_ext_to_header sl) as [a|[?|?]|?]; cbn [bind rmap]; try reflexivity.
    apply (x6_loop_sh k _ s (mkExts6 (Some a) None None None None None) r' nh').
  - cbn [bind]. apply (x6_loop_sh k _ s exts6_empty s start).
Qed.

Lemma frag_flag_sh k x :
  Ipv6Extensions.is_fragmenting_payload (sh_x k x) = Ipv6Extensions.is_fragmenting_payload x.
Proof. unfold Ipv6Extensions.is_fragmenting_payload. destruct x as [? ? ? ? [f|] ?]; reflexivity. Qed.

(* ---- IpHeaders ---------------------------------------------------------------------- *)
Lemma v4_exts_sh k header rest :
  IpHeaders.v4_exts (sh k header) (sh k rest) = rmap (sh_ihp k) (IpHeaders.v4_exts header rest).
Proof.
  unfold IpHeaders.v4_exts.
  change (Ipv4HeaderSlice.protocol (sh k header)) with (Ipv4HeaderSlice.protocol header).
  destruct (Ipv4HeaderSlice.protocol header) as [proto|[?|?]|?]; cbn [bind rmap]; try reflexivity.
  rewrite x4_from_slice_sh, s_len_sh.
  destruct (Ipv4Extensions.from_slice proto rest) as [[[a nh] r']|[?|?]|?]; cbn [bind rmap sh_x4r fst snd];
    try reflexivity.
  change (Ipv4HeaderSlice.is_fragmenting_payload (sh k header))
    with (Ipv4HeaderSlice.is_fragmenting_payload header).
  destruct (Ipv4HeaderSlice.is_fragmenting_payload header) as [fr|[?|?]|?]; cbn [bind rmap]; reflexivity.
Qed.

Lemma v6_exts_sh k header hp src :
  IpHeaders.v6_exts (sh k header) (sh k hp) src = rmap (sh_ihp k) (IpHeaders.v6_exts header hp src).
Proof.
  unfold IpHeaders.v6_exts.
  change (Ipv6HeaderSlice.next_header (sh k header)) with (Ipv6HeaderSlice.next_header header).
  destruct (Ipv6HeaderSlice.next_header header) as [nh0|[?|?]|?]; cbn [bind rmap]; try reflexivity.
  rewrite x6h_from_slice_sh.
  destruct (Ipv6Extensions.from_slice nh0 hp) as [[[x nh] r']|[?|?]|?]; cbn [bind rmap sh_x6r' fst snd];
    try reflexivity.
  rewrite frag_flag_sh.
  destruct (Ipv6Extensions.is_fragmenting_payload x) as [fr|[?|?]|?]; cbn [bind rmap]; reflexivity.
Qed.

Lemma from_ipv4_slice_sh k s :
  IpHeaders.from_ipv4_slice (sh k s) = rmap (sh_ihp k) (IpHeaders.from_ipv4_slice s).
Proof.
  unfold IpHeaders.from_ipv4_slice. rewrite v4hdr_sh, s_len_sh.
  destruct (Ipv4Header.from_slice s) as [[h r]|[?|?]|?]; cbn [bind rmap sh_pair fst snd]; try reflexivity.
  change (Ipv4HeaderSlice.total_len (sh k h)) with (Ipv4HeaderSlice.total_len h).
  destruct (Ipv4HeaderSlice.total_len h) as [tl|[?|?]|?]; cbn [bind rmap]; try reflexivity.
  rewrite !s_len_sh.
  destruct (s_len h <=? tl); unfold lerr; cbn [bind rmap]; [|reflexivity].
  destruct (subN tl (s_len h)) as [pl|[?|?]|?]; cbn [bind rmap]; try reflexivity.
  destruct (s_len r <? pl); cbn [bind rmap]; [reflexivity|].
  rewrite subU_sh. destruct (subU r 0 pl) as [r'|[?|?]|?]; cbn [bind rmap]; try reflexivity.
  apply v4_exts_sh.
Qed.

Lemma from_ipv6_slice_sh k s :
  IpHeaders.from_ipv6_slice (sh k s) = rmap (sh_ihp k) (IpHeaders.from_ipv6_slice s).
Proof.
  unfold IpHeaders.from_ipv6_slice. rewrite v6hdr_sh, s_len_sh.
  destruct (Ipv6Header.from_slice s) as [[h r]|[?|?]|?]; cbn [bind rmap sh_pair fst snd]; try reflexivity.
  change (Ipv6HeaderSlice.payload_length (sh k h)) with (Ipv6HeaderSlice.payload_length h).
  destruct (Ipv6HeaderSlice.payload_length h) as [pl|[?|?]|?]; cbn [bind rmap]; try reflexivity.
  rewrite !s_len_sh.
  destruct ((0 =? pl) && (40 <? s_len s)); cbn [bind].
  - apply v6_exts_sh.
  - destruct (s_len r <? pl); unfold lerr; cbn [bind rmap]; [reflexivity|].
    rewrite subU_sh. destruct (subU r 0 pl) as [r'|[?|?]|?]; cbn [bind rmap]; try reflexivity.
    apply v6_exts_sh.
Qed.

(* ---- transport ---------------------------------------------------------------------- *)
Lemma tcph_from_slice_sh k s : TcpHeader.from_slice (sh k s) = rmap (sh_pair k) (TcpHeader.from_slice s).
Proof.
  unfold TcpHeader.from_slice, TcpHeaderSlice.from_slice. shrw2.
  destruct (s_len s <? 20); unfold lerr; cbn [bind rmap]; [reflexivity|].
  destruct (rdU s 12) as [b12|[?|?]|?]; cbn [bind rmap]; try reflexivity.
  destruct (N.shiftr (N.land b12 240) 2 <? 20); cbn [bind rmap]; [reflexivity|].
  destruct (s_len s <? N.shiftr (N.land b12 240) 2); cbn [bind rmap]; [reflexivity|].
  shrw2. destruct (subU s 0 (N.shiftr (N.land b12 240) 2)) as [h|[?|?]|?]; cbn [bind rmap]; try reflexivity.
  shrw2. destruct (idx_from s (s_len h)) as [r|[?|?]|?]; cbn [bind rmap]; reflexivity.
Qed.

Definition sh_rt k (r : option htransport * hpayload) : option htransport * hpayload :=
  (option_map (sh_htr k) (fst r), sh_hpl k (snd r)).

Lemma map_len_err_rmap {A} (f : len_error -> len_error) (g : A -> A) (r : res A) :
  map_len_err f (rmap g r) = rmap g (map_len_err f r).
Proof. destruct r as [a|[?|?]|?]; reflexivity. Qed.

Lemma read_transport_sh k p :
  read_transport (sh_ipp k p) = rmap (sh_rt k) (read_transport p).
Proof.
  unfold read_transport. destruct p as [num fr src sl]. cbn [sh_ipp ipp_number ipp_fragmented ipp_src ipp_slice].
  destruct fr; [reflexivity|].
  change (add_len_source (sh_ipp k (mkIpPayload num false src sl)))
    with (add_len_source (mkIpPayload num false src sl)).
  set (als := add_len_source (mkIpPayload num false src sl)).
  destruct (num =? IPN_ICMP).
  { rewrite icmp4_from_slice_sh, map_len_err_rmap.
    destruct (map_len_err als (Icmpv4Slice.from_slice sl)) as [v|[?|?]|?]; cbn [bind rmap]; try reflexivity.
    unfold Icmpv4Acc.header, Icmpv4Acc.payload.
    change (Icmpv4Acc.header_len (sh k v)) with (Icmpv4Acc.header_len v).
    destruct (Icmpv4Acc.header_len v) as [hl|[?|?]|?]; cbn [bind rmap]; try reflexivity.
    shrw2. destruct (subU v 0 hl) as [h|[?|?]|?]; cbn [bind rmap]; try reflexivity.
    destruct (subN (s_len v) hl) as [n|[?|?]|?]; cbn [bind rmap]; try reflexivity.
    shrw2. destruct (subU v hl n) as [pl|[?|?]|?]; cbn [bind rmap]; reflexivity. }
  destruct (num =? IPN_ICMPV6).
  { rewrite icmp6_from_slice_sh, map_len_err_rmap.
    destruct (map_len_err als (Icmpv6Slice.from_slice sl)) as [v|[?|?]|?]; cbn [bind rmap]; try reflexivity.
    unfold Icmpv6Acc.header, Icmpv6Acc.payload. shrw2.
    destruct (subU v 0 8) as [h|[?|?]|?]; cbn [bind rmap]; try reflexivity.
    destruct (subN (s_len v) 8) as [n|[?|?]|?]; cbn [bind rmap]; try reflexivity.
    shrw2. destruct (subU v 8 n) as [pl|[?|?]|?]; cbn [bind rmap]; reflexivity. }
  destruct (num =? IPN_UDP).
  { rewrite udp_from_slice_sh, map_len_err_rmap.
    destruct (map_len_err als (UdpSlice.from_slice sl)) as [v|[?|?]|?]; cbn [bind rmap]; try reflexivity.
    unfold UdpAcc.to_header, UdpAcc.payload. shrw2.
    destruct (subU v 0 8) as [h|[?|?]|?]; cbn [bind rmap]; try reflexivity.
    destruct (subN (s_len v) 8) as [n|[?|?]|?]; cbn [bind rmap]; try reflexivity.
    shrw2. destruct (subU v 8 n) as [pl|[?|?]|?]; cbn [bind rmap]; reflexivity. }
  destruct (num =? IPN_TCP).
  { rewrite tcph_from_slice_sh, map_len_err_rmap.
    destruct (map_len_err als (TcpHeader.from_slice sl)) as [[h r]|[?|?]|?]; cbn [bind rmap]; reflexivity. }
  reflexivity.
Qed.

(* ---- PacketHeaders ------------------------------------------------------------------ *)
Import PacketHeaders.

Lemma add_offset_sh {A} k slice rest e :
  @add_offset A (sh k slice) (sh k rest) e = add_offset slice rest e.
Proof. unfold add_offset. now rewrite ptr_off_sh. Qed.

Lemma push_sh k l x : push (map (sh_hx k) l) (sh_hx k x) = rmap (map (sh_hx k)) (push l x).
Proof.
  unfold push. rewrite len_map. destruct (len l <? LINK_EXTS_CAP); [|reflexivity].
  cbn [rmap]. now rewrite map_app.
Qed.

Lemma add_offset_rmap {A B} (f : A -> B) slice rest e :
  @add_offset B slice rest e = rmap f (@add_offset A slice rest e).
Proof. unfold add_offset. destruct (ptr_off rest slice) as [d|[?|?]|?]; reflexivity. Qed.

Lemma link_loop_sh k fuel : forall slice st,
  link_loop fuel (sh k slice) (sh_hs k st) = rmap (sh_lo k) (link_loop fuel slice st).
Proof.
  induction fuel as [|f IH]; intros slice st; [reflexivity|].
  cbn [link_loop]. destruct st as [exts pl rest et src].
  cbn [sh_hs hs_exts hs_payload hs_rest hs_et hs_src]. rewrite !len_map.
  destruct (is_vlan_type et).
  { destruct (LINK_EXTS_CAP <=? len exts); [reflexivity|].
    rewrite vlan_hdr_sh.
    destruct (SingleVlanHeader.from_slice rest) as [[vl vr]|[e|c]|b]; cbn [rmap sh_pair fst snd].
    - change (SingleVlanHeader.ether_type (sh k vl)) with (SingleVlanHeader.ether_type vl).
      destruct (SingleVlanHeader.ether_type vl) as [et'|[?|?]|?]; cbn [bind rmap]; try reflexivity.
      change (HxVlan (sh k vl)) with (sh_hx k (HxVlan vl)). rewrite (push_sh k exts (HxVlan vl)).
      destruct (push exts (HxVlan vl)) as [exts'|[?|?]|?]; cbn [bind rmap]; try reflexivity.
      apply (IH slice (mkHs exts' (HpEther (mkEtherPayload et' src vr)) vr et' src)).
    - rewrite add_offset_sh. apply add_offset_rmap.
    - reflexivity.
    - reflexivity. }
  destruct (et =? ET_MACSEC); [|reflexivity].
  destruct (LINK_EXTS_CAP <=? len exts); [reflexivity|].
  rewrite macsec_from_slice_sh.
  destruct (Macsec.from_slice rest) as [[mh mp]|[e|c]|b]; cbn [rmap sh_ms ms_header ms_payload].
  - change (HxMacsec (sh k mh)) with (sh_hx k (HxMacsec mh)). rewrite (push_sh k exts (HxMacsec mh)).
    destruct (push exts (HxMacsec mh)) as [exts'|[?|?]|?]; cbn [bind rmap]; try reflexivity.
    destruct mp as [[pet psrc psl]|m]; cbn [sh_mp sh_ep ep_src ep_ether_type ep_slice].
    + destruct psrc;
        match goal with |- _ = rmap _ (link_loop _ _ ?st0) => apply (IH slice st0) end.
    + reflexivity.
  - rewrite add_offset_sh. apply add_offset_rmap.
  - reflexivity.
  - reflexivity.
Qed.

Lemma net_part_sh k slice st :
  net_part (sh k slice) (sh_hs k st) = rmap (sh_hp k) (net_part slice st).
Proof.
  unfold net_part. destruct st as [exts pl rest et src].
  cbn [sh_hs hs_exts hs_payload hs_rest hs_et hs_src].
  destruct (et =? ET_IPV4).
  { rewrite from_ipv4_slice_sh.
    destruct (IpHeaders.from_ipv4_slice rest) as [[ip ipp]|[e|c]|b]; cbn [rmap sh_ihp fst snd].
    - change (ipp_slice (sh_ipp k ipp)) with (sh k (ipp_slice ipp)). rewrite read_transport_sh.
      destruct (read_transport ipp) as [[tr pay]|[e|c]|b]; cbn [rmap sh_rt fst snd]; try reflexivity.
      rewrite add_offset_sh. apply add_offset_rmap.
    - rewrite add_offset_sh. apply add_offset_rmap.
    - reflexivity.
    - reflexivity. }
  destruct (et =? ET_IPV6).
  { rewrite from_ipv6_slice_sh.
    destruct (IpHeaders.from_ipv6_slice rest) as [[ip ipp]|[e|c]|b]; cbn [rmap sh_ihp fst snd].
    - change (ipp_slice (sh_ipp k ipp)) with (sh k (ipp_slice ipp)). rewrite read_transport_sh.
      destruct (read_transport ipp) as [[tr pay]|[e|c]|b]; cbn [rmap sh_rt fst snd]; try reflexivity.
      rewrite add_offset_sh. apply add_offset_rmap.
    - rewrite add_offset_sh. apply add_offset_rmap.
    - reflexivity.
    - reflexivity. }
  destruct (et =? ET_ARP).
  { rewrite arp_from_slice_sh.
    destruct (ArpPacketSlice.from_slice rest) as [a|[e|c]|b]; cbn [rmap]; try reflexivity.
    rewrite add_offset_sh. apply add_offset_rmap. }
  reflexivity.
Qed.

Lemma from_ether_type_slice_sh k et s :
  from_ether_type_slice et (sh k s) = rmap (sh_hp k) (from_ether_type_slice et s).
Proof.
  unfold from_ether_type_slice.
  change (mkHs [] (HpEther (mkEtherPayload et LsSlice (sh k s))) (sh k s) et LsSlice)
    with (sh_hs k (mkHs [] (HpEther (mkEtherPayload et LsSlice s)) s et LsSlice)).
  rewrite link_loop_sh.
  destruct (link_loop 5 s (mkHs [] (HpEther (mkEtherPayload et LsSlice s)) s et LsSlice))
    as [[p|st]|[?|?]|?]; cbn [bind rmap sh_lo]; try reflexivity.
  apply net_part_sh.
Qed.

(* ---- group 1a: from_ethernet_slice against from_ether_type -------------------------- *)
(* every decoded header and the payload 14 bytes later in the caller's buffer,
   every layer_start_offset of a length error 14 bytes later, everything else
   (values, length sources, content errors) equal; the Ethernet II header in front *)
Theorem headers_ethernet_eq_ethertype bs a b :
  rd bs 12 = Some a -> rd bs 13 = Some b ->
  from_ethernet_slice bs =
  match from_ether_type (be16 a b) (drop 14 bs) with
  | Ok r => Ok (mkH (Some (0, take 14 bs)) (map (sh_hx 14) (h_exts r)) (option_map (sh_hnet 14) (h_net r))
                    (option_map (sh_htr 14) (h_transport r)) (sh_hpl 14 (h_payload r)))
  | Err (ELen e) => Err (ELen (le_add_offset e 14))
  | r => r
  end.
Proof.
  intros Ha Hb.
  assert (L : 14 <= len bs) by (apply rd_Some_lt in Hb; lia).
  unfold from_ethernet_slice, from_ether_type, Ethernet2Header.from_slice.
  change (s_len (mk_slice bs)) with (len bs).
  destruct (len bs <? 14) eqn:E; [apply N.ltb_lt in E; lia|].
  unfold subU. change (s_len (mk_slice bs)) with (len bs).
  destruct (0 + 14 <=? len bs) eqn:E2; [|apply N.leb_gt in E2; lia]. cbn [bind].
  rewrite idx_from_ok by (change (s_len (mk_slice bs)) with (len bs); lia). cbn [bind].
  unfold Ethernet2Header.ether_type, rd16, rdU. cbn [mk_slice fst snd].
  change (drop 0 bs) with bs.
  rewrite !rd_take_l by lia.
  change (12 + 1) with 13. rewrite Ha, Hb. cbn [bind].
  change (0 + 14, drop 14 bs) with (sh 14 (mk_slice (drop 14 bs))).
  rewrite from_ether_type_slice_sh.
  destruct (from_ether_type_slice (be16 a b) (mk_slice (drop 14 bs))) as [r|[e|c]|bg]; cbn [rmap]; reflexivity.
Qed.

Theorem headers_ethernet_short bs : len bs < 14 ->
  from_ethernet_slice bs = Err (ELen (mkLenError 14 (len bs) LsSlice LyEthernet2Header 0)).
Proof.
  intros H. unfold from_ethernet_slice, Ethernet2Header.from_slice.
  change (s_len (mk_slice bs)) with (len bs).
  destruct (len bs <? 14) eqn:E; [reflexivity|apply N.ltb_ge in E; lia].
Qed.

(* ---- group 1b: from_ether_type(IPv4 | IPv6) against from_ip_slice -------------------- *)
Lemma le_add_offset_0 e : le_add_offset e 0 = e.
Proof. destruct e. unfold le_add_offset. cbn. now rewrite N.add_0_r. Qed.

Lemma add_offset_self {A} (s : slice) e : @add_offset A s s e = Err (ELen e).
Proof.
  unfold add_offset, ptr_off. rewrite subN_ok' by lia. cbn [bind]. rewrite N.sub_diag.
  now rewrite le_add_offset_0.
Qed.

(* the tail shared by from_ip_slice and the IP arms of from_ether_type *)
Definition ip_tail (slice : Types.slice) (exts : list hlink_ext)
  (r : res (ip_headers * ip_payload)) : res hpacket :=
  match r with
  | Err (ELen e) => add_offset slice slice e
  | Err e => Err e
  | Bug b => Bug b
  | Ok (ip, ip_payload) =>
      match read_transport ip_payload with
      | Err (ELen e) => add_offset slice (ipp_slice ip_payload) e
      | Err e => Err e
      | Bug b => Bug b
      | Ok (transport, payload) => Ok (mkH None exts (Some (HnIp ip)) transport payload)
      end
  end.

Lemma ip_tail_same slice r1 r2 :
  same_answer r1 r2 -> same_answer (ip_tail slice [] r1) (ip_tail slice [] r2).
Proof.
  destruct r1 as [[ip1 p1]|e1|b1], r2 as [[ip2 p2]|e2|b2]; cbn [same_answer]; try contradiction.
  - intros E. injection E as <- <-. apply same_answer_refl.
  - intros E. unfold ip_tail.
    destruct e1 as [l1|c1], e2 as [l2|c2]; rewrite ?add_offset_self; cbn [same_answer]; exact E.
  - intros ->. reflexivity.
Qed.

Lemma from_ip_slice_tail bs :
  from_ip_slice bs = ip_tail (mk_slice bs) [] (IpHeaders.from_slice (mk_slice bs)).
Proof.
  unfold from_ip_slice, ip_tail.
  destruct (IpHeaders.from_slice (mk_slice bs)) as [[ip ipp]|[l|c]|b]; cbn [bind]; try reflexivity.
  now rewrite add_offset_self.
Qed.

Lemma from_ether_type_v4_tail bs :
  from_ether_type ET_IPV4 bs = ip_tail (mk_slice bs) [] (IpHeaders.from_ipv4_slice (mk_slice bs)).
Proof.
  unfold from_ether_type, from_ether_type_slice.
  change (link_loop 5 (mk_slice bs)
            (mkHs [] (HpEther (mkEtherPayload ET_IPV4 LsSlice (mk_slice bs))) (mk_slice bs) ET_IPV4 LsSlice))
    with (@Ok loop_out (LBreak (mkHs [] (HpEther (mkEtherPayload ET_IPV4 LsSlice (mk_slice bs)))
                                  (mk_slice bs) ET_IPV4 LsSlice))).
  cbn [bind]. unfold net_part, ip_tail. cbn [hs_et hs_rest hs_exts].
  change (ET_IPV4 =? ET_IPV4) with true. cbv iota.
  destruct (IpHeaders.from_ipv4_slice (mk_slice bs)) as [[ip ipp]|[l|c]|b]; reflexivity.
Qed.

Lemma from_ether_type_v6_tail bs :
  from_ether_type ET_IPV6 bs = ip_tail (mk_slice bs) [] (IpHeaders.from_ipv6_slice (mk_slice bs)).
Proof.
  unfold from_ether_type, from_ether_type_slice.
  change (link_loop 5 (mk_slice bs)
            (mkHs [] (HpEther (mkEtherPayload ET_IPV6 LsSlice (mk_slice bs))) (mk_slice bs) ET_IPV6 LsSlice))
    with (@Ok loop_out (LBreak (mkHs [] (HpEther (mkEtherPayload ET_IPV6 LsSlice (mk_slice bs)))
                                  (mk_slice bs) ET_IPV6 LsSlice))).
  cbn [bind]. unfold net_part, ip_tail. cbn [hs_et hs_rest hs_exts].
  change (ET_IPV6 =? ET_IPV4) with false. change (ET_IPV6 =? ET_IPV6) with true. cbv iota.
  destruct (IpHeaders.from_ipv6_slice (mk_slice bs)) as [[ip ipp]|[l|c]|b]; reflexivity.
Qed.

(* no exclusion: both struct copies check the 20 fixed bytes before the IHL (F11
   does not reach the PacketHeaders family) *)
Theorem headers_ethertype_eq_ip b rest :
  (N.shiftr b 4 = 4 ->
   same_answer (from_ip_slice (b :: rest)) (from_ether_type ET_IPV4 (b :: rest))) /\
  (N.shiftr b 4 = 6 ->
   same_answer (from_ip_slice (b :: rest)) (from_ether_type ET_IPV6 (b :: rest))).
Proof.
  pose proof (ip_headers_dispatch 0 b rest) as D. unfold ip_headers_specific in D.
  split; intros Hv.
  - rewrite from_ip_slice_tail, from_ether_type_v4_tail. apply ip_tail_same.
    rewrite Hv in D. exact D.
  - rewrite from_ip_slice_tail, from_ether_type_v6_tail. apply ip_tail_same.
    rewrite Hv in D. exact D.
Qed.
