(* Equiv/ReadProofs.v -- C06 group 3: read(Cursor(bs)) and from_slice(bs) have
   the same outcome, proved for the header types listed at the end; the known
   class F15 with its witness. *)
From EP Require Import Base.Bytes Parse.Types Parse.Slices Parse.Cursor Parse.HdrModel Parse.HdrView
  IoFault.Spec IoFault.Model IoFault.Proofs Equiv.Model Equiv.ModelRead Equiv.Proofs.
From Coq Require Import ZArith Lia ZifyN ZifyBool.

Local Open Scope N_scope.

(* one read_exact of a program running on a plain (unlimited) reader *)
Lemma run_PRead s n k : 1 <= src_chunk s ->
  run_r (PRead n k) (mk_rstate s None) =
  if n <=? len (src_data s)
  then run_r (k (take n (src_data s)))
         (mk_rstate (mk_fsource (drop n (src_data s)) (src_chunk s) (src_err s) (src_pulled s + n)) None)
  else (QIo (src_kind s),
        mk_rstate (mk_fsource [] (src_chunk s) (src_err s) (src_pulled s + len (src_data s))) None).
Proof.
  intros Hc. cbn [run_r rs_lim rs_src].
  destruct (n <=? len (src_data s)) eqn:E.
  - rewrite io_read_exact_ok by (try assumption; lia). reflexivity.
  - rewrite io_read_exact_fail by (try assumption; lia). reflexivity.
Qed.

Lemma cursor_chunk bs : 1 <= src_chunk (cursor_src bs).
Proof. cbn. lia. Qed.

(* a header of fixed size n: read = read_exact n; from_slice = length check + prefix *)
Lemma read_fixed_outcome n bs :
  outcome_of_run (run_r (read_fixed n) (mk_rstate (cursor_src bs) None)) =
  if n <=? len bs then OOk n else OEof.
Proof.
  unfold read_fixed. rewrite run_PRead by apply cursor_chunk.
  cbn [cursor_src src_data]. destruct (n <=? len bs); reflexivity.
Qed.

Lemma fixed_slice_outcome n ly bs :
  outcome_of_res s_len
    (if s_len (mk_slice bs) <? n then lerr n (s_len (mk_slice bs)) LsSlice ly else subU (mk_slice bs) 0 n) =
  if n <=? len bs then OOk n else OEof.
Proof.
  change (s_len (mk_slice bs)) with (len bs).
  destruct (len bs <? n) eqn:E, (n <=? len bs) eqn:E'; try lia; [reflexivity|].
  destruct (subU (mk_slice bs) 0 n) as [h| |] eqn:Eh.
  - cbn. now rewrite (subU_len _ _ _ _ Eh).
  - unfold subU in Eh. destruct (0 + n <=? s_len (mk_slice bs)); discriminate.
  - unfold subU in Eh. change (s_len (mk_slice bs)) with (len bs) in Eh.
    destruct (0 + n <=? len bs) eqn:E2; [discriminate|lia].
Qed.

Theorem read_eq_slice_ethernet2 bs : read_outcome HEthernet2 bs = slice_outcome HEthernet2 bs.
Proof.
  unfold read_outcome, slice_outcome, read_prog. rewrite read_fixed_outcome.
  unfold Ethernet2Header.from_slice. change (s_len (mk_slice bs)) with (len bs).
  destruct (len bs <? 14) eqn:E, (14 <=? len bs) eqn:E'; try lia; [reflexivity|].
  destruct (subU (mk_slice bs) 0 14) as [h| |] eqn:Eh; cbn [bind].
  - rewrite idx_from_ok by (change (s_len (mk_slice bs)) with (len bs); lia).
    cbn. now rewrite (subU_len _ _ _ _ Eh).
  - unfold subU in Eh. destruct (0 + 14 <=? s_len (mk_slice bs)); discriminate.
  - unfold subU in Eh. change (s_len (mk_slice bs)) with (len bs) in Eh.
    destruct (0 + 14 <=? len bs) eqn:E2; [discriminate|lia].
Qed.

Theorem read_eq_slice_single_vlan bs : read_outcome HSingleVlan bs = slice_outcome HSingleVlan bs.
Proof.
  unfold read_outcome, slice_outcome, read_prog. rewrite read_fixed_outcome.
  unfold SingleVlanHeader.from_slice. change (s_len (mk_slice bs)) with (len bs).
  destruct (len bs <? 4) eqn:E, (4 <=? len bs) eqn:E'; try lia; [reflexivity|].
  destruct (subU (mk_slice bs) 0 4) as [h| |] eqn:Eh; cbn [bind].
  - rewrite idx_from_ok by (change (s_len (mk_slice bs)) with (len bs); lia).
    cbn. now rewrite (subU_len _ _ _ _ Eh).
  - unfold subU in Eh. destruct (0 + 4 <=? s_len (mk_slice bs)); discriminate.
  - unfold subU in Eh. change (s_len (mk_slice bs)) with (len bs) in Eh.
    destruct (0 + 4 <=? len bs) eqn:E2; [discriminate|lia].
Qed.

Theorem read_eq_slice_udp bs : read_outcome HUdp bs = slice_outcome HUdp bs.
Proof.
  unfold read_outcome, slice_outcome, read_prog. rewrite read_fixed_outcome.
  unfold UdpSlice.header_from_slice. now rewrite fixed_slice_outcome.
Qed.

Lemma rd_take_0 n (bs : bytes) : 1 <= n -> 1 <= len bs -> exists v, rd (take n bs) 0 = Some v.
Proof.
  intros Hn Hl. apply rd_lt_Some. rewrite len_take.
  destruct (N.min_spec n (len bs)) as [[_ ->]|[_ ->]]; lia.
Qed.

Theorem read_eq_slice_ipv6_frag bs : read_outcome HIpv6Frag bs = slice_outcome HIpv6Frag bs.
Proof.
  unfold read_outcome, slice_outcome, read_prog, ipv6_frag_read, with_start.
  rewrite run_PRead by apply cursor_chunk. cbn [cursor_src src_data src_chunk src_err src_pulled].
  unfold Ipv6FragmentHeaderSlice.from_slice. rewrite fixed_slice_outcome.
  destruct (8 <=? len bs) eqn:E; [|reflexivity].
  destruct (rd_take_0 8 bs) as (v & Hv); try lia.
  unfold at_. rewrite Hv. reflexivity.
Qed.

(* ---- known class F15 ------------------------------------------------------- *)
(* IpHeaders::read bounds the extension headers by the IPv6 payload length
   field even when it is 0, IpHeaders::from_slice reads 0 as "up to the end of
   the slice": IPv6, payload length 0, next header an extension header *)
Definition F15 (bs : bytes) : bool :=
  match bs with
  | b0 :: _ :: _ :: _ :: p0 :: p1 :: nh :: _ =>
      (N.shiftr b0 4 =? 6) && (p0 =? 0) && (p1 =? 0) &&
      ((nh =? 0) || (nh =? 43) || (nh =? 44) || (nh =? 51) || (nh =? 60))
  | _ => false
  end.

Definition f15_witness : bytes :=
  [96;0;0;0;0;0;60;64] ++ repeat 0 32 ++ [17;0;0;0;0;0;0;0; 0;1;0;2;0;8;0;0].

Lemma read_eq_slice_ip_headers_refuted :
  exists bs, F15 bs = true /\ read_outcome HIpHeaders bs <> slice_outcome HIpHeaders bs.
Proof.
  exists f15_witness. split; [vm_compute; reflexivity|].
  vm_compute. intros H. discriminate H.
Qed.

(* the witness values, for the record *)
Lemma f15_witness_outcomes :
  read_outcome HIpHeaders f15_witness = OLen 2 0 LS_IPV6_PAYLOAD L_IPV6EXT 40 /\
  slice_outcome HIpHeaders f15_witness = OOk 48.
Proof. split; vm_compute; reflexivity. Qed.
