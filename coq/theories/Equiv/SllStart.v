(* Equiv/SllStart.v -- C06 group 1, `from_linux_sll` as a starting point:
   SlicedPacket::from_linux_sll and LaxPacketHeaders::from_linux_sll against the
   family's from_ether_type on the bytes behind the 16-byte SLL header.

   `sll_head bs` describes, from the bytes alone, what the SLL header at the start
   of bs is: too short, rejected (packet type > 7 / unsupported ARP hardware id),
   valid with a protocol type that is NOT an ether type (netlink, GRE, ignored,
   Linux non-standard ether type), or valid with ether type `et`.  Only in the last
   case is there a second entry point; the theorems also say what happens in the
   other three. *)
From EP Require Import Base.Bytes Parse.Types Parse.Slices Parse.Cursor Parse.View Parse.LaxSlices
  Parse.HdrModel Parse.HdrLaxModel Equiv.Model Equiv.Proofs Equiv.ShiftProofs Equiv.HdrShift Equiv.LaxShift
  Equiv.HdrLaxShift.
From Coq Require Import ZArith Lia ZifyN ZifyBool.

Local Open Scope N_scope.

Inductive sll_class :=
| SllShort
| SllReject (c : content_error)
| SllOther (pt : sll_protocol_type)
| SllEther (et : N).

Definition sll_head (bs : bytes) : sll_class :=
  if len bs <? 16 then SllShort
  else
    match rd bs 0, rd bs 1, rd bs 2, rd bs 3, rd bs 14, rd bs 15 with
    | Some p0, Some p1, Some h0, Some h1, Some e0, Some e1 =>
        if be16 p0 p1 <=? 7 then
          match LinuxSll.protocol_type_try_from (be16 h0 h1) (be16 e0 e1) with
          | Ok (SllEtherType et) => SllEther et
          | Ok pt => SllOther pt
          | Err (EContent c) => SllReject c
          | _ => SllShort
          end
        else SllReject (CeLinuxSllPacketType (be16 p0 p1))
    | _, _, _, _, _, _ => SllShort
    end.

Lemma long16 (bs : bytes) : 16 <= len bs ->
  exists b0 b1 b2 b3 b4 b5 b6 b7 b8 b9 b10 b11 b12 b13 b14 b15 t,
    bs = b0 :: b1 :: b2 :: b3 :: b4 :: b5 :: b6 :: b7 :: b8 :: b9 :: b10 :: b11 :: b12 :: b13 :: b14 :: b15 :: t.
Proof.
  intros H. unfold len in H.
  do 16 (destruct bs as [|? bs]; [cbn [length] in H; lia|]).
  repeat eexists.
Qed.

(* LinuxSllHeaderSlice::from_slice on exactly the 16 header bytes, at any pointer *)
Lemma sll_header_16 o b0 b1 b2 b3 b4 b5 b6 b7 b8 b9 b10 b11 b12 b13 b14 b15 :
  LinuxSll.header_from_slice (o, [b0; b1; b2; b3; b4; b5; b6; b7; b8; b9; b10; b11; b12; b13; b14; b15]) =
  (let* _ := LinuxSll.packet_type_try_from (be16 b0 b1) in
   let* _ := LinuxSll.protocol_type_try_from (be16 b2 b3) (be16 b14 b15) in
   Ok (o + 0, [b0; b1; b2; b3; b4; b5; b6; b7; b8; b9; b10; b11; b12; b13; b14; b15])).
Proof. reflexivity. Qed.

Lemma sll_ptype_16 o b0 b1 b2 b3 b4 b5 b6 b7 b8 b9 b10 b11 b12 b13 b14 b15 :
  LinuxSll.protocol_type (o, [b0; b1; b2; b3; b4; b5; b6; b7; b8; b9; b10; b11; b12; b13; b14; b15]) =
  match LinuxSll.protocol_type_try_from (be16 b2 b3) (be16 b14 b15) with
  | Ok v => Ok v
  | _ => Bug SITE_UNWRAP
  end.
Proof. reflexivity. Qed.

Lemma sll_pkttype_16 o b0 b1 b2 b3 b4 b5 b6 b7 b8 b9 b10 b11 b12 b13 b14 b15 :
  LinuxSll.packet_type (o, [b0; b1; b2; b3; b4; b5; b6; b7; b8; b9; b10; b11; b12; b13; b14; b15]) =
  match LinuxSll.packet_type_try_from (be16 b0 b1) with
  | Ok v => Ok v
  | _ => Bug SITE_UNWRAP
  end.
Proof. reflexivity. Qed.

Lemma try_from_shape hw proto :
  match LinuxSll.protocol_type_try_from hw proto with
  | Ok _ | Err (EContent _) => True
  | _ => False
  end.
Proof.
  unfold LinuxSll.protocol_type_try_from.
  repeat match goal with |- context [if ?c then _ else _] => destruct c end; exact I.
Qed.

(* ---- SlicedPacket ---------------------------------------------------------------------- *)
Import SlicedPacketCursor.

Theorem sll_start_sliced bs :
  match sll_head bs with
  | SllShort =>
      SlicedPacket.from_linux_sll bs = Err (ELen (mkLenError 16 (len bs) LsSlice LyLinuxSllHeader 0))
  | SllReject c => SlicedPacket.from_linux_sll bs = Err (EContent c)
  | SllOther pt =>
      SlicedPacket.from_linux_sll bs =
      Ok (mkSliced (Some (LkLinuxSll (0, take 16 bs) (0, bs))) [] None None)
  | SllEther et =>
      nolink (vres_of (SlicedPacket.from_linux_sll bs)) =
      shift_vres 16 (nolink (vres_of (SlicedPacket.from_ether_type et (drop 16 bs))))
  end.
Proof.
  unfold sll_head, SlicedPacket.from_linux_sll, slice_linux_sll, LinuxSll.from_slice.
  change (s_len (mk_slice bs)) with (len bs).
  destruct (len bs <? 16) eqn:E; [reflexivity|].
  destruct (16 <=? len bs) eqn:E'; [|lia].
  assert (PL : LinuxSll.payload_slice (mk_slice bs) = Ok (sh 16 (mk_slice (drop 16 bs)))).
  { unfold LinuxSll.payload_slice. change (s_len (mk_slice bs)) with (len bs).
    rewrite subN_ok' by lia. cbn [bind]. rewrite subU_all by (change (s_len (mk_slice bs)) with (len bs); lia).
    reflexivity. }
  revert PL.
  destruct (long16 bs ltac:(lia)) as (b0 & b1 & b2 & b3 & b4 & b5 & b6 & b7 & b8 & b9 & b10 & b11 & b12 & b13
                                       & b14 & b15 & t & ->).
  intros PL.
  change (rd _ 0) with (Some b0). change (rd _ 1) with (Some b1). change (rd _ 2) with (Some b2).
  change (rd _ 3) with (Some b3). change (rd _ 14) with (Some b14). change (rd _ 15) with (Some b15).
  cbv iota. cbn [bind].
  match goal with |- context [LinuxSll.header_from_slice ?h] =>
    change (LinuxSll.header_from_slice h)
      with (LinuxSll.header_from_slice (0, [b0; b1; b2; b3; b4; b5; b6; b7; b8; b9; b10; b11; b12; b13; b14; b15]))
  end.
  rewrite sll_header_16. unfold LinuxSll.packet_type_try_from.
  destruct (be16 b0 b1 <=? 7); [|reflexivity]. cbn [bind].
  pose proof (try_from_shape (be16 b2 b3) (be16 b14 b15)) as SH.
  destruct (LinuxSll.protocol_type_try_from (be16 b2 b3) (be16 b14 b15)) as [pt|[?|c]|?] eqn:TF;
    try contradiction; [|reflexivity].
  cbn [bind map_len_err]. rewrite sll_ptype_16, TF. cbn [bind]. rewrite PL. cbn [bind].
  destruct pt as [v|v|v|et|v]; try reflexivity.
  apply rrel_view. unfold SlicedPacket.from_ether_type, slice_ether_type.
  change (mkEtherPayload et LsSlice (sh 16 (mk_slice (drop 16 _))))
    with (sh_ep 16 (mkEtherPayload et LsSlice (mk_slice (drop 16 (b0 :: b1 :: b2 :: b3 :: b4 :: b5 :: b6 :: b7 :: b8
            :: b9 :: b10 :: b11 :: b12 :: b13 :: b14 :: b15 :: t))))).
  apply loop_sh. unfold crel, prel, set_link, new. cbn. repeat split.
Qed.

(* ---- LaxPacketHeaders -------------------------------------------------------------------- *)
Theorem sll_start_laxheaders bs :
  match sll_head bs with
  | SllShort =>
      LaxPacketHeaders.from_linux_sll bs = Err (ELen (mkLenError 16 (len bs) LsSlice LyLinuxSllHeader 0))
  | SllReject c => LaxPacketHeaders.from_linux_sll bs = Err (EContent c)
  | SllOther pt =>
      LaxPacketHeaders.from_linux_sll bs =
      Ok (mkLH (Some (HlLinuxSll (0, take 16 bs))) [] None None (LHpLinuxSll pt (16, drop 16 bs)) None)
  | SllEther et =>
      LaxPacketHeaders.from_linux_sll bs =
      lh_behind 16 (HlLinuxSll (0, take 16 bs)) (LaxPacketHeaders.from_ether_type et (drop 16 bs))
  end.
Proof.
  unfold sll_head, LaxPacketHeaders.from_linux_sll, LaxPacketHeaders.linux_sll_header_from_slice,
    LinuxSll.header_from_slice.
  change (s_len (mk_slice bs)) with (len bs).
  destruct (len bs <? 16) eqn:E; [reflexivity|].
  assert (IX : idx_from (mk_slice bs) 16 = Ok (sh 16 (mk_slice (drop 16 bs)))).
  { rewrite idx_from_ok by (change (s_len (mk_slice bs)) with (len bs); lia). reflexivity. }
  assert (SU : subU (mk_slice bs) 0 16 = Ok (0 + 0, take 16 bs)).
  { unfold subU. change (s_len (mk_slice bs)) with (len bs).
    destruct (0 + 16 <=? len bs) eqn:E2; [reflexivity|lia]. }
  rewrite SU. revert IX. clear SU.
  destruct (long16 bs ltac:(lia)) as (b0 & b1 & b2 & b3 & b4 & b5 & b6 & b7 & b8 & b9 & b10 & b11 & b12 & b13
                                       & b14 & b15 & t & ->).
  intros IX.
  change (rd _ 0) with (Some b0). change (rd _ 1) with (Some b1). change (rd _ 2) with (Some b2).
  change (rd _ 3) with (Some b3). change (rd _ 14) with (Some b14). change (rd _ 15) with (Some b15).
  cbv iota.
  change (rd16 (mk_slice _) 0) with (@Ok N (be16 b0 b1)).
  change (rd16 (mk_slice _) 2) with (@Ok N (be16 b2 b3)).
  change (rd16 (mk_slice _) 14) with (@Ok N (be16 b14 b15)). cbn [bind].
  unfold LinuxSll.packet_type_try_from.
  destruct (be16 b0 b1 <=? 7) eqn:PT; [|reflexivity]. cbn [bind].
  pose proof (try_from_shape (be16 b2 b3) (be16 b14 b15)) as SH.
  destruct (LinuxSll.protocol_type_try_from (be16 b2 b3) (be16 b14 b15)) as [pt|[?|c]|?] eqn:TF;
    try contradiction; [|reflexivity].
  cbn [bind].
  change (take 16 (b0 :: _)) with [b0; b1; b2; b3; b4; b5; b6; b7; b8; b9; b10; b11; b12; b13; b14; b15].
  rewrite sll_pkttype_16, sll_ptype_16, TF. unfold LinuxSll.packet_type_try_from. rewrite PT. cbn [bind].
  rewrite IX. cbn [bind].
  destruct pt as [v|v|v|et|v]; try reflexivity.
  unfold LaxPacketHeaders.from_ether_type. rewrite lh_from_ether_type_slice_sh.
  destruct (LaxPacketHeaders.from_ether_type_slice et _) as [r|[e|c]|bg]; cbn [rmap bind lh_behind];
    try reflexivity.
  now rewrite with_link_shift_stop, shift_stop_spec.
Qed.

(* the class is total and mutually exclusive by construction; witnesses of the four cases *)
Definition sll_hdr (pt hw proto : N) : bytes :=
  [pt / 256; pt mod 256; hw / 256; hw mod 256; 0; 6; 1; 2; 3; 4; 5; 6; 0; 0; proto / 256; proto mod 256].
