(* Equiv/ModelLaxIp.v -- property C06: transliteration of the two version-specific
   `_lax` copies of the struct family's IP boundary,
     net/ip_headers.rs  IpHeaders::from_ipv4_slice_lax, IpHeaders::from_ipv6_slice_lax
   (the version-dispatching copy IpHeaders::from_slice_lax is LaxIpHeaders.from_slice_lax of
   Parse/HdrLaxModel.v, C04).  Conventions as in Parse/HdrModel.v / HdrLaxModel.v: a decoded
   header struct is the sub-slice it was decoded from (header.header_len() = its length),
   shared functions are the shared models, what the copy writes out again is written out
   again here, in the copy's own words:
     - both start from Ipv4Header::from_slice / Ipv6Header::from_slice (the dispatching copy
       checks lengths and IHL by hand);
     - from_ipv4_slice_lax compares `header_rest.len() < total_len - header_len`
       (dispatching copy: `slice.len() < total_len`) and converts the header error enum
       err::ipv4 -> err::ip; its stop error is a bare ip_auth::HeaderSliceError (no layer);
     - from_ipv6_slice_lax tests `payload_len == 0 && !header_rest.is_empty()` and
       `payload_len > header_rest.len()`; its first-header error stays an
       err::ipv6::HeaderSliceError.
   No proofs here. *)
From EP Require Import Base.Bytes Parse.Types Parse.Slices Parse.Cursor Parse.LaxSlices
  Parse.HdrModel Parse.HdrLaxModel.

Local Open Scope N_scope.

Module LaxIpHeadersSpecific.
  Definition from_ipv4_slice_lax (s : slice)
    : res (ip_headers * lax_ip_payload * option slice_error) :=
    match Ipv4Header.from_slice s with
    | Err (ELen e) => Err (ELen e)
    | Err (EContent (CeIpv4Version v)) => Err (EContent (CeIpUnsupportedVersion v))
    | Err (EContent (CeIpv4Ihl v)) => Err (EContent (CeIpIhl v))
    | Err (EContent _) => Bug SITE_UNWRAP      (* err::ipv4::HeaderError has only these two variants *)
    | Bug b => Bug b
    | Ok (header, header_rest) =>
        let* total_len := Ipv4HeaderSlice.total_len header in
        let header_len := s_len header in          (* header.header_len() *)
        let* t :=
          (if total_len <? header_len then Ok (LsSlice, header_rest, false)
           else
             (* `header_rest.len() < total_len - header_len` (usize subtraction) *)
             let* d := subN total_len header_len in
             if s_len header_rest <? d then Ok (LsSlice, header_rest, true)
             else
               (* from_raw_parts(header_rest.as_ptr(), total_len - header_len) *)
               let* p := subU header_rest 0 d in
               Ok (LsIpv4HeaderTotalLen, p, false)) in
        let '(src, rest, incomplete) := t in
        let* proto := Ipv4HeaderSlice.protocol header in
        let* x := LaxIpv4Extensions.from_slice_lax proto rest in
        let '(auth, next_protocol, payload, stop) := x in
        let stop' :=
          match stop with
          | Some (ELen l) => Some (ELen (le_set_src (le_add_offset l header_len) src))
          | o => o
          end in
        let* fragmented := Ipv4HeaderSlice.is_fragmenting_payload header in
        Ok (IhV4 header auth, mkLaxIpp incomplete next_protocol fragmented src payload, stop')
    end.

  Definition from_ipv6_slice_lax (s : slice)
    : res (ip_headers * lax_ip_payload * option stop_error) :=
    let* hr := Ipv6Header.from_slice s in          (* `?` *)
    let '(header, header_rest) := hr in
    let* pl := Ipv6HeaderSlice.payload_length header in
    let* t :=
      (if (pl =? 0) && negb (s_len header_rest =? 0) then Ok (header_rest, LsSlice, false)
       else if s_len header_rest <? pl then Ok (header_rest, LsSlice, true)
       else
         let* p := subU header_rest 0 pl in
         Ok (p, LsIpv6HeaderPayloadLen, false)) in
    let '(header_payload, src, incomplete) := t in
    let* nh0 := Ipv6HeaderSlice.next_header header in
    let* x := LaxIpv6Extensions.from_slice_lax nh0 header_payload in
    let '(exts, next_header, rest, stop) := x in
    let stop' :=
      match stop with
      | Some (ELen l, ly) => Some (ELen (le_set_src (le_add_offset l 40) src), ly)
      | o => o
      end in
    let* fragmented := Ipv6Extensions.is_fragmenting_payload exts in
    Ok (IhV6 header exts, mkLaxIpp incomplete next_header fragmented src rest, stop').
End LaxIpHeadersSpecific.
