(* TcpOpt/Round3.v -- property C13, round 3 ("small closures").
   (1) "yields the same elements" of the property text read literally: the iteration of the
       encoded list yields the SAME elements exactly when no SACK element has a hole
       (`same_elements_iff_canonical`); the deviation for a SACK element with a hole is a
       theorem with a witness (`sack_hole_refuted`), not only an example.
   (2) acceptance of an element list in RFC vocabulary, for EVERY list (no range
       hypothesis): the required size is the length of the RFC encodings, the list is
       accepted exactly when that length is at most 40, rejected with exactly that length
       otherwise (`accept_iff`).
   Only compositions of TcpOpt/Proofs.v; no new model. *)
From EP Require Import Base.Bytes TcpOpt.Spec TcpOpt.Model TcpOpt.Proofs.
Local Open Scope N_scope.

(* ---- (1) same elements <-> canonical ---- *)
Lemma compact_fix_canonical e : compact e = e -> canonical e.
Proof. intros H. rewrite <- H. apply compact_is_canonical. Qed.

Lemma map_compact_same (els : list element) :
  map (fun e => @Ok element read_error (compact e)) els = map Ok els <-> Forall canonical els.
Proof.
  induction els as [|e els IH]; cbn [map].
  - split; [intros _; constructor | reflexivity].
  - split.
    + intros H. injection H as He Hr. constructor.
      * apply compact_fix_canonical. exact He.
      * apply IH. exact Hr.
    + intros H. inversion H as [|? ? Hc Hf]; subst.
      rewrite (compact_canonical e Hc). f_equal. apply IH. exact Hf.
Qed.

Lemma same_elements_iff_canonical els o tr fin :
  Forall element_ok els -> required_len els <= 40 ->
  try_from_elements els = Ret (Ok o) -> elements_iterate o = Ret (tr, fin) ->
  fin = [] /\ (map fst tr = map Ok els <-> Forall canonical els).
Proof.
  intros Hok Hreq Ho Htr.
  destruct (c13_enc_dec els Hok Hreq) as (o' & tr' & Ho' & _ & _ & _ & _ & Htr' & Hmap & _).
  rewrite Ho in Ho'. injection Ho' as <-.
  rewrite Htr in Htr'. injection Htr' as <- ->.
  split; [reflexivity|]. rewrite Hmap. apply map_compact_same.
Qed.

(* the literal reading "encoding then iterating yields the same elements" fails: a SACK
   element whose first optional block is absent and whose second is present *)
Definition sack_hole_els : list element :=
  [SelectiveAcknowledgement (1, 2) (None, Some (3, 4), None)].

Lemma sack_hole_ok : Forall element_ok sack_hole_els /\ required_len sack_hole_els <= 40.
Proof.
  split; [|vm_compute; discriminate].
  repeat constructor; cbn; unfold block_ok, u32_ok; cbn; lia.
Qed.

Lemma sack_hole_refuted :
  exists els o tr, Forall element_ok els /\ required_len els <= 40 /\
    try_from_elements els = Ret (Ok o) /\ elements_iterate o = Ret (tr, []) /\
    map fst tr <> map Ok els /\
    els = [SelectiveAcknowledgement (1, 2) (None, Some (3, 4), None)] /\
    map fst tr = [Ok (SelectiveAcknowledgement (1, 2) (Some (3, 4), None, None))].
Proof.
  exists sack_hole_els.
  eexists. eexists.
  split; [apply sack_hole_ok|]. split; [apply sack_hole_ok|].
  split; [vm_compute; reflexivity|].
  split; [vm_compute; reflexivity|].
  split; [vm_compute; discriminate|].
  split; reflexivity.
Qed.

(* ---- (2) accept iff the RFC length is at most 40 ---- *)
Definition accepted_options (els : list element) : tcp_options :=
  {| o_len := pad4 (len (wire_list (map to_opt els)));
     o_buf := wire_list (map to_opt els) ++ zeros (40 - len (wire_list (map to_opt els))) |}.

Lemma accept_any els : required_len els <= 40 ->
  try_from_elements els = Ret (Ok (accepted_options els)).
Proof.
  intros Hreq. unfold accepted_options. rewrite <- required_len_wire.
  unfold try_from_elements, MAX_LEN. cbv zeta.
  destruct (N.ltb_spec 40 (required_len els)); [lia|].
  assert (W : write_elements els (zeros 40, 0) =
    Ret (wire_list (map to_opt els) ++ zeros (40 - required_len els), 0 + required_len els))
    by (apply (write_elements_char els [] 40 Hreq)).
  rewrite W. cbn [bind]. rewrite N.add_0_l.
  fold (round_len (required_len els)). rewrite round_len_pad4 by assumption. reflexivity.
Qed.

Lemma accept_iff els :
  let n := len (wire_list (map to_opt els)) in
  required_len els = n /\
  (n <= 40 -> try_from_elements els = Ret (Ok (accepted_options els))) /\
  (40 < n -> try_from_elements els = Ret (Err (NotEnoughSpace n))) /\
  ((exists o, try_from_elements els = Ret (Ok o)) <-> n <= 40) /\
  (forall r, try_from_elements els = Ret (Err (NotEnoughSpace r)) <-> 40 < n /\ r = n).
Proof.
  cbv zeta. rewrite <- (required_len_wire els).
  assert (Hacc : required_len els <= 40 -> try_from_elements els = Ret (Ok (accepted_options els)))
    by apply accept_any.
  assert (Hrej : 40 < required_len els ->
                 try_from_elements els = Ret (Err (NotEnoughSpace (required_len els))))
    by apply reject.
  split; [reflexivity|]. split; [exact Hacc|]. split; [exact Hrej|]. split.
  - split.
    + intros [o Ho]. destruct (N.le_gt_cases (required_len els) 40) as [H|H]; [exact H|].
      rewrite (Hrej H) in Ho. discriminate.
    + intros H. eexists. apply Hacc. exact H.
  - intros r. split.
    + intros Hr. destruct (N.le_gt_cases (required_len els) 40) as [H|H].
      * rewrite (Hacc H) in Hr. discriminate.
      * rewrite (Hrej H) in Hr. injection Hr as <-. split; [exact H|reflexivity].
    + intros [H ->]. apply Hrej. exact H.
Qed.
