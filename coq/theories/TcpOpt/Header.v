(* TcpOpt/Header.v -- the TCP HEADER level entry points of the option code,
   on top of the TcpOptions / TcpOptionsIterator model (TcpOpt/Model.v) and of
   the C08 byte-exact model of TcpHeader / TcpHeaderSlice (Roundtrip/Tcp.v:
   to_bytes, from_slice, read, TcpHeaderSlice::from_slice / to_header):

     etherparse/src/transport/tcp_header.rs
        TcpHeader::set_options, set_options_raw, options_iterator,
        header_len, data_offset  (to_bytes / from_slice / read: Roundtrip/Tcp.v)
     etherparse/src/transport/tcp_header_slice.rs
        TcpHeaderSlice::data_offset, options, options_iterator
        (from_slice / to_header: Roundtrip/Tcp.v)
     etherparse/src/transport/tcp_slice.rs
        TcpSlice::from_slice, header_len, header_slice, payload, data_offset,
        options, options_iterator

   Roundtrip/Tcp.v models `struct TcpOptions { len: u8, buf: [u8;40] }` as its
   own record (option bytes opaque, stale bytes behind `len` kept); TcpOpt/Model.v
   has the same struct as `tcp_options`.  [to_c08] / [of_c08] is the (field by
   field) adapter; HeaderProofs.v proves that the two transliterations of
   try_from_slice / as_slice / data_offset coincide through it.

   The Roundtrip modules are Required, not Imported (both developments use the
   names o_len, o_buf, Ok, Err, zeros, slice_range, data_offset, ack). *)
From EP Require Import Base.Bytes TcpOpt.Spec TcpOpt.Model.
From EP Require Roundtrip.Common Roundtrip.Tcp.
Local Open Scope N_scope.

(* ---- adapter between the two records for struct TcpOptions ------------------ *)
Definition to_c08 (o : tcp_options) : Tcp.TcpOptions :=
  {| Tcp.o_len := o_len o; Tcp.o_buf := o_buf o |}.
Definition of_c08 (o : Tcp.TcpOptions) : tcp_options :=
  {| o_len := Tcp.o_len o; o_buf := Tcp.o_buf o |}.

(* `self.options = o` : every other field keeps its value *)
Definition with_options (h : Tcp.TcpHeader) (o : Tcp.TcpOptions) : Tcp.TcpHeader :=
  {| Tcp.source_port := Tcp.source_port h; Tcp.destination_port := Tcp.destination_port h;
     Tcp.sequence_number := Tcp.sequence_number h;
     Tcp.acknowledgment_number := Tcp.acknowledgment_number h;
     Tcp.ns := Tcp.ns h; Tcp.fin := Tcp.fin h; Tcp.syn := Tcp.syn h; Tcp.rst := Tcp.rst h;
     Tcp.psh := Tcp.psh h; Tcp.ack := Tcp.ack h; Tcp.urg := Tcp.urg h; Tcp.ece := Tcp.ece h;
     Tcp.cwr := Tcp.cwr h;
     Tcp.window_size := Tcp.window_size h; Tcp.checksum := Tcp.checksum h;
     Tcp.urgent_pointer := Tcp.urgent_pointer h;
     Tcp.options := o |}.

(* ---- tcp_header.rs ------------------------------------------------------------ *)
(* pub fn set_options(&mut self, elements) -> Result<(), TcpOptionWriteError> {
       self.options = TcpOptions::try_from_elements(elements)?;  Ok(()) }
   result: the returned value and *self afterwards (`?` returns before the
   assignment) *)
Definition set_options (h : Tcp.TcpHeader) (elements : list element)
  : M (result unit write_error * Tcp.TcpHeader) :=
  r <- try_from_elements elements ;;
  match r with
  | Err e => Ret (Err e, h)
  | Ok o => Ret (Ok tt, with_options h (to_c08 o))
  end.

(* pub fn set_options_raw(&mut self, data: &[u8]) -> Result<(), TcpOptionWriteError> {
       self.options = TcpOptions::try_from_slice(data)?;  Ok(()) } *)
Definition set_options_raw (h : Tcp.TcpHeader) (data : bytes)
  : M (result unit write_error * Tcp.TcpHeader) :=
  r <- try_from_slice data ;;
  match r with
  | Err e => Ret (Err e, h)
  | Ok o => Ret (Ok tt, with_options h (to_c08 o))
  end.

(* header_len() = 20 + self.options.len(); data_offset() = self.options.data_offset() *)
Definition hdr_header_len (h : Tcp.TcpHeader) : N := 20 + options_len (of_c08 (Tcp.options h)).
Definition hdr_data_offset (h : Tcp.TcpHeader) : N := data_offset (of_c08 (Tcp.options h)).

(* options_iterator() = self.options.elements_iter()
                      = TcpOptionsIterator { options: self.options.as_slice() }:
   the area the iterator starts on, and the whole iteration *)
Definition hdr_options_area (h : Tcp.TcpHeader) : M bytes := as_slice (of_c08 (Tcp.options h)).
Definition hdr_options_iterate (h : Tcp.TcpHeader) : M (list (item * bytes) * bytes) :=
  elements_iterate (of_c08 (Tcp.options h)).

(* ---- tcp_header_slice.rs -------------------------------------------------------- *)
(* a TcpHeaderSlice is its `slice` (the value Tcp.slice_from_slice returns).
   data_offset(): (self.slice[12] unchecked & 0b1111_0000) >> 4 *)
Definition hs_data_offset (s : bytes) : M N :=
  match rd s 12 with
  | Some b => Ret (Common.shr (Common.band b 240) 4)
  | None => OOB
  end.

(* options(): &self.slice[TcpHeader::MIN_LEN..self.data_offset() as usize * 4] *)
Definition hs_options (s : bytes) : M bytes :=
  d <- hs_data_offset s ;;
  slice_range s 20 (d * 4).

(* options_iterator(): TcpOptionsIterator::from_slice(self.options()) *)
Definition hs_options_iterate (s : bytes) : M (list (item * bytes) * bytes) :=
  o <- hs_options s ;;
  iterate o.

(* ---- tcp_slice.rs ----------------------------------------------------------------- *)
(* struct TcpSlice { header_len: usize, slice: &[u8] } *)
Definition tcp_slice := (N * bytes)%type.

(* TcpSlice::from_slice: the same three checks as TcpHeaderSlice::from_slice,
   but the whole slice (header + payload) is kept *)
Definition ts_from_slice (s : bytes) : Common.res tcp_slice :=
  if len s <? 20 then Common.Err Common.ELen
  else match rd s 12 with
       | None => Common.Err Common.EOOB             (* get_unchecked(12) *)
       | Some b12 =>
         let header_len := Common.shr (Common.band b12 240) 2 in
         if header_len <? 20 then
           Common.Err (Common.EContent (Common.as_u8 (Common.shr header_len 2)))
         else if len s <? header_len then Common.Err Common.ELen
         else Common.Ok (header_len, s)
       end.

Definition ts_header_len (t : tcp_slice) : N := fst t.

(* header_slice(): from_raw_parts(slice.as_ptr(), header_len) *)
Definition ts_header_slice (t : tcp_slice) : M bytes :=
  if fst t <=? len (snd t) then Ret (take (fst t) (snd t)) else OOB.

(* payload(): from_raw_parts(slice.as_ptr().add(header_len), slice.len() - header_len) *)
Definition ts_payload (t : tcp_slice) : M bytes :=
  if fst t <=? len (snd t) then Ret (drop (fst t) (snd t)) else OOB.

(* data_offset(): (self.slice[12] unchecked & 0b1111_0000) >> 4 *)
Definition ts_data_offset (t : tcp_slice) : M N := hs_data_offset (snd t).

(* options(): &self.slice[TcpHeader::MIN_LEN..self.header_len] *)
Definition ts_options (t : tcp_slice) : M bytes := slice_range (snd t) 20 (fst t).

(* options_iterator(): TcpOptionsIterator::from_slice(self.options()) *)
Definition ts_options_iterate (t : tcp_slice) : M (list (item * bytes) * bytes) :=
  o <- ts_options t ;;
  iterate o.

(* ---- statement vocabulary ----------------------------------------------------------- *)
(* the option area of a serialised header: everything behind the 20 fixed bytes *)
Definition options_area_of (header_bytes : bytes) : bytes := drop 20 header_bytes.

(* every field but `options` is the same *)
Definition same_fixed_fields (a b : Tcp.TcpHeader) : Prop := b = with_options a (Tcp.options b).
